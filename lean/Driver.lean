import TrackpyV.Model.Proto
import TrackpyV.Driver.C02
import TrackpyV.Driver.Linker
import TrackpyV.Driver.C20

/-! Line-protocol driver: one request per line on stdin, one response line per request. -/
open TrackpyV

def handlers : List (String × (String → String)) :=
  Driver.C02.handlers ++ Driver.Linker.handlers ++ Driver.C20.handlers

def respond (line : String) : String :=
  let t := line.trimAscii.toString
  match t.splitOn " " with
  | [] => "bad-op"
  | op :: _ =>
    match handlers.lookup op with
    | some h => h ((t.drop (op.length)).trimAscii.toString)
    | none => "bad-op"

partial def loop (h : IO.FS.Stream) (out : IO.FS.Stream) : IO Unit := do
  let line ← h.getLine
  if line.isEmpty then return ()
  out.putStrLn (respond line)
  out.flush
  loop h out

def main : IO Unit := do
  let out ← IO.getStdout
  loop (← IO.getStdin) out
  out.flush
