import TrackpyV.Model.FindLinkOpt
import TrackpyV.Proofs.MergeLost
import TrackpyV.Proofs.SubnetClasses
import TrackpyV.Proofs.AssignSplit
/-!
Acceptance of the FindLinker step model by the monitor in OPTIMALITY mode, under the side
condition `addedLocalB` (every added feature is seen by the sources of one sub-net only).

Part 1: the sub-nets of the step cover every source; the loop only appends to level and choices.
Part 2: under `addedLocalB` the candidate list a source had when its sub-net was solved has the
        same members as its candidate list on the EMITTED level, so the solver's assignment of a
        merged sub-net is optimal with respect to the emitted level.
Part 3: the connected components of the emitted level's candidate graph refine the merged
        sub-nets; by `Assign.isOptimal_append_split` the assignment is optimal on each component.
Part 4: reading the labels back (`asgOf`) returns the choices; `optWhy = none`.
-/
namespace TrackpyV.FindLink
open TrackpyV.Linker TrackpyV.Assign

/-! ## Part 1 -/

theorem orderGroups_cover (gs : List Group) (i : Nat) :
    i ∈ (orderGroups gs).flatMap (·.1) ↔ i ∈ gs.flatMap (·.1) :=
  (List.Perm.flatMap_right (fun g : Group => g.1) (orderGroups_perm gs)).mem_iff

/-- after `include_lost` every source is in a sub-net -/
theorem groups1_cover (cfg : Cfg) (st : State) (t : Int) (dsts : List Pos) (i : Nat)
    (hi : i < st.srcs.length) : i ∈ (groups1 cfg st t dsts).flatMap (·.1) := by
  unfold groups1
  rw [List.flatMap_append, List.mem_append]
  by_cases hne : dsOfCands (stepCands cfg st t dsts) i = []
  · right
    rw [mem_lostSingles_fst, stepCands_length]
    exact ⟨hi, hne⟩
  · left
    rw [orderGroups_cover]
    exact stepGroups_cover cfg st t dsts i hi hne

theorem sameG_self_of_mem {gs : List Group} {i : Nat} (h : i ∈ gs.flatMap (·.1)) : SameG gs i i := by
  obtain ⟨g, hg, hi⟩ := List.mem_flatMap.mp h
  exact ⟨g, hg, hi, hi⟩

/-- … and so it is after `merge_lost_subnets` -/
theorem flGroups_cover (cfg : Cfg) (st : State) (t : Int) (dsts : List Pos) (i : Nat)
    (hi : i < st.srcs.length) : SameG (flGroups cfg st t dsts) i i :=
  (sameG_self_of_mem (groups1_cover cfg st t dsts i hi)).mono (mergeLost_coarser cfg st t _)

/-- two sub-nets of a partition that share a source are the same sub-net -/
theorem group_eq_of_common {gs : List Group} (hnd : (gs.flatMap (·.1)).Nodup) {g g' : Group}
    (hg : g ∈ gs) (hg' : g' ∈ gs) {i : Nat} (hi : i ∈ g.1) (hi' : i ∈ g'.1) : g = g' :=
  eq_of_mem_flatMap_nodup' gs (·.1) hnd g g' hg hg' i hi hi'

theorem SameG.trans' {gs : List Group} (hnd : (gs.flatMap (·.1)).Nodup) {a b c : Nat}
    (h1 : SameG gs a b) (h2 : SameG gs b c) : SameG gs a c := by
  obtain ⟨g, hg, ha, hb⟩ := h1
  obtain ⟨g', hg', hb', hc⟩ := h2
  have := group_eq_of_common hnd hg hg' hb hb'
  subst this
  exact ⟨g, hg, ha, hc⟩

/-- the relocated features admitted for sub-net `g` (find_link.py:474, subnet.py:408-420) -/
def admOf (cfg : Cfg) (st : State) (t : Int) (orc : Oracle) (acc : Acc) (g : Group) : List RFeat :=
  (if short g then (orc acc.lvl (g.1.map (viewOf cfg st t))).take (g.1.length - g.2.length)
    else []).filter (fun x => inReach cfg (g.1.map (viewOf cfg st t)) x.1)

theorem processGroup_eq (cfg : Cfg) (st : State) (t : Int) (orc : Oracle) (n0 : Nat) (acc : Acc)
    (g : Group) :
    processGroup cfg st t orc n0 acc g =
      { lvl := acc.lvl ++ (admOf cfg st t orc acc g).map (·.1),
        masses := acc.masses ++ (admOf cfg st t orc acc g).map (·.2),
        choices := acc.choices ++ groupCh cfg st t n0 acc.lvl.length
          (acc.lvl ++ (admOf cfg st t orc acc g).map (·.1)) g } := rfl

/-- one iteration of the loop appends to the level and to the choices; what it appends to the
level is seen by a source of the sub-net -/
theorem processGroup_grows (cfg : Cfg) (st : State) (t : Int) (orc : Oracle) (n0 : Nat) (acc : Acc)
    (g : Group) :
    ∃ ext, (processGroup cfg st t orc n0 acc g).lvl = acc.lvl ++ ext ∧
      (processGroup cfg st t orc n0 acc g).choices =
        acc.choices ++ groupCh cfg st t n0 acc.lvl.length (acc.lvl ++ ext) g ∧
      ∀ q ∈ ext, ∃ i ∈ g.1, dist2 cfg.w (viewOf cfg st t i) q ≤ cfg.B := by
  have h := processGroup_eq cfg st t orc n0 acc g
  refine ⟨(admOf cfg st t orc acc g).map (·.1), by rw [h], by rw [h], ?_⟩
  intro q hq
  obtain ⟨x, hx, rfl⟩ := List.mem_map.mp hq
  have := (List.mem_filter.mp hx).2
  simp only [inReach, List.any_eq_true, List.mem_map, decide_eq_true_eq] at this
  obtain ⟨p, ⟨i, hi, rfl⟩, hd⟩ := this
  exact ⟨i, hi, hd⟩

theorem foldl_grows (cfg : Cfg) (st : State) (t : Int) (orc : Oracle) (n0 : Nat) :
    ∀ (r : List Group) (acc : Acc), ∃ ext ch,
      (r.foldl (processGroup cfg st t orc n0) acc).lvl = acc.lvl ++ ext ∧
      (r.foldl (processGroup cfg st t orc n0) acc).choices = acc.choices ++ ch ∧
      ∀ q ∈ ext, ∃ g ∈ r, ∃ i ∈ g.1, dist2 cfg.w (viewOf cfg st t i) q ≤ cfg.B
  | [], acc => ⟨[], [], by simp, by simp, by simp⟩
  | g :: r, acc => by
    obtain ⟨e1, h1, h2, h3⟩ := processGroup_grows cfg st t orc n0 acc g
    obtain ⟨e2, c2, k1, k2, k3⟩ := foldl_grows cfg st t orc n0 r (processGroup cfg st t orc n0 acc g)
    refine ⟨e1 ++ e2, groupCh cfg st t n0 acc.lvl.length (acc.lvl ++ e1) g ++ c2, ?_, ?_, ?_⟩
    · simp only [List.foldl_cons]; rw [k1, h1, List.append_assoc]
    · simp only [List.foldl_cons]; rw [k2, h2, List.append_assoc]
    · intro q hq
      rcases List.mem_append.mp hq with hq | hq
      · obtain ⟨i, hi, hd⟩ := h3 q hq
        exact ⟨g, List.mem_cons_self .., i, hi, hd⟩
      · obtain ⟨g', hg', i, hi, hd⟩ := k3 q hq
        exact ⟨g', List.mem_cons_of_mem _ hg', i, hi, hd⟩

/-! ## reading the labels back -/

/-- what `asgOf` reads back from the labels made of well-formed choices is the choice itself,
provided the chosen candidate is one of the source's candidates on that level -/
theorem asgOf_of_choice {cfg : Cfg} {st : State} {t : Int} {L : List Pos} {ch : List (Nat × Cand)}
    (hch : ChoiceOK cfg st t L ch) (hg : Good st) (x : Nat × Cand) (hx : x ∈ ch)
    (hc : x.2 ∈ candsOf cfg t L (st.srcs[x.1]'(hch.fst_lt x hx))) :
    asgOf cfg st (labelsOf st ch L.length) (stepCands cfg st t L) x.1 = x.2 := by
  have hi := hch.fst_lt x hx
  obtain ⟨i, c⟩ := x
  simp only at hi hc ⊢
  have hsrc : st.srcs[i]? = some st.srcs[i] := List.getElem?_eq_getElem hi
  have hcs : getD' (stepCands cfg st t L) i [] = candsOf cfg t L st.srcs[i] :=
    srcOf_stepCands cfg st t L i hi
  simp only [asgOf, hsrc, hcs, chosenOf]
  cases hd : c.1 with
  | none =>
    have hcB := none_mem_candsOf cfg t L _ c hc hd
    have hnot : st.srcs[i].track ∉ labelsOf st ch L.length := by
      apply track_not_mem_of_unlinked hch hg i hi
      intro y hy hyi
      have := ch_src_inj hch y (i, c) hy hx hyi
      rw [this]; exact hd
    have : (labelsOf st ch L.length).idxOf? st.srcs[i].track = none :=
      List.idxOf?_eq_none_iff.mpr hnot
    rw [this]
    exact hcB.symm
  | some j =>
    obtain ⟨d, c2⟩ := c
    simp only at hd
    subst hd
    obtain ⟨hj, hc2, _⟩ := (candidate_iff_in_range cfg t L _ j c2).mp hc
    have hidx := idxOf_chosen hch hg (i, (some j, c2)) hx j rfl L.length hj
    simp only at hidx
    rw [hidx]
    simp only
    cases hf : (candsOf cfg t L st.srcs[i]).find? (fun c' => c'.1 == some j) with
    | none =>
      have := List.find?_eq_none.mp hf (some j, c2) hc
      simp at this
    | some c' =>
      simp only
      have hc'm := List.mem_of_find?_eq_some hf
      have hc'j : c'.1 = some j := by simpa using List.find?_some hf
      obtain ⟨d', c2'⟩ := c'
      simp only at hc'j
      subst hc'j
      obtain ⟨_, hc2', _⟩ := (candidate_iff_in_range cfg t L _ j c2').mp hc'm
      rw [hc2, hc2']

/-! ## Part 2: the candidate lists at solving time and on the emitted level -/

/-- `candidate_iff_in_range` with `getElem?` -/
theorem cand_iff (cfg : Cfg) (t : Int) (D : List Pos) (s : Source) (j k : Nat) :
    (some j, k) ∈ candsOf cfg t D s ↔
      ∃ q, D[j]? = some q ∧ k = dist2 cfg.w (view cfg t s) q ∧ k ≤ cfg.B := by
  rw [candidate_iff_in_range]
  constructor
  · rintro ⟨hj, hk, hle⟩
    exact ⟨D[j], List.getElem?_eq_getElem hj, hk, hle⟩
  · rintro ⟨q, hq, hk, hle⟩
    rw [List.getElem?_eq_some_iff] at hq
    obtain ⟨hj, rfl⟩ := hq
    exact ⟨hj, hk, hle⟩

theorem none_cand_iff (cfg : Cfg) (t : Int) (D : List Pos) (s : Source) (k : Nat) :
    (none, k) ∈ candsOf cfg t D s ↔ k = cfg.B := by
  constructor
  · intro h
    have := none_mem_candsOf cfg t D s (none, k) h rfl
    exact (Prod.mk.inj this).2
  · rintro rfl
    exact candsOf_hasNull cfg t D s

/-- **the candidate list a source had when its sub-net was solved has the same members as its
candidate list on the emitted level**, if the features added for earlier (`e1`) and later (`e2`)
sub-nets are out of its range -/
theorem fcands_mem_iff (cfg : Cfg) (st : State) (t : Int) (dsts e1 eg e2 : List Pos) (i : Nat)
    (s : Source) (hs : st.srcs[i]? = some s)
    (h1 : ∀ q ∈ e1, ¬ dist2 cfg.w (view cfg t s) q ≤ cfg.B)
    (h2 : ∀ q ∈ e2, ¬ dist2 cfg.w (view cfg t s) q ≤ cfg.B) (c : Cand) :
    c ∈ fcands cfg st t dsts.length (dsts ++ e1).length (dsts ++ e1 ++ eg) i ↔
      c ∈ candsOf cfg t (dsts ++ e1 ++ eg ++ e2) s := by
  unfold fcands
  rw [hs]
  simp only [List.mem_filter]
  obtain ⟨d, k⟩ := c
  cases d with
  | none =>
    simp only [keepCand_none, and_true]
    rw [none_cand_iff, none_cand_iff]
  | some j =>
    rw [cand_iff, cand_iff, keepCand_some]
    simp only [Bool.or_eq_true, decide_eq_true_eq]
    constructor
    · rintro ⟨⟨q, hq, hk, hle⟩, _⟩
      exact ⟨q, getElem?_append_some hq, hk, hle⟩
    · rintro ⟨q, hq, hk, hle⟩
      rcases getElem?_append_cases hq with hq | ⟨_, hq2⟩
      · refine ⟨⟨q, hq, hk, hle⟩, ?_⟩
        by_cases hj0 : j < dsts.length
        · exact Or.inl hj0
        · right
          by_contra hjb
          have hjb' : j < (dsts ++ e1).length := by omega
          rw [List.append_assoc, ← List.append_assoc] at hq
          rw [List.getElem?_append_left hjb'] at hq
          rcases getElem?_append_cases hq with hq | ⟨_, hq1⟩
          · exact hj0 (lt_of_getElem?_some hq)
          · exact h1 q hq1 (hk ▸ hle)
      · exact absurd (hk ▸ hle) (h2 q hq2)

/-- the loop seen from one sub-net `g`: the sub-nets before (`r1`) and after (`r2`), the features
added for them (`e1`, `e2`) and for `g` (`eg`), and the choices -/
structure Split (cfg : Cfg) (st : State) (t : Int) (orc : Oracle) (dsts : List Pos)
    (r1 : List Group) (g : Group) (r2 : List Group) (e1 eg e2 : List Pos)
    (c1 c2 : List (Nat × Cand)) : Prop where
  gs : flGroups cfg st t dsts = r1 ++ g :: r2
  lvl : (flAcc cfg st t orc dsts).lvl = dsts ++ e1 ++ eg ++ e2
  ch : (flAcc cfg st t orc dsts).choices =
    c1 ++ groupCh cfg st t dsts.length (dsts ++ e1).length (dsts ++ e1 ++ eg) g ++ c2
  seen1 : ∀ q ∈ e1, ∃ g' ∈ r1, ∃ i ∈ g'.1, dist2 cfg.w (viewOf cfg st t i) q ≤ cfg.B
  seen2 : ∀ q ∈ e2, ∃ g' ∈ r2, ∃ i ∈ g'.1, dist2 cfg.w (viewOf cfg st t i) q ≤ cfg.B

theorem split_exists (cfg : Cfg) (st : State) (t : Int) (orc : Oracle) (dsts : List Pos) (g : Group)
    (hg : g ∈ flGroups cfg st t dsts) :
    ∃ r1 r2 e1 eg e2 c1 c2, Split cfg st t orc dsts r1 g r2 e1 eg e2 c1 c2 := by
  obtain ⟨r1, r2, hsplit⟩ := List.append_of_mem hg
  obtain ⟨e1, c1, hl1, hc1, hs1⟩ := foldl_grows cfg st t orc dsts.length r1
    { lvl := dsts, masses := [], choices := [] }
  obtain ⟨eg, hlg, hcg, _⟩ := processGroup_grows cfg st t orc dsts.length
    (r1.foldl (processGroup cfg st t orc dsts.length) { lvl := dsts, masses := [], choices := [] }) g
  obtain ⟨e2, c2, hl2, hc2, hs2⟩ := foldl_grows cfg st t orc dsts.length r2
    (processGroup cfg st t orc dsts.length
      (r1.foldl (processGroup cfg st t orc dsts.length) { lvl := dsts, masses := [], choices := [] }) g)
  have hfold : flAcc cfg st t orc dsts = r2.foldl (processGroup cfg st t orc dsts.length)
      (processGroup cfg st t orc dsts.length
        (r1.foldl (processGroup cfg st t orc dsts.length)
          { lvl := dsts, masses := [], choices := [] }) g) := by
    unfold flAcc
    rw [hsplit, List.foldl_append, List.foldl_cons]
  simp only at hl1 hc1
  rw [hl1] at hlg hcg
  rw [hc1, List.nil_append] at hcg
  refine ⟨r1, r2, e1, eg, e2, c1, c2, hsplit, ?_, ?_, hs1, hs2⟩
  · rw [hfold, hl2, hlg]
  · rw [hfold, hc2, hcg]

/-! ### the side condition -/

/-- every feature of `extra` is local: the sources that see it belong to ONE sub-net -/
def AddedLocal (cfg : Cfg) (st : State) (t : Int) (gs : List Group) (extra : List Pos) : Prop :=
  ∀ q ∈ extra, ∃ G ∈ gs, ∀ i, i < st.srcs.length →
    dist2 cfg.w (viewOf cfg st t i) q ≤ cfg.B → i ∈ G.1

theorem addedLocal_of_B {cfg : Cfg} {st : State} {t : Int} {gs : List Group} {n0 : Nat}
    {lvl : List Pos} (h : addedLocalB cfg st t gs n0 lvl = true) :
    AddedLocal cfg st t gs (lvl.drop n0) := by
  intro q hq
  simp only [addedLocalB, List.all_eq_true, List.any_eq_true, List.mem_range, Bool.or_eq_true,
    Bool.not_eq_true', seesB, decide_eq_false_iff_not, List.contains_eq_mem,
    decide_eq_true_eq] at h
  obtain ⟨G, hG, hall⟩ := h q hq
  refine ⟨G, hG, ?_⟩
  intro i hi hd
  rcases hall i hi with h' | h'
  · exact absurd hd h'
  · exact h'

theorem addedLocalB_of {cfg : Cfg} {st : State} {t : Int} {gs : List Group} {n0 : Nat}
    {lvl : List Pos} (h : AddedLocal cfg st t gs (lvl.drop n0)) :
    addedLocalB cfg st t gs n0 lvl = true := by
  simp only [addedLocalB, List.all_eq_true, List.any_eq_true, List.mem_range, Bool.or_eq_true,
    Bool.not_eq_true', seesB, decide_eq_false_iff_not, List.contains_eq_mem, decide_eq_true_eq]
  intro q hq
  obtain ⟨G, hG, hall⟩ := h q hq
  refine ⟨G, hG, ?_⟩
  intro i hi
  by_cases hd : dist2 cfg.w (viewOf cfg st t i) q ≤ cfg.B
  · exact Or.inr (hall i hi hd)
  · exact Or.inl hd

theorem other_group_false {gs r1 r2 : List Group} {g g' : Group}
    (hnd : (gs.flatMap (·.1)).Nodup) (hsp : gs = r1 ++ g :: r2) (hg' : g' ∈ r1 ∨ g' ∈ r2) {i : Nat}
    (hi : i ∈ g.1) (hi' : i ∈ g'.1) : False := by
  subst hsp
  simp only [List.flatMap_append, List.flatMap_cons, List.nodup_append] at hnd
  obtain ⟨_, ⟨_, _, h23⟩, h1⟩ := hnd
  rcases hg' with hg' | hg'
  · exact h1 i (List.mem_flatMap.mpr ⟨g', hg', hi'⟩) i (List.mem_append_left _ hi) rfl
  · exact h23 i hi i (List.mem_flatMap.mpr ⟨g', hg', hi'⟩) rfl

/-- under the side condition a feature added for another sub-net is out of range -/
theorem not_seen {cfg : Cfg} {st : State} {t : Int} {gs r1 r2 : List Group} {g g' : Group}
    {extra : List Pos} (hnd : (gs.flatMap (·.1)).Nodup) (hlt : ∀ i ∈ gs.flatMap (·.1), i < st.srcs.length)
    (hloc : AddedLocal cfg st t gs extra) (hsp : gs = r1 ++ g :: r2) (hg' : g' ∈ r1 ∨ g' ∈ r2)
    {q : Pos} (hq : q ∈ extra) {i i' : Nat} (hi : i ∈ g.1) (hi' : i' ∈ g'.1)
    (hd' : dist2 cfg.w (viewOf cfg st t i') q ≤ cfg.B) :
    ¬ dist2 cfg.w (viewOf cfg st t i) q ≤ cfg.B := by
  intro hd
  obtain ⟨G, hG, hall⟩ := hloc q hq
  have hgm : g ∈ gs := by rw [hsp]; simp
  have hg'm : g' ∈ gs := by
    rw [hsp]
    rcases hg' with h | h
    · exact List.mem_append_left _ h
    · exact List.mem_append_right _ (List.mem_cons_of_mem _ h)
  have h1 := hall i (hlt i (List.mem_flatMap.mpr ⟨g, hgm, hi⟩)) hd
  have h2 := hall i' (hlt i' (List.mem_flatMap.mpr ⟨g', hg'm, hi'⟩)) hd'
  have := group_eq_of_common hnd hg'm hG hi' h2
  subst this
  exact other_group_false hnd hsp hg' hi h1

/-- **the solver's assignment of a merged sub-net is optimal with respect to the candidate lists of
the EMITTED level** -/
theorem group_optimal (cfg : Cfg) (st : State) (t : Int) (orc : Oracle) (dsts : List Pos)
    (hloc : AddedLocal cfg st t (flGroups cfg st t dsts)
      ((flAcc cfg st t orc dsts).lvl.drop dsts.length))
    {r1 r2 : List Group} {g : Group} {e1 eg e2 : List Pos} {c1 c2 : List (Nat × Cand)}
    (sp : Split cfg st t orc dsts r1 g r2 e1 eg e2 c1 c2) (hne : g.1 ≠ []) :
    ∃ a, groupCh cfg st t dsts.length (dsts ++ e1).length (dsts ++ e1 ++ eg) g = g.1.zip a ∧
      a.length = g.1.length ∧
      IsOptimal (g.1.map (srcOf (stepCands cfg st t (flAcc cfg st t orc dsts).lvl))) a := by
  have hinv := flGroups_inv cfg st t dsts
  have hgm : g ∈ flGroups cfg st t dsts := by rw [sp.gs]; simp
  have hlt : ∀ i ∈ g.1, i < st.srcs.length :=
    fun i hi => hinv.src_lt i (List.mem_flatMap.mpr ⟨g, hgm, hi⟩)
  obtain ⟨c, a, hsol⟩ := groupCh_total cfg st t dsts.length (dsts ++ e1).length (dsts ++ e1 ++ eg)
    g hne hlt
  obtain ⟨hadm, hcost⟩ := solveOrdered_admissible _ c a hsol
  have hlen : a.length = g.1.length := by simpa using picks_length hadm.1
  have hch : groupCh cfg st t dsts.length (dsts ++ e1).length (dsts ++ e1 ++ eg) g = g.1.zip a := by
    unfold groupCh
    have : g.1.isEmpty = false := by simpa using hne
    simp only [this, Bool.false_eq_true, if_false, hsol]
  refine ⟨a, hch, hlen, ?_⟩
  have hmapne : g.1.map (fcands cfg st t dsts.length (dsts ++ e1).length (dsts ++ e1 ++ eg)) ≠ [] := by
    simpa using hne
  have hsorted : AllSorted
      (g.1.map (fcands cfg st t dsts.length (dsts ++ e1).length (dsts ++ e1 ++ eg))) := by
    intro s hs
    simp only [List.mem_map] at hs
    obtain ⟨i, _, rfl⟩ := hs
    exact fcands_sorted cfg st t _ _ _ i
  have hopt0 : IsOptimal
      (g.1.map (fcands cfg st t dsts.length (dsts ++ e1).length (dsts ++ e1 ++ eg))) a := by
    refine ⟨hadm, ?_⟩
    intro a' ha'
    obtain ⟨c', b', e, hle⟩ := solveOrdered_optimal _ hmapne hsorted a' ha'
    rw [hsol] at e
    cases e
    omega
  refine (isOptimal_map_congr g.1 _ _ ?_ a).mp hopt0
  intro i hi cd
  have hil := hlt i hi
  rw [srcOf_stepCands cfg st t _ i hil, sp.lvl]
  have hdrop : (flAcc cfg st t orc dsts).lvl.drop dsts.length = e1 ++ eg ++ e2 := by
    rw [sp.lvl, List.append_assoc, List.append_assoc, List.drop_left, List.append_assoc]
  rw [hdrop] at hloc
  have hview : viewOf cfg st t i = view cfg t st.srcs[i] :=
    viewOf_eq cfg st t i _ (List.getElem?_eq_getElem hil)
  apply fcands_mem_iff cfg st t dsts e1 eg e2 i st.srcs[i] (List.getElem?_eq_getElem hil)
  · intro q hq
    obtain ⟨g', hg', i', hi', hd'⟩ := sp.seen1 q hq
    rw [← hview]
    exact not_seen hinv.src_nodup hinv.src_lt hloc sp.gs (Or.inl hg')
      (List.mem_append_left _ (List.mem_append_left _ hq)) hi hi' hd'
  · intro q hq
    obtain ⟨g', hg', i', hi', hd'⟩ := sp.seen2 q hq
    rw [← hview]
    exact not_seen hinv.src_nodup hinv.src_lt hloc sp.gs (Or.inr hg')
      (List.mem_append_right _ hq) hi hi' hd'

/-! ## Part 3: from merged sub-nets to the connected components of the emitted level -/

theorem mem_dsOfCands_iff (cfg : Cfg) (st : State) (t : Int) (D : List Pos) (i d : Nat) :
    d ∈ dsOfCands (stepCands cfg st t D) i ↔ ∃ s q, st.srcs[i]? = some s ∧ D[d]? = some q ∧
      dist2 cfg.w (view cfg t s) q ≤ cfg.B := by
  cases hs : st.srcs[i]? with
  | none =>
    have : dsOfCands (stepCands cfg st t D) i = [] := by
      simp [dsOfCands, getD', stepCands, hs, realDests]
    rw [this]
    simp
  | some s =>
    rw [dsOfCands_stepCands cfg st t D i s hs]
    constructor
    · intro h
      simp only [realDests, List.mem_filterMap] at h
      obtain ⟨⟨d', k⟩, hc, hd⟩ := h
      simp only at hd
      subst hd
      obtain ⟨q, hq, hk, hle⟩ := (cand_iff cfg t D s d k).mp hc
      exact ⟨s, q, rfl, hq, hk ▸ hle⟩
    · rintro ⟨s', q, hs', hq, hd⟩
      cases hs'
      exact mem_realDests_candsOf cfg t D s d q hq hd

/-- a set of sources whose assignment is optimal (candidate lists of level `D`) and that contains
a connected component `C` of `D`'s candidate graph: the assignment is optimal on `C` — no source
outside `C` has a candidate destination in `C` (lemma (b) applied to `C` and the rest) -/
theorem component_optimal (cfg : Cfg) (st : State) (t : Int) (D : List Pos) (C : Group)
    (hC : C ∈ stepGroups cfg st t D) (l : List Nat) (hl : l.Nodup)
    (hlt : ∀ i ∈ l, i < st.srcs.length) (hsub : ∀ i ∈ C.1, i ∈ l) (h : Nat → Cand)
    (hopt : IsOptimal (l.map (srcOf (stepCands cfg st t D))) (l.map h)) :
    IsOptimal (C.1.map (srcOf (stepCands cfg st t D))) (C.1.map h) := by
  have hinv := stepGroups_inv cfg st t D
  have hsrc := stepGroups_srcInv cfg st t D
  have hCnd : C.1.Nodup := by
    have := hsrc.nodup
    unfold List.Nodup at this
    rw [List.pairwise_flatMap] at this
    exact this.1 C hC
  have hperm : l.Perm (C.1 ++ l.filter (fun i => !(C.1.contains i))) := by
    have h1 : (l.filter (fun i => C.1.contains i) ++ l.filter (fun i => !(C.1.contains i))).Perm l :=
      List.filter_append_perm _ l
    have h2 : (l.filter (fun i => C.1.contains i)).Perm C.1 := by
      rw [List.perm_ext_iff_of_nodup (hl.filter _) hCnd]
      intro i
      simp only [List.mem_filter, List.contains_eq_mem, decide_eq_true_eq]
      exact ⟨fun hh => hh.2, fun hh => ⟨hsub i hh, hh⟩⟩
    exact h1.symm.trans (h2.append_right _)
  have hopt' := isOptimal_map_perm hperm _ h hopt
  rw [List.map_append, List.map_append] at hopt'
  refine (isOptimal_append_split _ _ ?_ _ _ (by simp) hopt').1
  intro x hx hx'
  have hxC : x ∈ C.2 := groupDests_gSrcs_subset _ C _ _ hinv hC x hx
  simp only [groupDests, List.mem_flatMap, List.mem_map] at hx'
  obtain ⟨sc, ⟨i, hi, rfl⟩, hxs⟩ := hx'
  have hxi : x ∈ dsOfCands (stepCands cfg st t D) i := by
    simpa [dsOfCands, srcOf, realDests, dests] using hxs
  simp only [List.mem_filter, Bool.not_eq_true', List.contains_eq_mem, decide_eq_false_iff_not] at hi
  have hcov := stepGroups_cover cfg st t D i (hlt i hi.1) (List.ne_nil_of_mem hxi)
  obtain ⟨C', hC', hiC'⟩ := List.mem_flatMap.mp hcov
  have hxC' : x ∈ C'.2 := hinv.closed C' hC' i hiC' x hxi
  have hdn : ((stepGroups cfg st t D).flatMap (·.2)).Nodup :=
    (hinv.dests_perm.nodup_iff).mpr List.nodup_range
  have := eq_of_mem_flatMap_nodup' _ (·.2) hdn C C' hC hC' x hxC hxC'
  subst this
  exact hi.2 hiC'

/-- under the side condition, sources that share a candidate destination on the emitted level
are in the same merged sub-net -/
theorem share_sameG (cfg : Cfg) (st : State) (t : Int) (orc : Oracle) (dsts : List Pos)
    (hloc : AddedLocal cfg st t (flGroups cfg st t dsts)
      ((flAcc cfg st t orc dsts).lvl.drop dsts.length)) (i i' d : Nat)
    (hi : d ∈ dsOfCands (stepCands cfg st t (flAcc cfg st t orc dsts).lvl) i)
    (hi' : d ∈ dsOfCands (stepCands cfg st t (flAcc cfg st t orc dsts).lvl) i') :
    SameG (flGroups cfg st t dsts) i i' := by
  have hinv := flGroups_inv cfg st t dsts
  obtain ⟨extra, hlvl, _⟩ := (flAcc_inv cfg st t orc dsts).pre
  rw [hlvl] at hi hi' hloc
  rw [List.drop_left] at hloc
  obtain ⟨s, q, hs, hq, hd⟩ := (mem_dsOfCands_iff cfg st t _ i d).mp hi
  obtain ⟨s', q', hs', hq', hd'⟩ := (mem_dsOfCands_iff cfg st t _ i' d).mp hi'
  rw [hq] at hq'
  cases hq'
  have hil := lt_of_getElem?_some hs
  have hil' := lt_of_getElem?_some hs'
  rcases getElem?_append_cases hq with hq0 | ⟨_, hqe⟩
  · -- a detected feature: both sources are in the sub-net that holds it
    have h1 : d ∈ dsOfCands (stepCands cfg st t dsts) i :=
      (mem_dsOfCands_iff cfg st t dsts i d).mpr ⟨s, q, hs, hq0, hd⟩
    have h2 : d ∈ dsOfCands (stepCands cfg st t dsts) i' :=
      (mem_dsOfCands_iff cfg st t dsts i' d).mpr ⟨s', q, hs', hq0, hd'⟩
    obtain ⟨g, hg, hig, _⟩ := flGroups_cover cfg st t dsts i hil
    obtain ⟨g', hg', hig', _⟩ := flGroups_cover cfg st t dsts i' hil'
    have hdg := hinv.closed g hg i hig d h1
    have hdg' := hinv.closed g' hg' i' hig' d h2
    have := eq_of_mem_flatMap_nodup' _ (·.2) hinv.dst_nodup g g' hg hg' d hdg hdg'
    subst this
    exact ⟨g, hg, hig, hig'⟩
  · -- an added feature: the side condition
    obtain ⟨G, hG, hall⟩ := hloc q hqe
    refine ⟨G, hG, hall i hil ?_, hall i' hil' ?_⟩
    · rw [viewOf_eq cfg st t i s hs]; exact hd
    · rw [viewOf_eq cfg st t i' s' hs']; exact hd'

/-- **the connected components of the emitted level's candidate graph refine the merged
sub-nets** (under the side condition) -/
theorem component_in_group (cfg : Cfg) (st : State) (t : Int) (orc : Oracle) (dsts : List Pos)
    (hloc : AddedLocal cfg st t (flGroups cfg st t dsts)
      ((flAcc cfg st t orc dsts).lvl.drop dsts.length))
    (C : Group) (hC : C ∈ stepGroups cfg st t (flAcc cfg st t orc dsts).lvl) (hne : C.1 ≠ []) :
    ∃ g ∈ flGroups cfg st t dsts, ∀ i ∈ C.1, i ∈ g.1 := by
  have hinv := flGroups_inv cfg st t dsts
  obtain ⟨i0, hi0⟩ := List.exists_mem_of_ne_nil _ hne
  have hcl := fun i i' hi hi' => stepGroups_classes (SameG (flGroups cfg st t dsts))
    (fun a b c h1 h2 => SameG.trans' hinv.src_nodup h1 h2) cfg st t (flAcc cfg st t orc dsts).lvl
    (share_sameG cfg st t orc dsts hloc) C hC i i' hi hi'
  obtain ⟨g, hg, hg0, _⟩ := hcl i0 i0 hi0 hi0
  refine ⟨g, hg, ?_⟩
  intro i hi
  obtain ⟨g', hg', h0', hi'⟩ := hcl i0 i hi0 hi
  have := group_eq_of_common hinv.src_nodup hg hg' hg0 h0'
  subst this
  exact hi'

/-! ## Part 4: the monitor's optimality test passes -/

/-- what the monitor reads back from the model's labels for the sources of a merged sub-net is the
solver's assignment, and it is optimal with respect to the emitted level -/
theorem group_asg_optimal (cfg : Cfg) (st : State) (hg : Good st) (t : Int) (orc : Oracle)
    (dsts : List Pos)
    (hloc : AddedLocal cfg st t (flGroups cfg st t dsts)
      ((flAcc cfg st t orc dsts).lvl.drop dsts.length))
    (g : Group) (hgm : g ∈ flGroups cfg st t dsts) (hne : g.1 ≠ []) :
    IsOptimal (g.1.map (srcOf (stepCands cfg st t (flAcc cfg st t orc dsts).lvl)))
      (g.1.map (asgOf cfg st
        (labelsOf st (flAcc cfg st t orc dsts).choices (flAcc cfg st t orc dsts).lvl.length)
        (stepCands cfg st t (flAcc cfg st t orc dsts).lvl))) := by
  obtain ⟨r1, r2, e1, eg, e2, c1, c2, sp⟩ := split_exists cfg st t orc dsts g hgm
  obtain ⟨a, hch, hlen, hopt⟩ := group_optimal cfg st t orc dsts hloc sp hne
  have hinv := flGroups_inv cfg st t dsts
  have hlt : ∀ i ∈ g.1, i < st.srcs.length :=
    fun i hi => hinv.src_lt i (List.mem_flatMap.mpr ⟨g, hgm, hi⟩)
  have hcok := flAcc_choiceOK cfg st t orc dsts
  have hasg : g.1.map (asgOf cfg st
      (labelsOf st (flAcc cfg st t orc dsts).choices (flAcc cfg st t orc dsts).lvl.length)
      (stepCands cfg st t (flAcc cfg st t orc dsts).lvl)) = a := by
    apply List.ext_getElem
    · simp [hlen]
    · intro k hk1 hk2
      simp only [List.getElem_map]
      have hk : k < g.1.length := by simpa using hk1
      have hz : (g.1[k], a[k]) ∈ g.1.zip a := by
        rw [List.mem_iff_getElem]
        exact ⟨k, by simp [hlen]; exact hk, by simp⟩
      have hmem : (g.1[k], a[k]) ∈ (flAcc cfg st t orc dsts).choices := by
        rw [sp.ch, hch]
        exact List.mem_append_left _ (List.mem_append_right _ hz)
      have hc := picks_zip_mem g.1 _ a hopt.1.1 g.1[k] a[k] hz
      rw [srcOf_stepCands cfg st t _ g.1[k] (hlt _ (List.getElem_mem hk))] at hc
      exact asgOf_of_choice hcok hg (g.1[k], a[k]) hmem hc
  rw [hasg]
  exact hopt

/-- **the C02 part of the monitor's relation accepts the model's labels on the emitted level**,
for every state with distinct used tracks, every level and oracle, under the side condition -/
theorem flAlgo_optimal (cfg : Cfg) (hdrop : cfg.drop = false) (st : State) (hg : Good st) (t : Int)
    (orc : Oracle) (dsts : List Pos)
    (hloc : AddedLocal cfg st t (flGroups cfg st t dsts)
      ((flAcc cfg st t orc dsts).lvl.drop dsts.length)) :
    optWhy cfg st t (flAcc cfg st t orc dsts).lvl
      (labelsOf st (flAcc cfg st t orc dsts).choices (flAcc cfg st t orc dsts).lvl.length) = none := by
  unfold optWhy
  simp only
  generalize hL : (flAcc cfg st t orc dsts).lvl = L at *
  generalize hlab : labelsOf st (flAcc cfg st t orc dsts).choices L.length = labels at *
  have h1 : (!(pairwiseDisjointB ((gSrcs (stepCands cfg st t L) (stepGroups cfg st t L)).map
      groupDests))) = false := by
    simp [step_groups_disjoint cfg st t L]
  have h2 : (!((gSrcs (stepCands cfg st t L) (stepGroups cfg st t L)).zip
      ((gAsg cfg st labels (stepCands cfg st t L) (stepGroups cfg st t L)).zip
        (stepGroups cfg st t L))).all (fun x => groupOkB cfg x.1 x.2.1 x.2.2)) = false := by
    simp only [Bool.not_eq_false', gSrcs, gAsg, zip3_map_same, List.all_eq_true, List.mem_map]
    rintro _ ⟨C, hC, rfl⟩
    simp only
    unfold groupOkB
    by_cases hne : C.1 = []
    · simp [hne]
    · have hise : (C.1.map (srcOf (stepCands cfg st t L))).isEmpty = false := by simpa using hne
      have hmapne : C.1.map (srcOf (stepCands cfg st t L)) ≠ [] := by simpa using hne
      have hClt : ∀ i ∈ C.1, i < st.srcs.length := fun i hi => group_src_lt cfg st t L C hC i hi
      have hsorted : AllSorted (C.1.map (srcOf (stepCands cfg st t L))) := by
        intro s hs
        simp only [List.mem_map] at hs
        obtain ⟨i, hi, rfl⟩ := hs
        rw [srcOf_stepCands cfg st t L i (hClt i hi)]
        exact candsOf_sorted cfg t L _
      have hnull : ∀ s ∈ C.1.map (srcOf (stepCands cfg st t L)), HasNull s := by
        intro s hs
        simp only [List.mem_map] at hs
        obtain ⟨i, hi, rfl⟩ := hs
        rw [srcOf_stepCands cfg st t L i (hClt i hi)]
        exact ⟨cfg.B, candsOf_hasNull cfg t L _⟩
      -- the merged sub-net that contains this component, and optimality on the component
      subst hL
      obtain ⟨g, hgm, hsub⟩ := component_in_group cfg st t orc dsts hloc C hC hne
      have hinv := flGroups_inv cfg st t dsts
      have hgne : g.1 ≠ [] := by
        obtain ⟨i0, hi0⟩ := List.exists_mem_of_ne_nil _ hne
        exact List.ne_nil_of_mem (hsub i0 hi0)
      have hgnd : g.1.Nodup := by
        have := hinv.src_nodup
        unfold List.Nodup at this
        rw [List.pairwise_flatMap] at this
        exact this.1 g hgm
      have hglt : ∀ i ∈ g.1, i < st.srcs.length :=
        fun i hi => hinv.src_lt i (List.mem_flatMap.mpr ⟨g, hgm, hi⟩)
      have hgopt := group_asg_optimal cfg st hg t orc dsts hloc g hgm hgne
      rw [hlab] at hgopt
      have hCopt := component_optimal cfg st t _ C hC g.1 hgnd hglt hsub _ hgopt
      obtain ⟨c', b, hsol⟩ := solveOrdered_total _ hmapne hsorted hnull
      obtain ⟨hbadm, hbcost⟩ := solveOrdered_admissible _ c' b hsol
      obtain ⟨c'', b'', hsol', hle⟩ := solveOrdered_optimal _ hmapne hsorted _ hCopt.1
      rw [hsol] at hsol'
      cases hsol'
      have hge := hCopt.2 b hbadm
      have hceq : cost (C.1.map (asgOf cfg st labels
          (stepCands cfg st t (flAcc cfg st t orc dsts).lvl))) = c' := by omega
      simp only [hise, Bool.false_eq_true, if_false, hdrop, Bool.false_and, hsol, hceq,
        beq_self_eq_true, Bool.and_true, Bool.and_eq_true, List.all_eq_true]
      exact ⟨fun s hs => (sortedB_iff s).mpr (hsorted s hs), (admissibleB_iff _ _ _).mpr hCopt.1⟩
  simp only [h1, h2, Bool.false_eq_true, if_false]

end TrackpyV.FindLink
