import TrackpyV.Model.LocatePost
import Batteries.Data.List.Perm
import Mathlib.Tactic.Linarith
import Mathlib.Tactic.Ring
/-!
Helper lemmas for C08 (`Props/C08.lean`): the duplicate rule, the mass sort, `argmax`,
sub-multiset facts about the selection stages, the ep arithmetic.
-/
namespace TrackpyV.LocatePost
open List

/-! ## dedupe -/

theorem dedupe_sublist (sep : List Rat) (l : List Feat) : (dedupe sep l).Sublist l := by
  unfold dedupe
  split
  · exact filter_sublist
  · exact Sublist.refl _

theorem mem_dedupe {sep : List Rat} {l : List Feat} {x : Feat}
    (hs : sep.all (fun s => decide (0 < s)) = true) :
    x ∈ dedupe sep l ↔ x ∈ l ∧ isDropped sep l x = false := by
  unfold dedupe
  rw [if_pos hs]
  simp [mem_filter]

/-- of a duplicate pair at least one row is named by `to_drop` -/
theorem pair_one_dropped {sep : List Rat} {l : List Feat} {x y : Feat}
    (hx : x ∈ l) (hy : y ∈ l) (ht : x.tag < y.tag) (hc : close sep x y = true) :
    isDropped sep l x = true ∨ isDropped sep l y = true := by
  by_cases hd : dropFirst sep x y = true
  · left
    unfold isDropped
    rw [any_eq_true]
    exact ⟨y, hy, by simp [ht, hc, hd]⟩
  · right
    unfold isDropped
    rw [any_eq_true]
    refine ⟨x, hx, ?_⟩
    have hd' : dropFirst sep x y = false := by simpa using hd
    simp [ht, hc, hd']

theorem dedupe_separated {sep : List Rat} {l : List Feat} {x y : Feat}
    (hs : sep.all (fun s => decide (0 < s)) = true)
    (hx : x ∈ dedupe sep l) (hy : y ∈ dedupe sep l) (ht : x.tag < y.tag) :
    close sep x y = false := by
  rw [mem_dedupe hs] at hx hy
  by_contra hc
  have hc' : close sep x y = true := by simpa using hc
  rcases pair_one_dropped hx.1 hy.1 ht hc' with h | h
  · rw [hx.2] at h; exact Bool.noConfusion h
  · rw [hy.2] at h; exact Bool.noConfusion h

theorem sqdiff_comm : ∀ (A B : List Rat),
    (List.zipWith (· - ·) A B).map (fun d => d * d) = (List.zipWith (· - ·) B A).map (fun d => d * d)
  | [], B => by cases B <;> simp
  | _ :: _, [] => by simp
  | a :: A, b :: B => by
    simp only [zipWith_cons_cons, map_cons, sqdiff_comm A B]
    congr 1
    ring

/-- the rescaled distance does not depend on the order of the two rows -/
theorem dist2_comm (sep p q : List Rat) : dist2 sep p q = dist2 sep q p := by
  unfold dist2
  rw [sqdiff_comm]

/-! ## rescale -/

@[simp] theorem rescale_tag (s : Rat) (f : Feat) : (rescale s f).tag = f.tag := rfl
@[simp] theorem rescale_pos (s : Rat) (f : Feat) : (rescale s f).pos = f.pos := rfl
@[simp] theorem rescale_size (s : Rat) (f : Feat) : (rescale s f).size = f.size := rfl
@[simp] theorem rescale_rawMass (s : Rat) (f : Feat) : (rescale s f).rawMass = f.rawMass := rfl
@[simp] theorem rescale_extra (s : Rat) (f : Feat) : (rescale s f).extra = f.extra := rfl
@[simp] theorem rescale_mass (s : Rat) (f : Feat) : (rescale s f).mass = f.mass / s := rfl
@[simp] theorem rescale_signal (s : Rat) (f : Feat) :
    (rescale s f).signal = f.signal.map (· / s) := rfl

theorem close_rescale (sep : List Rat) (s : Rat) (a b : Feat) :
    close sep (rescale s a) (rescale s b) = close sep a b := rfl

theorem mem_stage12 {sep : List Rat} {scale : Rat} {l : List Feat} {o : Feat}
    (h : o ∈ stage12 sep scale l) : ∃ f, f ∈ dedupe sep l ∧ o = rescale scale f := by
  unfold stage12 at h
  rw [mem_map] at h
  obtain ⟨f, hf, rfl⟩ := h
  exact ⟨f, hf, rfl⟩

/-! ## filter -/

theorem mem_massSizeFilter {mm : Rat} {ms : Option Rat} {l : List Feat} {x : Feat} :
    x ∈ massSizeFilter mm ms l ↔ x ∈ l ∧ keep mm ms x = true := by
  unfold massSizeFilter
  simp [mem_filter]

theorem filter_sublist_of_imp {α} {p q : α → Bool} (h : ∀ a, p a = true → q a = true)
    (l : List α) : (l.filter p).Sublist (l.filter q) := by
  induction l with
  | nil => simp
  | cons a l ih =>
    by_cases hp : p a = true
    · have hq := h a hp
      simp only [filter_cons, hp, hq, if_true]
      exact ih.cons_cons a
    · have hp' : p a = false := by simpa using hp
      by_cases hq : q a = true
      · simp only [filter_cons, hp', hq, if_true]
        exact ih.cons a
      · have hq' : q a = false := by simpa using hq
        simp only [filter_cons, hp', hq']
        exact ih

/-- `maxsize' ≤ maxsize` with `none` = no limit -/
def sizeLe : Option Rat → Option Rat → Prop
  | _, none => True
  | none, some _ => False
  | some a, some b => a ≤ b

theorem sizeOk_mono {ms ms' : Option Rat} (h : sizeLe ms' ms) (f : Feat)
    (hk : sizeOk ms' f = true) : sizeOk ms f = true := by
  cases ms with
  | none => rfl
  | some s =>
    cases ms' with
    | none => exact absurd h (by simp [sizeLe])
    | some s' =>
      simp only [sizeLe] at h
      unfold sizeOk at hk ⊢
      cases hz : f.size with
      | none => simp [hz] at hk
      | some z =>
        simp only [hz, decide_eq_true_eq] at hk ⊢
        exact lt_of_lt_of_le hk h

theorem keep_mono {mm mm' : Rat} {ms ms' : Option Rat} (hm : mm ≤ mm') (hs : sizeLe ms' ms)
    (f : Feat) (hk : keep mm' ms' f = true) : keep mm ms f = true := by
  unfold keep at hk ⊢
  rw [Bool.and_eq_true] at hk ⊢
  refine ⟨?_, sizeOk_mono hs f hk.2⟩
  have := hk.1
  simp only [gt_iff_lt, decide_eq_true_eq] at this ⊢
  exact lt_of_le_of_lt hm this

/-! ## sorting by mass, argmax -/

theorem insertByMass_perm (r : Feat) (l : List Feat) : (insertByMass r l).Perm (r :: l) := by
  induction l with
  | nil => simp [insertByMass]
  | cons a l ih =>
    simp only [insertByMass]
    split
    · exact Perm.refl _
    · exact ((Perm.cons a ih).trans (Perm.swap r a l))

theorem sortByMass_perm (l : List Feat) : (sortByMass l).Perm l := by
  induction l with
  | nil => simp [sortByMass]
  | cons a l ih =>
    have : sortByMass (a :: l) = insertByMass a (sortByMass l) := rfl
    rw [this]
    exact (insertByMass_perm a _).trans (Perm.cons a ih)

def MassSorted (l : List Feat) : Prop := l.Pairwise (fun a b => a.mass ≤ b.mass)

theorem insertByMass_sorted (r : Feat) (l : List Feat) (h : MassSorted l) :
    MassSorted (insertByMass r l) := by
  induction l with
  | nil => simp [insertByMass, MassSorted]
  | cons a l ih =>
    unfold MassSorted at h ⊢
    rw [pairwise_cons] at h
    simp only [insertByMass]
    split
    · rename_i hlt
      rw [pairwise_cons]
      refine ⟨?_, pairwise_cons.2 h⟩
      intro b hb
      rcases mem_cons.1 hb with rfl | hb
      · exact le_of_lt hlt
      · exact le_trans (le_of_lt hlt) (h.1 b hb)
    · rename_i hnl
      rw [pairwise_cons]
      refine ⟨?_, ih h.2⟩
      intro b hb
      have hb' := (insertByMass_perm r l).subset hb
      rcases mem_cons.1 hb' with rfl | hb'
      · exact not_lt.1 hnl
      · exact h.1 b hb'

theorem sortByMass_sorted (l : List Feat) : MassSorted (sortByMass l) := by
  induction l with
  | nil => simp [sortByMass, MassSorted]
  | cons a l ih => exact insertByMass_sorted a _ ih

theorem sorted_take_le_drop {l : List Feat} (h : MassSorted l) (k : Nat) :
    ∀ x ∈ l.drop k, ∀ y ∈ l.take k, y.mass ≤ x.mass := by
  intro x hx y hy
  have h' : MassSorted (l.take k ++ l.drop k) := by rw [take_append_drop]; exact h
  unfold MassSorted at h'
  rw [pairwise_append] at h'
  exact h'.2.2 y hy x hx

theorem argmaxFirst_spec : ∀ (l : List Feat) (m : Feat), argmaxFirst l = some m →
    m ∈ l ∧ ∀ y ∈ l, y.mass ≤ m.mass := by
  intro l
  induction l with
  | nil => intro m h; simp [argmaxFirst] at h
  | cons a l ih =>
    intro m h
    simp only [argmaxFirst] at h
    cases hb : argmaxFirst l with
    | none =>
      rw [hb] at h
      simp only [Option.some.injEq] at h
      subst h
      have hl : l = [] := by
        cases l with
        | nil => rfl
        | cons c l' =>
          simp only [argmaxFirst] at hb
          cases hc : argmaxFirst l' <;> rw [hc] at hb
          · simp at hb
          · simp only at hb; split at hb <;> simp at hb
      subst hl
      simp
    | some b =>
      rw [hb] at h
      obtain ⟨hbm, hbmax⟩ := ih b hb
      simp only at h
      split at h
      · rename_i hlt
        simp only [Option.some.injEq] at h
        subst h
        refine ⟨mem_cons_of_mem _ hbm, ?_⟩
        intro y hy
        rcases mem_cons.1 hy with rfl | hy
        · exact le_of_lt hlt
        · exact hbmax y hy
      · rename_i hnl
        simp only [Option.some.injEq] at h
        subst h
        refine ⟨mem_cons_self, ?_⟩
        intro y hy
        rcases mem_cons.1 hy with rfl | hy
        · exact le_refl _
        · exact le_trans (hbmax y hy) (not_lt.1 hnl)

theorem argmaxFirst_isSome : ∀ (l : List Feat), l ≠ [] → ∃ m, argmaxFirst l = some m := by
  intro l hl
  cases l with
  | nil => exact absurd rfl hl
  | cons a l =>
    simp only [argmaxFirst]
    cases argmaxFirst l with
    | none => exact ⟨a, rfl⟩
    | some b =>
      simp only
      split
      · exact ⟨b, rfl⟩
      · exact ⟨a, rfl⟩

/-! ## topn -/

/-- the rows `topnSel` keeps and a complementary list of the rows it drops: together they are the
input, and no dropped row is heavier than a kept one -/
theorem topnSel_split (tn : Option Nat) (l : List Feat) :
    ∃ dropped, (topnSel tn l ++ dropped).Perm l ∧
      ((∃ n, tn = some n ∧ 1 ≤ n) → ∀ x ∈ topnSel tn l, ∀ y ∈ dropped, y.mass ≤ x.mass) := by
  cases tn with
  | none => exact ⟨[], by simp [topnSel], by intro h; obtain ⟨n, hn, _⟩ := h; cases hn⟩
  | some n =>
    unfold topnSel
    simp only
    by_cases hlen : l.length > n
    · rw [if_pos hlen]
      by_cases h1 : n = 1
      · rw [if_pos h1]
        have hne : l ≠ [] := by
          intro h; subst h; simp at hlen
        obtain ⟨m, hm⟩ := argmaxFirst_isSome l hne
        obtain ⟨hml, hmax⟩ := argmaxFirst_spec l m hm
        refine ⟨l.erase m, ?_, ?_⟩
        · rw [hm]
          simpa using (perm_cons_erase hml).symm
        · intro _ x hx y hy
          rw [hm] at hx
          simp only [Option.toList_some, mem_singleton] at hx
          subst hx
          exact hmax y (mem_of_mem_erase hy)
      · rw [if_neg h1]
        by_cases h0 : n = 0
        · rw [if_pos h0]
          refine ⟨[], by simpa using sortByMass_perm l, ?_⟩
          intro h; obtain ⟨k, hk, hk1⟩ := h
          simp only [Option.some.injEq] at hk; omega
        · rw [if_neg h0]
          refine ⟨(sortByMass l).take (l.length - n), ?_, ?_⟩
          · refine Perm.trans ?_ (sortByMass_perm l)
            refine perm_append_comm.trans ?_
            rw [take_append_drop]
          · intro _ x hx y hy
            exact sorted_take_le_drop (sortByMass_sorted l) _ x hx y hy
    · rw [if_neg hlen]
      refine ⟨[], by simp, ?_⟩
      intro _ x _ y hy; simp at hy

theorem topnSel_subperm (tn : Option Nat) (l : List Feat) : (topnSel tn l).Subperm l := by
  obtain ⟨d, hd, _⟩ := topnSel_split tn l
  exact (sublist_append_left _ d).subperm.trans hd.subperm

theorem topnSel_subset {tn : Option Nat} {l : List Feat} {x : Feat} (h : x ∈ topnSel tn l) :
    x ∈ l := (topnSel_subperm tn l).subset h

theorem topnSel_length_le (n : Nat) (hn : 1 ≤ n) (l : List Feat) :
    (topnSel (some n) l).length ≤ n := by
  unfold topnSel
  simp only
  by_cases hlen : l.length > n
  · rw [if_pos hlen]
    by_cases h1 : n = 1
    · rw [if_pos h1]
      cases argmaxFirst l <;> simp [h1]
    · rw [if_neg h1, if_neg (by omega : ¬ n = 0)]
      rw [length_drop, (sortByMass_perm l).length_eq]
      omega
  · rw [if_neg hlen]; omega

theorem topnSel_length_eq (n : Nat) (hn : 1 ≤ n) (l : List Feat) :
    (topnSel (some n) l).length = min n l.length := by
  unfold topnSel
  simp only
  by_cases hlen : l.length > n
  · rw [if_pos hlen]
    by_cases h1 : n = 1
    · rw [if_pos h1]
      have hne : l ≠ [] := by intro h; subst h; simp at hlen
      obtain ⟨m, hm⟩ := argmaxFirst_isSome l hne
      rw [hm]; simp; omega
    · rw [if_neg h1, if_neg (by omega : ¬ n = 0)]
      rw [length_drop, (sortByMass_perm l).length_eq]
      omega
  · rw [if_neg hlen]; omega

/-- for `2 ≤ n' ≤ n` the rows kept with `topn = n'` are among those kept with `topn = n`
(both are suffixes of the same sorted table, or the larger call returns the whole table) -/
theorem topnSel_mono {n n' : Nat} (h2 : 2 ≤ n') (hle : n' ≤ n) (l : List Feat) :
    (topnSel (some n') l).Subperm (topnSel (some n) l) := by
  by_cases hlen : l.length > n
  · have hlen' : l.length > n' := by omega
    unfold topnSel
    simp only
    rw [if_pos hlen, if_pos hlen', if_neg (by omega : ¬ n = 1), if_neg (by omega : ¬ n' = 1),
      if_neg (by omega : ¬ n = 0), if_neg (by omega : ¬ n' = 0)]
    have : l.length - n' = (l.length - n) + (n - n') := by omega
    rw [this, ← drop_drop]
    exact (drop_sublist _ _).subperm
  · have : topnSel (some n) l = l := by
      unfold topnSel
      simp only
      rw [if_neg hlen]
    rw [this]
    exact topnSel_subperm _ l

end TrackpyV.LocatePost
