import TrackpyV.Model.Assign
/-!
Helper lemmas for the branch-and-bound solver model: monotonicity, lower bound (pruning
soundness), achievement, and the equivalence of `completions` with declarative admissibility.
Core Lean only.
-/
namespace TrackpyV.Assign

/-- `b ≤ n` where `none` = +∞ -/
def Best.le (b : Best) (n : Nat) : Prop :=
  match b with
  | none => False
  | some (s, _) => s ≤ n

/-- candidate list sorted ascending by cost -/
def SortedC : List Cand → Prop
  | [] => True
  | [_] => True
  | a :: b :: t => a.2 ≤ b.2 ∧ SortedC (b :: t)

def AllSorted (rest : List Src) : Prop := ∀ s ∈ rest, SortedC s

theorem sortedB_iff (l : List Cand) : sortedB l = true ↔ SortedC l := by
  induction l with
  | nil => simp [sortedB, SortedC]
  | cons a t ih =>
    cases t with
    | nil => simp [sortedB, SortedC]
    | cons b t => simp [sortedB, SortedC, ih]

theorem SortedC.tail {a : Cand} {t : List Cand} (h : SortedC (a :: t)) : SortedC t := by
  cases t with
  | nil => trivial
  | cons b t => exact h.2

theorem SortedC.head_le {a : Cand} {t : List Cand} (h : SortedC (a :: t)) :
    ∀ x ∈ t, a.2 ≤ x.2 := by
  induction t generalizing a with
  | nil => intro x hx; cases hx
  | cons b t ih =>
    intro x hx
    cases hx with
    | head => exact h.1
    | tail _ hx => exact Nat.le_trans h.1 (ih h.2 x hx)

theorem completions_cost_ge (rest : List Src) (cands : List Cand) (tk : List Nat)
    (c0 : Nat) (h : ∀ x ∈ cands, c0 ≤ x.2) :
    ∀ p ∈ completions rest cands tk, c0 ≤ p.1 := by
  fun_induction completions rest cands tk with
  | case1 => intro p hp; cases hp
  | case2 rest tk d c cs htk ih =>
    exact ih (fun x hx => h x (List.mem_cons_of_mem _ hx))
  | case3 tk d c cs htk ih =>
    intro p hp
    rcases List.mem_cons.mp hp with rfl | hp
    · exact h (d, c) (List.mem_cons_self ..)
    · exact ih (fun x hx => h x (List.mem_cons_of_mem _ hx)) p hp
  | case4 tk d c cs htk s rest' ih1 ih2 =>
    intro p hp
    rcases List.mem_append.mp hp with hp | hp
    · simp only [List.mem_map] at hp
      obtain ⟨q, _, rfl⟩ := hp
      exact Nat.le_trans (h (d, c) (List.mem_cons_self ..)) (Nat.le_add_right _ _)
    · exact ih2 (fun x hx => h x (List.mem_cons_of_mem _ hx)) p hp

/-- Monotonicity: the result never gets worse than `best`. -/
theorem go_mono (rest : List Src) (cands : List Cand) (tk : List Nat) (cur : Nat)
    (acc : List Cand) (best : Best) (n : Nat) (h : best.le n) :
    (go rest cands tk cur acc best).le n := by
  fun_induction go rest cands tk cur acc best with
  | case1 => exact h
  | case2 => exact h
  | case3 _ _ _ _ _ _ _ _ _ _ ih => exact ih h
  | case4 tk cur acc best d c cs hex htk ih =>
    apply ih
    split
    · rename_i hb
      simp [better] at hb
      split at hb
      · cases h
      · simp [Best.le] at *
        omega
    · exact h
  | case5 tk cur acc best d c cs hex htk s rest' ih1 ih2 =>
    exact ih2 (ih1 h)

/-- Lower bound (pruning soundness): the result is ≤ every admissible completion of the current
partial state.  Uses exactly that candidate lists are sorted by cost. -/
theorem go_lower (rest : List Src) (cands : List Cand) (tk : List Nat) (cur : Nat)
    (acc : List Cand) (best : Best)
    (hs : SortedC cands) (hr : AllSorted rest) :
    ∀ p ∈ completions rest cands tk, (go rest cands tk cur acc best).le (cur + p.1) := by
  fun_induction go rest cands tk cur acc best with
  | case1 => intro p hp; simp [completions] at hp
  | case2 rest tk cur acc best d c cs hex =>
    intro p hp
    have hge : c ≤ p.1 := by
      apply completions_cost_ge rest ((d, c) :: cs) tk c _ p hp
      intro x hx
      cases hx with
      | head => exact Nat.le_refl _
      | tail _ hx => exact SortedC.head_le hs x hx
    simp [exceeds] at hex
    split at hex
    · cases hex
    · simp [Best.le] at *; omega
  | case3 rest tk cur acc best d c cs hex htk ih =>
    intro p hp
    rw [completions.eq_def] at hp
    simp only [htk, if_true] at hp
    exact ih hs.tail hr p hp
  | case4 tk cur acc best d c cs hex htk ih =>
    intro p hp
    rw [completions.eq_def] at hp
    simp only [htk] at hp
    rcases List.mem_cons.mp hp with hp | hp
    · subst hp
      apply go_mono
      split
      · simp [Best.le]
      · rename_i hb
        simp [better] at hb
        split at hb
        · cases hb
        · simp [Best.le] at *; omega
    · exact ih hs.tail hr p hp
  | case5 tk cur acc best d c cs hex htk s rest' ih1 ih2 =>
    intro p hp
    rw [completions.eq_def] at hp
    simp only [htk] at hp
    rcases List.mem_append.mp hp with hp | hp
    · simp only [List.mem_map] at hp
      obtain ⟨q, hq, rfl⟩ := hp
      apply go_mono
      have := ih1 (hr s (List.mem_cons_self ..)) (fun x hx => hr x (List.mem_cons_of_mem _ hx)) q hq
      simpa [Nat.add_assoc] using this
    · exact ih2 hs.tail hr p hp

/-- Achieved: the result is either the incoming best or a completion of the current state. -/
theorem go_achieved (rest : List Src) (cands : List Cand) (tk : List Nat) (cur : Nat)
    (acc : List Cand) (best : Best) :
    go rest cands tk cur acc best = best ∨
    ∃ p ∈ completions rest cands tk, go rest cands tk cur acc best = some (cur + p.1, acc ++ p.2) := by
  fun_induction go rest cands tk cur acc best with
  | case1 => exact Or.inl rfl
  | case2 => exact Or.inl rfl
  | case3 rest tk cur acc best d c cs hex htk ih =>
    rcases ih with h | ⟨p, hp, h⟩
    · exact Or.inl h
    · refine Or.inr ⟨p, ?_, h⟩
      rw [completions.eq_def]; simp only [htk, if_true]; exact hp
  | case4 tk cur acc best d c cs hex htk ih =>
    rcases ih with h | ⟨p, hp, h⟩
    · by_cases hb : better (cur + c) best
      · simp only [hb, if_true] at h
        refine Or.inr ⟨(c, [(d, c)]), ?_, ?_⟩
        · rw [completions.eq_def]; simp [htk]
        · simp only [hb, if_true]; exact h
      · simp only [hb] at h ⊢; exact Or.inl h
    · refine Or.inr ⟨p, ?_, h⟩
      rw [completions.eq_def]; simp only [htk]
      exact List.mem_cons_of_mem _ hp
  | case5 tk cur acc best d c cs hex htk s rest' ih1 ih2 =>
    rcases ih2 with h | ⟨p, hp, h⟩
    · rcases ih1 with h1 | ⟨q, hq, h1⟩
      · exact Or.inl (h.trans h1)
      · refine Or.inr ⟨(c + q.1, (d, c) :: q.2), ?_, ?_⟩
        · rw [completions.eq_def]; simp only [htk]
          apply List.mem_append_left
          simp only [List.mem_map]
          exact ⟨q, hq, rfl⟩
        · rw [h, h1]; simp [Nat.add_assoc]
    · refine Or.inr ⟨p, ?_, h⟩
      rw [completions.eq_def]; simp only [htk]
      exact List.mem_append_right _ hp

/-! ### Declarative admissibility and its equivalence with `completions` -/

/-- `a` picks one candidate out of each source's list, position by position -/
def Picks : List Src → List Cand → Prop
  | [], [] => True
  | s :: ss, c :: cs => c ∈ s ∧ Picks ss cs
  | _, _ => False

@[simp] theorem picks_nil_nil : Picks [] [] = True := by simp [Picks]
@[simp] theorem picks_cons_cons (s : Src) (ss : List Src) (c : Cand) (cs : List Cand) :
    Picks (s :: ss) (c :: cs) = (c ∈ s ∧ Picks ss cs) := by simp [Picks]
@[simp] theorem picks_cons_nil (s : Src) (ss : List Src) : Picks (s :: ss) [] = False := by
  simp [Picks]
@[simp] theorem picks_nil_cons (c : Cand) (cs : List Cand) : Picks [] (c :: cs) = False := by
  simp [Picks]

/-- one chosen candidate per source, real destinations pairwise distinct and not in `tk` -/
def AdmTk (srcs : List Src) (a : List Cand) (tk : List Nat) : Prop :=
  Picks srcs a ∧ (dests a).Nodup ∧ ∀ x ∈ dests a, x ∉ tk

/-- one chosen candidate per source, taken from that source's list, real destinations distinct -/
def Admissible (srcs : List Src) (a : List Cand) : Prop := AdmTk srcs a []

theorem taken_false_iff (d : Option Nat) (tk : List Nat) :
    taken d tk = false ↔ ∀ x, d = some x → x ∉ tk := by
  cases d with
  | none => simp [taken]
  | some y => simp [taken]

theorem dests_cons_none (c : Nat) (a : List Cand) : dests ((none, c) :: a) = dests a := by
  simp [dests]

theorem dests_cons_some (x c : Nat) (a : List Cand) :
    dests ((some x, c) :: a) = x :: dests a := by
  simp [dests]

theorem cost_cons (d : Option Nat) (c : Nat) (a : List Cand) : cost ((d, c) :: a) = c + cost a := by
  simp [cost]

theorem admTk_cons_iff (s : Src) (rest : List Src) (d : Option Nat) (c : Nat) (a : List Cand)
    (tk : List Nat) :
    AdmTk (s :: rest) ((d, c) :: a) tk ↔
      (d, c) ∈ s ∧ taken d tk = false ∧ AdmTk rest a (addTaken d tk) := by
  unfold AdmTk
  cases d with
  | none =>
    simp only [dests_cons_none, taken, addTaken, picks_cons_cons]
    constructor
    · rintro ⟨⟨h1, h2⟩, h3, h4⟩; exact ⟨h1, trivial, h2, h3, h4⟩
    · rintro ⟨h1, _, h2, h3, h4⟩; exact ⟨⟨h1, h2⟩, h3, h4⟩
  | some x =>
    simp only [dests_cons_some, taken, addTaken, picks_cons_cons, List.nodup_cons,
      List.mem_cons, List.contains_eq_mem, decide_eq_false_iff_not]
    constructor
    · rintro ⟨⟨h1, h2⟩, ⟨h3, h4⟩, h5⟩
      refine ⟨h1, h5 x (Or.inl rfl), h2, h4, ?_⟩
      intro y hy hyx
      rcases hyx with rfl | hyx
      · exact h3 hy
      · exact h5 y (Or.inr hy) hyx
    · rintro ⟨h1, h2, h3, h4, h5⟩
      refine ⟨⟨h1, h3⟩, ⟨?_, h4⟩, ?_⟩
      · intro hx; exact h5 x hx (Or.inl rfl)
      · intro y hy
        rcases hy with rfl | hy
        · exact h2
        · intro hyt; exact h5 y hy (Or.inr hyt)

theorem admTk_nil_left (a : List Cand) (tk : List Nat) : AdmTk [] a tk ↔ a = [] := by
  unfold AdmTk
  cases a with
  | nil => simp [dests]
  | cons c cs => simp

theorem admTk_weaken_head (s : Src) (e : Cand) (rest : List Src) (a : List Cand) (tk : List Nat)
    (h : AdmTk (s :: rest) a tk) : AdmTk ((e :: s) :: rest) a tk := by
  obtain ⟨h1, h2, h3⟩ := h
  refine ⟨?_, h2, h3⟩
  cases a with
  | nil => simp at h1
  | cons c cs =>
    simp only [picks_cons_cons] at h1 ⊢
    exact ⟨List.mem_cons_of_mem _ h1.1, h1.2⟩

/-- `completions` enumerates exactly the admissible assignments, each with its cost -/
theorem mem_completions_iff (rest : List Src) (cands : List Cand) (tk : List Nat)
    (p : Nat × List Cand) :
    p ∈ completions rest cands tk ↔ (AdmTk (cands :: rest) p.2 tk ∧ p.1 = cost p.2) := by
  fun_induction completions rest cands tk generalizing p with
  | case1 rest tk =>
    simp only [List.not_mem_nil, false_iff]
    rintro ⟨⟨h, _⟩, _⟩
    cases hp : p.2 with
    | nil => rw [hp] at h; simp at h
    | cons c cs => rw [hp] at h; simp at h
  | case2 rest tk d c cs htk ih =>
    rw [ih]
    constructor
    · rintro ⟨h, hc⟩; exact ⟨admTk_weaken_head _ _ _ _ _ h, hc⟩
    · rintro ⟨h, hc⟩
      refine ⟨?_, hc⟩
      obtain ⟨a1, a2⟩ := p
      cases a2 with
      | nil => obtain ⟨h1, _⟩ := h; simp at h1
      | cons e a =>
        obtain ⟨d', c'⟩ := e
        rw [admTk_cons_iff] at h ⊢
        obtain ⟨hm, ht, hr⟩ := h
        refine ⟨?_, ht, hr⟩
        rcases List.mem_cons.mp hm with heq | hm
        · cases heq; rw [htk] at ht; cases ht
        · exact hm
  | case3 tk d c cs htk ih =>
    have htk' : taken d tk = false := by simpa using htk
    simp only [List.mem_cons]
    rw [ih]
    constructor
    · rintro (h | ⟨h, hc⟩)
      · subst h
        refine ⟨?_, by simp [cost]⟩
        rw [admTk_cons_iff]
        exact ⟨List.mem_cons_self .., htk', (admTk_nil_left _ _).mpr rfl⟩
      · exact ⟨admTk_weaken_head _ _ _ _ _ h, hc⟩
    · rintro ⟨h, hc⟩
      obtain ⟨a1, a2⟩ := p
      cases a2 with
      | nil => obtain ⟨h1, _⟩ := h; simp at h1
      | cons e a =>
        obtain ⟨d', c'⟩ := e
        have h' := h
        rw [admTk_cons_iff] at h'
        obtain ⟨hm, ht, hr⟩ := h'
        have ha : a = [] := (admTk_nil_left _ _).mp hr
        subst ha
        rcases List.mem_cons.mp hm with heq | hm
        · cases heq
          left
          simp only [cost, List.map_cons, List.map_nil, List.sum_cons, List.sum_nil] at hc
          simp at hc
          simp [hc]
        · right
          refine ⟨?_, hc⟩
          rw [admTk_cons_iff]; exact ⟨hm, ht, hr⟩
  | case4 tk d c cs htk s rest' ih1 ih2 =>
    have htk' : taken d tk = false := by simpa using htk
    simp only [List.mem_append, List.mem_map]
    constructor
    · rintro (⟨q, hq, rfl⟩ | h)
      · rw [ih1] at hq
        obtain ⟨hq1, hq2⟩ := hq
        refine ⟨?_, by simp [cost_cons, hq2]⟩
        rw [admTk_cons_iff]
        exact ⟨List.mem_cons_self .., htk', hq1⟩
      · rw [ih2] at h
        exact ⟨admTk_weaken_head _ _ _ _ _ h.1, h.2⟩
    · rintro ⟨h, hc⟩
      obtain ⟨a1, a2⟩ := p
      cases a2 with
      | nil => obtain ⟨h1, _⟩ := h; simp at h1
      | cons e a =>
        obtain ⟨d', c'⟩ := e
        have h' := h
        rw [admTk_cons_iff] at h'
        obtain ⟨hm, ht, hr⟩ := h'
        rcases List.mem_cons.mp hm with heq | hm
        · cases heq
          left
          refine ⟨(cost a, a), ?_, ?_⟩
          · rw [ih1]; exact ⟨hr, rfl⟩
          · simp only [cost_cons] at hc; simp [hc]
        · right
          rw [ih2]
          refine ⟨?_, hc⟩
          rw [admTk_cons_iff]; exact ⟨hm, ht, hr⟩

end TrackpyV.Assign
