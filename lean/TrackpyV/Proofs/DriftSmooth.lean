import TrackpyV.Proofs.Drift
import TrackpyV.Model.DriftSmooth
/-!
Helper lemmas for the `smoothing > 0` branch of `compute_drift` (`Model/DriftSmooth.lean`):
the trailing window as an explicit index range, means of constant lists, curves whose values
are all equal are fixed by the rolling mean.
-/
namespace TrackpyV.Drift
open List

theorem window_length (w : Nat) (xs : List Rat) (i : Nat) (hi : i < xs.length) :
    (window w xs i).length = min w (i + 1) := by
  simp only [window, length_drop, length_take]; omega

/-- the window ending at `i` consists of the entries with index `i+1-w, …, i` -/
theorem window_eq_range' (w : Nat) (xs : List Rat) (i : Nat) (hi : i < xs.length) :
    window w xs i = (List.range' (i + 1 - w) (min w (i + 1))).map (fun j => xs.getD j 0) := by
  apply List.ext_getElem
  · rw [window_length w xs i hi]; simp
  · intro n h1 h2
    have hn : n < min w (i + 1) := by rw [← window_length w xs i hi]; exact h1
    have hlt : i + 1 - w + n < xs.length := by omega
    simp only [window, getElem_drop, getElem_take, getElem_map, getElem_range', one_mul,
      getD_eq_getElem?_getD, getElem?_eq_getElem hlt, Option.getD_some]

theorem mean_replicate (n : Nat) (hn : 0 < n) (c : Rat) : mean (replicate n c) = c := by
  unfold mean
  have : (n : Rat) ≠ 0 := by exact_mod_cast Nat.pos_iff_ne_zero.mp hn
  rw [sum_replicate, length_replicate, nsmul_eq_mul]
  field_simp

theorem mean_singleton (x : Rat) : mean [x] = x := mean_replicate 1 Nat.one_pos x

theorem window_replicate (w n i : Nat) (c : Rat) (hi : i < n) :
    window w (replicate n c) i = replicate (min w (i + 1)) c := by
  unfold window
  rw [take_replicate, drop_replicate]
  congr 1; omega

theorem rollingMean_replicate (w n : Nat) (hw : 0 < w) (c : Rat) :
    rollingMean w (replicate n c) = replicate n c := by
  apply List.ext_getElem
  · simp [rollingMean]
  · intro i h1 _
    have hi : i < n := by simpa [rollingMean] using h1
    simp only [rollingMean, getElem_map, getElem_range, length_replicate, getElem_replicate]
    rw [window_replicate w n i c hi]
    exact mean_replicate _ (by omega) c

theorem zip_fst_snd {α β} (c : List (α × β)) : (c.map Prod.fst).zip (c.map Prod.snd) = c := by
  induction c with
  | nil => rfl
  | cons e l ih => simp [ih]

/-- a curve whose values are all the same number is not changed by the smoothing -/
theorem smoothCurve_const (w : Nat) (c : List (Int × Rat)) (v : Rat) (h : ∀ e ∈ c, e.2 = v) :
    smoothCurve w c = c := by
  have hs : c.map Prod.snd = replicate c.length v := by
    rw [eq_replicate_iff]
    refine ⟨by simp, ?_⟩
    intro b hb
    obtain ⟨e, he, rfl⟩ := mem_map.mp hb
    exact h e he
  unfold smoothCurve smoothVals
  split
  · next hw =>
    rw [hs, rollingMean_replicate w _ hw v, ← hs]; exact zip_fst_snd c
  · exact zip_fst_snd c

theorem ownDriftSmoothed_getD (w d : Nat) (t : List Row) (k : Nat) (hk : k < d) :
    (ownDriftSmoothed w d t).getD k [] = driftSmoothedCol w k t := by
  simp [ownDriftSmoothed, getD_eq_getElem?_getD, hk]

end TrackpyV.Drift
