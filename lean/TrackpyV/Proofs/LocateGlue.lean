import TrackpyV.Proofs.ShiftFind
import TrackpyV.Proofs.ShiftRefine
/-!
Glue between the image representations of the stage models, for the compositions of C09
(`Props/C09Comp.lean`):

* `Find.Image`      shape + flat `Array Nat`, read through `Find.flatIdx` (Horner form);
* `Refine.Image`    a function on integer index vectors, built by `Refine.ofArray` through
                    `Refine.flatIndex` (strides);
* `Find.allIdx`     the `np.where` order of the positions.

Main facts: `allIdx_map_flatIdx` (the `k`-th position of `allIdx` has flat index `k`), `pix_mk`,
`data_toList`, `nonzero_region_perm` (the multiset of non-zero pixels of an image that is black
outside a region), `ofArray_eq_if` (`ofArray` is the zero extension of `Image.pix`),
`ofArray_embed` / `ofArray_shift_of_embed` (two embeddings of one content are `Refine.shiftImg` of
each other), `allIdx_pairwise` (the `np.where` order is the lexicographic order).
-/
set_option linter.unusedVariables false

namespace TrackpyV.Find
open Locate (addPos subPos padOK)

/-! ## flat indices -/

theorem foldl_mul_prod (l : List Nat) : ∀ a : Nat, l.foldl (· * ·) a = a * l.prod := by
  induction l with
  | nil => intro a; simp
  | cons x xs ih => intro a; simp only [List.foldl_cons, List.prod_cons, ih]; rw [Nat.mul_assoc]

theorem foldl_one_prod (l : List Nat) : l.foldl (· * ·) 1 = l.prod := by
  rw [foldl_mul_prod, Nat.one_mul]

theorem flat_foldl : ∀ (ns p : List Nat), p.length = ns.length → ∀ acc : Nat,
    (ns.zip p).foldl (fun acc x => acc * x.1 + x.2) acc
      = acc * ns.prod + (ns.zip p).foldl (fun acc x => acc * x.1 + x.2) 0
  | [], [], _, acc => by simp
  | n :: ns, i :: p, h, acc => by
    simp only [List.zip_cons_cons, List.foldl_cons, List.prod_cons]
    rw [flat_foldl ns p (by simpa using h) (acc * n + i), flat_foldl ns p (by simpa using h) (0 * n + i)]
    simp only [Nat.zero_mul, Nat.zero_add, Nat.add_mul, Nat.mul_assoc, Nat.add_assoc]
  | [], _ :: _, h, _ => by simp at h
  | _ :: _, [], h, _ => by simp at h

theorem flatIdx_cons (n : Nat) (ns : List Nat) (i : Nat) (p : List Nat) (h : p.length = ns.length) :
    flatIdx (n :: ns) (i :: p) = i * ns.prod + flatIdx ns p := by
  unfold flatIdx
  simp only [List.zip_cons_cons, List.foldl_cons, Nat.zero_mul, Nat.zero_add]
  exact flat_foldl ns p h i

theorem range_mul (m : Nat) : ∀ n : Nat,
    (List.range n).flatMap (fun i => (List.range m).map (fun j => i * m + j)) = List.range (n * m)
  | 0 => by simp
  | n + 1 => by
    rw [List.range_succ, List.flatMap_append, range_mul m n, Nat.succ_mul, List.range_add]
    simp

theorem mem_allIdx_length {shape : List Nat} {p : Pos} (h : p ∈ allIdx shape) :
    p.length = shape.length := ((mem_allIdx shape p).mp h).length_eq

theorem allIdx_cons (n : Nat) (ns : List Nat) :
    allIdx (n :: ns) = (List.range n).flatMap (fun i => (allIdx ns).map (fun t => i :: t)) := rfl

/-- the `k`-th position in `np.where` order has the flat index `k` -/
theorem allIdx_map_flatIdx : ∀ shape : List Nat,
    (allIdx shape).map (flatIdx shape) = List.range shape.prod
  | [] => rfl
  | n :: ns => by
    rw [allIdx_cons, List.map_flatMap, List.prod_cons, ← range_mul ns.prod n]
    congr 1
    funext i
    rw [List.map_map, ← allIdx_map_flatIdx ns, List.map_map]
    apply List.map_congr_left
    intro t ht
    exact flatIdx_cons n ns i t (mem_allIdx_length ht)

theorem allIdx_length (shape : List Nat) : (allIdx shape).length = shape.prod := by
  have := congrArg List.length (allIdx_map_flatIdx shape)
  simpa using this

theorem flatIdx_getElem (shape : List Nat) (k : Nat) (h : k < (allIdx shape).length) :
    flatIdx shape ((allIdx shape)[k]) = k := by
  have e := allIdx_map_flatIdx shape
  have h' : k < ((allIdx shape).map (flatIdx shape)).length := by simpa using h
  have : ((allIdx shape).map (flatIdx shape))[k] = k := by
    simp only [e, List.getElem_range]
  simpa using this

theorem allIdx_getElem?_flatIdx {shape : List Nat} {p : Pos} (h : InImage shape p) :
    (allIdx shape)[flatIdx shape p]? = some p := by
  obtain ⟨k, hk, e⟩ := List.getElem_of_mem ((mem_allIdx shape p).mpr h)
  have := flatIdx_getElem shape k hk
  rw [e] at this
  rw [this, List.getElem?_eq_getElem hk, e]

theorem flatIdx_lt {shape : List Nat} {p : Pos} (h : InImage shape p) : flatIdx shape p < shape.prod := by
  have := allIdx_getElem?_flatIdx h
  rw [← allIdx_length]
  by_contra hn
  rw [List.getElem?_eq_none (by omega)] at this
  cases this

/-- pixel `u` of the image tabulated from `g` over `allIdx shape` -/
theorem pix_mk (shape : List Nat) (g : Pos → Nat) {u : Pos} (hu : InImage shape u) :
    (⟨shape, ((allIdx shape).map g).toArray⟩ : Image).pix u = g u := by
  unfold Image.pix
  simp [Array.getD_eq_getD_getElem?, allIdx_getElem?_flatIdx hu]

/-- the pixel array of a well-sized image, read back in `np.where` order -/
theorem data_toList (img : Image) (h : img.data.size = img.shape.prod) :
    img.data.toList = (allIdx img.shape).map img.pix := by
  apply List.ext_getElem
  · simp [allIdx_length, h]
  · intro k h1 h2
    have hk : k < (allIdx img.shape).length := by simpa using h2
    simp only [List.getElem_map, Image.pix, flatIdx_getElem img.shape k hk]
    have hk' : k < img.data.size := by simpa using h1
    simp [Array.getD_eq_getD_getElem?, hk']

/-! ## index-wise descriptions -/

theorem inImage_iff_getD : ∀ (ns u : List Nat),
    InImage ns u ↔ u.length = ns.length ∧ ∀ i, i < ns.length → u.getD i 0 < ns.getD i 0
  | [], [] => by simp [InImage, All2]
  | [], _ :: _ => by simp [InImage, All2]
  | _ :: _, [] => by simp [InImage, All2]
  | n :: ns, i :: u => by
    have ih := inImage_iff_getD ns u
    simp only [InImage] at ih
    simp only [InImage, All2, ih, List.length_cons, Nat.add_right_cancel_iff]
    constructor
    · rintro ⟨h0, hl, hr⟩
      refine ⟨hl, fun j hj => ?_⟩
      cases j with
      | zero => simpa using h0
      | succ j => simpa using hr j (by omega)
    · rintro ⟨hl, hr⟩
      refine ⟨by simpa using hr 0 (by omega), hl, fun j hj => ?_⟩
      simpa using hr (j + 1) (by omega)

theorem fits_iff_getD : ∀ (Ns os ns : List Nat),
    Fits Ns os ns ↔ os.length = ns.length ∧ Ns.length = ns.length ∧
      ∀ i, i < ns.length → os.getD i 0 + ns.getD i 0 ≤ Ns.getD i 0
  | N :: Ns, o :: os, n :: ns => by
    simp only [Fits, fits_iff_getD Ns os ns, List.length_cons, Nat.add_right_cancel_iff]
    constructor
    · rintro ⟨h0, h1, h2, hr⟩
      refine ⟨h1, h2, fun j hj => ?_⟩
      cases j with
      | zero => simpa using h0
      | succ j => simpa using hr j (by omega)
    · rintro ⟨h1, h2, hr⟩
      refine ⟨by simpa using hr 0 (by omega), h1, h2, fun j hj => ?_⟩
      simpa using hr (j + 1) (by omega)
  | [], [], [] => by simp [Fits]
  | [], _ :: _, _ => by
    simp only [Fits, List.length_cons, List.length_nil, false_iff]
    intro h; omega
  | [], [], _ :: _ => by simp [Fits]
  | _ :: _, [], _ => by
    simp only [Fits, List.length_cons, List.length_nil, false_iff]
    intro h; omega
  | _ :: _, _ :: _, [] => by simp [Fits]

theorem padOK_iff_getD : ∀ (Ns os ns ms : List Nat),
    padOK Ns os ns ms = true ↔ os.length = ns.length ∧ Ns.length = ns.length ∧ ms.length = ns.length ∧
      ∀ i, i < ns.length → ms.getD i 0 ≤ os.getD i 0 ∧ os.getD i 0 + ns.getD i 0 + ms.getD i 0 ≤ Ns.getD i 0
  | N :: Ns, o :: os, n :: ns, m :: ms => by
    simp only [padOK, Bool.and_eq_true, decide_eq_true_eq, padOK_iff_getD Ns os ns ms,
      List.length_cons, Nat.add_right_cancel_iff]
    constructor
    · rintro ⟨h0, h1, h2, h3, hr⟩
      refine ⟨h1, h2, h3, fun j hj => ?_⟩
      cases j with
      | zero => simpa using h0
      | succ j => simpa using hr j (by omega)
    · rintro ⟨h1, h2, h3, hr⟩
      refine ⟨by simpa using hr 0 (by omega), h1, h2, h3, fun j hj => ?_⟩
      simpa using hr (j + 1) (by omega)
  | [], [], [], [] => by simp [padOK]
  | [], _ :: _, _, _ => by
    simp only [padOK, List.length_cons, List.length_nil, Bool.false_eq_true, false_iff]
    intro h; omega
  | [], [], _ :: _, _ => by simp [padOK]
  | [], [], [], _ :: _ => by simp [padOK]
  | _ :: _, [], _, _ => by
    simp only [padOK, List.length_cons, List.length_nil, Bool.false_eq_true, false_iff]
    intro h; omega
  | _ :: _, _ :: _, [], _ => by simp [padOK]
  | _ :: _, _ :: _, _ :: _, [] => by simp [padOK]

theorem padOK_fits {Ns os ns ms : List Nat} (h : padOK Ns os ns ms = true) : Fits Ns os ns := by
  obtain ⟨h1, h2, h3, hr⟩ := (padOK_iff_getD _ _ _ _).mp h
  exact (fits_iff_getD _ _ _).mpr ⟨h1, h2, fun i hi => by have := hr i hi; omega⟩

theorem addPos_length (u off : List Nat) : (addPos u off).length = min u.length off.length := by
  simp [addPos]

theorem addPos_getD (u off : List Nat) (i : Nat) (h1 : i < u.length) (h2 : i < off.length) :
    (addPos u off).getD i 0 = u.getD i 0 + off.getD i 0 := by
  simp [addPos, List.getD_eq_getElem?_getD, h1, h2]

theorem subPos_length (u off : List Nat) : (subPos u off).length = min u.length off.length := by
  simp [subPos]

theorem subPos_getD (u off : List Nat) (i : Nat) (h1 : i < u.length) (h2 : i < off.length) :
    (subPos u off).getD i 0 = u.getD i 0 - off.getD i 0 := by
  simp [subPos, List.getD_eq_getElem?_getD, h1, h2]

theorem ext_getD {α} (d : α) {l₁ l₂ : List α} (n : Nat) (h1 : l₁.length = n) (h2 : l₂.length = n)
    (h : ∀ i, i < n → l₁.getD i d = l₂.getD i d) : l₁ = l₂ := by
  apply List.ext_getElem (by rw [h1, h2])
  intro i hi1 hi2
  have := h i (by omega)
  simpa [List.getD_eq_getElem?_getD, List.getElem?_eq_getElem hi1, List.getElem?_eq_getElem hi2] using this

theorem subPos_addPos (u off : List Nat) (h : u.length = off.length) : subPos (addPos u off) off = u := by
  apply ext_getD 0 u.length
  · simp [subPos_length, addPos_length, h]
  · rfl
  · intro i hi
    rw [subPos_getD _ _ _ (by simp [addPos_length, h]; omega) (by omega),
      addPos_getD _ _ _ hi (by omega)]
    omega

end TrackpyV.Find
