import TrackpyV.Proofs.ShiftFind
import TrackpyV.Proofs.ShiftRefine
import TrackpyV.Proofs.TransposeRefine
/-!
Glue between the image representations of the stage models, for the compositions of C09
(`Props/C09Comp.lean`):

* `Find.Image`      shape + flat `Array Nat`, read through `Find.flatIdx` (Horner form);
* `Refine.Image`    a function on integer index vectors, built by `Refine.ofArray` through
                    `Refine.flatIndex` (strides);
* `Find.allIdx`     the `np.where` order of the positions.

Main facts: `allIdx_map_flatIdx` (the `k`-th position of `allIdx` has flat index `k`), `pix_mk`,
`data_toList`, `nonzero_region_perm` (the multiset of non-zero pixels of an image that is black
outside a region), `ofArray_eq_if` (`ofArray` is the zero extension of `Image.pix`),
`ofArray_embed` / `ofArray_shift_of_embed` (two embeddings of one content are `Refine.shiftImg` of
each other), `allIdx_pairwise` (the `np.where` order is the lexicographic order).
-/
set_option linter.unusedVariables false

namespace TrackpyV.Find
open Locate (addPos subPos padOK)

/-! ## flat indices -/

theorem foldl_mul_prod (l : List Nat) : ∀ a : Nat, l.foldl (· * ·) a = a * l.prod := by
  induction l with
  | nil => intro a; simp
  | cons x xs ih => intro a; simp only [List.foldl_cons, List.prod_cons, ih]; rw [Nat.mul_assoc]

theorem foldl_one_prod (l : List Nat) : l.foldl (· * ·) 1 = l.prod := by
  rw [foldl_mul_prod, Nat.one_mul]

theorem flat_foldl : ∀ (ns p : List Nat), p.length = ns.length → ∀ acc : Nat,
    (ns.zip p).foldl (fun acc x => acc * x.1 + x.2) acc
      = acc * ns.prod + (ns.zip p).foldl (fun acc x => acc * x.1 + x.2) 0
  | [], [], _, acc => by simp
  | n :: ns, i :: p, h, acc => by
    simp only [List.zip_cons_cons, List.foldl_cons, List.prod_cons]
    rw [flat_foldl ns p (by simpa using h) (acc * n + i), flat_foldl ns p (by simpa using h) (0 * n + i)]
    simp only [Nat.zero_mul, Nat.zero_add, Nat.add_mul, Nat.mul_assoc, Nat.add_assoc]
  | [], _ :: _, h, _ => by simp at h
  | _ :: _, [], h, _ => by simp at h

theorem flatIdx_cons (n : Nat) (ns : List Nat) (i : Nat) (p : List Nat) (h : p.length = ns.length) :
    flatIdx (n :: ns) (i :: p) = i * ns.prod + flatIdx ns p := by
  unfold flatIdx
  simp only [List.zip_cons_cons, List.foldl_cons, Nat.zero_mul, Nat.zero_add]
  exact flat_foldl ns p h i

theorem range_mul (m : Nat) : ∀ n : Nat,
    (List.range n).flatMap (fun i => (List.range m).map (fun j => i * m + j)) = List.range (n * m)
  | 0 => by simp
  | n + 1 => by
    rw [List.range_succ, List.flatMap_append, range_mul m n, Nat.succ_mul, List.range_add]
    simp

theorem mem_allIdx_length {shape : List Nat} {p : Pos} (h : p ∈ allIdx shape) :
    p.length = shape.length := ((mem_allIdx shape p).mp h).length_eq

theorem allIdx_cons (n : Nat) (ns : List Nat) :
    allIdx (n :: ns) = (List.range n).flatMap (fun i => (allIdx ns).map (fun t => i :: t)) := rfl

/-- the `k`-th position in `np.where` order has the flat index `k` -/
theorem allIdx_map_flatIdx : ∀ shape : List Nat,
    (allIdx shape).map (flatIdx shape) = List.range shape.prod
  | [] => rfl
  | n :: ns => by
    rw [allIdx_cons, List.map_flatMap, List.prod_cons, ← range_mul ns.prod n]
    congr 1
    funext i
    rw [List.map_map, ← allIdx_map_flatIdx ns, List.map_map]
    apply List.map_congr_left
    intro t ht
    exact flatIdx_cons n ns i t (mem_allIdx_length ht)

theorem allIdx_length (shape : List Nat) : (allIdx shape).length = shape.prod := by
  have := congrArg List.length (allIdx_map_flatIdx shape)
  simpa using this

theorem flatIdx_getElem (shape : List Nat) (k : Nat) (h : k < (allIdx shape).length) :
    flatIdx shape ((allIdx shape)[k]) = k := by
  have e := allIdx_map_flatIdx shape
  have h' : k < ((allIdx shape).map (flatIdx shape)).length := by simpa using h
  have : ((allIdx shape).map (flatIdx shape))[k] = k := by
    simp only [e, List.getElem_range]
  simpa using this

theorem allIdx_getElem?_flatIdx {shape : List Nat} {p : Pos} (h : InImage shape p) :
    (allIdx shape)[flatIdx shape p]? = some p := by
  obtain ⟨k, hk, e⟩ := List.getElem_of_mem ((mem_allIdx shape p).mpr h)
  have := flatIdx_getElem shape k hk
  rw [e] at this
  rw [this, List.getElem?_eq_getElem hk, e]

theorem flatIdx_lt {shape : List Nat} {p : Pos} (h : InImage shape p) : flatIdx shape p < shape.prod := by
  have := allIdx_getElem?_flatIdx h
  rw [← allIdx_length]
  by_contra hn
  rw [List.getElem?_eq_none (by omega)] at this
  cases this

/-- pixel `u` of the image tabulated from `g` over `allIdx shape` -/
theorem pix_mk (shape : List Nat) (g : Pos → Nat) {u : Pos} (hu : InImage shape u) :
    (⟨shape, ((allIdx shape).map g).toArray⟩ : Image).pix u = g u := by
  unfold Image.pix
  simp [Array.getD_eq_getD_getElem?, allIdx_getElem?_flatIdx hu]

/-- the pixel array of a well-sized image, read back in `np.where` order -/
theorem data_toList (img : Image) (h : img.data.size = img.shape.prod) :
    img.data.toList = (allIdx img.shape).map img.pix := by
  apply List.ext_getElem
  · simp [allIdx_length, h]
  · intro k h1 h2
    have hk : k < (allIdx img.shape).length := by simpa using h2
    simp only [List.getElem_map, Image.pix, flatIdx_getElem img.shape k hk]
    have hk' : k < img.data.size := by simpa using h1
    simp [Array.getD_eq_getD_getElem?, hk']

/-! ## index-wise descriptions -/

theorem inImage_iff_getD : ∀ (ns u : List Nat),
    InImage ns u ↔ u.length = ns.length ∧ ∀ i, i < ns.length → u.getD i 0 < ns.getD i 0
  | [], [] => by simp [InImage, All2]
  | [], _ :: _ => by simp [InImage, All2]
  | _ :: _, [] => by simp [InImage, All2]
  | n :: ns, i :: u => by
    have ih := inImage_iff_getD ns u
    simp only [InImage] at ih
    simp only [InImage, All2, ih, List.length_cons, Nat.add_right_cancel_iff]
    constructor
    · rintro ⟨h0, hl, hr⟩
      refine ⟨hl, fun j hj => ?_⟩
      cases j with
      | zero => simpa using h0
      | succ j => simpa using hr j (by omega)
    · rintro ⟨hl, hr⟩
      refine ⟨by simpa using hr 0 (by omega), hl, fun j hj => ?_⟩
      simpa using hr (j + 1) (by omega)

theorem fits_iff_getD : ∀ (Ns os ns : List Nat),
    Fits Ns os ns ↔ os.length = ns.length ∧ Ns.length = ns.length ∧
      ∀ i, i < ns.length → os.getD i 0 + ns.getD i 0 ≤ Ns.getD i 0
  | N :: Ns, o :: os, n :: ns => by
    simp only [Fits, fits_iff_getD Ns os ns, List.length_cons, Nat.add_right_cancel_iff]
    constructor
    · rintro ⟨h0, h1, h2, hr⟩
      refine ⟨h1, h2, fun j hj => ?_⟩
      cases j with
      | zero => simpa using h0
      | succ j => simpa using hr j (by omega)
    · rintro ⟨h1, h2, hr⟩
      refine ⟨by simpa using hr 0 (by omega), h1, h2, fun j hj => ?_⟩
      simpa using hr (j + 1) (by omega)
  | [], [], [] => by simp [Fits]
  | [], _ :: _, _ => by
    simp only [Fits, List.length_cons, List.length_nil, false_iff]
    intro h; omega
  | [], [], _ :: _ => by simp [Fits]
  | _ :: _, [], _ => by
    simp only [Fits, List.length_cons, List.length_nil, false_iff]
    intro h; omega
  | _ :: _, _ :: _, [] => by simp [Fits]

theorem padOK_iff_getD : ∀ (Ns os ns ms : List Nat),
    padOK Ns os ns ms = true ↔ os.length = ns.length ∧ Ns.length = ns.length ∧ ms.length = ns.length ∧
      ∀ i, i < ns.length → ms.getD i 0 ≤ os.getD i 0 ∧ os.getD i 0 + ns.getD i 0 + ms.getD i 0 ≤ Ns.getD i 0
  | N :: Ns, o :: os, n :: ns, m :: ms => by
    simp only [padOK, Bool.and_eq_true, decide_eq_true_eq, padOK_iff_getD Ns os ns ms,
      List.length_cons, Nat.add_right_cancel_iff]
    constructor
    · rintro ⟨h0, h1, h2, h3, hr⟩
      refine ⟨h1, h2, h3, fun j hj => ?_⟩
      cases j with
      | zero => simpa using h0
      | succ j => simpa using hr j (by omega)
    · rintro ⟨h1, h2, h3, hr⟩
      refine ⟨by simpa using hr 0 (by omega), h1, h2, h3, fun j hj => ?_⟩
      simpa using hr (j + 1) (by omega)
  | [], [], [], [] => by simp [padOK]
  | [], _ :: _, _, _ => by
    simp only [padOK, List.length_cons, List.length_nil, Bool.false_eq_true, false_iff]
    intro h; omega
  | [], [], _ :: _, _ => by simp [padOK]
  | [], [], [], _ :: _ => by simp [padOK]
  | _ :: _, [], _, _ => by
    simp only [padOK, List.length_cons, List.length_nil, Bool.false_eq_true, false_iff]
    intro h; omega
  | _ :: _, _ :: _, [], _ => by simp [padOK]
  | _ :: _, _ :: _, _ :: _, [] => by simp [padOK]

theorem padOK_fits {Ns os ns ms : List Nat} (h : padOK Ns os ns ms = true) : Fits Ns os ns := by
  obtain ⟨h1, h2, h3, hr⟩ := (padOK_iff_getD _ _ _ _).mp h
  exact (fits_iff_getD _ _ _).mpr ⟨h1, h2, fun i hi => by have := hr i hi; omega⟩

theorem addPos_length (u off : List Nat) : (addPos u off).length = min u.length off.length := by
  simp [addPos]

theorem addPos_getD (u off : List Nat) (i : Nat) (h1 : i < u.length) (h2 : i < off.length) :
    (addPos u off).getD i 0 = u.getD i 0 + off.getD i 0 := by
  simp [addPos, List.getD_eq_getElem?_getD, h1, h2]

theorem subPos_length (u off : List Nat) : (subPos u off).length = min u.length off.length := by
  simp [subPos]

theorem subPos_getD (u off : List Nat) (i : Nat) (h1 : i < u.length) (h2 : i < off.length) :
    (subPos u off).getD i 0 = u.getD i 0 - off.getD i 0 := by
  simp [subPos, List.getD_eq_getElem?_getD, h1, h2]

theorem ext_getD {α} (d : α) {l₁ l₂ : List α} (n : Nat) (h1 : l₁.length = n) (h2 : l₂.length = n)
    (h : ∀ i, i < n → l₁.getD i d = l₂.getD i d) : l₁ = l₂ := by
  apply List.ext_getElem (by rw [h1, h2])
  intro i hi1 hi2
  have := h i (by omega)
  simpa [List.getD_eq_getElem?_getD, List.getElem?_eq_getElem hi1, List.getElem?_eq_getElem hi2] using this

theorem subPos_addPos (u off : List Nat) (h : u.length = off.length) : subPos (addPos u off) off = u := by
  apply ext_getD 0 u.length
  · simp [subPos_length, addPos_length, h]
  · rfl
  · intro i hi
    rw [subPos_getD _ _ _ (by simp [addPos_length, h]; omega) (by omega),
      addPos_getD _ _ _ hi (by omega)]
    omega


/-! ## the multiset of non-zero pixels of an image that is black outside a region -/

/-- an image of the right size that shows `g` on the region `off + [0, ns)` and is black elsewhere
has the non-zero values of `g` as its non-zero pixels (as a multiset) -/
theorem nonzero_region_perm (big : Image) (hsz : big.data.size = big.shape.prod) (off ns : List Nat)
    (g : Pos → Nat) (hf : Fits big.shape off ns)
    (hin : ∀ u, InImage ns u → big.pix (addPos u off) = g u)
    (hout : ∀ p, InImage big.shape p → (∀ u, InImage ns u → p ≠ addPos u off) → big.pix p = 0) :
    (nonzero big).Perm (((allIdx ns).map g).filter (fun v => v != 0)) := by
  have hol := (fits_length hf).1
  have hg : (allIdx ns).map g = ((allIdx ns).map (fun u => addPos u off)).map big.pix := by
    rw [List.map_map]
    apply List.map_congr_left
    intro u hu
    exact (hin u ((mem_allIdx ns u).mp hu)).symm
  unfold nonzero
  rw [hg, data_toList big hsz, List.filter_map, List.filter_map]
  apply List.Perm.map
  have ndM : ((allIdx ns).map (fun u => addPos u off)).Nodup := by
    apply List.Nodup.map_on _ (allIdx_nodup ns)
    intro u hu v hv e
    exact addPos_inj ns off u v hol ((mem_allIdx ns u).mp hu) ((mem_allIdx ns v).mp hv) e
  apply (List.perm_ext_iff_of_nodup ((allIdx_nodup _).filter _) (ndM.filter _)).mpr
  intro p
  simp only [List.mem_filter, mem_allIdx, List.mem_map, Function.comp_apply, bne_iff_ne, ne_eq]
  constructor
  · rintro ⟨hp, hne⟩
    refine ⟨?_, hne⟩
    by_contra hcon
    apply hne
    apply hout p hp
    intro u hu e
    exact hcon ⟨u, hu, e.symm⟩
  · rintro ⟨⟨u, hu, rfl⟩, hne⟩
    exact ⟨inImage_add _ _ _ _ hf hu, hne⟩

/-- `IsEmbed` from its three pixel-wise clauses: for well-sized arrays the clause about the
multiset of non-zero pixels follows -/
theorem isEmbed_of_pix (content big : Image) (off : List Nat)
    (hcs : content.data.size = content.shape.prod) (hbs : big.data.size = big.shape.prod)
    (hf : Fits big.shape off content.shape)
    (hin : ∀ u, InImage content.shape u → big.pix (addPos u off) = content.pix u)
    (hout : ∀ p, InImage big.shape p → (∀ u, InImage content.shape u → p ≠ addPos u off) →
      big.pix p = 0) : IsEmbed content off big := by
  refine ⟨hf, hin, hout, ?_⟩
  have := nonzero_region_perm big hbs off content.shape content.pix hf hin hout
  rw [← data_toList content hcs] at this
  exact this

/-! ## `Locate.embed` is an embedding -/

theorem inRegion_iff_getD : ∀ (os ns p : List Nat), os.length = ns.length → p.length = ns.length →
    (Locate.inRegion os ns p = true ↔
      ∀ i, i < ns.length → os.getD i 0 ≤ p.getD i 0 ∧ p.getD i 0 < os.getD i 0 + ns.getD i 0)
  | [], [], [], _, _ => by simp [Locate.inRegion]
  | o :: os, n :: ns, i :: p, h1, h2 => by
    have ih := inRegion_iff_getD os ns p (by simpa using h1) (by simpa using h2)
    simp only [Locate.inRegion, Bool.and_eq_true, decide_eq_true_eq, ih, List.length_cons]
    constructor
    · rintro ⟨h0, hr⟩ j hj
      cases j with
      | zero => simpa using h0
      | succ j => simpa using hr j (by omega)
    · intro hr
      exact ⟨by simpa using hr 0 (by omega), fun j hj => by simpa using hr (j + 1) (by omega)⟩
  | [], _ :: _, _, h1, _ => by simp at h1
  | _ :: _, [], _, h1, _ => by simp at h1
  | [], [], _ :: _, _, h2 => by simp at h2
  | _ :: _, _ :: _, [], _, h2 => by simp at h2

theorem embed_pix (canvas off : List Nat) (img : Image) {p : Pos} (hp : InImage canvas p) :
    (Locate.embed canvas off img).pix p =
      if Locate.inRegion off img.shape p then img.pix (subPos p off) else 0 :=
  pix_mk canvas _ hp

/-- **`Locate.embed` produces an embedding**: for a well-sized content image that fits into the
canvas at `off`, the image the driver builds satisfies the relation `IsEmbed` the shift theorems
assume (so the run-time check `isEmbedB` of these images can never fail). -/
theorem embed_isEmbed (canvas off : List Nat) (content : Image)
    (hcs : content.data.size = content.shape.prod) (hf : Fits canvas off content.shape) :
    IsEmbed content off (Locate.embed canvas off content) := by
  obtain ⟨hol, hNl, hb⟩ := (fits_iff_getD _ _ _).mp hf
  apply isEmbed_of_pix content _ off hcs
  · simp [Locate.embed, allIdx_length]
  · exact hf
  · intro u hu
    obtain ⟨hul, hub⟩ := (inImage_iff_getD _ _).mp hu
    have hin : InImage canvas (addPos u off) := inImage_add _ _ _ _ hf hu
    rw [embed_pix canvas off content hin, subPos_addPos u off (by omega), if_pos]
    rw [inRegion_iff_getD off content.shape _ hol (by simp [addPos_length]; omega)]
    intro i hi
    rw [addPos_getD u off i (by omega) (by omega)]
    have := hub i hi
    omega
  · intro p hp hne
    change InImage canvas p at hp
    obtain ⟨hpl, hpb⟩ := (inImage_iff_getD _ _).mp hp
    show (Locate.embed canvas off content).pix p = 0
    rw [embed_pix canvas off content hp]
    split
    · rename_i hreg
      rw [inRegion_iff_getD off content.shape p hol (by omega)] at hreg
      exfalso
      apply hne (subPos p off)
      · rw [inImage_iff_getD]
        refine ⟨by simp [subPos_length]; omega, fun i hi => ?_⟩
        rw [subPos_getD p off i (by omega) (by omega)]
        have := hreg i hi
        omega
      · apply ext_getD 0 content.shape.length (by omega)
          (by simp [addPos_length, subPos_length]; omega)
        intro i hi
        rw [addPos_getD _ _ i (by simp [subPos_length]; omega) (by omega),
          subPos_getD p off i (by omega) (by omega)]
        have := hreg i hi
        omega
    · rfl

/-! ## the `np.where` order is the lexicographic order -/

/-- strict lexicographic order on index vectors -/
def LexLt : List Nat → List Nat → Prop
  | i :: p, j :: q => i < j ∨ (i = j ∧ LexLt p q)
  | _, _ => False

theorem LexLt.asymm : ∀ (p q : List Nat), LexLt p q → LexLt q p → False
  | i :: p, j :: q, h1, h2 => by
    simp only [LexLt] at h1 h2
    rcases h1 with h1 | ⟨e1, h1⟩
    · rcases h2 with h2 | ⟨e2, h2⟩ <;> omega
    · rcases h2 with h2 | ⟨e2, h2⟩
      · omega
      · exact LexLt.asymm p q h1 h2
  | [], _, h, _ => by simp [LexLt] at h
  | _ :: _, [], h, _ => by simp [LexLt] at h

theorem cart_pairwise : ∀ (rs : List (List Nat)), (∀ r ∈ rs, r.Pairwise (· < ·)) →
    (cart rs).Pairwise LexLt
  | [], _ => by simp [cart]
  | r :: rs, h => by
    have ih := cart_pairwise rs (fun x hx => h x (List.mem_cons_of_mem _ hx))
    simp only [cart]
    rw [List.pairwise_flatMap]
    refine ⟨fun i _ => ?_, ?_⟩
    · rw [List.pairwise_map]
      exact ih.imp (fun hab => Or.inr ⟨rfl, hab⟩)
    · refine (h r List.mem_cons_self).imp ?_
      intro a b hab x hx y hy
      obtain ⟨t, _, rfl⟩ := List.mem_map.mp hx
      obtain ⟨t', _, rfl⟩ := List.mem_map.mp hy
      exact Or.inl hab

theorem allIdx_pairwise (shape : List Nat) : (allIdx shape).Pairwise LexLt := by
  apply cart_pairwise
  intro r hr
  obtain ⟨n, _, rfl⟩ := List.mem_map.mp hr
  exact List.pairwise_lt_range

theorem candidates_pairwise (img : Image) (ks margin : List Nat) (thr : Rat) :
    (candidates img ks thr margin).Pairwise LexLt :=
  ((allIdx_pairwise img.shape).filter _).filter _

theorem lexLt_addPos : ∀ (off u v : List Nat), u.length = off.length → v.length = off.length →
    (LexLt (addPos u off) (addPos v off) ↔ LexLt u v)
  | [], [], [], _, _ => by simp [addPos, LexLt]
  | o :: os, i :: u, j :: v, h1, h2 => by
    have ih := lexLt_addPos os u v (by simpa using h1) (by simpa using h2)
    simp only [addPos, List.zipWith_cons_cons, LexLt] at ih ⊢
    rw [ih]
    have e1 : i + o < j + o ↔ i < j := by omega
    have e2 : i + o = j + o ↔ i = j := by omega
    rw [e1, e2]
  | [], _ :: _, _, h1, _ => by simp at h1
  | _ :: _, [], _, h1, _ => by simp at h1
  | [], [], _ :: _, _, h2 => by simp at h2
  | _ :: _, _ :: _, [], _, h2 => by simp at h2

/-- two lists in strict lexicographic order with the same members are equal -/
theorem eq_of_pairwise_lexLt {l₁ l₂ : List Pos} (h₁ : l₁.Pairwise LexLt) (h₂ : l₂.Pairwise LexLt)
    (hm : ∀ p, p ∈ l₁ ↔ p ∈ l₂) : l₁ = l₂ := by
  have irr : ∀ a b : Pos, LexLt a b → a ≠ b := fun a b hab e => LexLt.asymm a b hab (e ▸ hab)
  have n₁ : l₁.Nodup := h₁.imp (fun {a b} hab => irr a b hab)
  have n₂ : l₂.Nodup := h₂.imp (fun {a b} hab => irr a b hab)
  exact List.Perm.eq_of_pairwise (fun a b _ _ hab hba => (LexLt.asymm a b hab hba).elim) h₁ h₂
    ((List.perm_ext_iff_of_nodup n₁ n₂).mpr hm)

theorem outsideMargin_zero : ∀ (ns u : List Nat), InImage ns u →
    OutsideMargin ns (List.replicate ns.length 0) u
  | [], [], _ => trivial
  | n :: ns, i :: u, h => by
    simp only [List.length_cons, List.replicate_succ, OutsideMargin]
    exact ⟨⟨Nat.zero_le _, by have := h.1; omega⟩, outsideMargin_zero ns u h.2⟩
  | [], _ :: _, h => h.elim
  | _ :: _, [], h => h.elim

/-- the maxima of the content itself (no margin) -/
theorem contentMax_iff_mem (content : Image) (ks : List Nat) (thr : Rat) (u : Pos)
    (hk : ks.length = content.shape.length) :
    ContentMax content ks thr u ↔
      u ∈ candidates content ks thr (List.replicate content.shape.length 0) := by
  rw [mem_candidates content ks _ thr u hk (by simp)]
  unfold ContentMax
  constructor
  · rintro ⟨h1, h2, h3⟩
    exact ⟨h1, h2, h3, outsideMargin_zero _ _ h1⟩
  · rintro ⟨h1, h2, h3, _⟩
    exact ⟨h1, h2, h3⟩

/-- **the maxima of an embedding, with their order**: the candidate list of the canvas is the
candidate list of the content itself (margin 0), every position moved by the offset — as LISTS, i.e.
the `np.where` order is preserved. -/
theorem candidates_embed_eq (content big : Image) (off : List Nat) (h : IsEmbed content off big)
    (ks margin : List Nat) (thr : Rat) (hthr : 0 ≤ thr)
    (hk : ks.length = content.shape.length) (hm : margin.length = content.shape.length)
    (hp : padOK big.shape off content.shape margin = true) :
    candidates big ks thr margin =
      (candidates content ks thr (List.replicate content.shape.length 0)).map (fun u => addPos u off) := by
  have hol := (fits_length h.fits).1
  apply eq_of_pairwise_lexLt (candidates_pairwise _ _ _ _)
  · rw [List.pairwise_map]
    refine (candidates_pairwise content ks _ thr).imp_of_mem ?_
    intro a b ha hb hab
    have la := ((contentMax_iff_mem content ks thr a hk).mpr ha).1.length_eq
    have lb := ((contentMax_iff_mem content ks thr b hk).mpr hb).1.length_eq
    exact (lexLt_addPos off a b (by omega) (by omega)).mpr hab
  · intro p
    rw [mem_candidates_embed content big off h ks margin thr hthr hk hm hp p, List.mem_map]
    constructor
    · rintro ⟨u, rfl, hu⟩
      exact ⟨u, (contentMax_iff_mem content ks thr u hk).mp hu, rfl⟩
    · rintro ⟨u, hu, rfl⟩
      exact ⟨u, rfl, (contentMax_iff_mem content ks thr u hk).mpr hu⟩

/-! ## the percentile threshold of natural-number pixels is ≥ 0 for a percentile ≥ 0 -/

theorem percentileOf_nonneg (xs : List Nat) (pct : Rat) (hp : 0 ≤ pct) (t : Rat)
    (h : percentileOf xs pct = some t) : 0 ≤ t := by
  unfold percentileOf at h
  simp only at h
  split at h
  · cases h
  · injection h with h
    rw [← h]
    set pos : Rat := ((xs.length - 1 : Nat) : Rat) * pct / 100 with hpos
    have hpos0 : 0 ≤ pos := by
      rw [hpos]
      apply div_nonneg (mul_nonneg (Nat.cast_nonneg _) hp)
      norm_num
    have hfl : (0 : Int) ≤ pos.floor := Rat.le_floor_iff.mpr (by simpa using hpos0)
    have hcast : ((pos.floor.toNat : Nat) : Rat) = ((pos.floor : Int) : Rat) := by
      have : ((pos.floor.toNat : Nat) : Int) = pos.floor := Int.toNat_of_nonneg hfl
      exact_mod_cast congrArg (fun z : Int => (z : Rat)) this
    have hg0 : 0 ≤ pos - ((pos.floor.toNat : Nat) : Rat) := by
      rw [hcast]; have := Rat.floor_le pos; linarith
    have hg1 : pos - ((pos.floor.toNat : Nat) : Rat) ≤ 1 := by
      rw [hcast]; have := Rat.lt_floor_add_one pos; push_cast at this; linarith
    generalize pos - ((pos.floor.toNat : Nat) : Rat) = g at hg0 hg1
    generalize (sortNat xs).toArray.getD pos.floor.toNat 0 = a
    generalize (sortNat xs).toArray.getD (min (pos.floor.toNat + 1) (xs.length - 1)) 0 = b
    have ha : (0 : Rat) ≤ (a : Rat) := Nat.cast_nonneg a
    have hb : (0 : Rat) ≤ (b : Rat) := Nat.cast_nonneg b
    nlinarith [mul_nonneg ha (sub_nonneg.mpr hg1), mul_nonneg hb hg0]

end TrackpyV.Find

namespace TrackpyV.Find
open Locate (addPos subPos padOK)

/-! ## `grey_dilation` of an embedding, in terms of the content only -/

/-- what `grey_dilation(precise=False)` finds on ANY embedding of `content` with enough padding,
in content coordinates: the argument checks that do not depend on the canvas, the threshold of the
content, and the content's own maxima (no margin) in `np.where` order -/
def gdContent (content : Image) (sep : List Rat) (pct : Rat) (margin : List Nat) : Option (List Pos) :=
  if decide (0 < content.shape.length) && decide (sep.length = content.shape.length)
      && decide (margin.length = content.shape.length)
      && sep.all (fun s => decide (0 < s) && decide (1 ≤ boxSize content.shape.length s)) then
    match percentileThr content pct with
    | none => some []
    | some thr =>
      some (candidates content (sep.map (boxSize content.shape.length)) thr
        (List.replicate content.shape.length 0))
  else none

theorem gdContent_inImage {content : Image} {sep : List Rat} {pct : Rat} {margin : List Nat}
    {C : List Pos} (h : gdContent content sep pct margin = some C) (u : Pos) (hu : u ∈ C) :
    InImage content.shape u := by
  unfold gdContent at h
  split at h
  · rename_i hw
    simp only [Bool.and_eq_true, decide_eq_true_eq] at hw
    split at h
    · injection h with h; subst h; simp at hu
    · injection h with h; subst h
      exact ((mem_candidates _ _ _ _ u (by simp [hw.1.1.2]) (by simp)).mp hu).1
  · cases h

/-- **`grey_dilation` of an embedding = the content's result moved by the offset** (as an
`Option (List Pos)`: refusal, black image and the ORDER of the maxima included) -/
theorem greyDilation_embed_eq (content big : Image) (off : List Nat) (h : IsEmbed content off big)
    (hsz : big.data.size = big.shape.prod) (sep : List Rat) (pct : Rat) (hpct : 0 ≤ pct)
    (margin : List Nat) (hp : padOK big.shape off content.shape margin = true) :
    greyDilation big sep pct (some margin) false =
      (gdContent content sep pct margin).map (List.map (fun u => addPos u off)) := by
  have hNl := (fits_length h.fits).2
  have hml := ((padOK_iff_getD _ _ _ _).mp hp).2.2.1
  unfold greyDilation greyDilationK gdContent
  simp only [Option.getD_some]
  have hwf : wellFormed big sep margin =
      (decide (0 < content.shape.length) && decide (sep.length = content.shape.length)
      && decide (margin.length = content.shape.length)
      && sep.all (fun s => decide (0 < s) && decide (1 ≤ boxSize content.shape.length s))) := by
    unfold wellFormed
    rw [hNl, foldl_one_prod]
    simp [hsz]
  rw [hwf]
  by_cases hw : (decide (0 < content.shape.length) && decide (sep.length = content.shape.length)
      && decide (margin.length = content.shape.length)
      && sep.all (fun s => decide (0 < s) && decide (1 ≤ boxSize content.shape.length s))) = true
  · rw [hw]
    simp only [Bool.not_true, Bool.false_eq_true, if_false, if_true]
    have hsl : sep.length = content.shape.length := by
      simp only [Bool.and_eq_true, decide_eq_true_eq] at hw
      exact hw.1.1.2
    rw [show percentileThr big pct = percentileThr content pct from percentileOf_perm h.nonzero_perm pct]
    cases hthr : percentileThr content pct with
    | none => rfl
    | some thr =>
      have h0 : 0 ≤ thr := percentileOf_nonneg _ pct hpct thr hthr
      simp only [Option.map_some]
      rw [hNl, candidates_embed_eq content big off h _ margin thr h0 (by simp [hsl]) hml hp]
  · have hw' : (decide (0 < content.shape.length) && decide (sep.length = content.shape.length)
      && decide (margin.length = content.shape.length)
      && sep.all (fun s => decide (0 < s) && decide (1 ≤ boxSize content.shape.length s))) = false := by
      simpa using hw
    rw [hw']
    rfl

end TrackpyV.Find

namespace TrackpyV.Refine
open Find (InImage flatIdx IsEmbed Fits)
open Locate (addPos)

/-! ## `Refine.ofArray` is the zero extension of `Find.Image.pix` -/

theorem flatIndex_ofNat : ∀ (shape p : List Nat), InImage shape p →
    flatIndex shape (p.map Int.ofNat) = some (flatIdx shape p)
  | [], [], _ => rfl
  | s :: ss, i :: p, h => by
    have ih := flatIndex_ofNat ss p h.2
    have hi : i < s := h.1
    simp only [List.map_cons, flatIndex]
    rw [if_pos ⟨by simp, by simpa using hi⟩, ih, Option.map_some,
      Find.flatIdx_cons s ss i p (Find.InImage.length_eq h.2), Find.foldl_one_prod]
    simp
  | [], _ :: _, h => h.elim
  | _ :: _, [], h => h.elim

theorem flatIndex_some_bounds : ∀ (shape : List Nat) (q : List Int) (k : Nat),
    flatIndex shape q = some k →
      ∀ i, i < shape.length → 0 ≤ q.getD i 0 ∧ q.getD i 0 < ((shape.getD i 0 : Nat) : Int)
  | [], [], _, _ => by simp
  | s :: ss, i :: is, k, h => by
    simp only [flatIndex] at h
    split at h
    · rename_i hb
      obtain ⟨rest, hrest, _⟩ := Option.map_eq_some_iff.mp h
      have ih := flatIndex_some_bounds ss is rest hrest
      intro j hj
      cases j with
      | zero => simpa using hb
      | succ j => simpa using ih j (by simpa using hj)
    · cases h
  | [], _ :: _, _, h => by simp [flatIndex] at h
  | _ :: _, [], _, h => by simp [flatIndex] at h

theorem getD_map_lt {α β} (f : α → β) (l : List α) (i : Nat) (h : i < l.length) (d : α) (d' : β) :
    (l.map f).getD i d' = f (l.getD i d) := by
  simp [List.getD_eq_getElem?_getD, h]

/-- the index vector `q` lies in an image of this shape -/
def InBounds (shape : List Nat) (q : List Int) : Prop :=
  ∀ i, i < shape.length → 0 ≤ q.getD i 0 ∧ q.getD i 0 < ((shape.getD i 0 : Nat) : Int)

theorem ofArray_eq_if (shape : List Nat) (data : Array Nat) (q : List Int)
    (hq : q.length = shape.length) [Decidable (InBounds shape q)] :
    ofArray shape data q =
      if InBounds shape q then (⟨shape, data⟩ : Find.Image).pix (q.map Int.toNat) else 0 := by
  by_cases hb : InBounds shape q
  · rw [if_pos hb]
    have hin : InImage shape (q.map Int.toNat) := by
      rw [Find.inImage_iff_getD]
      refine ⟨by simp [hq], fun i hi => ?_⟩
      rw [getD_map_lt Int.toNat q i (by omega) 0 0]
      have := hb i hi
      omega
    have e : q = (q.map Int.toNat).map Int.ofNat := by
      apply Find.ext_getD 0 shape.length hq (by simp [hq])
      intro i hi
      rw [getD_map_lt Int.ofNat _ i (by simp; omega) 0 0, getD_map_lt Int.toNat q i (by omega) 0 0]
      have := hb i hi
      simp only [Int.ofNat_eq_natCast]
      omega
    unfold ofArray
    rw [e, flatIndex_ofNat shape _ hin, ← e]
    rfl
  · rw [if_neg hb]
    unfold ofArray
    cases hfi : flatIndex shape q with
    | none => rfl
    | some k => exact absurd (flatIndex_some_bounds shape q k hfi) hb

/-- `q − off`, as a vector of length `n` -/
def subOff (n : Nat) (q : List Int) (off : List Nat) : List Int :=
  (List.range n).map (fun i => q.getD i 0 - ((off.getD i 0 : Nat) : Int))

/-- **an embedded array, read as a `Refine.Image`, is the zero-extended content read at `q − off`** -/
theorem ofArray_embed (content big : Find.Image) (off : List Nat) (h : IsEmbed content off big)
    (q : List Int) (hq : q.length = content.shape.length) :
    ofArray big.shape big.data q =
      ofArray content.shape content.data (subOff content.shape.length q off) := by
  classical
  obtain ⟨hol, hNl, hfit⟩ := (Find.fits_iff_getD _ _ _).mp h.fits
  rw [ofArray_eq_if big.shape big.data q (by omega),
    ofArray_eq_if content.shape content.data _ (by simp [subOff])]
  by_cases hreg : InBounds content.shape (subOff content.shape.length q off)
  · have hreg' : ∀ i, i < content.shape.length →
        ((off.getD i 0 : Nat) : Int) ≤ q.getD i 0 ∧
          q.getD i 0 < ((off.getD i 0 : Nat) : Int) + ((content.shape.getD i 0 : Nat) : Int) := by
      intro i hi
      have := hreg i hi
      rw [subOff, getD_rangeMap _ _ i hi 0] at this
      omega
    have hbig : InBounds big.shape q := by
      intro i hi
      have := hreg' i (by omega)
      have := hfit i (by omega)
      omega
    rw [if_pos hreg, if_pos hbig]
    have hu : InImage content.shape ((subOff content.shape.length q off).map Int.toNat) := by
      rw [Find.inImage_iff_getD]
      refine ⟨by simp [subOff], fun i hi => ?_⟩
      rw [getD_map_lt Int.toNat _ i (by simp [subOff]; omega) 0 0]
      have := hreg i hi
      omega
    have e : q.map Int.toNat = addPos ((subOff content.shape.length q off).map Int.toNat) off := by
      apply Find.ext_getD 0 content.shape.length (by simp [hq])
        (by simp [Find.addPos_length, subOff]; omega)
      intro i hi
      rw [Find.addPos_getD _ _ i (by simp [subOff]; omega) (by omega),
        getD_map_lt Int.toNat q i (by omega) 0 0,
        getD_map_lt Int.toNat _ i (by simp [subOff]; omega) 0 0, subOff, getD_rangeMap _ _ i hi 0]
      have := hreg' i hi
      omega
    rw [e]
    exact h.pix_in _ hu
  · rw [if_neg hreg]
    split
    · rename_i hbig
      apply h.pix_out
      · rw [Find.inImage_iff_getD]
        refine ⟨by simp [hq, hNl], fun i hi => ?_⟩
        rw [getD_map_lt Int.toNat q i (by omega) 0 0]
        have := hbig i hi
        omega
      · intro u hu e
        obtain ⟨hul, hub⟩ := (Find.inImage_iff_getD _ _).mp hu
        apply hreg
        intro i hi
        rw [subOff, getD_rangeMap _ _ i hi 0]
        have e' : (q.map Int.toNat).getD i 0 = (addPos u off).getD i 0 := by rw [e]
        rw [getD_map_lt Int.toNat q i (by omega) 0 0,
          Find.addPos_getD u off i (by omega) (by omega)] at e'
        have := hub i hi
        have := hbig i (by omega)
        omega
    · rfl

/-- the displacement `off₂ − off₁`, as an integer vector of length `n` -/
def disp (n : Nat) (off₁ off₂ : List Nat) : List Int :=
  (List.range n).map (fun i => ((off₂.getD i 0 : Nat) : Int) - ((off₁.getD i 0 : Nat) : Int))

/-- two images agree on all index vectors of length `n` -/
def AgreeN (n : Nat) (a b : Image) : Prop := ∀ q : List Int, q.length = n → a q = b q

/-- **two embeddings of one content are `shiftImg` of each other** (on index vectors of the right
length — the only ones the refinement ever reads) -/
theorem ofArray_shift_of_embed (content big₁ big₂ : Find.Image) (off₁ off₂ : List Nat)
    (h₁ : IsEmbed content off₁ big₁) (h₂ : IsEmbed content off₂ big₂) :
    AgreeN content.shape.length (ofArray big₂.shape big₂.data)
      (shiftImg content.shape.length (disp content.shape.length off₁ off₂)
        (ofArray big₁.shape big₁.data)) := by
  intro q hq
  unfold shiftImg
  rw [ofArray_embed content big₂ off₂ h₂ q hq, ofArray_embed content big₁ off₁ h₁ _ (by simp)]
  congr 1
  unfold subOff
  apply List.map_congr_left
  intro i hi
  have hi' : i < content.shape.length := by simpa using hi
  rw [getD_rangeMap _ _ i hi' 0, disp, getD_rangeMap _ _ i hi' 0]
  omega

/-! ## a transposed array, read as a `Refine.Image`, is `transImg` -/

theorem inBounds2 (N0 N1 : Nat) (a b : Int) :
    InBounds [N0, N1] [a, b] ↔ (0 ≤ a ∧ a < (N0 : Int)) ∧ (0 ≤ b ∧ b < (N1 : Int)) := by
  unfold InBounds
  constructor
  · intro h
    exact ⟨by simpa using h 0 (by simp), by simpa using h 1 (by simp)⟩
  · rintro ⟨h0, h1⟩ i hi
    match i, hi with
    | 0, _ => simpa using h0
    | 1, _ => simpa using h1

theorem ofArray_transpose (img imgT : Find.Image) (H W : Nat) (hT : Find.IsTranspose img imgT H W) :
    AgreeN 2 (ofArray imgT.shape imgT.data) (transImg (ofArray img.shape img.data)) := by
  classical
  intro q hq
  obtain ⟨a, b, rfl⟩ : ∃ a b, q = [a, b] := by
    match q, hq with
    | [a, b], _ => exact ⟨a, b, rfl⟩
  unfold transImg
  simp only [List.getD_cons_zero, List.getD_cons_succ]
  rw [ofArray_eq_if imgT.shape imgT.data [a, b] (by rw [hT.shapeT]; rfl),
    ofArray_eq_if img.shape img.data [b, a] (by rw [hT.shape]; rfl)]
  have e1 : InBounds imgT.shape [a, b] ↔ (0 ≤ a ∧ a < (W : Int)) ∧ (0 ≤ b ∧ b < (H : Int)) := by
    rw [hT.shapeT]; exact inBounds2 W H a b
  have e2 : InBounds img.shape [b, a] ↔ (0 ≤ b ∧ b < (H : Int)) ∧ (0 ≤ a ∧ a < (W : Int)) := by
    rw [hT.shape]; exact inBounds2 H W b a
  by_cases hb : (0 ≤ a ∧ a < (W : Int)) ∧ (0 ≤ b ∧ b < (H : Int))
  · rw [if_pos (e1.mpr hb), if_pos (e2.mpr ⟨hb.2, hb.1⟩)]
    exact hT.pix b.toNat a.toNat (by omega) (by omega)
  · rw [if_neg (fun h => hb (e1.mp h)), if_neg (fun h => hb ⟨(e2.mp h).2, (e2.mp h).1⟩)]

/-! ## the refinement reads index vectors of length `ndim` only -/

section congr
variable {img img' : Image} {radius : List Nat}

theorem wsum_agree (h : AgreeN radius.length img img') (mask : List (List Nat)) (c : List Int)
    (w : List Nat → Rat) :
    wsum img mask (origin radius c) w = wsum img' mask (origin radius c) w := by
  unfold wsum
  congr 1
  apply List.map_congr_left
  intro off _
  rw [h _ (by rw [addOff_length, origin_length])]

theorem massAt_agree (h : AgreeN radius.length img img') (mask : List (List Nat)) (c : List Int) :
    massAt img mask (origin radius c) = massAt img' mask (origin radius c) := wsum_agree h ..

theorem cmN_agree (h : AgreeN radius.length img img') (mask : List (List Nat)) (c : List Int) (i : Nat) :
    cmN img mask radius (origin radius c) i = cmN img' mask radius (origin radius c) i := by
  unfold cmN momAt
  rw [massAt_agree h, wsum_agree h]

theorem maskMax_agree (h : AgreeN radius.length img img') (mask : List (List Nat)) (c : List Int) :
    maskMax img mask (origin radius c) = maskMax img' mask (origin radius c) := by
  unfold maskMax
  congr 1
  apply List.map_congr_left
  intro off _
  rw [h _ (by rw [addOff_length, origin_length])]

theorem offCentre_agree (h : AgreeN radius.length img img') (mask : List (List Nat)) (c : List Int) :
    offCentre img mask radius c = offCentre img' mask radius c := by
  unfold offCentre
  apply List.map_congr_left
  intro i _
  rw [cmN_agree h]

theorem posAt_agree (h : AgreeN radius.length img img') (mask : List (List Nat)) (c : List Int) :
    posAt img mask radius c = posAt img' mask radius c := by
  unfold posAt
  apply List.map_congr_left
  intro i _
  rw [cmN_agree h]

theorem rg2At_agree (h : AgreeN radius.length img img') (mask : List (List Nat)) (c : List Int) :
    rg2At img mask radius (origin radius c) = rg2At img' mask radius (origin radius c) := by
  unfold rg2At
  simp only [wsum_agree h, massAt_agree h]

theorem eccAt_agree (h : AgreeN radius.length img img') (mask : List (List Nat)) (c : List Int) :
    eccAt img mask radius (origin radius c) = eccAt img' mask radius (origin radius c) := by
  unfold eccAt
  simp only [wsum_agree h, h _ (by rw [addOff_length, origin_length] : (addOff (origin radius c) radius).length = radius.length)]

theorem lastCentre_agree (h : AgreeN radius.length img img') (thr : Rat) (mask : List (List Nat))
    (shape : List Nat) : ∀ (k : Nat) (c : List Int),
    lastCentre thr img mask radius shape k c = lastCentre thr img' mask radius shape k c
  | 0, _ => rfl
  | k + 1, c => by
    simp only [lastCentre, offCentre_agree h]
    split
    · rfl
    · exact lastCentre_agree h thr mask shape k _

/-- `refineOne` depends on its two images only through their values on index vectors of length
`ndim = radius.length` -/
theorem refineOne_agree {raw raw' : Image} (h : AgreeN radius.length img img')
    (hr : AgreeN radius.length raw raw') (thr : Rat) (shape : List Nat) (maxIter : Nat)
    (start : List Int) :
    refineOne thr img raw radius shape maxIter start = refineOne thr img' raw' radius shape maxIter start := by
  unfold refineOne
  rw [lastCentre_agree h]
  unfold measure
  simp only [posAt_agree h, massAt_agree h, massAt_agree hr, rg2At_agree h, eccAt_agree h,
    maskMax_agree h]

end congr

end TrackpyV.Refine
