import TrackpyV.Model.FindLinkAlgo
import TrackpyV.Proofs.AlgoGen
import Mathlib.Tactic.Set
/-!
Lemmas about `Model/FindLinkAlgo.lean` (one `FindLinker.next_level`).

Part 1: the sub-nets after `include_lost` and `merge_lost_subnets` (`flGroups`) still satisfy what
the relocation loop needs (`GInv`): no source and no destination occurs twice, every index exists,
and every sub-net contains all detected candidate destinations of its sources.
Part 2: the invariant of the relocation loop (`AccInv`, `SepInv`).
Part 3: the choices of the whole step are well-formed (`Linker.ChoiceOK`), so the labels made
from them are valid (`Linker.valid_of_choiceOK`).
-/
namespace TrackpyV.FindLink
open TrackpyV.Linker TrackpyV.Assign

/-! ## Part 1: the sub-nets -/

/-- what the relocation loop needs to know about the sub-nets -/
structure GInv (n0 k : Nat) (dsOf : Nat → List Nat) (gs : List Group) : Prop where
  src_nodup : (gs.flatMap (·.1)).Nodup
  src_lt : ∀ i ∈ gs.flatMap (·.1), i < k
  dst_nodup : (gs.flatMap (·.2)).Nodup
  dst_lt : ∀ j ∈ gs.flatMap (·.2), j < n0
  closed : ∀ g ∈ gs, ∀ i ∈ g.1, ∀ d ∈ dsOf i, d ∈ g.2

theorem GInv.of_perm {n0 k : Nat} {dsOf : Nat → List Nat} {gs gs' : List Group}
    (h : GInv n0 k dsOf gs) (h1 : (gs'.flatMap (·.1)).Perm (gs.flatMap (·.1)))
    (h2 : (gs'.flatMap (·.2)).Perm (gs.flatMap (·.2)))
    (hc : ∀ g ∈ gs', ∀ i ∈ g.1, ∀ d ∈ dsOf i, d ∈ g.2) : GInv n0 k dsOf gs' :=
  ⟨(h1.nodup_iff).mpr h.src_nodup, fun i hi => h.src_lt i ((h1.mem_iff).mp hi),
    (h2.nodup_iff).mpr h.dst_nodup, fun j hj => h.dst_lt j ((h2.mem_iff).mp hj), hc⟩

theorem insGroup_perm (g : Group) : ∀ gs : List Group, (insGroup g gs).Perm (g :: gs)
  | [] => List.Perm.refl _
  | h :: hs => by
    unfold insGroup
    split
    · exact List.Perm.refl _
    · exact ((insGroup_perm g hs).cons h).trans (List.Perm.swap g h hs)

theorem orderGroups_perm : ∀ gs : List Group, (orderGroups gs).Perm gs
  | [] => List.Perm.refl _
  | g :: gs => by
    show (insGroup g (orderGroups gs)).Perm (g :: gs)
    exact (insGroup_perm g _).trans ((orderGroups_perm gs).cons g)

theorem singles_fst (l : List Nat) :
    (l.map (fun i => (([i], []) : Group))).flatMap (·.1) = l := by
  induction l with
  | nil => rfl
  | cons a l ih => simp [ih]

theorem singles_snd (l : List Nat) :
    (l.map (fun i => (([i], []) : Group))).flatMap (·.2) = [] := by
  induction l with
  | nil => rfl
  | cons a l ih => simp [ih]

theorem mem_lostSingles_fst (cands : List (List Cand)) (i : Nat) :
    i ∈ (lostSingles cands).flatMap (·.1) ↔ i < cands.length ∧ dsOfCands cands i = [] := by
  unfold lostSingles
  rw [singles_fst]
  simp [dsOfCands, List.mem_filter]

/-- the sub-nets after `include_lost` -/
theorem groups1_inv (cfg : Cfg) (st : State) (t : Int) (dsts : List Pos) :
    GInv dsts.length st.srcs.length (dsOfCands (stepCands cfg st t dsts))
      (groups1 cfg st t dsts) := by
  have hs := stepGroups_srcInv cfg st t dsts
  have hg := stepGroups_inv cfg st t dsts
  have hp := orderGroups_perm (stepGroups cfg st t dsts)
  have hp1 := List.Perm.flatMap_right (fun g : Group => g.1) hp
  have hp2 := List.Perm.flatMap_right (fun g : Group => g.2) hp
  have hlost : ∀ i, i ∈ (lostSingles (stepCands cfg st t dsts)).flatMap (·.1) ↔
      i < st.srcs.length ∧ dsOfCands (stepCands cfg st t dsts) i = [] := by
    intro i
    rw [mem_lostSingles_fst, stepCands_length]
  unfold groups1
  refine ⟨?_, ?_, ?_, ?_, ?_⟩
  · rw [List.flatMap_append, List.nodup_append]
    refine ⟨(hp1.nodup_iff).mpr hs.nodup, ?_, ?_⟩
    · unfold lostSingles
      rw [singles_fst]
      exact List.Nodup.sublist List.filter_sublist List.nodup_range
    · intro a ha b hb hab
      subst hab
      exact hs.nonempty a ((hp1.mem_iff).mp ha) ((hlost a).mp hb).2
  · intro i hi
    rw [List.flatMap_append, List.mem_append] at hi
    rcases hi with hi | hi
    · exact hs.lt i ((hp1.mem_iff).mp hi)
    · exact ((hlost i).mp hi).1
  · rw [List.flatMap_append]
    unfold lostSingles
    rw [singles_snd, List.append_nil]
    exact (hp2.nodup_iff).mpr ((hg.dests_perm.nodup_iff).mpr List.nodup_range)
  · intro j hj
    rw [List.flatMap_append] at hj
    unfold lostSingles at hj
    rw [singles_snd, List.append_nil] at hj
    exact List.mem_range.mp ((hg.dests_perm.mem_iff).mp ((hp2.mem_iff).mp hj))
  · intro g hgm i hi d hd
    rcases List.mem_append.mp hgm with hgm | hgm
    · exact hg.closed g ((hp.mem_iff).mp hgm) i hi d hd
    · exfalso
      have : i ∈ (lostSingles (stepCands cfg st t dsts)).flatMap (·.1) :=
        List.mem_flatMap.mpr ⟨g, hgm, hi⟩
      rw [((hlost i).mp this).2] at hd
      cases hd

theorem mergeInto_fst_perm (p : Group → Bool) : ∀ gs : List Group,
    ((mergeInto p gs).flatMap (·.1)).Perm (gs.flatMap (·.1))
  | [] => List.Perm.refl _
  | g :: gs => by
    unfold mergeInto
    split
    · simp only [List.flatMap_cons, List.append_assoc]
      exact (filter_flatMap_fst_perm gs p).append_left g.1
    · simp only [List.flatMap_cons]
      exact (mergeInto_fst_perm p gs).append_left _

theorem mergeInto_snd_perm (p : Group → Bool) : ∀ gs : List Group,
    ((mergeInto p gs).flatMap (·.2)).Perm (gs.flatMap (·.2))
  | [] => List.Perm.refl _
  | g :: gs => by
    unfold mergeInto
    split
    · simp only [List.flatMap_cons, List.append_assoc]
      exact (filter_flatMap_perm gs p).append_left g.2
    · simp only [List.flatMap_cons]
      exact (mergeInto_snd_perm p gs).append_left _

theorem mergeInto_closed (dsOf : Nat → List Nat) (p : Group → Bool) : ∀ gs : List Group,
    (∀ g ∈ gs, ∀ i ∈ g.1, ∀ d ∈ dsOf i, d ∈ g.2) →
    ∀ g ∈ mergeInto p gs, ∀ i ∈ g.1, ∀ d ∈ dsOf i, d ∈ g.2
  | [], _ => by intro g hg; cases hg
  | g0 :: gs, h => by
    intro g hg i hi d hd
    unfold mergeInto at hg
    split at hg
    · rcases List.mem_cons.mp hg with rfl | hg
      · simp only [List.mem_append, List.mem_flatMap] at hi ⊢
        rcases hi with hi | ⟨g1, hg1, hi⟩
        · exact Or.inl (h g0 (List.mem_cons_self ..) i hi d hd)
        · exact Or.inr ⟨g1, hg1,
            h g1 (List.mem_cons_of_mem _ (List.mem_filter.mp hg1).1) i hi d hd⟩
      · exact h g (List.mem_cons_of_mem _ (List.mem_filter.mp hg).1) i hi d hd
    · rcases List.mem_cons.mp hg with rfl | hg
      · exact h g (List.mem_cons_self ..) i hi d hd
      · exact mergeInto_closed dsOf p gs (fun g' hg' => h g' (List.mem_cons_of_mem _ hg')) g hg
          i hi d hd

theorem mergeInto_inv {n0 k : Nat} {dsOf : Nat → List Nat} {gs : List Group} (p : Group → Bool)
    (h : GInv n0 k dsOf gs) : GInv n0 k dsOf (mergeInto p gs) :=
  h.of_perm (mergeInto_fst_perm p gs) (mergeInto_snd_perm p gs) (mergeInto_closed dsOf p gs h.closed)

theorem foldl_preserves {α β} (P : α → Prop) (f : α → β → α) (hf : ∀ a b, P a → P (f a b)) :
    ∀ (l : List β) (a : α), P a → P (l.foldl f a)
  | [], _, h => h
  | b :: l, a, h => foldl_preserves P f hf l (f a b) (hf a b h)

/-- the sub-nets `assign_links` iterates over -/
theorem flGroups_inv (cfg : Cfg) (st : State) (t : Int) (dsts : List Pos) :
    GInv dsts.length st.srcs.length (dsOfCands (stepCands cfg st t dsts))
      (flGroups cfg st t dsts) := by
  unfold flGroups mergeLost
  apply foldl_preserves (GInv dsts.length st.srcs.length (dsOfCands (stepCands cfg st t dsts)))
  · intro gs a hgs
    apply foldl_preserves (GInv dsts.length st.srcs.length (dsOfCands (stepCands cfg st t dsts)))
    · intro gs' b hgs'
      exact mergeInto_inv _ hgs'
    · exact hgs
  · exact groups1_inv cfg st t dsts

end TrackpyV.FindLink
