import TrackpyV.Model.FindLinkAlgo
import TrackpyV.Proofs.AlgoGen
import Mathlib.Tactic.Set
import Mathlib.Tactic.Ring
/-!
Lemmas about `Model/FindLinkAlgo.lean` (one `FindLinker.next_level`).

Part 1: the sub-nets after `include_lost` and `merge_lost_subnets` (`flGroups`) still satisfy what
the relocation loop needs (`GInv`): no source and no destination occurs twice, every index exists,
and every sub-net contains all detected candidate destinations of its sources.
Part 2: the invariant of the relocation loop (`AccInv`, `SepInv`).
Part 3: the choices of the whole step are well-formed (`Linker.ChoiceOK`), so the labels made
from them are valid (`Linker.valid_of_choiceOK`).
-/
namespace TrackpyV.FindLink
open TrackpyV.Linker TrackpyV.Assign

/-! ## Part 1: the sub-nets -/

/-- what the relocation loop needs to know about the sub-nets -/
structure GInv (n0 k : Nat) (dsOf : Nat → List Nat) (gs : List Group) : Prop where
  src_nodup : (gs.flatMap (·.1)).Nodup
  src_lt : ∀ i ∈ gs.flatMap (·.1), i < k
  dst_nodup : (gs.flatMap (·.2)).Nodup
  dst_lt : ∀ j ∈ gs.flatMap (·.2), j < n0
  closed : ∀ g ∈ gs, ∀ i ∈ g.1, ∀ d ∈ dsOf i, d ∈ g.2

theorem GInv.of_perm {n0 k : Nat} {dsOf : Nat → List Nat} {gs gs' : List Group}
    (h : GInv n0 k dsOf gs) (h1 : (gs'.flatMap (·.1)).Perm (gs.flatMap (·.1)))
    (h2 : (gs'.flatMap (·.2)).Perm (gs.flatMap (·.2)))
    (hc : ∀ g ∈ gs', ∀ i ∈ g.1, ∀ d ∈ dsOf i, d ∈ g.2) : GInv n0 k dsOf gs' :=
  ⟨(h1.nodup_iff).mpr h.src_nodup, fun i hi => h.src_lt i ((h1.mem_iff).mp hi),
    (h2.nodup_iff).mpr h.dst_nodup, fun j hj => h.dst_lt j ((h2.mem_iff).mp hj), hc⟩

theorem insGroup_perm (g : Group) : ∀ gs : List Group, (insGroup g gs).Perm (g :: gs)
  | [] => List.Perm.refl _
  | h :: hs => by
    unfold insGroup
    split
    · exact List.Perm.refl _
    · exact ((insGroup_perm g hs).cons h).trans (List.Perm.swap g h hs)

theorem orderGroups_perm : ∀ gs : List Group, (orderGroups gs).Perm gs
  | [] => List.Perm.refl _
  | g :: gs => by
    show (insGroup g (orderGroups gs)).Perm (g :: gs)
    exact (insGroup_perm g _).trans ((orderGroups_perm gs).cons g)

theorem singles_fst (l : List Nat) :
    (l.map (fun i => (([i], []) : Group))).flatMap (·.1) = l := by
  induction l with
  | nil => rfl
  | cons a l ih => simp [ih]

theorem singles_snd (l : List Nat) :
    (l.map (fun i => (([i], []) : Group))).flatMap (·.2) = [] := by
  induction l with
  | nil => rfl
  | cons a l ih => simp [ih]

theorem mem_lostSingles_fst (cands : List (List Cand)) (i : Nat) :
    i ∈ (lostSingles cands).flatMap (·.1) ↔ i < cands.length ∧ dsOfCands cands i = [] := by
  unfold lostSingles
  rw [singles_fst]
  simp [dsOfCands, List.mem_filter]

/-- the sub-nets after `include_lost` -/
theorem groups1_inv (cfg : Cfg) (st : State) (t : Int) (dsts : List Pos) :
    GInv dsts.length st.srcs.length (dsOfCands (stepCands cfg st t dsts))
      (groups1 cfg st t dsts) := by
  have hs := stepGroups_srcInv cfg st t dsts
  have hg := stepGroups_inv cfg st t dsts
  have hp := orderGroups_perm (stepGroups cfg st t dsts)
  have hp1 := List.Perm.flatMap_right (fun g : Group => g.1) hp
  have hp2 := List.Perm.flatMap_right (fun g : Group => g.2) hp
  have hlost : ∀ i, i ∈ (lostSingles (stepCands cfg st t dsts)).flatMap (·.1) ↔
      i < st.srcs.length ∧ dsOfCands (stepCands cfg st t dsts) i = [] := by
    intro i
    rw [mem_lostSingles_fst, stepCands_length]
  unfold groups1
  refine ⟨?_, ?_, ?_, ?_, ?_⟩
  · rw [List.flatMap_append, List.nodup_append]
    refine ⟨(hp1.nodup_iff).mpr hs.nodup, ?_, ?_⟩
    · unfold lostSingles
      rw [singles_fst]
      exact List.Nodup.sublist List.filter_sublist List.nodup_range
    · intro a ha b hb hab
      subst hab
      exact hs.nonempty a ((hp1.mem_iff).mp ha) ((hlost a).mp hb).2
  · intro i hi
    rw [List.flatMap_append, List.mem_append] at hi
    rcases hi with hi | hi
    · exact hs.lt i ((hp1.mem_iff).mp hi)
    · exact ((hlost i).mp hi).1
  · rw [List.flatMap_append]
    unfold lostSingles
    rw [singles_snd, List.append_nil]
    exact (hp2.nodup_iff).mpr ((hg.dests_perm.nodup_iff).mpr List.nodup_range)
  · intro j hj
    rw [List.flatMap_append] at hj
    unfold lostSingles at hj
    rw [singles_snd, List.append_nil] at hj
    exact List.mem_range.mp ((hg.dests_perm.mem_iff).mp ((hp2.mem_iff).mp hj))
  · intro g hgm i hi d hd
    rcases List.mem_append.mp hgm with hgm | hgm
    · exact hg.closed g ((hp.mem_iff).mp hgm) i hi d hd
    · exfalso
      have : i ∈ (lostSingles (stepCands cfg st t dsts)).flatMap (·.1) :=
        List.mem_flatMap.mpr ⟨g, hgm, hi⟩
      rw [((hlost i).mp this).2] at hd
      cases hd

theorem mergeInto_fst_perm (p : Group → Bool) : ∀ gs : List Group,
    ((mergeInto p gs).flatMap (·.1)).Perm (gs.flatMap (·.1))
  | [] => List.Perm.refl _
  | g :: gs => by
    unfold mergeInto
    split
    · simp only [List.flatMap_cons, List.append_assoc]
      exact (filter_flatMap_fst_perm gs p).append_left g.1
    · simp only [List.flatMap_cons]
      exact (mergeInto_fst_perm p gs).append_left _

theorem mergeInto_snd_perm (p : Group → Bool) : ∀ gs : List Group,
    ((mergeInto p gs).flatMap (·.2)).Perm (gs.flatMap (·.2))
  | [] => List.Perm.refl _
  | g :: gs => by
    unfold mergeInto
    split
    · simp only [List.flatMap_cons, List.append_assoc]
      exact (filter_flatMap_perm gs p).append_left g.2
    · simp only [List.flatMap_cons]
      exact (mergeInto_snd_perm p gs).append_left _

theorem mergeInto_closed (dsOf : Nat → List Nat) (p : Group → Bool) : ∀ gs : List Group,
    (∀ g ∈ gs, ∀ i ∈ g.1, ∀ d ∈ dsOf i, d ∈ g.2) →
    ∀ g ∈ mergeInto p gs, ∀ i ∈ g.1, ∀ d ∈ dsOf i, d ∈ g.2
  | [], _ => by intro g hg; cases hg
  | g0 :: gs, h => by
    intro g hg i hi d hd
    unfold mergeInto at hg
    split at hg
    · rcases List.mem_cons.mp hg with rfl | hg
      · simp only [List.mem_append, List.mem_flatMap] at hi ⊢
        rcases hi with hi | ⟨g1, hg1, hi⟩
        · exact Or.inl (h g0 (List.mem_cons_self ..) i hi d hd)
        · exact Or.inr ⟨g1, hg1,
            h g1 (List.mem_cons_of_mem _ (List.mem_filter.mp hg1).1) i hi d hd⟩
      · exact h g (List.mem_cons_of_mem _ (List.mem_filter.mp hg).1) i hi d hd
    · rcases List.mem_cons.mp hg with rfl | hg
      · exact h g (List.mem_cons_self ..) i hi d hd
      · exact mergeInto_closed dsOf p gs (fun g' hg' => h g' (List.mem_cons_of_mem _ hg')) g hg
          i hi d hd

theorem mergeInto_inv {n0 k : Nat} {dsOf : Nat → List Nat} {gs : List Group} (p : Group → Bool)
    (h : GInv n0 k dsOf gs) : GInv n0 k dsOf (mergeInto p gs) :=
  h.of_perm (mergeInto_fst_perm p gs) (mergeInto_snd_perm p gs) (mergeInto_closed dsOf p gs h.closed)

theorem foldl_preserves {α β} (P : α → Prop) (f : α → β → α) (hf : ∀ a b, P a → P (f a b)) :
    ∀ (l : List β) (a : α), P a → P (l.foldl f a)
  | [], _, h => h
  | b :: l, a, h => foldl_preserves P f hf l (f a b) (hf a b h)

/-- the sub-nets `assign_links` iterates over -/
theorem flGroups_inv (cfg : Cfg) (st : State) (t : Int) (dsts : List Pos) :
    GInv dsts.length st.srcs.length (dsOfCands (stepCands cfg st t dsts))
      (flGroups cfg st t dsts) := by
  unfold flGroups mergeLost
  apply foldl_preserves (GInv dsts.length st.srcs.length (dsOfCands (stepCands cfg st t dsts)))
  · intro gs a hgs
    apply foldl_preserves (GInv dsts.length st.srcs.length (dsOfCands (stepCands cfg st t dsts)))
    · intro gs' b hgs'
      exact mergeInto_inv _ hgs'
    · exact hgs
  · exact groups1_inv cfg st t dsts

/-! ## Part 2: the relocation loop -/

theorem getElem?_append_some {α} {l l' : List α} {j : Nat} {q : α} (h : l[j]? = some q) :
    (l ++ l')[j]? = some q := by
  have hj : j < l.length := by
    rcases Nat.lt_or_ge j l.length with h' | h'
    · exact h'
    · rw [List.getElem?_eq_none h'] at h; cases h
  rw [List.getElem?_append_left hj]
  exact h

theorem getElem?_append_cases {α} {l l' : List α} {j : Nat} {q : α}
    (h : (l ++ l')[j]? = some q) : l[j]? = some q ∨ (l.length ≤ j ∧ q ∈ l') := by
  by_cases hj : j < l.length
  · left
    rwa [List.getElem?_append_left hj] at h
  · right
    have hj' : l.length ≤ j := by omega
    rw [List.getElem?_append_right hj'] at h
    exact ⟨hj', List.mem_of_getElem? h⟩

theorem lt_of_getElem?_some {α} {l : List α} {j : Nat} {q : α} (h : l[j]? = some q) :
    j < l.length := by
  rcases Nat.lt_or_ge j l.length with h' | h'
  · exact h'
  · rw [List.getElem?_eq_none h'] at h; cases h

theorem keepCand_none (n0 base c : Nat) : keepCand n0 base (none, c) = true := rfl
theorem keepCand_some (n0 base j c : Nat) :
    keepCand n0 base (some j, c) = (decide (j < n0) || decide (base ≤ j)) := rfl

/-- a candidate in `forward_cands` of source `i`: the null link, or a feature of the level within
range that is either a detected one or one added for the current sub-net -/
theorem mem_fcands {cfg : Cfg} {st : State} {t : Int} {n0 base : Nat} {lvl : List Pos} {i : Nat}
    {c : Cand} (h : c ∈ fcands cfg st t n0 base lvl i) :
    ∃ s, st.srcs[i]? = some s ∧ (c = (none, cfg.B) ∨ ∃ j q, c.1 = some j ∧ lvl[j]? = some q ∧
      dist2 cfg.w (view cfg t s) q ≤ cfg.B ∧ (j < n0 ∨ base ≤ j)) := by
  unfold fcands at h
  split at h
  · rename_i s hs
    refine ⟨s, hs, ?_⟩
    rw [List.mem_filter] at h
    obtain ⟨hc, hk⟩ := h
    rcases mem_candsOfRow _ _ c hc with rfl | ⟨j, hj, rfl, hle⟩
    · left; rfl
    · right
      have hj' : j < lvl.length := by simpa [distRow] using hj
      refine ⟨j, lvl[j], rfl, List.getElem?_eq_getElem hj', ?_, ?_⟩
      · simpa [distRow] using hle
      · simpa [keepCand] using hk
  · cases h

theorem fcands_sorted (cfg : Cfg) (st : State) (t : Int) (n0 base : Nat) (lvl : List Pos) (i : Nat) :
    SortedC (fcands cfg st t n0 base lvl i) := by
  unfold fcands
  split
  · rename_i s _
    have h := candsOf_sorted cfg t lvl s
    generalize candsOf cfg t lvl s = l at h
    induction l with
    | nil => trivial
    | cons a l ih =>
      rw [sortedC_cons_iff] at h
      simp only [List.filter_cons]
      split
      · rw [sortedC_cons_iff]
        exact ⟨fun x hx => h.1 x (List.mem_filter.mp hx).1, ih h.2⟩
      · exact ih h.2
  · trivial

theorem fcands_hasNull (cfg : Cfg) (st : State) (t : Int) (n0 base : Nat) (lvl : List Pos) (i : Nat)
    (hi : i < st.srcs.length) : (none, cfg.B) ∈ fcands cfg st t n0 base lvl i := by
  unfold fcands
  rw [List.getElem?_eq_getElem hi]
  simp only
  rw [List.mem_filter]
  exact ⟨candsOf_hasNull cfg t lvl _, rfl⟩

/-- a detected feature within range of a source is one of its real candidates in the plain step -/
theorem mem_realDests_candsOf (cfg : Cfg) (t : Int) (dsts : List Pos) (s : Source) (j : Nat)
    (q : Pos) (hq : dsts[j]? = some q) (hd : dist2 cfg.w (view cfg t s) q ≤ cfg.B) :
    j ∈ realDests (candsOf cfg t dsts s) := by
  simp only [realDests, List.mem_filterMap]
  refine ⟨(some j, dist2 cfg.w (view cfg t s) q), ?_, rfl⟩
  simp only [candsOf, candsOfRow, List.mem_append, mem_foldr_insCand, List.mem_filterMap]
  left
  refine ⟨(dist2 cfg.w (view cfg t s) q, j), ?_, by simp [hd]⟩
  rw [List.mk_mem_zipIdx_iff_getElem?]
  simp [distRow, hq]

theorem dsOfCands_stepCands (cfg : Cfg) (st : State) (t : Int) (dsts : List Pos) (i : Nat)
    (s : Source) (hs : st.srcs[i]? = some s) :
    dsOfCands (stepCands cfg st t dsts) i = realDests (candsOf cfg t dsts s) := by
  simp [dsOfCands, getD', stepCands, hs]

/-- the choices of one sub-net (the `ch` of `processGroup`) -/
def groupCh (cfg : Cfg) (st : State) (t : Int) (n0 base : Nat) (lvl' : List Pos) (g : Group) :
    List (Nat × Cand) :=
  if g.1.isEmpty then [] else
    match solveOrdered (g.1.map (fcands cfg st t n0 base lvl')) with
    | some (_, a) => g.1.zip a
    | none => []

theorem groupCh_cases (cfg : Cfg) (st : State) (t : Int) (n0 base : Nat) (lvl' : List Pos)
    (g : Group) :
    groupCh cfg st t n0 base lvl' g = [] ∨
    ∃ a, groupCh cfg st t n0 base lvl' g = g.1.zip a ∧ a.length = g.1.length ∧
      Admissible (g.1.map (fcands cfg st t n0 base lvl')) a := by
  unfold groupCh
  split
  · exact Or.inl rfl
  · split
    · rename_i c a hsol
      right
      obtain ⟨hadm, _⟩ := solveOrdered_admissible _ c a hsol
      refine ⟨a, rfl, ?_, hadm⟩
      have := picks_length hadm.1
      simpa using this
    · exact Or.inl rfl

theorem groupCh_facts (cfg : Cfg) (st : State) (t : Int) (n0 base : Nat) (lvl' : List Pos)
    (g : Group) (hnd : g.1.Nodup) :
    ((groupCh cfg st t n0 base lvl' g).map Prod.fst).Nodup ∧
    ((groupCh cfg st t n0 base lvl' g).filterMap (fun x => x.2.1)).Nodup ∧
    ∀ x ∈ groupCh cfg st t n0 base lvl' g,
      x.1 ∈ g.1 ∧ x.2 ∈ fcands cfg st t n0 base lvl' x.1 := by
  rcases groupCh_cases cfg st t n0 base lvl' g with h | ⟨a, h, hl, hadm⟩
  · rw [h]; simp
  · rw [h]
    refine ⟨?_, ?_, ?_⟩
    · rw [List.map_fst_zip (by omega)]; exact hnd
    · rw [filterMap_zip_snd g.1 a (by omega)]; exact hadm.2.1
    · intro x hx
      refine ⟨(List.of_mem_zip hx).1, ?_⟩
      exact picks_zip_mem g.1 (fcands cfg st t n0 base lvl') a hadm.1 x.1 x.2 hx

/-- the solver never fails on a sub-net of the step (so the fall-back `[]` of `processGroup` is
never taken for a sub-net with sources) -/
theorem groupCh_total (cfg : Cfg) (st : State) (t : Int) (n0 base : Nat) (lvl' : List Pos)
    (g : Group) (hne : g.1 ≠ []) (hlt : ∀ i ∈ g.1, i < st.srcs.length) :
    ∃ c a, solveOrdered (g.1.map (fcands cfg st t n0 base lvl')) = some (c, a) := by
  apply solveOrdered_total
  · simpa using hne
  · intro s hs
    simp only [List.mem_map] at hs
    obtain ⟨i, _, rfl⟩ := hs
    exact fcands_sorted cfg st t n0 base lvl' i
  · intro s hs
    simp only [List.mem_map] at hs
    obtain ⟨i, hi, rfl⟩ := hs
    exact ⟨cfg.B, fcands_hasNull cfg st t n0 base lvl' i (hlt i hi)⟩

/-- invariant of the loop over the sub-nets; `done` = the sub-nets processed so far -/
structure AccInv (cfg : Cfg) (st : State) (t : Int) (dsts : List Pos) (done : List Group)
    (acc : Acc) : Prop where
  pre : ∃ extra, acc.lvl = dsts ++ extra ∧ acc.masses.length = extra.length
  fst_nodup : (acc.choices.map Prod.fst).Nodup
  fst_mem : ∀ x ∈ acc.choices, x.1 ∈ done.flatMap (·.1)
  dst_nodup : (acc.choices.filterMap (fun x => x.2.1)).Nodup
  dst_mem : ∀ j ∈ acc.choices.filterMap (fun x => x.2.1),
    j ∈ done.flatMap (·.2) ∨ (dsts.length ≤ j ∧ j < acc.lvl.length)
  in_range : ∀ x ∈ acc.choices, ∀ j, x.2.1 = some j → ∃ s q, st.srcs[x.1]? = some s ∧
    acc.lvl[j]? = some q ∧ dist2 cfg.w (view cfg t s) q ≤ cfg.B
  added_src : ∀ j q, dsts.length ≤ j → acc.lvl[j]? = some q →
    ∃ g ∈ done, short g = true ∧ ∃ i ∈ g.1, ∃ s, st.srcs[i]? = some s ∧
      dist2 cfg.w (view cfg t s) q ≤ cfg.B

theorem accInv_init (cfg : Cfg) (st : State) (t : Int) (dsts : List Pos) :
    AccInv cfg st t dsts [] { lvl := dsts, masses := [], choices := [] } := by
  refine ⟨⟨[], by simp, rfl⟩, by simp, by simp, by simp, by simp, by simp, ?_⟩
  intro j q hj hq
  have := lt_of_getElem?_some hq
  simp only at this
  omega

theorem viewOf_eq (cfg : Cfg) (st : State) (t : Int) (i : Nat) (s : Source)
    (hs : st.srcs[i]? = some s) : viewOf cfg st t i = view cfg t s := by
  simp [viewOf, hs]

theorem processGroup_inv {cfg : Cfg} {st : State} {t : Int} {dsts : List Pos} {orc : Oracle}
    {done : List Group} {acc : Acc} (g : Group)
    (hinv : AccInv cfg st t dsts done acc)
    (hnd : g.1.Nodup) (hdisj : ∀ i ∈ g.1, i ∉ done.flatMap (·.1))
    (hlt : ∀ i ∈ g.1, i < st.srcs.length)
    (hddisj : ∀ j ∈ g.2, j ∉ done.flatMap (·.2)) (hdlt : ∀ j ∈ g.2, j < dsts.length)
    (hdone_lt : ∀ j ∈ done.flatMap (·.2), j < dsts.length)
    (hclosed : ∀ i ∈ g.1, ∀ d ∈ dsOfCands (stepCands cfg st t dsts) i, d ∈ g.2) :
    AccInv cfg st t dsts (done ++ [g]) (processGroup cfg st t orc dsts.length acc g) := by
  obtain ⟨extra, hlvl, hmass⟩ := hinv.pre
  set pos := g.1.map (viewOf cfg st t) with hpos
  set new := (if short g then (orc acc.lvl pos).take (g.1.length - g.2.length) else []) with hnew
  set adm := new.filter (fun x => inReach cfg pos x.1) with hadm
  set lvl' := acc.lvl ++ adm.map (·.1) with hlvl'
  set ch := groupCh cfg st t dsts.length acc.lvl.length lvl' g with hch
  have hproc : processGroup cfg st t orc dsts.length acc g =
      { lvl := lvl', masses := acc.masses ++ adm.map (·.2), choices := acc.choices ++ ch } := rfl
  rw [hproc]
  obtain ⟨hc1, hc2, hc3⟩ := groupCh_facts cfg st t dsts.length acc.lvl.length lvl' g hnd
  have hn0 : dsts.length ≤ acc.lvl.length := by rw [hlvl]; simp
  have hlen' : acc.lvl.length ≤ lvl'.length := by rw [hlvl']; simp
  -- a chosen real candidate
  have hcand : ∀ x ∈ ch, ∀ j, x.2.1 = some j → ∃ s q, st.srcs[x.1]? = some s ∧
      lvl'[j]? = some q ∧ dist2 cfg.w (view cfg t s) q ≤ cfg.B ∧
      (j ∈ g.2 ∨ acc.lvl.length ≤ j) := by
    intro x hx j hxj
    obtain ⟨hx1, hx2⟩ := hc3 x hx
    obtain ⟨s, hs, hcase⟩ := mem_fcands hx2
    rcases hcase with hnull | ⟨j', q, hj', hq, hd, hwhere⟩
    · rw [hnull] at hxj; cases hxj
    · rw [hxj] at hj'
      cases hj'
      refine ⟨s, q, hs, hq, hd, ?_⟩
      rcases hwhere with hlt0 | hge
      · left
        apply hclosed x.1 hx1
        rw [dsOfCands_stepCands cfg st t dsts x.1 s hs]
        apply mem_realDests_candsOf cfg t dsts s j q _ hd
        have : lvl' = dsts ++ (extra ++ adm.map (·.1)) := by
          rw [hlvl', hlvl, List.append_assoc]
        rw [this, List.getElem?_append_left hlt0] at hq
        exact hq
      · exact Or.inr hge
  refine ⟨⟨extra ++ adm.map (·.1), ?_, ?_⟩, ?_, ?_, ?_, ?_, ?_, ?_⟩
  · show lvl' = _
    rw [hlvl', hlvl, List.append_assoc]
  · simp [hmass]
  · -- sources
    show ((acc.choices ++ ch).map Prod.fst).Nodup
    rw [List.map_append, List.nodup_append]
    refine ⟨hinv.fst_nodup, hc1, ?_⟩
    intro a ha b hb hab
    subst hab
    obtain ⟨x, hx, rfl⟩ := List.mem_map.mp ha
    obtain ⟨y, hy, hyx⟩ := List.mem_map.mp hb
    exact hdisj x.1 (hyx ▸ (hc3 y hy).1) (hinv.fst_mem x hx)
  · intro x hx
    rw [List.flatMap_append, List.mem_append]
    rcases List.mem_append.mp hx with hx | hx
    · exact Or.inl (hinv.fst_mem x hx)
    · right; simpa using (hc3 x hx).1
  · -- destinations
    show ((acc.choices ++ ch).filterMap (fun x => x.2.1)).Nodup
    rw [List.filterMap_append, List.nodup_append]
    refine ⟨hinv.dst_nodup, hc2, ?_⟩
    intro a ha b hb hab
    subst hab
    obtain ⟨y, hy, hya⟩ := List.mem_filterMap.mp hb
    obtain ⟨_, _, _, hq, _, hwhere⟩ := hcand y hy a hya
    rcases hinv.dst_mem a ha with hold | ⟨h1, h2⟩ <;> rcases hwhere with hw | hw
    · exact hddisj a hw hold
    · have := hdone_lt a hold; omega
    · have := hdlt a hw; omega
    · omega
  · intro j hj
    show j ∈ (done ++ [g]).flatMap (·.2) ∨ (dsts.length ≤ j ∧ j < lvl'.length)
    rw [List.filterMap_append, List.mem_append] at hj
    rw [List.flatMap_append, List.mem_append]
    rcases hj with hj | hj
    · rcases hinv.dst_mem j hj with h | ⟨h1, h2⟩
      · exact Or.inl (Or.inl h)
      · exact Or.inr ⟨h1, by omega⟩
    · obtain ⟨y, hy, hyj⟩ := List.mem_filterMap.mp hj
      obtain ⟨_, _, _, hq, _, hwhere⟩ := hcand y hy j hyj
      rcases hwhere with hw | hw
      · left; right; simpa using hw
      · exact Or.inr ⟨by omega, lt_of_getElem?_some hq⟩
  · -- links within range
    intro x hx j hxj
    show ∃ s q, st.srcs[x.1]? = some s ∧ lvl'[j]? = some q ∧ _
    rcases List.mem_append.mp hx with hx | hx
    · obtain ⟨s, q, hs, hq, hd⟩ := hinv.in_range x hx j hxj
      exact ⟨s, q, hs, getElem?_append_some hq, hd⟩
    · obtain ⟨s, q, hs, hq, hd, _⟩ := hcand x hx j hxj
      exact ⟨s, q, hs, hq, hd⟩
  · -- added features have a source
    intro j q hj hq
    change lvl'[j]? = some q at hq
    rcases getElem?_append_cases hq with hq | ⟨_, hq⟩
    · obtain ⟨g', hg', hrest⟩ := hinv.added_src j q hj hq
      exact ⟨g', List.mem_append_left _ hg', hrest⟩
    · refine ⟨g, by simp, ?_⟩
      obtain ⟨x, hx, rfl⟩ := List.mem_map.mp hq
      rw [hadm, List.mem_filter] at hx
      obtain ⟨hxnew, hreach⟩ := hx
      constructor
      · cases hs : short g with
        | true => rfl
        | false =>
          rw [hnew] at hxnew
          simp only [hs, Bool.false_eq_true, if_false] at hxnew
          cases hxnew
      · simp only [inReach, hpos, List.any_eq_true, List.mem_map, decide_eq_true_eq] at hreach
        obtain ⟨p, ⟨i, hi, rfl⟩, hd⟩ := hreach
        have hi' := hlt i hi
        refine ⟨i, hi, st.srcs[i], List.getElem?_eq_getElem hi', ?_⟩
        rw [← viewOf_eq cfg st t i _ (List.getElem?_eq_getElem hi')]
        exact hd

/-! ## Part 3: the whole step -/

theorem foldl_processGroup_inv {cfg : Cfg} {st : State} {t : Int} {dsts : List Pos} {orc : Oracle} :
    ∀ (rest done : List Group) (acc : Acc),
    GInv dsts.length st.srcs.length (dsOfCands (stepCands cfg st t dsts)) (done ++ rest) →
    AccInv cfg st t dsts done acc →
    AccInv cfg st t dsts (done ++ rest) (rest.foldl (processGroup cfg st t orc dsts.length) acc)
  | [], done, acc, _, h => by simpa using h
  | g :: rest, done, acc, hg, h => by
    simp only [List.foldl_cons]
    have hg' : GInv dsts.length st.srcs.length (dsOfCands (stepCands cfg st t dsts))
        ((done ++ [g]) ++ rest) := by simpa using hg
    have hs := hg.src_nodup
    have hd := hg.dst_nodup
    simp only [List.flatMap_append, List.flatMap_cons, List.nodup_append] at hs hd
    have hstep : AccInv cfg st t dsts (done ++ [g]) (processGroup cfg st t orc dsts.length acc g) := by
      apply processGroup_inv g h
      · exact hs.2.1.1
      · intro i hi hi'
        exact hs.2.2 i hi' i (List.mem_append_left _ hi) rfl
      · intro i hi
        exact hg.src_lt i (List.mem_flatMap.mpr ⟨g, by simp, hi⟩)
      · intro j hj hj'
        exact hd.2.2 j hj' j (List.mem_append_left _ hj) rfl
      · intro j hj
        exact hg.dst_lt j (List.mem_flatMap.mpr ⟨g, by simp, hj⟩)
      · intro j hj
        obtain ⟨g', hg'm, hj'⟩ := List.mem_flatMap.mp hj
        exact hg.dst_lt j (List.mem_flatMap.mpr ⟨g', List.mem_append_left _ hg'm, hj'⟩)
      · exact hg.closed g (by simp)
    have := foldl_processGroup_inv (orc := orc) rest (done ++ [g]) _ hg' hstep
    simpa using this

/-- the loop invariant holds at the end of the step -/
theorem flAcc_inv (cfg : Cfg) (st : State) (t : Int) (orc : Oracle) (dsts : List Pos) :
    AccInv cfg st t dsts (flGroups cfg st t dsts) (flAcc cfg st t orc dsts) := by
  have := foldl_processGroup_inv (orc := orc) (flGroups cfg st t dsts) [] _
    (by simpa using flGroups_inv cfg st t dsts) (accInv_init cfg st t dsts)
  simpa [flAcc] using this

/-- **the choices of a FindLinker step are well-formed**: no source and no destination twice,
every link within range — with respect to the level AFTER relocation -/
theorem flAcc_choiceOK (cfg : Cfg) (st : State) (t : Int) (orc : Oracle) (dsts : List Pos) :
    ChoiceOK cfg st t (flAcc cfg st t orc dsts).lvl (flAcc cfg st t orc dsts).choices := by
  have h := flAcc_inv cfg st t orc dsts
  have hg := flGroups_inv cfg st t dsts
  refine ⟨h.fst_nodup, fun x hx => hg.src_lt x.1 (h.fst_mem x hx), h.dst_nodup, ?_⟩
  intro x hx j hj
  obtain ⟨s, q, hs, hq, hd⟩ := h.in_range x hx j hj
  rw [List.getElem?_eq_some_iff] at hs hq
  obtain ⟨hi, hs⟩ := hs
  obtain ⟨hj', hq⟩ := hq
  refine ⟨hi, hj', ?_⟩
  rw [hs, hq]
  exact hd

/-! ### the contract of the relocation oracle and what it gives -/

/-- the contract of `get_relocate_candidates` (find_link.py:374-451), on the integer scale of the
linker model.  `Props/C14.relocate_admissible` + `Props/C14Bg.reloc_clear_of_hash_all` prove these
clauses for the executable model `Relocate.relocateCandidates` in its own (rational) geometry. -/
structure OracleOK (cfg : Cfg) (f : FCfg) (orc : Oracle) : Prop where
  /-- find_link.py:410-417: keeps the margin, in image coordinates -/
  margin : ∀ hash pos, ∀ x ∈ orc hash pos, insideMargin f.shape f.margin x.1 = true
  /-- find_link.py:444-448 -/
  mass : ∀ hash pos, ∀ x ∈ orc hash pos, f.minmass ≤ x.2
  /-- find_link.py:419-430: within search range of one of the source positions handed in -/
  in_range : ∀ hash pos, ∀ x ∈ orc hash pos, inReach cfg pos x.1 = true
  /-- find_link.py:391-395 (+ `bg_radius_covers`): not closer than `separation` to any feature
  in the hash -/
  clear : ∀ hash pos, ∀ x ∈ orc hash pos, ∀ b ∈ hash, f.sepB ≤ dist2 f.sepW x.1 b
  /-- find_link.py:432-436 `drop_close` -/
  apart : ∀ hash pos, (orc hash pos).Pairwise (fun x y => f.sepB ≤ dist2 f.sepW y.1 x.1)

/-- invariant of the loop under the oracle contract: the added features keep the margin, are at
least `separation` apart from each other and from every detected feature, and weigh ≥ minmass -/
structure SepInv (f : FCfg) (dsts : List Pos) (acc : Acc) : Prop where
  ex : ∃ extra, acc.lvl = dsts ++ extra ∧
    extra.Pairwise (fun x y => f.sepB ≤ dist2 f.sepW y x) ∧
    ∀ x ∈ extra, insideMargin f.shape f.margin x = true ∧ ∀ b ∈ dsts, f.sepB ≤ dist2 f.sepW x b
  mass : ∀ m ∈ acc.masses, f.minmass ≤ m

theorem processGroup_sep {cfg : Cfg} {st : State} {t : Int} {dsts : List Pos} {orc : Oracle}
    {f : FCfg} (ho : OracleOK cfg f orc) (acc : Acc) (g : Group) (h : SepInv f dsts acc) :
    SepInv f dsts (processGroup cfg st t orc dsts.length acc g) := by
  obtain ⟨extra, hlvl, hpw, hex⟩ := h.ex
  set pos := g.1.map (viewOf cfg st t) with hpos
  set new := (if short g then (orc acc.lvl pos).take (g.1.length - g.2.length) else []) with hnew
  set adm := new.filter (fun x => inReach cfg pos x.1) with hadm
  have hproc : processGroup cfg st t orc dsts.length acc g =
      { lvl := acc.lvl ++ adm.map (·.1), masses := acc.masses ++ adm.map (·.2),
        choices := acc.choices ++ groupCh cfg st t dsts.length acc.lvl.length
          (acc.lvl ++ adm.map (·.1)) g } := rfl
  rw [hproc]
  have hsub : adm.Sublist (orc acc.lvl pos) := by
    refine List.filter_sublist.trans ?_
    rw [hnew]
    split
    · exact List.take_sublist _ _
    · exact List.nil_sublist _
  have hmem : ∀ x ∈ adm, x ∈ orc acc.lvl pos := fun x hx => hsub.subset hx
  constructor
  · refine ⟨extra ++ adm.map (·.1), by simp [hlvl], ?_, ?_⟩
    · rw [List.pairwise_append]
      refine ⟨hpw, ?_, ?_⟩
      · rw [List.pairwise_map]
        exact List.Pairwise.sublist hsub (ho.apart acc.lvl pos)
      · intro a ha b hb
        obtain ⟨x, hx, rfl⟩ := List.mem_map.mp hb
        exact ho.clear acc.lvl pos x (hmem x hx) a (by rw [hlvl]; exact List.mem_append_right _ ha)
    · intro x hx
      rcases List.mem_append.mp hx with hx | hx
      · exact hex x hx
      · obtain ⟨y, hy, rfl⟩ := List.mem_map.mp hx
        refine ⟨ho.margin acc.lvl pos y (hmem y hy), ?_⟩
        intro b hb
        exact ho.clear acc.lvl pos y (hmem y hy) b (by rw [hlvl]; exact List.mem_append_left _ hb)
  · intro m hm
    change m ∈ acc.masses ++ adm.map (·.2) at hm
    rcases List.mem_append.mp hm with hm | hm
    · exact h.mass m hm
    · obtain ⟨y, hy, rfl⟩ := List.mem_map.mp hm
      exact ho.mass acc.lvl pos y (hmem y hy)

theorem flAcc_sep (cfg : Cfg) (st : State) (t : Int) (orc : Oracle) (dsts : List Pos) (f : FCfg)
    (ho : OracleOK cfg f orc) : SepInv f dsts (flAcc cfg st t orc dsts) := by
  unfold flAcc
  apply foldl_preserves (SepInv f dsts)
  · intro acc g h
    exact processGroup_sep ho acc g h
  · exact ⟨⟨[], by simp, List.Pairwise.nil, by simp⟩, by simp⟩

theorem sqI_comm (a b : Int) : sqI (a - b) = sqI (b - a) := by
  unfold sqI
  congr 1
  ring

/-- the weighted squared distance of the linker model is symmetric -/
theorem dist2_comm : ∀ (w : List Nat) (p q : Pos), dist2 w p q = dist2 w q p
  | [], _, _ => by simp [dist2]
  | _ :: _, [], _ => by simp [dist2]
  | _ :: _, _ :: _, [] => by simp [dist2]
  | w :: ws, p :: ps, q :: qs => by
    simp only [dist2, dist2_comm ws ps qs, sqI_comm p q]

end TrackpyV.FindLink
