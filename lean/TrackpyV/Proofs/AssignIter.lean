import TrackpyV.Model.AssignIter
import TrackpyV.Proofs.Assign
/-!
Simulation proofs for the iterative solvers (`Model/AssignIter.lean`).

* `At cl j k cands rest` : "the loop is at source `j`, column `k`" in terms of `go`'s arguments.
* `goSteps` : the number of iterations `nonrecursive_link` spends on one call of `do_recur`;
  `nonrec_sim` : running the loop from the state that represents "about to explore `cands` for
  source `j` above the stack σ" for exactly `goSteps` iterations ends in the state "popped back to
  σ with best = go …"  (induction along `go`).
* `goL`/`goLSteps` : the recursion the numba kernel implements (a complete assignment that was
  not pruned REPLACES the optimum and ends its level); `numba_sim` the corresponding simulation;
  `goL_mono/_lower/_achieved` its optimality lemmas.
* `goSteps_le`, `goLSteps_le` : both counts are bounded by `levelBound`.
Core Lean only.
-/
namespace TrackpyV.Assign

/-! ## positions -/

def At (cl : List Src) (j k : Nat) (cands : List Cand) (rest : List Src) : Prop :=
  ∃ full, cl[j]? = some full ∧ full.drop k = cands ∧ cl.drop (j + 1) = rest

theorem At.lt {cl j k cands rest} (h : At cl j k cands rest) : j < cl.length := by
  obtain ⟨full, h1, _, _⟩ := h
  exact (List.getElem?_eq_some_iff.mp h1).1

theorem At.nil {cl j k rest} (h : At cl j k [] rest) : (cl.getD j []).length ≤ k := by
  obtain ⟨full, h1, h2, _⟩ := h
  simp only [List.getD, h1, Option.getD_some]
  exact List.drop_eq_nil_iff.mp h2

theorem At.cons {cl j k dc cs rest} (h : At cl j k (dc :: cs) rest) :
    k < (cl.getD j []).length ∧ (cl.getD j []).getD k (none, 0) = dc ∧ At cl j (k + 1) cs rest := by
  obtain ⟨full, h1, h2, h3⟩ := h
  simp only [List.getD, h1, Option.getD_some]
  have hk : k < full.length := by
    apply Classical.byContradiction
    intro hn
    have : full.drop k = [] := List.drop_eq_nil_iff.mpr (by omega)
    rw [this] at h2; cases h2
  rw [List.drop_eq_getElem_cons hk] at h2
  simp only [List.cons.injEq] at h2
  refine ⟨hk, ?_, full, h1, h2.2, h3⟩
  simp [List.getElem?_eq_getElem hk, h2.1]

theorem At.last {cl j k cands} (h : At cl j k cands []) : j + 1 = cl.length := by
  have := h.lt
  obtain ⟨_, _, _, h3⟩ := h
  have := List.drop_eq_nil_iff.mp h3
  omega

theorem At.desc {cl j k cands s rest'} (h : At cl j k cands (s :: rest')) :
    At cl (j + 1) 0 s rest' ∧ j + 1 < cl.length := by
  obtain ⟨_, _, _, h3⟩ := h
  have hlt : j + 1 < cl.length := by
    apply Classical.byContradiction
    intro hn
    have : cl.drop (j + 1) = [] := List.drop_eq_nil_iff.mpr (by omega)
    rw [this] at h3; cases h3
  rw [List.drop_eq_getElem_cons hlt] at h3
  simp only [List.cons.injEq] at h3
  exact ⟨⟨s, by simp [List.getElem?_eq_getElem hlt, h3.1], by simp, h3.2⟩, hlt⟩

theorem At.init (s : Src) (rest : List Src) : At (s :: rest) 0 0 s rest :=
  ⟨s, by simp, by simp, by simp⟩

/-! ## `nonrecursive_link` -/

/-- iterations of the `while` loop of `nonrecursive_link` spent on one `do_recur`-call -/
def goSteps (rest : List Src) (cands : List Cand) (tk : List Nat) (cur : Nat)
    (acc : List Cand) (best : Best) : Nat :=
  match cands with
  | [] => 1
  | (d, c) :: cs =>
    if exceeds (cur + c) best then 1
    else if taken d tk then 1 + goSteps rest cs tk cur acc best
    else
      match rest with
      | [] =>
        2 + goSteps [] cs tk cur acc
          (if better (cur + c) best then some (cur + c, acc ++ [(d, c)]) else best)
      | s :: rest' =>
        1 + goSteps rest' s (addTaken d tk) (cur + c) (acc ++ [(d, c)]) best
          + goSteps (s :: rest') cs tk cur acc
              (go rest' s (addTaken d tk) (cur + c) (acc ++ [(d, c)]) best)
termination_by (rest.length, cands.length)

def NReach (cl : List Src) (n : Nat) (S S' : NState) : Prop :=
  ∀ f, nrun cl (n + f) S = nrun cl f S'

theorem NReach.step {cl : List Src} {S : NState} (h : 0 ≤ S.j) : NReach cl 1 S (nstep cl S) := by
  intro f
  rw [show 1 + f = f + 1 by omega, nrun]
  have : ¬ S.j < 0 := by omega
  simp [this]

theorem NReach.trans {cl : List Src} {n m : Nat} {S S' S'' : NState}
    (h1 : NReach cl n S S') (h2 : NReach cl m S' S'') : NReach cl (n + m) S S'' := by
  intro f
  rw [show n + m + f = n + (m + f) by omega, h1, h2]

theorem inBack_eq_taken (d : Option Nat) (acc : List Cand) (tk : List Nat)
    (h : ∀ x, x ∈ tk ↔ x ∈ dests acc) : inBack d acc = taken d tk := by
  cases d with
  | none => rfl
  | some x =>
    simp only [inBack, taken]
    rw [Bool.eq_iff_iff]
    simp only [List.any_eq_true, beq_iff_eq, List.contains_eq_mem, decide_eq_true_eq, h x, dests,
      List.mem_filterMap]

theorem tk_step (d : Option Nat) (c : Nat) (acc : List Cand) (tk : List Nat)
    (h : ∀ x, x ∈ tk ↔ x ∈ dests acc) :
    ∀ x, x ∈ addTaken d tk ↔ x ∈ dests (acc ++ [(d, c)]) := by
  intro x
  cases d with
  | none => simp [addTaken, dests, h x]
  | some y =>
    simp [addTaken, dests, h x, or_comm]

/-- the state "about to run column `k` of source `acc.length` above the stack `ks/sums`" -/
def nAt (acc : List Cand) (k : Nat) (ks : List Nat) (cur : Nat) (sums : List Nat) (best : Best) :
    NState :=
  { j := (acc.length : Int), ks := k :: ks, sums := cur :: sums, back := acc, best := best }

/-- the state after that level has been popped -/
def nPopped (acc : List Cand) (ks : List Nat) (sums : List Nat) (best : Best) : NState :=
  { j := (acc.length : Int) - 1, ks := ks, sums := sums,
    back := if (acc.length : Int) - 1 ≥ 0 then acc.dropLast else acc, best := best }

theorem nstep_exhausted (cl : List Src) (acc : List Cand) (k : Nat) (ks : List Nat) (cur : Nat)
    (sums : List Nat) (best : Best) (hlt : acc.length < cl.length)
    (hk : (cl.getD acc.length []).length ≤ k) :
    nstep cl (nAt acc k ks cur sums best) = nPopped acc ks sums best := by
  have h1 : ¬ ((cl.length : Int) ≤ (acc.length : Int)) := by omega
  have hk' : (cl[acc.length]?.getD []).length ≤ k := by simpa using hk
  simp [nstep, nAt, nPopped, npop, h1, hk']

theorem nstep_pruned (cl : List Src) (acc : List Cand) (k : Nat) (ks : List Nat) (cur : Nat)
    (sums : List Nat) (best : Best) (hlt : acc.length < cl.length) (d : Option Nat) (c : Nat)
    (hk : k < (cl.getD acc.length []).length)
    (hdc : (cl.getD acc.length []).getD k (none, 0) = (d, c))
    (hex : exceeds (cur + c) best = true) :
    nstep cl (nAt acc k ks cur sums best) = nPopped acc ks sums best := by
  have h1 : ¬ ((cl.length : Int) ≤ (acc.length : Int)) := by omega
  have hk' : k < (cl[acc.length]?.getD []).length := by simpa using hk
  have h2 : ¬ ((cl[acc.length]?.getD []).length ≤ k) := by omega
  have hdc' : (cl[acc.length]?.getD [])[k]?.getD (none, 0) = (d, c) := by simpa using hdc
  simp [nstep, nAt, nPopped, npop, h1, h2, hdc', hex]

theorem nstep_taken (cl : List Src) (acc : List Cand) (k : Nat) (ks : List Nat) (cur : Nat)
    (sums : List Nat) (best : Best) (hlt : acc.length < cl.length) (d : Option Nat) (c : Nat)
    (hk : k < (cl.getD acc.length []).length)
    (hdc : (cl.getD acc.length []).getD k (none, 0) = (d, c))
    (hex : exceeds (cur + c) best = false) (htk : inBack d acc = true) :
    nstep cl (nAt acc k ks cur sums best) = nAt acc (k + 1) ks cur sums best := by
  have h1 : ¬ ((cl.length : Int) ≤ (acc.length : Int)) := by omega
  have hk' : k < (cl[acc.length]?.getD []).length := by simpa using hk
  have h2 : ¬ ((cl[acc.length]?.getD []).length ≤ k) := by omega
  have hdc' : (cl[acc.length]?.getD [])[k]?.getD (none, 0) = (d, c) := by simpa using hdc
  simp [nstep, nAt, h1, h2, hdc', hex, htk]

theorem nstep_push (cl : List Src) (acc : List Cand) (k : Nat) (ks : List Nat) (cur : Nat)
    (sums : List Nat) (best : Best) (hlt : acc.length < cl.length) (d : Option Nat) (c : Nat)
    (hk : k < (cl.getD acc.length []).length)
    (hdc : (cl.getD acc.length []).getD k (none, 0) = (d, c))
    (hex : exceeds (cur + c) best = false) (htk : inBack d acc = false) :
    nstep cl (nAt acc k ks cur sums best) =
      nAt (acc ++ [(d, c)]) 0 ((k + 1) :: ks) (cur + c) (cur :: sums) best := by
  have h1 : ¬ ((cl.length : Int) ≤ (acc.length : Int)) := by omega
  have hk' : k < (cl[acc.length]?.getD []).length := by simpa using hk
  have h2 : ¬ ((cl[acc.length]?.getD []).length ≤ k) := by omega
  have hdc' : (cl[acc.length]?.getD [])[k]?.getD (none, 0) = (d, c) := by simpa using hdc
  simp [nstep, nAt, h1, h2, hdc', hex, htk]

theorem nstep_base (cl : List Src) (acc : List Cand) (e : Cand) (k : Nat) (ks : List Nat)
    (cur : Nat) (sums : List Nat) (best : Best) (hlen : acc.length + 1 = cl.length) (k0 : Nat)
    (tmp : Nat) :
    nstep cl (nAt (acc ++ [e]) k0 (k :: ks) tmp (cur :: sums) best) =
      nAt acc k ks cur sums (if better tmp best then some (tmp, acc ++ [e]) else best) := by
  have h1 : ((cl.length : Int) ≤ ((acc ++ [e]).length : Int)) := by simp; omega
  simp only [nstep, nAt, h1, if_true]
  simp

theorem nPopped_push (acc : List Cand) (e : Cand) (k : Nat) (ks : List Nat) (cur : Nat)
    (sums : List Nat) (best : Best) :
    nPopped (acc ++ [e]) (k :: ks) (cur :: sums) best = nAt acc k ks cur sums best := by
  simp [nPopped, nAt]

theorem nAt_j_nonneg (acc k ks cur sums best) : 0 ≤ (nAt acc k ks cur sums best).j := by
  simp [nAt]

theorem go_taken (rest : List Src) (d : Option Nat) (c : Nat) (cs : List Cand) (tk : List Nat)
    (cur : Nat) (acc : List Cand) (best : Best) (hex : ¬ exceeds (cur + c) best = true)
    (htk : taken d tk = true) :
    go rest ((d, c) :: cs) tk cur acc best = go rest cs tk cur acc best := by
  rw [go.eq_def]; simp [hex, htk]

theorem go_last (d : Option Nat) (c : Nat) (cs : List Cand) (tk : List Nat)
    (cur : Nat) (acc : List Cand) (best : Best) (hex : ¬ exceeds (cur + c) best = true)
    (htk : ¬ taken d tk = true) :
    go [] ((d, c) :: cs) tk cur acc best = go [] cs tk cur acc
      (if better (cur + c) best then some (cur + c, acc ++ [(d, c)]) else best) := by
  rw [go.eq_def]; simp [hex, htk]

theorem go_desc (s : Src) (rest' : List Src) (d : Option Nat) (c : Nat) (cs : List Cand)
    (tk : List Nat) (cur : Nat) (acc : List Cand) (best : Best)
    (hex : ¬ exceeds (cur + c) best = true) (htk : ¬ taken d tk = true) :
    go (s :: rest') ((d, c) :: cs) tk cur acc best = go (s :: rest') cs tk cur acc
      (go rest' s (addTaken d tk) (cur + c) (acc ++ [(d, c)]) best) := by
  rw [go.eq_def]; simp [hex, htk]

/-- **simulation**: `goSteps` iterations of the loop perform one `do_recur` call -/
theorem nonrec_sim (cl : List Src) (rest : List Src) (cands : List Cand) (tk : List Nat)
    (cur : Nat) (acc : List Cand) (best : Best) :
    ∀ (k : Nat) (ks sums : List Nat), At cl acc.length k cands rest →
      (∀ x, x ∈ tk ↔ x ∈ dests acc) →
      NReach cl (goSteps rest cands tk cur acc best) (nAt acc k ks cur sums best)
        (nPopped acc ks sums (go rest cands tk cur acc best)) := by
  fun_induction goSteps rest cands tk cur acc best with
  | case1 rest tk cur acc best =>
    intro k ks sums hat htk
    rw [go.eq_def]
    have := NReach.step (cl := cl) (nAt_j_nonneg acc k ks cur sums best)
    rwa [nstep_exhausted cl acc k ks cur sums best hat.lt hat.nil] at this
  | case2 rest tk cur acc best d c cs hex =>
    intro k ks sums hat htk
    rw [go.eq_def]; simp only [hex, if_true]
    obtain ⟨hk, hdc, _⟩ := hat.cons
    have := NReach.step (cl := cl) (nAt_j_nonneg acc k ks cur sums best)
    rwa [nstep_pruned cl acc k ks cur sums best hat.lt d c hk hdc hex] at this
  | case3 rest tk cur acc best d c cs hex htaken ih =>
    intro k ks sums hat htk
    rw [go_taken rest d c cs tk cur acc best hex htaken]
    obtain ⟨hk, hdc, hat'⟩ := hat.cons
    have h1 := NReach.step (cl := cl) (nAt_j_nonneg acc k ks cur sums best)
    rw [nstep_taken cl acc k ks cur sums best hat.lt d c hk hdc (by simpa using hex)
      (by rw [inBack_eq_taken d acc tk htk]; exact htaken)] at h1
    exact h1.trans (ih (k + 1) ks sums hat' htk)
  | case4 tk cur acc best d c cs hex htaken ih =>
    intro k ks sums hat htk
    rw [go_last d c cs tk cur acc best hex htaken]
    obtain ⟨hk, hdc, hat'⟩ := hat.cons
    have h1 := NReach.step (cl := cl) (nAt_j_nonneg acc k ks cur sums best)
    rw [nstep_push cl acc k ks cur sums best hat.lt d c hk hdc (by simpa using hex)
      (by rw [inBack_eq_taken d acc tk htk]; simpa using htaken)] at h1
    have h2 := NReach.step (cl := cl)
      (nAt_j_nonneg (acc ++ [(d, c)]) 0 ((k + 1) :: ks) (cur + c) (cur :: sums) best)
    rw [nstep_base cl acc (d, c) (k + 1) ks cur sums best hat.last 0 (cur + c)] at h2
    have h3 := (h1.trans h2).trans (ih (k + 1) ks sums hat' htk)
    simpa using h3
  | case5 tk cur acc best d c cs hex htaken s rest' ih1 ih2 =>
    intro k ks sums hat htk
    rw [go_desc s rest' d c cs tk cur acc best hex htaken]
    obtain ⟨hk, hdc, hat'⟩ := hat.cons
    have h1 := NReach.step (cl := cl) (nAt_j_nonneg acc k ks cur sums best)
    rw [nstep_push cl acc k ks cur sums best hat.lt d c hk hdc (by simpa using hex)
      (by rw [inBack_eq_taken d acc tk htk]; simpa using htaken)] at h1
    have hd := hat.desc.1
    have h2 := ih1 0 ((k + 1) :: ks) (cur :: sums)
      (by simpa using hd) (tk_step d c acc tk htk)
    rw [nPopped_push] at h2
    have h3 := (h1.trans h2).trans (ih2 (k + 1) ks sums hat' htk)
    simpa [Nat.add_assoc] using h3

/-- the a-priori iteration bound -/
theorem goSteps_le (rest : List Src) (cands : List Cand) (tk : List Nat) (cur : Nat)
    (acc : List Cand) (best : Best) :
    goSteps rest cands tk cur acc best ≤ 1 + cands.length * (1 + levelBound rest) := by
  fun_induction goSteps rest cands tk cur acc best with
  | case1 => simp
  | case2 => exact Nat.le_add_right _ _
  | case3 rest tk cur acc best d c cs hex htaken ih =>
    rw [List.length_cons, Nat.succ_mul]
    generalize cs.length * (1 + levelBound rest) = P at *
    omega
  | case4 tk cur acc best d c cs hex htaken ih =>
    rw [List.length_cons, Nat.succ_mul]
    simp only [levelBound, dite_eq_ite] at *
    generalize cs.length * (1 + 1) = P at *
    omega
  | case5 tk cur acc best d c cs hex htaken s rest' ih1 ih2 =>
    rw [List.length_cons, Nat.succ_mul]
    have hL : levelBound (s :: rest') = 1 + s.length * (1 + levelBound rest') := rfl
    rw [← hL] at ih1
    generalize levelBound (s :: rest') = L at *
    generalize cs.length * (1 + L) = P at *
    omega

theorem nrun_done (cl : List Src) (S : NState) (h : S.j < 0) (f : Nat) : nrun cl f S = (S, f) := by
  cases f with
  | zero => rfl
  | succ f => simp [nrun, h]

/-- the number of iterations `nonrecursive_link`'s loop makes on `cl` -/
def nonrecSteps (cl : List Src) : Nat :=
  match cl with
  | [] => 0
  | s :: rest => goSteps rest s [] 0 [] none

theorem nonrecSteps_le (cl : List Src) : nonrecSteps cl ≤ levelBound cl := by
  cases cl with
  | nil => simp [nonrecSteps]
  | cons s rest => exact goSteps_le rest s [] 0 [] none

theorem nonrecFuel_eq (cl : List Src) (hne : cl ≠ []) (fuel : Nat) (hf : nonrecSteps cl ≤ fuel) :
    nonrecFuel fuel cl = some (solveOrdered cl, nonrecSteps cl) := by
  cases cl with
  | nil => exact absurd rfl hne
  | cons s rest =>
    have sim := nonrec_sim (s :: rest) rest s [] 0 [] none 0 [] [] (At.init s rest)
      (by simp [dests])
    obtain ⟨g, hg⟩ : ∃ g, fuel = nonrecSteps (s :: rest) + g := ⟨fuel - nonrecSteps (s :: rest), by omega⟩
    subst hg
    have h := sim g
    have h0 : nAt [] 0 [] 0 [] none = ninit := rfl
    rw [h0] at h
    have hd : (nPopped [] [] [] (go rest s [] 0 [] none)).j < 0 := by simp [nPopped]
    rw [nrun_done (s :: rest) (nPopped [] [] [] (go rest s [] 0 [] none)) hd g] at h
    simp only [nonrecSteps] at h ⊢
    simp [nonrecFuel, h, nPopped, solveOrdered]

/-! ## `_numba_subnet_norecur` -/

/-- the recursion the numba kernel implements: as `go`, but a complete assignment that was not
pruned replaces the optimum unconditionally and ends its level -/
def goL (rest : List Src) (cands : List Cand) (tk : List Nat) (cur : Nat)
    (acc : List Cand) (best : Best) : Best :=
  match cands with
  | [] => best
  | (d, c) :: cs =>
    if exceeds (cur + c) best then best
    else if taken d tk then goL rest cs tk cur acc best
    else
      match rest with
      | [] => some (cur + c, acc ++ [(d, c)])
      | s :: rest' =>
        goL (s :: rest') cs tk cur acc
          (goL rest' s (addTaken d tk) (cur + c) (acc ++ [(d, c)]) best)
termination_by (rest.length, cands.length)

/-- iterations of the kernel's `while 1` spent on one level -/
def goLSteps (rest : List Src) (cands : List Cand) (tk : List Nat) (cur : Nat)
    (acc : List Cand) (best : Best) : Nat :=
  match cands with
  | [] => 1
  | (d, c) :: cs =>
    if exceeds (cur + c) best then 1
    else if taken d tk then 1 + goLSteps rest cs tk cur acc best
    else
      match rest with
      | [] => 1
      | s :: rest' =>
        1 + goLSteps rest' s (addTaken d tk) (cur + c) (acc ++ [(d, c)]) best
          + goLSteps (s :: rest') cs tk cur acc
              (goL rest' s (addTaken d tk) (cur + c) (acc ++ [(d, c)]) best)
termination_by (rest.length, cands.length)

def solveL (cl : List Src) : Best :=
  match cl with
  | [] => none
  | s :: rest => goL rest s [] 0 [] none

def numbaSteps (cl : List Src) : Nat :=
  match cl with
  | [] => 0
  | s :: rest => goLSteps rest s [] 0 [] none

theorem goL_nil (rest : List Src) (tk : List Nat) (cur : Nat) (acc : List Cand) (best : Best) :
    goL rest [] tk cur acc best = best := by
  rw [goL.eq_def]

theorem goL_pruned (rest : List Src) (d : Option Nat) (c : Nat) (cs : List Cand) (tk : List Nat)
    (cur : Nat) (acc : List Cand) (best : Best) (hex : exceeds (cur + c) best = true) :
    goL rest ((d, c) :: cs) tk cur acc best = best := by
  rw [goL.eq_def]; simp [hex]

theorem goL_taken (rest : List Src) (d : Option Nat) (c : Nat) (cs : List Cand) (tk : List Nat)
    (cur : Nat) (acc : List Cand) (best : Best) (hex : ¬ exceeds (cur + c) best = true)
    (htk : taken d tk = true) :
    goL rest ((d, c) :: cs) tk cur acc best = goL rest cs tk cur acc best := by
  rw [goL.eq_def]; simp [hex, htk]

theorem goL_hit (d : Option Nat) (c : Nat) (cs : List Cand) (tk : List Nat)
    (cur : Nat) (acc : List Cand) (best : Best) (hex : ¬ exceeds (cur + c) best = true)
    (htk : ¬ taken d tk = true) :
    goL [] ((d, c) :: cs) tk cur acc best = some (cur + c, acc ++ [(d, c)]) := by
  rw [goL.eq_def]; simp [hex, htk]

theorem goL_desc (s : Src) (rest' : List Src) (d : Option Nat) (c : Nat) (cs : List Cand)
    (tk : List Nat) (cur : Nat) (acc : List Cand) (best : Best)
    (hex : ¬ exceeds (cur + c) best = true) (htk : ¬ taken d tk = true) :
    goL (s :: rest') ((d, c) :: cs) tk cur acc best = goL (s :: rest') cs tk cur acc
      (goL rest' s (addTaken d tk) (cur + c) (acc ++ [(d, c)]) best) := by
  rw [goL.eq_def]; simp [hex, htk]

theorem goLSteps_le (rest : List Src) (cands : List Cand) (tk : List Nat) (cur : Nat)
    (acc : List Cand) (best : Best) :
    goLSteps rest cands tk cur acc best ≤ 1 + cands.length * (1 + levelBound rest) := by
  fun_induction goLSteps rest cands tk cur acc best with
  | case1 => simp
  | case2 => exact Nat.le_add_right _ _
  | case3 rest tk cur acc best d c cs hex htaken ih =>
    rw [List.length_cons, Nat.succ_mul]
    generalize cs.length * (1 + levelBound rest) = P at *
    omega
  | case4 => exact Nat.le_add_right _ _
  | case5 tk cur acc best d c cs hex htaken s rest' ih1 ih2 =>
    rw [List.length_cons, Nat.succ_mul]
    have hL : levelBound (s :: rest') = 1 + s.length * (1 + levelBound rest') := rfl
    rw [← hL] at ih1
    generalize levelBound (s :: rest') = L at *
    generalize cs.length * (1 + L) = P at *
    omega

theorem numbaSteps_le (cl : List Src) : numbaSteps cl ≤ levelBound cl := by
  cases cl with
  | nil => simp [numbaSteps]
  | cons s rest => exact goLSteps_le rest s [] 0 [] none

/-! ### optimality of `goL` (same three lemmas as for `go`) -/

theorem goL_mono (rest : List Src) (cands : List Cand) (tk : List Nat) (cur : Nat)
    (acc : List Cand) (best : Best) (n : Nat) (h : best.le n) :
    (goL rest cands tk cur acc best).le n := by
  fun_induction goL rest cands tk cur acc best with
  | case1 => exact h
  | case2 => exact h
  | case3 _ _ _ _ _ _ _ _ _ _ ih => exact ih h
  | case4 tk cur acc best d c cs hex htk =>
    simp [exceeds] at hex
    split at hex
    · cases h
    · simp [Best.le] at *; omega
  | case5 tk cur acc best d c cs hex htk s rest' ih1 ih2 =>
    exact ih2 (ih1 h)

theorem goL_lower (rest : List Src) (cands : List Cand) (tk : List Nat) (cur : Nat)
    (acc : List Cand) (best : Best)
    (hs : SortedC cands) (hr : AllSorted rest) :
    ∀ p ∈ completions rest cands tk, (goL rest cands tk cur acc best).le (cur + p.1) := by
  fun_induction goL rest cands tk cur acc best with
  | case1 => intro p hp; simp [completions] at hp
  | case2 rest tk cur acc best d c cs hex =>
    intro p hp
    have hge : c ≤ p.1 := by
      apply completions_cost_ge rest ((d, c) :: cs) tk c _ p hp
      intro x hx
      cases hx with
      | head => exact Nat.le_refl _
      | tail _ hx => exact SortedC.head_le hs x hx
    simp [exceeds] at hex
    split at hex
    · cases hex
    · simp [Best.le] at *; omega
  | case3 rest tk cur acc best d c cs hex htk ih =>
    intro p hp
    rw [completions.eq_def] at hp
    simp only [htk, if_true] at hp
    exact ih hs.tail hr p hp
  | case4 tk cur acc best d c cs hex htk =>
    intro p hp
    have hge : c ≤ p.1 := by
      apply completions_cost_ge [] ((d, c) :: cs) tk c _ p hp
      intro x hx
      cases hx with
      | head => exact Nat.le_refl _
      | tail _ hx => exact SortedC.head_le hs x hx
    simp [Best.le]; omega
  | case5 tk cur acc best d c cs hex htk s rest' ih1 ih2 =>
    intro p hp
    rw [completions.eq_def] at hp
    simp only [htk] at hp
    rcases List.mem_append.mp hp with hp | hp
    · simp only [List.mem_map] at hp
      obtain ⟨q, hq, rfl⟩ := hp
      apply goL_mono
      have := ih1 (hr s (List.mem_cons_self ..)) (fun x hx => hr x (List.mem_cons_of_mem _ hx)) q hq
      simpa [Nat.add_assoc] using this
    · exact ih2 hs.tail hr p hp

theorem goL_achieved (rest : List Src) (cands : List Cand) (tk : List Nat) (cur : Nat)
    (acc : List Cand) (best : Best) :
    goL rest cands tk cur acc best = best ∨
    ∃ p ∈ completions rest cands tk,
      goL rest cands tk cur acc best = some (cur + p.1, acc ++ p.2) := by
  fun_induction goL rest cands tk cur acc best with
  | case1 => exact Or.inl rfl
  | case2 => exact Or.inl rfl
  | case3 rest tk cur acc best d c cs hex htk ih =>
    rcases ih with h | ⟨p, hp, h⟩
    · exact Or.inl h
    · refine Or.inr ⟨p, ?_, h⟩
      rw [completions.eq_def]; simp only [htk, if_true]; exact hp
  | case4 tk cur acc best d c cs hex htk =>
    refine Or.inr ⟨(c, [(d, c)]), ?_, rfl⟩
    rw [completions.eq_def]; simp [htk]
  | case5 tk cur acc best d c cs hex htk s rest' ih1 ih2 =>
    rcases ih2 with h | ⟨p, hp, h⟩
    · rcases ih1 with h1 | ⟨q, hq, h1⟩
      · exact Or.inl (h.trans h1)
      · refine Or.inr ⟨(c + q.1, (d, c) :: q.2), ?_, ?_⟩
        · rw [completions.eq_def]; simp only [htk]
          apply List.mem_append_left
          simp only [List.mem_map]
          exact ⟨q, hq, rfl⟩
        · rw [h, h1]; simp [Nat.add_assoc]
    · refine Or.inr ⟨p, ?_, h⟩
      rw [completions.eq_def]; simp only [htk]
      exact List.mem_append_right _ hp

/-! ### list/array helpers -/

theorem getD_set_self {α} {l : List α} {j : Nat} {v dflt : α} (h : j < l.length) :
    (l.set j v).getD j dflt = v := by simp [List.getD, h]

theorem getD_set_ne {α} {l : List α} {i j : Nat} {v dflt : α} (h : i ≠ j) :
    (l.set i v).getD j dflt = l.getD j dflt := by simp [List.getD, List.getElem?_set_ne h]

theorem take_set_ge {α} {l : List α} {i j : Nat} {v : α} (h : j ≤ i) :
    (l.set i v).take j = l.take j := by
  apply List.ext_getElem?
  intro n
  simp only [List.getElem?_take]
  split
  · rw [List.getElem?_set_ne (by omega)]
  · rfl

theorem take_eq_mono {α} {l l' : List α} {a b : Nat} (h : l.take a = l'.take a) (hb : b ≤ a) :
    l.take b = l'.take b := by
  have := congrArg (List.take b) h
  simpa [List.take_take, Nat.min_eq_left hb] using this

theorem getD_of_take_eq {α} {l l' : List α} {j n : Nat} {dflt : α} (h : l.take n = l'.take n)
    (hj : j < n) : l.getD j dflt = l'.getD j dflt := by
  have := congrArg (fun t => t[j]?) h
  simp only [List.getElem?_take, hj, if_true] at this
  simp [List.getD, this]

theorem take_succ_set {α} {l : List α} {j : Nat} {d : α} (h : j < l.length) :
    (l.set j d).take (j + 1) = l.take j ++ [d] := by
  rw [List.take_add_one, take_set_ge (Nat.le_refl _)]
  simp [h]

theorem set_last {α} {l : List α} {j : Nat} {d : α} (h : l.length = j + 1) :
    l.set j d = l.take j ++ [d] := by
  rw [← take_succ_set (by omega)]
  rw [List.take_of_length_le (by simp; omega)]

theorem usedAbove_eq (ca : List (Option Nat)) (nj j : Nat) (hj : j ≤ nj) (hl : ca.length = nj)
    (d : Option Nat) (tk : List Nat) (acc : List Cand)
    (hasg : ca.take j = acc.map (·.1)) (htk : ∀ x, x ∈ tk ↔ x ∈ dests acc) :
    usedAbove ca nj j d = taken d tk := by
  cases d with
  | none => simp [usedAbove, taken]
  | some x =>
    simp only [usedAbove, taken, Option.isSome_some, Bool.and_true]
    rw [Bool.eq_iff_iff]
    simp only [List.any_eq_true, List.mem_range, Bool.and_eq_true, beq_iff_eq, decide_eq_true_eq,
      List.contains_eq_mem, htk x, dests, List.mem_filterMap]
    have hm : (∃ a ∈ acc, a.1 = some x) ↔ some x ∈ ca.take j := by
      rw [hasg, List.mem_map]
    rw [hm, List.mem_iff_getElem?]
    constructor
    · rintro ⟨jt, h1, h2, h3⟩
      refine ⟨jt, ?_⟩
      rw [List.getElem?_take, if_pos h3]
      have : jt < ca.length := by omega
      simp [List.getD, List.getElem?_eq_getElem this] at h2
      simp [List.getElem?_eq_getElem this, h2]
    · rintro ⟨jt, h⟩
      rw [List.getElem?_take] at h
      split at h
      · rename_i hlt
        refine ⟨jt, by omega, ?_, hlt⟩
        simp [List.getD, h]
      · cases h
/-! ### the kernel, iteration by iteration -/

/-- what `best_sum/best_assignments` hold when the recursion's optimum is `b` (`ba0` = initial
content of `best_assignments`) -/
def projBest (ba0 : List (Option Nat)) (b : Best) : Option Nat × List (Option Nat) :=
  match b with
  | none => (none, ba0)
  | some (c, a) => (some c, a.map (·.1))

theorem exceedsS_proj (ba0 : List (Option Nat)) (b : Best) (tmp : Nat) (bs : Option Nat)
    (ba : List (Option Nat)) (h : (bs, ba) = projBest ba0 b) : exceedsS tmp bs = exceeds tmp b := by
  cases b with
  | none => simp [projBest] at h; simp [h.1, exceedsS, exceeds]
  | some p => obtain ⟨c, a⟩ := p; simp [projBest] at h; simp [h.1, exceedsS, exceeds]

def MReach (cl : List Src) (n : Nat) (S S' : MState) : Prop :=
  ∀ f, mrun cl (n + f) S = mrun cl f S'

theorem MReach.step {cl : List Src} {S : MState} (h : S.halted = false) :
    MReach cl 1 S (mstep cl S) := by
  intro f
  rw [show 1 + f = f + 1 by omega, mrun]
  simp [h]

theorem MReach.trans {cl : List Src} {n m : Nat} {S S' S'' : MState}
    (h1 : MReach cl n S S') (h2 : MReach cl m S' S'') : MReach cl (n + m) S S'' := by
  intro f
  rw [show n + m + f = n + (m + f) by omega, h1, h2]

theorem mstep_exhausted (cl : List Src) (S : MState)
    (h : (cl.getD S.j []).length ≤ S.tmpAsg.getD S.j 0) :
    mstep cl S = goUp { S with loopcount := S.loopcount + 1 } := by
  unfold mstep
  simp only [ge_iff_le, h, if_true]

theorem mstep_pruned (cl : List Src) (S : MState) (d : Option Nat) (c : Nat)
    (h : S.tmpAsg.getD S.j 0 < (cl.getD S.j []).length)
    (hdc : (cl.getD S.j []).getD (S.tmpAsg.getD S.j 0) (none, 0) = (d, c))
    (hex : exceedsS (S.curSums.getD S.j 0 + c) S.bestSum = true) :
    mstep cl S = goUp { S with loopcount := S.loopcount + 1 } := by
  unfold mstep
  have h' : ¬ ((cl.getD S.j []).length ≤ S.tmpAsg.getD S.j 0) := by omega
  simp only [ge_iff_le, h', if_false, hdc, hex, if_true]

theorem mstep_used (cl : List Src) (S : MState) (d : Option Nat) (c : Nat)
    (h : S.tmpAsg.getD S.j 0 < (cl.getD S.j []).length)
    (hdc : (cl.getD S.j []).getD (S.tmpAsg.getD S.j 0) (none, 0) = (d, c))
    (hex : exceedsS (S.curSums.getD S.j 0 + c) S.bestSum = false)
    (hu : usedAbove S.curAsg cl.length S.j d = true) :
    mstep cl S = { S with loopcount := S.loopcount + 1,
                          tmpAsg := S.tmpAsg.set S.j (S.tmpAsg.getD S.j 0 + 1) } := by
  unfold mstep
  have h' : ¬ ((cl.getD S.j []).length ≤ S.tmpAsg.getD S.j 0) := by omega
  simp only [ge_iff_le, h', if_false, hdc, hex, hu, if_true, Bool.false_eq_true]

theorem mstep_hit (cl : List Src) (S : MState) (d : Option Nat) (c : Nat)
    (h : S.tmpAsg.getD S.j 0 < (cl.getD S.j []).length)
    (hdc : (cl.getD S.j []).getD (S.tmpAsg.getD S.j 0) (none, 0) = (d, c))
    (hex : exceedsS (S.curSums.getD S.j 0 + c) S.bestSum = false)
    (hu : usedAbove S.curAsg cl.length S.j d = false) (hlast : S.j + 1 = cl.length) :
    mstep cl S = goUp { S with loopcount := S.loopcount + 1, curAsg := S.curAsg.set S.j d,
                               bestSum := some (S.curSums.getD S.j 0 + c),
                               bestAsg := S.curAsg.set S.j d } := by
  unfold mstep
  have h' : ¬ ((cl.getD S.j []).length ≤ S.tmpAsg.getD S.j 0) := by omega
  simp only [ge_iff_le, h', if_false, hdc, hex, hu, hlast, if_true, Bool.false_eq_true]

theorem mstep_down (cl : List Src) (S : MState) (d : Option Nat) (c : Nat)
    (h : S.tmpAsg.getD S.j 0 < (cl.getD S.j []).length)
    (hdc : (cl.getD S.j []).getD (S.tmpAsg.getD S.j 0) (none, 0) = (d, c))
    (hex : exceedsS (S.curSums.getD S.j 0 + c) S.bestSum = false)
    (hu : usedAbove S.curAsg cl.length S.j d = false) (hlast : ¬ S.j + 1 = cl.length) :
    mstep cl S = { S with loopcount := S.loopcount + 1, j := S.j + 1,
                          curAsg := S.curAsg.set S.j d,
                          curSums := S.curSums.set (S.j + 1) (S.curSums.getD S.j 0 + c),
                          tmpAsg := S.tmpAsg.set (S.j + 1) 0 } := by
  unfold mstep
  have h' : ¬ ((cl.getD S.j []).length ≤ S.tmpAsg.getD S.j 0) := by omega
  simp only [ge_iff_le, h', if_false, hdc, hex, hu, hlast, if_true, Bool.false_eq_true]


/-- entries below level `j` of the three work arrays are untouched, lengths are kept -/
structure Frame (j : Nat) (S S' : MState) : Prop where
  t : S'.tmpAsg.take j = S.tmpAsg.take j
  s : S'.curSums.take j = S.curSums.take j
  a : S'.curAsg.take j = S.curAsg.take j
  lt : S'.tmpAsg.length = S.tmpAsg.length
  ls : S'.curSums.length = S.curSums.length
  la : S'.curAsg.length = S.curAsg.length

theorem Frame.refl (j : Nat) (S : MState) : Frame j S S := ⟨rfl, rfl, rfl, rfl, rfl, rfl⟩

theorem Frame.trans {j : Nat} {S S' S'' : MState} (h1 : Frame j S S') (h2 : Frame j S' S'') :
    Frame j S S'' :=
  ⟨h2.t.trans h1.t, h2.s.trans h1.s, h2.a.trans h1.a, h2.lt.trans h1.lt, h2.ls.trans h1.ls,
    h2.la.trans h1.la⟩

theorem Frame.mono {j j' : Nat} {S S' : MState} (h : Frame j S S') (hj : j' ≤ j) : Frame j' S S' :=
  ⟨take_eq_mono h.t hj, take_eq_mono h.s hj, take_eq_mono h.a hj, h.lt, h.ls, h.la⟩

/-- the kernel is at level `acc.length`, about to examine the columns `cands` of that row -/
structure MAt (cl : List Src) (S : MState) (acc : List Cand) (cur : Nat) (cands : List Cand)
    (rest : List Src) : Prop where
  halted : S.halted = false
  j : S.j = acc.length
  pos : At cl acc.length (S.tmpAsg.getD acc.length 0) cands rest
  cur : S.curSums.getD acc.length 0 = cur
  asg : S.curAsg.take acc.length = acc.map (·.1)
  lt : S.tmpAsg.length = cl.length
  ls : S.curSums.length = cl.length
  la : S.curAsg.length = cl.length

def bumpState (S : MState) : MState :=
  { S with loopcount := S.loopcount + 1, tmpAsg := S.tmpAsg.set S.j (S.tmpAsg.getD S.j 0 + 1) }

def downState (S : MState) (d : Option Nat) (c : Nat) : MState :=
  { S with loopcount := S.loopcount + 1, j := S.j + 1, curAsg := S.curAsg.set S.j d,
           curSums := S.curSums.set (S.j + 1) (S.curSums.getD S.j 0 + c),
           tmpAsg := S.tmpAsg.set (S.j + 1) 0 }

def upState (S : MState) (j : Nat) : MState :=
  { S with j := j, tmpAsg := S.tmpAsg.set j (S.tmpAsg.getD j 0 + 1) }

theorem goUp_succ (S : MState) (j : Nat) (h : S.j = j + 1) : goUp S = upState S j := by
  simp [goUp, upState, h]

/-- **simulation**: `goLSteps` iterations of the kernel perform one level of `goL` and end with
the block GO UP -/
theorem numba_sim (cl : List Src) (ba0 : List (Option Nat)) (rest : List Src) (cands : List Cand)
    (tk : List Nat) (cur : Nat) (acc : List Cand) (best : Best) :
    ∀ S : MState, MAt cl S acc cur cands rest → (S.bestSum, S.bestAsg) = projBest ba0 best →
      (∀ x, x ∈ tk ↔ x ∈ dests acc) →
      ∃ S'' : MState, MReach cl (goLSteps rest cands tk cur acc best) S (goUp S'') ∧
        S''.j = acc.length ∧ S''.halted = false ∧ Frame acc.length S S'' ∧
        (S''.bestSum, S''.bestAsg) = projBest ba0 (goL rest cands tk cur acc best) ∧
        S''.loopcount = S.loopcount + goLSteps rest cands tk cur acc best := by
  fun_induction goLSteps rest cands tk cur acc best with
  | case1 rest tk cur acc best =>
    intro S hm hb htk
    refine ⟨{ S with loopcount := S.loopcount + 1 }, ?_, hm.j, hm.halted, ⟨rfl, rfl, rfl, rfl, rfl, rfl⟩, ?_, rfl⟩
    · have := MReach.step (cl := cl) hm.halted
      rwa [mstep_exhausted cl S (by rw [hm.j]; exact hm.pos.nil)] at this
    · rw [goL_nil]; exact hb
  | case2 rest tk cur acc best d c cs hex =>
    intro S hm hb htk
    obtain ⟨hk, hdc, _⟩ := hm.pos.cons
    refine ⟨{ S with loopcount := S.loopcount + 1 }, ?_, hm.j, hm.halted, ⟨rfl, rfl, rfl, rfl, rfl, rfl⟩, ?_, rfl⟩
    · have := MReach.step (cl := cl) hm.halted
      rwa [mstep_pruned cl S d c (by rw [hm.j]; exact hk) (by rw [hm.j]; exact hdc)
        (by rw [exceedsS_proj ba0 best _ _ _ hb, hm.j, hm.cur]; exact hex)] at this
    · rw [goL_pruned _ _ _ _ _ _ _ _ hex]; exact hb
  | case3 rest tk cur acc best d c cs hex htaken ih =>
    intro S hm hb htk
    obtain ⟨hk, hdc, hat'⟩ := hm.pos.cons
    have hlt := hm.pos.lt
    have hex' : exceedsS (S.curSums.getD S.j 0 + c) S.bestSum = false := by
      rw [exceedsS_proj ba0 best _ _ _ hb, hm.j, hm.cur]; simpa using hex
    have hu : usedAbove S.curAsg cl.length S.j d = true := by
      rw [hm.j, usedAbove_eq S.curAsg cl.length acc.length (by omega) hm.la d tk acc hm.asg htk]
      exact htaken
    have h1 := MReach.step (cl := cl) hm.halted
    rw [mstep_used cl S d c (by rw [hm.j]; exact hk) (by rw [hm.j]; exact hdc) hex' hu] at h1
    change MReach cl 1 S (bumpState S) at h1
    have hm1 : MAt cl (bumpState S) acc cur cs rest := by
      refine ⟨hm.halted, hm.j, ?_, hm.cur, hm.asg, by simp [bumpState, hm.lt], hm.ls, hm.la⟩
      simp only [bumpState, hm.j]
      rw [getD_set_self (by rw [hm.lt]; exact hlt)]
      exact hat'
    obtain ⟨S'', hr, hj, hh, hf, hbb, hlc⟩ := ih (bumpState S) hm1 hb htk
    refine ⟨S'', h1.trans hr, hj, hh, Frame.trans ?_ hf, ?_, ?_⟩
    · refine ⟨?_, rfl, rfl, by simp [bumpState], rfl, rfl⟩
      simp only [bumpState, hm.j]; exact take_set_ge (Nat.le_refl _)
    · rw [goL_taken _ _ _ _ _ _ _ _ hex htaken]; exact hbb
    · rw [hlc]; simp only [bumpState]; omega
  | case4 tk cur acc best d c cs hex htaken =>
    intro S hm hb htk
    obtain ⟨hk, hdc, _⟩ := hm.pos.cons
    have hlt := hm.pos.lt
    have hlast := hm.pos.last
    have hex' : exceedsS (S.curSums.getD S.j 0 + c) S.bestSum = false := by
      rw [exceedsS_proj ba0 best _ _ _ hb, hm.j, hm.cur]; simpa using hex
    have hu : usedAbove S.curAsg cl.length S.j d = false := by
      rw [hm.j, usedAbove_eq S.curAsg cl.length acc.length (by omega) hm.la d tk acc hm.asg htk]
      simpa using htaken
    have h1 := MReach.step (cl := cl) hm.halted
    rw [mstep_hit cl S d c (by rw [hm.j]; exact hk) (by rw [hm.j]; exact hdc) hex' hu
      (by rw [hm.j]; exact hlast)] at h1
    refine ⟨_, h1, hm.j, hm.halted, ?_, ?_, rfl⟩
    · exact ⟨rfl, rfl, by simp only [hm.j]; exact take_set_ge (Nat.le_refl _), rfl, rfl, by simp⟩
    · rw [goL_hit _ _ _ _ _ _ _ hex htaken]
      simp only [projBest, hm.j, hm.cur, List.map_append, List.map_cons, List.map_nil]
      rw [set_last (by rw [hm.la]; exact hlast.symm), hm.asg]
  | case5 tk cur acc best d c cs hex htaken s rest' ih1 ih2 =>
    intro S hm hb htk
    obtain ⟨hk, hdc, hat'⟩ := hm.pos.cons
    have hlt := hm.pos.lt
    obtain ⟨hdesc, hlt1⟩ := hm.pos.desc
    have hex' : exceedsS (S.curSums.getD S.j 0 + c) S.bestSum = false := by
      rw [exceedsS_proj ba0 best _ _ _ hb, hm.j, hm.cur]; simpa using hex
    have hu : usedAbove S.curAsg cl.length S.j d = false := by
      rw [hm.j, usedAbove_eq S.curAsg cl.length acc.length (by omega) hm.la d tk acc hm.asg htk]
      simpa using htaken
    have h1 := MReach.step (cl := cl) hm.halted
    rw [mstep_down cl S d c (by rw [hm.j]; exact hk) (by rw [hm.j]; exact hdc) hex' hu
      (by rw [hm.j]; omega)] at h1
    change MReach cl 1 S (downState S d c) at h1
    generalize hS1 : downState S d c = S1 at h1
    have e1 : S1.tmpAsg = S.tmpAsg.set (acc.length + 1) 0 := by rw [← hS1, downState, hm.j]
    have e2 : S1.curSums = S.curSums.set (acc.length + 1) (cur + c) := by
      rw [← hS1, downState, hm.j, hm.cur]
    have e3 : S1.curAsg = S.curAsg.set acc.length d := by rw [← hS1, downState, hm.j]
    have e4 : S1.j = acc.length + 1 := by rw [← hS1, downState, hm.j]
    have e5 : S1.halted = false := by rw [← hS1]; exact hm.halted
    have e6 : (S1.bestSum, S1.bestAsg) = projBest ba0 best := by rw [← hS1]; exact hb
    have e7 : S1.loopcount = S.loopcount + 1 := by rw [← hS1, downState]
    have hm1 : MAt cl S1 (acc ++ [(d, c)]) (cur + c) s rest' := by
      refine ⟨e5, by simp [e4], ?_, ?_, ?_, by simp [e1, hm.lt], by simp [e2, hm.ls],
        by simp [e3, hm.la]⟩
      · simp only [List.length_append, List.length_cons, List.length_nil, e1]
        rw [getD_set_self (by rw [hm.lt]; exact hlt1)]
        exact hdesc
      · simp only [List.length_append, List.length_cons, List.length_nil, e2]
        exact getD_set_self (by rw [hm.ls]; exact hlt1)
      · simp only [List.length_append, List.length_cons, List.length_nil, e3, List.map_append,
          List.map_cons, List.map_nil]
        rw [take_succ_set (by rw [hm.la]; exact hlt), hm.asg]
    obtain ⟨S2, hr2, hj2, hh2, hf2, hb2, hlc2⟩ := ih1 S1 hm1 e6 (tk_step d c acc tk htk)
    simp only [List.length_append, List.length_cons, List.length_nil] at hj2 hf2
    rw [goUp_succ S2 acc.length hj2] at hr2
    generalize hS3 : upState S2 acc.length = S3 at hr2
    have g1 : S3.tmpAsg = S2.tmpAsg.set acc.length (S2.tmpAsg.getD acc.length 0 + 1) := by
      rw [← hS3, upState]
    have g2 : S3.curSums = S2.curSums := by rw [← hS3, upState]
    have g3 : S3.curAsg = S2.curAsg := by rw [← hS3, upState]
    have g4 : S3.j = acc.length := by rw [← hS3, upState]
    have g5 : S3.halted = false := by rw [← hS3]; exact hh2
    have g6 : (S3.bestSum, S3.bestAsg) =
        projBest ba0 (goL rest' s (addTaken d tk) (cur + c) (acc ++ [(d, c)]) best) := by
      rw [← hS3]; exact hb2
    have g7 : S3.loopcount = S2.loopcount := by rw [← hS3, upState]
    have ht2 : S2.tmpAsg.getD acc.length 0 = S.tmpAsg.getD acc.length 0 := by
      rw [getD_of_take_eq hf2.t (Nat.lt_succ_self _), e1, getD_set_ne (by omega)]
    have hs2 : S2.curSums.getD acc.length 0 = cur := by
      rw [getD_of_take_eq hf2.s (Nat.lt_succ_self _), e2, getD_set_ne (by omega)]
      exact hm.cur
    have ha2 : S2.curAsg.take acc.length = acc.map (·.1) := by
      rw [take_eq_mono hf2.a (Nat.le_succ _), e3, take_set_ge (Nat.le_refl _)]
      exact hm.asg
    have hm3 : MAt cl S3 acc cur cs (s :: rest') := by
      refine ⟨g5, g4, ?_, by rw [g2]; exact hs2, by rw [g3]; exact ha2,
        by simp [g1, hf2.lt, e1, hm.lt], by simp [g2, hf2.ls, e2, hm.ls],
        by simp [g3, hf2.la, e3, hm.la]⟩
      rw [g1, getD_set_self (by rw [hf2.lt, e1]; simp [hm.lt]; exact hlt), ht2]
      exact hat'
    obtain ⟨S4, hr4, hj4, hh4, hf4, hb4, hlc4⟩ := ih2 S3 hm3 g6 htk
    refine ⟨S4, ?_, hj4, hh4, ?_, ?_, ?_⟩
    · have := (h1.trans hr2).trans hr4
      simpa [Nat.add_assoc] using this
    · -- frame
      have f01 : Frame acc.length S S1 := by
        refine ⟨?_, ?_, ?_, by simp [e1], by simp [e2], by simp [e3]⟩
        · rw [e1]; exact take_set_ge (Nat.le_succ _)
        · rw [e2]; exact take_set_ge (Nat.le_succ _)
        · rw [e3]; exact take_set_ge (Nat.le_refl _)
      have f23 : Frame acc.length S2 S3 := by
        refine ⟨?_, by rw [g2], by rw [g3], by simp [g1], by rw [g2], by rw [g3]⟩
        rw [g1]; exact take_set_ge (Nat.le_refl _)
      exact ((f01.trans (hf2.mono (Nat.le_succ _))).trans f23).trans hf4
    · rw [goL_desc _ _ _ _ _ _ _ _ _ hex htaken]; exact hb4
    · rw [hlc4, g7, hlc2, e7]; omega


theorem mrun_halted (cl : List Src) (S : MState) (h : S.halted = true) (f : Nat) :
    mrun cl f S = S := by
  cases f with
  | zero => rfl
  | succ f => simp [mrun, h]

theorem numbaFuel_eq (cl : List Src) (hne : cl ≠ []) (fuel : Nat) (hf : numbaSteps cl ≤ fuel) :
    numbaFuel fuel cl =
      some ((projBest (List.replicate cl.length none) (solveL cl)).1,
            (projBest (List.replicate cl.length none) (solveL cl)).2, numbaSteps cl) := by
  cases cl with
  | nil => exact absurd rfl hne
  | cons s rest =>
    have hm : MAt (s :: rest) (minit (s :: rest).length) [] 0 s rest := by
      refine ⟨rfl, rfl, ?_, ?_, rfl, by simp [minit], by simp [minit], by simp [minit]⟩
      · have : (minit (s :: rest).length).tmpAsg.getD ([] : List Cand).length 0 = 0 := by
          simp [minit]
        rw [this]; exact At.init s rest
      · simp [minit]
    obtain ⟨S, hr, hj, hh, _, hb, hlc⟩ :=
      numba_sim (s :: rest) (List.replicate (s :: rest).length none) rest s [] 0 [] none
        (minit (s :: rest).length) hm rfl (by simp [dests])
    obtain ⟨g, hg⟩ : ∃ g, fuel = numbaSteps (s :: rest) + g :=
      ⟨fuel - numbaSteps (s :: rest), by omega⟩
    subst hg
    have h := hr g
    have hup : goUp S = { S with halted := true } := by simp [goUp, hj]
    rw [hup, mrun_halted (s :: rest) { S with halted := true } rfl g] at h
    simp only [numbaSteps, solveL] at h ⊢
    simp only [numbaFuel, h, if_true]
    have hb1 := congrArg Prod.fst hb
    have hb2 := congrArg Prod.snd hb
    simp only at hb1 hb2
    rw [hb1, hb2, hlc]
    simp [minit]

end TrackpyV.Assign
