import TrackpyV.Model.AssignIter
import TrackpyV.Proofs.Assign
/-!
Simulation proofs for the iterative solvers (`Model/AssignIter.lean`).

* `At cl j k cands rest` : "the loop is at source `j`, column `k`" in terms of `go`'s arguments.
* `goSteps` : the number of iterations `nonrecursive_link` spends on one call of `do_recur`;
  `nonrec_sim` : running the loop from the state that represents "about to explore `cands` for
  source `j` above the stack σ" for exactly `goSteps` iterations ends in the state "popped back to
  σ with best = go …"  (induction along `go`).
* `goL`/`goLSteps` : the recursion the numba kernel implements (a complete assignment that was
  not pruned REPLACES the optimum and ends its level); `numba_sim` the corresponding simulation;
  `goL_mono/_lower/_achieved` its optimality lemmas.
* `goSteps_le`, `goLSteps_le` : both counts are bounded by `levelBound`.
Core Lean only.
-/
namespace TrackpyV.Assign

/-! ## positions -/

def At (cl : List Src) (j k : Nat) (cands : List Cand) (rest : List Src) : Prop :=
  ∃ full, cl[j]? = some full ∧ full.drop k = cands ∧ cl.drop (j + 1) = rest

theorem At.lt {cl j k cands rest} (h : At cl j k cands rest) : j < cl.length := by
  obtain ⟨full, h1, _, _⟩ := h
  exact (List.getElem?_eq_some_iff.mp h1).1

theorem At.nil {cl j k rest} (h : At cl j k [] rest) : (cl.getD j []).length ≤ k := by
  obtain ⟨full, h1, h2, _⟩ := h
  simp only [List.getD, h1, Option.getD_some]
  exact List.drop_eq_nil_iff.mp h2

theorem At.cons {cl j k dc cs rest} (h : At cl j k (dc :: cs) rest) :
    k < (cl.getD j []).length ∧ (cl.getD j []).getD k (none, 0) = dc ∧ At cl j (k + 1) cs rest := by
  obtain ⟨full, h1, h2, h3⟩ := h
  simp only [List.getD, h1, Option.getD_some]
  have hk : k < full.length := by
    apply Classical.byContradiction
    intro hn
    have : full.drop k = [] := List.drop_eq_nil_iff.mpr (by omega)
    rw [this] at h2; cases h2
  rw [List.drop_eq_getElem_cons hk] at h2
  simp only [List.cons.injEq] at h2
  refine ⟨hk, ?_, full, h1, h2.2, h3⟩
  simp [List.getElem?_eq_getElem hk, h2.1]

theorem At.last {cl j k cands} (h : At cl j k cands []) : j + 1 = cl.length := by
  have := h.lt
  obtain ⟨_, _, _, h3⟩ := h
  have := List.drop_eq_nil_iff.mp h3
  omega

theorem At.desc {cl j k cands s rest'} (h : At cl j k cands (s :: rest')) :
    At cl (j + 1) 0 s rest' ∧ j + 1 < cl.length := by
  obtain ⟨_, _, _, h3⟩ := h
  have hlt : j + 1 < cl.length := by
    apply Classical.byContradiction
    intro hn
    have : cl.drop (j + 1) = [] := List.drop_eq_nil_iff.mpr (by omega)
    rw [this] at h3; cases h3
  rw [List.drop_eq_getElem_cons hlt] at h3
  simp only [List.cons.injEq] at h3
  exact ⟨⟨s, by simp [List.getElem?_eq_getElem hlt, h3.1], by simp, h3.2⟩, hlt⟩

theorem At.init (s : Src) (rest : List Src) : At (s :: rest) 0 0 s rest :=
  ⟨s, by simp, by simp, by simp⟩

/-! ## `nonrecursive_link` -/

/-- iterations of the `while` loop of `nonrecursive_link` spent on one `do_recur`-call -/
def goSteps (rest : List Src) (cands : List Cand) (tk : List Nat) (cur : Nat)
    (acc : List Cand) (best : Best) : Nat :=
  match cands with
  | [] => 1
  | (d, c) :: cs =>
    if exceeds (cur + c) best then 1
    else if taken d tk then 1 + goSteps rest cs tk cur acc best
    else
      match rest with
      | [] =>
        2 + goSteps [] cs tk cur acc
          (if better (cur + c) best then some (cur + c, acc ++ [(d, c)]) else best)
      | s :: rest' =>
        1 + goSteps rest' s (addTaken d tk) (cur + c) (acc ++ [(d, c)]) best
          + goSteps (s :: rest') cs tk cur acc
              (go rest' s (addTaken d tk) (cur + c) (acc ++ [(d, c)]) best)
termination_by (rest.length, cands.length)

def NReach (cl : List Src) (n : Nat) (S S' : NState) : Prop :=
  ∀ f, nrun cl (n + f) S = nrun cl f S'

theorem NReach.step {cl : List Src} {S : NState} (h : 0 ≤ S.j) : NReach cl 1 S (nstep cl S) := by
  intro f
  rw [show 1 + f = f + 1 by omega, nrun]
  have : ¬ S.j < 0 := by omega
  simp [this]

theorem NReach.trans {cl : List Src} {n m : Nat} {S S' S'' : NState}
    (h1 : NReach cl n S S') (h2 : NReach cl m S' S'') : NReach cl (n + m) S S'' := by
  intro f
  rw [show n + m + f = n + (m + f) by omega, h1, h2]

theorem inBack_eq_taken (d : Option Nat) (acc : List Cand) (tk : List Nat)
    (h : ∀ x, x ∈ tk ↔ x ∈ dests acc) : inBack d acc = taken d tk := by
  cases d with
  | none => rfl
  | some x =>
    simp only [inBack, taken]
    rw [Bool.eq_iff_iff]
    simp only [List.any_eq_true, beq_iff_eq, List.contains_eq_mem, decide_eq_true_eq, h x, dests,
      List.mem_filterMap]

theorem tk_step (d : Option Nat) (c : Nat) (acc : List Cand) (tk : List Nat)
    (h : ∀ x, x ∈ tk ↔ x ∈ dests acc) :
    ∀ x, x ∈ addTaken d tk ↔ x ∈ dests (acc ++ [(d, c)]) := by
  intro x
  cases d with
  | none => simp [addTaken, dests, h x]
  | some y =>
    simp [addTaken, dests, h x, or_comm]

/-- the state "about to run column `k` of source `acc.length` above the stack `ks/sums`" -/
def nAt (acc : List Cand) (k : Nat) (ks : List Nat) (cur : Nat) (sums : List Nat) (best : Best) :
    NState :=
  { j := (acc.length : Int), ks := k :: ks, sums := cur :: sums, back := acc, best := best }

/-- the state after that level has been popped -/
def nPopped (acc : List Cand) (ks : List Nat) (sums : List Nat) (best : Best) : NState :=
  { j := (acc.length : Int) - 1, ks := ks, sums := sums,
    back := if (acc.length : Int) - 1 ≥ 0 then acc.dropLast else acc, best := best }

theorem nstep_exhausted (cl : List Src) (acc : List Cand) (k : Nat) (ks : List Nat) (cur : Nat)
    (sums : List Nat) (best : Best) (hlt : acc.length < cl.length)
    (hk : (cl.getD acc.length []).length ≤ k) :
    nstep cl (nAt acc k ks cur sums best) = nPopped acc ks sums best := by
  have h1 : ¬ ((cl.length : Int) ≤ (acc.length : Int)) := by omega
  have hk' : (cl[acc.length]?.getD []).length ≤ k := by simpa using hk
  simp [nstep, nAt, nPopped, npop, h1, hk']

theorem nstep_pruned (cl : List Src) (acc : List Cand) (k : Nat) (ks : List Nat) (cur : Nat)
    (sums : List Nat) (best : Best) (hlt : acc.length < cl.length) (d : Option Nat) (c : Nat)
    (hk : k < (cl.getD acc.length []).length)
    (hdc : (cl.getD acc.length []).getD k (none, 0) = (d, c))
    (hex : exceeds (cur + c) best = true) :
    nstep cl (nAt acc k ks cur sums best) = nPopped acc ks sums best := by
  have h1 : ¬ ((cl.length : Int) ≤ (acc.length : Int)) := by omega
  have hk' : k < (cl[acc.length]?.getD []).length := by simpa using hk
  have h2 : ¬ ((cl[acc.length]?.getD []).length ≤ k) := by omega
  have hdc' : (cl[acc.length]?.getD [])[k]?.getD (none, 0) = (d, c) := by simpa using hdc
  simp [nstep, nAt, nPopped, npop, h1, h2, hdc', hex]

theorem nstep_taken (cl : List Src) (acc : List Cand) (k : Nat) (ks : List Nat) (cur : Nat)
    (sums : List Nat) (best : Best) (hlt : acc.length < cl.length) (d : Option Nat) (c : Nat)
    (hk : k < (cl.getD acc.length []).length)
    (hdc : (cl.getD acc.length []).getD k (none, 0) = (d, c))
    (hex : exceeds (cur + c) best = false) (htk : inBack d acc = true) :
    nstep cl (nAt acc k ks cur sums best) = nAt acc (k + 1) ks cur sums best := by
  have h1 : ¬ ((cl.length : Int) ≤ (acc.length : Int)) := by omega
  have hk' : k < (cl[acc.length]?.getD []).length := by simpa using hk
  have h2 : ¬ ((cl[acc.length]?.getD []).length ≤ k) := by omega
  have hdc' : (cl[acc.length]?.getD [])[k]?.getD (none, 0) = (d, c) := by simpa using hdc
  simp [nstep, nAt, h1, h2, hdc', hex, htk]

theorem nstep_push (cl : List Src) (acc : List Cand) (k : Nat) (ks : List Nat) (cur : Nat)
    (sums : List Nat) (best : Best) (hlt : acc.length < cl.length) (d : Option Nat) (c : Nat)
    (hk : k < (cl.getD acc.length []).length)
    (hdc : (cl.getD acc.length []).getD k (none, 0) = (d, c))
    (hex : exceeds (cur + c) best = false) (htk : inBack d acc = false) :
    nstep cl (nAt acc k ks cur sums best) =
      nAt (acc ++ [(d, c)]) 0 ((k + 1) :: ks) (cur + c) (cur :: sums) best := by
  have h1 : ¬ ((cl.length : Int) ≤ (acc.length : Int)) := by omega
  have hk' : k < (cl[acc.length]?.getD []).length := by simpa using hk
  have h2 : ¬ ((cl[acc.length]?.getD []).length ≤ k) := by omega
  have hdc' : (cl[acc.length]?.getD [])[k]?.getD (none, 0) = (d, c) := by simpa using hdc
  simp [nstep, nAt, h1, h2, hdc', hex, htk]

theorem nstep_base (cl : List Src) (acc : List Cand) (e : Cand) (k : Nat) (ks : List Nat)
    (cur : Nat) (sums : List Nat) (best : Best) (hlen : acc.length + 1 = cl.length) (k0 : Nat)
    (tmp : Nat) :
    nstep cl (nAt (acc ++ [e]) k0 (k :: ks) tmp (cur :: sums) best) =
      nAt acc k ks cur sums (if better tmp best then some (tmp, acc ++ [e]) else best) := by
  have h1 : ((cl.length : Int) ≤ ((acc ++ [e]).length : Int)) := by simp; omega
  simp only [nstep, nAt, h1, if_true]
  simp

theorem nPopped_push (acc : List Cand) (e : Cand) (k : Nat) (ks : List Nat) (cur : Nat)
    (sums : List Nat) (best : Best) :
    nPopped (acc ++ [e]) (k :: ks) (cur :: sums) best = nAt acc k ks cur sums best := by
  simp [nPopped, nAt]

theorem nAt_j_nonneg (acc k ks cur sums best) : 0 ≤ (nAt acc k ks cur sums best).j := by
  simp [nAt]

theorem go_taken (rest : List Src) (d : Option Nat) (c : Nat) (cs : List Cand) (tk : List Nat)
    (cur : Nat) (acc : List Cand) (best : Best) (hex : ¬ exceeds (cur + c) best = true)
    (htk : taken d tk = true) :
    go rest ((d, c) :: cs) tk cur acc best = go rest cs tk cur acc best := by
  rw [go.eq_def]; simp [hex, htk]

theorem go_last (d : Option Nat) (c : Nat) (cs : List Cand) (tk : List Nat)
    (cur : Nat) (acc : List Cand) (best : Best) (hex : ¬ exceeds (cur + c) best = true)
    (htk : ¬ taken d tk = true) :
    go [] ((d, c) :: cs) tk cur acc best = go [] cs tk cur acc
      (if better (cur + c) best then some (cur + c, acc ++ [(d, c)]) else best) := by
  rw [go.eq_def]; simp [hex, htk]

theorem go_desc (s : Src) (rest' : List Src) (d : Option Nat) (c : Nat) (cs : List Cand)
    (tk : List Nat) (cur : Nat) (acc : List Cand) (best : Best)
    (hex : ¬ exceeds (cur + c) best = true) (htk : ¬ taken d tk = true) :
    go (s :: rest') ((d, c) :: cs) tk cur acc best = go (s :: rest') cs tk cur acc
      (go rest' s (addTaken d tk) (cur + c) (acc ++ [(d, c)]) best) := by
  rw [go.eq_def]; simp [hex, htk]

/-- **simulation**: `goSteps` iterations of the loop perform one `do_recur` call -/
theorem nonrec_sim (cl : List Src) (rest : List Src) (cands : List Cand) (tk : List Nat)
    (cur : Nat) (acc : List Cand) (best : Best) :
    ∀ (k : Nat) (ks sums : List Nat), At cl acc.length k cands rest →
      (∀ x, x ∈ tk ↔ x ∈ dests acc) →
      NReach cl (goSteps rest cands tk cur acc best) (nAt acc k ks cur sums best)
        (nPopped acc ks sums (go rest cands tk cur acc best)) := by
  fun_induction goSteps rest cands tk cur acc best with
  | case1 rest tk cur acc best =>
    intro k ks sums hat htk
    rw [go.eq_def]
    have := NReach.step (cl := cl) (nAt_j_nonneg acc k ks cur sums best)
    rwa [nstep_exhausted cl acc k ks cur sums best hat.lt hat.nil] at this
  | case2 rest tk cur acc best d c cs hex =>
    intro k ks sums hat htk
    rw [go.eq_def]; simp only [hex, if_true]
    obtain ⟨hk, hdc, _⟩ := hat.cons
    have := NReach.step (cl := cl) (nAt_j_nonneg acc k ks cur sums best)
    rwa [nstep_pruned cl acc k ks cur sums best hat.lt d c hk hdc hex] at this
  | case3 rest tk cur acc best d c cs hex htaken ih =>
    intro k ks sums hat htk
    rw [go_taken rest d c cs tk cur acc best hex htaken]
    obtain ⟨hk, hdc, hat'⟩ := hat.cons
    have h1 := NReach.step (cl := cl) (nAt_j_nonneg acc k ks cur sums best)
    rw [nstep_taken cl acc k ks cur sums best hat.lt d c hk hdc (by simpa using hex)
      (by rw [inBack_eq_taken d acc tk htk]; exact htaken)] at h1
    exact h1.trans (ih (k + 1) ks sums hat' htk)
  | case4 tk cur acc best d c cs hex htaken ih =>
    intro k ks sums hat htk
    rw [go_last d c cs tk cur acc best hex htaken]
    obtain ⟨hk, hdc, hat'⟩ := hat.cons
    have h1 := NReach.step (cl := cl) (nAt_j_nonneg acc k ks cur sums best)
    rw [nstep_push cl acc k ks cur sums best hat.lt d c hk hdc (by simpa using hex)
      (by rw [inBack_eq_taken d acc tk htk]; simpa using htaken)] at h1
    have h2 := NReach.step (cl := cl)
      (nAt_j_nonneg (acc ++ [(d, c)]) 0 ((k + 1) :: ks) (cur + c) (cur :: sums) best)
    rw [nstep_base cl acc (d, c) (k + 1) ks cur sums best hat.last 0 (cur + c)] at h2
    have h3 := (h1.trans h2).trans (ih (k + 1) ks sums hat' htk)
    simpa using h3
  | case5 tk cur acc best d c cs hex htaken s rest' ih1 ih2 =>
    intro k ks sums hat htk
    rw [go_desc s rest' d c cs tk cur acc best hex htaken]
    obtain ⟨hk, hdc, hat'⟩ := hat.cons
    have h1 := NReach.step (cl := cl) (nAt_j_nonneg acc k ks cur sums best)
    rw [nstep_push cl acc k ks cur sums best hat.lt d c hk hdc (by simpa using hex)
      (by rw [inBack_eq_taken d acc tk htk]; simpa using htaken)] at h1
    have hd := hat.desc.1
    have h2 := ih1 0 ((k + 1) :: ks) (cur :: sums)
      (by simpa using hd) (tk_step d c acc tk htk)
    rw [nPopped_push] at h2
    have h3 := (h1.trans h2).trans (ih2 (k + 1) ks sums hat' htk)
    simpa [Nat.add_assoc] using h3

/-- the a-priori iteration bound -/
theorem goSteps_le (rest : List Src) (cands : List Cand) (tk : List Nat) (cur : Nat)
    (acc : List Cand) (best : Best) :
    goSteps rest cands tk cur acc best ≤ 1 + cands.length * (1 + levelBound rest) := by
  fun_induction goSteps rest cands tk cur acc best with
  | case1 => simp
  | case2 => exact Nat.le_add_right _ _
  | case3 rest tk cur acc best d c cs hex htaken ih =>
    rw [List.length_cons, Nat.succ_mul]
    generalize cs.length * (1 + levelBound rest) = P at *
    omega
  | case4 tk cur acc best d c cs hex htaken ih =>
    rw [List.length_cons, Nat.succ_mul]
    simp only [levelBound, dite_eq_ite] at *
    generalize cs.length * (1 + 1) = P at *
    omega
  | case5 tk cur acc best d c cs hex htaken s rest' ih1 ih2 =>
    rw [List.length_cons, Nat.succ_mul]
    have hL : levelBound (s :: rest') = 1 + s.length * (1 + levelBound rest') := rfl
    rw [← hL] at ih1
    generalize levelBound (s :: rest') = L at *
    generalize cs.length * (1 + L) = P at *
    omega

theorem nrun_done (cl : List Src) (S : NState) (h : S.j < 0) (f : Nat) : nrun cl f S = (S, f) := by
  cases f with
  | zero => rfl
  | succ f => simp [nrun, h]

/-- the number of iterations `nonrecursive_link`'s loop makes on `cl` -/
def nonrecSteps (cl : List Src) : Nat :=
  match cl with
  | [] => 0
  | s :: rest => goSteps rest s [] 0 [] none

theorem nonrecSteps_le (cl : List Src) : nonrecSteps cl ≤ levelBound cl := by
  cases cl with
  | nil => simp [nonrecSteps]
  | cons s rest => exact goSteps_le rest s [] 0 [] none

theorem nonrecFuel_eq (cl : List Src) (hne : cl ≠ []) (fuel : Nat) (hf : nonrecSteps cl ≤ fuel) :
    nonrecFuel fuel cl = some (solveOrdered cl, nonrecSteps cl) := by
  cases cl with
  | nil => exact absurd rfl hne
  | cons s rest =>
    have sim := nonrec_sim (s :: rest) rest s [] 0 [] none 0 [] [] (At.init s rest)
      (by simp [dests])
    obtain ⟨g, hg⟩ : ∃ g, fuel = nonrecSteps (s :: rest) + g := ⟨fuel - nonrecSteps (s :: rest), by omega⟩
    subst hg
    have h := sim g
    have h0 : nAt [] 0 [] 0 [] none = ninit := rfl
    rw [h0] at h
    have hd : (nPopped [] [] [] (go rest s [] 0 [] none)).j < 0 := by simp [nPopped]
    rw [nrun_done (s :: rest) (nPopped [] [] [] (go rest s [] 0 [] none)) hd g] at h
    simp only [nonrecSteps] at h ⊢
    simp [nonrecFuel, h, nPopped, solveOrdered]

end TrackpyV.Assign
