import TrackpyV.Props.C12Algo
/-!
Towards `Props/C12Plain`: at STEP level, the adaptive monitor `stepCheckA` and the plain monitor
`stepCheck` (with `maxSize :=` the adaptive limit) accept the same labels when no sub-net of the
step is oversize.

Part 1: list helpers (`Picks` over mapped lists, reversal of an admissible assignment).
Part 2: the per-source bridge (`candsOfRow = realOfRow ++ [null]`, `chosenA` at `k = 0` versus
`chosenOf`).  Part 3: the per-group bridge `finalOkB ⟨netOfG g, 0⟩ = groupOkB g` (the adaptive
monitor lists a group's sources in reverse order: the optimum does not depend on the order,
`Assign.solve_order_indep`).  Part 4: both monitors in closed form under the hypotheses.
-/
namespace TrackpyV.Adaptive
open TrackpyV.Assign TrackpyV.Linker

/-! ### Part 1: list helpers -/

theorem picks_map_iff {α} (l : List α) (S : α → Src) (c : α → Cand) :
    Picks (l.map S) (l.map c) ↔ ∀ i ∈ l, c i ∈ S i := by
  induction l with
  | nil => simp
  | cons x xs ih => simp [ih]

theorem picks_reverse (ss : List Src) (a : List Cand) (h : Picks ss a) :
    Picks ss.reverse a.reverse := by
  induction ss generalizing a with
  | nil =>
    cases a with
    | nil => simp
    | cons c cs => simp at h
  | cons s ss ih =>
    cases a with
    | nil => simp at h
    | cons c cs =>
      simp only [picks_cons_cons] at h
      simp only [List.reverse_cons]
      exact (picks_append _ _ _).mpr ⟨cs.reverse, [c], rfl, ih cs h.2, by simp [h.1]⟩

theorem admissible_reverse (ss : List Src) (a : List Cand) (h : Admissible ss a) :
    Admissible ss.reverse a.reverse := by
  obtain ⟨h1, h2, _⟩ := h
  refine ⟨picks_reverse ss a h1, ?_, by simp⟩
  simp only [dests, List.filterMap_reverse]
  exact ((List.reverse_perm _).nodup_iff).mpr h2

theorem cost_reverse (a : List Cand) : cost a.reverse = cost a := by
  simp only [cost, List.map_reverse]
  exact ((List.reverse_perm _).sum_nat)

/-- the Prop behind both monitors' per-group test: sorted candidate lists, an admissible
assignment, and the cost of the solver's optimum -/
def OkP (ss : List Src) (asg : List Cand) : Prop :=
  AllSorted ss ∧ Admissible ss asg ∧ ∃ c b, solveOrdered ss = some (c, b) ∧ cost asg = c

theorem okP_reverse (ss : List Src) (asg : List Cand) (hne : ss ≠ []) (h : OkP ss asg) :
    OkP ss.reverse asg.reverse := by
  obtain ⟨hs, hadm, c, b, hsol, hc⟩ := h
  have hs' : AllSorted ss.reverse := fun s hm => hs s (List.mem_reverse.mp hm)
  have hne' : ss.reverse ≠ [] := by simpa using hne
  have hadm' := admissible_reverse ss asg hadm
  obtain ⟨c', b', hsol', _⟩ := solveOrdered_optimal ss.reverse hne' hs' _ hadm'
  refine ⟨hs', hadm', c', b', hsol', ?_⟩
  rw [cost_reverse, hc]
  exact solve_order_indep ss ss.reverse (List.reverse_perm ss).symm hne hs c c' b b' hsol hsol'

theorem okP_reverse_iff (ss : List Src) (asg : List Cand) (hne : ss ≠ []) :
    OkP ss.reverse asg.reverse ↔ OkP ss asg := by
  constructor
  · intro h
    have := okP_reverse ss.reverse asg.reverse (by simpa using hne) h
    simpa using this
  · exact okP_reverse ss asg hne

/-- the Boolean test shared (up to the names of the compiled `match`es) by `groupOkB` without
'drop' and `finalOkB` -/
theorem okB_iff (ss : List Src) (asg : List Cand) :
    (ss.all sortedB && admissibleB ss asg [] &&
      (match solveOrdered ss with
       | some (c, _) => cost asg == c
       | none => false)) = true ↔ OkP ss asg := by
  simp only [Bool.and_eq_true, List.all_eq_true, OkP]
  constructor
  · rintro ⟨⟨h1, h2⟩, h3⟩
    refine ⟨fun s hs => (sortedB_iff s).mp (h1 s hs), (admissibleB_iff ss asg []).mp h2, ?_⟩
    split at h3
    · rename_i c b hsol
      exact ⟨c, b, hsol, by simpa using h3⟩
    · cases h3
  · rintro ⟨h1, h2, c, b, hsol, hc⟩
    refine ⟨⟨fun s hs => (sortedB_iff s).mpr (h1 s hs), (admissibleB_iff ss asg []).mpr h2⟩, ?_⟩
    rw [hsol]
    simpa using hc

theorem groupOkB_iff (cfg : Cfg) (hdrop : cfg.drop = false) (ss : List Src) (asg : List Cand)
    (g : Group) (hne : ss ≠ []) : groupOkB cfg ss asg g = true ↔ OkP ss asg := by
  have hise : ss.isEmpty = false := by
    cases ss with
    | nil => exact absurd rfl hne
    | cons _ _ => rfl
  unfold groupOkB
  simp only [hise, hdrop, Bool.false_and, Bool.false_eq_true, if_false]
  exact okB_iff ss asg

theorem finalOkB_iff (a : ACfg) (cfg : Cfg) (st : State) (labels : List Nat) (f : Final)
    (hne : f.net.srcs ≠ []) :
    finalOkB a cfg st labels f = true ↔ OkP (finalSrcs a cfg.B f) (finalAsg a cfg st labels f) := by
  have hise : (finalSrcs a cfg.B f).isEmpty = false := by
    cases hh : f.net.srcs with
    | nil => exact absurd hh hne
    | cons _ _ => simp [finalSrcs, hh]
  unfold finalOkB
  simp only [hise, Bool.false_eq_true, if_false]
  exact okB_iff _ _

/-! ### Part 2: the per-source bridge -/

/-- the plain monitor's candidate list is the adaptive monitor's list of real candidates with the
null candidate (cost `B`) appended -/
theorem candsOfRow_eq (B : Nat) (row : List Nat) :
    candsOfRow B row = realOfRow B row ++ [(none, B)] := rfl

theorem getD'_rows (cfg : Cfg) (st : State) (t : Int) (dsts : List Pos) (i : Nat)
    (hi : i < st.srcs.length) :
    getD' (st.srcs.map (distRow cfg t dsts)) i [] = distRow cfg t dsts st.srcs[i] := by
  simp [getD', hi]

/-- the real candidates of source number `i`, as `stepNets` lists them -/
def realOf (cfg : Cfg) (st : State) (t : Int) (dsts : List Pos) (i : Nat) : List Cand :=
  realOfRow cfg.B (getD' (st.srcs.map (distRow cfg t dsts)) i [])

theorem srcOf_eq_realOf (cfg : Cfg) (st : State) (t : Int) (dsts : List Pos) (i : Nat)
    (hi : i < st.srcs.length) :
    srcOf (stepCands cfg st t dsts) i = realOf cfg st t dsts i ++ [(none, cfg.B)] := by
  rw [srcOf_stepCands cfg st t dsts i hi, realOf, getD'_rows cfg st t dsts i hi, candsOf,
    candsOfRow_eq]

/-- reading the labels back: at `k = 0` the adaptive monitor's `chosenA` and the plain monitor's
`asgOf` return the same candidate, except for a link to a destination that is not a candidate at
all, where they return different pairs which are both outside the source's candidate list -/
theorem chosen_cases (a : ACfg) (cfg : Cfg) (st : State) (t : Int) (dsts : List Pos)
    (labels : List Nat) (i : Nat) (hi : i < st.srcs.length) :
    asgOf cfg st labels (stepCands cfg st t dsts) i =
        chosenA a cfg st labels 0 i (realOf cfg st t dsts i) ∨
    (asgOf cfg st labels (stepCands cfg st t dsts) i ∉ srcOf (stepCands cfg st t dsts) i ∧
      chosenA a cfg st labels 0 i (realOf cfg st t dsts i) ∉ srcOf (stepCands cfg st t dsts) i) := by
  have hs : st.srcs[i]? = some st.srcs[i] := List.getElem?_eq_getElem hi
  have hsrc := srcOf_eq_realOf cfg st t dsts i hi
  have hgd : getD' (stepCands cfg st t dsts) i [] = realOf cfg st t dsts i ++ [(none, cfg.B)] := hsrc
  unfold asgOf chosenA chosenOf
  simp only [hs, hgd, Nat.mul_zero, Nat.pow_zero, Nat.mul_one]
  cases hidx : labels.idxOf? st.srcs[i].track with
  | none => exact Or.inl rfl
  | some j =>
    simp only
    have hfind : (realOf cfg st t dsts i ++ [((none : Option Nat), cfg.B)]).find?
          (fun c => c.1 == some j) =
        (realOf cfg st t dsts i).find? (fun c => c.1 == some j) := by
      rw [List.find?_append]
      cases (realOf cfg st t dsts i).find? (fun c => c.1 == some j) with
      | none => simp
      | some c => simp
    rw [hfind]
    cases hf : (realOf cfg st t dsts i).find? (fun c => c.1 == some j) with
    | some c => exact Or.inl rfl
    | none =>
      right
      have hnone := List.find?_eq_none.mp hf
      have hnot : ∀ x : Nat, ((some j, x) : Cand) ∉ srcOf (stepCands cfg st t dsts) i := by
        intro x hx
        rw [hsrc, List.mem_append, List.mem_singleton] at hx
        rcases hx with hx | hx
        · exact hnone _ hx (by simp)
        · cases hx
      exact ⟨hnot _, hnot _⟩

/-! ### Part 3: the per-group bridge -/

/-- the final group "solve sub-net `g` as it is" -/
def final0 (cfg : Cfg) (st : State) (t : Int) (dsts : List Pos) (g : Group) : Final :=
  { net := netOfG cfg st t dsts g, k := 0 }

theorem finalSrcs_final0 (a : ACfg) (cfg : Cfg) (st : State) (t : Int) (dsts : List Pos)
    (g : Group) (hg : g ∈ stepGroups cfg st t dsts) :
    finalSrcs a cfg.B (final0 cfg st t dsts g) =
      (g.1.map (srcOf (stepCands cfg st t dsts))).reverse := by
  rw [final0, finalSrcs_k0]
  simp only [netOfG, List.map_map, List.map_reverse]
  congr 1
  apply List.map_congr_left
  intro i hi
  simp only [Function.comp_def]
  exact (srcOf_eq_realOf cfg st t dsts i (group_src_lt cfg st t dsts g hg i hi)).symm

theorem finalAsg_final0 (a : ACfg) (cfg : Cfg) (st : State) (t : Int) (dsts : List Pos)
    (labels : List Nat) (g : Group) :
    finalAsg a cfg st labels (final0 cfg st t dsts g) =
      (g.1.map (fun i => chosenA a cfg st labels 0 i (realOf cfg st t dsts i))).reverse := by
  simp only [final0, finalAsg, netOfG, List.map_map, List.map_reverse, Function.comp_def, realOf]

/-- **group level**: without 'drop', the adaptive monitor's test of the unreduced group is the
plain monitor's test of the sub-net -/
theorem finalOk_final0 (a : ACfg) (cfg : Cfg) (hdrop : cfg.drop = false) (st : State) (t : Int)
    (dsts : List Pos) (labels : List Nat) (g : Group) (hg : g ∈ stepGroups cfg st t dsts) :
    finalOkB a cfg st labels (final0 cfg st t dsts g) =
      groupOkB cfg (g.1.map (srcOf (stepCands cfg st t dsts)))
        (g.1.map (asgOf cfg st labels (stepCands cfg st t dsts))) g := by
  by_cases hemp : g.1 = []
  · simp [finalOkB, groupOkB, final0, netOfG, finalSrcs, hemp]
  · have hne : (g.1.map (srcOf (stepCands cfg st t dsts))) ≠ [] := by simpa using hemp
    have hnf : (final0 cfg st t dsts g).net.srcs ≠ [] := by simpa [final0, netOfG] using hemp
    rw [Bool.eq_iff_iff, finalOkB_iff a cfg st labels _ hnf, groupOkB_iff cfg hdrop _ _ g hne,
      finalSrcs_final0 a cfg st t dsts g hg, finalAsg_final0, okP_reverse_iff _ _ hne]
    by_cases hall : ∀ i ∈ g.1, asgOf cfg st labels (stepCands cfg st t dsts) i =
        chosenA a cfg st labels 0 i (realOf cfg st t dsts i)
    · rw [List.map_congr_left hall]
    · -- some source is linked to a destination that is not among its candidates: both fail
      have hex : ∃ i ∈ g.1, asgOf cfg st labels (stepCands cfg st t dsts) i ≠
          chosenA a cfg st labels 0 i (realOf cfg st t dsts i) := by
        apply Classical.byContradiction
        intro hno
        apply hall
        intro i hi
        apply Classical.byContradiction
        intro hne'
        exact hno ⟨i, hi, hne'⟩
      obtain ⟨i, hi, hne'⟩ := hex
      have hlt := group_src_lt cfg st t dsts g hg i hi
      rcases chosen_cases a cfg st t dsts labels i hlt with h | ⟨h1, h2⟩
      · exact absurd h hne'
      · constructor
        · intro h
          exact absurd ((picks_map_iff _ _ _).mp h.2.1.1 i hi) h2
        · intro h
          exact absurd ((picks_map_iff _ _ _).mp h.2.1.1 i hi) h1

/-! ### Part 4: the two monitors in closed form -/

theorem zip3_all {α β γ} (l : List α) (f : α → β) (h : α → γ) (P : β → γ → α → Bool) :
    ((l.map f).zip ((l.map h).zip l)).all (fun x => P x.1 x.2.1 x.2.2) =
      l.all (fun g => P (f g) (h g) g) := by
  induction l with
  | nil => rfl
  | cons x xs ih => simp [ih]

/-- the plain monitor's optimality test, group by group (the disjointness test always passes:
`step_groups_disjoint`) -/
theorem optWhy_none_iff (cfg : Cfg) (st : State) (t : Int) (dsts : List Pos) (labels : List Nat) :
    optWhy cfg st t dsts labels = none ↔
      ∀ g ∈ stepGroups cfg st t dsts,
        groupOkB cfg (g.1.map (srcOf (stepCands cfg st t dsts)))
          (g.1.map (asgOf cfg st labels (stepCands cfg st t dsts))) g = true := by
  unfold optWhy
  simp only [step_groups_disjoint, Bool.not_true, Bool.false_eq_true, if_false]
  have hz := zip3_all (stepGroups cfg st t dsts) (fun g => g.1.map (srcOf (stepCands cfg st t dsts)))
    (fun g => g.1.map (asgOf cfg st labels (stepCands cfg st t dsts))) (fun ss a g => groupOkB cfg ss a g)
  simp only [gSrcs, gAsg, hz]
  constructor
  · intro h
    split at h
    · cases h
    · rename_i hall
      simpa [List.all_eq_true] using hall
  · intro h
    have : (stepGroups cfg st t dsts).all (fun g =>
        groupOkB cfg (g.1.map (srcOf (stepCands cfg st t dsts)))
          (g.1.map (asgOf cfg st labels (stepCands cfg st t dsts))) g) = true :=
      List.all_eq_true.mpr h
    simp [this]

/-- the plain monitor accepts (optimality judged) exactly the valid labellings whose every
sub-net passes the per-group test — provided no sub-net is oversize and the step is within the
neighbour cap -/
theorem stepCheck_accepts_iff (cfg : Cfg) (hno : cfg.noOpt = false) (st : State) (t : Int)
    (dsts : List Pos) (hcap : cappedB cfg st t dsts = false)
    (hov : oversizeB cfg (stepGroups cfg st t dsts) = false) (labels : List Nat) (st' : State) :
    (∃ c r b, stepCheck cfg st t dsts (some labels) = .ok st' c r b false) ↔
      (st' = nextState cfg st t dsts labels ∧ validWhy cfg st t dsts labels = none ∧
        optWhy cfg st t dsts labels = none) := by
  constructor
  · rintro ⟨c, r, b, h⟩
    obtain ⟨hv, hst, ho⟩ := stepCheck_ok h
    exact ⟨hst, hv, (ho rfl).1⟩
  · rintro ⟨rfl, hv, ho⟩
    unfold stepCheck
    simp only [hov, hcap, hno, hv, ho, Bool.false_and, Bool.or_false, Bool.false_eq_true, if_false]
    exact ⟨_, _, _, rfl⟩

/-- within the neighbour cap and with the optimality part on, an accepting verdict of the plain
monitor always carries `capped = false` (optimality was judged) -/
theorem stepCheck_cap_false {cfg : Cfg} (hno : cfg.noOpt = false) {st : State} {t : Int}
    {dsts : List Pos} (hcap : cappedB cfg st t dsts = false) {labels : List Nat} {st' : State}
    {c r b : Nat} {cap : Bool}
    (h : stepCheck cfg st t dsts (some labels) = .ok st' c r b cap) : cap = false := by
  unfold stepCheck at h
  simp only [hcap, hno, Bool.or_false, Bool.false_eq_true, if_false] at h
  split at h
  · cases h
  · split at h
    · cases h
    · split at h
      · cases h
      · cases h; rfl

/-- the plain monitor rejects a raise when no sub-net is oversize (no numba cap, within the
neighbour cap) -/
theorem stepCheck_none_bad (cfg : Cfg) (hnc : cfg.numbaCap = false) (st : State) (t : Int)
    (dsts : List Pos) (hcap : cappedB cfg st t dsts = false)
    (hov : oversizeB cfg (stepGroups cfg st t dsts) = false) :
    ∃ why, stepCheck cfg st t dsts none = .bad why := by
  unfold stepCheck
  simp only [hov, hcap, hnc, Bool.false_and, Bool.false_eq_true, if_false]
  exact ⟨_, rfl⟩

/-- a sub-net that has a source has a destination -/
theorem group_dsts_ne (cfg : Cfg) (st : State) (t : Int) (dsts : List Pos) (g : Group)
    (hg : g ∈ stepGroups cfg st t dsts) (hne : g.1 ≠ []) : g.2 ≠ [] := by
  cases h1 : g.1 with
  | nil => exact absurd h1 hne
  | cons i is =>
    have hi : i ∈ g.1 := by rw [h1]; exact List.mem_cons_self ..
    have hds := (stepGroups_srcInv cfg st t dsts).nonempty i (List.mem_flatMap.mpr ⟨g, hg, hi⟩)
    cases hd : dsOfCands (stepCands cfg st t dsts) i with
    | nil => exact absurd hd hds
    | cons d ds =>
      have := (stepGroups_inv cfg st t dsts).closed g hg i hi d (by rw [hd]; exact List.mem_cons_self ..)
      intro h0
      rw [h0] at this
      cases this

/-- "fits the adaptive limit" (the test of `plan`) -/
def Fits (a : ACfg) (n : Net) : Prop := shortcut n = true ∨ n.srcs.length ≤ a.maxSizeA

theorem netOfG_lengths (cfg : Cfg) (st : State) (t : Int) (dsts : List Pos) (g : Group) :
    (netOfG cfg st t dsts g).srcs.length = g.1.length ∧
    (netOfG cfg st t dsts g).dsts.length = g.2.length := by
  simp [netOfG]

/-- a sub-net of the step fits the adaptive limit exactly when the plain monitor with
`maxSize :=` that limit does not call it oversize -/
theorem fits_iff_group (a : ACfg) (cfg : Cfg) (hms : cfg.maxSize = a.maxSizeA) (st : State)
    (t : Int) (dsts : List Pos) (g : Group) (hg : g ∈ stepGroups cfg st t dsts) :
    Fits a (netOfG cfg st t dsts g) ↔
      (decide (g.1.length > cfg.maxSize) && !(g.1.length == 1 && g.2.length == 1)) = false := by
  obtain ⟨h1, h2⟩ := netOfG_lengths cfg st t dsts g
  have hd : g.1 ≠ [] → g.2.length ≠ 0 := by
    intro hne h0
    exact group_dsts_ne cfg st t dsts g hg hne (List.length_eq_zero_iff.mp h0)
  have hd' : g.1.length = 1 → g.2.length ≠ 0 := by
    intro hl
    apply hd
    intro h0
    rw [h0] at hl
    cases hl
  unfold Fits shortcut
  rw [h1, h2, hms]
  simp only [Bool.or_eq_true, Bool.and_eq_true, beq_iff_eq, Bool.and_eq_false_iff,
    decide_eq_false_iff_not, Bool.not_eq_false', gt_iff_lt, Nat.not_lt]
  constructor
  · rintro (((⟨h0, _⟩ | h) | ⟨h, h'⟩) | h)
    · left; omega
    · right; exact h
    · exact absurd h' (hd' h)
    · left; exact h
  · rintro (h | h)
    · right; exact h
    · left; left; right; exact h

theorem oversizeB_false_iff (a : ACfg) (cfg : Cfg) (hms : cfg.maxSize = a.maxSizeA) (st : State)
    (t : Int) (dsts : List Pos) :
    oversizeB cfg (stepGroups cfg st t dsts) = false ↔ ∀ n ∈ stepNets cfg st t dsts, Fits a n := by
  rw [stepNets_eq]
  simp only [oversizeB, List.any_eq_false, List.mem_map, forall_exists_index, and_imp,
    forall_apply_eq_imp_iff₂]
  constructor
  · intro h g hg
    exact (fits_iff_group a cfg hms st t dsts g hg).mpr (by simpa using h g hg)
  · intro h g hg
    have := (fits_iff_group a cfg hms st t dsts g hg).mp (h g hg)
    simpa using this

/-- the adaptive monitor accepts (adaptive claims judged) exactly the valid labellings whose every
sub-net, taken as it is, passes the per-group test — provided every sub-net fits -/
theorem stepCheckA_accepts_iff (a : ACfg) (cfg : Cfg) (hnc : cfg.numbaCap = false) (st : State)
    (t : Int) (dsts : List Pos) (hcap : cappedB cfg st t dsts = false)
    (hfit : ∀ n ∈ stepNets cfg st t dsts, Fits a n) (labels : List Nat) (st' : State) :
    (∃ r f, stepCheckA a cfg st t dsts (some labels) = .ok st' r f false) ↔
      (st' = nextState cfg st t dsts labels ∧ validWhy cfg st t dsts labels = none ∧
        ∀ g ∈ stepGroups cfg st t dsts,
          finalOkB a cfg st labels (final0 cfg st t dsts g) = true) := by
  have hplan : ∀ n ∈ stepNets cfg st t dsts, plan a cfg.B 64 0 n = some [{ net := n, k := 0 }] :=
    fun n hn => plan_small a cfg.B 63 0 n (hfit n hn)
  constructor
  · rintro ⟨r, f, h⟩
    obtain ⟨hv, hst, hall⟩ := stepCheckA_ok h
    refine ⟨hst, hv, ?_⟩
    intro g hg
    have hn : netOfG cfg st t dsts g ∈ stepNets cfg st t dsts := by
      rw [stepNets_eq]; exact List.mem_map.mpr ⟨g, hg, rfl⟩
    obtain ⟨fs, hfs, hok, _⟩ := hall _ hn
    rw [hplan _ hn] at hfs
    cases hfs
    exact hok _ (List.mem_singleton.mpr rfl)
  · rintro ⟨rfl, hv, hall⟩
    apply stepCheckA_accepts a cfg hnc st t dsts hcap labels
    · intro n hn; exact ⟨_, hplan n hn⟩
    · exact hv
    · intro n hn fs hfs
      rw [hplan n hn] at hfs
      cases hfs
      rw [stepNets_eq, List.mem_map] at hn
      obtain ⟨g, hg, rfl⟩ := hn
      refine ⟨?_, ?_⟩
      · intro f hf
        rw [List.mem_singleton] at hf
        subst hf
        exact hall g hg
      · -- no source of the sub-net falls out of its only (unsplit) group
        simp only [orphansOkB, List.all_eq_true]
        intro x hx
        simp only [Bool.or_eq_true, List.any_eq_true]
        left
        exact ⟨_, List.mem_singleton.mpr rfl, x, hx, by simp⟩

/-- nothing is counted as reduced when every sub-net fits -/
theorem stepCheckA_reduced_zero (a : ACfg) (cfg : Cfg) (st : State) (t : Int) (dsts : List Pos)
    (hfit : ∀ n ∈ stepNets cfg st t dsts, Fits a n) (labels : List Nat) (st' : State) (r f : Nat)
    (h : stepCheckA a cfg st t dsts (some labels) = .ok st' r f false) :
    r = 0 ∧ f = (stepNets cfg st t dsts).length := by
  have hplan : ∀ n ∈ stepNets cfg st t dsts, plan a cfg.B 64 0 n = some [{ net := n, k := 0 }] :=
    fun n hn => plan_small a cfg.B 63 0 n (hfit n hn)
  have hmap : (stepNets cfg st t dsts).map (fun n => (n, plan a cfg.B 64 0 n)) =
      (stepNets cfg st t dsts).map (fun n => (n, some [({ net := n, k := 0 } : Final)])) :=
    List.map_congr_left (fun n hn => by rw [hplan n hn])
  unfold stepCheckA at h
  simp only [hmap] at h
  split at h
  · split at h
    · cases h
    · cases h
  · split at h
    · cases h
    · split at h
      · cases h
      · split at h
        · cases h
        · cases h
          refine ⟨?_, ?_⟩
          · simp [List.filter_map, Function.comp_def]
          · simp only [List.map_map, Function.comp_def, List.length_cons, List.length_nil,
              Nat.zero_add]
            generalize stepNets cfg st t dsts = l
            have : ∀ (l : List Net) (z : Nat),
                List.foldl (· + ·) z (l.map (fun _ => 1)) = z + l.length := by
              intro l
              induction l with
              | nil => intro z; simp
              | cons x xs ih => intro z; simp [ih]; omega
            simpa using this l 0

end TrackpyV.Adaptive
