import TrackpyV.Proofs.Refine
import TrackpyV.Proofs.Find
/-!
Helper lemmas for C09 about `Model/Refine.lean` in 2-D: the refinement of the transposed image,
with the per-axis parameters exchanged, is the transposed refinement.
-/
namespace TrackpyV.Refine
open List

/-- the transposed 2-D image: pixel `(a, b)` of the result is pixel `(b, a)` of `img` -/
def transImg (img : Image) : Image := fun p => img [p.getD 1 0, p.getD 0 0]

/-- a 2-vector with its components exchanged -/
def swapI (c : List Int) : List Int := [c.getD 1 0, c.getD 0 0]
def swapQ (c : List Rat) : List Rat := [c.getD 1 0, c.getD 0 0]
def swapN : List Nat → List Nat
  | [a, b] => [b, a]
  | l => l

/-! ## the mask of the exchanged radii is the exchanged mask (as a multiset) -/

theorem boxOffsets_eq_cart (radius : List Nat) :
    boxOffsets radius = Find.cart (radius.map (fun r => List.range (2 * r + 1))) := by
  induction radius with
  | nil => rfl
  | cons r rs ih => simp [boxOffsets, Find.cart, ih]

theorem boxOffsets_nodup (radius : List Nat) : (boxOffsets radius).Nodup := by
  rw [boxOffsets_eq_cart]
  apply Find.cart_nodup
  intro r hr
  obtain ⟨_, _, rfl⟩ := List.mem_map.mp hr
  exact List.nodup_range

theorem mem_boxOffsets2 (a b : Nat) (off : List Nat) :
    off ∈ boxOffsets [a, b] ↔ ∃ i j, i ≤ 2 * a ∧ j ≤ 2 * b ∧ off = [i, j] := by
  simp only [boxOffsets, List.mem_flatMap, List.mem_range, List.mem_map, List.mem_singleton]
  constructor
  · rintro ⟨i, hi, t, ⟨j, hj, t', rfl, rfl⟩, rfl⟩
    exact ⟨i, j, by omega, by omega, rfl⟩
  · rintro ⟨i, j, hi, hj, rfl⟩
    exact ⟨i, by omega, [j], ⟨j, by omega, [], rfl, rfl⟩, rfl⟩

theorem inEllipse_swap (ry rx i j : Nat) : inEllipse [rx, ry] [j, i] = inEllipse [ry, rx] [i, j] := by
  simp only [inEllipse, ellipseSum]
  congr 1
  rw [add_zero, add_zero, add_comm]

theorem mem_maskOffsets2 (a b : Nat) (off : List Nat) :
    off ∈ maskOffsets [a, b] ↔
      ∃ i j, i ≤ 2 * a ∧ j ≤ 2 * b ∧ off = [i, j] ∧ inEllipse [a, b] [i, j] = true := by
  unfold maskOffsets
  rw [List.mem_filter, mem_boxOffsets2]
  constructor
  · rintro ⟨⟨i, j, hi, hj, rfl⟩, h⟩; exact ⟨i, j, hi, hj, rfl, h⟩
  · rintro ⟨i, j, hi, hj, rfl, h⟩; exact ⟨⟨i, j, hi, hj, rfl⟩, h⟩

theorem maskOffsets_swap_perm (ry rx : Nat) :
    (maskOffsets [rx, ry]).Perm ((maskOffsets [ry, rx]).map swapN) := by
  have hn1 : (maskOffsets [rx, ry]).Nodup := (boxOffsets_nodup _).filter _
  have hn2 : ((maskOffsets [ry, rx]).map swapN).Nodup := by
    apply List.Nodup.map_on _ ((boxOffsets_nodup _).filter _)
    intro x hx y hy hxy
    obtain ⟨i, j, _, _, rfl, _⟩ := (mem_maskOffsets2 _ _ _).mp hx
    obtain ⟨k, l, _, _, rfl, _⟩ := (mem_maskOffsets2 _ _ _).mp hy
    simp only [swapN, List.cons.injEq, and_true] at hxy
    rw [hxy.1, hxy.2]
  rw [List.perm_ext_iff_of_nodup hn1 hn2]
  intro off
  rw [List.mem_map, mem_maskOffsets2]
  constructor
  · rintro ⟨j, i, hj, hi, rfl, h⟩
    refine ⟨[i, j], (mem_maskOffsets2 _ _ _).mpr ⟨i, j, hi, hj, rfl, ?_⟩, rfl⟩
    rw [← inEllipse_swap]; exact h
  · rintro ⟨x, hx, rfl⟩
    obtain ⟨i, j, hi, hj, rfl, h⟩ := (mem_maskOffsets2 _ _ _).mp hx
    exact ⟨j, i, hj, hi, rfl, by rw [inEllipse_swap]; exact h⟩

/-! ## sums over the mask -/

theorem origin2 (ry rx : Nat) (c : List Int) :
    origin [ry, rx] c = [c.getD 0 0 - (ry : Int), c.getD 1 0 - (rx : Int)] := by
  simp [origin, List.range_succ]

theorem addOff2 (a b : Int) (i j : Nat) : addOff [a, b] [i, j] = [a + (i : Int), b + (j : Int)] := by
  simp [addOff, List.range_succ]

theorem pix_transpose (img : Image) (ry rx : Nat) (c : List Int) (i j : Nat) :
    transImg img (addOff (origin [rx, ry] (swapI c)) [j, i]) =
      img (addOff (origin [ry, rx] c) [i, j]) := by
  simp [transImg, origin2, addOff2, swapI]

theorem wsum_perm (img : Image) {m1 m2 : List (List Nat)} (h : m1.Perm m2) (org : List Int)
    (w : List Nat → Rat) : wsum img m1 org w = wsum img m2 org w := by
  unfold wsum
  exact (h.map _).sum_eq

/-- a weighted mask sum of the transposed image, with the weight transposed likewise -/
theorem wsum_transpose (img : Image) (ry rx : Nat) (c : List Int) (w w' : List Nat → Rat)
    (hw : ∀ i j, w' [j, i] = w [i, j]) :
    wsum (transImg img) (maskOffsets [rx, ry]) (origin [rx, ry] (swapI c)) w' =
      wsum img (maskOffsets [ry, rx]) (origin [ry, rx] c) w := by
  rw [wsum_perm _ (maskOffsets_swap_perm ry rx)]
  unfold wsum
  rw [List.map_map]
  congr 1
  apply List.map_congr_left
  intro off hoff
  obtain ⟨i, j, _, _, rfl, _⟩ := (mem_maskOffsets2 _ _ _).mp hoff
  simp only [Function.comp, swapN]
  rw [hw, pix_transpose]

theorem massAt_transpose (img : Image) (ry rx : Nat) (c : List Int) :
    massAt (transImg img) (maskOffsets [rx, ry]) (origin [rx, ry] (swapI c)) =
      massAt img (maskOffsets [ry, rx]) (origin [ry, rx] c) :=
  wsum_transpose img ry rx c _ _ (fun _ _ => rfl)

theorem momAt_transpose0 (img : Image) (ry rx : Nat) (c : List Int) :
    momAt (transImg img) (maskOffsets [rx, ry]) (origin [rx, ry] (swapI c)) 0 =
      momAt img (maskOffsets [ry, rx]) (origin [ry, rx] c) 1 :=
  wsum_transpose img ry rx c _ _ (fun _ _ => by simp)

theorem momAt_transpose1 (img : Image) (ry rx : Nat) (c : List Int) :
    momAt (transImg img) (maskOffsets [rx, ry]) (origin [rx, ry] (swapI c)) 1 =
      momAt img (maskOffsets [ry, rx]) (origin [ry, rx] c) 0 :=
  wsum_transpose img ry rx c _ _ (fun _ _ => by simp)

theorem cmN_transpose0 (img : Image) (ry rx : Nat) (c : List Int) :
    cmN (transImg img) (maskOffsets [rx, ry]) [rx, ry] (origin [rx, ry] (swapI c)) 0 =
      cmN img (maskOffsets [ry, rx]) [ry, rx] (origin [ry, rx] c) 1 := by
  unfold cmN
  rw [massAt_transpose, momAt_transpose0]
  simp

theorem cmN_transpose1 (img : Image) (ry rx : Nat) (c : List Int) :
    cmN (transImg img) (maskOffsets [rx, ry]) [rx, ry] (origin [rx, ry] (swapI c)) 1 =
      cmN img (maskOffsets [ry, rx]) [ry, rx] (origin [ry, rx] c) 0 := by
  unfold cmN
  rw [massAt_transpose, momAt_transpose1]
  simp

theorem offCentre2 (img : Image) (mask : List (List Nat)) (ry rx : Nat) (c : List Int) :
    offCentre img mask [ry, rx] c =
      [cmN img mask [ry, rx] (origin [ry, rx] c) 0 - (ry : Rat),
       cmN img mask [ry, rx] (origin [ry, rx] c) 1 - (rx : Rat)] := by
  simp [offCentre, List.range_succ]

theorem offCentre_transpose (img : Image) (ry rx : Nat) (c : List Int) :
    offCentre (transImg img) (maskOffsets [rx, ry]) [rx, ry] (swapI c) =
      swapQ (offCentre img (maskOffsets [ry, rx]) [ry, rx] c) := by
  rw [offCentre2, offCentre2, cmN_transpose0, cmN_transpose1]
  simp [swapQ]

theorem converged_swapQ (thr : Rat) (a b : Rat) :
    converged thr (swapQ [a, b]) = converged thr [a, b] := by
  simp [converged, swapQ, Bool.and_comm]

theorem next2 (thr : Rat) (ry rx sy sx : Nat) (oc : List Rat) (c : List Int) :
    next thr [ry, rx] [sy, sx] oc c =
      [clipAxis ry sy (moveAxis thr (oc.getD 0 0) (c.getD 0 0)),
       clipAxis rx sx (moveAxis thr (oc.getD 1 0) (c.getD 1 0))] := by
  simp [next, List.range_succ]

theorem next_transpose (thr : Rat) (ry rx sy sx : Nat) (a b : Rat) (c : List Int) :
    next thr [rx, ry] [sx, sy] (swapQ [a, b]) (swapI c) =
      swapI (next thr [ry, rx] [sy, sx] [a, b] c) := by
  rw [next2, next2]
  simp [swapQ, swapI]

/-- **the loop commutes with transposition** (2-D, any fuel, clip included) -/
theorem lastCentre_transpose (thr : Rat) (img : Image) (ry rx sy sx : Nat) :
    ∀ (k : Nat) (c : List Int),
      lastCentre thr (transImg img) (maskOffsets [rx, ry]) [rx, ry] [sx, sy] k (swapI c) =
        swapI (lastCentre thr img (maskOffsets [ry, rx]) [ry, rx] [sy, sx] k c)
  | 0, _ => rfl
  | k + 1, c => by
    simp only [lastCentre, offCentre_transpose]
    rw [offCentre2 img _ ry rx c, converged_swapQ]
    split
    · rfl
    · rw [next_transpose]
      exact lastCentre_transpose thr img ry rx sy sx k _

/-! ## the measurements -/

theorem swapI_swapI (a b : Int) : swapI (swapI [a, b]) = [a, b] := by simp [swapI]

theorem posAt2 (img : Image) (mask : List (List Nat)) (ry rx : Nat) (c : List Int) :
    posAt img mask [ry, rx] c =
      [cmN img mask [ry, rx] (origin [ry, rx] c) 0 - (ry : Rat) + ((c.getD 0 0 : Int) : Rat),
       cmN img mask [ry, rx] (origin [ry, rx] c) 1 - (rx : Rat) + ((c.getD 1 0 : Int) : Rat)] := by
  simp [posAt, List.range_succ]

theorem posAt_transpose (img : Image) (ry rx : Nat) (c : List Int) :
    posAt (transImg img) (maskOffsets [rx, ry]) [rx, ry] (swapI c) =
      swapQ (posAt img (maskOffsets [ry, rx]) [ry, rx] c) := by
  rw [posAt2, posAt2, cmN_transpose0, cmN_transpose1]
  simp [swapQ, swapI]

theorem maskMax_perm (img : Image) {m1 m2 : List (List Nat)} (h : m1.Perm m2) (org : List Int) :
    maskMax img m1 org = maskMax img m2 org := by
  have key : ∀ (a b : List (List Nat)), (∀ x, x ∈ a → x ∈ b) → maskMax img a org ≤ maskMax img b org := by
    intro a b hab
    unfold maskMax
    rcases foldl_max_mem (a.map fun off => img (addOff org off)) 0 with h0 | hm
    · rw [h0]; exact Nat.zero_le _
    · obtain ⟨off, hoff, he⟩ := List.mem_map.mp hm
      rw [← he]
      exact foldl_max_ge_mem _ 0 _ (List.mem_map.mpr ⟨off, hab off hoff, rfl⟩)
  exact le_antisymm (key _ _ (fun x hx => h.subset hx)) (key _ _ (fun x hx => h.symm.subset hx))

theorem maskMax_transpose (img : Image) (ry rx : Nat) (c : List Int) :
    maskMax (transImg img) (maskOffsets [rx, ry]) (origin [rx, ry] (swapI c)) =
      maskMax img (maskOffsets [ry, rx]) (origin [ry, rx] c) := by
  rw [maskMax_perm _ (maskOffsets_swap_perm ry rx)]
  unfold maskMax
  rw [List.map_map]
  congr 1
  apply List.map_congr_left
  intro off hoff
  obtain ⟨i, j, _, _, rfl, _⟩ := (mem_maskOffsets2 _ _ _).mp hoff
  simp only [Function.comp, swapN]
  rw [pix_transpose]

/-! ## weights -/

theorem wR2_swap (ry rx i j : Nat) : wR2 [rx, ry] [j, i] = wR2 [ry, rx] [i, j] := by
  simp [wR2, List.range_succ, add_comm]

theorem wX2_swap0 (ry rx i j : Nat) : wX2 [rx, ry] 0 [j, i] = wX2 [ry, rx] 1 [i, j] := by
  simp [wX2]

theorem wX2_swap1 (ry rx i j : Nat) : wX2 [rx, ry] 1 [j, i] = wX2 [ry, rx] 0 [i, j] := by
  simp [wX2]

/-- `cosmask` with an arbitrary weight `w` for the centre pixel (`wCos` is the case `w = centreCos`,
the code's `cos(2·atan2(0,0)) = 1`; the repaired `cosmask` of repo-fixes/ has `w = 0`) -/
def wCosW (w : Rat) (radius : List Nat) (off : List Nat) : Rat :=
  let y : Int := rel (radius.getD 0 0) (off.getD 0 0)
  let x : Int := rel (radius.getD 1 0) (off.getD 1 0)
  if x = 0 ∧ y = 0 then w else ((x * x - y * y : Int) : Rat) / ((x * x + y * y : Int) : Rat)

theorem wCosW_centreCos : wCosW centreCos = wCos := rfl

/-- away from the centre pixel `cos 2θ` changes sign when the two axes are exchanged; the centre
pixel keeps its weight `w` -/
theorem wCosW_swap (w : Rat) (ry rx i j : Nat) :
    wCosW w [rx, ry] [j, i] =
      - wCosW w [ry, rx] [i, j] + (if [i, j] = [ry, rx] then 2 * w else 0) := by
  simp only [wCosW, List.getD_cons_zero, List.getD_cons_succ]
  have hc : (rel rx j = 0 ∧ rel ry i = 0) ↔ [i, j] = [ry, rx] := by
    simp only [rel, List.cons.injEq, and_true]
    constructor
    · rintro ⟨h1, h2⟩; exact ⟨by omega, by omega⟩
    · rintro ⟨h1, h2⟩; subst h1; subst h2; exact ⟨by omega, by omega⟩
  by_cases h : rel rx j = 0 ∧ rel ry i = 0
  · rw [if_pos h, if_pos ⟨h.2, h.1⟩, if_pos (hc.mp h)]; ring
  · rw [if_neg h, if_neg (fun hh => h ⟨hh.2, hh.1⟩), if_neg (fun hh => h (hc.mpr hh)), add_zero]
    push_cast
    rw [add_comm (((rel ry i : Int) : Rat) * _), ← neg_div]
    congr 1
    ring

/-- the sum over a duplicate-free list of a function supported on one of its elements -/
theorem sum_single {α} [DecidableEq α] (l : List α) (a : α) (f : α → Rat) (hn : l.Nodup)
    (ha : a ∈ l) : (l.map (fun x => if x = a then f x else 0)).sum = f a := by
  induction l with
  | nil => simp at ha
  | cons y l ih =>
    rw [List.nodup_cons] at hn
    simp only [List.map_cons, List.sum_cons]
    rcases List.mem_cons.mp ha with rfl | ha'
    · have hz : (l.map (fun x => if x = a then f x else 0)).sum = 0 := by
        apply List.sum_eq_zero
        intro v hv
        obtain ⟨x, hx, rfl⟩ := List.mem_map.mp hv
        rw [if_neg (fun (e : x = a) => hn.1 (e ▸ hx))]
      simp [hz]
    · rw [if_neg (fun (e : y = a) => hn.1 (e ▸ ha')), zero_add]
      exact ih hn.2 ha'

/-- the centre pixel enters a mask sum exactly once -/
theorem wsum_centre (img : Image) (ry rx : Nat) (org : List Int) (v : Rat) :
    wsum img (maskOffsets [ry, rx]) org (fun off => if off = [ry, rx] then v else 0) =
      v * ((img (addOff org [ry, rx]) : Nat) : Rat) := by
  unfold wsum
  have := sum_single (maskOffsets [ry, rx]) [ry, rx]
    (fun off => v * ((img (addOff org off) : Nat) : Rat)) ((boxOffsets_nodup _).filter _)
    (centre_mem_maskOffsets [ry, rx])
  rw [← this]
  congr 1
  apply List.map_congr_left
  intro off _
  by_cases h : off = [ry, rx] <;> simp [h]

theorem wSin_swap (ry rx i j : Nat) : wSin [rx, ry] [j, i] = wSin [ry, rx] [i, j] := by
  simp only [wSin, List.getD_cons_zero, List.getD_cons_succ, centreSin]
  by_cases h : rel rx j = 0 ∧ rel ry i = 0
  · rw [if_pos h, if_pos ⟨h.2, h.1⟩]
  · rw [if_neg h, if_neg (fun hh => h ⟨hh.2, hh.1⟩)]
    push_cast
    rw [add_comm (((rel ry i : Int) : Rat) * _)]
    congr 1
    ring

theorem isotropic_swap (ry rx : Nat) : isotropic [rx, ry] = isotropic [ry, rx] := by
  simp [isotropic, eq_comm]

end TrackpyV.Refine
