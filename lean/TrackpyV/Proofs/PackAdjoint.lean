import TrackpyV.Proofs.Pack
import Mathlib.Algebra.BigOperators.Group.List.Basic
import Mathlib.Tactic.Ring
/-!
`operation=np.sum` packing is the transpose (adjoint) of the linear part of `vect_to_params`:
`⟨pack_sum G, v⟩ = ⟨G, unpack v 0⟩`.  This is the chain rule for shared parameters: the derivative
of `residual ∘ unpack` in direction `v` is `⟨∇residual, unpack_lin v⟩ = ⟨pack_sum ∇residual, v⟩`.
-/
namespace TrackpyV.Pack
set_option linter.unusedSectionVars false

variable {R : Type} [CommRing R] [Inhabited R]

/-- inner product of two vectors -/
def dot (a b : List R) : R := (List.zipWith (· * ·) a b).sum
/-- inner product of two arrays (lists of columns) -/
def dot2 (A B : List (List R)) : R := (List.zipWith dot A B).sum

@[simp] theorem dot_nil_left (b : List R) : dot [] b = 0 := by simp [dot]
@[simp] theorem dot_nil_right (a : List R) : dot a [] = 0 := by simp [dot]
@[simp] theorem dot_cons (x y : R) (a b : List R) : dot (x :: a) (y :: b) = x * y + dot a b := by
  simp [dot]

theorem sumOp_eq (z : R) (l : List R) : sumOp z l = z + l.sum := by
  induction l generalizing z with
  | nil => simp [sumOp]
  | cons a t ih =>
    have : sumOp z (a :: t) = sumOp (z + a) t := rfl
    rw [this, ih, List.sum_cons]; ring

theorem dot_append (a b c d : List R) (h : a.length = c.length) :
    dot (a ++ b) (c ++ d) = dot a c + dot b d := by
  induction a generalizing c with
  | nil => cases c with
    | nil => simp
    | cons _ _ => simp at h
  | cons x a ih => cases c with
    | nil => simp at h
    | cons y c =>
      simp only [List.cons_append, dot_cons]
      rw [ih c (by simpa using h)]; ring

theorem dot_replicate (G : List R) (x : R) : dot G (List.replicate G.length x) = G.sum * x := by
  induction G with
  | nil => simp
  | cons a t ih => simp [List.replicate_succ, ih]; ring

theorem dot_zero (G : List R) (n : Nat) : dot G (List.replicate n 0) = 0 := by
  induction G generalizing n with
  | nil => simp
  | cons a t ih => cases n with
    | zero => simp
    | succ n => simp [List.replicate_succ, ih]

theorem dot_set (G U : List R) (j : Nat) (x : R) (hl : G.length = U.length) (hj : j < U.length) :
    dot G (U.set j x) = dot G U + G.getD j default * (x - U.getD j default) := by
  induction G generalizing U j with
  | nil => cases U with
    | nil => simp at hj
    | cons _ _ => simp at hl
  | cons a G ih => cases U with
    | nil => simp at hl
    | cons u U => cases j with
      | zero => simp; ring
      | succ j =>
        simp only [List.set_cons_succ, dot_cons, List.getD_cons_succ]
        rw [ih U j (by simpa using hl) (by simpa using hj)]; ring

theorem dot_setAll (G U : List R) (g : List Nat) (x : R) (hl : G.length = U.length)
    (hr : ∀ j ∈ g, j < U.length) (hnd : g.Nodup) (hz : ∀ j ∈ g, U.getD j default = 0) :
    dot G (setAll U g x) = dot G U + (gather G g).sum * x := by
  induction g generalizing U with
  | nil => simp [gather]
  | cons j g ih =>
    rw [setAll_cons]
    rw [List.nodup_cons] at hnd
    have hj := hr j (by simp)
    rw [ih (U.set j x) (by simpa using hl) (fun i hi => by simpa using hr i (by simp [hi])) hnd.2]
    · rw [dot_set G U j x hl hj, hz j (by simp)]
      simp only [gather, List.map_cons, List.sum_cons]; ring
    · intro i hi
      have hne : j ≠ i := fun h => hnd.1 (h ▸ hi)
      have := hz i (by simp [hi])
      simpa [List.getD_eq_getElem?_getD, List.getElem?_set, hne] using this

theorem dot_setGroups (G U : List R) (gs : List (List Nat)) (vals : List R)
    (hl : G.length = U.length) (hok : GroupListOK U.length gs) (hlen : vals.length = gs.length)
    (hz : ∀ g ∈ gs, ∀ j ∈ g, U.getD j default = 0) :
    dot G (setGroups U gs vals) = dot G U + dot (gs.map (fun g => sumOp 0 (gather G g))) vals := by
  induction gs generalizing U vals with
  | nil => simp
  | cons g gs ih =>
    cases vals with
    | nil => simp at hlen
    | cons x vals =>
      obtain ⟨h1, h2, h3, h4⟩ := hok
      rw [List.pairwise_cons] at h4
      rw [setGroups_cons, List.map_cons, dot_cons]
      rw [ih (setAll U g x) vals (by simpa using hl)]
      · rw [dot_setAll G U g x hl (h2 g (by simp)) (h3 g (by simp)) (hz g (by simp)), sumOp_eq]
        ring
      · refine ⟨fun g' hg' => h1 g' (by simp [hg']), ?_, fun g' hg' => h3 g' (by simp [hg']), h4.2⟩
        intro g' hg' j hj
        simpa using h2 g' (by simp [hg']) j hj
      · simpa using hlen
      · intro g' hg' j hj
        rw [getD_setAll_of_not_mem _ _ _ _ (fun hjg => h4.1 g' hg' j hjg hj)]
        exact hz g' (by simp [hg']) j hj

/-- one column -/
theorem dot_packCol (n : Nat) (k : Kind) (Gc vect : List R) (hG : Gc.length = n)
    (hk : kindOK n k = true) (hv : kindLen n k ≤ vect.length) :
    dot (packCol (sumOp 0) k Gc) (vect.take (kindLen n k)) =
      dot Gc (unpackCol n k vect (List.replicate n 0)).1 := by
  cases k with
  | const => simp [packCol, unpackCol, kindLen, dot_zero]
  | error => simp [kindOK] at hk
  | all => simp [packCol, unpackCol, kindLen]
  | one =>
    cases vect with
    | nil => simp [kindLen] at hv
    | cons a t =>
      simp only [packCol, unpackCol, kindLen, List.take_succ_cons, List.take_zero, dot_cons,
        dot_nil_left, List.headD_cons, add_zero]
      rw [← hG, dot_replicate, sumOp_eq]; ring
  | grouped gs =>
    simp only [kindOK, groupListOK_iff] at hk
    simp only [kindLen] at hv
    simp only [packCol, unpackCol, kindLen]
    rw [dot_setGroups Gc (List.replicate n 0) gs (vect.take gs.length) (by simpa using hG)
      (by simpa using hk) (by simp [hv])]
    · rw [dot_zero]; simp
    · intro g hg j hj
      have := hk.inRange g hg j hj
      simp [List.getD_eq_getElem?_getD, this]

theorem dot_packCols (n : Nat) (groups : Option Groups) :
    ∀ (modes : List Nat) (G : List (List R)) (vect : List R), G.length = modes.length →
      shapeOK n G = true → modesOK n groups modes = true →
      packedLen n groups modes ≤ vect.length →
      ∃ pv U, packCols (sumOp 0) groups modes G = some pv ∧
        unpackCols n groups modes vect (G.map (fun _ => List.replicate n 0)) = some U ∧
        pv.length = packedLen n groups modes ∧
        dot pv (vect.take (packedLen n groups modes)) = dot2 G U
  | [], [], vect, _, _, _, _ => ⟨[], [], by simp [packCols, unpackCols, packedLen, dot2]⟩
  | [], _ :: _, _, hl, _, _, _ => by simp at hl
  | _ :: _, [], _, hl, _, _, _ => by simp at hl
  | m :: ms, c :: cs, vect, hl, hs, hok, hv => by
    simp only [modesOK, List.all_cons, Bool.and_eq_true] at hok
    have hk : kind groups m ≠ .error := by
      intro h; rw [h] at hok; simp [kindOK] at hok
    simp only [shapeOK, List.all_cons, Bool.and_eq_true, beq_iff_eq] at hs
    have hpl : packedLen n groups (m :: ms) = kindLen n (kind groups m) + packedLen n groups ms := by
      simp [packedLen]
    rw [hpl] at hv
    have hz : (List.replicate n (0 : R)).length = n := by simp
    have h2 := unpackCol_snd n (kind groups m) vect (List.replicate n (0:R))
    obtain ⟨pv, U, e1, e2, e3, e4⟩ := dot_packCols n groups ms cs
      (unpackCol n (kind groups m) vect (List.replicate n 0)).2 (by simpa using hl)
      (by simpa [shapeOK] using hs.2) (by simpa [modesOK] using hok.2)
      (by rw [h2, List.length_drop]; omega)
    refine ⟨packCol (sumOp 0) (kind groups m) c ++ pv,
      (unpackCol n (kind groups m) vect (List.replicate n 0)).1 :: U, ?_, ?_, ?_, ?_⟩
    · rw [packCols_cons _ _ _ _ _ _ hk, e1]; rfl
    · rw [List.map_cons, unpackCols_cons _ _ _ _ _ _ _ hk, e2]; rfl
    · rw [List.length_append, length_packCol _ n _ c hs.1, e3, hpl]
    · rw [hpl, List.take_add, dot_append _ _ _ _ (by
        rw [length_packCol _ n _ c hs.1, List.length_take]; omega)]
      rw [dot_packCol n _ c vect hs.1 hok.1 (by omega)]
      rw [h2] at e4
      simp only [dot2, List.zipWith_cons_cons, List.sum_cons] at e4 ⊢
      rw [e4]

end TrackpyV.Pack
