import TrackpyV.Model.Lsq
import Mathlib.Analysis.SpecialFunctions.ExpDeriv
import Mathlib.Analysis.SpecialFunctions.Sqrt
import Mathlib.Analysis.Calculus.Deriv.Inv
import Mathlib.Tactic.Ring
import Mathlib.Tactic.FieldSimp
import Mathlib.Tactic.IntervalCases
/-!
Real-analysis lemmas about the generic formulas of `Model/Lsq.lean`, instantiated at `ℝ`
(`exp := Real.exp`, `sqrt := Real.sqrt`): every entry of `dr2`, `fnDeriv`, `dterm` is the
derivative of the corresponding entry of `r2`, `fnVal`, `term`.
-/
namespace TrackpyV.Lsq
set_option linter.unusedTactic false
set_option linter.unreachableTactic false
set_option linter.unnecessarySeqFocus false

/-- the real instance of the formulas -/
noncomputable instance : ExpSqrt ℝ := ⟨Real.exp, Real.sqrt⟩

@[simp] theorem zero_real : (zero : ℝ) = 0 := by simp [zero]
@[simp] theorem one_real : (one : ℝ) = 1 := by simp [one]
@[simp] theorem two_real : (two : ℝ) = 2 := by simp [two]
@[simp] theorem half_real : (half : ℝ) = 1 / 2 := by simp [half]
@[simp] theorem exp_real (x : ℝ) : ExpSqrt.exp x = Real.exp x := rfl
@[simp] theorem sqrt_real (x : ℝ) : ExpSqrt.sqrt x = Real.sqrt x := rfl

theorem lsum_real (l : List ℝ) : lsum l = l.sum := by
  have h : ∀ (z : ℝ) (l : List ℝ), l.foldl (· + ·) z = z + l.sum := by
    intro z l
    induction l generalizing z with
    | nil => simp
    | cons a t ih => simp [ih]; ring
  simp [lsum, h]

/-! ### squared reduced distance -/

theorem hd_quad (a b x u0 : ℝ) :
    HasDerivAt (fun u => a + b * ((x - u) * (x - u))) (b * (2 * (u0 - x))) u0 := by
  have h1 : HasDerivAt (fun u : ℝ => x - u) (-1) u0 := by
    simpa using (hasDerivAt_id u0).const_sub x
  have h2 := ((h1.fun_mul h1).const_mul b).const_add a
  refine h2.congr_deriv ?_
  ring

theorem hd_invsq (a b u0 : ℝ) (h : u0 ≠ 0) :
    HasDerivAt (fun u => a + b / (u * u)) (b * (-2 / (u0 * u0 * u0))) u0 := by
  have h1 : HasDerivAt (fun u : ℝ => u * u) (1 * u0 + u0 * 1) u0 :=
    (hasDerivAt_id u0).fun_mul (hasDerivAt_id u0)
  have h2 := ((hasDerivAt_const u0 b).fun_div h1 (mul_ne_zero h h)).const_add a
  refine h2.congr_deriv ?_
  field_simp
  ring

/-- shapes of the coordinate and parameter lists, sizes non-zero -/
structure GeoOK (g : Geo) (q θ : List ℝ) : Prop where
  hq : q.length = g.ndim
  hθ : θ.length = g.nShape
  sizes : ∀ i, g.ndim ≤ i → i < g.nShape → θ.getD i 0 ≠ 0

theorem length_dr2 (g : Geo) (q θ : List ℝ) (h : GeoOK g q θ) : (dr2 g q θ).length = g.nShape := by
  obtain ⟨hq, hθ, -⟩ := h
  cases g <;> simp only [Geo.ndim, Geo.nShape] at hq hθ
  · obtain ⟨y, x, rfl⟩ := List.length_eq_two.1 hq
    obtain ⟨a, b, c, rfl⟩ := List.length_eq_three.1 hθ
    simp [dr2, Geo.nShape]
  · obtain ⟨y, x, rfl⟩ := List.length_eq_two.1 hq
    rcases θ with _ | ⟨a, _ | ⟨b, _ | ⟨c, _ | ⟨d, _ | ⟨e, t⟩⟩⟩⟩⟩ <;> simp at hθ
    simp [dr2, Geo.nShape]
  · obtain ⟨z, y, x, rfl⟩ := List.length_eq_three.1 hq
    rcases θ with _ | ⟨a, _ | ⟨b, _ | ⟨c, _ | ⟨d, _ | ⟨e, t⟩⟩⟩⟩⟩ <;> simp at hθ
    simp [dr2, Geo.nShape]
  · obtain ⟨z, y, x, rfl⟩ := List.length_eq_three.1 hq
    rcases θ with _ | ⟨a, _ | ⟨b, _ | ⟨c, _ | ⟨d, _ | ⟨e, _ | ⟨f, _ | ⟨h, t⟩⟩⟩⟩⟩⟩⟩ <;> simp at hθ
    simp [dr2, Geo.nShape]

/-- every row of `dr2_*` is the partial derivative of `r2_*` in the corresponding centre
coordinate / size -/
theorem r2_hasDerivAt (g : Geo) (q θ : List ℝ) (h : GeoOK g q θ) (k : ℕ) (hk : k < g.nShape) :
    HasDerivAt (fun u => r2 g q (θ.set k u)) ((dr2 g q θ).getD k 0) (θ.getD k 0) := by
  obtain ⟨hq, hθ, hs⟩ := h
  cases g <;> simp only [Geo.ndim, Geo.nShape] at hq hθ hs hk
  · obtain ⟨y, x, rfl⟩ := List.length_eq_two.1 hq
    obtain ⟨cy, cx, s, rfl⟩ := List.length_eq_three.1 hθ
    have h2 : s ≠ 0 := by simpa using hs 2 (by omega) (by omega)
    interval_cases k <;>
      simp only [r2, dr2, sq, cube, List.set, List.getD_cons_succ, List.getD_cons_zero, two_real]
    · convert hd_quad ((x - cx) * (x - cx) / (s * s)) (1 / (s * s)) y cy using 1
      · funext u; ring
      · ring
    · convert hd_quad ((y - cy) * (y - cy) / (s * s)) (1 / (s * s)) x cx using 1
      · funext u; ring
      · ring
    · convert hd_invsq 0 ((x - cx) * (x - cx) + (y - cy) * (y - cy)) s h2 using 1 <;>
      (funext u; ring)
  · obtain ⟨y, x, rfl⟩ := List.length_eq_two.1 hq
    rcases θ with _ | ⟨cy, _ | ⟨cx, _ | ⟨sy, _ | ⟨sx, _ | ⟨e, t⟩⟩⟩⟩⟩ <;> simp at hθ
    have h2 : sy ≠ 0 := by simpa using hs 2 (by omega) (by omega)
    have h3 : sx ≠ 0 := by simpa using hs 3 (by omega) (by omega)
    interval_cases k <;>
      simp only [r2, dr2, sq, cube, List.set, List.getD_cons_succ, List.getD_cons_zero, two_real]
    · convert hd_quad ((x - cx) * (x - cx) / (sx * sx)) (1 / (sy * sy)) y cy using 1
      · funext u; ring
      · ring
    · convert hd_quad ((y - cy) * (y - cy) / (sy * sy)) (1 / (sx * sx)) x cx using 1
      · funext u; ring
      · ring
    · convert hd_invsq ((x - cx) * (x - cx) / (sx * sx)) ((y - cy) * (y - cy)) sy h2 using 1 <;>
      (funext u; ring)
    · convert hd_invsq ((y - cy) * (y - cy) / (sy * sy)) ((x - cx) * (x - cx)) sx h3 using 1 <;>
      (funext u; ring)
  · obtain ⟨z, y, x, rfl⟩ := List.length_eq_three.1 hq
    rcases θ with _ | ⟨cz, _ | ⟨cy, _ | ⟨cx, _ | ⟨s, _ | ⟨e, t⟩⟩⟩⟩⟩ <;> simp at hθ
    have h3 : s ≠ 0 := by simpa using hs 3 (by omega) (by omega)
    interval_cases k <;>
      simp only [r2, dr2, sq, cube, List.set, List.getD_cons_succ, List.getD_cons_zero, two_real]
    · convert hd_quad (((x - cx) * (x - cx) + (y - cy) * (y - cy)) / (s * s)) (1 / (s * s)) z cz
        using 1
      · funext u; ring
      · ring
    · convert hd_quad (((x - cx) * (x - cx) + (z - cz) * (z - cz)) / (s * s)) (1 / (s * s)) y cy
        using 1
      · funext u; ring
      · ring
    · convert hd_quad (((y - cy) * (y - cy) + (z - cz) * (z - cz)) / (s * s)) (1 / (s * s)) x cx
        using 1
      · funext u; ring
      · ring
    · convert hd_invsq 0 ((x - cx) * (x - cx) + (y - cy) * (y - cy) + (z - cz) * (z - cz)) s h3
        using 1 <;>
      (funext u; ring)
  · obtain ⟨z, y, x, rfl⟩ := List.length_eq_three.1 hq
    rcases θ with _ | ⟨cz, _ | ⟨cy, _ | ⟨cx, _ | ⟨sz, _ | ⟨sy, _ | ⟨sx, _ | ⟨e, t⟩⟩⟩⟩⟩⟩⟩ <;>
      simp at hθ
    have h3 : sz ≠ 0 := by simpa using hs 3 (by omega) (by omega)
    have h4 : sy ≠ 0 := by simpa using hs 4 (by omega) (by omega)
    have h5 : sx ≠ 0 := by simpa using hs 5 (by omega) (by omega)
    interval_cases k <;>
      simp only [r2, dr2, sq, cube, List.set, List.getD_cons_succ, List.getD_cons_zero, two_real]
    · convert hd_quad ((x - cx) * (x - cx) / (sx * sx) + (y - cy) * (y - cy) / (sy * sy))
        (1 / (sz * sz)) z cz using 1
      · funext u; ring
      · ring
    · convert hd_quad ((x - cx) * (x - cx) / (sx * sx) + (z - cz) * (z - cz) / (sz * sz))
        (1 / (sy * sy)) y cy using 1
      · funext u; ring
      · ring
    · convert hd_quad ((y - cy) * (y - cy) / (sy * sy) + (z - cz) * (z - cz) / (sz * sz))
        (1 / (sx * sx)) x cx using 1
      · funext u; ring
      · ring
    · convert hd_invsq ((x - cx) * (x - cx) / (sx * sx) + (y - cy) * (y - cy) / (sy * sy))
        ((z - cz) * (z - cz)) sz h3 using 1 <;>
      (funext u; ring)
    · convert hd_invsq ((x - cx) * (x - cx) / (sx * sx) + (z - cz) * (z - cz) / (sz * sz))
        ((y - cy) * (y - cy)) sy h4 using 1 <;>
      (funext u; ring)
    · convert hd_invsq ((y - cy) * (y - cy) / (sy * sy) + (z - cz) * (z - cz) / (sz * sz))
        ((x - cx) * (x - cx)) sx h5 using 1 <;>
      (funext u; ring)

/-! ### model functions -/

/-- `gauss_dfun`: derivative of `exp(-ndim/2 * r2)` in `r2` -/
theorem gauss_hasDerivAt (nd r0 : ℝ) (fp : List ℝ) :
    HasDerivAt (fun r => fnVal .gauss nd r fp) ((fnDeriv .gauss nd r0 fp).headD 0) r0 := by
  simp only [fnVal, fnDeriv, expArg, half_real, exp_real, List.headD_cons]
  have h : HasDerivAt (fun r : ℝ => -(1 / 2) * nd * r) (-(1 / 2) * nd) r0 := by
    simpa using (hasDerivAt_id r0).const_mul (-(1 / 2) * nd)
  convert h.exp using 1
  ring

/-- the inner quotient of the ring function, in `r2` -/
theorem ring_inner_hasDerivAt_r2 (t r0 : ℝ) (hr : 0 < r0) :
    HasDerivAt (fun r => (Real.sqrt r - 1 + t) / t) (1 / (2 * Real.sqrt r0) / t) r0 := by
  have h1 := Real.hasDerivAt_sqrt (ne_of_gt hr)
  exact ((h1.sub_const 1).add_const t).div_const t

/-- `ring_dfun[0]`: derivative of `exp(-ndim/2 * ((sqrt r2 - 1 + t)/t)^2)` in `r2` (for `r2 > 0`) -/
theorem ring_hasDerivAt_r2 (nd t r0 : ℝ) (hr : 0 < r0) (ht : t ≠ 0) :
    HasDerivAt (fun r => fnVal .ring nd r [t]) ((fnDeriv .ring nd r0 [t]).headD 0) r0 := by
  simp only [fnVal, fnDeriv, expArg, half_real, exp_real, sqrt_real, one_real, sq,
    List.headD_cons]
  have h2 := ring_inner_hasDerivAt_r2 t r0 hr
  have h4 := ((h2.fun_mul h2).const_mul (-(1 / 2) * nd)).exp
  have hs : Real.sqrt r0 ≠ 0 := (Real.sqrt_ne_zero'.2 hr)
  refine h4.congr_deriv ?_
  generalize Real.exp _ = E
  field_simp
  ring

/-- `ring_dfun[1]`: derivative in the thickness `t` (for `t ≠ 0`) -/
theorem ring_hasDerivAt_t (nd t0 r : ℝ) (ht : t0 ≠ 0) :
    HasDerivAt (fun t => fnVal .ring nd r [t]) ((fnDeriv .ring nd r [t0]).getD 1 0) t0 := by
  simp only [fnVal, fnDeriv, expArg, half_real, exp_real, sqrt_real, one_real, sq, cube,
    List.getD_cons_succ, List.getD_cons_zero]
  have h1 : HasDerivAt (fun t : ℝ => Real.sqrt r - 1 + t) 1 t0 := by
    simpa using (hasDerivAt_id t0).const_add (Real.sqrt r - 1)
  have h2 := h1.fun_div (hasDerivAt_id' t0) ht
  have h4 := ((h2.fun_mul h2).const_mul (-(1 / 2) * nd)).exp
  refine h4.congr_deriv ?_
  generalize Real.exp _ = E
  field_simp
  ring

end TrackpyV.Lsq
