import TrackpyV.Model.Find
import Mathlib.Data.List.Nodup
import Mathlib.Tactic.Linarith
import Mathlib.Tactic.FieldSimp
import Mathlib.Data.Rat.Floor

/-!
Helper lemmas about the Find model (`Model/Find.lean`): cartesian products and windows, the
running maximum, the inscribed box, `where_close`/`drop_close`.  The property theorems are in
`Props/C06.lean`.
-/
set_option linter.unusedVariables false

namespace TrackpyV.Find

/-! ## pointwise relations between per-axis lists -/

/-- `R` holds on every axis; the two lists have the same length -/
def All2 {α β} (R : α → β → Prop) : List α → List β → Prop
  | [], [] => True
  | a :: as, b :: bs => R a b ∧ All2 R as bs
  | _, _ => False

theorem All2.length_eq {α β} {R : α → β → Prop} : ∀ {l₁ : List α} {l₂ : List β},
    All2 R l₁ l₂ → l₁.length = l₂.length
  | [], [], _ => rfl
  | _ :: as, _ :: bs, h => by simp [All2.length_eq (l₁ := as) (l₂ := bs) h.2]
  | [], _ :: _, h => h.elim
  | _ :: _, [], h => h.elim

theorem All2_map_right {α β γ} {R : α → γ → Prop} (f : β → γ) : ∀ (l₁ : List α) (l₂ : List β),
    All2 R l₁ (l₂.map f) ↔ All2 (fun a b => R a (f b)) l₁ l₂
  | [], [] => by simp [All2]
  | a :: as, b :: bs => by simp [All2, All2_map_right f as bs]
  | [], _ :: _ => by simp [All2]
  | _ :: _, [] => by simp [All2]

theorem All2.imp {α β} {R S : α → β → Prop} (h : ∀ a b, R a b → S a b) :
    ∀ {l₁ : List α} {l₂ : List β}, All2 R l₁ l₂ → All2 S l₁ l₂
  | [], [], _ => trivial
  | _ :: _, _ :: _, hh => ⟨h _ _ hh.1, All2.imp h hh.2⟩
  | [], _ :: _, hh => hh.elim
  | _ :: _, [], hh => hh.elim

/-- `p` is a valid index of an image of this shape -/
def InImage (shape : List Nat) (p : Pos) : Prop := All2 (fun i n => i < n) p shape

/-! ## cartesian products -/

theorem mem_cart : ∀ (rs : List (List Nat)) (p : Pos),
    p ∈ cart rs ↔ All2 (fun i r => i ∈ r) p rs
  | [], p => by cases p <;> simp [cart, All2]
  | r :: rs, [] => by simp [cart, All2]
  | r :: rs, j :: q => by
    simp only [cart, List.mem_flatMap, List.mem_map, All2]
    constructor
    · rintro ⟨i, hi, t, ht, heq⟩
      injection heq with h1 h2
      subst h1; subst h2
      exact ⟨hi, (mem_cart rs t).mp ht⟩
    · rintro ⟨hj, hq⟩
      exact ⟨j, hj, q, (mem_cart rs q).mpr hq, rfl⟩

theorem mem_allIdx (shape : List Nat) (p : Pos) : p ∈ allIdx shape ↔ InImage shape p := by
  unfold allIdx InImage
  rw [mem_cart, All2_map_right]
  constructor <;> intro h <;> refine All2.imp ?_ h <;> intro a b <;> simp

theorem cart_nodup : ∀ (rs : List (List Nat)), (∀ r ∈ rs, r.Nodup) → (cart rs).Nodup
  | [], _ => by simp [cart]
  | r :: rs, h => by
    have ih := cart_nodup rs (fun x hx => h x (List.mem_cons_of_mem _ hx))
    have hr := h r List.mem_cons_self
    simp only [cart]
    rw [List.nodup_flatMap]
    refine ⟨fun i _ => ih.map (fun a b hab => by injection hab), ?_⟩
    refine List.Pairwise.imp ?_ hr
    intro a b hab
    simp only [Function.onFun]
    intro x hx1 hx2
    simp only [List.mem_map] at hx1 hx2
    obtain ⟨t1, _, e1⟩ := hx1
    obtain ⟨t2, _, e2⟩ := hx2
    subst e1
    injection e2 with e3 _
    exact hab e3.symm

theorem allIdx_nodup (shape : List Nat) : (allIdx shape).Nodup := by
  apply cart_nodup
  intro r hr
  simp only [List.mem_map] at hr
  obtain ⟨n, _, rfl⟩ := hr
  exact List.nodup_range

/-! ## the window of the dilation -/

/-- `q` lies in the box of sizes `ks` around `p` (scipy's placement: `(k−1)/2` pixels towards
lower, `k/2` towards higher indices) and inside the image -/
def InBox : List Nat → List Nat → Pos → Pos → Prop
  | n :: ns, k :: ks, i :: p, j :: q =>
    (i - (k - 1) / 2 ≤ j ∧ j ≤ i + k / 2 ∧ j < n) ∧ InBox ns ks p q
  | [], [], [], [] => True
  | _, _, _, _ => False

theorem mem_axisWin (n k i j : Nat) :
    j ∈ axisWin n k i ↔ i - (k - 1) / 2 ≤ j ∧ j ≤ i + k / 2 ∧ j < n := by
  unfold axisWin
  simp only [List.mem_range'_1]
  omega

theorem mem_window : ∀ (shape ks : List Nat) (p q : Pos), ks.length = shape.length →
    p.length = shape.length → (q ∈ window shape ks p ↔ InBox shape ks p q)
  | [], [], [], q, _, _ => by cases q <;> simp [window, winAxes, cart, InBox]
  | n :: ns, k :: ks, i :: p, [], _, _ => by
    simp [window, winAxes, InBox, mem_cart, All2]
  | n :: ns, k :: ks, i :: p, j :: q, h1, h2 => by
    have ih := mem_window ns ks p q (by simpa using h1) (by simpa using h2)
    simp only [window] at ih
    simp only [window, winAxes, InBox, mem_cart, All2, mem_axisWin]
    rw [← mem_cart, ih]
  | [], _ :: _, _, _, h1, _ => by simp at h1
  | _ :: _, [], _, _, h1, _ => by simp at h1
  | [], [], _ :: _, _, _, h2 => by simp at h2
  | _ :: _, _ :: _, [], _, _, h2 => by simp at h2

theorem InBox.self : ∀ (shape ks : List Nat) (p : Pos), ks.length = shape.length →
    InImage shape p → InBox shape ks p p
  | [], [], [], _, _ => trivial
  | n :: ns, k :: ks, i :: p, h1, h2 => by
    refine ⟨⟨by omega, by omega, h2.1⟩, InBox.self ns ks p (by simpa using h1) h2.2⟩
  | [], _ :: _, _, h1, _ => by simp at h1
  | _ :: _, [], _, h1, _ => by simp at h1
  | [], [], _ :: _, _, h2 => h2.elim
  | _ :: _, _ :: _, [], _, h2 => h2.elim

theorem InBox.inImage : ∀ (shape ks : List Nat) (p q : Pos), InBox shape ks p q → InImage shape q
  | [], [], [], [], _ => trivial
  | n :: ns, k :: ks, i :: p, j :: q, h => ⟨h.1.2.2, InBox.inImage ns ks p q h.2⟩
  | [], [], [], _ :: _, h => h.elim
  | [], [], _ :: _, _, h => h.elim
  | [], _ :: _, _, _, h => h.elim
  | _ :: _, [], _, _, h => h.elim
  | _ :: _, _ :: _, [], _, h => h.elim
  | _ :: _, _ :: _, _ :: _, [], h => h.elim

/-! ## running maximum -/

theorem foldl_max_ge (l : List Nat) : ∀ (a : Nat), a ≤ l.foldl max a := by
  induction l with
  | nil => intro a; simp
  | cons x xs ih => intro a; simp only [List.foldl_cons]; exact le_trans (le_max_left a x) (ih _)

theorem le_foldl_max (l : List Nat) : ∀ (a x : Nat), x ∈ l → x ≤ l.foldl max a := by
  induction l with
  | nil => intro a x hx; simp at hx
  | cons y ys ih =>
    intro a x hx
    simp only [List.foldl_cons]
    rcases List.mem_cons.mp hx with rfl | h
    · exact le_trans (le_max_right a x) (foldl_max_ge ys _)
    · exact ih _ x h

theorem foldl_max_le (l : List Nat) : ∀ (a b : Nat), a ≤ b → (∀ x ∈ l, x ≤ b) →
    l.foldl max a ≤ b := by
  induction l with
  | nil => intro a b h _; simpa using h
  | cons y ys ih =>
    intro a b h hl
    simp only [List.foldl_cons]
    exact ih _ b (max_le h (hl y List.mem_cons_self))
      (fun x hx => hl x (List.mem_cons_of_mem _ hx))

theorem le_maxList {l : List Nat} {x : Nat} (h : x ∈ l) : x ≤ maxList l := le_foldl_max l 0 x h

theorem maxList_le {l : List Nat} {b : Nat} (h : ∀ x ∈ l, x ≤ b) : maxList l ≤ b :=
  foldl_max_le l 0 b (Nat.zero_le _) h

/-- a pixel equals the dilation at its place iff no pixel of its (clipped) box exceeds it -/
theorem eq_dilateAt_iff (img : Image) (ks : List Nat) (p : Pos)
    (hself : p ∈ window img.shape ks p) :
    img.pix p = dilateAt img ks p ↔ ∀ q ∈ window img.shape ks p, img.pix q ≤ img.pix p := by
  unfold dilateAt
  constructor
  · intro h q hq
    rw [h]
    exact le_maxList (List.mem_map_of_mem hq)
  · intro h
    apply le_antisymm
    · exact le_maxList (List.mem_map_of_mem hself)
    · apply maxList_le
      intro x hx
      obtain ⟨q, hq, rfl⟩ := List.mem_map.mp hx
      exact h q hq

/-! ## margin -/

/-- `p` keeps the margin: `mᵢ ≤ pᵢ ≤ nᵢ − mᵢ − 1` on every axis -/
def OutsideMargin : List Nat → List Nat → Pos → Prop
  | n :: ns, m :: ms, i :: p => (m ≤ i ∧ i + m + 1 ≤ n) ∧ OutsideMargin ns ms p
  | [], [], [] => True
  | _, _, _ => False

theorem outsideMargin_iff : ∀ (shape margin : List Nat) (p : Pos), margin.length = shape.length →
    p.length = shape.length → (outsideMargin shape margin p = true ↔ OutsideMargin shape margin p)
  | [], [], [], _, _ => by simp [outsideMargin, OutsideMargin]
  | n :: ns, m :: ms, i :: p, h1, h2 => by
    have ih := outsideMargin_iff ns ms p (by simpa using h1) (by simpa using h2)
    simp [outsideMargin, OutsideMargin, ih]
  | [], _ :: _, _, h1, _ => by simp at h1
  | _ :: _, [], _, h1, _ => by simp at h1
  | [], [], _ :: _, _, h2 => by simp at h2
  | _ :: _, _ :: _, [], _, h2 => by simp at h2

/-! ## where_close / drop_close -/

theorem marks_getD (d : List Nat) : ∀ (m : Array Bool) (i : Nat),
    (d.foldl (fun (m : Array Bool) j => m.setIfInBounds j true) m).getD i false
      = (m.getD i false || (decide (i ∈ d) && decide (i < m.size))) := by
  induction d with
  | nil => intro m i; simp
  | cons j js ih =>
    intro m i
    simp only [List.foldl_cons]
    rw [ih (m.setIfInBounds j true) i]
    simp only [Array.getD_eq_getD_getElem?, Array.getElem?_setIfInBounds,
      Array.size_setIfInBounds, List.mem_cons]
    by_cases hji : j = i
    · subst hji
      by_cases hlt : j < m.size
      · simp [hlt]
      · have : m[j]? = none := by simp; omega
        simp [hlt]
    · have hij : ¬ i = j := fun e => hji e.symm
      simp [hji, hij]

theorem mem_uniqueSorted (n : Nat) (d : List Nat) (i : Nat) :
    i ∈ uniqueSorted n d ↔ i < n ∧ i ∈ d := by
  unfold uniqueSorted
  simp only [List.mem_filter, List.mem_range]
  rw [marks_getD]
  simp only [Array.size_replicate, Array.getD_eq_getD_getElem?, Array.getElem?_replicate]
  by_cases h : i < n <;> simp [h]

theorem pair_sublist_of_mem {α} {a b : α} : ∀ {l : List α}, a ∈ l → b ∈ l → a ≠ b →
    [a, b].Sublist l ∨ [b, a].Sublist l
  | [], ha, _, _ => by simp at ha
  | x :: xs, ha, hb, hne => by
    rcases List.mem_cons.mp ha with rfl | ha'
    · rcases List.mem_cons.mp hb with rfl | hb'
      · exact absurd rfl hne
      · left; exact List.cons_sublist_cons.mpr (List.singleton_sublist.mpr hb')
    · rcases List.mem_cons.mp hb with rfl | hb'
      · right; exact List.cons_sublist_cons.mpr (List.singleton_sublist.mpr ha')
      · rcases pair_sublist_of_mem ha' hb' hne with h | h
        · left; exact h.cons _
        · right; exact h.cons _

theorem mem_dropsAux (sep : List Rat) : ∀ (l : List (Nat × Feat)) (d : Nat),
    d ∈ dropsAux sep l ↔
      ∃ a b, [a, b].Sublist l ∧ close sep a.2 b.2 = true ∧ d = pairDrop a b
  | [], d => by simp [dropsAux]
  | x :: rest, d => by
    simp only [dropsAux, List.mem_append, List.mem_filterMap, mem_dropsAux sep rest d]
    constructor
    · rintro (⟨b, hb, hsome⟩ | ⟨a, b, hs, hc, hd⟩)
      · by_cases hc : close sep x.2 b.2 = true
        · rw [if_pos hc] at hsome
          injection hsome with e
          exact ⟨x, b, List.cons_sublist_cons.mpr (List.singleton_sublist.mpr hb), hc, e.symm⟩
        · rw [if_neg hc] at hsome; cases hsome
      · exact ⟨a, b, hs.cons _, hc, hd⟩
    · rintro ⟨a, b, hs, hc, hd⟩
      rcases List.sublist_cons_iff.mp hs with h | ⟨r, hr, hrs⟩
      · right; exact ⟨a, b, h, hc, hd⟩
      · left
        injection hr with e1 e2
        subst e1; subst e2
        exact ⟨b, List.singleton_sublist.mp hrs, by rw [if_pos hc, hd]⟩

theorem indexFrom_map_snd {α} : ∀ (k : Nat) (l : List α), (indexFrom k l).map (fun x => x.2) = l
  | _, [] => rfl
  | k, x :: xs => by simp [indexFrom, indexFrom_map_snd (k + 1) xs]

theorem indexFrom_ge {α} : ∀ (k : Nat) (l : List α) (x : Nat × α), x ∈ indexFrom k l → k ≤ x.1
  | _, [], x, h => by simp [indexFrom] at h
  | k, y :: ys, x, h => by
    simp only [indexFrom, List.mem_cons] at h
    rcases h with rfl | h
    · exact Nat.le_refl _
    · exact Nat.le_of_succ_le (indexFrom_ge (k + 1) ys x h)

theorem indexFrom_lt {α} : ∀ (k : Nat) (l : List α) (x : Nat × α), x ∈ indexFrom k l →
    x.1 < k + l.length
  | _, [], x, h => by simp [indexFrom] at h
  | k, y :: ys, x, h => by
    simp only [indexFrom, List.mem_cons] at h
    rcases h with rfl | h
    · simp
    · have := indexFrom_lt (k + 1) ys x h
      simp only [List.length_cons]; omega

theorem indexFrom_pairwise {α} : ∀ (k : Nat) (l : List α),
    (indexFrom k l).Pairwise (fun a b => a.1 < b.1)
  | _, [] => by simp [indexFrom]
  | k, y :: ys => by
    simp only [indexFrom, List.pairwise_cons]
    exact ⟨fun b hb => indexFrom_ge (k + 1) ys b hb, indexFrom_pairwise (k + 1) ys⟩

theorem mem_indexFrom_snd {α} {k : Nat} {l : List α} {x : Nat × α} (h : x ∈ indexFrom k l) :
    x.2 ∈ l := by
  have := List.mem_map_of_mem (f := fun x : Nat × α => x.2) h
  rwa [indexFrom_map_snd] at this

theorem mem_indexFrom_of_mem {α} : ∀ (k : Nat) (l : List α) (f : α), f ∈ l →
    ∃ i, (i, f) ∈ indexFrom k l
  | _, [], f, h => by simp at h
  | k, y :: ys, f, h => by
    rcases List.mem_cons.mp h with rfl | h'
    · exact ⟨k, by simp [indexFrom]⟩
    · obtain ⟨i, hi⟩ := mem_indexFrom_of_mem (k + 1) ys f h'
      exact ⟨i, by simp [indexFrom, hi]⟩

theorem sublist_pair_lt {α} {k : Nat} {l : List α} {a b : Nat × α}
    (h : [a, b].Sublist (indexFrom k l)) : a.1 < b.1 := by
  have := (indexFrom_pairwise k l).sublist h
  simpa using this

/-- an index occurs once -/
theorem indexFrom_fst_inj {α} {k : Nat} {l : List α} {x y : Nat × α} (hx : x ∈ indexFrom k l)
    (hy : y ∈ indexFrom k l) (h : x.1 = y.1) : x = y := by
  by_contra hne
  rcases pair_sublist_of_mem hx hy hne with h' | h'
  · have := sublist_pair_lt h'; omega
  · have := sublist_pair_lt h'; omega

/-- in a list without repetitions a value occurs at one index -/
theorem indexFrom_snd_inj {α} : ∀ (k : Nat) (l : List α), l.Nodup → ∀ (i j : Nat) (x : α),
    (i, x) ∈ indexFrom k l → (j, x) ∈ indexFrom k l → i = j
  | _, [], _, i, j, x, h, _ => by simp [indexFrom] at h
  | k, y :: ys, hn, i, j, x, hi, hj => by
    simp only [indexFrom, List.mem_cons, Prod.mk.injEq] at hi hj
    have hny : y ∉ ys := (List.nodup_cons.mp hn).1
    rcases hi with ⟨rfl, rfl⟩ | hi
    · rcases hj with ⟨rfl, _⟩ | hj
      · rfl
      · exact absurd (mem_indexFrom_snd hj) hny
    · rcases hj with ⟨rfl, rfl⟩ | hj
      · exact absurd (mem_indexFrom_snd hi) hny
      · exact indexFrom_snd_inj (k + 1) ys (List.nodup_cons.mp hn).2 i j x hi hj

theorem pairDrop_cases (a b : Nat × Feat) :
    (pairDrop a b = a.1 ∧ a.2.inten ≤ b.2.inten) ∨ (pairDrop a b = b.1 ∧ b.2.inten ≤ a.2.inten) := by
  unfold pairDrop
  split_ifs with h1 h2 h3
  · right; exact ⟨rfl, by omega⟩
  · right; exact ⟨rfl, by omega⟩
  · left; exact ⟨rfl, by omega⟩
  · left; exact ⟨rfl, by omega⟩

theorem sepAny_false {sep : List Rat} (hs : ∀ s ∈ sep, s ≠ 0) :
    sep.any (fun s => s == 0) = false := by
  rw [List.any_eq_false]
  intro x hx
  simpa using hs x hx

/-- `where_close` returns exactly the indices selected by `pairDrop` on some close pair -/
theorem mem_whereClose (sep : List Rat) (fs : List Feat) (hs : ∀ s ∈ sep, s ≠ 0) (d : Nat) :
    d ∈ whereClose sep fs ↔
      ∃ a b, [a, b].Sublist (indexFrom 0 fs) ∧ close sep a.2 b.2 = true ∧ d = pairDrop a b := by
  unfold whereClose
  rw [sepAny_false hs]
  simp only [Bool.false_eq_true, if_false, mem_uniqueSorted, mem_dropsAux]
  constructor
  · exact fun h => h.2
  · rintro ⟨a, b, hsub, hc, hd⟩
    refine ⟨?_, a, b, hsub, hc, hd⟩
    have ha := indexFrom_lt 0 fs a (hsub.subset (by simp))
    have hb := indexFrom_lt 0 fs b (hsub.subset (by simp))
    rcases pairDrop_cases a b with ⟨e, _⟩ | ⟨e, _⟩ <;> omega

theorem dist2_comm : ∀ (sep : List Rat) (a b : List Int), dist2 sep a b = dist2 sep b a
  | [], _, _ => by simp [dist2]
  | _ :: _, [], _ => by simp [dist2]
  | _ :: _, _ :: _, [] => by simp [dist2]
  | s :: ss, x :: xs, y :: ys => by
    simp only [dist2, dist2_comm ss xs ys]
    push_cast
    ring

theorem close_comm (sep : List Rat) (f g : Feat) : close sep f g = close sep g f := by
  unfold close
  rw [dist2_comm]

theorem dropClose_sublist (sep : List Rat) (fs : List Feat) : (dropClose sep fs).Sublist fs := by
  unfold dropClose
  have h := (List.filter_sublist (p := fun x : Nat × Feat => !(whereClose sep fs).contains x.1)
    (l := indexFrom 0 fs)).map (fun x => x.2)
  rwa [indexFrom_map_snd] at h

theorem mem_dropClose_of (sep : List Rat) (fs : List Feat) (i : Nat) (f : Feat)
    (hi : (i, f) ∈ indexFrom 0 fs) (hd : i ∉ whereClose sep fs) : f ∈ dropClose sep fs := by
  unfold dropClose
  refine List.mem_map.mpr ⟨(i, f), ?_, rfl⟩
  rw [List.mem_filter]
  refine ⟨hi, ?_⟩
  simpa using hd

/-- no two survivors of `drop_close` are closer than separation -/
theorem dropClose_separated (sep : List Rat) (fs : List Feat) (hs : ∀ s ∈ sep, s ≠ 0)
    (f g : Feat) (h : [f, g].Sublist (dropClose sep fs)) : close sep f g = false := by
  by_contra hc
  have hc' : close sep f g = true := by simpa using hc
  unfold dropClose at h
  obtain ⟨l', hl', e⟩ := List.sublist_map_iff.mp h
  match l', hl', e with
  | [a', b'], hl', e =>
    simp only [List.map_cons, List.map_nil, List.cons.injEq, and_true] at e
    obtain ⟨e1, e2⟩ := e
    have hA : a' ∈ (indexFrom 0 fs).filter (fun x => !(whereClose sep fs).contains x.1) :=
      hl'.subset (by simp)
    have hB : b' ∈ (indexFrom 0 fs).filter (fun x => !(whereClose sep fs).contains x.1) :=
      hl'.subset (by simp)
    rw [List.mem_filter] at hA hB
    have hD : pairDrop a' b' ∈ whereClose sep fs :=
      (mem_whereClose sep fs hs _).mpr
        ⟨a', b', hl'.trans List.filter_sublist, by rw [← e1, ← e2]; exact hc', rfl⟩
    rcases pairDrop_cases a' b' with ⟨e3, _⟩ | ⟨e3, _⟩
    · rw [e3] at hD; simp [hD] at hA
    · rw [e3] at hD; simp [hD] at hB

/-- every index returned by `where_close` has a partner (another index) within separation that is
at least as bright -/
theorem whereClose_justified (sep : List Rat) (fs : List Feat) (hs : ∀ s ∈ sep, s ≠ 0)
    (i : Nat) (f : Feat) (hi : (i, f) ∈ indexFrom 0 fs) (hd : i ∈ whereClose sep fs) :
    ∃ j g, (j, g) ∈ indexFrom 0 fs ∧ j ≠ i ∧ close sep f g = true ∧ f.inten ≤ g.inten := by
  obtain ⟨a, b, hsub, hc, hp⟩ := (mem_whereClose sep fs hs i).mp hd
  have hlt := sublist_pair_lt hsub
  have ha : a ∈ indexFrom 0 fs := hsub.subset (by simp)
  have hb : b ∈ indexFrom 0 fs := hsub.subset (by simp)
  rcases pairDrop_cases a b with ⟨e, hle⟩ | ⟨e, hle⟩
  · have : (i, f) = a := indexFrom_fst_inj hi ha (by simp [hp, e])
    subst this
    exact ⟨b.1, b.2, hb, by simp at hlt; omega, hc, hle⟩
  · have : (i, f) = b := indexFrom_fst_inj hi hb (by simp [hp, e])
    subst this
    exact ⟨a.1, a.2, ha, by simp at hlt; omega, by rw [close_comm]; exact hc, hle⟩

/-! ## the inscribed box -/

theorem largestBelow_spec (P : Nat → Bool) : ∀ b, largestBelow P b = 0 ∨ P (largestBelow P b) = true
  | 0 => Or.inl rfl
  | b + 1 => by
    simp only [largestBelow]
    split
    · right; assumption
    · exact largestBelow_spec P b

theorem largestBelow_max (P : Nat → Bool) : ∀ b k, k ≤ b → P k = true → k ≤ largestBelow P b
  | 0, k, h, _ => by simp at h; simp [h]
  | b + 1, k, h, hk => by
    simp only [largestBelow]
    split
    · exact h
    · rename_i hn
      have : k ≠ b + 1 := fun e => hn (e ▸ hk)
      exact largestBelow_max P b k (by omega) hk

/-- the box size fits: `k²·ndim ≤ 4s²` -/
theorem boxSize_fits (d : Nat) (s : Rat) :
    (((boxSize d s * boxSize d s * d : Nat) : Rat) ≤ 4 * s * s) := by
  unfold boxSize
  rcases largestBelow_spec (boxFits d s) (2 * s).floor.toNat with h | h
  · rw [h]
    have := mul_self_nonneg s
    simp only [Nat.zero_mul, Nat.cast_zero]
    nlinarith
  · simpa [boxFits] using h

/-- maximality: every `k` that fits is at most the box size (`s ≥ 0`, `ndim ≥ 1`) -/
theorem boxSize_max (d : Nat) (hd : 0 < d) (s : Rat) (hs : 0 ≤ s) (k : Nat)
    (hk : ((k * k * d : Nat) : Rat) ≤ 4 * s * s) : k ≤ boxSize d s := by
  unfold boxSize
  apply largestBelow_max
  · -- k ≤ ⌊2s⌋
    have hd1 : (1 : Rat) ≤ d := by exact_mod_cast hd
    push_cast at hk
    have hkk : (k : Rat) * k ≤ 4 * s * s := by
      have : (k : Rat) * k * 1 ≤ (k : Rat) * k * d :=
        mul_le_mul_of_nonneg_left hd1 (mul_self_nonneg _)
      linarith
    have hk2 : (k : Rat) ≤ 2 * s := by
      by_contra hlt
      have hlt := not_le.mp hlt
      have hk0 : (0 : Rat) ≤ k := Nat.cast_nonneg k
      nlinarith
    have : ((k : Int) : Rat) ≤ 2 * s := by exact_mod_cast hk2
    have h3 : (k : Int) ≤ (2 * s).floor := Rat.le_floor_iff.mpr this
    omega
  · simpa [boxFits] using hk

/-- one axis of the inscribed box: an offset of at most `k/2` pixels is at most `s/√ndim` -/
theorem box_term (d : Nat) (hd : 0 < d) (s : Rat) (hs : 0 < s) (i j : Nat)
    (h : i - (boxSize d s - 1) / 2 ≤ j ∧ j ≤ i + boxSize d s / 2) :
    (((Int.ofNat i - Int.ofNat j : Int) : Rat) / s) * (((Int.ofNat i - Int.ofNat j : Int) : Rat) / s)
      ≤ 1 / (d : Rat) := by
  have hk := boxSize_fits d s
  generalize boxSize d s = k at h hk
  push_cast at hk
  simp only [Int.ofNat_eq_natCast]
  have h1 : -((k / 2 : Nat) : Int) ≤ (i : Int) - j ∧ (i : Int) - j ≤ ((k / 2 : Nat) : Int) := by
    constructor <;> omega
  generalize ((i : Int) - (j : Int)) = D at h1
  have h2 : ((k / 2 : Nat) : Rat) ≤ (k : Rat) / 2 := by
    have : 2 * (k / 2) ≤ k := Nat.mul_div_le k 2
    have : ((2 * (k / 2) : Nat) : Rat) ≤ (k : Rat) := Nat.cast_le.mpr this
    push_cast at this
    linarith
  have h3 : (D : Rat) ≤ (k : Rat) / 2 := by
    have : (D : Rat) ≤ (((k / 2 : Nat) : Int) : Rat) := Int.cast_le.mpr h1.2
    rw [Int.cast_natCast] at this
    linarith
  have h4 : -((k : Rat) / 2) ≤ (D : Rat) := by
    have : ((-((k / 2 : Nat) : Int) : Int) : Rat) ≤ (D : Rat) := Int.cast_le.mpr h1.1
    rw [Int.cast_neg, Int.cast_natCast] at this
    linarith
  have h5 : (D : Rat) * D ≤ (k : Rat) / 2 * ((k : Rat) / 2) := by nlinarith
  have hdpos : (0 : Rat) < d := by exact_mod_cast hd
  rw [div_mul_div_comm, div_le_div_iff₀ (by positivity) hdpos]
  have h6 : (D : Rat) * D * d ≤ (k : Rat) / 2 * ((k : Rat) / 2) * d :=
    mul_le_mul_of_nonneg_right h5 (le_of_lt hdpos)
  linarith

/-- the box lies inside the ellipse: summed over the axes of `sep`, each contributing `≤ 1/d` -/
theorem box_dist2_le (d : Nat) (hd : 0 < d) : ∀ (sep : List Rat) (shape : List Nat) (p q : Pos),
    (∀ s ∈ sep, 0 < s) → InBox shape (sep.map (boxSize d)) p q →
    dist2 sep (p.map Int.ofNat) (q.map Int.ofNat) ≤ (sep.length : Rat) / d
  | [], shape, p, q, _, _ => by simp [dist2]
  | s :: ss, [], p, q, _, h => by simp [InBox] at h
  | s :: ss, n :: ns, [], q, _, h => by simp [InBox] at h
  | s :: ss, n :: ns, i :: p, [], _, h => by simp [InBox] at h
  | s :: ss, n :: ns, i :: p, j :: q, hpos, h => by
    simp only [List.map_cons, InBox] at h
    have ih := box_dist2_le d hd ss ns p q (fun x hx => hpos x (List.mem_cons_of_mem _ hx)) h.2
    have ht := box_term d hd s (hpos s List.mem_cons_self) i j ⟨h.1.1, h.1.2.1⟩
    simp only [List.map_cons, dist2, List.length_cons]
    have e : (((ss.length + 1 : Nat) : Rat)) / d = 1 / d + (ss.length : Rat) / d := by
      push_cast; ring
    rw [e]
    exact add_le_add ht ih

/-! ## candidates and the top-level function -/

theorem wellFormed_iff (img : Image) (sep : List Rat) (margin : List Nat) :
    wellFormed img sep margin = true ↔
      0 < img.shape.length ∧ sep.length = img.shape.length ∧ margin.length = img.shape.length
        ∧ img.data.size = img.shape.foldl (· * ·) 1
        ∧ ∀ s ∈ sep, 0 < s ∧ 1 ≤ boxSize img.shape.length s := by
  simp [wellFormed, List.all_eq_true, and_assoc]

theorem InImage.length_eq {shape : List Nat} {p : Pos} (h : InImage shape p) :
    p.length = shape.length := All2.length_eq h

/-- membership in the candidate list (find.py:116-127), clause by clause -/
theorem mem_candidates (img : Image) (ks margin : List Nat) (thr : Rat) (p : Pos)
    (hk : ks.length = img.shape.length) (hm : margin.length = img.shape.length) :
    p ∈ candidates img ks thr margin ↔
      InImage img.shape p ∧ thr < (img.pix p : Rat)
        ∧ (∀ q, InBox img.shape ks p q → img.pix q ≤ img.pix p)
        ∧ OutsideMargin img.shape margin p := by
  unfold candidates
  simp only [List.mem_filter, mem_allIdx]
  constructor
  · rintro ⟨⟨hin, hmax⟩, hmar⟩
    have hlen := hin.length_eq
    have hself : p ∈ window img.shape ks p :=
      (mem_window _ _ _ _ hk hlen).mpr (InBox.self _ _ _ hk hin)
    simp only [isMax, Bool.and_eq_true, decide_eq_true_eq, beq_iff_eq] at hmax
    refine ⟨hin, hmax.1, ?_, (outsideMargin_iff _ _ _ hm hlen).mp hmar⟩
    intro q hq
    exact (eq_dilateAt_iff img ks p hself).mp hmax.2 q ((mem_window _ _ _ _ hk hlen).mpr hq)
  · rintro ⟨hin, hthr, hbox, hmar⟩
    have hlen := hin.length_eq
    have hself : p ∈ window img.shape ks p :=
      (mem_window _ _ _ _ hk hlen).mpr (InBox.self _ _ _ hk hin)
    refine ⟨⟨hin, ?_⟩, (outsideMargin_iff _ _ _ hm hlen).mpr hmar⟩
    simp only [isMax, Bool.and_eq_true, decide_eq_true_eq, beq_iff_eq]
    refine ⟨hthr, (eq_dilateAt_iff img ks p hself).mpr ?_⟩
    intro q hq
    exact hbox q ((mem_window _ _ _ _ hk hlen).mp hq)

theorem candidates_nodup (img : Image) (ks margin : List Nat) (thr : Rat) :
    (candidates img ks thr margin).Nodup :=
  ((allIdx_nodup img.shape).filter _).filter _

/-- what a successful run of `greyDilationK` computed -/
theorem greyDilationK_some {key : Pos → Rat} {img : Image} {sep : List Rat} {pct : Rat}
    {margin? : Option (List Nat)} {precise : Bool} {R : List Pos}
    (h : greyDilationK key img sep pct margin? precise = some R) :
    wellFormed img sep (margin?.getD (defaultMargin sep)) = true ∧
      ((percentileThr img pct = none ∧ R = []) ∨
        ∃ thr, percentileThr img pct = some thr ∧
          R = if precise then
                (dropClose sep ((candidates img (sep.map (boxSize img.shape.length)) thr
                  (margin?.getD (defaultMargin sep))).map (featOf img key))).map toPos
              else candidates img (sep.map (boxSize img.shape.length)) thr
                  (margin?.getD (defaultMargin sep))) := by
  unfold greyDilationK at h
  simp only at h
  by_cases hw : wellFormed img sep (margin?.getD (defaultMargin sep)) = true
  · simp only [hw, Bool.not_true, Bool.false_eq_true, if_false] at h
    refine ⟨hw, ?_⟩
    cases hp : percentileThr img pct with
    | none => rw [hp] at h; simp at h; exact Or.inl ⟨rfl, h⟩
    | some thr =>
      rw [hp] at h
      right
      refine ⟨thr, rfl, ?_⟩
      cases precise <;> simp at h <;> simp [h]
  · simp [hw] at h

theorem toPos_featOf (img : Image) (key : Pos → Rat) (p : Pos) : toPos (featOf img key p) = p := by
  simp only [toPos, featOf, List.map_map]
  induction p with
  | nil => rfl
  | cons a as ih => simp only [List.map_cons, Function.comp_apply]; rw [ih]; rfl

theorem percentileOf_none_iff (xs : List Nat) (pct : Rat) : percentileOf xs pct = none ↔ xs = [] := by
  unfold percentileOf
  by_cases h : xs.length = 0
  · simp [List.length_eq_zero_iff.mp h]
  · have : xs ≠ [] := fun e => h (by simp [e])
    simp [h, this]

end TrackpyV.Find
