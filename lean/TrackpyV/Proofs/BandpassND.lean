import TrackpyV.Proofs.Bandpass
/-!
n-dimensional pixel view of the axis-by-axis passes: for an image of any shape, pixel `ix` of
`passes shape Fs img` is obtained by nesting the 1-D filters, axis 0 innermost (`sem`).
-/
namespace TrackpyV.Bandpass

/-- `ix` is a multi-index into shape `sh` -/
def Valid : List Nat → List Nat → Prop
  | n :: rest, i :: is => i < n ∧ Valid rest is
  | [], [] => True
  | [], _ :: _ => False
  | _ :: _, [] => False

/-- the per-axis filters nested: axis 0 is applied first (innermost), the last axis last -/
def sem : List Nat → List Filt → (List Nat → Rat) → List Nat → Rat
  | n :: rest, F :: Fs, g, i :: is => sem rest Fs (fun js => F.apply n i (fun t => g (t :: js))) is
  | [], _, g, ix => g ix
  | _ :: _, [], g, ix => g ix
  | _ :: _, _ :: _, g, [] => g []

theorem flat_lt : ∀ {sh ix : List Nat}, Valid sh ix → flat sh ix < sh.prod
  | [], [], _ => by simp [flat]
  | [], _ :: _, h => by simp [Valid] at h
  | _ :: _, [], h => by simp [Valid] at h
  | n :: rest, i :: is, h => by
    simp only [Valid] at h
    have ih := flat_lt h.2
    simp only [flat, List.prod_cons]
    have h1 : i * rest.prod + flat rest is < (i + 1) * rest.prod := by
      rw [Nat.add_mul, Nat.one_mul]; omega
    exact Nat.lt_of_lt_of_le h1 (Nat.mul_le_mul_right _ h.1)

theorem sem_congr : ∀ (sh : List Nat) (Fs : List Filt) (_ : ∀ F, F ∈ Fs → SrcOK F)
    (g g' : List Nat → Rat) (ix : List Nat), Valid sh ix →
    (∀ js, Valid sh js → g js = g' js) → sem sh Fs g ix = sem sh Fs g' ix
  | [], Fs, _, g, g', ix, hv, h => by
    cases ix with
    | nil => simp only [sem]; exact h [] hv
    | cons _ _ => simp [Valid] at hv
  | _ :: _, _, _, _, _, [], hv, _ => by simp [Valid] at hv
  | n :: rest, [], _, g, g', i :: is, hv, h => by simp only [sem]; exact h _ hv
  | n :: rest, F :: Fs, hF, g, g', i :: is, hv, h => by
    simp only [sem]
    simp only [Valid] at hv
    apply sem_congr rest Fs (fun F' hF' => hF F' (List.mem_cons_of_mem _ hF')) _ _ is hv.2
    intro js hjs
    apply apply_congr (hF F (List.mem_cons_self)) hv.1
    intro t ht
    exact h (t :: js) ⟨ht, hjs⟩

/-- one axis pass seen from inside block `o` of an array made of blocks of `n` lines of stride `R` -/
theorem axisPass_get (F : Filt) {R n o i f : Nat} {xs : Array Rat} (hi : i < n) (hf : f < R)
    (hsz : (o * n + i) * R + f < xs.size) :
    get (axisPass F R n xs) ((o * n + i) * R + f) =
      F.apply n i (fun t => get xs ((o * n + t) * R + f)) := by
  unfold axisPass
  rw [get_tab_lt _ hsz]
  have h1 : ((o * n + i) * R + f) / R = o * n + i := idx_div hf
  have h2 : (o * n + i) % n = i := by
    rw [Nat.add_comm, Nat.add_mul_mod_self_right, Nat.mod_eq_of_lt hi]
  simp only [h1, h2]
  congr 1; funext t
  congr 1
  rw [Nat.add_mul, Nat.add_mul]
  omega

/-- **n-D pixel view**: in an array made of `O` images of shape `sh`, pixel `ix` of image `o` after
    all axis passes is the nesting of the 1-D filters over the pixels of image `o` before -/
theorem passes_get : ∀ (sh : List Nat) (Fs : List Filt) (_ : ∀ F, F ∈ Fs → SrcOK F)
    (xs : Array Rat) (O o : Nat) (ix : List Nat), xs.size = O * sh.prod → o < O → Valid sh ix →
    get (passes sh Fs xs) (o * sh.prod + flat sh ix) =
      sem sh Fs (fun js => get xs (o * sh.prod + flat sh js)) ix
  | [], Fs, _, xs, O, o, ix, _, _, hv => by
    cases ix with
    | nil => cases Fs <;> simp [passes, sem]
    | cons _ _ => simp [Valid] at hv
  | _ :: _, _, _, _, _, _, [], _, _, hv => by simp [Valid] at hv
  | n :: rest, [], _, xs, O, o, i :: is, _, _, _ => by simp [passes, sem]
  | n :: rest, F :: Fs, hF, xs, O, o, i :: is, hsz, ho, hv => by
    simp only [Valid] at hv
    simp only [passes, sem, flat, List.prod_cons]
    have hf := flat_lt hv.2
    have e : ∀ t f, o * (n * rest.prod) + (t * rest.prod + f) = (o * n + t) * rest.prod + f := by
      intro t f; rw [Nat.add_mul, Nat.mul_assoc]; omega
    simp only [e]
    have hY : (axisPass F rest.prod n xs).size = (O * n) * rest.prod := by
      rw [size_axisPass, hsz, List.prod_cons, Nat.mul_assoc]
    have ho' : o * n + i < O * n := by
      have : o * n + i < (o + 1) * n := by rw [Nat.add_mul, Nat.one_mul]; omega
      exact Nat.lt_of_lt_of_le this (Nat.mul_le_mul_right _ ho)
    rw [passes_get rest Fs (fun F' hF' => hF F' (List.mem_cons_of_mem _ hF')) _ (O * n) (o * n + i)
      is hY ho' hv.2]
    apply sem_congr rest Fs (fun F' hF' => hF F' (List.mem_cons_of_mem _ hF')) _ _ is hv.2
    intro js hjs
    have hfj := flat_lt hjs
    apply axisPass_get F hv.1 hfj
    rw [hsz, List.prod_cons, ← Nat.mul_assoc]
    have : (o * n + i) * rest.prod + flat rest js < (o * n + i + 1) * rest.prod := by
      rw [Nat.add_mul (o * n + i) 1, Nat.one_mul]; omega
    exact Nat.lt_of_lt_of_le this (Nat.mul_le_mul_right _ ho')

/-- the same for a single image -/
theorem pxN_passes (sh : List Nat) (Fs : List Filt) (hF : ∀ F, F ∈ Fs → SrcOK F) (xs : Array Rat)
    (hsz : xs.size = sh.prod) (ix : List Nat) (hv : Valid sh ix) :
    pxN sh (passes sh Fs xs) ix = sem sh Fs (pxN sh xs) ix := by
  have := passes_get sh Fs hF xs 1 0 ix (by simpa using hsz) (by omega) hv
  simp only [Nat.zero_mul, Nat.zero_add] at this
  exact this


/-! ## linearity of the nested filters -/

theorem apply_sumTo (F : Filt) (n i K : Nat) (a : Nat → Rat) (h : Nat → Nat → Rat) :
    F.apply n i (fun t => sumTo K (fun l => a l * h l t)) =
      sumTo K (fun l => a l * F.apply n i (h l)) := by
  unfold Filt.apply
  have : ∀ j, F.wt j * sample (fun t => sumTo K (fun l => a l * h l t)) (F.src n i j) =
      sumTo K (fun l => a l * (F.wt j * sample (h l) (F.src n i j))) := by
    intro j
    rw [sample_sumTo, ← sumTo_mul_left]
    apply sumTo_congr; intro l _; ring
  rw [sumTo_congr (fun j _ => this j), sumTo_comm]
  apply sumTo_congr; intro l _
  rw [sumTo_mul_left]

theorem sem_linear : ∀ (sh : List Nat) (Fs : List Filt) (K : Nat) (a : Nat → Rat)
    (h : Nat → List Nat → Rat) (ix : List Nat),
    sem sh Fs (fun js => sumTo K (fun l => a l * h l js)) ix =
      sumTo K (fun l => a l * sem sh Fs (h l) ix)
  | [], _, _, _, _, _ => by simp only [sem]
  | _ :: _, [], _, _, _, _ => by simp only [sem]
  | _ :: _, _ :: _, _, _, _, [] => by simp only [sem]
  | n :: rest, F :: Fs, K, a, h, i :: is => by
    simp only [sem]
    have : (fun js => F.apply n i (fun t => sumTo K (fun l => a l * h l (t :: js)))) =
        (fun js => sumTo K (fun l => a l * F.apply n i (fun t => h l (t :: js)))) := by
      funext js; exact apply_sumTo F n i K a (fun l t => h l (t :: js))
    rw [this]
    exact sem_linear rest Fs K a (fun l js => F.apply n i (fun t => h l (t :: js))) is

theorem sem_zero (sh : List Nat) (Fs : List Filt) (ix : List Nat) :
    sem sh Fs (fun _ => 0) ix = 0 := by
  have := sem_linear sh Fs 0 (fun _ => 0) (fun _ _ => 0) ix
  simpa [sumTo] using this

theorem sem_extZ (sh : List Nat) (Fs : List Filt) (n : Nat) (g : Nat → List Nat → Rat) (z : Int)
    (ix : List Nat) :
    sem sh Fs (fun js => extZ n (fun t => g t js) z) ix =
      extZ n (fun t => sem sh Fs (g t) ix) z := by
  unfold extZ
  split
  · rfl
  · exact sem_zero sh Fs ix

/-! ## n-D correlation with the outer-product kernel, zero extension -/

/-- kernels in force, paired as `zipFilt` pairs them -/
def effKernels : List Rat → List (Array Rat) → List (Array Rat)
  | s :: ss, k :: ks => effKernel s k :: effKernels ss ks
  | [], _ => []
  | _ :: _, [] => []

/-- the n-fold sum `Σ_{a₀} k₀[a₀] · Σ_{a₁} k₁[a₁] · … g(i₀ + a₀ − c₀, i₁ + a₁ − c₁, …)` over the image
    `g` extended by zeros beyond its border on every axis (`cₐ = ⌊len kₐ / 2⌋`); axes without a
    kernel are left alone -/
def corrSum : List (Array Rat) → List Nat → (List Nat → Rat) → List Nat → Rat
  | k :: ks, n :: sh, g, i :: is =>
      sumTo k.size (fun a => get k a *
        extZ n (fun t => corrSum ks sh (fun js => g (t :: js)) is)
          ((i : Int) + (a : Int) - ((k.size / 2 : Nat) : Int)))
  | [], _, g, ix => g ix
  | _ :: _, [], g, ix => g ix
  | _ :: _, _ :: _, g, [] => g []

theorem zipFilt_nil_right (ss : List Rat) : zipFilt ss [] = [] := by cases ss <;> rfl

theorem sem_lowpass : ∀ (sh : List Nat) (ss : List Rat) (ks : List (Array Rat))
    (g : List Nat → Rat) (ix : List Nat), Valid sh ix →
    sem sh (zipFilt ss ks) g ix = corrSum (effKernels ss ks) sh g ix
  | [], ss, ks, g, ix, _ => by
    cases h : effKernels ss ks <;> simp [sem, corrSum]
  | _ :: _, _, _, _, [], hv => by simp [Valid] at hv
  | n :: rest, [], ks, g, i :: is, _ => by simp [zipFilt, effKernels, sem, corrSum]
  | n :: rest, s :: ss, [], g, i :: is, _ => by simp [zipFilt, effKernels, sem, corrSum]
  | n :: rest, s :: ss, k :: ks, g, i :: is, hv => by
    simp only [Valid] at hv
    simp only [zipFilt, effKernels, sem, corrSum]
    have : (fun js => (lowFilt s k).apply n i (fun t => g (t :: js))) =
        (fun js => sumTo (effKernel s k).size (fun a => get (effKernel s k) a *
          extZ n (fun t => g (t :: js))
            ((i : Int) + (a : Int) - (((effKernel s k).size / 2 : Nat) : Int)))) := by
      funext js
      rw [lowFilt_apply s k hv.1]
      unfold Filt.apply
      apply sumTo_congr; intro a _
      rw [sample_corr]; rfl
    rw [this, sem_linear]
    apply sumTo_congr; intro a _
    rw [sem_extZ rest (zipFilt ss ks) n (fun t js => g (t :: js))]
    congr 2
    funext t
    exact sem_lowpass rest ss ks (fun js => g (t :: js)) is hv.2

/-! ## n-D box mean, edge replication -/

/-- box sides in force -/
def effSizes (ls : List Int) : List Nat := ls.map effSize

/-- `Π m` as a rational -/
def prodQ : List Nat → Rat
  | [] => 1
  | m :: ms => (m : Rat) * prodQ ms

/-- the n-fold sum of the pixels of the edge-replicated image `g` in the box of sides `ms` centred
    on `ix`; axes without a size are left alone -/
def boxSum : List Nat → List Nat → (List Nat → Rat) → List Nat → Rat
  | m :: ms, n :: sh, g, i :: is =>
      sumTo m (fun a => boxSum ms sh
        (fun js => g (clampI n ((i : Int) + (a : Int) - ((m / 2 : Nat) : Int)) :: js)) is)
  | [], _, g, ix => g ix
  | _ :: _, [], g, ix => g ix
  | _ :: _, _ :: _, g, [] => g []

theorem sem_boxcar : ∀ (sh : List Nat) (ls : List Int) (g : List Nat → Rat) (ix : List Nat),
    Valid sh ix → ls.length ≤ sh.length →
    sem sh (ls.map boxFilt) g ix = boxSum (effSizes ls) sh g ix / prodQ (effSizes ls)
  | [], ls, g, ix, _, hl => by
    have : ls = [] := by cases ls with
      | nil => rfl
      | cons _ _ => simp at hl
    subst this; simp [sem, boxSum, effSizes, prodQ]
  | _ :: _, _, _, [], hv, _ => by simp [Valid] at hv
  | n :: rest, [], g, i :: is, _, _ => by simp [sem, boxSum, effSizes, prodQ]
  | n :: rest, l :: ls, g, i :: is, hv, hl => by
    simp only [Valid] at hv
    simp only [List.map, effSizes, sem, boxSum, prodQ]
    have : (fun js => (boxFilt l).apply n i (fun t => g (t :: js))) =
        (fun js => sumTo (effSize l) (fun a => (1 / (effSize l : Rat)) *
          g (clampI n ((i : Int) + (a : Int) - ((effSize l / 2 : Nat) : Int)) :: js))) := by
      funext js
      rw [boxFilt_apply l hv.1]
      unfold Filt.apply
      apply sumTo_congr; intro a _
      rw [sample_unif]; rfl
    rw [this, sem_linear, sumTo_mul_left]
    have ih : ∀ a : Nat, sem rest (ls.map boxFilt)
        (fun js => g (clampI n ((i : Int) + (a : Int) - ((effSize l / 2 : Nat) : Int)) :: js)) is =
        boxSum (effSizes ls) rest
          (fun js => g (clampI n ((i : Int) + (a : Int) - ((effSize l / 2 : Nat) : Int)) :: js)) is
          / prodQ (effSizes ls) := by
      intro a
      exact sem_boxcar rest ls _ is hv.2 (by simpa using hl)
    simp only [ih, effSizes]
    simp only [div_eq_mul_inv, mul_inv]
    rw [sumTo_mul_right]
    ring


theorem srcOK_zipFilt : ∀ (ss : List Rat) (ks : List (Array Rat)) (F : Filt),
    F ∈ zipFilt ss ks → SrcOK F
  | [], _, F, h => by simp [zipFilt] at h
  | _ :: _, [], F, h => by simp [zipFilt] at h
  | s :: ss, k :: ks, F, h => by
    simp only [zipFilt, List.mem_cons] at h
    rcases h with rfl | h
    · exact srcOK_lowFilt s k
    · exact srcOK_zipFilt ss ks F h

theorem srcOK_mapBox (ls : List Int) (F : Filt) (h : F ∈ ls.map boxFilt) : SrcOK F := by
  simp only [List.mem_map] at h
  rcases h with ⟨l, _, rfl⟩
  exact srcOK_boxFilt l

/-! ## exchanging two adjacent axes -/

theorem swapAt_swapAt {α : Type} : ∀ (k : Nat) (l : List α), swapAt k (swapAt k l) = l
  | 0, [] => rfl
  | 0, [_] => rfl
  | 0, _ :: _ :: _ => rfl
  | _ + 1, [] => rfl
  | k + 1, a :: l => by simp [swapAt, swapAt_swapAt k l]

@[simp] theorem length_swapAt {α : Type} : ∀ (k : Nat) (l : List α), (swapAt k l).length = l.length
  | 0, [] => rfl
  | 0, [_] => rfl
  | 0, _ :: _ :: _ => by simp [swapAt]
  | _ + 1, [] => rfl
  | k + 1, a :: l => by simp [swapAt, length_swapAt k l]

theorem mem_swapAt {α : Type} : ∀ (k : Nat) (l : List α) (x : α), x ∈ swapAt k l ↔ x ∈ l
  | 0, [], _ => Iff.rfl
  | 0, [_], _ => Iff.rfl
  | 0, a :: b :: l, x => by simp only [swapAt, List.mem_cons]; tauto
  | _ + 1, [], _ => Iff.rfl
  | k + 1, a :: l, x => by simp only [swapAt, List.mem_cons, mem_swapAt k l x]

theorem prod_swapAt : ∀ (k : Nat) (l : List Nat), (swapAt k l).prod = l.prod
  | 0, [] => rfl
  | 0, [_] => rfl
  | 0, a :: b :: l => by simp only [swapAt, List.prod_cons]; rw [← Nat.mul_assoc, ← Nat.mul_assoc, Nat.mul_comm b a]
  | _ + 1, [] => rfl
  | k + 1, a :: l => by simp only [swapAt, List.prod_cons, prod_swapAt k l]

theorem map_swapAt {α β : Type} (f : α → β) : ∀ (k : Nat) (l : List α),
    (swapAt k l).map f = swapAt k (l.map f)
  | 0, [] => rfl
  | 0, [_] => rfl
  | 0, _ :: _ :: _ => rfl
  | _ + 1, [] => rfl
  | k + 1, a :: l => by simp only [swapAt, List.map, map_swapAt f k l]

theorem valid_swapAt : ∀ (k : Nat) (sh ix : List Nat), Valid sh ix →
    Valid (swapAt k sh) (swapAt k ix)
  | _, [], [], h => by cases ‹Nat› <;> simpa [swapAt] using h
  | _, [], _ :: _, h => by simp [Valid] at h
  | _, _ :: _, [], h => by simp [Valid] at h
  | 0, [n], [i], h => by simpa [swapAt] using h
  | 0, [_], _ :: _ :: _, h => by simp [Valid] at h
  | 0, _ :: _ :: _, [_], h => by simp [Valid] at h
  | 0, n1 :: n2 :: sh, i1 :: i2 :: ix, h => by
    simp only [Valid] at h
    simp only [swapAt, Valid]
    exact ⟨h.2.1, h.1, h.2.2⟩
  | k + 1, n :: sh, i :: ix, h => by
    simp only [Valid] at h
    simp only [swapAt, Valid]
    exact ⟨h.1, valid_swapAt k sh ix h.2⟩

theorem valid_length : ∀ {sh ix : List Nat}, Valid sh ix → ix.length = sh.length
  | [], [], _ => rfl
  | [], _ :: _, h => by simp [Valid] at h
  | _ :: _, [], h => by simp [Valid] at h
  | _ :: sh, _ :: ix, h => by
    simp only [Valid] at h
    simp [valid_length h.2]

/-- exchanging two adjacent axes everywhere (shape, filters, image, pixel index) does not change
    the nested filter value: passes along different axes commute (`apply_comm`) -/
theorem sem_swapAt : ∀ (k : Nat) (sh : List Nat) (Fs : List Filt) (g : List Nat → Rat)
    (ix : List Nat), Fs.length = sh.length → ix.length = sh.length →
    sem (swapAt k sh) (swapAt k Fs) (fun js => g (swapAt k js)) (swapAt k ix) = sem sh Fs g ix
  | 0, [], [], g, [], _, _ => by simp [swapAt, sem]
  | 0, [n], [F], g, [i], _, _ => by simp [swapAt, sem]
  | 0, n1 :: n2 :: sh, F1 :: F2 :: Fs, g, i1 :: i2 :: ix, _, _ => by
    simp only [swapAt, sem]
    congr 1
    funext js
    exact apply_comm F1 F2 n1 i1 n2 i2 (fun t1 t2 => g (t1 :: t2 :: js))
  | k + 1, [], [], g, [], _, _ => by simp [swapAt, sem]
  | k + 1, n :: sh, F :: Fs, g, i :: ix, hF, hi => by
    simp only [swapAt, sem]
    have := sem_swapAt k sh Fs (fun js => F.apply n i (fun t => g (t :: js))) ix
      (by simpa using hF) (by simpa using hi)
    rw [← this]
  | 0, [], _ :: _, _, _, hF, _ => by simp at hF
  | 0, _ :: _, [], _, _, hF, _ => by simp at hF
  | 0, [], _, _, _ :: _, _, hi => by simp at hi
  | 0, _ :: _, _, _, [], _, hi => by simp at hi
  | 0, [_], _ :: _ :: _, _, _, hF, _ => by simp at hF
  | 0, [_], _, _, _ :: _ :: _, _, hi => by simp at hi
  | 0, _ :: _ :: _, [_], _, _, hF, _ => by simp at hF
  | 0, _ :: _ :: _, _, _, [_], _, hi => by simp at hi
  | _ + 1, [], _ :: _, _, _, hF, _ => by simp at hF
  | _ + 1, _ :: _, [], _, _, hF, _ => by simp at hF
  | _ + 1, [], _, _, _ :: _, _, hi => by simp at hi
  | _ + 1, _ :: _, _, _, [], _, hi => by simp at hi

/-- `img'` is `img` with axes `k` and `k+1` exchanged -/
def IsSwap (k : Nat) (sh : List Nat) (img img' : Array Rat) : Prop :=
  img.size = sh.prod ∧ img'.size = sh.prod ∧
  ∀ ix, Valid sh ix → pxN (swapAt k sh) img' (swapAt k ix) = pxN sh img ix

/-- the axis passes of the axis-exchanged image, with the per-axis filters exchanged likewise,
    give the axis-exchanged result -/
theorem passes_swapAt (k : Nat) (sh : List Nat) (Fs : List Filt) (hF : ∀ F, F ∈ Fs → SrcOK F)
    (hlen : Fs.length = sh.length) (img img' : Array Rat) (h : IsSwap k sh img img') :
    IsSwap k sh (passes sh Fs img) (passes (swapAt k sh) (swapAt k Fs) img') := by
  refine ⟨by simpa using h.1, by simpa using h.2.1, ?_⟩
  intro ix hv
  have hF' : ∀ F, F ∈ swapAt k Fs → SrcOK F := fun F hm => hF F ((mem_swapAt k Fs F).mp hm)
  rw [pxN_passes sh Fs hF img h.1 ix hv,
    pxN_passes (swapAt k sh) (swapAt k Fs) hF' img' (by rw [prod_swapAt]; exact h.2.1) _
      (valid_swapAt k sh ix hv)]
  rw [← sem_swapAt k sh Fs (pxN sh img) ix hlen (valid_length hv)]
  apply sem_congr _ _ hF' _ _ _ (valid_swapAt k sh ix hv)
  intro js hjs
  have hv' : Valid sh (swapAt k js) := by
    have := valid_swapAt k (swapAt k sh) js hjs
    rwa [swapAt_swapAt] at this
  have := h.2.2 (swapAt k js) hv'
  rwa [swapAt_swapAt] at this


theorem zipFilt_swapAt : ∀ (k : Nat) (ss : List Rat) (ks : List (Array Rat)),
    ss.length = ks.length → zipFilt (swapAt k ss) (swapAt k ks) = swapAt k (zipFilt ss ks)
  | 0, [], [], _ => rfl
  | 0, [_], [_], _ => rfl
  | 0, _ :: _ :: _, _ :: _ :: _, _ => rfl
  | _ + 1, [], [], _ => rfl
  | k + 1, s :: ss, c :: ks, h => by
    simp only [swapAt, zipFilt, zipFilt_swapAt k ss ks (by simpa using h)]
  | 0, [], _ :: _, h => by simp at h
  | 0, _ :: _, [], h => by simp at h
  | 0, [_], _ :: _ :: _, h => by simp at h
  | 0, _ :: _ :: _, [_], h => by simp at h
  | _ + 1, [], _ :: _, h => by simp at h
  | _ + 1, _ :: _, [], h => by simp at h

theorem length_zipFilt : ∀ (ss : List Rat) (ks : List (Array Rat)),
    ss.length = ks.length → (zipFilt ss ks).length = ss.length
  | [], [], _ => rfl
  | s :: ss, c :: ks, h => by simp [zipFilt, length_zipFilt ss ks (by simpa using h)]
  | [], _ :: _, h => by simp at h
  | _ :: _, [], h => by simp at h

theorem scaleClash_swapAt : ∀ (k : Nat) (ss : List Rat) (ls : List Int),
    ss.length = ls.length → scaleClash (swapAt k ss) (swapAt k ls) = scaleClash ss ls
  | 0, [], [], _ => rfl
  | 0, [_], [_], _ => rfl
  | 0, s1 :: s2 :: ss, l1 :: l2 :: ls, _ => by
    simp only [swapAt, scaleClash]
    rw [← Bool.or_assoc, ← Bool.or_assoc, Bool.or_comm (decide _) (decide _)]
  | _ + 1, [], [], _ => rfl
  | k + 1, s :: ss, l :: ls, h => by
    simp only [swapAt, scaleClash, scaleClash_swapAt k ss ls (by simpa using h)]
  | 0, [], _ :: _, h => by simp at h
  | 0, _ :: _, [], h => by simp at h
  | 0, [_], _ :: _ :: _, h => by simp at h
  | 0, _ :: _ :: _, [_], h => by simp at h
  | _ + 1, [], _ :: _, h => by simp at h
  | _ + 1, _ :: _, [], h => by simp at h

theorem all_swapAt {α : Type} (p : α → Bool) : ∀ (k : Nat) (l : List α),
    (swapAt k l).all p = l.all p
  | 0, [] => rfl
  | 0, [_] => rfl
  | 0, a :: b :: l => by
    simp only [swapAt, List.all_cons]
    rw [← Bool.and_assoc, ← Bool.and_assoc, Bool.and_comm (p b) (p a)]
  | _ + 1, [] => rfl
  | k + 1, a :: l => by simp only [swapAt, List.all_cons, all_swapAt p k l]

theorem isSwap_subArr {k : Nat} {sh : List Nat} {a a' b b' : Array Rat}
    (ha : IsSwap k sh a a') (hb : IsSwap k sh b b') : IsSwap k sh (subArr a b) (subArr a' b') := by
  refine ⟨by simpa using ha.1, by simpa using ha.2.1, ?_⟩
  intro ix hv
  have h1 : flat sh ix < a.size := by rw [ha.1]; exact flat_lt hv
  have h2 : flat (swapAt k sh) (swapAt k ix) < a'.size := by
    rw [ha.2.1, ← prod_swapAt k sh]; exact flat_lt (valid_swapAt k sh ix hv)
  unfold pxN subArr
  rw [get_tab_lt _ h1, get_tab_lt _ h2]
  have e1 := ha.2.2 ix hv
  have e2 := hb.2.2 ix hv
  unfold pxN at e1 e2
  rw [e1, e2]

theorem isSwap_map {k : Nat} {sh : List Nat} {a a' : Array Rat} (f : Rat → Rat) (hf : f 0 = 0)
    (ha : IsSwap k sh a a') : IsSwap k sh (a.map f) (a'.map f) := by
  refine ⟨by simpa using ha.1, by simpa using ha.2.1, ?_⟩
  intro ix hv
  have e1 := ha.2.2 ix hv
  unfold pxN at e1 ⊢
  rw [get_map f hf, get_map f hf, e1]


/-! ## an axis-exchanged image exists for every image (so `IsSwap` is never vacuous) -/

theorem unflat_flat : ∀ {sh ix : List Nat}, Valid sh ix → unflat sh (flat sh ix) = ix
  | [], [], _ => rfl
  | [], _ :: _, h => by simp [Valid] at h
  | _ :: _, [], h => by simp [Valid] at h
  | n :: rest, i :: is, h => by
    simp only [Valid] at h
    have hf := flat_lt h.2
    simp only [unflat, flat, idx_div hf, idx_mod hf, Nat.mod_eq_of_lt h.1, unflat_flat h.2]

theorem isSwap_swapImg (k : Nat) (sh : List Nat) (img : Array Rat) (hsz : img.size = sh.prod) :
    IsSwap k sh img (swapImg k sh img) := by
  refine ⟨hsz, by simp [swapImg], ?_⟩
  intro ix hv
  have hv' := valid_swapAt k sh ix hv
  have hlt : flat (swapAt k sh) (swapAt k ix) < sh.prod := by
    rw [← prod_swapAt k sh]; exact flat_lt hv'
  show get (swapImg k sh img) _ = _
  unfold swapImg
  rw [get_tab_lt _ hlt, unflat_flat hv', swapAt_swapAt]

/-! ## products of exchanges of adjacent axes (these generate every permutation of the axes) -/

/-- apply the exchanges `w = [k₁, k₂, …]` (axes `kᵢ`, `kᵢ+1`) one after the other to a per-axis list -/
def swaps {α : Type} : List Nat → List α → List α
  | [], l => l
  | k :: w, l => swaps w (swapAt k l)

/-- `img'` is `img` after the axis exchanges `w` -/
def IsSwaps : List Nat → List Nat → Array Rat → Array Rat → Prop
  | [], _, img, img' => img' = img
  | k :: w, sh, img, img'' => ∃ img', IsSwap k sh img img' ∧ IsSwaps w (swapAt k sh) img' img''

/-- what `IsSwaps` means pixel by pixel -/
theorem isSwaps_px : ∀ (w : List Nat) (sh : List Nat) (img img' : Array Rat),
    IsSwaps w sh img img' → ∀ ix, Valid sh ix →
      pxN (swaps w sh) img' (swaps w ix) = pxN sh img ix
  | [], _, _, _, h, _, _ => by simp only [IsSwaps] at h; subst h; rfl
  | k :: w, sh, img, img'', h, ix, hv => by
    simp only [IsSwaps] at h
    rcases h with ⟨img', h1, h2⟩
    simp only [swaps]
    rw [isSwaps_px w (swapAt k sh) img' img'' h2 (swapAt k ix) (valid_swapAt k sh ix hv)]
    exact h1.2.2 ix hv

theorem exists_isSwaps : ∀ (w : List Nat) (sh : List Nat) (img : Array Rat),
    img.size = sh.prod → ∃ img', IsSwaps w sh img img'
  | [], _, img, _ => ⟨img, rfl⟩
  | k :: w, sh, img, hsz => by
    have h1 := isSwap_swapImg k sh img hsz
    rcases exists_isSwaps w (swapAt k sh) (swapImg k sh img)
      (by rw [prod_swapAt]; exact h1.2.1) with ⟨img'', h2⟩
    exact ⟨img'', swapImg k sh img, h1, h2⟩

/-- in 2-D the exchange of axes 0 and 1 is the executable transpose -/
theorem isSwap_transpose2 (H W : Nat) (img : Array Rat) (hsz : img.size = H * W) :
    IsSwap 0 [H, W] img (transpose2 H W img) := by
  refine ⟨by simpa using hsz, by simp [Nat.mul_comm], ?_⟩
  intro ix hv
  match ix, hv with
  | [r, c], hv =>
    simp only [Valid] at hv
    have := px_transpose2 img hv.1 hv.2.1
    unfold px at this
    simpa [pxN, flat, swapAt] using this

end TrackpyV.Bandpass
