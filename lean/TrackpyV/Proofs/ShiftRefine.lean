import TrackpyV.Proofs.Refine
import TrackpyV.Model.Locate
/-!
Helper lemmas for C09 about `Model/Refine.lean`: the refinement commutes with moving the image by
an integer vector (any dimension) as long as the clip never becomes active.
-/
namespace TrackpyV.Refine
open List

/-! ## moving an image by an integer vector -/

/-- `c + d`, as a vector of length `n` -/
def addVec (n : Nat) (c d : List Int) : List Int :=
  (List.range n).map (fun i => c.getD i 0 + d.getD i 0)

/-- the `n`-dimensional image `img` moved by `d`: pixel `p` of the result is pixel `p − d` of `img` -/
def shiftImg (n : Nat) (d : List Int) (img : Image) : Image :=
  fun p => img ((List.range n).map (fun i => p.getD i 0 - d.getD i 0))

theorem addVec_getD (n : Nat) (c d : List Int) (i : Nat) (h : i < n) :
    (addVec n c d).getD i 0 = c.getD i 0 + d.getD i 0 := getD_rangeMap _ _ i h 0

theorem addVec_length (n : Nat) (c d : List Int) : (addVec n c d).length = n := by simp [addVec]

/-- the pixel the mask reads at array index `off`, in the moved image with the moved centre -/
theorem pix_shift (img : Image) (radius : List Nat) (c d : List Int) (off : List Nat) :
    shiftImg radius.length d img (addOff (origin radius (addVec radius.length c d)) off) =
      img (addOff (origin radius c) off) := by
  unfold shiftImg
  congr 1
  unfold addOff
  rw [origin_length, origin_length]
  apply List.map_congr_left
  intro i hi
  have hi' : i < radius.length := by simpa using hi
  rw [getD_rangeMap _ _ i hi' 0, origin_getD _ _ _ hi', origin_getD _ _ _ hi', addVec_getD _ _ _ _ hi']
  omega

theorem wsum_shift (img : Image) (mask : List (List Nat)) (radius : List Nat) (c d : List Int)
    (w : List Nat → Rat) :
    wsum (shiftImg radius.length d img) mask (origin radius (addVec radius.length c d)) w =
      wsum img mask (origin radius c) w := by
  unfold wsum
  congr 1
  apply List.map_congr_left
  intro off _
  rw [pix_shift]

theorem massAt_shift (img : Image) (mask : List (List Nat)) (radius : List Nat) (c d : List Int) :
    massAt (shiftImg radius.length d img) mask (origin radius (addVec radius.length c d)) =
      massAt img mask (origin radius c) := wsum_shift ..

theorem cmN_shift (img : Image) (mask : List (List Nat)) (radius : List Nat) (c d : List Int) (i : Nat) :
    cmN (shiftImg radius.length d img) mask radius (origin radius (addVec radius.length c d)) i =
      cmN img mask radius (origin radius c) i := by
  unfold cmN momAt
  rw [massAt_shift, wsum_shift]

theorem maskMax_shift (img : Image) (mask : List (List Nat)) (radius : List Nat) (c d : List Int) :
    maskMax (shiftImg radius.length d img) mask (origin radius (addVec radius.length c d)) =
      maskMax img mask (origin radius c) := by
  unfold maskMax
  congr 1
  apply List.map_congr_left
  intro off _
  rw [pix_shift]

theorem offCentre_shift (img : Image) (mask : List (List Nat)) (radius : List Nat) (c d : List Int) :
    offCentre (shiftImg radius.length d img) mask radius (addVec radius.length c d) =
      offCentre img mask radius c := by
  unfold offCentre
  apply List.map_congr_left
  intro i _
  rw [cmN_shift]

/-! ## the loop without clip -/

/-- `r_i + k ≤ c_i ≤ shape_i − 1 − r_i − k` on every axis: `k` one-pixel moves from `c` never reach
the clip (`Locate.clipFree`, as a proposition) -/
def Free (radius shape : List Nat) (k : Nat) (c : List Int) : Prop :=
  ∀ i, i < radius.length →
    ((radius.getD i 0 : Nat) : Int) + (k : Int) ≤ c.getD i 0 ∧
    c.getD i 0 + (k : Int) ≤ ((shape.getD i 0 : Nat) : Int) - 1 - ((radius.getD i 0 : Nat) : Int)

theorem clipFree_iff (radius shape : List Nat) (k : Nat) (c : List Int) :
    Locate.clipFree radius shape k c = true ↔ Free radius shape k c := by
  simp [Locate.clipFree, Free]

theorem moveAxis_add (thr o : Rat) (c d : Int) : moveAxis thr o (c + d) = moveAxis thr o c + d := by
  unfold moveAxis
  split_ifs <;> omega

theorem clipAxis_id (r sh : Nat) (x : Int) (h1 : (r : Int) ≤ x) (h2 : x ≤ (sh : Int) - 1 - (r : Int)) :
    clipAxis r sh x = x := by
  unfold clipAxis
  rw [max_eq_left h1, min_eq_left h2]

/-- with one move to spare the clip does nothing -/
theorem next_free (thr : Rat) (radius shape : List Nat) (oc : List Rat) (c : List Int) (k : Nat)
    (h : Free radius shape (k + 1) c) (i : Nat) (hi : i < radius.length) :
    (next thr radius shape oc c).getD i 0 = moveAxis thr (oc.getD i 0) (c.getD i 0) := by
  rw [next_getD _ _ _ _ _ _ hi]
  have hb := h i hi
  have hm := moveAxis_near thr (oc.getD i 0) (c.getD i 0)
  apply clipAxis_id <;> push_cast at hb ⊢ <;> omega

theorem next_free_free (thr : Rat) (radius shape : List Nat) (oc : List Rat) (c : List Int) (k : Nat)
    (h : Free radius shape (k + 1) c) : Free radius shape k (next thr radius shape oc c) := by
  intro i hi
  rw [next_free thr radius shape oc c k h i hi]
  have hb := h i hi
  have hm := moveAxis_near thr (oc.getD i 0) (c.getD i 0)
  push_cast at hb ⊢
  constructor <;> omega

theorem next_shift (thr : Rat) (radius shape shape' : List Nat) (oc : List Rat) (c d : List Int)
    (k : Nat) (h : Free radius shape (k + 1) c)
    (h' : Free radius shape' (k + 1) (addVec radius.length c d)) :
    next thr radius shape' oc (addVec radius.length c d) =
      addVec radius.length (next thr radius shape oc c) d := by
  have e1 : next thr radius shape' oc (addVec radius.length c d) =
      (List.range radius.length).map (fun i => (next thr radius shape' oc (addVec radius.length c d)).getD i 0) := by
    unfold next
    apply List.map_congr_left
    intro i hi
    have hi' : i < radius.length := by simpa using hi
    rw [getD_rangeMap _ _ i hi' 0]
  rw [e1]
  conv_rhs => unfold addVec
  apply List.map_congr_left
  intro i hi
  have hi' : i < radius.length := by simpa using hi
  rw [next_free thr radius shape' oc _ k h' i hi', next_free thr radius shape oc c k h i hi',
    addVec_getD _ _ _ _ hi', moveAxis_add]

theorem free_mono (radius shape : List Nat) (k : Nat) (c : List Int) (h : Free radius shape (k + 1) c) :
    Free radius shape k c := by
  intro i hi
  have := h i hi
  push_cast at this ⊢
  constructor <;> omega

/-- **the loop commutes with moving the image**, any dimension, any fuel: if neither run can reach
its clip, the last evaluated mask centre of the moved image (started at the moved pixel) is the
moved last centre. -/
theorem lastCentre_shift (thr : Rat) (img : Image) (mask : List (List Nat))
    (radius shape shape' : List Nat) (d : List Int) :
    ∀ (k : Nat) (c : List Int), Free radius shape k c →
      Free radius shape' k (addVec radius.length c d) →
      lastCentre thr (shiftImg radius.length d img) mask radius shape' k (addVec radius.length c d) =
        addVec radius.length (lastCentre thr img mask radius shape k c) d
  | 0, c, _, _ => rfl
  | k + 1, c, h, h' => by
    simp only [lastCentre, offCentre_shift]
    split
    · rfl
    · rw [next_shift thr radius shape shape' _ c d k h h']
      exact lastCentre_shift thr img mask radius shape shape' d k _
        (next_free_free thr radius shape _ c k h)
        (by rw [← next_shift thr radius shape shape' _ c d k h h']
            exact next_free_free thr radius shape' _ _ k h')

/-! ## the measurements -/

theorem posAt_shift (img : Image) (mask : List (List Nat)) (radius : List Nat) (c d : List Int)
    (i : Nat) (hi : i < radius.length) :
    (posAt (shiftImg radius.length d img) mask radius (addVec radius.length c d)).getD i 0 =
      (posAt img mask radius c).getD i 0 + ((d.getD i 0 : Int) : Rat) := by
  rw [posAt_getD _ _ _ _ _ hi, posAt_getD _ _ _ _ _ hi, cmN_shift, addVec_getD _ _ _ _ hi]
  push_cast
  ring

theorem rg2At_shift (img : Image) (mask : List (List Nat)) (radius : List Nat) (c d : List Int) :
    rg2At (shiftImg radius.length d img) mask radius (origin radius (addVec radius.length c d)) =
      rg2At img mask radius (origin radius c) := by
  unfold rg2At
  simp only [wsum_shift, massAt_shift]

theorem eccAt_shift (img : Image) (mask : List (List Nat)) (radius : List Nat) (c d : List Int) :
    eccAt (shiftImg radius.length d img) mask radius (origin radius (addVec radius.length c d)) =
      eccAt img mask radius (origin radius c) := by
  unfold eccAt
  simp only [wsum_shift, pix_shift]

end TrackpyV.Refine
