import TrackpyV.Proofs.Relocate
import Mathlib.Tactic.Linarith
import Mathlib.Tactic.Ring
import Mathlib.Tactic.FieldSimp
import Mathlib.Tactic.Positivity

/-!
Helper lemmas for the gap `bg_radius_covers` of C14 (`Props/C14Bg.lean`): the triangle inequality
between three per-axis weighted squared distances of the model (`Find.dist2`), without square
roots, and the lower bounds on `bgRadius` (find_link.py:321-337) that make the hash query of
`get_relocate_candidates` (find_link.py:392) cover the separation ellipsoid of every in-range
candidate.

Route: per axis, with `r = αᵢ/nᵢ ≤ A`, `q = βᵢ/nᵢ ≤ T`, `X = (c−p)ᵢ/αᵢ`, `Y = (c−b)ᵢ/βᵢ`:
`((b−p)ᵢ/nᵢ)² = (rX − qY)² = r(r+q)X² + q(r+q)Y² − rq(X+Y)² ≤ A(A+T)X² + T(A+T)Y²`;
summing, `dist2 n b p ≤ A(A+T)·dist2 α c p + T(A+T)·dist2 β c b ≤ (A+T)²`.
-/
set_option linter.unusedVariables false

namespace TrackpyV.Relocate
open TrackpyV.Find

/-! ## the weighted triangle inequality -/

theorem dist2_nonneg : ∀ (s : List Rat) (a b : List Int), 0 ≤ dist2 s a b
  | [], _, _ => by simp [dist2]
  | _ :: _, [], _ => by simp [dist2]
  | _ :: _, _ :: _, [] => by simp [dist2]
  | s :: ss, x :: xs, y :: ys => by
    simp only [dist2]
    exact add_nonneg (mul_self_nonneg _) (dist2_nonneg ss xs ys)

/-- one axis: `x = cᵢ − pᵢ`, `y = cᵢ − bᵢ`, weights `n` (hash norm), `a` (search range),
`t` (separation) with `a ≤ A·n`, `t ≤ T·n` -/
theorem tri_term (n a t A T x y : Rat) (hn : 0 < n) (ha : 0 < a) (ht : 0 < t)
    (haA : a ≤ A * n) (htT : t ≤ T * n) :
    ((x - y) / n) * ((x - y) / n)
      ≤ A * (A + T) * ((x / a) * (x / a)) + T * (A + T) * ((y / t) * (y / t)) := by
  have hr : 0 < a / n := div_pos ha hn
  have hq : 0 < t / n := div_pos ht hn
  have hrA : a / n ≤ A := by rw [div_le_iff₀ hn]; exact haA
  have hqT : t / n ≤ T := by rw [div_le_iff₀ hn]; exact htT
  have e : (x - y) / n = (a / n) * (x / a) - (t / n) * (y / t) := by
    field_simp
  rw [e]
  generalize a / n = r at hr hrA
  generalize t / n = q at hq hqT
  generalize x / a = X
  generalize y / t = Y
  have h1 : (r * X - q * Y) * (r * X - q * Y)
      = r * (r + q) * (X * X) + q * (r + q) * (Y * Y) - r * q * ((X + Y) * (X + Y)) := by ring
  have h2 : 0 ≤ r * q * ((X + Y) * (X + Y)) :=
    mul_nonneg (mul_nonneg hr.le hq.le) (mul_self_nonneg _)
  have h3 : r * (r + q) ≤ A * (A + T) :=
    mul_le_mul hrA (by linarith) (by linarith) (by linarith)
  have h4 : q * (r + q) ≤ T * (A + T) :=
    mul_le_mul hqT (by linarith) (by linarith) (by linarith)
  have h5 : r * (r + q) * (X * X) ≤ A * (A + T) * (X * X) :=
    mul_le_mul_of_nonneg_right h3 (mul_self_nonneg X)
  have h6 : q * (r + q) * (Y * Y) ≤ T * (A + T) * (Y * Y) :=
    mul_le_mul_of_nonneg_right h4 (mul_self_nonneg Y)
  linarith

/-- per-axis domination of the weight lists `α`, `β` by `A·n`, `T·n`; all weights positive; `α` and
`β` have an entry for every axis of `n` -/
def Dom (A T : Rat) : List Rat → List Rat → List Rat → Prop
  | [], _, _ => True
  | n :: ns, a :: as, t :: ts =>
    (0 < n ∧ 0 < a ∧ 0 < t ∧ a ≤ A * n ∧ t ≤ T * n) ∧ Dom A T ns as ts
  | _ :: _, _, _ => False

theorem Dom.pos {A T n a t : Rat} {ns as ts : List Rat}
    (h : Dom A T (n :: ns) (a :: as) (t :: ts)) : 0 < A ∧ 0 < T := by
  simp only [Dom] at h
  obtain ⟨⟨hn, ha, ht, haA, htT⟩, _⟩ := h
  constructor
  · by_contra hA
    have : A * n ≤ 0 := mul_nonpos_of_nonpos_of_nonneg (not_lt.mp hA) hn.le
    linarith
  · by_contra hT
    have : T * n ≤ 0 := mul_nonpos_of_nonpos_of_nonneg (not_lt.mp hT) hn.le
    linarith

/-- the triangle inequality in weighted form.  `c` needs a coordinate on every axis of `n`
(`dist2` truncates to the shortest list); `p` and `b` may have any length. -/
theorem dist2_tri_weighted (A T : Rat) (hA : 0 ≤ A) (hT : 0 ≤ T) :
    ∀ (n α β : List Rat) (c p b : List Int), Dom A T n α β → n.length ≤ c.length →
      dist2 n b p ≤ A * (A + T) * dist2 α c p + T * (A + T) * dist2 β c b := by
  have hnn : ∀ (α β : List Rat) (c p b : List Int),
      0 ≤ A * (A + T) * dist2 α c p + T * (A + T) * dist2 β c b := fun α β c p b =>
    add_nonneg (mul_nonneg (mul_nonneg hA (add_nonneg hA hT)) (dist2_nonneg _ _ _))
      (mul_nonneg (mul_nonneg hT (add_nonneg hA hT)) (dist2_nonneg _ _ _))
  intro n
  induction n with
  | nil =>
    intro α β c p b _ _
    simp only [dist2]
    exact hnn _ _ _ _ _
  | cons n ns ih =>
    intro α β c p b hd hc
    match α, β, c, hd, hc with
    | [], _, _, hd, _ => simp [Dom] at hd
    | _ :: _, [], _, hd, _ => simp [Dom] at hd
    | _ :: _, _ :: _, [], _, hc => simp at hc
    | a :: as, t :: ts, c0 :: cs, hd, hc =>
      match b, p with
      | [], p' =>
        have : dist2 (n :: ns) [] p' = 0 := by simp [dist2]
        rw [this]; exact hnn _ _ _ _ _
      | _ :: _, [] =>
        have : ∀ (b : List Int), dist2 (n :: ns) b [] = 0 := by
          intro b; cases b <;> simp [dist2]
        rw [this]; exact hnn _ _ _ _ _
      | b0 :: bs, p0 :: ps =>
        simp only [Dom] at hd
        obtain ⟨⟨hn, ha, ht, haA, htT⟩, hd'⟩ := hd
        have ih' := ih as ts cs ps bs hd' (by simpa using hc)
        have hterm := tri_term n a t A T ((c0 - p0 : Int) : Rat) ((c0 - b0 : Int) : Rat)
          hn ha ht haA htT
        have e : (((c0 - p0 : Int) : Rat) - ((c0 - b0 : Int) : Rat)) = ((b0 - p0 : Int) : Rat) := by
          push_cast; ring
        rw [e] at hterm
        simp only [dist2]
        rw [mul_add, mul_add]
        linarith

/-- **triangle inequality between the search-range and the separation ellipsoid**, in the norm `n`:
`c` within `α` of `p` and within `β` of `b`, with `α ≤ A·n`, `β ≤ T·n` per axis, puts `b` within
`A + T` of `p`. -/
theorem dist2_tri (A T : Rat) (n α β : List Rat) (c p b : List Int) (hd : Dom A T n α β)
    (hc : n.length ≤ c.length) (h1 : dist2 α c p ≤ 1) (h2 : dist2 β c b ≤ 1) :
    dist2 n b p ≤ (A + T) * (A + T) := by
  match n, α, β, hd with
  | [], _, _, _ =>
    simp only [dist2]
    exact mul_self_nonneg _
  | _ :: _, [], _, hd => simp [Dom] at hd
  | _ :: _, _ :: _, [], hd => simp [Dom] at hd
  | n :: ns, a :: as, t :: ts, hd =>
    obtain ⟨hA, hT⟩ := hd.pos
    have h := dist2_tri_weighted A T hA.le hT.le _ _ _ c p b hd hc
    have hA' : 0 ≤ A * (A + T) := by positivity
    have hT' : 0 ≤ T * (A + T) := by positivity
    have k1 := mul_le_mul_of_nonneg_left h1 hA'
    have k2 := mul_le_mul_of_nonneg_left h2 hT'
    have : (A + T) * (A + T) = A * (A + T) * 1 + T * (A + T) * 1 := by ring
    rw [this]
    linarith

/-! ## `maxRat`, `isIso`, `sliceRadius` -/

theorem foldl_maxRat_ge (l : List Rat) : ∀ (a : Rat), a ≤ l.foldl max a := by
  induction l with
  | nil => intro a; exact le_refl _
  | cons x xs ih => intro a; exact le_trans (le_max_left a x) (ih (max a x))

theorem le_foldl_maxRat (l : List Rat) : ∀ (a x : Rat), x ∈ l → x ≤ l.foldl max a := by
  induction l with
  | nil => intro a x h; simp at h
  | cons y ys ih =>
    intro a x h
    rcases List.mem_cons.mp h with rfl | h
    · exact le_trans (le_max_right a x) (foldl_maxRat_ge ys _)
    · exact ih _ x h

/-- every element of a list is at most its `maxRat` -/
theorem le_maxRat {l : List Rat} {x : Rat} (h : x ∈ l) : x ≤ maxRat l := le_foldl_maxRat l 0 x h

/-- `is_isotropic`: every entry equals the first one -/
theorem isIso_spec {l : List Rat} (h : isIso l = true) : ∀ s ∈ l, s = l.headD 0 := by
  cases l with
  | nil => intro s hs; simp at hs
  | cons x xs =>
    intro s hs
    simp only [isIso, List.all_eq_true, beq_iff_eq] at h
    rcases List.mem_cons.mp hs with rfl | hs
    · rfl
    · exact h s hs

/-- `slice_radius = int(search_range + radius + 1) ≥ search_range` -/
theorem le_sliceRadius_entry (s : Rat) (r : Nat) :
    s ≤ (((s + (r : Rat) + 1).floor.toNat : Nat) : Rat) := by
  have h := lt_floor_toNat_add_one (s + (r : Rat) + 1)
  have hr : (0 : Rat) ≤ (r : Rat) := Nat.cast_nonneg r
  linarith

/-- the bound every entry of `bgRadiusAx` satisfies: `search_range + separation ≤ bg_radius` -/
theorem bgEntry_ge (s t : Rat) (r : Nat) :
    s + t ≤ (((s + (r : Rat) + 1).floor.toNat : Nat) : Rat) + max ((r : Rat) + 1) t := by
  have h1 := le_sliceRadius_entry s r
  have h2 : t ≤ max ((r : Rat) + 1) t := le_max_right _ _
  linarith

/-! ## the two norms of the hash -/

/-- `bgRadiusAx` on explicit lists -/
def bgAx (radius : List Nat) (sr sep : List Rat) : List Rat :=
  List.zipWith (fun (x : Nat × Nat) (s : Rat) => (x.1 : Rat) + max ((x.2 : Rat) + 1) s)
    ((List.zipWith (fun (s : Rat) (r : Nat) => (s + (r : Rat) + 1).floor.toNat) sr radius).zip
      radius) sep

theorem bgRadiusAx_eq (cfg : Cfg) : bgRadiusAx cfg = bgAx cfg.radius cfg.sr cfg.sep := rfl

/-- isotropic search range `s0`, hash in pixels: `A = s0`, `T = R − s0` for every `R` that bounds
`bgRadiusAx` -/
theorem dom_iso (R s0 : Rat) : ∀ (sr sep : List Rat) (radius : List Nat),
    radius.length = sr.length → sep.length = sr.length →
    (∀ s ∈ sr, 0 < s) → (∀ s ∈ sep, 0 < s) → (∀ s ∈ sr, s = s0) →
    (∀ x ∈ bgAx radius sr sep, x ≤ R) →
    Dom s0 (R - s0) (sr.map (fun _ => (1 : Rat))) sr sep
  | [], _, _, _, _, _, _, _, _ => by simp [Dom]
  | _ :: _, [], _, _, h, _, _, _, _ => by simp at h
  | _ :: _, _ :: _, [], h, _, _, _, _, _ => by simp at h
  | s :: ss, t :: ts, r :: rs, hr, hs, hsr, hsep, heq, hR => by
    simp only [bgAx, List.zipWith_cons_cons, List.zip_cons_cons, List.mem_cons, forall_eq_or_imp]
      at hR
    obtain ⟨hR0, hR'⟩ := hR
    have ih := dom_iso R s0 ss ts rs (by simpa using hr) (by simpa using hs)
      (fun x hx => hsr x (List.mem_cons_of_mem _ hx))
      (fun x hx => hsep x (List.mem_cons_of_mem _ hx))
      (fun x hx => heq x (List.mem_cons_of_mem _ hx)) hR'
    have hs0 : s = s0 := heq s List.mem_cons_self
    have hspos : 0 < s := hsr s List.mem_cons_self
    have htpos : 0 < t := hsep t List.mem_cons_self
    have hb := bgEntry_ge s t r
    simp only [List.map_cons, Dom]
    refine ⟨⟨one_pos, hspos, htpos, ?_, ?_⟩, ih⟩
    · rw [hs0]; linarith
    · rw [← hs0]; linarith

/-- anisotropic search range, hash in units of the search range: `A = 1`, `T = R − 1` for every `R`
that bounds `bgRadiusAx / search_range` -/
theorem dom_aniso (R : Rat) : ∀ (sr sep : List Rat) (radius : List Nat),
    radius.length = sr.length → sep.length = sr.length →
    (∀ s ∈ sr, 0 < s) → (∀ s ∈ sep, 0 < s) →
    (∀ x ∈ List.zipWith (fun b s => b / s) (bgAx radius sr sep) sr, x ≤ R) →
    Dom 1 (R - 1) sr sr sep
  | [], _, _, _, _, _, _, _ => by simp [Dom]
  | _ :: _, [], _, _, h, _, _, _ => by simp at h
  | _ :: _, _ :: _, [], h, _, _, _, _ => by simp at h
  | s :: ss, t :: ts, r :: rs, hr, hs, hsr, hsep, hR => by
    simp only [bgAx, List.zipWith_cons_cons, List.zip_cons_cons, List.mem_cons, forall_eq_or_imp]
      at hR
    obtain ⟨hR0, hR'⟩ := hR
    have ih := dom_aniso R ss ts rs (by simpa using hr) (by simpa using hs)
      (fun x hx => hsr x (List.mem_cons_of_mem _ hx))
      (fun x hx => hsep x (List.mem_cons_of_mem _ hx)) hR'
    have hspos : 0 < s := hsr s List.mem_cons_self
    have htpos : 0 < t := hsep t List.mem_cons_self
    have hb := bgEntry_ge s t r
    rw [div_le_iff₀ hspos] at hR0
    simp only [Dom]
    refine ⟨⟨hspos, hspos, htpos, ?_, ?_⟩, ih⟩
    · linarith
    · linarith

/-- **the geometric core of `bg_radius_covers`**: in the norm of the hash (`hashDist2`), a current
feature `b` closer than (or at) `separation` to a point `c` that is within `search_range` of `p` is
within `bgRadius` of `p` -/
theorem hashDist2_le_bgRadius (cfg : Cfg) (hr : cfg.radius.length = cfg.sr.length)
    (hs : cfg.sep.length = cfg.sr.length) (hsr : ∀ s ∈ cfg.sr, 0 < s) (hsep : ∀ s ∈ cfg.sep, 0 < s)
    (c p b : IPos) (hc : cfg.sr.length ≤ c.length)
    (hin : dist2 cfg.sr c p ≤ 1) (hclose : dist2 cfg.sep c b ≤ 1) :
    hashDist2 cfg b p ≤ bgRadius cfg * bgRadius cfg := by
  unfold hashDist2 bgRadius
  by_cases hiso : isIso cfg.sr = true
  · rw [if_pos hiso, if_pos hiso]
    have hd := dom_iso (maxRat (bgRadiusAx cfg)) (cfg.sr.headD 0) cfg.sr cfg.sep cfg.radius hr hs
      hsr hsep (isIso_spec hiso) (fun x hx => le_maxRat (by rw [bgRadiusAx_eq]; exact hx))
    have h := dist2_tri _ _ _ _ _ c p b hd (by simpa using hc) hin hclose
    have e : cfg.sr.headD 0 + (maxRat (bgRadiusAx cfg) - cfg.sr.headD 0)
        = maxRat (bgRadiusAx cfg) := by ring
    rw [e] at h
    exact h
  · rw [if_neg hiso, if_neg hiso]
    have hd := dom_aniso (maxRat (List.zipWith (fun b s => b / s) (bgRadiusAx cfg) cfg.sr))
      cfg.sr cfg.sep cfg.radius hr hs hsr hsep
      (fun x hx => le_maxRat (by rw [bgRadiusAx_eq]; exact hx))
    have h := dist2_tri _ _ _ _ _ c p b hd hc hin hclose
    have e : ∀ (R : Rat), (1 : Rat) + (R - 1) = R := fun R => by ring
    rw [e] at h
    exact h

/-- every candidate returned by `get_relocate_candidates` has one coordinate per image axis -/
theorem relocateWith_length {cfg : Cfg} {img : Image} {bg pos : List IPos} {c : Pos} {v : Nat}
    (h : (c, v) ∈ relocateWith cfg img bg pos) : (toI c).length = img.shape.length := by
  obtain ⟨sl, thr, hs, _, hin⟩ := relocateWith_cases h
  obtain ⟨q, rfl, hraw, _, _, _⟩ := mem_relocateIn hin
  obtain ⟨himg, _, _, _⟩ := mem_rawCandidates hraw
  obtain ⟨ho, hsh⟩ := getSlice_lengths hs
  have hq : q.length = sl.origin.length := by
    rw [ho, ← hsh]; exact himg.length_eq
  simp only [toI, List.length_map]
  rw [addOrigin_length _ _ hq, ho]

end TrackpyV.Relocate
