import TrackpyV.Model.Pack
/-!
Helper lemmas for the packing model (`Model/Pack.lean`): column-level round trips.  Core Lean only.
-/
namespace TrackpyV.Pack
set_option linter.unusedSectionVars false

variable {α : Type} [Inhabited α]

/-- an `operation` that returns the common value of a non-empty constant list
(`first`, `np.mean`, `np.min`, `np.max` all do) -/
def OpConst (op : List α → α) : Prop :=
  ∀ (l : List α) (x : α), l ≠ [] → (∀ y ∈ l, y = x) → op l = x

theorem opConst_first : OpConst (first : List α → α) := by
  intro l x hl h
  cases l with
  | nil => exact absurd rfl hl
  | cons a t => simpa [first] using h a (by simp)

/-- a column is consistent with its mode: a `global` column is constant, a grouped column is
constant on every group -/
def ConsistentCol : Kind → List α → Prop
  | .one, col => ∀ x ∈ col, x = first col
  | .grouped gs, col => ∀ g ∈ gs, ∀ j ∈ g, col.getD j default = first (gather col g)
  | _, _ => True

/-- declarative form of `groupListOK` -/
structure GroupListOK (n : Nat) (gs : List (List Nat)) : Prop where
  nonempty : ∀ g ∈ gs, g ≠ []
  inRange : ∀ g ∈ gs, ∀ j ∈ g, j < n
  nodup : ∀ g ∈ gs, g.Nodup
  disjoint : gs.Pairwise (fun g h => ∀ j ∈ g, j ∉ h)

theorem groupListOK_iff (n : Nat) (gs : List (List Nat)) :
    groupListOK n gs = true ↔ GroupListOK n gs := by
  constructor
  · intro h
    simp only [groupListOK, Bool.and_eq_true, List.all_eq_true, decide_eq_true_eq,
      Bool.not_eq_true', List.isEmpty_eq_false_iff] at h
    refine ⟨fun g hg => (h.1 g hg).1.1, fun g hg j hj => ?_, fun g hg => (h.1 g hg).2, ?_⟩
    · exact (h.1 g hg).1.2 j hj
    · refine h.2.imp ?_
      intro a b hab j hj
      have := hab j hj
      simpa using this
  · intro ⟨h1, h2, h3, h4⟩
    simp only [groupListOK, Bool.and_eq_true, List.all_eq_true, decide_eq_true_eq,
      Bool.not_eq_true', List.isEmpty_eq_false_iff]
    refine ⟨fun g hg => ⟨⟨h1 g hg, fun j hj => h2 g hg j hj⟩, h3 g hg⟩, ?_⟩
    refine h4.imp ?_
    intro a b hab j hj
    simpa using hab j hj

/-! ### setAll / setGroups -/

@[simp] theorem setAll_nil (c : List α) (v : α) : setAll c [] v = c := rfl
@[simp] theorem setAll_cons (c : List α) (j : Nat) (g : List Nat) (v : α) :
    setAll c (j :: g) v = setAll (c.set j v) g v := rfl

@[simp] theorem length_setAll (c : List α) (g : List Nat) (v : α) :
    (setAll c g v).length = c.length := by
  induction g generalizing c with
  | nil => rfl
  | cons j g ih => simp [ih]

theorem getD_setAll_of_not_mem (c : List α) (g : List Nat) (v : α) (j : Nat) (hj : j ∉ g) :
    (setAll c g v).getD j default = c.getD j default := by
  induction g generalizing c with
  | nil => rfl
  | cons i g ih =>
    simp only [List.mem_cons, not_or] at hj
    rw [setAll_cons, ih _ hj.2]
    simp [List.getD_eq_getElem?_getD, Ne.symm hj.1]

theorem getD_setAll_of_mem (c : List α) (g : List Nat) (v : α) (j : Nat) (hj : j ∈ g)
    (hlt : j < c.length) : (setAll c g v).getD j default = v := by
  induction g generalizing c with
  | nil => cases hj
  | cons i g ih =>
    rw [setAll_cons]
    by_cases hjg : j ∈ g
    · exact ih _ hjg (by simpa using hlt)
    · have : j = i := by
        rcases List.mem_cons.1 hj with h | h
        · exact h
        · exact absurd h hjg
      subst this
      rw [getD_setAll_of_not_mem _ _ _ _ hjg]
      simp [List.getD_eq_getElem?_getD, hlt]

theorem setAll_self (c : List α) (g : List Nat) (v : α)
    (h : ∀ j ∈ g, c.getD j default = v) : setAll c g v = c := by
  induction g with
  | nil => rfl
  | cons i g ih =>
    rw [setAll_cons]
    have hi : c.set i v = c := by
      by_cases hlt : i < c.length
      · have := h i (by simp)
        rw [List.getD_eq_getElem?_getD, List.getElem?_eq_getElem hlt] at this
        simp only [Option.getD_some] at this
        rw [← this]; exact List.set_getElem_self hlt
      · exact List.set_eq_of_length_le (Nat.le_of_not_lt hlt)
    rw [hi]
    exact ih (fun j hj => h j (by simp [hj]))

@[simp] theorem setGroups_nil (c : List α) (vals : List α) : setGroups c [] vals = c := by
  simp [setGroups]
@[simp] theorem setGroups_nil' (c : List α) (gs : List (List Nat)) : setGroups c gs [] = c := by
  simp [setGroups]
@[simp] theorem setGroups_cons (c : List α) (g : List Nat) (gs : List (List Nat)) (x : α)
    (vals : List α) : setGroups c (g :: gs) (x :: vals) = setGroups (setAll c g x) gs vals := by
  simp [setGroups]

@[simp] theorem length_setGroups (c : List α) (gs : List (List Nat)) (vals : List α) :
    (setGroups c gs vals).length = c.length := by
  induction gs generalizing c vals with
  | nil => simp
  | cons g gs ih =>
    cases vals with
    | nil => simp
    | cons x vals => simp [ih]

theorem getD_setGroups_of_not_mem (c : List α) (gs : List (List Nat)) (vals : List α) (j : Nat)
    (hj : ∀ g ∈ gs, j ∉ g) : (setGroups c gs vals).getD j default = c.getD j default := by
  induction gs generalizing c vals with
  | nil => simp
  | cons g gs ih =>
    cases vals with
    | nil => simp
    | cons x vals =>
      rw [setGroups_cons, ih _ _ (fun h hh => hj h (by simp [hh]))]
      exact getD_setAll_of_not_mem _ _ _ _ (hj g (by simp))

theorem setGroups_map_self (col : List α) (gs : List (List Nat)) (f : List Nat → α)
    (h : ∀ g ∈ gs, setAll col g (f g) = col) : setGroups col gs (gs.map f) = col := by
  induction gs with
  | nil => simp
  | cons g gs ih =>
    rw [List.map_cons, setGroups_cons, h g (by simp)]
    exact ih (fun g' hg' => h g' (by simp [hg']))

/-- reading back the first member of every group after `setGroups` returns the values written -/
theorem map_first_gather_setGroups (c : List α) (gs : List (List Nat)) (vals : List α)
    (hok : GroupListOK c.length gs) (hlen : vals.length = gs.length) :
    gs.map (fun g => first (gather (setGroups c gs vals) g)) = vals := by
  induction gs generalizing c vals with
  | nil => cases vals with
    | nil => rfl
    | cons _ _ => simp at hlen
  | cons g gs ih =>
    cases vals with
    | nil => simp at hlen
    | cons x vals =>
      obtain ⟨h1, h2, h3, h4⟩ := hok
      rw [List.pairwise_cons] at h4
      simp only [List.map_cons, setGroups_cons]
      have hok' : GroupListOK (setAll c g x).length gs := by
        refine ⟨fun g' hg' => h1 g' (by simp [hg']), ?_, fun g' hg' => h3 g' (by simp [hg']), h4.2⟩
        intro g' hg' j hj
        simpa using h2 g' (by simp [hg']) j hj
      rw [ih (setAll c g x) vals hok' (by simpa using hlen)]
      congr 1
      -- head of g
      cases hg : g with
      | nil => exact absurd hg (h1 g (by simp))
      | cons j0 t =>
        have hj0 : j0 ∈ g := by simp [hg]
        simp only [gather, List.map_cons, first, List.headD_cons]
        rw [getD_setGroups_of_not_mem _ _ _ _ (fun h hh => h4.1 h hh j0 hj0)]
        rw [← hg]
        exact getD_setAll_of_mem _ _ _ _ hj0 (h2 g (by simp) j0 hj0)

/-! ### one column: unpack ∘ pack and pack ∘ unpack -/

theorem length_packCol (op : List α → α) (n : Nat) (k : Kind) (col : List α)
    (hn : col.length = n) : (packCol op k col).length = kindLen n k := by
  cases k <;> simp [packCol, kindLen, hn]

theorem unpackCol_packCol (op : List α → α) (hop : OpConst op) (n : Nat) (k : Kind)
    (col r : List α) (hn : col.length = n) (hc : ConsistentCol k col) :
    unpackCol n k (packCol op k col ++ r) col = (col, r) := by
  cases k with
  | const => simp [packCol, unpackCol]
  | error => simp [packCol, unpackCol]
  | all => simp [packCol, unpackCol, ← hn]
  | one =>
    simp only [packCol, unpackCol, List.cons_append, List.nil_append, List.headD_cons,
      List.drop_succ_cons, List.drop_zero, Prod.mk.injEq, and_true]
    cases hcol : col with
    | nil => simp [← hn, hcol]
    | cons a t =>
      have h1 : op col = first col := hop col (first col) (by simp [hcol]) hc
      rw [← hcol, h1, ← hn]
      exact (List.eq_replicate_iff.2 ⟨rfl, hc⟩).symm
  | grouped gs =>
    simp only [packCol, unpackCol]
    have hl : (List.map (fun g => op (gather col g)) gs).length = gs.length := by simp
    rw [List.take_left' hl, List.drop_left' hl]
    congr 1
    apply setGroups_map_self
    intro g hg
    apply setAll_self
    intro j hj
    have hne : gather col g ≠ [] := by
      cases g with
      | nil => cases hj
      | cons _ _ => simp [gather]
    have hall : ∀ y ∈ gather col g, y = first (gather col g) := by
      intro y hy
      simp only [gather, List.mem_map] at hy
      obtain ⟨i, hi, rfl⟩ := hy
      exact hc g hg i hi
    rw [hop _ _ hne hall]
    exact hc g hg j hj

theorem unpackCol_snd (n : Nat) (k : Kind) (vect col : List α) :
    (unpackCol n k vect col).2 = vect.drop (kindLen n k) := by
  cases k <;> simp [unpackCol, kindLen]

theorem packCol_unpackCol (n : Nat) (hn : 1 ≤ n) (k : Kind) (vect col : List α)
    (hcol : col.length = n) (hk : kindOK n k = true) (hv : kindLen n k ≤ vect.length) :
    packCol first k (unpackCol n k vect col).1 = vect.take (kindLen n k) ∧
    (unpackCol n k vect col).2 = vect.drop (kindLen n k) ∧
    (unpackCol n k vect col).1.length = n := by
  cases k with
  | const => simp [packCol, unpackCol, kindLen, hcol]
  | error => simp [kindOK] at hk
  | all => simp [packCol, unpackCol, kindLen] at hv ⊢; omega
  | one =>
    cases vect with
    | nil => simp [kindLen] at hv
    | cons a t =>
      obtain ⟨m, rfl⟩ : ∃ m, n = m + 1 := ⟨n - 1, by omega⟩
      simp [packCol, unpackCol, kindLen, first, List.replicate_succ]
  | grouped gs =>
    simp only [kindOK, groupListOK_iff] at hk
    simp only [kindLen] at hv
    simp only [packCol, unpackCol, kindLen, length_setGroups, hcol, and_true]
    rw [← hcol] at hk
    exact map_first_gather_setGroups col gs (vect.take gs.length) hk (by simp [hv])

/-! ### all columns -/

theorem packCols_cons (op : List α → α) (groups : Option Groups) (m : Nat) (ms : List Nat)
    (c : List α) (cs : List (List α)) (hk : kind groups m ≠ .error) :
    packCols op groups (m :: ms) (c :: cs) =
      (packCols op groups ms cs).map (fun r => packCol op (kind groups m) c ++ r) := by
  rw [packCols]
  cases h : kind groups m <;> simp_all

theorem packCols_cons_error (op : List α → α) (groups : Option Groups) (m : Nat) (ms : List Nat)
    (c : List α) (cs : List (List α)) (hk : kind groups m = .error) :
    packCols op groups (m :: ms) (c :: cs) = none := by
  rw [packCols]; simp [hk]

theorem unpackCols_cons (n : Nat) (groups : Option Groups) (m : Nat) (ms : List Nat)
    (vect c : List α) (cs : List (List α)) (hk : kind groups m ≠ .error) :
    unpackCols n groups (m :: ms) vect (c :: cs) =
      (unpackCols n groups ms (unpackCol n (kind groups m) vect c).2 cs).map
        (fun cs' => (unpackCol n (kind groups m) vect c).1 :: cs') := by
  rw [unpackCols]
  cases h : kind groups m <;> simp_all

/-- all columns consistent with their modes -/
def Consistent (groups : Option Groups) : List Nat → List (List α) → Prop
  | m :: ms, c :: cs => ConsistentCol (kind groups m) c ∧ Consistent groups ms cs
  | _, _ => True

theorem length_packCols (op : List α → α) (n : Nat) (groups : Option Groups) :
    ∀ (modes : List Nat) (cols : List (List α)) (v : List α), shapeOK n cols = true →
      packCols op groups modes cols = some v → v.length = packedLen n groups modes
  | [], [], v, _, h => by simp [packCols] at h; simp [← h, packedLen]
  | [], _ :: _, v, _, h => by simp [packCols] at h
  | _ :: _, [], v, _, h => by simp [packCols] at h
  | m :: ms, c :: cs, v, hs, h => by
    by_cases hk : kind groups m = .error
    · rw [packCols_cons_error _ _ _ _ _ _ hk] at h; cases h
    · rw [packCols_cons _ _ _ _ _ _ hk] at h
      simp only [shapeOK, List.all_cons, Bool.and_eq_true, beq_iff_eq] at hs
      cases hr : packCols op groups ms cs with
      | none => simp [hr] at h
      | some r =>
        simp only [hr, Option.map_some, Option.some.injEq] at h
        have ih := length_packCols op n groups ms cs r (by simpa [shapeOK] using hs.2) hr
        rw [← h, List.length_append, length_packCol op n _ c hs.1, ih]
        simp [packedLen]

theorem unpackCols_packCols (op : List α → α) (hop : OpConst op) (n : Nat)
    (groups : Option Groups) :
    ∀ (modes : List Nat) (cols : List (List α)) (v r : List α), shapeOK n cols = true →
      Consistent groups modes cols → packCols op groups modes cols = some v →
      unpackCols n groups modes (v ++ r) cols = some cols
  | [], [], v, r, _, _, _ => by simp [unpackCols]
  | [], _ :: _, v, r, _, _, h => by simp [packCols] at h
  | _ :: _, [], v, r, _, _, h => by simp [packCols] at h
  | m :: ms, c :: cs, v, r, hs, hc, h => by
    by_cases hk : kind groups m = .error
    · rw [packCols_cons_error _ _ _ _ _ _ hk] at h; cases h
    · rw [packCols_cons _ _ _ _ _ _ hk] at h
      rw [unpackCols_cons _ _ _ _ _ _ _ hk]
      simp only [shapeOK, List.all_cons, Bool.and_eq_true, beq_iff_eq] at hs
      obtain ⟨hc1, hc2⟩ := hc
      · cases hr : packCols op groups ms cs with
        | none => simp [hr] at h
        | some v' =>
          simp only [hr, Option.map_some, Option.some.injEq] at h
          subst h
          rw [List.append_assoc, unpackCol_packCol op hop n _ c (v' ++ r) hs.1 hc1]
          simp only
          rw [unpackCols_packCols op hop n groups ms cs v' r (by simpa [shapeOK] using hs.2) hc2 hr]
          rfl

theorem packCols_unpackCols (n : Nat) (hn : 1 ≤ n) (groups : Option Groups) :
    ∀ (modes : List Nat) (vect : List α) (cols : List (List α)), cols.length = modes.length →
      shapeOK n cols = true → modesOK n groups modes = true →
      packedLen n groups modes ≤ vect.length →
      ∃ cols', unpackCols n groups modes vect cols = some cols' ∧ shapeOK n cols' = true ∧
        packCols first groups modes cols' = some (vect.take (packedLen n groups modes))
  | [], vect, [], _, _, _, _ => ⟨[], by simp [unpackCols, packCols, packedLen, shapeOK]⟩
  | [], _, _ :: _, hl, _, _, _ => by simp at hl
  | _ :: _, _, [], hl, _, _, _ => by simp at hl
  | m :: ms, vect, c :: cs, hl, hs, hok, hv => by
    simp only [modesOK, List.all_cons, Bool.and_eq_true] at hok
    have hk : kind groups m ≠ .error := by
      intro h; rw [h] at hok; simp [kindOK] at hok
    simp only [shapeOK, List.all_cons, Bool.and_eq_true, beq_iff_eq] at hs
    have hpl : packedLen n groups (m :: ms) = kindLen n (kind groups m) + packedLen n groups ms := by
      simp [packedLen]
    rw [hpl] at hv
    obtain ⟨h1, h2, h3⟩ := packCol_unpackCol n hn (kind groups m) vect c hs.1 hok.1 (by omega)
    obtain ⟨cs', e1, e2, e3⟩ := packCols_unpackCols n hn groups ms
      (unpackCol n (kind groups m) vect c).2 cs (by simpa using hl) (by simpa [shapeOK] using hs.2)
      (by simpa [modesOK] using hok.2) (by rw [h2, List.length_drop]; omega)
    refine ⟨(unpackCol n (kind groups m) vect c).1 :: cs', ?_, ?_, ?_⟩
    · rw [unpackCols_cons _ _ _ _ _ _ _ hk, e1]; rfl
    · simp only [shapeOK, List.all_cons, Bool.and_eq_true, beq_iff_eq]
      exact ⟨h3, by simpa [shapeOK] using e2⟩
    · rw [packCols_cons _ _ _ _ _ _ hk, e3, h1, h2, hpl]
      simp only [Option.map_some, Option.some.injEq]
      rw [List.take_add]

end TrackpyV.Pack
