import TrackpyV.Proofs.LsqChain
/-!
`jacobian v` (Model/LsqJac.lean) is the gradient of `objective = residual ∘ unpack` at `v`:
assembly of `Proofs/PackFeed` (what a coordinate feeds), `Proofs/LsqChain` (derivative of a cluster
when one number is written into several features) and the row/column/scatter glue.
-/
namespace TrackpyV.Lsq
open TrackpyV.Pack
set_option linter.unusedSectionVars false
set_option linter.unusedVariables false

/-- The grouping of the BACKGROUND column is compatible with the clusters `cl` (`cl_groups`): every
set of features sharing one background entry of the vector contains a cluster or misses it.  The
code reads a cluster's background from its first feature only (`params[indices[0], 0]`) and
`jacobian` writes `n_cluster` equal shares, so this is exactly what makes column 0 of the gradient
array right.  It holds for the modes of the property: const, global, cluster (`groups[0]` IS
`cl_groups`; `groups=None` is a single cluster); mode 1 (var) only for single-feature clusters
(`FitFunctions.__init__` turns it into 3, L243-246). -/
def BgCompat : Kind → List (List ℕ) → Prop
  | .const, _ => True
  | .one, _ => True
  | .all, cl => ∀ c ∈ cl, c.length ≤ 1
  | .grouped gs, cl => ∀ s ∈ gs, ∀ c ∈ cl, (∀ r ∈ c, r ∈ s) ∨ (∀ r ∈ c, r ∉ s)
  | .error, _ => False

theorem BgCompat.feedCol (n : ℕ) (k : Kind) (cl : List (List ℕ)) (h : BgCompat k cl) (j : ℕ)
    (hj : j < kindLen n k) (hr : ∀ c ∈ cl, ∀ r ∈ c, r < n) (c : List ℕ) (hc : c ∈ cl) :
    (∀ r ∈ c, r ∈ feedCol n k j) ∨ (∀ r ∈ c, r ∉ feedCol n k j) := by
  cases k with
  | const => simp [kindLen] at hj
  | error => exact absurd h (by simp [BgCompat])
  | one => left; intro r hrc; simpa [Pack.feedCol] using hr c hc r hrc
  | all =>
    have hlen := h c hc
    rcases c with _ | ⟨a, _ | ⟨b, t⟩⟩
    · left; simp
    · by_cases ha : a = j
      · left; simp [Pack.feedCol, ha]
      · right; simp [Pack.feedCol, ha]
    · simp at hlen
  | grouped gs =>
    simp only [kindLen] at hj
    have hm : gs.getD j [] ∈ gs := by
      rw [List.getD_eq_getElem _ _ hj]; exact List.getElem_mem hj
    exact h _ hm c hc

theorem pairwise_mem_cases {β : Type} {R : β → β → Prop} {l : List β} (h : l.Pairwise R) {a b : β}
    (ha : a ∈ l) (hb : b ∈ l) : a = b ∨ R a b ∨ R b a := by
  induction h with
  | nil => cases ha
  | cons hx _ ih =>
    rcases List.mem_cons.1 ha with rfl | ha' <;> rcases List.mem_cons.1 hb with rfl | hb'
    · left; rfl
    · right; left; exact hx _ hb'
    · right; right; exact hx _ ha'
    · exact ih ha' hb'

/-- row `r` of the parameter array when `u` is written into column `i` on the rows `S` -/
def rowU (rows : List (List ℝ)) (i : ℕ) (S : List ℕ) (u : ℝ) (r : ℕ) : List ℝ :=
  if r ∈ S then (rows.getD r []).set i u else rows.getD r []

variable (g : Geo) (fn : Fn) (nd : ℝ)

/-- one cluster: derivative in a number written into column `i` of the rows `S` = sum over the
features of the cluster that lie in `S` of entry `i` of the row `jacobian` writes for them -/
theorem frame_hasDerivAt (rows : List (List ℝ)) (w : ℕ) (hw : w = 2 + g.nShape + fn.nParams)
    (fr : Frame ℝ) (i : ℕ) (hi : i < w) (S : List ℕ) (t0 : ℝ)
    (hrows : ∀ r ∈ fr.indices, (rows.getD r []).length = w)
    (hfix : ∀ r ∈ fr.indices, r ∈ S → (rows.getD r []).set i t0 = rows.getD r [])
    (hbg : i = 0 → (∀ r ∈ fr.indices, r ∈ S) ∨ (∀ r ∈ fr.indices, r ∉ S))
    (hadm : ∀ f ∈ featsOf g rows fr.indices, ∀ q ∈ fr.pixels, fr.act f.id q.id = true →
      Admissible g fn f q) :
    HasDerivAt
      (fun u => clusterRes g fn nd fr.act fr.L
        (fr.indices.zipIdx.map (fun x => mkFeat g x.2 (rowU rows i S u x.1))) fr.pixels)
      ((fr.indices.zipIdx.map (fun x => if x.1 ∈ S then
          (gradBg g fn nd fr.act fr.L (featsOf g rows fr.indices) fr.pixels ::
            gradRow g fn nd fr.act fr.L (featsOf g rows fr.indices) fr.pixels
              (mkFeat g x.2 (rows.getD x.1 []))).getD i 0 else 0)).sum) t0 := by
  have hmem : ∀ x ∈ fr.indices.zipIdx, x.1 ∈ fr.indices :=
    fun x hx => fst_mem_of_mem_zipIdx _ _ x hx
  have hfe : featsOf g rows fr.indices =
      fr.indices.zipIdx.map (fun x => mkFeat g x.2 (rows.getD x.1 [])) := rfl
  rw [hfe] at hadm ⊢
  generalize fr.indices.zipIdx = l at hmem hadm ⊢
  cases i with
  | zero =>
    rcases hbg rfl with hall | hnone
    · by_cases hne : l = []
      · subst hne
        simpa using hasDerivAt_const (𝕜 := ℝ) t0 (clusterRes g fn nd fr.act fr.L [] fr.pixels)
      · have hfun : ∀ u, l.map (fun x => mkFeat g x.2 (rowU rows 0 S u x.1)) =
            l.map (fun x => { mkFeat g x.2 (rows.getD x.1 []) with bg := u }) := by
          intro u
          apply List.map_congr_left
          intro x hx
          simp only [rowU, if_pos (hall _ (hmem x hx))]
          exact mkFeat_set_zero g x.2 _ u (by rw [hrows _ (hmem x hx)]; omega)
        simp only [hfun]
        have hb : ∀ x ∈ l, (mkFeat g x.2 (rows.getD x.1 [])).bg = t0 := by
          intro x hx
          have h1 := hfix _ (hmem x hx) (hall _ (hmem x hx))
          have h2 := getD_set_self (rows.getD x.1 []) 0 t0 0
            (by rw [hrows _ (hmem x hx)]; omega)
          rw [h1] at h2
          simpa [mkFeat] using h2
        refine (clusterRes_hasDerivAt_bgAll g fn nd fr.act fr.L l _ hne fr.pixels t0
          hb).congr_deriv ?_
        congr 1
        apply List.map_congr_left
        intro x hx
        simp [hall _ (hmem x hx)]
    · have hfun : ∀ u, l.map (fun x => mkFeat g x.2 (rowU rows 0 S u x.1)) =
          l.map (fun x => mkFeat g x.2 (rows.getD x.1 [])) := by
        intro u
        apply List.map_congr_left
        intro x hx
        simp only [rowU, if_neg (hnone _ (hmem x hx))]
      simp only [hfun]
      refine (hasDerivAt_const (𝕜 := ℝ) t0 _).congr_deriv ?_
      symm
      apply List.sum_eq_zero
      intro y hy
      obtain ⟨x, hx, rfl⟩ := List.mem_map.1 hy
      simp [hnone _ (hmem x hx)]
  | succ k =>
    have hfun : ∀ u, l.map (fun x => mkFeat g x.2 (rowU rows (k + 1) S u x.1)) =
        l.map (fun x => if decide (x.1 ∈ S) then (mkFeat g x.2 (rows.getD x.1 [])).setP k u
          else mkFeat g x.2 (rows.getD x.1 [])) := by
      intro u
      apply List.map_congr_left
      intro x hx
      by_cases hS : x.1 ∈ S
      · simp only [rowU, if_pos hS]
        rw [if_pos (decide_eq_true hS)]
        exact mkFeat_set_succ g x.2 _ k u (by rw [hrows _ (hmem x hx)]; omega)
          (by rw [hrows _ (hmem x hx)]; omega)
      · simp [rowU, hS]
    simp only [hfun]
    refine (clusterRes_hasDerivAt_multi g fn nd fr.act fr.L l
      (fun x => mkFeat g x.2 (rows.getD x.1 [])) (fun x => decide (x.1 ∈ S)) fr.pixels k t0
      ?_ ?_ (by omega) ?_ ?_).congr_deriv ?_
    · intro x hx _
      exact mkFeat_theta_length g x.2 _ (by rw [hrows _ (hmem x hx)]; omega)
    · intro x hx _
      rw [mkFeat_fp_length, hrows _ (hmem x hx)]; omega
    · intro x hx hp
      have hS : x.1 ∈ S := by simpa using hp
      rw [← mkFeat_set_succ g x.2 _ k t0 (by rw [hrows _ (hmem x hx)]; omega)
        (by rw [hrows _ (hmem x hx)]; omega), hfix _ (hmem x hx) hS]
    · intro x hx _ q hq ha
      exact hadm _ (List.mem_map_of_mem hx) q hq ha
    · congr 1
      apply List.map_congr_left
      intro x hx
      simp

/-- **jacobian = gradient of (residual ∘ unpack)**, core statement (restated in `Props/C15Chain`) -/
theorem jacobian_hasDerivAt (norm : ℝ) (n : ℕ) (groups : Option Groups) (modes : List ℕ)
    (pconst : List (List ℝ)) (frames : List (Frame ℝ)) (v : List ℝ)
    (hw : modes.length = 2 + g.nShape + fn.nParams)
    (hl : pconst.length = modes.length) (hs : shapeOK n pconst = true)
    (hok : modesOK n groups modes = true) (hv : v.length = packedLen n groups modes)
    (hpart : ((frames.map (·.indices)).flatten).Perm (List.range n))
    (hbg : BgCompat (kind groups (modes.headD 0)) (frames.map (·.indices)))
    (hadm : ∀ U, unpack n groups modes v pconst = some U → ∀ fr ∈ frames,
      ∀ f ∈ featsOf g (transpose n U) fr.indices, ∀ q ∈ fr.pixels,
        fr.act f.id q.id = true → Admissible g fn f q) :
    ∃ J, jacobian g fn nd norm n groups modes pconst frames v = some J ∧ J.length = v.length ∧
      ∀ j, j < v.length → ∃ φ : ℝ → ℝ,
        (∀ u, objective g fn nd norm n groups modes pconst frames (v.set j u) = some (φ u)) ∧
        HasDerivAt φ (J.getD j 0) (v.getD j 0) := by
  have hm : modes ≠ [] := by
    intro h; rw [h] at hw; simp at hw; omega
  obtain ⟨U, hU, hUlen, hUshape⟩ := unpackCols_some n groups modes v pconst hl hs hok (by omega)
  have hunp : unpack n groups modes v pconst = some U := by rw [unpack, if_neg hm]; exact hU
  have hadm' := hadm U hunp
  have hidx : ∀ fr ∈ frames, ∀ r ∈ fr.indices, r < n := by
    intro fr hfr r hr
    have : r ∈ (frames.map (·.indices)).flatten :=
      List.mem_flatten.2 ⟨fr.indices, List.mem_map_of_mem hfr, hr⟩
    simpa using hpart.mem_iff.1 this
  have hrowlen : ∀ r, r < n → ((transpose n U).getD r []).length = modes.length := by
    intro r hr; rw [length_getD_transpose _ _ _ hr, hUlen]
  -- the array `result` and its packing
  let rowvec : Frame ℝ → ℕ × ℕ → List ℝ := fun fr x =>
    gradBg g fn nd fr.act fr.L (featsOf g (transpose n U) fr.indices) fr.pixels ::
      gradRow g fn nd fr.act fr.L (featsOf g (transpose n U) fr.indices) fr.pixels
        (mkFeat g x.2 ((transpose n U).getD x.1 []))
  have hpairs : (frames.flatMap (fun fr =>
      fr.indices.zip (gradRows g fn nd (clusterOf g (transpose n U) fr)))) =
      frames.flatMap (fun fr => fr.indices.zipIdx.map (fun x => (x.1, rowvec fr x))) := by
    congr 1
    funext fr
    simp only [gradRows, clusterOf, featsOf, List.map_map, Function.comp_def]
    exact zip_zipIdx_map fr.indices _ 0
  have hkeys : ((frames.flatMap (fun fr =>
      fr.indices.zipIdx.map (fun x => (x.1, rowvec fr x)))).map Prod.fst).Nodup := by
    rw [List.map_flatMap]
    have : (fun fr : Frame ℝ => List.map Prod.fst (fr.indices.zipIdx.map
        (fun x => (x.1, rowvec fr x)))) = fun fr => fr.indices := by
      funext fr
      rw [List.map_map]
      exact List.zipIdx_map_fst 0 fr.indices
    rw [this, List.flatMap_def]
    exact hpart.nodup_iff.2 List.nodup_range
  obtain ⟨result, hresdef⟩ : ∃ result, result = scatter (transpose n U) (frames.flatMap (fun fr =>
      fr.indices.zipIdx.map (fun x => (x.1, rowvec fr x)))) := ⟨_, rfl⟩
  have hreslen : result.length = n := by rw [hresdef, length_scatter, length_transpose]
  have hresget : ∀ fr ∈ frames, ∀ x ∈ fr.indices.zipIdx, result.getD x.1 [] = rowvec fr x := by
    intro fr hfr x hx
    rw [hresdef]
    apply getD_scatter_of_mem _ _ _ _ hkeys
    · exact List.mem_flatMap.2 ⟨fr, hfr, List.mem_map_of_mem (f := fun x => (x.1, rowvec fr x)) hx⟩
    · rw [length_transpose]
      exact hidx fr hfr _ (fst_mem_of_mem_zipIdx _ _ x hx)
  have hGlen : (transpose modes.length result).length = modes.length := length_transpose _ _
  have hGshape : shapeOK n (transpose modes.length result) = true := by
    simp only [shapeOK, List.all_eq_true, beq_iff_eq]
    intro c hc
    simp only [transpose, List.mem_map, List.mem_range] at hc
    obtain ⟨i, _, rfl⟩ := hc
    simp [hreslen]
  obtain ⟨pv, _, hpv, _, hpvlen, _⟩ :=
    dot_packCols n groups modes (transpose modes.length result) v hGlen hGshape hok (by omega)
  refine ⟨pv.map (· / norm), ?_, by simp [hpvlen, hv], ?_⟩
  · simp only [jacobian, hunp, hpairs, ← hresdef, zero_real, pack, if_neg hm, hpv, Option.map_some]
  intro j hj
  have hjp : j < packedLen n groups modes := by omega
  obtain ⟨hi, hSlt, hSnd⟩ := feed_spec n groups modes j hok hjp
  have hset := fun u => unpackCols_set n groups modes v pconst U j u hs hok (by omega) hjp hU
  have hpvj := packCols_sum_getD n groups modes (transpose modes.length result) pv j hGshape hjp hpv
  -- compatibility of the background grouping with the clusters
  have hbgc : (feed n groups modes j).1 = 0 → ∀ fr ∈ frames,
      (∀ r ∈ fr.indices, r ∈ (feed n groups modes j).2) ∨
        (∀ r ∈ fr.indices, r ∉ (feed n groups modes j).2) := by
    intro hi0 fr hfr
    obtain ⟨m, ms, rfl⟩ := List.exists_cons_of_ne_nil hm
    obtain ⟨hlt, hS⟩ := feed_fst_eq_zero n groups m ms j hi0
    rw [hS]
    refine BgCompat.feedCol n _ _ hbg j hlt ?_ fr.indices (List.mem_map_of_mem hfr)
    intro c hc r hr
    obtain ⟨fr', hfr', rfl⟩ := List.mem_map.1 hc
    exact hidx fr' hfr' r hr
  -- the column / rows fed by coordinate `j`
  generalize (feed n groups modes j).1 = i at hi hset hpvj hbgc
  generalize (feed n groups modes j).2 = S at hSlt hSnd hset hpvj hbgc
  refine ⟨fun u => residual g fn nd norm (frames.map (clusterOf g
    (transpose n (U.set i (setAll (U.getD i []) S u))))), ?_, ?_⟩
  · intro u
    simp only [objective, unpack, if_neg hm, hset u, Option.map_some]
  have hUi : (U.getD i []).length = n := by
    have hmem : U.getD i [] ∈ U := by
      rw [List.getD_eq_getElem _ _ (by omega)]; exact List.getElem_mem _
    simpa using (List.all_eq_true.1 hUshape) _ hmem
  have hbase : U.set i (setAll (U.getD i []) S (v.getD j 0)) = U := by
    have := hset (v.getD j 0)
    rw [list_set_getD_self, hU] at this
    exact (Option.some.inj this).symm
  have hrowU : ∀ u r, r < n → (transpose n (U.set i (setAll (U.getD i []) S u))).getD r [] =
      rowU (transpose n U) i S u r := by
    intro u r hr
    exact getD_transpose_set n U i S u r hr (by omega) hUi
  have hfix : ∀ r, r < n → r ∈ S →
      ((transpose n U).getD r []).set i (v.getD j 0) = (transpose n U).getD r [] := by
    intro r hr hS
    have := hrowU (v.getD j 0) r hr
    rw [hbase] at this
    simp only [rowU, if_pos hS] at this
    exact this.symm
  -- the objective as a sum over the clusters
  have hφ : ∀ u, residual g fn nd norm (frames.map (clusterOf g
      (transpose n (U.set i (setAll (U.getD i []) S u))))) =
      (frames.map (fun fr => clusterRes g fn nd fr.act fr.L
        (fr.indices.zipIdx.map (fun x => mkFeat g x.2 (rowU (transpose n U) i S u x.1)))
        fr.pixels)).sum / norm := by
    intro u
    simp only [residual, lsum_real, List.map_map, Function.comp_def, clusterOf, featsOf]
    congr 2
    apply List.map_congr_left
    intro fr hfr
    congr 1
    apply List.map_congr_left
    intro x hx
    rw [hrowU u _ (hidx fr hfr _ (fst_mem_of_mem_zipIdx _ _ x hx))]
  simp only [hφ]
  have hcl : ∀ fr ∈ frames, HasDerivAt
      (fun u => clusterRes g fn nd fr.act fr.L
        (fr.indices.zipIdx.map (fun x => mkFeat g x.2 (rowU (transpose n U) i S u x.1))) fr.pixels)
      ((fr.indices.zipIdx.map (fun x => if x.1 ∈ S then (rowvec fr x).getD i 0 else 0)).sum)
      (v.getD j 0) := by
    intro fr hfr
    exact frame_hasDerivAt g fn nd (transpose n U) modes.length hw fr i hi S (v.getD j 0)
      (fun r hr => hrowlen r (hidx fr hfr r hr)) (fun r hr hS => hfix r (hidx fr hfr r hr) hS)
      (fun h0 => hbgc h0 fr hfr) (hadm' fr hfr)
  refine ((hasDerivAt_list_sum frames _ _ _ hcl).div_const norm).congr_deriv ?_
  have hJ : (pv.map (· / norm)).getD j 0 = pv.getD j 0 / norm := by
    have : j < pv.length := by omega
    simp [List.getD_eq_getElem?_getD, this]
  rw [hJ, hpvj]
  congr 1
  -- the sum over clusters and their features is the sum over the rows `S` of column `i` of `result`
  have h1 : ∀ fr ∈ frames, (fr.indices.zipIdx.map (fun x =>
      if x.1 ∈ S then (rowvec fr x).getD i 0 else 0)).sum =
      (fr.indices.map (fun r => if r ∈ S then (result.getD r []).getD i 0 else 0)).sum := by
    intro fr hfr
    have e : fr.indices.map (fun r => if r ∈ S then (result.getD r []).getD i 0 else 0) =
        (fr.indices.zipIdx.map Prod.fst).map
          (fun r => if r ∈ S then (result.getD r []).getD i 0 else 0) := by
      rw [List.zipIdx_map_fst]
    rw [e, List.map_map]
    congr 1
    apply List.map_congr_left
    intro x hx
    simp only [Function.comp, hresget fr hfr x hx]
  rw [List.map_congr_left h1]
  have h2 : (frames.map (fun fr => (fr.indices.map
      (fun r => if r ∈ S then (result.getD r []).getD i 0 else 0)).sum)).sum =
      (((frames.map (·.indices)).flatten).map
        (fun r => if r ∈ S then (result.getD r []).getD i 0 else 0)).sum := by
    rw [List.map_flatten, List.sum_flatten, List.map_map, List.map_map]
    rfl
  rw [h2, (hpart.map _).sum_eq, sum_map_ite_mem _ S _ List.nodup_range hSnd
    (fun r hr => List.mem_range.2 (hSlt r hr))]
  simp only [gather]
  congr 1
  apply List.map_congr_left
  intro r hr
  rw [getD_transpose _ _ _ hi]
  have : r < result.length := by rw [hreslen]; exact hSlt r hr
  simp [List.getD_eq_getElem?_getD, this]

end TrackpyV.Lsq
