import TrackpyV.Proofs.DriftSmooth
/-
Helper lemmas for the invariance theorems of C18 (Props/C18Inv.lean): how the pipeline
`sortPF → maskedPairs → maskedDiffs → groupMean → (smoothCurve) → cumsum` and `subtractDrift` react
to a row transformation `g` that keeps the particle id, shifts every frame number by a constant `n`
and acts affinely (`x ↦ c·x + v`) on position column `k`.  The row transformations themselves
(`scaleRow`, `reframeRow`, `relabelRow`; the translation is the model's `shiftRow` with a
frame-independent offset) are specification vocabulary, not part of the executable model.
-/
namespace TrackpyV.Drift
open List

/-- change of length unit: column `j` of every position multiplied by `c j` -/
def scaleRow (c : Nat → Rat) (r : Row) : Row := { r with pos := r.pos.mapIdx (fun j x => c j * x) }

/-- renumbering of the frames: the constant `n` added to the frame number -/
def reframeRow (n : Int) (r : Row) : Row := { r with frame := r.frame + n }

/-- renaming of the particle ids -/
def relabelRow (σ : Int → Int) (r : Row) : Row := { r with particle := σ r.particle }

/-! ## the sort commutes with an order-preserving map -/

theorem insertBy_map {α} (le : α → α → Bool) (g : α → α) (h : ∀ a b, le (g a) (g b) = le a b)
    (r : α) (l : List α) : insertBy le (g r) (l.map g) = (insertBy le r l).map g := by
  induction l with
  | nil => rfl
  | cons a l ih =>
    simp only [map_cons, insertBy, h]
    split
    · simp
    · simp [ih]

theorem sortBy_map {α} (le : α → α → Bool) (g : α → α) (h : ∀ a b, le (g a) (g b) = le a b)
    (l : List α) : sortBy le (l.map g) = (sortBy le l).map g := by
  induction l with
  | nil => rfl
  | cons a l ih =>
    unfold sortBy at *
    simp only [map_cons, foldr_cons]
    rw [ih, insertBy_map le g h]

section rowmap
variable (g : Row → Row) (n : Int)

theorem lePF_map (hp : ∀ r, (g r).particle = r.particle) (hf : ∀ r, (g r).frame = r.frame + n)
    (a b : Row) : lePF (g a) (g b) = lePF a b := by
  unfold lePF; rw [hp, hp, hf, hf]; exact decide_eq_decide.mpr (by omega)

theorem leFP_map (hp : ∀ r, (g r).particle = r.particle) (hf : ∀ r, (g r).frame = r.frame + n)
    (a b : Row) : leFP (g a) (g b) = leFP a b := by
  unfold leFP; rw [hp, hp, hf, hf]; exact decide_eq_decide.mpr (by omega)

theorem mask_map (hp : ∀ r, (g r).particle = r.particle) (hf : ∀ r, (g r).frame = r.frame + n)
    (a b : Row) : mask (g a) (g b) = mask a b := by
  unfold mask; rw [hp, hp, hf, hf]; exact decide_eq_decide.mpr (by omega)

theorem maskedPairs_map (hm : ∀ a b, mask (g a) (g b) = mask a b) (s : List Row) :
    maskedPairs (s.map g) = (maskedPairs s).map (fun p => (g p.1, g p.2)) := by
  induction s with
  | nil => rfl
  | cons a s ih =>
    cases s with
    | nil => rfl
    | cons b l =>
      have ih' : maskedPairs (g b :: l.map g) = (maskedPairs (b :: l)).map (fun p => (g p.1, g p.2)) := by
        simpa using ih
      show (if mask (g a) (g b) then [(g a, g b)] else []) ++ maskedPairs (g b :: l.map g) = _
      rw [ih', hm]
      show _ = ((if mask a b then [(a, b)] else []) ++ maskedPairs (b :: l)).map _
      rw [map_append]
      split <;> rfl

theorem mem_of_mem_maskedPairs {s : List Row} {p : Row × Row} (h : p ∈ maskedPairs s) :
    p.1 ∈ s ∧ p.2 ∈ s := by
  induction s with
  | nil => simp [maskedPairs] at h
  | cons a s ih =>
    cases s with
    | nil => simp [maskedPairs] at h
    | cons b l =>
      rw [maskedPairs, mem_append] at h
      rcases h with h | h
      · split at h
        · simp at h; subst h; simp
        · simp at h
      · have := ih h
        exact ⟨mem_cons_of_mem _ this.1, mem_cons_of_mem _ this.2⟩

/-- the masked differences of column `k` after the row map: frames shifted, values scaled -/
theorem maskedDiffs_map (hp : ∀ r, (g r).particle = r.particle)
    (hf : ∀ r, (g r).frame = r.frame + n) (k : Nat) (c v : Rat) (t : List Row)
    (hx : ∀ r ∈ t, (g r).x k = c * r.x k + v) :
    maskedDiffs k (sortPF (t.map g))
      = (maskedDiffs k (sortPF t)).map (fun e => (e.1 + n, c * e.2)) := by
  unfold maskedDiffs sortPF
  rw [sortBy_map lePF g (lePF_map g n hp hf), maskedPairs_map g (mask_map g n hp hf), map_map,
    map_map]
  apply map_congr_left
  intro p hpm
  have hm := mem_of_mem_maskedPairs hpm
  have h1 := hx _ ((sortBy_perm _ t).mem_iff.mp hm.1)
  have h2 := hx _ ((sortBy_perm _ t).mem_iff.mp hm.2)
  simp only [Function.comp, hf, h1, h2]
  congr 1
  ring

end rowmap

/-! ## groupMean, rolling mean, cumsum under `(f, y) ↦ (f + n, c·y)` -/

theorem insertU_shift (n f : Int) (l : List Int) :
    insertU (f + n) (l.map (· + n)) = (insertU f l).map (· + n) := by
  induction l with
  | nil => rfl
  | cons a l ih =>
    simp only [map_cons, insertU]
    by_cases h1 : f < a
    · have : f + n < a + n := by omega
      simp [h1, this]
    · have h1' : ¬ f + n < a + n := by omega
      by_cases h2 : f = a
      · subst h2; simp
      · have h2' : ¬ f + n = a + n := by omega
        simp only [h1, h1', h2, h2', if_false, map_cons, ih]

theorem sortDedup_shift (n : Int) (l : List Int) :
    sortDedup (l.map (· + n)) = (sortDedup l).map (· + n) := by
  induction l with
  | nil => rfl
  | cons a l ih =>
    unfold sortDedup at *
    simp only [map_cons, foldr_cons]
    rw [ih, insertU_shift]

theorem sum_map_mul (c : Rat) (l : List Rat) : (l.map (c * ·)).sum = c * l.sum := by
  induction l with
  | nil => simp
  | cons a l ih => simp only [map_cons, sum_cons, ih]; ring

theorem mean_map_mul (c : Rat) (l : List Rat) : mean (l.map (c * ·)) = c * mean l := by
  unfold mean
  rw [sum_map_mul, length_map]; ring

theorem groupMean_map (n : Int) (c : Rat) (m : List (Int × Rat)) :
    groupMean (m.map (fun e => (e.1 + n, c * e.2)))
      = (groupMean m).map (fun e => (e.1 + n, c * e.2)) := by
  unfold groupMean
  rw [map_map, map_map]
  have h0 : (Prod.fst ∘ fun e : Int × Rat => (e.1 + n, c * e.2)) = (· + n) ∘ Prod.fst := rfl
  rw [h0, ← map_map, sortDedup_shift, map_map]
  apply map_congr_left
  intro f _
  simp only [Function.comp]
  congr 1
  rw [filter_map, map_map]
  have h1 : ((fun e : Int × Rat => e.1 == f + n) ∘ fun e : Int × Rat => (e.1 + n, c * e.2))
      = (fun e => e.1 == f) := by
    funext e; simp
  rw [h1, ← mean_map_mul, map_map]
  rfl

theorem cumsum_map (n : Int) (c : Rat) (acc : Rat) (l : List (Int × Rat)) :
    cumsum (c * acc) (l.map (fun e => (e.1 + n, c * e.2)))
      = (cumsum acc l).map (fun e => (e.1 + n, c * e.2)) := by
  induction l generalizing acc with
  | nil => rfl
  | cons e l ih =>
    obtain ⟨f, v⟩ := e
    simp only [map_cons, cumsum]
    rw [← mul_add, ih]

theorem cumsum_map0 (n : Int) (c : Rat) (l : List (Int × Rat)) :
    cumsum 0 (l.map (fun e => (e.1 + n, c * e.2)))
      = (cumsum 0 l).map (fun e => (e.1 + n, c * e.2)) := by
  have := cumsum_map n c 0 l
  rwa [mul_zero] at this

theorem smoothVals_map (w : Nat) (c : Rat) (xs : List Rat) :
    smoothVals w (xs.map (c * ·)) = (smoothVals w xs).map (c * ·) := by
  unfold smoothVals
  split
  · unfold rollingMean
    rw [length_map, map_map]
    apply map_congr_left
    intro i _
    simp only [Function.comp, window, ← map_take, ← map_drop]
    exact mean_map_mul c _
  · rfl

theorem smoothCurve_map (w : Nat) (n : Int) (c : Rat) (l : List (Int × Rat)) :
    smoothCurve w (l.map (fun e => (e.1 + n, c * e.2)))
      = (smoothCurve w l).map (fun e => (e.1 + n, c * e.2)) := by
  unfold smoothCurve
  rw [map_map, map_map]
  have h0 : (Prod.fst ∘ fun e : Int × Rat => (e.1 + n, c * e.2)) = (· + n) ∘ Prod.fst := rfl
  have h1 : (Prod.snd ∘ fun e : Int × Rat => (e.1 + n, c * e.2)) = (c * ·) ∘ Prod.snd := rfl
  rw [h0, h1, ← map_map, ← map_map (f := Prod.snd), smoothVals_map, zip_map]
  rfl

/-- value of the re-indexed, rescaled curve -/
theorem driftAt_reindex (n : Int) (c : Rat) (l : List (Int × Rat)) (f : Int) :
    driftAt (l.map (fun e => (e.1 + n, c * e.2))) (f + n) = c * driftAt l f := by
  unfold driftAt
  induction l with
  | nil => simp
  | cons e l ih =>
    obtain ⟨g, v⟩ := e
    simp only [map_cons, lookup_cons]
    by_cases h : f = g
    · subst h; simp
    · have h1 : (f == g) = false := by simp [h]
      have h2 : (f + n == g + n) = false := by simp [h]
      rw [h1, h2]; exact ih

/-! ## the master statements: the whole pipeline of column `k` -/

theorem computeDriftCol_map (g : Row → Row) (n : Int) (hp : ∀ r, (g r).particle = r.particle)
    (hf : ∀ r, (g r).frame = r.frame + n) (k : Nat) (c v : Rat) (t : List Row)
    (hx : ∀ r ∈ t, (g r).x k = c * r.x k + v) :
    computeDriftCol k (t.map g) = (computeDriftCol k t).map (fun e => (e.1 + n, c * e.2)) := by
  unfold computeDriftCol
  rw [maskedDiffs_map g n hp hf k c v t hx, groupMean_map, cumsum_map0]

theorem driftSmoothedCol_map (g : Row → Row) (n : Int) (hp : ∀ r, (g r).particle = r.particle)
    (hf : ∀ r, (g r).frame = r.frame + n) (w k : Nat) (c v : Rat) (t : List Row)
    (hx : ∀ r ∈ t, (g r).x k = c * r.x k + v) :
    driftSmoothedCol w k (t.map g)
      = (driftSmoothedCol w k t).map (fun e => (e.1 + n, c * e.2)) := by
  unfold driftSmoothedCol
  rw [maskedDiffs_map g n hp hf k c v t hx, groupMean_map, smoothCurve_map, cumsum_map0]

/-! ## the specification side under a map that may also rename the particles injectively -/

section specmap
variable (g : Row → Row) (n : Int)
  (hp : ∀ a b, (g a).particle = (g b).particle ↔ a.particle = b.particle)
  (hf : ∀ r, (g r).frame = r.frame + n)
include hp hf

theorem pairsAt_map' (t : List Row) (f : Int) :
    pairsAt (t.map g) (f + n) = (pairsAt t f).map (fun p => (g p.1, g p.2)) := by
  unfold pairsAt
  rw [flatMap_map, map_flatMap]
  apply flatMap_congr
  intro r _
  have hc : ((g r).frame = f + n) ↔ r.frame = f := by rw [hf]; omega
  simp only [hc]
  split
  · rw [filter_map, map_map, map_map]
    have : (isPrev (g r) ∘ g) = isPrev r := by
      funext a
      simp only [isPrev, Function.comp, hf, hp]
      exact decide_eq_decide.mpr (by omega)
    rw [this]; rfl
  · simp

theorem mframes_map' (t : List Row) : mframes (t.map g) = (mframes t).map (· + n) := by
  apply sorted_ext (mframes_sorted _)
    (by rw [pairwise_map]; exact (mframes_sorted t).imp (fun h => by omega))
  intro x
  have hx : x = (x - n) + n := by omega
  rw [mem_map, mem_mframes]
  constructor
  · intro h
    refine ⟨x - n, mem_mframes.mpr ?_, by omega⟩
    intro h0; apply h; rw [hx, pairsAt_map' g n hp hf, h0]; rfl
  · rintro ⟨y, hy, rfl⟩
    rw [pairsAt_map' g n hp hf]
    have := mem_mframes.mp hy
    simpa using this

theorem keysNodup_map' (t : List Row) : KeysNodup (t.map g) ↔ KeysNodup t := by
  unfold KeysNodup
  rw [pairwise_map]
  constructor
  · intro h
    exact h.imp (fun h1 h2 => h1 ⟨(hp _ _).2 h2.1, by rw [hf, hf, h2.2]⟩)
  · intro h
    exact h.imp (fun h1 h2 => h1 ⟨(hp _ _).1 h2.1, by have := h2.2; rw [hf, hf] at this; omega⟩)

theorem meanDisp_map' (k : Nat) (t : List Row) (hx : ∀ r ∈ t, (g r).x k = r.x k) (f : Int) :
    meanDisp k (t.map g) (f + n) = meanDisp k t f := by
  unfold meanDisp disps
  rw [pairsAt_map' g n hp hf, map_map]
  congr 1
  apply map_congr_left
  rintro ⟨a, r⟩ hpr
  have h := mem_pairsAt.mp hpr
  simp only [Function.comp]
  rw [hx r h.1, hx a h.2.1]

theorem contig_mframes_map' (t : List Row) (h : Contig (mframes t)) :
    Contig (mframes (t.map g)) := by
  rw [mframes_map' g n hp hf]
  intro m0' rest' heq f hfm
  cases hm : mframes t with
  | nil => rw [hm] at heq; simp at heq
  | cons m0 rest =>
    rw [hm] at heq
    simp only [map_cons, cons.injEq] at heq
    obtain ⟨_, rfl⟩ := heq
    obtain ⟨y, hy, rfl⟩ := mem_map.mp hfm
    have := h m0 rest hm y hy
    rw [hm] at this
    exact mem_map.mpr ⟨y - 1, this, by omega⟩

theorem laterFramesMeasured_map' (t : List Row) (h : LaterFramesMeasured t) :
    LaterFramesMeasured (t.map g) := by
  intro m0' rest' heq r' hr' hlt
  rw [mframes_map' g n hp hf] at heq ⊢
  obtain ⟨r, hr, rfl⟩ := mem_map.mp hr'
  cases hm : mframes t with
  | nil => rw [hm] at heq; simp at heq
  | cons m0 rest =>
    rw [hm] at heq
    simp only [map_cons, cons.injEq] at heq
    obtain ⟨rfl, _⟩ := heq
    rw [hf] at hlt ⊢
    have := h m0 rest hm r hr (by omega)
    rw [← hm]
    exact mem_map.mpr ⟨r.frame, this, rfl⟩

theorem specDrift_map' (k : Nat) (t : List Row) (hx : ∀ r ∈ t, (g r).x k = r.x k) (f : Int) :
    specDrift k (t.map g) (f + n) = specDrift k t f := by
  unfold specDrift
  rw [mframes_map' g n hp hf, filter_map, map_map]
  have hfil : ((fun y : Int => decide (y ≤ f + n)) ∘ (· + n)) = fun y => decide (y ≤ f) := by
    funext y
    show decide (y + n ≤ f + n) = decide (y ≤ f)
    exact decide_eq_decide.mpr (by omega)
  rw [hfil]
  congr 1
  apply map_congr_left
  intro y _
  exact meanDisp_map' g n hp hf k t hx y

/-- the pipeline under a map that may rename particles (valid tables only: the sort order changes) -/
theorem computeDriftCol_map' (k : Nat) (t : List Row) (h : KeysNodup t)
    (hx : ∀ r ∈ t, (g r).x k = r.x k) :
    computeDriftCol k (t.map g) = (computeDriftCol k t).map (fun e => (e.1 + n, e.2)) := by
  rw [computeDriftCol_eq k _ ((keysNodup_map' g n hp hf t).2 h), computeDriftCol_eq k t h,
    mframes_map' g n hp hf, map_map, map_map]
  apply map_congr_left
  intro f _
  simp only [Function.comp, specDrift_map' g n hp hf k t hx f]

end specmap

/-! ## rows -/

theorem scaleRow_x (c : Nat → Rat) (r : Row) (k : Nat) : (scaleRow c r).x k = c k * r.x k := by
  unfold Row.x scaleRow
  simp only [getD_eq_getElem?_getD, getElem?_mapIdx]
  cases r.pos[k]? <;> simp

theorem ownDrift_getD_ge (d : Nat) (t : List Row) (k : Nat) (hk : ¬ k < d) :
    (ownDrift d t).getD k [] = [] := by
  simp [ownDrift, getD_eq_getElem?_getD, hk]

theorem ownDriftSmoothed_getD_ge (w d : Nat) (t : List Row) (k : Nat) (hk : ¬ k < d) :
    (ownDriftSmoothed w d t).getD k [] = [] := by
  simp [ownDriftSmoothed, getD_eq_getElem?_getD, hk]

/-- `subtractDrift` commutes with a key-order-preserving row map that commutes with `subRow` -/
theorem subtractDrift_map (g : Row → Row) (n : Int) (hp : ∀ r, (g r).particle = r.particle)
    (hf : ∀ r, (g r).frame = r.frame + n) (ds ds' : List (List (Int × Rat))) (t : List Row)
    (hs : ∀ r ∈ t, subRow ds' (g r) = g (subRow ds r)) :
    subtractDrift ds' (t.map g) = (subtractDrift ds t).map g := by
  unfold subtractDrift sortFP
  rw [← sortBy_map leFP g (leFP_map g n hp hf), map_map, map_map]
  congr 1
  apply map_congr_left
  intro r hr
  exact hs r hr

theorem subRow_scaleRow (c : Nat → Rat) (ds ds' : List (List (Int × Rat))) (r : Row)
    (h : ∀ k, driftAt (ds'.getD k []) r.frame = c k * driftAt (ds.getD k []) r.frame) :
    subRow ds' (scaleRow c r) = scaleRow c (subRow ds r) := by
  unfold subRow scaleRow
  simp only [Row.mk.injEq, true_and, and_true]
  apply List.ext_getElem?
  intro i
  simp only [getElem?_mapIdx]
  cases r.pos[i]? with
  | none => rfl
  | some x => simp only [Option.map_some, h i]; congr 1; ring

theorem subRow_shiftRow (v : Nat → Rat) (ds : List (List (Int × Rat))) (r : Row) :
    subRow ds (shiftRow (fun j _ => v j) r) = shiftRow (fun j _ => v j) (subRow ds r) := by
  unfold subRow shiftRow
  simp only [Row.mk.injEq, true_and, and_true]
  apply List.ext_getElem?
  intro i
  simp only [getElem?_mapIdx]
  cases r.pos[i]? with
  | none => rfl
  | some x => simp only [Option.map_some]; congr 1; ring

theorem subRow_reframeRow (n : Int) (ds ds' : List (List (Int × Rat))) (r : Row)
    (h : ∀ k, driftAt (ds'.getD k []) (r.frame + n) = driftAt (ds.getD k []) r.frame) :
    subRow ds' (reframeRow n r) = reframeRow n (subRow ds r) := by
  unfold subRow reframeRow
  simp only [Row.mk.injEq, true_and, and_true]
  apply List.ext_getElem?
  intro i
  simp only [getElem?_mapIdx, h i]

end TrackpyV.Drift
