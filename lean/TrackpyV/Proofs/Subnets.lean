import TrackpyV.Model.Linker
import TrackpyV.Proofs.Assign
/-!
Structure of the sub-nets computed by `Linker.subnets` (mirror of `Subnets.reset/compute` +
`assign_subnet`): the groups partition the destinations, and they are closed under candidate
edges (every source sits in a group that contains all its candidate destinations).  Hence the
candidate destinations of different groups are disjoint — the hypothesis of
`Assign.groups_compose_list` — as a theorem rather than a run-time check.
-/
namespace TrackpyV.Linker
open TrackpyV.Assign

/-- invariant of the fold in `subnets`, relative to a function giving each source's real
candidate destinations -/
structure GroupsInv (n : Nat) (dsOf : Nat → List Nat) (gs : List Group) : Prop where
  dests_perm : (gs.flatMap (·.2)).Perm (List.range n)
  closed : ∀ g ∈ gs, ∀ i ∈ g.1, ∀ d ∈ dsOf i, d ∈ g.2

theorem filter_flatMap_perm (gs : List Group) (p : Group → Bool) :
    ((gs.filter p).flatMap (·.2) ++ (gs.filter (fun g => !(p g))).flatMap (·.2)).Perm
      (gs.flatMap (·.2)) := by
  induction gs with
  | nil => simp
  | cons g gs ih =>
    by_cases hp : p g = true
    · simp only [List.filter_cons, hp, if_true, Bool.not_true, Bool.false_eq_true, if_false,
        List.flatMap_cons, List.append_assoc]
      exact List.Perm.append_left _ ih
    · have hp' : p g = false := by simpa using hp
      simp only [List.filter_cons, hp', Bool.false_eq_true, if_false, Bool.not_false, if_true,
        List.flatMap_cons]
      refine List.Perm.trans ?_ (List.Perm.append_left _ ih)
      rw [← List.append_assoc, ← List.append_assoc]
      exact List.Perm.append_right _ List.perm_append_comm

theorem addSource_inv (n : Nat) (dsOf : Nat → List Nat) (gs : List Group) (i : Nat)
    (h : GroupsInv n dsOf gs) (hlt : ∀ d ∈ dsOf i, d < n) :
    GroupsInv n dsOf (addSource i (dsOf i) gs) := by
  unfold addSource
  by_cases he : (dsOf i).isEmpty = true
  · simp only [he, if_true]; exact h
  · simp only [he, Bool.false_eq_true, if_false]
    constructor
    · simp only [List.flatMap_cons]
      exact (filter_flatMap_perm gs (hasDest (dsOf i))).trans h.dests_perm
    · intro g hg j hj d hd
      rcases List.mem_cons.mp hg with rfl | hg
      · -- the merged group
        simp only at hj ⊢
        rcases List.mem_cons.mp hj with rfl | hj
        · -- the new source: each of its destinations lies in some (hit) group
          have hdn : d < n := hlt d hd
          have : d ∈ gs.flatMap (·.2) := (h.dests_perm.mem_iff).mpr (List.mem_range.mpr hdn)
          simp only [List.mem_flatMap] at this ⊢
          obtain ⟨g0, hg0, hdg0⟩ := this
          refine ⟨g0, ?_, hdg0⟩
          simp only [List.mem_filter, hasDest, List.any_eq_true, List.contains_eq_mem,
            decide_eq_true_eq]
          exact ⟨hg0, d, hdg0, hd⟩
        · -- an old member of a hit group
          simp only [List.mem_flatMap] at hj ⊢
          obtain ⟨g0, hg0, hjg0⟩ := hj
          exact ⟨g0, hg0, h.closed g0 (List.mem_filter.mp hg0).1 j hjg0 d hd⟩
      · exact h.closed g (List.mem_filter.mp hg).1 j hj d hd

theorem init_inv (n : Nat) (dsOf : Nat → List Nat) :
    GroupsInv n dsOf ((List.range n).map (fun j => (([], [j]) : Group))) := by
  constructor
  · have : ((List.range n).map (fun j => (([], [j]) : Group))).flatMap (·.2) = List.range n := by
      induction (List.range n) with
      | nil => rfl
      | cons a l ih => simp [ih]
    rw [this]
  · intro g hg i hi
    simp only [List.mem_map] at hg
    obtain ⟨j, _, rfl⟩ := hg
    cases hi

theorem foldl_inv (n : Nat) (dsOf : Nat → List Nat) (l : List (List Cand × Nat)) (gs : List Group)
    (h : GroupsInv n dsOf gs)
    (hl : ∀ x ∈ l, realDests x.1 = dsOf x.2 ∧ ∀ d ∈ dsOf x.2, d < n) :
    GroupsInv n dsOf (l.foldl (fun gs x => addSource x.2 (realDests x.1) gs) gs) := by
  induction l generalizing gs with
  | nil => exact h
  | cons x xs ih =>
    simp only [List.foldl_cons]
    apply ih
    · have := hl x (List.mem_cons_self ..)
      rw [this.1]
      exact addSource_inv n dsOf gs x.2 h this.2
    · intro y hy; exact hl y (List.mem_cons_of_mem _ hy)

/-- real candidate destinations of source number `i` -/
def dsOfCands (cands : List (List Cand)) (i : Nat) : List Nat := realDests (getD' cands i [])

theorem subnets_inv (n : Nat) (cands : List (List Cand))
    (hlt : ∀ cs ∈ cands, ∀ d ∈ realDests cs, d < n) :
    GroupsInv n (dsOfCands cands) (subnets n cands) := by
  unfold subnets
  have hfold : ∀ (gs : List Group),
      (cands.zipIdx).foldl (fun gs (x : List Cand × Nat) => addSource x.2 (realDests x.1) gs) gs =
      (cands.zipIdx).foldl (fun gs x => match x with | (cs, i) => addSource i (realDests cs) gs) gs := by
    intro gs; rfl
  simp only
  rw [← hfold]
  apply foldl_inv n (dsOfCands cands) _ _ (init_inv n _)
  intro x hx
  obtain ⟨cs, i⟩ := x
  have hget : cands[i]? = some cs := by
    have := List.mem_zipIdx hx
    simp only [Nat.zero_add, Nat.sub_zero] at this
    obtain ⟨_, hi, hcs⟩ := this
    rw [List.getElem?_eq_getElem hi]; simp [hcs]
  have hds : dsOfCands cands i = realDests cs := by
    simp [dsOfCands, getD', hget]
  refine ⟨hds.symm, ?_⟩
  intro d hd
  rw [hds] at hd
  exact hlt cs (List.mem_of_getElem? hget) d hd

/-- the destinations of the groups are pairwise disjoint -/
theorem groups_dests_disjoint (n : Nat) (dsOf : Nat → List Nat) (gs : List Group)
    (h : GroupsInv n dsOf gs) : gs.Pairwise (fun A B => ∀ x ∈ A.2, x ∉ B.2) := by
  have hnd : (gs.flatMap (·.2)).Nodup := (h.dests_perm.nodup_iff).mpr List.nodup_range
  clear h
  induction gs with
  | nil => exact List.Pairwise.nil
  | cons g gs ih =>
    simp only [List.flatMap_cons, List.nodup_append] at hnd
    refine List.Pairwise.cons ?_ (ih hnd.2.1)
    intro B hB x hxg hxB
    exact hnd.2.2 x hxg x (List.mem_flatMap.mpr ⟨B, hB, hxB⟩) rfl

/-! ### the candidate lists built by the monitor -/

theorem mem_insCand (c x : Cand) (l : List Cand) : x ∈ insCand c l ↔ x = c ∨ x ∈ l := by
  induction l with
  | nil => simp [insCand]
  | cons y ys ih =>
    simp only [insCand]
    split
    · simp
    · simp only [List.mem_cons, ih]
      constructor
      · rintro (h | h | h)
        · exact Or.inr (Or.inl h)
        · exact Or.inl h
        · exact Or.inr (Or.inr h)
      · rintro (h | h | h)
        · exact Or.inr (Or.inl h)
        · exact Or.inl h
        · exact Or.inr (Or.inr h)

theorem mem_foldr_insCand (x : Cand) (l : List Cand) : x ∈ l.foldr insCand [] ↔ x ∈ l := by
  induction l with
  | nil => simp
  | cons y ys ih => simp only [List.foldr_cons, mem_insCand, ih, List.mem_cons]

/-- every real candidate of a row points to an existing destination and is within range -/
theorem mem_candsOfRow (B : Nat) (row : List Nat) (c : Cand) (h : c ∈ candsOfRow B row) :
    c = (none, B) ∨ ∃ j, ∃ hj : j < row.length, c = (some j, row[j]) ∧ row[j] ≤ B := by
  simp only [candsOfRow, List.mem_append, List.mem_singleton, mem_foldr_insCand,
    List.mem_filterMap] at h
  rcases h with ⟨⟨d, j⟩, hm, hc⟩ | h
  · right
    have := List.mem_zipIdx hm
    simp only [Nat.zero_add, Nat.sub_zero] at this
    obtain ⟨_, hj, hd⟩ := this
    simp only at hc
    split at hc
    · rename_i hle
      cases hc
      exact ⟨j, hj, by rw [hd], by rw [← hd]; exact hle⟩
    · cases hc
  · exact Or.inl h

theorem realDests_candsOf_lt (cfg : Cfg) (t : Int) (dsts : List Pos) (s : Source) :
    ∀ d ∈ realDests (candsOf cfg t dsts s), d < dsts.length := by
  intro d hd
  simp only [realDests, List.mem_filterMap] at hd
  obtain ⟨c, hc, hcd⟩ := hd
  rcases mem_candsOfRow _ _ c hc with rfl | ⟨j, hj, rfl, _⟩
  · cases hcd
  · simp only [Option.some.injEq] at hcd
    subst hcd
    simpa [distRow] using hj

/-- the monitor's sub-nets satisfy the group invariant -/
theorem stepGroups_inv (cfg : Cfg) (st : State) (t : Int) (dsts : List Pos) :
    GroupsInv dsts.length (dsOfCands (stepCands cfg st t dsts)) (stepGroups cfg st t dsts) := by
  unfold stepGroups
  apply subnets_inv
  intro cs hcs
  simp only [stepCands, List.mem_map] at hcs
  obtain ⟨s, _, rfl⟩ := hcs
  exact realDests_candsOf_lt cfg t dsts s

theorem pairwiseDisjointB_of_pairwise (ls : List (List Nat))
    (h : ls.Pairwise (fun A B => ∀ x ∈ A, x ∉ B)) : pairwiseDisjointB ls = true := by
  induction ls with
  | nil => rfl
  | cons x xs ih =>
    rw [List.pairwise_cons] at h
    simp only [pairwiseDisjointB, Bool.and_eq_true, List.all_eq_true, Bool.not_eq_true',
      List.contains_eq_mem, decide_eq_false_iff_not]
    exact ⟨fun y hy a ha => h.1 y hy a ha, ih h.2⟩

theorem groupDests_gSrcs_subset (cands : List (List Cand)) (g : Group) (gs : List Group)
    (n : Nat) (h : GroupsInv n (dsOfCands cands) gs) (hg : g ∈ gs) :
    ∀ x ∈ groupDests (g.1.map (srcOf cands)), x ∈ g.2 := by
  intro x hx
  simp only [groupDests, List.mem_flatMap, List.mem_map] at hx
  obtain ⟨s, ⟨i, hi, rfl⟩, hxs⟩ := hx
  exact h.closed g hg i hi x (by simpa [dsOfCands, srcOf, realDests, dests] using hxs)

/-- **The sub-nets of a step never share a candidate destination** (proved, not only checked). -/
theorem step_groups_disjoint (cfg : Cfg) (st : State) (t : Int) (dsts : List Pos) :
    pairwiseDisjointB ((gSrcs (stepCands cfg st t dsts) (stepGroups cfg st t dsts)).map groupDests)
      = true := by
  apply pairwiseDisjointB_of_pairwise
  have hinv := stepGroups_inv cfg st t dsts
  have hd := groups_dests_disjoint _ _ _ hinv
  simp only [gSrcs, List.map_map]
  rw [List.pairwise_map]
  refine List.Pairwise.imp_of_mem ?_ hd
  intro A B hA hB hAB x hxA hxB
  exact hAB x (groupDests_gSrcs_subset _ A _ _ hinv hA x hxA)
    (groupDests_gSrcs_subset _ B _ _ hinv hB x hxB)

/-! ### candidate lists are sorted by cost, the null candidate last -/

theorem sortedC_cons_iff (a : Cand) (l : List Cand) :
    SortedC (a :: l) ↔ (∀ x ∈ l, a.2 ≤ x.2) ∧ SortedC l := by
  constructor
  · intro h; exact ⟨SortedC.head_le h, SortedC.tail h⟩
  · rintro ⟨h1, h2⟩
    cases l with
    | nil => trivial
    | cons b t => exact ⟨h1 b (List.mem_cons_self ..), h2⟩

theorem insCand_sorted (c : Cand) (l : List Cand) (h : SortedC l) : SortedC (insCand c l) := by
  induction l with
  | nil => simp [insCand, SortedC]
  | cons x xs ih =>
    simp only [insCand]
    split
    · rename_i hlt
      rw [sortedC_cons_iff]
      refine ⟨?_, h⟩
      intro y hy
      rcases List.mem_cons.mp hy with rfl | hy
      · exact Nat.le_of_lt hlt
      · exact Nat.le_trans (Nat.le_of_lt hlt) (SortedC.head_le h y hy)
    · rename_i hge
      rw [sortedC_cons_iff]
      refine ⟨?_, ih (SortedC.tail h)⟩
      intro y hy
      rcases (mem_insCand c y xs).mp hy with rfl | hy
      · exact Nat.le_of_not_lt hge
      · exact SortedC.head_le h y hy

theorem foldr_insCand_sorted (l : List Cand) : SortedC (l.foldr insCand []) := by
  induction l with
  | nil => trivial
  | cons x xs ih => exact insCand_sorted x _ ih

theorem sortedC_append_last (l : List Cand) (z : Cand) (h : SortedC l) (hz : ∀ x ∈ l, x.2 ≤ z.2) :
    SortedC (l ++ [z]) := by
  induction l with
  | nil => trivial
  | cons a t ih =>
    rw [List.cons_append, sortedC_cons_iff]
    refine ⟨?_, ih (SortedC.tail h) (fun x hx => hz x (List.mem_cons_of_mem _ hx))⟩
    intro x hx
    rcases List.mem_append.mp hx with hx | hx
    · exact SortedC.head_le h x hx
    · simp only [List.mem_singleton] at hx
      subst hx
      exact hz a (List.mem_cons_self ..)

/-- what `assign_links` establishes and the solver's pruning relies on: every candidate list is
ascending in cost and the null link, appended last, is the most expensive entry -/
theorem candsOf_sorted (cfg : Cfg) (t : Int) (dsts : List Pos) (s : Source) :
    SortedC (candsOf cfg t dsts s) := by
  simp only [candsOf, candsOfRow]
  apply sortedC_append_last _ _ (foldr_insCand_sorted _)
  intro x hx
  rw [mem_foldr_insCand] at hx
  simp only [List.mem_filterMap] at hx
  obtain ⟨⟨d, j⟩, _, hc⟩ := hx
  simp only at hc
  split at hc
  · rename_i hle; cases hc; exact hle
  · cases hc

theorem candsOf_hasNull (cfg : Cfg) (t : Int) (dsts : List Pos) (s : Source) :
    (none, cfg.B) ∈ candsOf cfg t dsts s := by
  simp [candsOf, candsOfRow]

end TrackpyV.Linker
