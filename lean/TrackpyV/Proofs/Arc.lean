import Mathlib.Analysis.SpecialFunctions.Trigonometric.Inverse
import TrackpyV.Model.Arc

/-!
Real-analysis side of the 2-D edge correction of `trackpy/static.py`
(`circle_cap_arclen`, `circle_corner_arclen`, `arclen_2d_bounded`, static.py:264-277, 322-342).

* the instance `Scalar ℝ` and the closed forms `capArclen`, `cornerArclen`, `arclen2d` of the
  model's `circleCapArclen`, `circleCornerArclen`, `arclenRaw` (Model/Arc.lean — the definitions
  the driver executes at `Float`) instantiated at `ℝ` (`*_real` lemmas; `Real.arccos/arcsin` are
  the clamped inverse functions, the code only evaluates them inside `[-1, 1]` under its masks).
* `Inside`, `insideIntervals`, `len`, `Covers` : the specification vocabulary — the set of
  directions of the circle that fall inside the box, as a finite list of closed intervals, and the
  total length of such a list.
* helper lemmas: the two monotonicity facts every statement reduces to
  (`cos_le_iff`, `sin_le_iff` on a quadrant), the four reflections of `Inside`, and the
  per-quadrant length identity `quadrant_len`.
-/
namespace TrackpyV.Arc
open Real

/-! ### the model's formulas at ℝ -/

/-- the real numbers as a `Scalar`: exact arithmetic, Mathlib's `arccos/arcsin` -/
noncomputable instance : Scalar ℝ where
  two := 2
  pi := π
  acos := arccos
  asin := arcsin
  lt a b := decide (a < b)

/-- closed form of `circleCapArclen` at ℝ -/
noncomputable def capArclen (h r : ℝ) : ℝ := 2 * r * arccos (h / r)

/-- closed form of `circleCornerArclen` at ℝ -/
noncomputable def cornerArclen (h1 h2 r : ℝ) : ℝ := r * (arccos (h2 / r) - arcsin (h1 / r))

/-- closed form of `arclenRaw` at ℝ (`arclen_2d_bounded` before its NaN guard, static.py:322-339)
with `h = [hL, hR, hB, hT] = [x - xmin, xmax - x, y - ymin, ymax - y]`: the full circle, minus a
cap for every side with `h < r`, plus a corner arc for each of the adjacent pairs
`[0,2],[0,3],[1,2],[1,3]` (x-side first, y-side second) with `h1² + h2² < r²`. -/
noncomputable def arclen2d (hL hR hB hT r : ℝ) : ℝ :=
  2 * π * r
    - (if hL < r then capArclen hL r else 0) - (if hR < r then capArclen hR r else 0)
    - (if hB < r then capArclen hB r else 0) - (if hT < r then capArclen hT r else 0)
    + (if hL ^ 2 + hB ^ 2 < r ^ 2 then cornerArclen hL hB r else 0)
    + (if hL ^ 2 + hT ^ 2 < r ^ 2 then cornerArclen hL hT r else 0)
    + (if hR ^ 2 + hB ^ 2 < r ^ 2 then cornerArclen hR hB r else 0)
    + (if hR ^ 2 + hT ^ 2 < r ^ 2 then cornerArclen hR hT r else 0)

theorem circleCapArclen_real (h r : ℝ) : circleCapArclen h r = capArclen h r := rfl

theorem circleCornerArclen_real (h1 h2 r : ℝ) : circleCornerArclen h1 h2 r = cornerArclen h1 h2 r :=
  rfl

theorem capStep_real (r acc h0 : ℝ) :
    capStep r acc h0 = acc - (if h0 < r then capArclen h0 r else 0) := by
  show (if decide (h0 < r) = true then acc - capArclen h0 r else acc) = _
  by_cases h : h0 < r <;> simp [h]

theorem cornerStep_real (r acc h1 h2 : ℝ) :
    cornerStep r acc h1 h2
      = acc + (if h1 ^ 2 + h2 ^ 2 < r ^ 2 then cornerArclen h1 h2 r else 0) := by
  show (if decide (h1 * h1 + h2 * h2 < r * r) = true then acc + cornerArclen h1 h2 r else acc) = _
  rw [← pow_two, ← pow_two, ← pow_two]
  by_cases h : h1 ^ 2 + h2 ^ 2 < r ^ 2 <;> simp [h]

/-- the model's `arclenRaw`, instantiated at ℝ, is the closed form `arclen2d` -/
theorem arclenRaw_real (hL hR hB hT r : ℝ) : arclenRaw hL hR hB hT r = arclen2d hL hR hB hT r := by
  simp only [arclenRaw, capStep_real, cornerStep_real, arclen2d]
  rfl

/-! ### specification vocabulary -/

/-- the point at direction `θ` of the circle of radius `r` around a centre whose distances to the
left / right / bottom / top side of the (closed) box are `hL hR hB hT` lies in the box -/
def Inside (hL hR hB hT r θ : ℝ) : Prop :=
  -hL ≤ r * cos θ ∧ r * cos θ ≤ hR ∧ -hB ≤ r * sin θ ∧ r * sin θ ≤ hT

/-- total length of a finite list of closed intervals `[a, b]` (an entry with `b < a` is the empty
set and counts 0); for a list whose entries do not overlap (`List.Pairwise (·.2 ≤ ·.1)`) this is
the length of their union -/
noncomputable def len (I : List (ℝ × ℝ)) : ℝ := (I.map fun i => max 0 (i.2 - i.1)).sum

/-- `θ` belongs to the union of the closed intervals of the list -/
def Covers (I : List (ℝ × ℝ)) (θ : ℝ) : Prop := ∃ i ∈ I, i.1 ≤ θ ∧ θ ≤ i.2

/-- the directions inside the box, quadrant after quadrant (third, fourth, first, second), as
closed sub-intervals of `[-π, π]` in increasing order -/
noncomputable def insideIntervals (hL hR hB hT r : ℝ) : List (ℝ × ℝ) :=
  [ (-π + arccos (hL / r), -π + arcsin (hB / r)),
    (-arcsin (hB / r), -arccos (hR / r)),
    (arccos (hR / r), arcsin (hT / r)),
    (π - arcsin (hT / r), π - arccos (hL / r)) ]

/-! ### monotonicity on a quadrant -/

variable {r a b φ θ : ℝ}

theorem cos_le_iff (hr : 0 < r) (ha : -r ≤ a) (h0 : 0 ≤ φ) (h1 : φ ≤ π) :
    r * cos φ ≤ a ↔ arccos (a / r) ≤ φ := by
  have hq : r * cos φ ≤ a ↔ cos φ ≤ a / r := by rw [le_div_iff₀ hr, mul_comm]
  rw [hq]
  by_cases h : a / r ≤ 1
  · have hm : -1 ≤ a / r := by rw [le_div_iff₀ hr]; linarith
    have hmem : arccos (a / r) ∈ Set.Icc 0 π := ⟨arccos_nonneg _, arccos_le_pi _⟩
    have := strictAntiOn_cos.le_iff_ge (a := φ) (b := arccos (a / r)) ⟨h0, h1⟩ hmem
    rw [cos_arccos hm h] at this
    exact this
  · have h := not_le.1 h
    rw [arccos_of_one_le h.le]
    exact ⟨fun _ => h0, fun _ => (cos_le_one φ).trans h.le⟩

theorem lt_cos_iff (hr : 0 < r) (ha : -r ≤ a) (h0 : 0 ≤ φ) (h1 : φ ≤ π) :
    a < r * cos φ ↔ φ < arccos (a / r) := by
  rw [← not_le, ← not_le, cos_le_iff hr ha h0 h1]

theorem sin_le_iff (hr : 0 < r) (hb : -r ≤ b) (h0 : -(π / 2) ≤ φ) (h1 : φ ≤ π / 2) :
    r * sin φ ≤ b ↔ φ ≤ arcsin (b / r) := by
  have hq : r * sin φ ≤ b ↔ sin φ ≤ b / r := by rw [le_div_iff₀ hr, mul_comm]
  rw [hq]
  by_cases h : b / r ≤ 1
  · have hm : -1 ≤ b / r := by rw [le_div_iff₀ hr]; linarith
    exact (le_arcsin_iff_sin_le ⟨h0, h1⟩ ⟨hm, h⟩).symm
  · have h := not_le.1 h
    rw [arcsin_of_one_le h.le]
    exact ⟨fun _ => h1, fun _ => (sin_le_one φ).trans h.le⟩

theorem lt_sin_iff (hr : 0 < r) (hb : -r ≤ b) (h0 : -(π / 2) ≤ φ) (h1 : φ ≤ π / 2) :
    b < r * sin φ ↔ arcsin (b / r) < φ := by
  rw [← not_le, ← not_le, sin_le_iff hr hb h0 h1]

/-- the corner interval `(arcsin (b/r), arccos (a/r))` is non-empty exactly when the corner of the
box lies strictly inside the circle -/
theorem arcsin_lt_arccos_iff (hr : 0 < r) (ha : 0 ≤ a) (hb : 0 ≤ b) :
    arcsin (b / r) < arccos (a / r) ↔ a ^ 2 + b ^ 2 < r ^ 2 := by
  have hφ : arccos (a / r) ∈ Set.Ioc (-(π / 2)) (π / 2) :=
    ⟨by linarith [arccos_nonneg (a / r), pi_pos], arccos_le_pi_div_two.2 (div_nonneg ha hr.le)⟩
  have hr2 : 0 < r ^ 2 := by positivity
  rw [arcsin_lt_iff_lt_sin' hφ, sin_arccos, Real.lt_sqrt (div_nonneg hb hr.le), div_pow, div_pow,
    lt_sub_iff_add_lt, ← add_div, div_lt_one hr2, add_comm]

/-- the identity that makes the code's corner formula symmetric in the roles of its two
arguments: `arccos x − arcsin y = arccos y − arcsin x` -/
theorem arccos_sub_arcsin_comm (x y : ℝ) : arccos x - arcsin y = arccos y - arcsin x := by
  rw [arccos_eq_pi_div_two_sub_arcsin x, arccos_eq_pi_div_two_sub_arcsin y]; ring

/-! ### `Inside` on the four quadrants -/

variable {hL hR hB hT : ℝ}

/-- first quadrant: only the right and the top side matter -/
theorem inside_q1 (hr : 0 < r) (hL0 : 0 ≤ hL) (hR0 : 0 ≤ hR) (hB0 : 0 ≤ hB) (hT0 : 0 ≤ hT)
    (h0 : 0 ≤ φ) (h1 : φ ≤ π / 2) :
    Inside hL hR hB hT r φ ↔ arccos (hR / r) ≤ φ ∧ φ ≤ arcsin (hT / r) := by
  have hc : 0 ≤ r * cos φ :=
    mul_nonneg hr.le (cos_nonneg_of_neg_pi_div_two_le_of_le (by linarith) h1)
  have hs : 0 ≤ r * sin φ :=
    mul_nonneg hr.le (sin_nonneg_of_nonneg_of_le_pi h0 (by linarith [pi_pos]))
  have e1 := cos_le_iff (a := hR) hr (by linarith) h0 (by linarith [pi_pos])
  have e2 := sin_le_iff (b := hT) hr (by linarith) (by linarith) h1
  unfold Inside
  constructor
  · rintro ⟨_, h2, _, h4⟩; exact ⟨e1.1 h2, e2.1 h4⟩
  · rintro ⟨h2, h4⟩; exact ⟨by linarith, e1.2 h2, by linarith, e2.2 h4⟩

theorem inside_reflect_x : Inside hL hR hB hT r (π - φ) ↔ Inside hR hL hB hT r φ := by
  unfold Inside; rw [cos_pi_sub, sin_pi_sub]
  constructor <;> rintro ⟨h1, h2, h3, h4⟩ <;> exact ⟨by linarith, by linarith, h3, h4⟩

theorem inside_reflect_y : Inside hL hR hB hT r (-φ) ↔ Inside hL hR hT hB r φ := by
  unfold Inside; rw [cos_neg, sin_neg]
  constructor <;> rintro ⟨h1, h2, h3, h4⟩ <;> exact ⟨h1, h2, by linarith, by linarith⟩

theorem inside_reflect_xy : Inside hL hR hB hT r (φ - π) ↔ Inside hR hL hT hB r φ := by
  unfold Inside; rw [cos_sub_pi, sin_sub_pi]
  constructor <;> rintro ⟨h1, h2, h3, h4⟩ <;>
    exact ⟨by linarith, by linarith, by linarith, by linarith⟩

theorem inside_q2 (hr : 0 < r) (hL0 : 0 ≤ hL) (hR0 : 0 ≤ hR) (hB0 : 0 ≤ hB) (hT0 : 0 ≤ hT)
    (h0 : π / 2 ≤ θ) (h1 : θ ≤ π) :
    Inside hL hR hB hT r θ ↔ π - arcsin (hT / r) ≤ θ ∧ θ ≤ π - arccos (hL / r) := by
  have := inside_reflect_x (hL := hL) (hR := hR) (hB := hB) (hT := hT) (r := r) (φ := π - θ)
  rw [sub_sub_cancel] at this
  rw [this, inside_q1 hr hR0 hL0 hB0 hT0 (by linarith) (by linarith)]
  constructor <;> rintro ⟨h2, h3⟩ <;> exact ⟨by linarith, by linarith⟩

theorem inside_q4 (hr : 0 < r) (hL0 : 0 ≤ hL) (hR0 : 0 ≤ hR) (hB0 : 0 ≤ hB) (hT0 : 0 ≤ hT)
    (h0 : -(π / 2) ≤ θ) (h1 : θ ≤ 0) :
    Inside hL hR hB hT r θ ↔ -arcsin (hB / r) ≤ θ ∧ θ ≤ -arccos (hR / r) := by
  have := inside_reflect_y (hL := hL) (hR := hR) (hB := hB) (hT := hT) (r := r) (φ := -θ)
  rw [neg_neg] at this
  rw [this, inside_q1 hr hL0 hR0 hT0 hB0 (by linarith) (by linarith)]
  constructor <;> rintro ⟨h2, h3⟩ <;> exact ⟨by linarith, by linarith⟩

theorem inside_q3 (hr : 0 < r) (hL0 : 0 ≤ hL) (hR0 : 0 ≤ hR) (hB0 : 0 ≤ hB) (hT0 : 0 ≤ hT)
    (h0 : -π ≤ θ) (h1 : θ ≤ -(π / 2)) :
    Inside hL hR hB hT r θ ↔ -π + arccos (hL / r) ≤ θ ∧ θ ≤ -π + arcsin (hB / r) := by
  have := inside_reflect_xy (hL := hL) (hR := hR) (hB := hB) (hT := hT) (r := r) (φ := θ + π)
  rw [add_sub_cancel_right] at this
  rw [this, inside_q1 hr hR0 hL0 hT0 hB0 (by linarith) (by linarith)]
  constructor <;> rintro ⟨h2, h3⟩ <;> exact ⟨by linarith, by linarith⟩

/-! ### lengths -/

/-- a cap that is masked out by the code (`h ≥ r`) has length 0 anyway -/
theorem cap_if (hr : 0 < r) : (if a < r then capArclen a r else 0) = capArclen a r := by
  split_ifs with h
  · rfl
  · have h := not_lt.1 h
    have : 1 ≤ a / r := by rw [le_div_iff₀ hr]; linarith
    simp [capArclen, arccos_of_one_le this]

/-- one quadrant: the length of the inside interval is the quarter circle minus the two half caps
plus the code's corner term -/
theorem quadrant_len (hr : 0 < r) (ha : 0 ≤ a) (hb : 0 ≤ b) :
    max 0 (arcsin (b / r) - arccos (a / r)) =
      π / 2 - arccos (a / r) - arccos (b / r)
        + (if a ^ 2 + b ^ 2 < r ^ 2 then arccos (b / r) - arcsin (a / r) else 0) := by
  have hiff := arcsin_lt_arccos_iff hr ha hb
  have e1 := arccos_eq_pi_div_two_sub_arcsin (b / r)
  have e2 := arccos_eq_pi_div_two_sub_arcsin (a / r)
  split_ifs with h
  · have := hiff.2 h
    rw [max_eq_left (by linarith)]; linarith
  · have : ¬ arcsin (b / r) < arccos (a / r) := fun h' => h (hiff.1 h')
    have this := not_lt.1 this
    rw [max_eq_right (by linarith)]; linarith

/-- sanity of `len`: non-overlapping sorted intervals inside `[lo, hi]` have total length at most
`hi - lo` -/
theorem len_le_of_sorted (I : List (ℝ × ℝ)) : ∀ (lo hi : ℝ), lo ≤ hi →
    I.Pairwise (fun i j => i.2 ≤ j.1) → (∀ i ∈ I, lo ≤ i.1 ∧ i.2 ≤ hi) → len I ≤ hi - lo := by
  induction I with
  | nil => intro lo hi h _ _; simp [len]; linarith
  | cons i rest ih =>
    intro lo hi hlh hp hin
    have hi' := hin i (List.mem_cons_self)
    rw [List.pairwise_cons] at hp
    have hlen : len (i :: rest) = max 0 (i.2 - i.1) + len rest := by simp [len]
    rw [hlen]
    rcases le_total (i.2 - i.1) 0 with hneg | hpos
    · rw [max_eq_left hneg]
      have := ih lo hi hlh hp.2 (fun j hj => hin j (List.mem_cons_of_mem _ hj))
      linarith
    · rw [max_eq_right hpos]
      have := ih i.2 hi hi'.2 hp.2
        (fun j hj => ⟨hp.1 j hj, (hin j (List.mem_cons_of_mem _ hj)).2⟩)
      linarith

end TrackpyV.Arc
