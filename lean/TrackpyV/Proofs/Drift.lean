import TrackpyV.Model.Drift
import Mathlib.Tactic.Ring
import Mathlib.Tactic.Linarith
import Mathlib.Tactic.FieldSimp
/-!
Helper lemmas for C18 (`Props/C18.lean`): insertion sort, sorted-unique lists, the adjacency
lemma (in a table sorted by (particle, frame) without duplicate keys, the predecessor observation
of a row is the row just before it), sums.
-/
namespace TrackpyV.Drift
open List

/-! ## insertion sort -/

theorem insertBy_perm {α} (le : α → α → Bool) (r : α) (l : List α) :
    (insertBy le r l).Perm (r :: l) := by
  induction l with
  | nil => simp [insertBy]
  | cons a l ih =>
    simp only [insertBy]
    split
    · exact Perm.refl _
    · exact (Perm.cons a ih).trans (Perm.swap r a l)

theorem sortBy_perm {α} (le : α → α → Bool) (l : List α) : (sortBy le l).Perm l := by
  induction l with
  | nil => simp [sortBy]
  | cons a l ih =>
    simp only [sortBy, foldr_cons]
    exact (insertBy_perm le a _).trans (Perm.cons a ih)

theorem insertBy_pairwise {α} (le : α → α → Bool)
    (total : ∀ a b, le a b = true ∨ le b a = true)
    (trans : ∀ a b c, le a b = true → le b c = true → le a c = true)
    (r : α) (l : List α) (h : l.Pairwise (fun a b => le a b = true)) :
    (insertBy le r l).Pairwise (fun a b => le a b = true) := by
  induction l with
  | nil => simp [insertBy]
  | cons a l ih =>
    simp only [insertBy]
    rw [pairwise_cons] at h
    split
    · rename_i hra
      refine pairwise_cons.mpr ⟨?_, pairwise_cons.mpr h⟩
      intro b hb
      rcases mem_cons.mp hb with rfl | hb
      · exact hra
      · exact trans _ _ _ hra (h.1 b hb)
    · rename_i hra
      have har : le a r = true := by
        rcases total a r with h1 | h1
        · exact h1
        · exact absurd h1 hra
      refine pairwise_cons.mpr ⟨?_, ih h.2⟩
      intro b hb
      have := (insertBy_perm le r l).subset hb
      rcases mem_cons.mp this with rfl | hb
      · exact har
      · exact h.1 b hb

theorem sortBy_pairwise {α} (le : α → α → Bool)
    (total : ∀ a b, le a b = true ∨ le b a = true)
    (trans : ∀ a b c, le a b = true → le b c = true → le a c = true)
    (l : List α) : (sortBy le l).Pairwise (fun a b => le a b = true) := by
  induction l with
  | nil => simp [sortBy]
  | cons a l ih =>
    simp only [sortBy, foldr_cons]
    exact insertBy_pairwise le total trans a _ ih

theorem lePF_total (a b : Row) : lePF a b = true ∨ lePF b a = true := by
  simp only [lePF, decide_eq_true_eq]; omega

theorem lePF_trans (a b c : Row) (h1 : lePF a b = true) (h2 : lePF b c = true) :
    lePF a c = true := by
  simp only [lePF, decide_eq_true_eq] at *; omega

theorem sortPF_perm (t : List Row) : (sortPF t).Perm t := sortBy_perm _ t
theorem sortFP_perm (t : List Row) : (sortFP t).Perm t := sortBy_perm _ t

theorem sortPF_pairwise (t : List Row) : (sortPF t).Pairwise (fun a b => lePF a b = true) :=
  sortBy_pairwise _ lePF_total lePF_trans t

/-! ## KeysNodup -/

theorem keysNodup_perm {t t' : List Row} (h : t.Perm t') : KeysNodup t ↔ KeysNodup t' := by
  unfold KeysNodup
  exact h.pairwise_iff (fun {x y} hxy hc => hxy ⟨hc.1.symm, hc.2.symm⟩)

theorem keysNodupB_iff (t : List Row) : keysNodupB t = true ↔ KeysNodup t := by
  induction t with
  | nil => simp [keysNodupB, KeysNodup]
  | cons a l ih =>
    simp only [keysNodupB, Bool.and_eq_true, all_eq_true, Bool.not_eq_true', decide_eq_false_iff_not,
      ih, KeysNodup, pairwise_cons]

/-- same key, both in a table without duplicate keys: same row -/
theorem eq_of_key_eq {t : List Row} (h : KeysNodup t) {a b : Row} (ha : a ∈ t) (hb : b ∈ t)
    (hp : a.particle = b.particle) (hf : a.frame = b.frame) : a = b := by
  induction t with
  | nil => cases ha
  | cons c l ih =>
    rw [KeysNodup, pairwise_cons] at h
    rcases mem_cons.mp ha with ha' | ha' <;> rcases mem_cons.mp hb with hb' | hb'
    · rw [ha', hb']
    · subst ha'; exact absurd ⟨hp, hf⟩ (h.1 b hb')
    · subst hb'; exact absurd ⟨hp.symm, hf.symm⟩ (h.1 a ha')
    · exact ih h.2 ha' hb'

theorem sortPF_strict {t : List Row} (h : KeysNodup t) : (sortPF t).Pairwise ltPF := by
  have h1 := sortPF_pairwise t
  have h2 : KeysNodup (sortPF t) := (keysNodup_perm (sortPF_perm t)).mpr h
  unfold KeysNodup at h2
  have := h1.and h2
  refine this.imp ?_
  intro a b hab
  obtain ⟨h3, h4⟩ := hab
  simp only [lePF, decide_eq_true_eq] at h3
  unfold ltPF
  omega

/-- order independence of the sort: two permutations of a table without duplicate keys sort to
the same list -/
theorem sortPF_eq_of_perm {t t' : List Row} (hp : t.Perm t') (h : KeysNodup t) :
    sortPF t = sortPF t' := by
  have h' : KeysNodup t' := (keysNodup_perm hp).mp h
  have s1 := sortPF_strict h
  have s2 := sortPF_strict h'
  have pp : (sortPF t).Perm (sortPF t') := (sortPF_perm t).trans (hp.trans (sortPF_perm t').symm)
  refine Perm.eq_of_pairwise (le := fun a b => ltPF a b ∨ a = b) ?_ ?_ ?_ pp
  · intro a b _ _ h1 h2
    rcases h1 with h1 | h1
    · rcases h2 with h2 | h2
      · unfold ltPF at h1 h2; omega
      · exact h2.symm
    · exact h1
  · exact s1.imp (fun h => Or.inl h)
  · exact s2.imp (fun h => Or.inl h)

/-! ## sorted lists of distinct integers -/

theorem mem_insertU (f x : Int) (l : List Int) : x ∈ insertU f l ↔ x = f ∨ x ∈ l := by
  induction l with
  | nil => simp [insertU]
  | cons a l ih =>
    simp only [insertU]
    split
    · simp
    · split
      · rename_i h; subst h; simp
      · simp only [mem_cons, ih]
        constructor
        · rintro (h | h | h) <;> simp [h]
        · rintro (h | h | h) <;> simp [h]

theorem insertU_sorted (f : Int) (l : List Int) (h : l.Pairwise (· < ·)) :
    (insertU f l).Pairwise (· < ·) := by
  induction l with
  | nil => simp [insertU]
  | cons a l ih =>
    simp only [insertU]
    rw [pairwise_cons] at h
    split
    · rename_i hfa
      refine pairwise_cons.mpr ⟨?_, pairwise_cons.mpr h⟩
      intro b hb
      rcases mem_cons.mp hb with rfl | hb
      · exact hfa
      · exact Int.lt_trans hfa (h.1 b hb)
    · split
      · exact pairwise_cons.mpr h
      · refine pairwise_cons.mpr ⟨?_, ih h.2⟩
        intro b hb
        rcases (mem_insertU f b l).mp hb with rfl | hb
        · omega
        · exact h.1 b hb

theorem mem_sortDedup (x : Int) (l : List Int) : x ∈ sortDedup l ↔ x ∈ l := by
  induction l with
  | nil => simp [sortDedup]
  | cons a l ih =>
    simp only [sortDedup, foldr_cons, mem_cons] at *
    rw [mem_insertU, ih]

theorem sortDedup_sorted (l : List Int) : (sortDedup l).Pairwise (· < ·) := by
  induction l with
  | nil => simp [sortDedup]
  | cons a l ih =>
    simp only [sortDedup, foldr_cons] at *
    exact insertU_sorted a _ ih

/-- a strictly increasing list is determined by its set of members -/
theorem sorted_ext {l₁ l₂ : List Int} (h1 : l₁.Pairwise (· < ·)) (h2 : l₂.Pairwise (· < ·))
    (hm : ∀ x, x ∈ l₁ ↔ x ∈ l₂) : l₁ = l₂ := by
  have n1 : l₁.Nodup := h1.imp (fun h => Int.ne_of_lt h)
  have n2 : l₂.Nodup := h2.imp (fun h => Int.ne_of_lt h)
  have pp : l₁.Perm l₂ := (perm_ext_iff_of_nodup n1 n2).mpr hm
  refine Perm.eq_of_pairwise (le := fun a b => a < b) ?_ h1 h2 pp
  intro a b _ _ hab hba
  omega

/-! ## the adjacency lemma -/

theorem isPrev_eq_mask (a b : Row) : isPrev b a = mask a b := by
  simp only [isPrev, mask, decide_eq_decide]; omega

theorem flatMap_perm_congr {α β} (l : List α) (f g : α → List β) (h : ∀ a ∈ l, (f a).Perm (g a)) :
    (l.flatMap f).Perm (l.flatMap g) := by
  induction l with
  | nil => simp
  | cons a l ih =>
    simp only [flatMap_cons]
    exact Perm.append (h a mem_cons_self) (ih (fun b hb => h b (mem_cons_of_mem _ hb)))

/-- all pairs (previous observation, observation) of a table, in table order -/
def allPairs (t : List Row) : List (Row × Row) :=
  t.flatMap (fun r => (t.filter (isPrev r)).map (fun a => (a, r)))

/-- In a table sorted by (particle, frame) without duplicate keys, the rows selected by the
`diff`-mask are exactly all (previous observation, observation) pairs. -/
theorem maskedPairs_eq_allPairs (s : List Row) (h : s.Pairwise ltPF) :
    maskedPairs s = allPairs s := by
  induction s with
  | nil => simp [maskedPairs, allPairs]
  | cons a s' ih =>
    rw [pairwise_cons] at h
    have ih := ih h.2
    -- nothing in `a :: s'` precedes `a`
    have hA : (a :: s').filter (isPrev a) = [] := by
      rw [filter_eq_nil_iff]
      intro c hc
      simp only [isPrev, decide_eq_true_eq]
      rcases mem_cons.mp hc with rfl | hc
      · omega
      · have := h.1 c hc; unfold ltPF at this; omega
    cases s' with
    | nil => simp [maskedPairs, allPairs, hA]
    | cons b s'' =>
      have hab : ltPF a b := h.1 b mem_cons_self
      have hb := pairwise_cons.mp h.2
      -- rows after `b` are not preceded by `a`
      have hC : ∀ r ∈ s'', isPrev r a = false := by
        intro r hr
        have h1 : ltPF b r := hb.1 r hr
        simp only [isPrev, decide_eq_false_iff_not]
        unfold ltPF at hab h1; omega
      have tail_eq : s''.flatMap (fun r => ((a :: b :: s'').filter (isPrev r)).map (fun x => (x, r)))
          = s''.flatMap (fun r => ((b :: s'').filter (isPrev r)).map (fun x => (x, r))) := by
        apply flatMap_congr
        intro r hr
        rw [filter_cons, hC r hr]; simp
      have e1 : allPairs (a :: b :: s'') =
          (if mask a b then [(a, b)] else []) ++ allPairs (b :: s'') := by
        unfold allPairs
        rw [flatMap_cons, hA, map_nil, nil_append, flatMap_cons, tail_eq, flatMap_cons]
        rw [filter_cons (x := a), isPrev_eq_mask]
        by_cases hm : mask a b = true <;> simp [hm]
      rw [e1, ← ih]
      simp [maskedPairs]

theorem allPairs_perm {s t : List Row} (h : s.Perm t) : (allPairs s).Perm (allPairs t) := by
  unfold allPairs
  refine (Perm.flatMap_right _ h).trans ?_
  apply flatMap_perm_congr
  intro r _
  exact ((h.filter _).map _)

theorem pairsAt_eq (t : List Row) (f : Int) :
    pairsAt t f = (allPairs t).filter (fun p => p.2.frame == f) := by
  unfold pairsAt allPairs
  rw [filter_flatMap]
  apply flatMap_congr
  intro r _
  rw [filter_map]
  by_cases hf : r.frame = f
  · simp [hf, Function.comp_def]
  · simp [hf, Function.comp_def]

theorem pairsAt_perm {s t : List Row} (h : s.Perm t) (f : Int) :
    (pairsAt s f).Perm (pairsAt t f) := by
  rw [pairsAt_eq, pairsAt_eq]; exact (allPairs_perm h).filter _

theorem mem_pairsAt {t : List Row} {f : Int} {a r : Row} :
    (a, r) ∈ pairsAt t f ↔ r ∈ t ∧ a ∈ t ∧ r.frame = f ∧ a.particle = r.particle ∧ a.frame + 1 = f := by
  unfold pairsAt
  simp only [mem_flatMap]
  constructor
  · rintro ⟨r', hr', hm⟩
    split at hm
    · rename_i hf
      simp only [mem_map, mem_filter, isPrev, decide_eq_true_eq, Prod.mk.injEq] at hm
      obtain ⟨a', ⟨ha', hp⟩, rfl, rfl⟩ := hm
      exact ⟨hr', ha', hf, hp.1, by omega⟩
    · cases hm
  · rintro ⟨hr, ha, hf, hp, hf2⟩
    refine ⟨r, hr, ?_⟩
    simp only [hf, if_true, mem_map, mem_filter, isPrev, decide_eq_true_eq, Prod.mk.injEq]
    exact ⟨a, ⟨ha, hp, by omega⟩, by simp⟩

/-! ## measured frames, means -/

theorem mem_mframes {t : List Row} {x : Int} : x ∈ mframes t ↔ pairsAt t x ≠ [] := by
  unfold mframes
  rw [mem_sortDedup, mem_filter]
  constructor
  · rintro ⟨_, h⟩ hc
    simp [hc] at h
  · intro h
    refine ⟨?_, by simpa using h⟩
    obtain ⟨⟨a, r⟩, hp⟩ := exists_mem_of_ne_nil _ h
    have := mem_pairsAt.mp hp
    exact mem_map.mpr ⟨r, this.1, this.2.2.1⟩

theorem mem_mframes' {t : List Row} {x : Int} :
    x ∈ mframes t ↔ ∃ a r, r ∈ t ∧ a ∈ t ∧ r.frame = x ∧ a.particle = r.particle ∧ a.frame + 1 = x := by
  rw [mem_mframes]
  constructor
  · intro h
    obtain ⟨⟨a, r⟩, hp⟩ := exists_mem_of_ne_nil _ h
    exact ⟨a, r, mem_pairsAt.mp hp⟩
  · rintro ⟨a, r, h⟩ hc
    have := mem_pairsAt.mpr h
    rw [hc] at this; cases this

theorem mframes_sorted (t : List Row) : (mframes t).Pairwise (· < ·) := sortDedup_sorted _

theorem mframes_perm {s t : List Row} (h : s.Perm t) : mframes s = mframes t := by
  apply sorted_ext (mframes_sorted s) (mframes_sorted t)
  intro x
  rw [mem_mframes, mem_mframes]
  have := pairsAt_perm h x
  constructor
  · intro h1 hc; rw [hc] at this; exact h1 this.eq_nil
  · intro h1 hc; rw [hc] at this; exact h1 this.symm.eq_nil

theorem mean_perm {v w : List Rat} (h : v.Perm w) : mean v = mean w := by
  unfold mean; rw [h.sum_eq, h.length_eq]

theorem meanDisp_perm {s t : List Row} (h : s.Perm t) (k : Nat) (f : Int) :
    meanDisp k s f = meanDisp k t f := by
  unfold meanDisp disps
  exact mean_perm ((pairsAt_perm h f).map _)

/-- group `f` of the masked differences of a sorted table = the displacements into frame `f` -/
theorem maskedDiffs_group (k : Nat) (s : List Row) (h : s.Pairwise ltPF) (f : Int) :
    ((maskedDiffs k s).filter (fun e => e.1 == f)).map Prod.snd = disps k s f := by
  unfold maskedDiffs disps
  rw [maskedPairs_eq_allPairs s h, pairsAt_eq, filter_map, map_map]
  rfl

theorem maskedDiffs_frames (k : Nat) (s : List Row) (h : s.Pairwise ltPF) :
    sortDedup ((maskedDiffs k s).map Prod.fst) = mframes s := by
  apply sorted_ext (sortDedup_sorted _) (mframes_sorted s)
  intro x
  rw [mem_sortDedup, mem_mframes, pairsAt_eq]
  unfold maskedDiffs
  rw [maskedPairs_eq_allPairs s h, map_map]
  constructor
  · intro hx hc
    obtain ⟨p, hp, hpx⟩ := mem_map.mp hx
    have : p ∈ (allPairs s).filter (fun p => p.2.frame == x) := by
      rw [mem_filter]; exact ⟨hp, by simpa using hpx⟩
    rw [hc] at this; cases this
  · intro hx
    obtain ⟨p, hp⟩ := exists_mem_of_ne_nil _ hx
    rw [mem_filter] at hp
    exact mem_map.mpr ⟨p, hp.1, by simpa using hp.2⟩

theorem groupMean_eq (k : Nat) (t : List Row) (h : KeysNodup t) :
    groupMean (maskedDiffs k (sortPF t)) = (mframes t).map (fun f => (f, meanDisp k t f)) := by
  have hs := sortPF_strict h
  unfold groupMean
  rw [maskedDiffs_frames k _ hs, mframes_perm (sortPF_perm t)]
  apply map_congr_left
  intro f _
  rw [maskedDiffs_group k _ hs f]
  show (f, meanDisp k (sortPF t) f) = _
  rw [meanDisp_perm (sortPF_perm t)]

/-! ## cumulative sum -/

theorem cumsum_eq (μ : Int → Rat) (fs : List Int) (h : fs.Pairwise (· < ·)) (acc : Rat) :
    cumsum acc (fs.map (fun f => (f, μ f)))
      = fs.map (fun f => (f, acc + ((fs.filter (fun g => decide (g ≤ f))).map μ).sum)) := by
  induction fs generalizing acc with
  | nil => simp [cumsum]
  | cons g l ih =>
    rw [pairwise_cons] at h
    simp only [map_cons, cumsum]
    rw [ih h.2]
    have hl : l.filter (fun x => decide (x ≤ g)) = [] := by
      rw [filter_eq_nil_iff]; intro x hx; have := h.1 x hx; simp; omega
    congr 1
    · simp [hl]
    · apply map_congr_left
      intro f hf
      have : g ≤ f := Int.le_of_lt (h.1 f hf)
      simp only [filter_cons, this, decide_true, if_true, map_cons, sum_cons]
      congr 1; ring

/-- `computeDriftCol` in closed form -/
theorem computeDriftCol_eq (k : Nat) (t : List Row) (h : KeysNodup t) :
    computeDriftCol k t = (mframes t).map (fun f => (f, specDrift k t f)) := by
  unfold computeDriftCol
  rw [groupMean_eq k t h, cumsum_eq _ _ (mframes_sorted t)]
  apply map_congr_left
  intro f _
  simp [specDrift]

/-! ## rows: subtracting / adding a frame-dependent offset -/

theorem getD_mapIdx (f : Nat → Rat → Rat) (l : List Rat) (k : Nat) (hk : k < l.length) :
    (l.mapIdx f).getD k 0 = f k (l.getD k 0) := by
  simp [getD_eq_getElem?_getD, getElem?_mapIdx, getElem?_eq_getElem hk]

theorem subRow_x (ds : List (List (Int × Rat))) (r : Row) (k : Nat) (hk : k < r.pos.length) :
    (subRow ds r).x k = r.x k - driftAt (ds.getD k []) r.frame := by
  unfold Row.x subRow
  exact getD_mapIdx _ _ _ hk

theorem shiftRow_x (c : Nat → Int → Rat) (r : Row) (k : Nat) (hk : k < r.pos.length) :
    (shiftRow c r).x k = r.x k + c k r.frame := by
  unfold Row.x shiftRow
  exact getD_mapIdx _ _ _ hk

theorem ownDrift_getD (d : Nat) (t : List Row) (k : Nat) (hk : k < d) :
    (ownDrift d t).getD k [] = computeDriftCol k t := by
  simp [ownDrift, getD_eq_getElem?_getD, hk]

theorem keysNodup_map (g : Row → Row) (hp : ∀ r, (g r).particle = r.particle)
    (hf : ∀ r, (g r).frame = r.frame) (t : List Row) : KeysNodup (t.map g) ↔ KeysNodup t := by
  unfold KeysNodup
  rw [pairwise_map]
  simp only [hp, hf]

theorem pairsAt_map (g : Row → Row) (hp : ∀ r, (g r).particle = r.particle)
    (hf : ∀ r, (g r).frame = r.frame) (t : List Row) (f : Int) :
    pairsAt (t.map g) f = (pairsAt t f).map (fun p => (g p.1, g p.2)) := by
  unfold pairsAt
  rw [flatMap_map, map_flatMap]
  apply flatMap_congr
  intro r _
  simp only [hf]
  split
  · rw [filter_map, map_map, map_map]
    have : (isPrev (g r) ∘ g) = isPrev r := by
      funext a; simp [isPrev, hp, hf]
    rw [this]; rfl
  · simp

theorem mframes_map (g : Row → Row) (hp : ∀ r, (g r).particle = r.particle)
    (hf : ∀ r, (g r).frame = r.frame) (t : List Row) : mframes (t.map g) = mframes t := by
  apply sorted_ext (mframes_sorted _) (mframes_sorted _)
  intro x
  rw [mem_mframes, mem_mframes, pairsAt_map g hp hf]
  simp

theorem sum_map_add_const {α} (l : List α) (φ : α → Rat) (c : Rat) :
    (l.map (fun p => φ p + c)).sum = (l.map φ).sum + (l.length : Rat) * c := by
  induction l with
  | nil => simp
  | cons a l ih => simp only [map_cons, sum_cons, ih, length_cons]; push_cast; ring

theorem mean_map_add_const {α} (l : List α) (φ : α → Rat) (c : Rat) (h : l ≠ []) :
    mean (l.map (fun p => φ p + c)) = mean (l.map φ) + c := by
  unfold mean
  rw [sum_map_add_const, length_map, length_map]
  have : (l.length : Rat) ≠ 0 := by
    have := length_pos_iff.mpr h
    exact_mod_cast (Nat.pos_iff_ne_zero.mp this)
  field_simp

/-- If `g` keeps the keys and adds the frame-dependent offset `e frame` to column `k` of every
row, the mean displacement into a measured frame `f` changes by `e f - e (f-1)`. -/
theorem meanDisp_map_offset (g : Row → Row) (hp : ∀ r, (g r).particle = r.particle)
    (hf : ∀ r, (g r).frame = r.frame) (k : Nat) (e : Int → Rat) (t : List Row)
    (hx : ∀ r ∈ t, (g r).x k = r.x k + e r.frame) (f : Int) (hm : f ∈ mframes t) :
    meanDisp k (t.map g) f = meanDisp k t f + (e f - e (f - 1)) := by
  unfold meanDisp disps
  rw [pairsAt_map g hp hf, map_map]
  rw [← mean_map_add_const _ _ _ (mem_mframes.mp hm)]
  congr 1
  apply map_congr_left
  rintro ⟨a, r⟩ hpr
  have h := mem_pairsAt.mp hpr
  simp only [Function.comp]
  rw [hx r h.1, hx a h.2.1, h.2.2.1]
  have : a.frame = f - 1 := by omega
  rw [this]; ring

/-! ## the drift curve as a function of the frame -/

theorem driftAt_map (v : Int → Rat) (fs : List Int) (x : Int) :
    driftAt (fs.map (fun f => (f, v f))) x = if x ∈ fs then v x else 0 := by
  induction fs with
  | nil => simp [driftAt]
  | cons g l ih =>
    unfold driftAt at *
    simp only [map_cons, lookup_cons]
    by_cases hx : x = g
    · subst hx; simp
    · have : (x == g) = false := by simp [hx]
      rw [this]
      simp only [mem_cons, hx, false_or]
      exact ih

theorem driftAt_computeDriftCol (k : Nat) (t : List Row) (h : KeysNodup t) (x : Int) :
    driftAt (computeDriftCol k t) x = if x ∈ mframes t then specDrift k t x else 0 := by
  rw [computeDriftCol_eq k t h, driftAt_map]

theorem sum_filter_le_step (μ : Int → Rat) (fs : List Int) (f : Int) :
    ((fs.filter (fun g => decide (g ≤ f))).map μ).sum
      = ((fs.filter (fun g => decide (g ≤ f - 1))).map μ).sum
        + ((fs.filter (fun g => decide (g = f))).map μ).sum := by
  induction fs with
  | nil => simp
  | cons g l ih =>
    simp only [filter_cons]
    by_cases h1 : g ≤ f - 1
    · have h2 : g ≤ f := by omega
      have h3 : ¬ g = f := by omega
      simp only [h1, h2, h3, decide_true, decide_false, if_true, Bool.false_eq_true, if_false,
        map_cons, sum_cons]
      rw [ih]; ring
    · by_cases h3 : g = f
      · subst h3
        have h2 : g ≤ g := by omega
        simp only [h1, h2, decide_true, decide_false, if_true, Bool.false_eq_true, if_false,
          map_cons, sum_cons]
        rw [ih]; ring
      · have h2 : ¬ g ≤ f := by omega
        simp only [h1, h2, h3, decide_false, Bool.false_eq_true, if_false]
        exact ih

theorem filter_eq_singleton (fs : List Int) (h : fs.Pairwise (· < ·)) (f : Int) (hf : f ∈ fs) :
    fs.filter (fun g => decide (g = f)) = [f] := by
  induction fs with
  | nil => cases hf
  | cons g l ih =>
    rw [pairwise_cons] at h
    simp only [filter_cons]
    by_cases hg : g = f
    · subst hg
      have : l.filter (fun x => decide (x = g)) = [] := by
        rw [filter_eq_nil_iff]; intro x hx; have := h.1 x hx; simp; omega
      simp [this]
    · have hf' : f ∈ l := by
        rcases mem_cons.mp hf with h1 | h1
        · exact absurd h1.symm hg
        · exact h1
      simp [hg, ih h.2 hf']

/-- one step of the cumulative sum -/
theorem specDrift_step (k : Nat) (t : List Row) (f : Int) (hf : f ∈ mframes t) :
    specDrift k t f = specDrift k t (f - 1) + meanDisp k t f := by
  unfold specDrift
  rw [sum_filter_le_step, filter_eq_singleton _ (mframes_sorted t) f hf]
  simp

theorem specDrift_before (k : Nat) (t : List Row) (x : Int) (h : ∀ g ∈ mframes t, x < g) :
    specDrift k t x = 0 := by
  unfold specDrift
  have : (mframes t).filter (fun g => decide (g ≤ x)) = [] := by
    rw [filter_eq_nil_iff]; intro g hg; have := h g hg; simp; omega
  simp [this]

/-- Under contiguity the increment of the drift curve from frame `f-1` (0 if unmeasured) to a
measured frame `f` is the mean displacement into `f`. -/
theorem drift_increment (k : Nat) (t : List Row) (h : KeysNodup t) (hc : Contig (mframes t))
    (f : Int) (hf : f ∈ mframes t) :
    driftAt (computeDriftCol k t) f - driftAt (computeDriftCol k t) (f - 1) = meanDisp k t f := by
  rw [driftAt_computeDriftCol k t h, driftAt_computeDriftCol k t h, if_pos hf,
    specDrift_step k t f hf]
  by_cases h1 : (f - 1) ∈ mframes t
  · rw [if_pos h1]; ring
  · rw [if_neg h1]
    -- then `f` is the first measured frame
    cases hfs : mframes t with
    | nil => rw [hfs] at hf; cases hf
    | cons m0 rest =>
      have hs := mframes_sorted t
      rw [hfs] at hs hf h1
      rw [pairwise_cons] at hs
      have hfm : f = m0 := by
        rcases mem_cons.mp hf with h2 | h2
        · exact h2
        · exact absurd (hfs ▸ hc m0 rest hfs f h2) h1
      have : specDrift k t (f - 1) = 0 := by
        apply specDrift_before
        intro g hg
        rw [hfs] at hg
        rcases mem_cons.mp hg with h2 | h2
        · omega
        · have := hs.1 g h2; omega
      rw [this]; ring

theorem sum_map_zero {α} (l : List α) (φ : α → Rat) (h : ∀ a ∈ l, φ a = 0) : (l.map φ).sum = 0 := by
  induction l with
  | nil => simp
  | cons a l ih =>
    simp only [map_cons, sum_cons, h a mem_cons_self,
      ih (fun b hb => h b (mem_cons_of_mem _ hb))]
    ring

theorem contigB_iff (fs : List Int) : contigB fs = true ↔ Contig fs := by
  unfold Contig
  cases fs with
  | nil => simp [contigB]
  | cons m0 rest =>
    simp only [contigB, all_eq_true, contains_iff_mem, cons.injEq, and_imp]
    constructor
    · intro h a b ha hb f hf; subst ha; subst hb; exact h f hf
    · intro h f hf; exact h m0 rest rfl rfl f hf

end TrackpyV.Drift
