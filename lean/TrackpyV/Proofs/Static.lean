import TrackpyV.Model.Static
/-!
Helper lemmas for the `Clusters` model: the representation invariant of `add`, the relabelling
form of `add`, connectivity, sizes.  Core Lean only.
-/
namespace TrackpyV.Static

/-! ### list helpers -/

theorem getElem?_setAll (m : List Nat) (v : Nat) (ids : List Nat) (j : Nat) :
    (setAll ids m v)[j]? = if j ∈ m then (ids[j]?).map (fun _ => v) else ids[j]? := by
  unfold setAll
  induction m generalizing ids with
  | nil => simp
  | cons f t ih =>
    simp only [List.foldl_cons, ih, List.mem_cons]
    by_cases hjt : j ∈ t
    · simp only [hjt, or_true, if_true]
      by_cases hfj : f = j
      · subst hfj; simp [List.getElem?_set]
        by_cases h : f < ids.length <;> simp [h]
      · simp [List.getElem?_set, hfj]
    · simp only [hjt, or_false, if_false]
      by_cases hfj : j = f
      · subst hfj; simp [List.getElem?_set]
        by_cases h : j < ids.length <;> simp [h]
      · have : ¬ f = j := fun h => hfj h.symm
        simp [List.getElem?_set, this, hfj]

theorem length_setAll (m : List Nat) (v : Nat) (ids : List Nat) :
    (setAll ids m v).length = ids.length := by
  unfold setAll
  induction m generalizing ids with
  | nil => simp
  | cons f t ih => simp [ih]

theorem lookup_mem {k : Nat} {m : List Nat} {l : List (Nat × List Nat)}
    (h : l.lookup k = some m) : (k, m) ∈ l := by
  induction l with
  | nil => simp at h
  | cons e t ih =>
    obtain ⟨k', m'⟩ := e
    simp only [List.lookup_cons] at h
    by_cases hk : k = k'
    · subst hk; simp at h; subst h; simp
    · have : (k == k') = false := by simp [hk]
      rw [this] at h
      exact List.mem_cons_of_mem _ (ih h)

theorem lookup_isSome {k : Nat} {m : List Nat} {l : List (Nat × List Nat)}
    (h : (k, m) ∈ l) : ∃ m', l.lookup k = some m' := by
  induction l with
  | nil => cases h
  | cons e t ih =>
    obtain ⟨k', m'⟩ := e
    by_cases hk : k = k'
    · subst hk; exact ⟨m', by simp [List.lookup_cons]⟩
    · have hne : (k == k') = false := by simp [hk]
      have : (k, m) ∈ t := by
        rcases List.mem_cons.1 h with h | h
        · exact absurd (Prod.mk.inj h).1 hk
        · exact h
      obtain ⟨m'', hm⟩ := ih this
      exact ⟨m'', by simp [List.lookup_cons, hne, hm]⟩

/-! ### the representation invariant -/

/-- `pos_ids` has length `n`; every dict entry `(k, m)` lists exactly the rows labelled `k`,
without repetition; every label in use has an entry. -/
structure Inv (n : Nat) (c : Clusters) : Prop where
  len : c.posIds.length = n
  ex : ∀ (k : Nat) (m : List Nat), (k, m) ∈ c.clusters →
    (∀ f : Nat, f ∈ m ↔ c.posIds[f]? = some k) ∧ m.Nodup
  total : ∀ (f k : Nat), c.posIds[f]? = some k → ∃ m : List Nat, (k, m) ∈ c.clusters

theorem Inv.members {n : Nat} {c : Clusters} (h : Inv n c) {f k : Nat}
    (hf : c.posIds[f]? = some k) :
    (k, c.members k) ∈ c.clusters := by
  obtain ⟨m, hm⟩ := h.total f k hf
  obtain ⟨m', hm'⟩ := lookup_isSome hm
  have := lookup_mem hm'
  simpa [Clusters.members, hm'] using this

theorem inv_init (n : Nat) : Inv n (Clusters.init n) := by
  refine ⟨by simp [Clusters.init], ?_, ?_⟩
  · intro k m hkm
    simp only [Clusters.init, List.mem_map, List.mem_range] at hkm
    obtain ⟨i, hi, he⟩ := hkm
    obtain ⟨rfl, rfl⟩ := Prod.mk.inj he
    refine ⟨?_, by simp⟩
    intro f
    simp only [Clusters.init, List.mem_singleton]
    constructor
    · intro h; subst h; simp [hi]
    · intro h
      by_cases hf : f < n
      · simp [hf] at h; exact h
      · simp [hf] at h
  · intro f k hf
    simp only [Clusters.init] at hf ⊢
    by_cases hfn : f < n
    · simp [hfn] at hf; subst hf
      exact ⟨[f], by simp [hfn]⟩
    · simp [hfn] at hf

/-- the relabelling that `add` performs on `pos_ids` -/
def relabel (i1 i2 : Nat) (ids : List Nat) : List Nat :=
  ids.map fun k => if k = i2 then i1 else k

theorem getD_eq_of_lt {ids : List Nat} {b : Nat} (hb : b < ids.length) :
    ids[b]? = some (ids.getD b 0) := by
  simp [List.getD, hb]

theorem add_posIds {n : Nat} {c : Clusters} (h : Inv n c) {a b : Nat} (hb : b < n) :
    (c.add a b).posIds = relabel (c.posIds.getD a 0) (c.posIds.getD b 0) c.posIds := by
  have hbk : c.posIds[b]? = some (c.posIds.getD b 0) := getD_eq_of_lt (by rw [h.len]; exact hb)
  unfold Clusters.add
  generalize c.posIds.getD a 0 = i1 at *
  generalize c.posIds.getD b 0 = i2 at *
  simp only
  by_cases he : i1 = i2
  · simp only [he, if_true, relabel]
    conv => lhs; rw [← List.map_id c.posIds]
    apply List.map_congr_left
    intro k _; by_cases hk : k = i2 <;> simp [hk]
  · simp only [he, if_false]
    apply List.ext_getElem?
    intro j
    rw [getElem?_setAll]
    have hmem := (h.ex _ _ (h.members hbk)).1 j
    simp only [relabel, List.getElem?_map]
    by_cases hj : j ∈ c.members i2
    · have := hmem.1 hj
      simp [hj, this]
    · have hne : ¬ c.posIds[j]? = some i2 := fun hh => hj (hmem.2 hh)
      simp only [hj, if_false]
      cases hq : c.posIds[j]? with
      | none => simp
      | some k =>
        have : k ≠ i2 := by
          intro hk; apply hne; rw [hq, hk]
        simp [this]

theorem getElem?_relabel (i1 i2 : Nat) (ids : List Nat) (f : Nat) :
    (relabel i1 i2 ids)[f]? = (ids[f]?).map fun k => if k = i2 then i1 else k := by
  simp [relabel]

theorem add_clusters_of_ne {c : Clusters} {a b : Nat}
    (he : c.posIds.getD a 0 ≠ c.posIds.getD b 0) :
    (c.add a b).clusters =
      (c.clusters.map fun e => if e.1 = c.posIds.getD a 0
          then (c.posIds.getD a 0, c.members (c.posIds.getD a 0) ++ c.members (c.posIds.getD b 0))
          else e).filter fun e => e.1 != c.posIds.getD b 0 := by
  unfold Clusters.add
  simp only [he, if_false]

theorem add_of_eq {c : Clusters} {a b : Nat}
    (he : c.posIds.getD a 0 = c.posIds.getD b 0) : c.add a b = c := by
  unfold Clusters.add
  simp only [he, if_true]

theorem add_inv {n : Nat} {c : Clusters} (h : Inv n c) {a b : Nat} (ha : a < n) (hb : b < n) :
    Inv n (c.add a b) := by
  by_cases he : c.posIds.getD a 0 = c.posIds.getD b 0
  · rw [add_of_eq he]; exact h
  have hak : c.posIds[a]? = some (c.posIds.getD a 0) := getD_eq_of_lt (by rw [h.len]; exact ha)
  have hbk : c.posIds[b]? = some (c.posIds.getD b 0) := getD_eq_of_lt (by rw [h.len]; exact hb)
  have hm1 := h.members hak
  have hm2 := h.members hbk
  have hp := add_posIds (a := a) h hb
  have hc := add_clusters_of_ne he
  generalize c.posIds.getD a 0 = i1 at *
  generalize c.posIds.getD b 0 = i2 at *
  obtain ⟨hx1, hn1⟩ := h.ex _ _ hm1
  obtain ⟨hx2, hn2⟩ := h.ex _ _ hm2
  refine ⟨by rw [hp]; simp [relabel, h.len], ?_, ?_⟩
  · intro k m hkm
    rw [hc] at hkm
    rw [hp]
    simp only [List.mem_filter, List.mem_map, bne_iff_ne, ne_eq] at hkm
    obtain ⟨⟨e, heo, hee⟩, hk2⟩ := hkm
    by_cases h1 : e.1 = i1
    · simp only [h1, if_true] at hee
      obtain ⟨rfl, rfl⟩ := Prod.mk.inj hee
      constructor
      · intro f
        rw [getElem?_relabel, List.mem_append, hx1, hx2]
        cases hq : c.posIds[f]? with
        | none => simp
        | some k0 =>
          by_cases hk0 : k0 = i2
          · simp [hk0]
          · simp [hk0]
      · refine List.nodup_append.2 ⟨hn1, hn2, ?_⟩
        intro x hx y hy hxy
        subst hxy
        have e1 := (hx1 x).1 hx
        have e2 := (hx2 x).1 hy
        rw [e1] at e2
        exact he (Option.some.inj e2)
    · simp only [h1, if_false] at hee
      subst hee
      obtain ⟨hxe, hne⟩ := h.ex _ _ heo
      refine ⟨?_, hne⟩
      intro f
      rw [getElem?_relabel, hxe]
      cases hq : c.posIds[f]? with
      | none => simp
      | some k0 =>
        by_cases hk0 : k0 = i2
        · subst hk0
          simp only [Option.map_some, if_true, Option.some.injEq]
          constructor
          · intro hh; exact absurd hh.symm hk2
          · intro hh; exact absurd hh.symm h1
        · simp [hk0]
  · intro f k hf
    rw [hp, getElem?_relabel] at hf
    rw [hc]
    cases hq : c.posIds[f]? with
    | none => simp [hq] at hf
    | some k0 =>
      simp only [hq, Option.map_some, Option.some.injEq] at hf
      by_cases hk0 : k0 = i2
      · simp only [hk0, if_true] at hf
        subst hf
        refine ⟨c.members i1 ++ c.members i2, ?_⟩
        simp only [List.mem_filter, List.mem_map, bne_iff_ne, ne_eq]
        exact ⟨⟨_, hm1, by simp⟩, he⟩
      · simp only [hk0, if_false] at hf
        subst hf
        by_cases hk1 : k0 = i1
        · subst hk1
          refine ⟨c.members k0 ++ c.members i2, ?_⟩
          simp only [List.mem_filter, List.mem_map, bne_iff_ne, ne_eq]
          exact ⟨⟨_, hm1, by simp⟩, he⟩
        · obtain ⟨m, hm⟩ := h.total f k0 hq
          refine ⟨m, ?_⟩
          simp only [List.mem_filter, List.mem_map, bne_iff_ne, ne_eq]
          exact ⟨⟨(k0, m), hm, by simp [hk1]⟩, hk0⟩

/-! ### chains -/

theorem Reach.single {R : Nat → Nat → Prop} {a b : Nat} (h : R a b) : Reach R a b :=
  Reach.step (Reach.refl a) h

theorem Reach.trans {R : Nat → Nat → Prop} {a b c : Nat} (h1 : Reach R a b) (h2 : Reach R b c) :
    Reach R a c := by
  induction h2 with
  | refl => exact h1
  | step _ hr ih => exact Reach.step ih hr

theorem Reach.symm {R : Nat → Nat → Prop} (hs : ∀ x y, R x y → R y x) {a b : Nat}
    (h : Reach R a b) : Reach R b a := by
  induction h with
  | refl => exact Reach.refl _
  | step _ hr ih => exact Reach.trans (Reach.single (hs _ _ hr)) ih

theorem Reach.mono {R S : Nat → Nat → Prop} (hs : ∀ x y, R x y → S x y) {a b : Nat}
    (h : Reach R a b) : Reach S a b := by
  induction h with
  | refl => exact Reach.refl _
  | step _ hr ih => exact Reach.step ih (hs _ _ hr)

theorem Adj.symm {E : List (Nat × Nat)} (x y : Nat) (h : Adj E x y) : Adj E y x := Or.symm h

/-! ### connectivity invariant of `add` -/

/-- after feeding the pairs `E`: rows carry the same id exactly when a chain of `E`-edges joins
them -/
def Good (n : Nat) (c : Clusters) (E : List (Nat × Nat)) : Prop :=
  Inv n c ∧ ∀ x y, x < n → y < n →
    (c.posIds.getD x 0 = c.posIds.getD y 0 ↔ Reach (Adj E) x y)

theorem good_init (n : Nat) : Good n (Clusters.init n) [] := by
  refine ⟨inv_init n, ?_⟩
  intro x y hx hy
  simp only [Clusters.init, List.getD, List.getElem?_range hx, List.getElem?_range hy,
    Option.getD_some]
  constructor
  · intro h; subst h; exact Reach.refl _
  · intro h
    induction h with
    | refl => rfl
    | step _ hr _ => simp [Adj] at hr

theorem getD_relabel {i1 i2 : Nat} {ids : List Nat} {x : Nat} (hx : x < ids.length) :
    (relabel i1 i2 ids).getD x 0 = if ids.getD x 0 = i2 then i1 else ids.getD x 0 := by
  simp [relabel, List.getD, hx]

theorem good_add {n : Nat} {c : Clusters} {E : List (Nat × Nat)}
    (hE : ∀ p ∈ E, p.1 < n ∧ p.2 < n) (h : Good n c E) {a b : Nat} (ha : a < n) (hb : b < n) :
    Good n (c.add a b) (E ++ [(a, b)]) := by
  obtain ⟨hinv, hcon⟩ := h
  refine ⟨add_inv hinv ha hb, ?_⟩
  have hlen := hinv.len
  have hmono : ∀ {x y}, Reach (Adj E) x y → Reach (Adj (E ++ [(a, b)])) x y :=
    fun h => Reach.mono (fun x y hxy => by
      rcases hxy with h | h
      · exact Or.inl (List.mem_append_left _ h)
      · exact Or.inr (List.mem_append_left _ h)) h
  have hab : Reach (Adj (E ++ [(a, b)])) a b := Reach.single (Or.inl (by simp))
  have hba : Reach (Adj (E ++ [(a, b)])) b a := Reach.single (Or.inr (by simp))
  intro x y hx hy
  rw [add_posIds hinv hb, getD_relabel (by rw [hlen]; exact hx),
    getD_relabel (by rw [hlen]; exact hy)]
  have hca := hcon a
  have hcb := hcon b
  generalize c.posIds.getD a 0 = i1 at *
  generalize c.posIds.getD b 0 = i2 at *
  constructor
  · intro heq
    by_cases hkx : c.posIds.getD x 0 = i2 <;> by_cases hky : c.posIds.getD y 0 = i2
    · exact hmono ((hcon x y hx hy).1 (hkx.trans hky.symm))
    · simp only [hkx, hky, if_true, if_false] at heq
      have h1 := ((hcb x hb hx).1 hkx.symm).symm Adj.symm
      have h2 := (hca y ha hy).1 heq
      exact (hmono h1).trans (hba.trans (hmono h2))
    · simp only [hkx, hky, if_true, if_false] at heq
      have h1 := (hca x ha hx).1 heq.symm
      have h2 := (hcb y hb hy).1 hky.symm
      exact ((hmono h1).symm Adj.symm).trans (hab.trans (hmono h2))
    · simp only [hkx, hky, if_false] at heq
      exact hmono ((hcon x y hx hy).1 heq)
  · intro hr
    induction hr with
    | refl => rfl
    | @step z w hxz hzw ih =>
      have hzn : z < n ∧ w < n := by
        rcases hzw with h | h
        · rcases List.mem_append.1 h with h | h
          · exact hE _ h
          · simp at h; obtain ⟨rfl, rfl⟩ := h; exact ⟨ha, hb⟩
        · rcases List.mem_append.1 h with h | h
          · exact (hE _ h).symm
          · simp at h; obtain ⟨rfl, rfl⟩ := h; exact ⟨hb, ha⟩
      rw [ih hzn.1]
      have hold : Adj E z w ∨ (z = a ∧ w = b) ∨ (z = b ∧ w = a) := by
        rcases hzw with h | h
        · rcases List.mem_append.1 h with h | h
          · exact Or.inl (Or.inl h)
          · simp at h; exact Or.inr (Or.inl h)
        · rcases List.mem_append.1 h with h | h
          · exact Or.inl (Or.inr h)
          · simp at h; exact Or.inr (Or.inr ⟨h.2, h.1⟩)
      rcases hold with h | ⟨rfl, rfl⟩ | ⟨rfl, rfl⟩
      · rw [(hcon z w hzn.1 hzn.2).2 (Reach.single h)]
      · have e1 : c.posIds.getD z 0 = i1 := ((hca z ha ha).2 (Reach.refl _)).symm
        have e2 : c.posIds.getD w 0 = i2 := ((hcb w hb hb).2 (Reach.refl _)).symm
        rw [e1, e2]; by_cases h12 : i1 = i2 <;> simp [h12]
      · have e1 : c.posIds.getD w 0 = i1 := ((hca w ha ha).2 (Reach.refl _)).symm
        have e2 : c.posIds.getD z 0 = i2 := ((hcb z hb hb).2 (Reach.refl _)).symm
        rw [e1, e2]; by_cases h12 : i1 = i2 <;> simp [h12]

theorem good_foldl {n : Nat} (rest : List (Nat × Nat)) :
    ∀ (done : List (Nat × Nat)) (c : Clusters),
      (∀ p ∈ done, p.1 < n ∧ p.2 < n) → (∀ p ∈ rest, p.1 < n ∧ p.2 < n) → Good n c done →
      Good n (rest.foldl (fun c p => c.add p.1 p.2) c) (done ++ rest) := by
  induction rest with
  | nil => intro done c _ _ h; simpa using h
  | cons p t ih =>
    intro done c hd hr h
    have hp := hr p (by simp)
    have := ih (done ++ [(p.1, p.2)]) (c.add p.1 p.2)
      (by
        intro q hq
        rcases List.mem_append.1 hq with hq | hq
        · exact hd q hq
        · simp at hq; subst hq; exact hp)
      (fun q hq => hr q (List.mem_cons_of_mem _ hq))
      (good_add hd h hp.1 hp.2)
    simpa using this

theorem good_fromPairs {n : Nat} {E : List (Nat × Nat)} (hE : ∀ p ∈ E, p.1 < n ∧ p.2 < n) :
    Good n (Clusters.fromPairs E n) E := by
  have := good_foldl (n := n) E [] (Clusters.init n) (by simp) hE (good_init n)
  simpa [Clusters.fromPairs] using this

/-! ### cluster sizes -/

theorem getElem?_foldl_set {α : Type} (m : List Nat) (v : α) (res : List α) (j : Nat) :
    (m.foldl (fun r f => r.set f v) res)[j]? =
      if j ∈ m then (res[j]?).map (fun _ => v) else res[j]? := by
  induction m generalizing res with
  | nil => simp
  | cons f t ih =>
    simp only [List.foldl_cons, ih, List.mem_cons]
    by_cases hjt : j ∈ t
    · simp only [hjt, or_true, if_true]
      by_cases hfj : f = j
      · subst hfj; simp [List.getElem?_set]
        by_cases h : f < res.length <;> simp [h]
      · simp [List.getElem?_set, hfj]
    · simp only [hjt, or_false, if_false]
      by_cases hfj : j = f
      · subst hfj; simp [List.getElem?_set]
        by_cases h : j < res.length <;> simp [h]
      · have : ¬ f = j := fun h => hfj h.symm
        simp [List.getElem?_set, this, hfj]

/-- one dict entry of the `cluster_size` loop -/
def sizeStep (res : List (Option Nat)) (e : Nat × List Nat) : List (Option Nat) :=
  e.2.foldl (fun r f => r.set f (some e.2.length)) res

theorem sizes_untouched (L : List (Nat × List Nat)) (res : List (Option Nat)) (f : Nat)
    (h : ∀ e ∈ L, f ∉ e.2) : (L.foldl sizeStep res)[f]? = res[f]? := by
  induction L generalizing res with
  | nil => rfl
  | cons e t ih =>
    simp only [List.foldl_cons]
    rw [ih _ (fun e' he' => h e' (List.mem_cons_of_mem _ he'))]
    simp [sizeStep, getElem?_foldl_set, h e (by simp)]

theorem length_sizes (L : List (Nat × List Nat)) (res : List (Option Nat)) :
    (L.foldl sizeStep res).length = res.length := by
  induction L generalizing res with
  | nil => rfl
  | cons e t ih =>
    simp only [List.foldl_cons, ih]
    unfold sizeStep
    generalize e.2.length = v
    induction e.2 generalizing res with
    | nil => rfl
    | cons f t' ih' => simp [ih']

theorem sizes_set (L : List (Nat × List Nat)) (res : List (Option Nat)) (f s : Nat)
    (hf : f < res.length) (hex : ∃ e ∈ L, f ∈ e.2)
    (hall : ∀ e ∈ L, f ∈ e.2 → e.2.length = s) :
    (L.foldl sizeStep res)[f]? = some (some s) := by
  induction L generalizing res with
  | nil => obtain ⟨e, he, _⟩ := hex; cases he
  | cons e t ih =>
    simp only [List.foldl_cons]
    have hlen : f < (sizeStep res e).length := by
      have := length_sizes [e] res
      simp only [List.foldl_cons, List.foldl_nil] at this
      rw [this]; exact hf
    by_cases ht : ∃ e' ∈ t, f ∈ e'.2
    · exact ih _ hlen ht (fun e' he' => hall e' (List.mem_cons_of_mem _ he'))
    · have hnot : ∀ e' ∈ t, f ∉ e'.2 := fun e' he' hfe => ht ⟨e', he', hfe⟩
      rw [sizes_untouched t _ f hnot]
      obtain ⟨e0, he0, hfe0⟩ := hex
      have : e0 = e := by
        rcases List.mem_cons.1 he0 with h | h
        · exact h
        · exact absurd hfe0 (hnot e0 h)
      subst this
      simp [sizeStep, getElem?_foldl_set, hfe0, hf, hall e0 (by simp) hfe0]

/-- number of rows that carry the same id as row `f` -/
def sameIdCount (ids : List Nat) (f : Nat) : Nat :=
  ((List.range ids.length).filter fun g => ids.getD g 0 == ids.getD f 0).length

theorem clusterSize_correct {n : Nat} {c : Clusters} (h : Inv n c) {f : Nat} (hf : f < n) :
    c.clusterSize[f]? = some (some (sameIdCount c.posIds f)) := by
  have hfl : f < c.posIds.length := by rw [h.len]; exact hf
  have hfk := getD_eq_of_lt hfl
  have hmem := h.members hfk
  obtain ⟨hx, hnd⟩ := h.ex _ _ hmem
  have hlen : (c.members (c.posIds.getD f 0)).length = sameIdCount c.posIds f := by
    unfold sameIdCount
    apply List.Perm.length_eq
    rw [List.perm_ext_iff_of_nodup hnd (List.Nodup.sublist List.filter_sublist List.nodup_range)]
    intro g
    rw [hx g]
    simp only [List.mem_filter, List.mem_range, beq_iff_eq]
    constructor
    · intro hg
      have hgl : g < c.posIds.length := by
        by_cases hh : g < c.posIds.length
        · exact hh
        · simp [List.getElem?_eq_none (Nat.le_of_not_lt hh)] at hg
      refine ⟨hgl, ?_⟩
      have := getD_eq_of_lt hgl
      rw [hg] at this
      exact (Option.some.inj this).symm
    · intro ⟨hgl, hg⟩
      rw [getD_eq_of_lt hgl, hg]
  unfold Clusters.clusterSize
  have : (fun (res : List (Option Nat)) (e : Nat × List Nat) =>
      e.2.foldl (fun r f => r.set f (some e.2.length)) res) = sizeStep := rfl
  rw [this]
  apply sizes_set
  · simpa using hfl
  · exact ⟨_, hmem, (hx f).2 hfk⟩
  · intro e he hfe
    obtain ⟨hxe, hnde⟩ := h.ex e.1 e.2 he
    have hk : e.1 = c.posIds.getD f 0 := by
      have := (hxe f).1 hfe
      rw [hfk] at this
      exact (Option.some.inj this).symm
    rw [← hlen]
    apply List.Perm.length_eq
    rw [List.perm_ext_iff_of_nodup hnde hnd]
    intro g
    rw [hxe g, hx g, hk]

/-! ### geometry: the pair list is the `Close` graph -/

theorem dist2_comm (p q : Point) : dist2 p q = dist2 q p := by
  unfold dist2
  rw [List.zipWith_comm]
  congr 1
  apply congrArg (fun f => List.zipWith f q p)
  funext a b
  grind

theorem sdist2_comm (sep p q : Point) : sdist2 sep p q = sdist2 sep q p := dist2_comm _ _

theorem mem_pairs {sep : Point} {pts : List Point} {x y : Nat} :
    (x, y) ∈ pairs sep pts ↔
      x < pts.length ∧ y < pts.length ∧ x < y ∧
        sdist2 sep (pts.getD x []) (pts.getD y []) < 1 := by
  simp only [pairs, near, List.mem_flatMap, List.mem_range, List.mem_map, List.mem_filter,
    Bool.and_eq_true, decide_eq_true_eq, Prod.mk.injEq]
  constructor
  · rintro ⟨i, hi, j, ⟨hj, hij, hd⟩, rfl, rfl⟩
    exact ⟨hi, hj, hij, hd⟩
  · rintro ⟨hx, hy, hxy, hd⟩
    exact ⟨x, hx, y, ⟨hy, hxy, hd⟩, rfl, rfl⟩

theorem pairs_lt {sep : Point} {pts : List Point} :
    ∀ p ∈ pairs sep pts, p.1 < pts.length ∧ p.2 < pts.length := by
  intro p hp
  have := (mem_pairs (x := p.1) (y := p.2)).1 hp
  exact ⟨this.1, this.2.1⟩

theorem adj_pairs_iff_close {sep : Point} {pts : List Point} {x y : Nat} :
    Adj (pairs sep pts) x y ↔ Close sep pts x y := by
  unfold Adj Close
  rw [mem_pairs, mem_pairs]
  constructor
  · rintro (⟨hx, hy, hxy, hd⟩ | ⟨hy, hx, hxy, hd⟩)
    · exact ⟨hx, hy, Nat.ne_of_lt hxy, hd⟩
    · exact ⟨hx, hy, Nat.ne_of_gt hxy, by rw [sdist2_comm]; exact hd⟩
  · rintro ⟨hx, hy, hne, hd⟩
    rcases Nat.lt_or_gt_of_ne hne with h | h
    · exact Or.inl ⟨hx, hy, h, hd⟩
    · exact Or.inr ⟨hy, hx, h, by rw [sdist2_comm]; exact hd⟩

theorem reach_congr {R S : Nat → Nat → Prop} (h : ∀ x y, R x y ↔ S x y) {a b : Nat} :
    Reach R a b ↔ Reach S a b :=
  ⟨Reach.mono (fun x y => (h x y).1), Reach.mono (fun x y => (h x y).2)⟩

/-! ### cluster_iter: ids across frames -/

theorem le_foldl_max_self (xs : List Nat) (x : Nat) : x ≤ xs.foldl max x := by
  induction xs generalizing x with
  | nil => exact Nat.le_refl _
  | cons z t ih => exact Nat.le_trans (Nat.le_max_left x z) (ih (max x z))

theorem le_foldl_max_of_mem (xs : List Nat) (x y : Nat) (hy : y ∈ xs) : y ≤ xs.foldl max x := by
  induction xs generalizing x with
  | nil => cases hy
  | cons z t ih =>
    rcases List.mem_cons.1 hy with h | h
    · subst h; exact Nat.le_trans (Nat.le_max_right x y) (le_foldl_max_self t (max x y))
    · exact ih (max x z) h

theorem lt_nextId (ids : List Nat) (cur : Nat) : ∀ a ∈ ids, a < nextId ids cur := by
  intro a ha
  cases ids with
  | nil => cases ha
  | cons x xs =>
    simp only [nextId]
    rcases List.mem_cons.1 ha with h | h
    · subst h; exact Nat.lt_succ_of_le (le_foldl_max_self xs a)
    · exact Nat.lt_succ_of_le (le_foldl_max_of_mem xs x a h)

theorem le_nextId (ids : List Nat) (cur : Nat) (h : ∀ a ∈ ids, cur ≤ a) : cur ≤ nextId ids cur := by
  cases ids with
  | nil => exact Nat.le_refl _
  | cons x xs =>
    exact Nat.le_of_lt (Nat.lt_of_le_of_lt (h x (by simp)) (lt_nextId (x :: xs) cur x (by simp)))

theorem clusterIterFrom_ge (L : List (List (Nat × Nat) × Nat)) (next : Nat) :
    ∀ o ∈ clusterIterFrom next L, ∀ a ∈ o.ids, next ≤ a := by
  induction L generalizing next with
  | nil => intro o ho; cases ho
  | cons e t ih =>
    obtain ⟨E, n⟩ := e
    intro o ho a ha
    simp only [clusterIterFrom, List.mem_cons] at ho
    have hhead : ∀ a ∈ (Clusters.fromPairs E n).posIds.map (· + next), next ≤ a := by
      intro a ha
      simp only [List.mem_map] at ha
      obtain ⟨k, _, rfl⟩ := ha
      exact Nat.le_add_left _ _
    rcases ho with rfl | ho
    · exact hhead a ha
    · exact Nat.le_trans (le_nextId _ _ hhead) (ih _ o ho a ha)

theorem clusterIterFrom_pairwise (L : List (List (Nat × Nat) × Nat)) (next : Nat) :
    List.Pairwise (fun o1 o2 : FrameOut => ∀ a ∈ o1.ids, ∀ b ∈ o2.ids, a < b)
      (clusterIterFrom next L) := by
  induction L generalizing next with
  | nil => simp [clusterIterFrom]
  | cons e t ih =>
    obtain ⟨E, n⟩ := e
    simp only [clusterIterFrom, List.pairwise_cons]
    refine ⟨?_, ih _⟩
    intro o ho a ha b hb
    exact Nat.lt_of_lt_of_le (lt_nextId _ next a ha) (clusterIterFrom_ge t _ o ho b hb)

theorem clusterIterFrom_frame (L : List (List (Nat × Nat) × Nat)) (next k : Nat)
    (E : List (Nat × Nat)) (n : Nat) (hk : L[k]? = some (E, n)) :
    ∃ start, next ≤ start ∧ (clusterIterFrom next L)[k]? =
      some { ids := (Clusters.fromPairs E n).posIds.map (· + start),
             sizes := (Clusters.fromPairs E n).clusterSize } := by
  induction L generalizing next k with
  | nil => simp at hk
  | cons e t ih =>
    obtain ⟨E0, n0⟩ := e
    cases k with
    | zero =>
      simp only [List.getElem?_cons_zero, Option.some.injEq, Prod.mk.injEq] at hk
      obtain ⟨rfl, rfl⟩ := hk
      exact ⟨next, Nat.le_refl _, by simp [clusterIterFrom]⟩
    | succ k' =>
      simp only [List.getElem?_cons_succ] at hk
      obtain ⟨start, hs, h⟩ := ih (nextId ((Clusters.fromPairs E0 n0).posIds.map (· + next)) next) k' hk
      refine ⟨start, Nat.le_trans (le_nextId _ _ ?_) hs, by simpa [clusterIterFrom] using h⟩
      intro a ha
      simp only [List.mem_map] at ha
      obtain ⟨k, _, rfl⟩ := ha
      exact Nat.le_add_left _ _

/-! ### proximity -/

theorem mem_otherDists {pts : List Point} {i : Nat} {d : Rat} :
    d ∈ otherDists pts i ↔
      ∃ j, j < pts.length ∧ j ≠ i ∧ dist2 (pts.getD i []) (pts.getD j []) = d := by
  simp [otherDists, and_assoc]

/-! ### pair correlation -/

theorem perm_sumRat {l l' : List Rat} (h : l.Perm l') : sumRat l = sumRat l' := by
  unfold sumRat
  induction h with
  | nil => rfl
  | cons x _ ih => simp [List.foldr_cons, ih]
  | swap x y l => simp only [List.foldr_cons]; grind
  | trans _ _ ih1 ih2 => exact ih1.trans ih2

theorem perm_flatMap_inner {α β : Type} {f g : α → List β} (l : List α)
    (h : ∀ a ∈ l, (f a).Perm (g a)) : (l.flatMap f).Perm (l.flatMap g) := by
  induction l with
  | nil => simp
  | cons a t ih =>
    simp only [List.flatMap_cons]
    exact List.Perm.append (h a (by simp)) (ih (fun b hb => h b (List.mem_cons_of_mem _ hb)))

theorem samples_perm (box : Box) (cutoff : Rat) {l l' : List Point} (h : l.Perm l') :
    (samples box cutoff l).Perm (samples box cutoff l') := by
  unfold samples
  refine List.Perm.trans (List.Perm.flatMap_right _ h) ?_
  apply perm_flatMap_inner
  intro p _
  exact List.Perm.filterMap _ h

theorem binSum_perm (arc : Rat → List Rat → Option Rat) (dr : Rat) {ss ss' : List Sample}
    (h : ss.Perm ss') (k : Nat) : binSum arc dr ss k = binSum arc dr ss' k := by
  unfold binSum
  have hw : ((ss.filter fun s => inBin dr k s.1).map fun s => arc s.1 s.2).Perm
      ((ss'.filter fun s => inBin dr k s.1).map fun s => arc s.1 s.2) :=
    List.Perm.map _ (List.Perm.filter _ h)
  simp only [hw.any_eq, perm_sumRat (List.Perm.map _ hw)]

theorem pairCorr_perm (arc : Rat → List Rat → Option Rat) (box : Box) (cutoff dr : Rat)
    (nd : Option Rat) {pts pts' : List Point} (h : pts.Perm pts') :
    pairCorr arc box cutoff dr nd pts = pairCorr arc box cutoff dr nd pts' := by
  unfold pairCorr
  have hf : (pts.filter (inBox box)).Perm (pts'.filter (inBox box)) := List.Perm.filter _ h
  simp only [hf.length_eq]
  apply List.map_congr_left
  intro k _
  rw [binSum_perm arc dr (samples_perm box cutoff hf) k]

theorem neighbours_map (f : Point → Point) (box box' : Box) (cutoff : Rat) (p : Point)
    (hs : sideDists box' (f p) = sideDists box p) (l : List Point)
    (hd : ∀ q ∈ l, dist2 (f p) (f q) = dist2 p q) :
    neighbours box' cutoff (l.map f) (f p) = neighbours box cutoff l p := by
  unfold neighbours
  simp only [hs]
  induction l with
  | nil => rfl
  | cons q t ih =>
    simp only [List.map_cons, List.filterMap_cons, hd q (by simp)]
    rw [ih (fun q' hq' => hd q' (List.mem_cons_of_mem _ hq'))]

theorem samples_map (f : Point → Point) (box box' : Box) (cutoff : Rat) (inside : List Point)
    (hs : ∀ p ∈ inside, sideDists box' (f p) = sideDists box p)
    (hd : ∀ p ∈ inside, ∀ q ∈ inside, dist2 (f p) (f q) = dist2 p q) :
    samples box' cutoff (inside.map f) = samples box cutoff inside := by
  unfold samples
  have : ∀ l : List Point, (∀ p ∈ l, p ∈ inside) →
      (l.map f).flatMap (neighbours box' cutoff (inside.map f)) =
        l.flatMap (neighbours box cutoff inside) := by
    intro l
    induction l with
    | nil => intro _; rfl
    | cons p t ih =>
      intro hl
      have hp := hl p (by simp)
      simp only [List.map_cons, List.flatMap_cons]
      rw [neighbours_map f box box' cutoff p (hs p hp) inside (hd p hp),
        ih (fun q hq => hl q (List.mem_cons_of_mem _ hq))]
  exact this inside (fun _ h => h)

theorem pairCorr_congr (arc : Rat → List Rat → Option Rat) (f : Point → Point)
    (box box' : Box) (cutoff dr : Rat) (nd : Option Rat) (pts : List Point)
    (hin : ∀ p ∈ pts, inBox box' (f p) = inBox box p)
    (hs : ∀ p ∈ pts, sideDists box' (f p) = sideDists box p)
    (hd : ∀ p ∈ pts, ∀ q ∈ pts, dist2 (f p) (f q) = dist2 p q)
    (hv : volume box' = volume box) :
    pairCorr arc box' cutoff dr nd (pts.map f) = pairCorr arc box cutoff dr nd pts := by
  have hfil : (pts.map f).filter (inBox box') = (pts.filter (inBox box)).map f := by
    rw [List.filter_map]
    congr 1
    apply List.filter_congr
    intro p hp
    exact hin p hp
  unfold pairCorr
  simp only [hfil, List.length_map]
  have hsub : ∀ p ∈ pts.filter (inBox box), p ∈ pts := fun p hp => (List.mem_filter.1 hp).1
  rw [samples_map f box box' cutoff _ (fun p hp => hs p (hsub p hp))
    (fun p hp q hq => hd p (hsub p hp) q (hsub q hq))]
  have : density box' (pts.filter (inBox box)).length nd =
      density box (pts.filter (inBox box)).length nd := by
    unfold density; rw [hv]
  rw [this]

/-- translation of a point by the vector `t` -/
def translate (t p : Point) : Point := List.zipWith (· + ·) p t

/-- translation of the bounding box -/
def translateBox (t : Point) (box : Box) : Box :=
  List.zipWith (fun (b : Rat × Rat) s => (b.1 + s, b.2 + s)) box t

theorem dist2_translate (t : Point) : ∀ (p q : Point), p.length = t.length → q.length = t.length →
    dist2 (translate t p) (translate t q) = dist2 p q := by
  unfold dist2 translate
  induction t with
  | nil =>
    intro p q hp hq
    simp at hp hq; subst hp; subst hq; rfl
  | cons s t ih =>
    intro p q hp hq
    cases p with
    | nil => simp at hp
    | cons a p =>
      cases q with
      | nil => simp at hq
      | cons b q =>
        simp only [List.length_cons, Nat.add_right_cancel_iff] at hp hq
        simp only [List.zipWith_cons_cons, List.sum_cons, ih p q hp hq]
        grind

theorem sideDists_translate (t : Point) : ∀ (box : Box) (p : Point), p.length = t.length →
    box.length = t.length →
    sideDists (translateBox t box) (translate t p) = sideDists box p := by
  unfold sideDists translate translateBox
  induction t with
  | nil =>
    intro box p hp hb
    simp at hp hb; subst hp; subst hb; rfl
  | cons s t ih =>
    intro box p hp hb
    cases p with
    | nil => simp at hp
    | cons a p =>
      cases box with
      | nil => simp at hb
      | cons b box =>
        simp only [List.length_cons, Nat.add_right_cancel_iff] at hp hb
        simp only [List.zipWith_cons_cons, List.flatten_cons, ih box p hp hb]
        congr 1
        simp only [List.cons.injEq, and_true]
        constructor <;> grind

theorem inBox_translate (t : Point) : ∀ (box : Box) (p : Point), p.length = t.length →
    box.length = t.length →
    inBox (translateBox t box) (translate t p) = inBox box p := by
  unfold inBox translate translateBox
  induction t with
  | nil =>
    intro box p hp hb
    simp at hp hb; subst hp; subst hb; rfl
  | cons s t ih =>
    intro box p hp hb
    cases p with
    | nil => simp at hp
    | cons a p =>
      cases box with
      | nil => simp at hb
      | cons b box =>
        simp only [List.length_cons, Nat.add_right_cancel_iff] at hp hb
        simp only [List.zipWith_cons_cons, List.all_cons, ih box p hp hb]
        congr 1
        have h1 : (b.1 + s ≤ a + s) ↔ (b.1 ≤ a) := Rat.add_le_add_right
        have h2 : (a + s ≤ b.2 + s) ↔ (a ≤ b.2) := Rat.add_le_add_right
        simp [h1, h2]

theorem volume_translate (t : Point) : ∀ (box : Box), box.length = t.length →
    volume (translateBox t box) = volume box := by
  unfold volume translateBox
  have key : ∀ (t : Point) (box : Box) (acc : Rat), box.length = t.length →
      ((List.zipWith (fun (b : Rat × Rat) s => (b.1 + s, b.2 + s)) box t).map
          fun b => b.2 - b.1).foldl (· * ·) acc =
        (box.map fun b => b.2 - b.1).foldl (· * ·) acc := by
    intro t
    induction t with
    | nil => intro box acc hb; simp at hb; subst hb; rfl
    | cons s t ih =>
      intro box acc hb
      cases box with
      | nil => simp at hb
      | cons b box =>
        simp only [List.length_cons, Nat.add_right_cancel_iff] at hb
        simp only [List.zipWith_cons_cons, List.map_cons, List.foldl_cons]
        have : b.2 + s - (b.1 + s) = b.2 - b.1 := by grind
        rw [this]
        exact ih box _ hb
  intro box hb
  exact key t box 1 hb

end TrackpyV.Static
