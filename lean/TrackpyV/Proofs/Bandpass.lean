import TrackpyV.Model.Bandpass
import Mathlib.Tactic.Ring
import Mathlib.Tactic.Linarith
/-!
Helper lemmas for the bandpass model: finite sums, flat arrays, tap filters, axis passes.
-/
namespace TrackpyV.Bandpass

/-! ## finite sums -/

theorem sumTo_congr {k : Nat} {f g : Nat → Rat} (h : ∀ j, j < k → f j = g j) :
    sumTo k f = sumTo k g := by
  induction k with
  | zero => rfl
  | succ k ih =>
    simp only [sumTo]
    rw [ih (fun j hj => h j (Nat.lt_succ_of_lt hj)), h k (Nat.lt_succ_self k)]

theorem sumTo_zero (k : Nat) : sumTo k (fun _ => 0) = 0 := by
  induction k with
  | zero => rfl
  | succ k ih => simp [sumTo, ih]

theorem sumTo_add (k : Nat) (f g : Nat → Rat) :
    sumTo k (fun j => f j + g j) = sumTo k f + sumTo k g := by
  induction k with
  | zero => simp [sumTo]
  | succ k ih => simp only [sumTo, ih]; ring

theorem sumTo_mul_left (k : Nat) (c : Rat) (f : Nat → Rat) :
    sumTo k (fun j => c * f j) = c * sumTo k f := by
  induction k with
  | zero => simp [sumTo]
  | succ k ih => simp only [sumTo, ih]; ring

theorem sumTo_mul_right (k : Nat) (c : Rat) (f : Nat → Rat) :
    sumTo k (fun j => f j * c) = sumTo k f * c := by
  induction k with
  | zero => simp [sumTo]
  | succ k ih => simp only [sumTo, ih]; ring

theorem sumTo_comm (k l : Nat) (f : Nat → Nat → Rat) :
    sumTo k (fun a => sumTo l (fun b => f a b)) = sumTo l (fun b => sumTo k (fun a => f a b)) := by
  induction k with
  | zero => simp [sumTo, sumTo_zero]
  | succ k ih => simp only [sumTo, ih, sumTo_add]

theorem sumTo_nonneg {k : Nat} {f : Nat → Rat} (h : ∀ j, j < k → 0 ≤ f j) : 0 ≤ sumTo k f := by
  induction k with
  | zero => simp [sumTo]
  | succ k ih =>
    simp only [sumTo]
    have := ih (fun j hj => h j (Nat.lt_succ_of_lt hj))
    have := h k (Nat.lt_succ_self k)
    linarith

theorem sumTo_shift (k : Nat) (f : Nat → Rat) :
    sumTo (k + 1) f = f 0 + sumTo k (fun j => f (j + 1)) := by
  induction k with
  | zero => simp [sumTo]
  | succ k ih => rw [sumTo, ih]; simp only [sumTo]; ring

/-- summing in the opposite order -/
theorem sumTo_reflect (k : Nat) (f : Nat → Rat) : sumTo k (fun j => f (k - 1 - j)) = sumTo k f := by
  induction k generalizing f with
  | zero => rfl
  | succ k ih =>
    rw [sumTo_shift k f, ← ih (fun j => f (j + 1))]
    simp only [sumTo, Nat.add_sub_cancel, Nat.sub_self]
    rw [add_comm]
    congr 1
    apply sumTo_congr; intro j hj
    congr 1; omega

theorem sumTo_one (f : Nat → Rat) : sumTo 1 f = f 0 := by simp [sumTo]

/-! ## flat arrays -/

@[simp] theorem size_tab (n : Nat) (f : Nat → Rat) : (tab n f).size = n := by simp [tab]

theorem get_tab (n : Nat) (f : Nat → Rat) (q : Nat) :
    get (tab n f) q = if q < n then f q else 0 := by
  unfold get tab
  by_cases h : q < n <;> simp [Array.getD, h]

theorem get_tab_lt {n : Nat} (f : Nat → Rat) {q : Nat} (h : q < n) : get (tab n f) q = f q := by
  rw [get_tab, if_pos h]

theorem get_oob {xs : Array Rat} {q : Nat} (h : xs.size ≤ q) : get xs q = 0 := by
  unfold get; simp [Array.getD, Nat.not_lt.mpr h]

theorem ext_get {a b : Array Rat} (hs : a.size = b.size) (h : ∀ q, q < a.size → get a q = get b q) :
    a = b := by
  apply Array.ext hs
  intro i h1 h2
  have := h i h1
  unfold get at this
  simpa [Array.getD, h1, h2] using this

theorem get_map (f : Rat → Rat) (hf : f 0 = 0) (xs : Array Rat) (q : Nat) :
    get (xs.map f) q = f (get xs q) := by
  unfold get
  by_cases h : q < xs.size <;> simp [Array.getD, h, hf]

theorem get_map_lt (f : Rat → Rat) (xs : Array Rat) {q : Nat} (h : q < xs.size) :
    get (xs.map f) q = f (get xs q) := by
  unfold get; simp [Array.getD, h]

@[simp] theorem size_scale (c : Rat) (xs : Array Rat) : (scale c xs).size = xs.size := by
  simp [scale]

theorem get_scale (c : Rat) (xs : Array Rat) (q : Nat) : get (scale c xs) q = c * get xs q := by
  unfold scale; rw [get_map _ (by simp)]


/-! ## tap filters -/

theorem sample_scale (c : Rat) (g : Nat → Rat) (o : Option Nat) :
    sample (fun t => c * g t) o = c * sample g o := by
  cases o <;> simp [sample]

theorem apply_scale (F : Filt) (n i : Nat) (c : Rat) (g : Nat → Rat) :
    F.apply n i (fun t => c * g t) = c * F.apply n i g := by
  unfold Filt.apply
  rw [← sumTo_mul_left]
  apply sumTo_congr; intro j _
  rw [sample_scale]; ring

theorem sample_sumTo (K : Nat) (a : Nat → Rat) (h : Nat → Nat → Rat) (o : Option Nat) :
    sample (fun t => sumTo K (fun l => a l * h l t)) o = sumTo K (fun l => a l * sample (h l) o) := by
  cases o <;> simp [sample, sumTo_zero]

/-- a column filter applied to row-filtered data = the row filter applied to column-filtered data
    (both are finite linear combinations of samples) -/
theorem apply_comm (F G : Filt) (n i m k : Nat) (g : Nat → Nat → Rat) :
    F.apply n i (fun t => G.apply m k (fun u => g t u)) =
    G.apply m k (fun u => F.apply n i (fun t => g t u)) := by
  unfold Filt.apply
  -- both sides are  Σ_j Σ_l F.wt j * G.wt l * (doubly sampled g)
  have hL : ∀ j, F.wt j * sample (fun t => sumTo G.K (fun l => G.wt l * sample (fun u => g t u) (G.src m k l)))
        (F.src n i j) =
      sumTo G.K (fun l => F.wt j * (G.wt l *
        sample (fun t => sample (fun u => g t u) (G.src m k l)) (F.src n i j))) := by
    intro j
    rw [sample_sumTo G.K G.wt (fun l t => sample (fun u => g t u) (G.src m k l)), sumTo_mul_left]
  have hR : ∀ l, G.wt l * sample (fun u => sumTo F.K (fun j => F.wt j * sample (fun t => g t u) (F.src n i j)))
        (G.src m k l) =
      sumTo F.K (fun j => G.wt l * (F.wt j *
        sample (fun u => sample (fun t => g t u) (F.src n i j)) (G.src m k l))) := by
    intro l
    rw [sample_sumTo F.K F.wt (fun j u => sample (fun t => g t u) (F.src n i j)), sumTo_mul_left]
  rw [sumTo_congr (fun j _ => hL j), sumTo_congr (fun l _ => hR l), sumTo_comm]
  apply sumTo_congr; intro l _
  apply sumTo_congr; intro j _
  have : sample (fun t => sample (fun u => g t u) (G.src m k l)) (F.src n i j) =
         sample (fun u => sample (fun t => g t u) (F.src n i j)) (G.src m k l) := by
    cases F.src n i j <;> cases G.src m k l <;> simp [sample]
  rw [this]; ring

/-- every sampled index lies inside the line -/
def SrcOK (F : Filt) : Prop := ∀ n i j t, i < n → F.src n i j = some t → t < n

theorem apply_congr {F : Filt} (hF : SrcOK F) {n i : Nat} (hi : i < n) {g g' : Nat → Rat}
    (h : ∀ t, t < n → g t = g' t) : F.apply n i g = F.apply n i g' := by
  unfold Filt.apply
  apply sumTo_congr; intro j _
  cases hs : F.src n i j with
  | none => simp [sample]
  | some t => simp [sample, h t (hF n i j t hi hs)]

theorem srcOK_corr (w : Array Rat) : SrcOK (corr w) := by
  intro n i j t _ h
  simp only [corr] at h
  split at h
  · rename_i hc; cases h; exact hc.2
  · cases h

theorem srcOK_unif (m : Nat) : SrcOK (unif m) := by
  intro n i j t hi h
  simp only [unif, Option.some.injEq] at h
  omega

theorem srcOK_skip : SrcOK skip := by
  intro n i j t hi h
  simp only [skip, Option.some.injEq] at h
  omega

theorem srcOK_lowFilt (s : Rat) (k : Array Rat) : SrcOK (lowFilt s k) := by
  unfold lowFilt; split
  · exact srcOK_corr k
  · exact srcOK_skip

theorem srcOK_boxFilt (m : Int) : SrcOK (boxFilt m) := by
  unfold boxFilt; split
  · exact srcOK_unif _
  · exact srcOK_skip

theorem apply_skip (n i : Nat) (g : Nat → Rat) : skip.apply n i g = g i := by
  simp [Filt.apply, skip, sumTo, sample]

/-! ## axis passes: size and linearity -/

@[simp] theorem size_axisPass (F : Filt) (inner n : Nat) (xs : Array Rat) :
    (axisPass F inner n xs).size = xs.size := by simp [axisPass]

@[simp] theorem size_passes (shape : List Nat) (Fs : List Filt) (xs : Array Rat) :
    (passes shape Fs xs).size = xs.size := by
  induction shape generalizing Fs xs with
  | nil => simp [passes]
  | cons n rest ih =>
    cases Fs with
    | nil => simp [passes]
    | cons F Fs => simp [passes, ih]

theorem axisPass_scale (F : Filt) (inner n : Nat) (c : Rat) (xs : Array Rat) :
    axisPass F inner n (scale c xs) = scale c (axisPass F inner n xs) := by
  apply ext_get (by simp)
  intro q hq
  have hq' : q < xs.size := by simpa using hq
  rw [get_scale]
  unfold axisPass
  rw [get_tab_lt _ (by simpa using hq'), get_tab_lt _ hq']
  simp only [get_scale]
  rw [apply_scale]

theorem passes_scale (shape : List Nat) (Fs : List Filt) (c : Rat) (xs : Array Rat) :
    passes shape Fs (scale c xs) = scale c (passes shape Fs xs) := by
  induction shape generalizing Fs xs with
  | nil => simp [passes]
  | cons n rest ih =>
    cases Fs with
    | nil => simp [passes]
    | cons F Fs => simp only [passes, axisPass_scale, ih]

@[simp] theorem size_subArr (a b : Array Rat) : (subArr a b).size = a.size := by simp [subArr]

theorem subArr_scale (c : Rat) (a b : Array Rat) :
    subArr (scale c a) (scale c b) = scale c (subArr a b) := by
  apply ext_get (by simp)
  intro q hq
  have hq' : q < a.size := by simpa using hq
  rw [get_scale]
  unfold subArr
  rw [get_tab_lt _ (by simpa using hq'), get_tab_lt _ hq', get_scale, get_scale]; ring

@[simp] theorem size_lowpass (shape : List Nat) (img : Array Rat) (s : List Rat)
    (ks : List (Array Rat)) : (lowpass shape img s ks).size = img.size := by simp [lowpass]

@[simp] theorem size_boxcarRaw (shape : List Nat) (img : Array Rat) (l : List Int) :
    (boxcarRaw shape img l).size = img.size := by simp [boxcarRaw]

@[simp] theorem size_diff (shape : List Nat) (img : Array Rat) (s : List Rat)
    (ks : List (Array Rat)) (l : List Int) : (diff shape img s ks l).size = img.size := by
  simp [diff]

theorem diff_scale (shape : List Nat) (img : Array Rat) (s : List Rat) (ks : List (Array Rat))
    (l : List Int) (c : Rat) :
    diff shape (scale c img) s ks l = scale c (diff shape img s ks l) := by
  unfold diff lowpass boxcarRaw
  rw [passes_scale, passes_scale, subArr_scale]

theorem clip_scale {c : Rat} (hc : 0 < c) (thr v : Rat) :
    clip (c * thr) (c * v) = c * clip thr v := by
  unfold clip
  by_cases h : thr ≤ v
  · rw [if_pos h, if_pos (mul_le_mul_of_nonneg_left h (le_of_lt hc))]
  · rw [if_neg h, if_neg]
    · simp
    · intro h'
      exact h (le_of_mul_le_mul_left h' hc)


/-! ## two-dimensional images: pixel view of the axis passes -/

/-- pixel `(r, c)` of an image with rows of length `W` stored in C order -/
def px (W : Nat) (xs : Array Rat) (r c : Nat) : Rat := get xs (r * W + c)

theorem idx_lt {H W r c : Nat} (hr : r < H) (hc : c < W) : r * W + c < H * W := by
  have h1 : r * W + c < (r + 1) * W := by rw [Nat.add_mul, Nat.one_mul]; omega
  exact Nat.lt_of_lt_of_le h1 (Nat.mul_le_mul_right W hr)

theorem idx_div {W r c : Nat} (hc : c < W) : (r * W + c) / W = r := by
  have hW : 0 < W := Nat.lt_of_le_of_lt (Nat.zero_le _) hc
  rw [Nat.mul_comm, Nat.mul_add_div hW, Nat.div_eq_of_lt hc, Nat.add_zero]

theorem idx_mod {W r c : Nat} (hc : c < W) : (r * W + c) % W = c := by
  rw [Nat.add_comm, Nat.add_mul_mod_self_right, Nat.mod_eq_of_lt hc]

/-- a pass along axis 0 of an `H × W` image filters every column -/
theorem px_axis0 (F : Filt) {H W : Nat} {xs : Array Rat} (hsz : xs.size = H * W) {r c : Nat}
    (hr : r < H) (hc : c < W) :
    px W (axisPass F W H xs) r c = F.apply H r (fun t => px W xs t c) := by
  unfold px axisPass
  rw [get_tab_lt _ (by rw [hsz]; exact idx_lt hr hc)]
  simp only [idx_div hc, Nat.mod_eq_of_lt hr, Nat.add_sub_cancel_left]
  congr 1; funext t; rw [Nat.add_comm]

/-- a pass along axis 1 of an `H × W` image filters every row -/
theorem px_axis1 (F : Filt) {H W : Nat} {xs : Array Rat} (hsz : xs.size = H * W) {r c : Nat}
    (hr : r < H) (hc : c < W) :
    px W (axisPass F 1 W xs) r c = F.apply W c (fun t => px W xs r t) := by
  unfold px axisPass
  rw [get_tab_lt _ (by rw [hsz]; exact idx_lt hr hc)]
  simp only [Nat.div_one, idx_mod hc, Nat.mul_one, Nat.add_sub_cancel]

theorem passes2 (H W : Nat) (F0 F1 : Filt) (xs : Array Rat) :
    passes [H, W] [F0, F1] xs = axisPass F1 1 W (axisPass F0 W H xs) := by
  simp [passes]

/-- both passes of a 2-D image, pixel by pixel -/
theorem px_passes2 {F0 F1 : Filt} (h1 : SrcOK F1) {H W : Nat} {xs : Array Rat}
    (hsz : xs.size = H * W) {r c : Nat} (hr : r < H) (hc : c < W) :
    px W (passes [H, W] [F0, F1] xs) r c =
      F1.apply W c (fun u => F0.apply H r (fun t => px W xs t u)) := by
  rw [passes2, px_axis1 F1 (by simpa using hsz) hr hc]
  exact apply_congr h1 hc (fun u hu => px_axis0 F0 hsz hr hu)

@[simp] theorem size_transpose2 (H W : Nat) (xs : Array Rat) : (transpose2 H W xs).size = W * H := by
  simp [transpose2]

theorem px_transpose2 {H W : Nat} (xs : Array Rat) {r c : Nat} (hr : r < H) (hc : c < W) :
    px H (transpose2 H W xs) c r = px W xs r c := by
  unfold px transpose2
  rw [get_tab_lt _ (idx_lt hc hr), idx_mod hr, idx_div hr]

theorem get_transpose2 {H W : Nat} (xs : Array Rat) {q : Nat} (hq : q < W * H) :
    get (transpose2 H W xs) q = px W xs (q % H) (q / H) := by
  unfold px transpose2
  rw [get_tab_lt _ hq]

/-- the two axis passes of a transposed image, with the filters swapped, give the transposed
    result: uses that row and column passes commute (`apply_comm`) -/
theorem passes2_transpose {F0 F1 : Filt} (h0 : SrcOK F0) (h1 : SrcOK F1) {H W : Nat}
    {xs : Array Rat} (hsz : xs.size = H * W) :
    passes [W, H] [F1, F0] (transpose2 H W xs) = transpose2 H W (passes [H, W] [F0, F1] xs) := by
  apply ext_get (by simp)
  intro q hq
  have hq' : q < W * H := by simpa using hq
  have hH : 0 < H := by
    rcases Nat.eq_zero_or_pos H with h | h
    · subst h; simp at hq'
    · exact h
  have hr : q % H < H := Nat.mod_lt _ hH
  have hc : q / H < W := by
    rw [Nat.div_lt_iff_lt_mul hH]; exact hq'
  rw [get_transpose2 _ hq', px_passes2 h1 hsz hr hc]
  have hqe : q = (q / H) * H + q % H := by
    rw [Nat.mul_comm]; exact (Nat.div_add_mod q H).symm
  have : get (passes [W, H] [F1, F0] (transpose2 H W xs)) q =
      px H (passes [W, H] [F1, F0] (transpose2 H W xs)) (q / H) (q % H) := by
    unfold px; rw [← hqe]
  rw [this, px_passes2 h0 (by simp) hc hr]
  rw [apply_comm F1 F0 W (q / H) H (q % H) (fun u t => px W xs t u)]
  apply apply_congr h0 hr; intro t ht
  apply apply_congr h1 hc; intro u hu
  exact px_transpose2 xs ht hu

theorem subArr_transpose2 {H W : Nat} {a b : Array Rat} (ha : a.size = H * W) (hb : b.size = H * W) :
    subArr (transpose2 H W a) (transpose2 H W b) = transpose2 H W (subArr a b) := by
  apply ext_get (by simp)
  intro q hq
  have hq' : q < W * H := by simpa using hq
  have hH : 0 < H := by
    rcases Nat.eq_zero_or_pos H with h | h
    · subst h; simp at hq'
    · exact h
  have hr : q % H < H := Nat.mod_lt _ hH
  have hc : q / H < W := by
    rw [Nat.div_lt_iff_lt_mul hH]; exact hq'
  have hi : q % H * W + q / H < a.size := by rw [ha]; exact idx_lt hr hc
  rw [get_transpose2 _ hq']
  unfold subArr px
  rw [get_tab_lt _ (by simpa using hq'), get_tab_lt _ hi, get_transpose2 _ hq', get_transpose2 _ hq']
  rfl

theorem clip_zero (thr : Rat) : clip thr 0 = 0 := by unfold clip; split <;> rfl

theorem map_transpose2 (f : Rat → Rat) (hf : f 0 = 0) (H W : Nat) (a : Array Rat) :
    (transpose2 H W a).map f = transpose2 H W (a.map f) := by
  apply ext_get (by simp)
  intro q hq
  have hq' : q < W * H := by simpa using hq
  rw [get_map f hf, get_transpose2 _ hq', get_transpose2 _ hq']
  unfold px; rw [get_map f hf]


/-! ## vocabulary of the statements: zero extension, edge replication, parameters in force -/

/-- a line extended by zeros, indexed by integers -/
def extZ (n : Nat) (g : Nat → Rat) (z : Int) : Rat := if 0 ≤ z ∧ z < n then g z.toNat else 0

/-- pixel `(y, x)` of the `H × W` image `img`, **zero beyond the border** -/
def pxZ (H W : Nat) (img : Array Rat) (y x : Int) : Rat :=
  extZ H (fun t => extZ W (fun u => px W img t u) x) y

/-- index clamped into `0 … n-1` -/
def clampI (n : Nat) (z : Int) : Nat := min (n - 1) z.toNat

/-- pixel `(y, x)` of the `H × W` image `img`, **edge values repeated** -/
def pxC (H W : Nat) (img : Array Rat) (y x : Int) : Rat := px W img (clampI H y) (clampI W x)

theorem sample_corr (w : Array Rat) (n i j : Nat) (g : Nat → Rat) :
    sample g ((corr w).src n i j) = extZ n g ((i : Int) + (j : Int) - ((w.size / 2 : Nat) : Int)) := by
  simp only [corr, extZ]
  by_cases h : w.size / 2 ≤ i + j ∧ i + j - w.size / 2 < n
  · rw [if_pos h, if_pos (by omega)]
    simp only [sample]
    congr 1; omega
  · rw [if_neg h, if_neg (by omega)]
    rfl

theorem sample_unif (m n i j : Nat) (g : Nat → Rat) :
    sample g ((unif m).src n i j) = g (clampI n ((i : Int) + (j : Int) - ((m / 2 : Nat) : Int))) := by
  simp only [unif, sample, clampI]
  congr 1; omega

/-- the kernel in force on an axis: the given one if `σ > 0`, otherwise the axis is skipped, which
    is the same as the one-tap kernel `(1)` (a Gaussian of width 0) -/
def effKernel (s : Rat) (k : Array Rat) : Array Rat := if s > 0 then k else #[1]

/-- the box side in force on an axis: `size` if `> 1`, otherwise the axis is skipped (side 1) -/
def effSize (l : Int) : Nat := if l > 1 then l.toNat else 1

theorem lowFilt_apply (s : Rat) (k : Array Rat) {n i : Nat} (hi : i < n) (g : Nat → Rat) :
    (lowFilt s k).apply n i g = (corr (effKernel s k)).apply n i g := by
  unfold lowFilt effKernel
  split
  · rfl
  · rw [apply_skip]
    simp [Filt.apply, corr, sumTo, sample, TrackpyV.Bandpass.get, hi]

theorem boxFilt_apply (l : Int) {n i : Nat} (hi : i < n) (g : Nat → Rat) :
    (boxFilt l).apply n i g = (unif (effSize l)).apply n i g := by
  unfold boxFilt effSize
  split
  · rfl
  · rw [apply_skip]
    have : min (n - 1) i = i := by omega
    simp [Filt.apply, unif, sumTo, sample, this]

end TrackpyV.Bandpass
