import TrackpyV.Model.LinkTable
/-!
Helper lemmas for the table adapters (`Model/LinkTable.lean`): permutation by position list,
stability of the sort, run-length groups, the level generator.
-/
namespace TrackpyV.LinkTable

/-! ## applyPerm -/

theorem applyPerm_range {α} (xs : List α) : applyPerm (List.range xs.length) xs = xs := by
  unfold applyPerm
  induction xs with
  | nil => simp
  | cons x xs ih =>
    rw [List.length_cons, List.range_succ_eq_map, List.filterMap_cons]
    simp only [List.getElem?_cons_zero, List.filterMap_map]
    congr 1

theorem applyPerm_perm {α} (σ : List Nat) (xs : List α) (h : σ.Perm (List.range xs.length)) :
    (applyPerm σ xs).Perm xs := by
  have := h.filterMap (fun i => xs[i]?)
  rw [show List.filterMap (fun i => xs[i]?) (List.range xs.length) = xs from applyPerm_range xs]
    at this
  exact this

/-! ## frame order -/

theorem frameLe_trans (a b c : IRow) : frameLe a b = true → frameLe b c = true →
    frameLe a c = true := by
  simp only [frameLe, decide_eq_true_eq]; omega

theorem frameLe_total (a b : IRow) : (frameLe a b || frameLe b a) = true := by
  simp only [frameLe, Bool.or_eq_true, decide_eq_true_eq]; omega

theorem stableSort_perm (rows : List IRow) : (stableSort rows).Perm rows :=
  List.mergeSort_perm rows frameLe

theorem stableSort_sorted (rows : List IRow) :
    (stableSort rows).Pairwise (fun a b => a.frame ≤ b.frame) := by
  have := List.pairwise_mergeSort frameLe_trans frameLe_total rows
  unfold stableSort
  simpa [frameLe] using this

theorem stableSort_of_sorted (rows : List IRow)
    (h : rows.Pairwise (fun a b => a.frame ≤ b.frame)) : stableSort rows = rows := by
  apply List.mergeSort_of_pairwise
  simpa [frameLe] using h

/-- stability: the rows of one frame keep their table order -/
theorem stableSort_filter (rows : List IRow) (t : Int) :
    (stableSort rows).filter (fun r => r.frame == t) = rows.filter (fun r => r.frame == t) := by
  have hsub : (rows.filter (fun r => r.frame == t)).Sublist (stableSort rows) := by
    apply List.sublist_mergeSort frameLe_trans frameLe_total
    · rw [List.pairwise_filter]
      apply List.pairwise_of_forall
      intro a b ha hb
      simp only [beq_iff_eq] at ha hb
      simp [frameLe, ha, hb]
    · exact List.filter_sublist
  have hsub2 : (rows.filter (fun r => r.frame == t)).Sublist
      ((stableSort rows).filter (fun r => r.frame == t)) := by
    have := hsub.filter (fun r => r.frame == t)
    rwa [List.filter_filter, show (fun a : IRow => (a.frame == t && a.frame == t)) =
      (fun r => r.frame == t) from by funext a; simp] at this
  have hlen := ((stableSort_perm rows).filter (fun r => r.frame == t)).length_eq
  exact (hsub2.eq_of_length hlen.symm).symm

/-! ## run-length groups -/

/-- maximal runs of consecutive rows with equal frame (proof device: `rle` and `splitCounts`
together compute exactly this) -/
def runs : List IRow → List (Int × List IRow)
  | [] => []
  | r :: rs =>
    match runs rs with
    | (u, g) :: rest => if r.frame = u then (u, r :: g) :: rest else (r.frame, [r]) :: (u, g) :: rest
    | [] => [(r.frame, [r])]

theorem rle_runs (s : List IRow) :
    rle (s.map (·.frame)) = (runs s).map (fun ug => (ug.1, ug.2.length)) := by
  induction s with
  | nil => rfl
  | cons r rs ih =>
    simp only [List.map_cons, rle, runs, ih]
    cases h : runs rs with
    | nil => simp
    | cons ug rest =>
      obtain ⟨u, g⟩ := ug
      simp only [List.map_cons]
      split <;> simp

theorem runs_flatten (s : List IRow) : ((runs s).map (·.2)).flatten = s := by
  induction s with
  | nil => rfl
  | cons r rs ih =>
    simp only [runs]
    cases h : runs rs with
    | nil => rw [h] at ih; simp at ih; simp [← ih]
    | cons ug rest =>
      obtain ⟨u, g⟩ := ug
      rw [h] at ih
      simp only [List.map_cons, List.flatten_cons] at ih
      by_cases hf : r.frame = u <;> simp [hf, ← ih]

theorem runs_ne_nil (s : List IRow) : ∀ ug ∈ runs s, ug.2 ≠ [] := by
  induction s with
  | nil => simp [runs]
  | cons r rs ih =>
    simp only [runs]
    cases h : runs rs with
    | nil => simp
    | cons ug rest =>
      obtain ⟨u, g⟩ := ug
      rw [h] at ih
      by_cases hf : r.frame = u
      · simp only [hf, if_true]
        intro x hx
        simp only [List.mem_cons] at hx
        rcases hx with rfl | hx
        · simp
        · exact ih x (List.mem_cons_of_mem _ hx)
      · simp only [hf, if_false]
        intro x hx
        simp only [List.mem_cons] at hx
        rcases hx with rfl | hx
        · simp
        · exact ih x (by simpa using hx)

theorem splitCounts_groups {α β} (f : α → β) (gs : List (List α)) (hne : gs ≠ []) :
    splitCounts (gs.map List.length) ((gs.flatten).map f) = gs.map (List.map f) := by
  induction gs with
  | nil => exact absurd rfl hne
  | cons g gs ih =>
    cases gs with
    | nil => simp [splitCounts]
    | cons g' gs' =>
      have := ih (by simp)
      simp only [List.map_cons, splitCounts, List.flatten_cons, List.map_append] at this ⊢
      rw [List.take_left' (by simp), List.drop_left' (by simp), this]

/-- head of `runs`: the first run is the longest prefix with the first row's frame -/
theorem runs_cons (r : IRow) (rs : List IRow) :
    runs (r :: rs) =
      (r.frame, (r :: rs).takeWhile (fun x => x.frame == r.frame)) ::
        runs ((r :: rs).dropWhile (fun x => x.frame == r.frame)) := by
  induction rs generalizing r with
  | nil => simp [runs]
  | cons r' rs' ih =>
    have ih' := ih r'
    rw [runs, ih']
    by_cases h : r.frame = r'.frame
    · simp only [h, if_true, List.takeWhile_cons, List.dropWhile_cons, beq_self_eq_true]
    · have h' : (r'.frame == r.frame) = false := by
        simp only [beq_eq_false_iff_ne, ne_eq]; exact fun e => h e.symm
      simp only [h, if_false, List.takeWhile_cons, List.dropWhile_cons, beq_self_eq_true, h',
        if_true, Bool.false_eq_true]
      rw [ih']
      simp

theorem runs_eq_nil (s : List IRow) : runs s = [] ↔ s = [] := by
  cases s with
  | nil => simp [runs]
  | cons r rs => rw [runs_cons]; simp

theorem runs_head (r : IRow) (rs : List IRow) : ((runs (r :: rs)).head?).map (·.1) = some r.frame := by
  rw [runs_cons]; rfl

theorem runs_getLast (s : List IRow) :
    (runs s).getLast?.map (·.1) = s.getLast?.map (·.frame) := by
  induction s with
  | nil => rfl
  | cons r rs ih =>
    cases rs with
    | nil => simp [runs]
    | cons r' rs' =>
      rw [List.getLast?_cons_cons, ← ih]
      simp only [runs]
      cases h : runs (r' :: rs') with
      | nil => exact absurd ((runs_eq_nil _).mp h) (by simp)
      | cons ug rest =>
        obtain ⟨u, g⟩ := ug
        simp only [runs] at h
        rw [h]
        by_cases hf : r.frame = u
        · simp only [hf, if_true]
          cases rest with
          | nil => simp
          | cons x xs => simp [List.getLast?_cons_cons]
        · simp only [hf, if_false, List.getLast?_cons_cons]

/-- the groups `coords_from_df` iterates over: (frame, coordinates of the run) -/
def groupsOf (s : List IRow) : List (Int × List Pos) :=
  (runs s).map (fun ug => (ug.1, ug.2.map (·.coords)))

theorem zip_map_fst_snd {α β γ} (l : List (α × β)) (f : β → γ) :
    (l.map (·.1)).zip ((l.map (·.2)).map f) = l.map (fun x => (x.1, f x.2)) := by
  induction l with
  | nil => rfl
  | cons a l ih => simp only [List.map_cons, List.zip_cons_cons, ih]

/-- `np.unique` + `np.split` compute the runs -/
theorem pipeline_groups (s : List IRow) (hne : s ≠ []) :
    ((rle (s.map (·.frame))).map (·.1)).zip
        (splitCounts ((rle (s.map (·.frame))).map (·.2)) (s.map (·.coords))) = groupsOf s := by
  rw [rle_runs]
  simp only [List.map_map]
  have h1 : (List.map ((fun x => x.2) ∘ fun ug : Int × List IRow => (ug.1, ug.2.length)) (runs s)) =
      ((runs s).map (·.2)).map List.length := by simp [List.map_map, Function.comp_def]
  have h2 : (List.map ((fun x => x.1) ∘ fun ug : Int × List IRow => (ug.1, ug.2.length)) (runs s)) =
      (runs s).map (·.1) := by simp [Function.comp_def]
  rw [h1, h2]
  conv => lhs; rw [← runs_flatten s]
  rw [runs_flatten s]
  have h3 : splitCounts (((runs s).map (·.2)).map List.length) (s.map (·.coords)) =
      ((runs s).map (·.2)).map (List.map (·.coords)) := by
    have := splitCounts_groups (fun r : IRow => r.coords) ((runs s).map (·.2))
      (by simpa [runs_eq_nil] using hne)
    rwa [runs_flatten] at this
  rw [h3, zip_map_fst_snd]
  rfl

/-! ## sorted tables: prefix / rest with respect to the smallest frame -/

theorem takeWhile_eq_filter (t : Int) (l : List IRow)
    (hs : l.Pairwise (fun a b => a.frame ≤ b.frame)) (hge : ∀ r ∈ l, t ≤ r.frame) :
    l.takeWhile (fun x => x.frame == t) = l.filter (fun x => x.frame == t) := by
  induction l with
  | nil => rfl
  | cons a l ih =>
    rw [List.pairwise_cons] at hs
    by_cases h : a.frame = t
    · simp only [List.takeWhile_cons, List.filter_cons, h, beq_self_eq_true, if_true]
      rw [ih hs.2 (fun r hr => hge r (List.mem_cons_of_mem _ hr))]
    · have hne : (a.frame == t) = false := by simpa using h
      simp only [List.takeWhile_cons, List.filter_cons, hne, Bool.false_eq_true, if_false]
      symm
      rw [List.filter_eq_nil_iff]
      intro x hx
      have h1 := hs.1 x hx
      have h2 := hge a List.mem_cons_self
      simp only [beq_iff_eq]
      omega

theorem dropWhile_gt (t : Int) (l : List IRow)
    (hs : l.Pairwise (fun a b => a.frame ≤ b.frame)) (hge : ∀ r ∈ l, t ≤ r.frame) :
    ∀ x ∈ l.dropWhile (fun x => x.frame == t), t + 1 ≤ x.frame := by
  induction l with
  | nil => simp
  | cons a l ih =>
    rw [List.pairwise_cons] at hs
    by_cases h : a.frame = t
    · simp only [List.dropWhile_cons, h, beq_self_eq_true, if_true]
      exact ih hs.2 (fun r hr => hge r (List.mem_cons_of_mem _ hr))
    · have hne : (a.frame == t) = false := by simpa using h
      simp only [List.dropWhile_cons, hne, Bool.false_eq_true, if_false]
      intro x hx
      have h2 := hge a List.mem_cons_self
      rcases List.mem_cons.mp hx with rfl | hx
      · omega
      · have := hs.1 x hx; omega

theorem filter_dropWhile {α} (p q : α → Bool) (l : List α) (h : ∀ x, q x = true → p x = false) :
    (l.dropWhile q).filter p = l.filter p := by
  induction l with
  | nil => rfl
  | cons a l ih =>
    by_cases hq : q a = true
    · simp [hq, h a hq, ih]
    · simp [hq]

theorem dropWhile_sorted (t : Int) (l : List IRow)
    (hs : l.Pairwise (fun a b => a.frame ≤ b.frame)) :
    (l.dropWhile (fun x => x.frame == t)).Pairwise (fun a b => a.frame ≤ b.frame) :=
  hs.sublist (List.dropWhile_sublist _)

/-- the rows of frame `lo + k`, for `k = 0 … n-1` -/
def frameBlocks (lo : Int) (n : Nat) (s : List IRow) : List (List IRow) :=
  (List.range n).map (fun (k : Nat) => s.filter (fun r => r.frame == lo + (k : Int)))

theorem frameBlocks_succ (lo : Int) (n : Nat) (s : List IRow) :
    frameBlocks lo (n + 1) s = s.filter (fun r => r.frame == lo) :: frameBlocks (lo + 1) n s := by
  unfold frameBlocks
  rw [List.range_succ_eq_map, List.map_cons, List.map_map]
  congr 1
  · simp
  · apply List.map_congr_left
    intro k _
    simp only [Function.comp]
    congr 1
    funext r
    congr 1
    simp only [Nat.succ_eq_add_one]
    omega

theorem frameBlocks_dropWhile (lo : Int) (t : Int) (n : Nat) (s : List IRow) (h : t < lo) :
    frameBlocks lo n (s.dropWhile (fun x => x.frame == t)) = frameBlocks lo n s := by
  unfold frameBlocks
  apply List.map_congr_left
  intro k _
  apply filter_dropWhile
  intro x hx
  simp only [beq_iff_eq] at hx
  simp only [beq_eq_false_iff_ne, ne_eq]
  omega

/-- the level generator yields, for a table sorted by frame with no frame below `time`, one level per
integer `time, time+1, …` holding exactly the rows of that frame, in table order -/
theorem emit_spec (n : Nat) (time : Int) (s : List IRow)
    (hs : s.Pairwise (fun a b => a.frame ≤ b.frame)) (hge : ∀ r ∈ s, time ≤ r.frame) :
    emit n time (groupsOf s) =
      (List.range n).zipWith (fun (k : Nat) (blk : List IRow) => (time + (k : Int), blk.map (·.coords)))
        (frameBlocks time n s) := by
  induction n generalizing time s with
  | zero => simp [emit, frameBlocks]
  | succ n ih =>
    rw [frameBlocks_succ, List.range_succ_eq_map, List.zipWith_cons_cons]
    have hshift : ∀ (bl : List (List IRow)),
        List.zipWith (fun (k : Nat) (blk : List IRow) => (time + (k : Int), blk.map (·.coords)))
          (List.map Nat.succ (List.range n)) bl =
        List.zipWith (fun (k : Nat) (blk : List IRow) => (time + 1 + (k : Int), blk.map (·.coords)))
          (List.range n) bl := by
      intro bl
      rw [List.zipWith_map_left]
      congr 1
      funext k blk
      simp only [Nat.succ_eq_add_one, Prod.mk.injEq, and_true]
      omega
    rw [hshift]
    cases s with
    | nil =>
      have := ih (time + 1) [] List.Pairwise.nil (by simp)
      simp only [groupsOf, runs, List.map_nil] at this ⊢
      simp only [emit, this]
      simp
    | cons r rs =>
      have hr := hge r List.mem_cons_self
      unfold groupsOf
      rw [runs_cons, List.map_cons]
      by_cases ht : time = r.frame
      · subst ht
        simp only [emit, if_true]
        have ih' := ih (r.frame + 1) ((r :: rs).dropWhile (fun x => x.frame == r.frame))
          (dropWhile_sorted _ _ hs) (dropWhile_gt _ _ hs hge)
        unfold groupsOf at ih'
        rw [ih', takeWhile_eq_filter _ _ hs hge, frameBlocks_dropWhile _ _ _ _ (by omega)]
        simp
      · have hlt : time + 1 ≤ r.frame := by omega
        simp only [emit, ht, if_false]
        have ih' := ih (time + 1) (r :: rs) hs (fun x hx => by
          rcases List.mem_cons.mp hx with rfl | hx'
          · exact hlt
          · have := (List.pairwise_cons.mp hs).1 x hx'; omega)
        unfold groupsOf at ih'
        rw [runs_cons, List.map_cons] at ih'
        rw [ih']
        have : (r :: rs).filter (fun x => x.frame == time) = [] := by
          rw [List.filter_eq_nil_iff]
          intro x hx
          have := hge x hx
          simp only [beq_iff_eq]
          rcases List.mem_cons.mp hx with rfl | hx'
          · omega
          · have := (List.pairwise_cons.mp hs).1 x hx'; omega
        rw [this]
        simp

/-- a table sorted by frame is the concatenation of its per-frame blocks -/
theorem sorted_eq_flatten (n : Nat) (lo : Int) (s : List IRow)
    (hs : s.Pairwise (fun a b => a.frame ≤ b.frame))
    (hb : ∀ r ∈ s, lo ≤ r.frame ∧ r.frame < lo + (n : Int)) :
    (frameBlocks lo n s).flatten = s := by
  induction n generalizing lo s with
  | zero =>
    cases s with
    | nil => simp [frameBlocks]
    | cons r rs => have := hb r List.mem_cons_self; simp at this; omega
  | succ n ih =>
    rw [frameBlocks_succ, List.flatten_cons]
    have hge : ∀ r ∈ s, lo ≤ r.frame := fun r hr => (hb r hr).1
    have ih' := ih (lo + 1) (s.dropWhile (fun x => x.frame == lo)) (dropWhile_sorted _ _ hs)
      (fun r hr => ⟨dropWhile_gt _ _ hs hge r hr, by
        have := (hb r ((List.dropWhile_sublist _).mem hr)).2
        push_cast at this; omega⟩)
    rw [frameBlocks_dropWhile _ _ _ _ (by omega)] at ih'
    rw [ih', ← takeWhile_eq_filter _ _ hs hge, List.takeWhile_append_dropWhile]

theorem zipWith_flatten {α β γ} (f : α → β → γ) (F : List (List α)) (L : List (List β))
    (h : F.map List.length = L.map List.length) :
    List.zipWith f F.flatten L.flatten = (List.zipWith (List.zipWith f) F L).flatten := by
  induction F generalizing L with
  | nil => cases L <;> simp at h ⊢
  | cons a F ih =>
    cases L with
    | nil => simp at h
    | cons b L =>
      simp only [List.map_cons, List.cons.injEq] at h
      simp only [List.flatten_cons, List.zipWith_cons_cons]
      rw [List.zipWith_append h.1, ih L h.2]

theorem sorted_le_getLast (s : List IRow) (hs : s.Pairwise (fun a b => a.frame ≤ b.frame))
    (hne : s ≠ []) : ∀ r ∈ s, r.frame ≤ (s.getLast hne).frame := by
  induction s with
  | nil => exact absurd rfl hne
  | cons a l ih =>
    cases l with
    | nil => intro r hr; simp at hr; subst hr; simp
    | cons b l' =>
      intro r hr
      rw [List.getLast_cons_cons]
      rw [List.pairwise_cons] at hs
      rcases List.mem_cons.mp hr with rfl | hr'
      · exact hs.1 _ (List.getLast_mem _)
      · exact ih hs.2 (by simp) r hr'

end TrackpyV.LinkTable
