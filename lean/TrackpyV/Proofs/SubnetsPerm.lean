import TrackpyV.Proofs.Subnets
import Mathlib.Data.List.Forall2
/-!
Equivariance of `Linker.subnets` (the left fold of `addSource` that merges the groups a source
touches) under a renumbering of the destination indices (X23, for C03).

`GroupsEquiv f gs gs'`: `gs'` is the `f`-image of `gs` up to a permutation of the groups and of the
members (sources, destinations) inside each group.  `addSource` respects it and commutes with the
renumbering (`addSource_equiv`), the initial singleton groups are related when `f` permutes
`range n` (`init_equiv`), hence the whole fold (`subnets_renumber`).  This is the direct route: it
does not go through a uniqueness theorem for connected components.
-/
namespace TrackpyV.Linker
open TrackpyV.Assign

/-- `g'` has the sources of `g` and the `f`-images of its destinations, each up to order -/
def GroupRel (f : Nat → Nat) (g g' : Group) : Prop :=
  g.1.Perm g'.1 ∧ (g.2.map f).Perm g'.2

/-- groups equal up to `f` on destinations, a permutation of the groups and of the members -/
def GroupsEquiv (f : Nat → Nat) (gs gs' : List Group) : Prop :=
  ∃ mid, gs.Perm mid ∧ List.Forall₂ (GroupRel f) mid gs'

theorem forall₂_filter {α β} {R : α → β → Prop} {p : α → Bool} {q : β → Bool} {l : List α}
    {l' : List β} (h : List.Forall₂ R l l') (hpq : ∀ a b, R a b → p a = q b) :
    List.Forall₂ R (l.filter p) (l'.filter q) := by
  induction h with
  | nil => exact List.Forall₂.nil
  | @cons a b l l' hab _ ih =>
    simp only [List.filter_cons, hpq a b hab]
    split
    · exact List.Forall₂.cons hab ih
    · exact ih

theorem forall₂_flatMap_perm {α β γ} {R : α → β → Prop} {φ : α → List γ} {ψ : β → List γ}
    {l : List α} {l' : List β} (h : List.Forall₂ R l l')
    (hr : ∀ a b, R a b → (φ a).Perm (ψ b)) : (l.flatMap φ).Perm (l'.flatMap ψ) := by
  induction h with
  | nil => simp
  | cons hab _ ih => simp only [List.flatMap_cons]; exact (hr _ _ hab).append ih

theorem forall₂_map_eq {α β γ} {R : α → β → Prop} {F : α → γ} {F' : β → γ}
    {l : List α} {l' : List β} (h : List.Forall₂ R l l')
    (hr : ∀ a b, a ∈ l → R a b → F a = F' b) : l.map F = l'.map F' := by
  induction h with
  | nil => rfl
  | cons hab _ ih =>
    simp only [List.map_cons]
    rw [hr _ _ (List.mem_cons_self ..) hab,
      ih (fun a b ha hab => hr a b (List.mem_cons_of_mem _ ha) hab)]

/-- a group is hit by `ds` iff its image is hit by the renumbered `ds'` -/
theorem hasDest_rel (f : Nat → Nat) (hf : ∀ a b, f a = f b → a = b) (ds ds' : List Nat)
    (hds : ∀ d', d' ∈ ds' ↔ ∃ d ∈ ds, f d = d') (g g' : Group) (h : GroupRel f g g') :
    hasDest ds g = hasDest ds' g' := by
  rw [Bool.eq_iff_iff]
  simp only [hasDest, List.any_eq_true, List.contains_eq_mem, decide_eq_true_eq]
  constructor
  · rintro ⟨d, hd, hdd⟩
    exact ⟨f d, (h.2.mem_iff).mp (List.mem_map_of_mem hd), (hds _).mpr ⟨d, hdd, rfl⟩⟩
  · rintro ⟨d', hd', hdd'⟩
    obtain ⟨e, he, rfl⟩ := List.mem_map.mp ((h.2.mem_iff).mpr hd')
    obtain ⟨d, hd, hfd⟩ := (hds _).mp hdd'
    exact ⟨e, he, by rw [← hf _ _ hfd]; exact hd⟩

/-- **one fold step commutes with the renumbering**: adding source `i` with candidate
destinations `ds` to `gs`, resp. with the renumbered `ds'` to the renumbered `gs'`, gives related
groups (the same groups are merged) -/
theorem addSource_equiv (f : Nat → Nat) (hf : ∀ a b, f a = f b → a = b) (i : Nat)
    (ds ds' : List Nat) (hds : ∀ d', d' ∈ ds' ↔ ∃ d ∈ ds, f d = d') (gs gs' : List Group)
    (h : GroupsEquiv f gs gs') : GroupsEquiv f (addSource i ds gs) (addSource i ds' gs') := by
  have hemp : ds'.isEmpty = ds.isEmpty := by
    cases ds with
    | nil =>
      cases ds' with
      | nil => rfl
      | cons d' t => obtain ⟨d, hd, _⟩ := (hds d').mp (List.mem_cons_self ..); cases hd
    | cons d t =>
      cases ds' with
      | nil => have := (hds (f d)).mpr ⟨d, List.mem_cons_self .., rfl⟩; cases this
      | cons d' t' => rfl
  unfold addSource
  rw [hemp]
  by_cases he : ds.isEmpty = true
  · simp only [he, if_true]; exact h
  · simp only [he, Bool.false_eq_true, if_false]
    obtain ⟨mid, hp, hf2⟩ := h
    have hpq := hasDest_rel f hf ds ds' hds
    have hhit := forall₂_filter (p := hasDest ds) (q := hasDest ds') hf2 hpq
    have hmiss := forall₂_filter (p := fun g => !(hasDest ds g)) (q := fun g => !(hasDest ds' g))
      hf2 (fun a b hab => by simp [hpq a b hab])
    refine ⟨(i :: (gs.filter (hasDest ds)).flatMap (·.1), (gs.filter (hasDest ds)).flatMap (·.2))
        :: mid.filter (fun g => !(hasDest ds g)),
      List.Perm.cons _ (hp.filter _), List.Forall₂.cons ⟨?_, ?_⟩ hmiss⟩
    · exact List.Perm.cons _ (((hp.filter _).flatMap_right _).trans
        (forall₂_flatMap_perm hhit (fun a b hab => hab.1)))
    · simp only [List.map_flatMap]
      exact ((hp.filter _).flatMap_right _).trans
        (forall₂_flatMap_perm hhit (fun a b hab => hab.2))

/-- the candidate destinations of `cs'` are the `f`-images of those of `cs` (as sets) -/
def DestsRenumbered (f : Nat → Nat) (cs cs' : List Cand) : Prop :=
  ∀ d', d' ∈ realDests cs' ↔ ∃ d ∈ realDests cs, f d = d'

theorem foldl_addSource_equiv (f : Nat → Nat) (hf : ∀ a b, f a = f b → a = b)
    (cands cands' : List (List Cand)) (hc : List.Forall₂ (DestsRenumbered f) cands cands')
    (k : Nat) (gs gs' : List Group) (h : GroupsEquiv f gs gs') :
    GroupsEquiv f
      ((cands.zipIdx k).foldl (fun gs (x : List Cand × Nat) => addSource x.2 (realDests x.1) gs) gs)
      ((cands'.zipIdx k).foldl (fun gs (x : List Cand × Nat) => addSource x.2 (realDests x.1) gs) gs')
    := by
  induction hc generalizing k gs gs' with
  | nil => exact h
  | cons hab _ ih =>
    simp only [List.zipIdx_cons, List.foldl_cons]
    exact ih (k + 1) _ _ (addSource_equiv f hf k _ _ hab gs gs' h)

/-- the initial singleton groups: `f` permutes `range n` -/
theorem init_equiv (f g : Nat → Nat) (hfg : ∀ j, f (g j) = j) (hgf : ∀ j, g (f j) = j) (n : Nat)
    (hn : ∀ j, j < n → f j < n) (hn' : ∀ j, j < n → g j < n) :
    GroupsEquiv f ((List.range n).map (fun j => (([], [j]) : Group)))
      ((List.range n).map (fun j => (([], [j]) : Group))) := by
  refine ⟨((List.range n).map g).map (fun j => (([], [j]) : Group)), List.Perm.map _ ?_, ?_⟩
  · have ginj : ∀ a b, g a = g b → a = b := fun a b e => by
      have := congrArg f e; rwa [hfg, hfg] at this
    have hnd : ((List.range n).map g).Nodup := by
      rw [List.Nodup, List.pairwise_map]
      exact List.Pairwise.imp (fun hne e => hne (ginj _ _ e)) List.nodup_range
    rw [List.perm_ext_iff_of_nodup List.nodup_range hnd]
    intro x
    simp only [List.mem_range, List.mem_map]
    constructor
    · intro hx; exact ⟨f x, hn x hx, hgf x⟩
    · rintro ⟨j, hj, rfl⟩; exact hn' j hj
  · rw [List.map_map, List.forall₂_map_left_iff, List.forall₂_map_right_iff]
    exact List.forall₂_same.mpr (fun j _ => ⟨List.Perm.refl _, by simp [hfg j]⟩)

/-- **(b) `subnets` is equivariant under a renumbering of the destinations.**  `f` is a bijection
(`g` its inverse) that maps `range n` to itself; the candidate destination sets of the second net
are the `f`-images of those of the first, source by source.  Then the sub-nets of the second net are
the `f`-image of the sub-nets of the first, up to a permutation of the groups and of the sources and
destinations listed inside each group. -/
theorem subnets_renumber (f g : Nat → Nat) (hfg : ∀ j, f (g j) = j) (hgf : ∀ j, g (f j) = j)
    (n : Nat) (hn : ∀ j, j < n → f j < n) (hn' : ∀ j, j < n → g j < n)
    (cands cands' : List (List Cand)) (hc : List.Forall₂ (DestsRenumbered f) cands cands') :
    GroupsEquiv f (subnets n cands) (subnets n cands') := by
  have finj : ∀ a b, f a = f b → a = b := fun a b e => by
    have := congrArg g e; rwa [hgf, hgf] at this
  exact foldl_addSource_equiv f finj cands cands' hc 0 _ _ (init_equiv f g hfg hgf n hn hn')

/-! ### the groups are connected (first half of the uniqueness of the decomposition) -/

/-- a group is connected in the candidate graph `dsOf`: a non-empty set `P` of its destinations
that is closed under its sources (a source with one candidate in `P` has all of them in `P`) is
the whole group — the group cannot be split into two non-empty closed parts -/
def GroupConnected (dsOf : Nat → List Nat) (g : Group) : Prop :=
  ∀ P : Nat → Prop, (∃ d ∈ g.2, P d) →
    (∀ i ∈ g.1, (∃ d ∈ dsOf i, P d) → ∀ d ∈ dsOf i, P d) → ∀ d ∈ g.2, P d

/-- `addSource` merges exactly the groups the new source touches, so the merged group is connected
through the new source -/
theorem addSource_connected (dsOf : Nat → List Nat) (gs : List Group) (i : Nat)
    (h : ∀ g ∈ gs, GroupConnected dsOf g) :
    ∀ g ∈ addSource i (dsOf i) gs, GroupConnected dsOf g := by
  unfold addSource
  by_cases he : (dsOf i).isEmpty = true
  · simp only [he, if_true]; exact h
  · simp only [he, Bool.false_eq_true, if_false]
    intro g hg
    rcases List.mem_cons.mp hg with rfl | hg
    · intro P ⟨d0, hd0, hP0⟩ hcl d hd
      simp only [List.mem_flatMap, List.mem_filter, List.mem_cons] at hd0 hd hcl
      have hsub : ∀ g0, g0 ∈ gs → hasDest (dsOf i) g0 = true → (∃ d ∈ g0.2, P d) →
          ∀ d ∈ g0.2, P d := by
        intro g0 hg0 hh0 hex
        exact h g0 hg0 P hex (fun j hj => hcl j (Or.inr ⟨g0, ⟨hg0, hh0⟩, hj⟩))
      have htouch : ∀ g0, hasDest (dsOf i) g0 = true → ∃ d ∈ g0.2, d ∈ dsOf i := by
        intro g0 hh0
        simpa [hasDest] using hh0
      obtain ⟨g0, ⟨hg0, hh0⟩, hd0g⟩ := hd0
      have hall0 := hsub g0 hg0 hh0 ⟨d0, hd0g, hP0⟩
      obtain ⟨d1, hd1, hd1i⟩ := htouch g0 hh0
      have hi : ∀ d ∈ dsOf i, P d := hcl i (Or.inl rfl) ⟨d1, hd1i, hall0 d1 hd1⟩
      obtain ⟨g1, ⟨hg1, hh1⟩, hdg1⟩ := hd
      obtain ⟨d2, hd2, hd2i⟩ := htouch g1 hh1
      exact hsub g1 hg1 hh1 ⟨d2, hd2, hi d2 hd2i⟩ d hdg1
    · exact h g (List.mem_filter.mp hg).1

theorem foldl_connected (dsOf : Nat → List Nat) (l : List (List Cand × Nat)) (gs : List Group)
    (h : ∀ g ∈ gs, GroupConnected dsOf g) (hl : ∀ x ∈ l, realDests x.1 = dsOf x.2) :
    ∀ g ∈ l.foldl (fun gs x => addSource x.2 (realDests x.1) gs) gs, GroupConnected dsOf g := by
  induction l generalizing gs with
  | nil => exact h
  | cons x xs ih =>
    simp only [List.foldl_cons]
    apply ih
    · rw [hl x (List.mem_cons_self ..)]
      exact addSource_connected dsOf gs x.2 h
    · intro y hy; exact hl y (List.mem_cons_of_mem _ hy)

/-- **every sub-net `subnets` produces is connected** (with `subnets_inv`: the groups are a
covering, closed, pairwise disjoint family of connected sets — the connected components) -/
theorem subnets_connected (n : Nat) (cands : List (List Cand)) :
    ∀ g ∈ subnets n cands, GroupConnected (dsOfCands cands) g := by
  unfold subnets
  apply foldl_connected (dsOfCands cands) (cands.zipIdx)
  · intro g hg P ⟨d0, hd0, hP0⟩ _ d hd
    simp only [List.mem_map] at hg
    obtain ⟨j, _, rfl⟩ := hg
    simp only [List.mem_singleton] at hd0 hd
    subst hd0; subst hd; exact hP0
  · intro x hx
    obtain ⟨cs, i⟩ := x
    have hget : cands[i]? = some cs := by
      have := List.mem_zipIdx hx
      simp only [Nat.zero_add, Nat.sub_zero] at this
      obtain ⟨_, hi, hcs⟩ := this
      rw [List.getElem?_eq_getElem hi]; simp [hcs]
    simp [dsOfCands, getD', hget]

end TrackpyV.Linker
