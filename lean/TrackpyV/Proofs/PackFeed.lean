import TrackpyV.Proofs.PackAdjoint
import Mathlib.Data.List.GetD
/-!
Which entries of the parameter array one coordinate of the optimisation vector feeds
(`feed`: a column `i` and a set of rows `S`), and the two facts the chain rule needs:
* `unpackCols_set`: replacing coordinate `j` of the vector by `t` replaces exactly the entries
  `(r, i)`, `r ∈ S`, of the unpacked array by `t` (unpack is affine, its linear part is 0/1);
* `packCols_sum_getD`: coordinate `j` of `operation=np.sum` packing is the sum of those entries.
-/
namespace TrackpyV.Pack
set_option linter.unusedSectionVars false

/-- the rows entry `j` of the block of a column of kind `k` is written to by `unpackCol` -/
def feedCol (n : Nat) : Kind → Nat → List Nat
  | .all, j => [j]
  | .one, _ => List.range n
  | .grouped gs, j => gs.getD j []
  | _, _ => []

/-- the column and the rows that coordinate `j` of the optimisation vector feeds -/
def feed (n : Nat) (groups : Option Groups) : List Nat → Nat → Nat × List Nat
  | [], _ => (0, [])
  | m :: ms, j =>
    if j < kindLen n (kind groups m) then (0, feedCol n (kind groups m) j)
    else ((feed n groups ms (j - kindLen n (kind groups m))).1 + 1,
          (feed n groups ms (j - kindLen n (kind groups m))).2)

section Unpack
variable {α : Type} [Inhabited α]

theorem ext_getD (a b : List α) (hl : a.length = b.length)
    (h : ∀ i, i < a.length → a.getD i default = b.getD i default) : a = b := by
  apply List.ext_getElem hl
  intro i h1 h2
  have := h i h1
  rwa [List.getD_eq_getElem _ _ h1, List.getD_eq_getElem _ _ h2] at this

theorem getD_set_self (l : List α) (j : Nat) (t d : α) (hj : j < l.length) :
    (l.set j t).getD j d = t := by
  simp [List.getD_eq_getElem?_getD, hj]

theorem getD_set_ne (l : List α) (j i : Nat) (t d : α) (hne : j ≠ i) :
    (l.set j t).getD i d = l.getD i d := by
  simp [List.getD_eq_getElem?_getD, hne]

theorem getD_setGroups_of_mem (c : List α) (gs : List (List Nat)) (vals : List α) (j i : Nat)
    (hdis : gs.Pairwise (fun g h => ∀ x ∈ g, x ∉ h)) (hlen : vals.length = gs.length)
    (hj : j < gs.length) (hi : i ∈ gs.getD j []) (hlt : i < c.length) :
    (setGroups c gs vals).getD i default = vals.getD j default := by
  induction gs generalizing c vals j with
  | nil => simp at hj
  | cons g gs ih =>
    cases vals with
    | nil => simp at hlen
    | cons x vals =>
      rw [List.pairwise_cons] at hdis
      rw [setGroups_cons]
      cases j with
      | zero =>
        simp only [List.getD_cons_zero] at hi ⊢
        rw [getD_setGroups_of_not_mem _ _ _ _ (fun h hh => hdis.1 h hh i hi)]
        exact getD_setAll_of_mem _ _ _ _ hi hlt
      | succ j =>
        simp only [List.getD_cons_succ] at hi ⊢
        exact ih (setAll c g x) vals j hdis.2 (by simpa using hlen) (by simpa using hj) hi
          (by simpa using hlt)

/-- changing one value handed to `setGroups` rewrites exactly the members of its group -/
theorem setGroups_set (c : List α) (gs : List (List Nat)) (vals : List α) (j : Nat) (t : α)
    (hok : GroupListOK c.length gs) (hlen : vals.length = gs.length) (hj : j < gs.length) :
    setGroups c gs (vals.set j t) = setAll (setGroups c gs vals) (gs.getD j []) t := by
  apply ext_getD
  · simp
  · intro i hi
    simp only [length_setGroups] at hi
    by_cases hmem : i ∈ gs.getD j []
    · rw [getD_setGroups_of_mem c gs _ j i hok.disjoint (by simpa using hlen) hj hmem hi,
        getD_setAll_of_mem _ _ _ _ hmem (by simpa using hi)]
      exact getD_set_self _ _ _ _ (by omega)
    · rw [getD_setAll_of_not_mem _ _ _ _ hmem]
      by_cases hex : ∃ j', j' < gs.length ∧ i ∈ gs.getD j' []
      · obtain ⟨j', hj', hm'⟩ := hex
        have hne : j ≠ j' := by rintro rfl; exact hmem hm'
        rw [getD_setGroups_of_mem c gs _ j' i hok.disjoint (by simpa using hlen) hj' hm' hi,
          getD_setGroups_of_mem c gs _ j' i hok.disjoint hlen hj' hm' hi]
        exact getD_set_ne _ _ _ _ _ hne
      · have hno : ∀ g ∈ gs, i ∉ g := by
          intro g hg hig
          obtain ⟨j', hj', rfl⟩ := List.getElem_of_mem hg
          exact hex ⟨j', hj', by simpa [List.getD_eq_getElem?_getD, hj'] using hig⟩
        rw [getD_setGroups_of_not_mem _ _ _ _ hno, getD_setGroups_of_not_mem _ _ _ _ hno]

theorem setAll_replicate_range (n : Nat) (x t : α) :
    setAll (List.replicate n x) (List.range n) t = List.replicate n t := by
  apply ext_getD
  · simp
  · intro i hi
    simp only [length_setAll, List.length_replicate] at hi
    rw [getD_setAll_of_mem _ _ _ _ (by simpa using hi) (by simpa using hi)]
    rw [List.getD_replicate _ hi]

/-- coordinate `j` inside the block of the column: the rows `feedCol` are overwritten, the rest of the
vector is the same -/
theorem unpackCol_set_lt (n : Nat) (k : Kind) (vect col : List α) (j : Nat) (t : α)
    (hcol : col.length = n) (hk : kindOK n k = true) (hv : kindLen n k ≤ vect.length)
    (hj : j < kindLen n k) :
    unpackCol n k (vect.set j t) col =
      (setAll (unpackCol n k vect col).1 (feedCol n k j) t, (unpackCol n k vect col).2) := by
  cases k with
  | const => simp [kindLen] at hj
  | error => simp [kindOK] at hk
  | all =>
    simp only [kindLen] at hj hv
    simp only [unpackCol, feedCol, setAll_cons, setAll_nil, List.take_set, List.drop_set_of_lt hj]
  | one =>
    simp only [kindLen] at hj hv
    obtain rfl : j = 0 := by omega
    cases vect with
    | nil => simp at hv
    | cons a tl =>
      simp only [unpackCol, feedCol, List.set_cons_zero, List.headD_cons, List.drop_succ_cons,
        List.drop_zero]
      rw [setAll_replicate_range]
  | grouped gs =>
    simp only [kindLen] at hj hv
    simp only [kindOK, groupListOK_iff] at hk
    simp only [unpackCol, feedCol, List.take_set, List.drop_set_of_lt hj]
    rw [setGroups_set col gs _ j t (by rw [hcol]; exact hk) (by simp [hv]) hj]

/-- coordinate `j` after the block of the column: the column is the same -/
theorem unpackCol_set_ge (n : Nat) (k : Kind) (vect col : List α) (j : Nat) (t : α)
    (hj : kindLen n k ≤ j) :
    unpackCol n k (vect.set j t) col =
      ((unpackCol n k vect col).1, (unpackCol n k vect col).2.set (j - kindLen n k) t) := by
  cases k with
  | const => simp [unpackCol, kindLen]
  | error => simp [unpackCol, kindLen]
  | all =>
    simp only [kindLen] at hj
    simp only [unpackCol, kindLen, List.take_set_of_le hj, List.drop_set, if_neg (Nat.not_lt.2 hj)]
  | one =>
    simp only [kindLen] at hj
    obtain ⟨j', rfl⟩ : ∃ j', j = j' + 1 := ⟨j - 1, by omega⟩
    cases vect with
    | nil => simp [unpackCol]
    | cons a tl => simp [unpackCol, kindLen]
  | grouped gs =>
    simp only [kindLen] at hj
    simp only [unpackCol, kindLen, List.take_set_of_le hj, List.drop_set, if_neg (Nat.not_lt.2 hj)]

theorem length_unpackCol (n : Nat) (k : Kind) (vect col : List α) (hcol : col.length = n)
    (hv : kindLen n k ≤ vect.length) : (unpackCol n k vect col).1.length = n := by
  cases k <;> simp_all [unpackCol, kindLen]

/-- `vect_to_params` is total on well-formed input (no condition on `n`) and keeps the shape -/
theorem unpackCols_some (n : Nat) (groups : Option Groups) :
    ∀ (modes : List Nat) (vect : List α) (cols : List (List α)), cols.length = modes.length →
      shapeOK n cols = true → modesOK n groups modes = true →
      packedLen n groups modes ≤ vect.length →
      ∃ U, unpackCols n groups modes vect cols = some U ∧ U.length = modes.length ∧
        shapeOK n U = true
  | [], _, [], _, _, _, _ => ⟨[], by simp [unpackCols, shapeOK]⟩
  | [], _, _ :: _, hl, _, _, _ => by simp at hl
  | _ :: _, _, [], hl, _, _, _ => by simp at hl
  | m :: ms, vect, c :: cs, hl, hs, hok, hv => by
    simp only [modesOK, List.all_cons, Bool.and_eq_true] at hok
    have hk : kind groups m ≠ .error := by
      intro h; rw [h] at hok; simp [kindOK] at hok
    simp only [shapeOK, List.all_cons, Bool.and_eq_true, beq_iff_eq] at hs
    have hpl : packedLen n groups (m :: ms) = kindLen n (kind groups m) + packedLen n groups ms := by
      simp [packedLen]
    rw [hpl] at hv
    have h2 := unpackCol_snd n (kind groups m) vect c
    obtain ⟨U, e1, e2, e3⟩ := unpackCols_some n groups ms
      (unpackCol n (kind groups m) vect c).2 cs (by simpa using hl) (by simpa [shapeOK] using hs.2)
      (by simpa [modesOK] using hok.2) (by rw [h2, List.length_drop]; omega)
    refine ⟨(unpackCol n (kind groups m) vect c).1 :: U, ?_, by simp [e2], ?_⟩
    · rw [unpackCols_cons _ _ _ _ _ _ _ hk, e1]; rfl
    · simp only [shapeOK, List.all_cons, Bool.and_eq_true, beq_iff_eq]
      exact ⟨length_unpackCol n _ vect c hs.1 (by omega), by simpa [shapeOK] using e3⟩

/-- **unpack is affine with a 0/1 linear part**: replacing coordinate `j` of the vector by `t`
overwrites the entries `(r, i)`, `r ∈ S`, `(i, S) = feed j`, of the unpacked array by `t` and nothing
else -/
theorem unpackCols_set (n : Nat) (groups : Option Groups) :
    ∀ (modes : List Nat) (vect : List α) (cols U : List (List α)) (j : Nat) (t : α),
      shapeOK n cols = true → modesOK n groups modes = true →
      packedLen n groups modes ≤ vect.length → j < packedLen n groups modes →
      unpackCols n groups modes vect cols = some U →
      unpackCols n groups modes (vect.set j t) cols =
        some (U.set (feed n groups modes j).1
          (setAll (U.getD (feed n groups modes j).1 []) (feed n groups modes j).2 t))
  | [], _, _, _, j, _, _, _, _, hj, _ => by simp [packedLen] at hj
  | _ :: _, _, [], _, _, _, _, _, _, _, h => by simp [unpackCols] at h
  | m :: ms, vect, c :: cs, U, j, t, hs, hok, hv, hj, h => by
    simp only [modesOK, List.all_cons, Bool.and_eq_true] at hok
    have hk : kind groups m ≠ .error := by
      intro h; rw [h] at hok; simp [kindOK] at hok
    simp only [shapeOK, List.all_cons, Bool.and_eq_true, beq_iff_eq] at hs
    have hpl : packedLen n groups (m :: ms) = kindLen n (kind groups m) + packedLen n groups ms := by
      simp [packedLen]
    rw [hpl] at hv hj
    rw [unpackCols_cons _ _ _ _ _ _ _ hk] at h ⊢
    cases hr : unpackCols n groups ms (unpackCol n (kind groups m) vect c).2 cs with
    | none => simp [hr] at h
    | some cs' =>
      simp only [hr, Option.map_some, Option.some.injEq] at h
      subst h
      by_cases hlt : j < kindLen n (kind groups m)
      · rw [unpackCol_set_lt n _ vect c j t hs.1 hok.1 (by omega) hlt]
        simp only [hr, Option.map_some, feed, if_pos hlt, List.set_cons_zero, List.getD_cons_zero]
      · have hge := Nat.le_of_not_lt hlt
        rw [unpackCol_set_ge n _ vect c j t hge]
        simp only
        have h2 := unpackCol_snd n (kind groups m) vect c
        rw [unpackCols_set n groups ms _ cs cs' (j - kindLen n (kind groups m)) t
          (by simpa [shapeOK] using hs.2) (by simpa [modesOK] using hok.2)
          (by rw [h2, List.length_drop]; omega) (by omega) hr]
        simp only [Option.map_some, feed, if_neg hlt, List.set_cons_succ, List.getD_cons_succ]

/-! ### the unpacked array depends on `params` only through the constant columns -/

theorem setGroups_congr_of_cover (c c' : List α) (gs : List (List Nat)) (vals : List α)
    (hl : c.length = c'.length) (hdis : gs.Pairwise (fun g h => ∀ x ∈ g, x ∉ h))
    (hlen : vals.length = gs.length) (hcov : ∀ r, r < c.length → ∃ g ∈ gs, r ∈ g) :
    setGroups c gs vals = setGroups c' gs vals := by
  apply ext_getD _ _ (by simp [hl])
  intro i hi
  simp only [length_setGroups] at hi
  obtain ⟨g, hg, hig⟩ := hcov i hi
  obtain ⟨j, hj, rfl⟩ := List.getElem_of_mem hg
  have hm : i ∈ gs.getD j [] := by simpa [List.getD_eq_getElem?_getD, hj] using hig
  rw [getD_setGroups_of_mem c gs vals j i hdis hlen hj hm hi,
    getD_setGroups_of_mem c' gs vals j i hdis hlen hj hm (hl ▸ hi)]

/-- a non-constant column whose groups cover all features is rebuilt from the vector alone -/
theorem unpackCol_congr (n : Nat) (k : Kind) (vect col col' : List α) (hc : col.length = n)
    (hc' : col'.length = n) (hk : kindOK n k = true) (hv : kindLen n k ≤ vect.length)
    (hne : k = .const → col = col')
    (hcov : ∀ gs, k = .grouped gs → ∀ r, r < n → ∃ g ∈ gs, r ∈ g) :
    unpackCol n k vect col = unpackCol n k vect col' := by
  cases k with
  | const => rw [hne rfl]
  | error => simp [kindOK] at hk
  | all => rfl
  | one => rfl
  | grouped gs =>
    simp only [kindOK, groupListOK_iff] at hk
    simp only [kindLen] at hv
    simp only [unpackCol]
    rw [setGroups_congr_of_cover col col' gs _ (by rw [hc, hc']) hk.disjoint (by simp [hv])
      (by rw [hc]; exact hcov gs rfl)]

theorem unpackCols_const_only (n : Nat) (groups : Option Groups) :
    ∀ (modes : List Nat) (vect : List α) (cols cols' : List (List α)),
      cols.length = modes.length → cols'.length = modes.length →
      shapeOK n cols = true → shapeOK n cols' = true → modesOK n groups modes = true →
      packedLen n groups modes ≤ vect.length →
      (∀ m ∈ modes, ∀ gs, kind groups m = .grouped gs → ∀ r, r < n → ∃ g ∈ gs, r ∈ g) →
      (∀ i, i < modes.length → kind groups (modes.getD i 0) = .const →
        cols.getD i [] = cols'.getD i []) →
      unpackCols n groups modes vect cols = unpackCols n groups modes vect cols'
  | [], _, [], [], _, _, _, _, _, _, _, _ => rfl
  | [], _, _ :: _, _, hl, _, _, _, _, _, _, _ => by simp at hl
  | [], _, [], _ :: _, _, hl, _, _, _, _, _, _ => by simp at hl
  | _ :: _, _, [], _, hl, _, _, _, _, _, _, _ => by simp at hl
  | _ :: _, _, _ :: _, [], _, hl, _, _, _, _, _, _ => by simp at hl
  | m :: ms, vect, c :: cs, c' :: cs', hl, hl', hs, hs', hok, hv, hcov, hag => by
    simp only [modesOK, List.all_cons, Bool.and_eq_true] at hok
    have hk : kind groups m ≠ .error := by
      intro h; rw [h] at hok; simp [kindOK] at hok
    simp only [shapeOK, List.all_cons, Bool.and_eq_true, beq_iff_eq] at hs hs'
    have hpl : packedLen n groups (m :: ms) = kindLen n (kind groups m) + packedLen n groups ms := by
      simp [packedLen]
    rw [hpl] at hv
    rw [unpackCols_cons _ _ _ _ _ _ _ hk, unpackCols_cons _ _ _ _ _ _ _ hk]
    have h0 := hag 0 (by simp)
    simp only [List.getD_cons_zero] at h0
    have hcol := unpackCol_congr n (kind groups m) vect c c' hs.1 hs'.1 hok.1 (by omega) h0
      (hcov m (by simp))
    rw [hcol]
    have h2 := unpackCol_snd n (kind groups m) vect c'
    rw [unpackCols_const_only n groups ms _ cs cs' (by simpa using hl) (by simpa using hl')
      (by simpa [shapeOK] using hs.2) (by simpa [shapeOK] using hs'.2)
      (by simpa [modesOK] using hok.2) (by rw [h2, List.length_drop]; omega)
      (fun m' hm' => hcov m' (by simp [hm']))
      (fun i hi hc => by simpa using hag (i + 1) (by simpa using hi) (by simpa using hc))]

end Unpack

/-! ### what `feed` returns -/

theorem feedCol_spec (n : Nat) (k : Kind) (j : Nat) (hk : kindOK n k = true)
    (hj : j < kindLen n k) : (∀ r ∈ feedCol n k j, r < n) ∧ (feedCol n k j).Nodup := by
  cases k with
  | const => simp [kindLen] at hj
  | error => simp [kindOK] at hk
  | all => simp only [kindLen] at hj; simp [feedCol, hj]
  | one => simp [feedCol, List.nodup_range]
  | grouped gs =>
    simp only [kindLen] at hj
    simp only [kindOK, groupListOK_iff] at hk
    have hm : gs.getD j [] ∈ gs := by
      rw [List.getD_eq_getElem _ _ hj]; exact List.getElem_mem hj
    exact ⟨hk.inRange _ hm, hk.nodup _ hm⟩

theorem feed_spec (n : Nat) (groups : Option Groups) :
    ∀ (modes : List Nat) (j : Nat), modesOK n groups modes = true → j < packedLen n groups modes →
      (feed n groups modes j).1 < modes.length ∧ (∀ r ∈ (feed n groups modes j).2, r < n) ∧
        (feed n groups modes j).2.Nodup
  | [], j, _, hj => by simp [packedLen] at hj
  | m :: ms, j, hok, hj => by
    simp only [modesOK, List.all_cons, Bool.and_eq_true] at hok
    have hpl : packedLen n groups (m :: ms) = kindLen n (kind groups m) + packedLen n groups ms := by
      simp [packedLen]
    rw [hpl] at hj
    by_cases hlt : j < kindLen n (kind groups m)
    · simp only [feed, if_pos hlt, List.length_cons]
      exact ⟨by omega, feedCol_spec n _ j hok.1 hlt⟩
    · obtain ⟨h1, h2⟩ := feed_spec n groups ms (j - kindLen n (kind groups m))
        (by simpa [modesOK] using hok.2) (by omega)
      simp only [feed, if_neg hlt, List.length_cons]
      exact ⟨by omega, h2⟩

/-- coordinates feeding column 0 are those of its block, and feed `feedCol` of its kind -/
theorem feed_fst_eq_zero (n : Nat) (groups : Option Groups) (m : Nat) (ms : List Nat) (j : Nat)
    (h : (feed n groups (m :: ms) j).1 = 0) :
    j < kindLen n (kind groups m) ∧ (feed n groups (m :: ms) j).2 = feedCol n (kind groups m) j := by
  by_cases hlt : j < kindLen n (kind groups m)
  · simp [feed, hlt]
  · simp [feed, hlt] at h

/-! ### `operation=np.sum` packing, coordinate by coordinate -/
section Sum
variable {R : Type} [CommRing R] [Inhabited R]

theorem gather_range (G : List R) : gather G (List.range G.length) = G := by
  apply List.ext_getElem (by simp [gather])
  intro i h1 h2
  simp only [gather, List.length_map, List.length_range] at h1
  simp [gather, List.getD_eq_getElem?_getD, h1]

theorem packCol_sum_getD (n : Nat) (k : Kind) (G : List R) (j : Nat) (hG : G.length = n)
    (hj : j < kindLen n k) :
    (packCol (sumOp 0) k G).getD j 0 = (gather G (feedCol n k j)).sum := by
  cases k with
  | const => simp [kindLen] at hj
  | error => simp [kindLen] at hj
  | all =>
    simp only [kindLen] at hj
    have : j < G.length := by omega
    simp [packCol, feedCol, gather, List.getD_eq_getElem?_getD, this]
  | one =>
    simp only [kindLen] at hj
    obtain rfl : j = 0 := by omega
    simp [packCol, feedCol, sumOp_eq, ← hG, gather_range]
  | grouped gs =>
    simp only [kindLen] at hj
    simp [packCol, feedCol, sumOp_eq, List.getD_eq_getElem?_getD, hj]

/-- coordinate `j` of `vect_from_params(G, operation=np.sum)` is the sum of the entries of `G` that
coordinate `j` feeds -/
theorem packCols_sum_getD (n : Nat) (groups : Option Groups) :
    ∀ (modes : List Nat) (G : List (List R)) (pv : List R) (j : Nat), shapeOK n G = true →
      j < packedLen n groups modes → packCols (sumOp 0) groups modes G = some pv →
      pv.getD j 0 = (gather (G.getD (feed n groups modes j).1 []) (feed n groups modes j).2).sum
  | [], _, _, j, _, hj, _ => by simp [packedLen] at hj
  | _ :: _, [], _, _, _, _, h => by simp [packCols] at h
  | m :: ms, c :: cs, pv, j, hs, hj, h => by
    by_cases hk : kind groups m = .error
    · rw [packCols_cons_error _ _ _ _ _ _ hk] at h; cases h
    · rw [packCols_cons _ _ _ _ _ _ hk] at h
      simp only [shapeOK, List.all_cons, Bool.and_eq_true, beq_iff_eq] at hs
      have hpl : packedLen n groups (m :: ms) =
          kindLen n (kind groups m) + packedLen n groups ms := by simp [packedLen]
      rw [hpl] at hj
      cases hr : packCols (sumOp 0) groups ms cs with
      | none => simp [hr] at h
      | some r =>
        simp only [hr, Option.map_some, Option.some.injEq] at h
        subst h
        have hlen := length_packCol (sumOp (0 : R)) n (kind groups m) c hs.1
        by_cases hlt : j < kindLen n (kind groups m)
        · rw [List.getD_append _ _ _ _ (by omega), packCol_sum_getD n _ c j hs.1 hlt]
          simp only [feed, if_pos hlt, List.getD_cons_zero]
        · rw [List.getD_append_right _ _ _ _ (by omega), hlen,
            packCols_sum_getD n groups ms cs r (j - kindLen n (kind groups m))
              (by simpa [shapeOK] using hs.2) (by omega) hr]
          simp only [feed, if_neg hlt, List.getD_cons_succ]

end Sum

end TrackpyV.Pack
