import TrackpyV.Model.Linker
/-!
Lemmas about the linker monitor: what an accepted step guarantees, and the invariant that ties the
monitor state (sources with ages) to the labelled history.  Core Lean only.
-/
namespace TrackpyV.Linker
open TrackpyV.Assign

/-! ### labelled history -/

/-- a level together with the labels it received -/
structure LLevel where
  t : Int
  dsts : List Pos
  labels : List Nat

/-- position of the feature carrying label `l` in a level -/
def posOf (lv : LLevel) (l : Nat) : Option Pos := (lv.labels.zip lv.dsts).lookup l

/-- previous observation of trajectory `l` in a history (most recent level first):
`(number of levels in between, position, frame number)` -/
def lastObs : List LLevel → Nat → Option (Nat × Pos × Int)
  | [], _ => none
  | lv :: hist, l =>
    match posOf lv l with
    | some p => some (0, p, lv.t)
    | none => (lastObs hist l).map (fun x => (x.1 + 1, x.2.1, x.2.2))

/-- predicted position at time `t` of a point observed at `p` at time `t0` -/
def viewAt (cfg : Cfg) (t : Int) (p : Pos) (t0 : Int) : Pos :=
  match cfg.vel with
  | none => p
  | some v => List.zipWith (fun x vi => x + vi * (t - t0)) p v

theorem view_eq_viewAt (cfg : Cfg) (t : Int) (s : Source) : view cfg t s = viewAt cfg t s.pos s.t := by
  unfold view viewAt; rfl

/-- C01 for one level given the history before it: one label per feature, no label twice, and
every label that continues a trajectory does so after at most `memory` skipped levels and within
range of the (predicted) previous position. -/
def LevelOK (cfg : Cfg) (hist : List LLevel) (lv : LLevel) : Prop :=
  lv.labels.length = lv.dsts.length ∧ lv.labels.Nodup ∧
  ∀ q l, (q, l) ∈ lv.dsts.zip lv.labels →
    ∀ age p t0, lastObs hist l = some (age, p, t0) →
      age ≤ cfg.memory ∧ dist2 cfg.w (viewAt cfg lv.t p t0) q ≤ cfg.B

/-- C01 for a whole labelled movie (most recent level first) -/
def ValidHist (cfg : Cfg) : List LLevel → Prop
  | [] => True
  | lv :: hist => LevelOK cfg hist lv ∧ ValidHist cfg hist

/-! ### list helpers -/

theorem lookup_zip_of_mem_nodup {α} (ls : List Nat) (ps : List α) (l : Nat) (p : α)
    (hn : ls.Nodup) (hm : (l, p) ∈ ls.zip ps) : (ls.zip ps).lookup l = some p := by
  induction ls generalizing ps with
  | nil => simp at hm
  | cons a as ih =>
    cases ps with
    | nil => simp at hm
    | cons b bs =>
      simp only [List.zip_cons_cons, List.mem_cons, Prod.mk.injEq] at hm
      rw [List.nodup_cons] at hn
      simp only [List.zip_cons_cons, List.lookup_cons]
      rcases hm with ⟨rfl, rfl⟩ | hm
      · simp
      · have hne : l ≠ a := by
          intro h; subst h
          exact hn.1 (List.of_mem_zip hm).1
        have : (l == a) = false := by simpa using hne
        rw [this]
        exact ih bs hn.2 hm

theorem lookup_zip_none_of_not_mem {α} (ls : List Nat) (ps : List α) (l : Nat)
    (h : l ∉ ls) : (ls.zip ps).lookup l = none := by
  induction ls generalizing ps with
  | nil => simp
  | cons a as ih =>
    cases ps with
    | nil => simp
    | cons b bs =>
      simp only [List.mem_cons, not_or] at h
      simp only [List.zip_cons_cons, List.lookup_cons]
      have : (l == a) = false := by simpa using h.1
      rw [this]
      exact ih bs h.2

theorem mem_of_lookup_zip_some {α} (ls : List Nat) (ps : List α) (l : Nat) (p : α)
    (h : (ls.zip ps).lookup l = some p) : l ∈ ls := by
  induction ls generalizing ps with
  | nil => simp at h
  | cons a as ih =>
    cases ps with
    | nil => simp at h
    | cons b bs =>
      simp only [List.zip_cons_cons, List.lookup_cons] at h
      by_cases hla : l = a
      · subst hla; exact List.mem_cons_self ..
      · have : (l == a) = false := by simpa using hla
        rw [this] at h
        exact List.mem_cons_of_mem _ (ih bs h)

theorem lastObs_some_mem (hist : List LLevel) (l : Nat) (x : Nat × Pos × Int)
    (h : lastObs hist l = some x) : ∃ lv ∈ hist, l ∈ lv.labels := by
  induction hist generalizing x with
  | nil => simp [lastObs] at h
  | cons lv hist ih =>
    simp only [lastObs] at h
    cases hp : posOf lv l with
    | some p =>
      exact ⟨lv, List.mem_cons_self .., mem_of_lookup_zip_some _ _ _ _ hp⟩
    | none =>
      rw [hp] at h
      cases hl : lastObs hist l with
      | none => rw [hl] at h; simp at h
      | some y =>
        obtain ⟨lv', hm, hl'⟩ := ih y hl
        exact ⟨lv', List.mem_cons_of_mem _ hm, hl'⟩

/-! ### what an accepted step guarantees -/

theorem validWhy_none {cfg : Cfg} {st : State} {t : Int} {dsts : List Pos} {labels : List Nat}
    (h : validWhy cfg st t dsts labels = none) :
    labels.length = dsts.length ∧ labels.Nodup ∧
    (∀ l ∈ freshLabels st labels, l ∉ st.used) ∧ linksOkB cfg st t dsts labels = true := by
  unfold validWhy at h
  split at h
  · cases h
  · rename_i h1
    split at h
    · cases h
    · rename_i h2
      split at h
      · cases h
      · rename_i h3
        split at h
        · cases h
        · rename_i h4
          refine ⟨by simpa using h1, by simpa using h2, ?_, by simpa using h4⟩
          intro l hl hu
          apply h3
          simp only [List.any_eq_true, List.contains_eq_mem, decide_eq_true_eq]
          exact ⟨l, hl, hu⟩

theorem stepCheck_ok {cfg : Cfg} {st : State} {t : Int} {dsts : List Pos} {labels : List Nat}
    {st' : State} {c r b : Nat} {cap : Bool}
    (h : stepCheck cfg st t dsts (some labels) = .ok st' c r b cap) :
    validWhy cfg st t dsts labels = none ∧ st' = nextState cfg st t dsts labels ∧
    (cap = false → optWhy cfg st t dsts labels = none ∧ cappedB cfg st t dsts = false) := by
  unfold stepCheck at h
  simp only at h
  split at h
  · cases h
  · split at h
    · cases h
    · rename_i hv
      split at h
      · rename_i hc
        cases h
        exact ⟨hv, rfl, by intro h0; cases h0⟩
      · rename_i hc
        split at h
        · cases h
        · rename_i ho
          cases h
          exact ⟨hv, rfl, fun _ => ⟨ho, by
            simp only [Bool.or_eq_true, not_or, Bool.not_eq_true] at hc; exact hc.1⟩⟩

/-! ### the invariant -/

structure Inv (cfg : Cfg) (st : State) (hist : List LLevel) : Prop where
  src_last : ∀ s ∈ st.srcs, lastObs hist s.track = some (s.age, s.pos, s.t) ∧ s.age ≤ cfg.memory
  used : ∀ lv ∈ hist, ∀ l ∈ lv.labels, l ∈ st.used
  nodup : (st.srcs.map (·.track)).Nodup
  complete : ∀ l a p t0, lastObs hist l = some (a, p, t0) → a ≤ cfg.memory →
    ∃ s ∈ st.srcs, s.track = l

/-- the sources created from a labelled level -/
def lvlSrcs (t : Int) (dsts : List Pos) (labels : List Nat) : List Source :=
  (dsts.zip labels).map (fun (p, l) => ({ pos := p, track := l, t := t, age := 0 } : Source))

def keptSrcs (cfg : Cfg) (st : State) (labels : List Nat) : List Source :=
  st.srcs.filterMap (fun s =>
    if labels.contains s.track then none
    else if s.age < cfg.memory then some { s with age := s.age + 1 } else none)

theorem nextState_srcs (cfg : Cfg) (st : State) (t : Int) (dsts : List Pos) (labels : List Nat) :
    (nextState cfg st t dsts labels).srcs = lvlSrcs t dsts labels ++ keptSrcs cfg st labels := rfl

theorem nextState_used (cfg : Cfg) (st : State) (t : Int) (dsts : List Pos) (labels : List Nat) :
    (nextState cfg st t dsts labels).used = labels ++ st.used := rfl

theorem mem_lvlSrcs {t : Int} {dsts : List Pos} {labels : List Nat} {s : Source}
    (h : s ∈ lvlSrcs t dsts labels) :
    (s.pos, s.track) ∈ dsts.zip labels ∧ s.t = t ∧ s.age = 0 := by
  simp only [lvlSrcs, List.mem_map] at h
  obtain ⟨⟨p, l⟩, hm, rfl⟩ := h
  exact ⟨hm, rfl, rfl⟩

theorem lvlSrcs_tracks (t : Int) (dsts : List Pos) (labels : List Nat)
    (hl : labels.length = dsts.length) : (lvlSrcs t dsts labels).map (·.track) = labels := by
  simp only [lvlSrcs, List.map_map]
  have : ((fun s : Source => s.track) ∘ fun (x : Pos × Nat) =>
      ({ pos := x.1, track := x.2, t := t, age := 0 } : Source)) = Prod.snd := by
    funext x; rfl
  rw [this]
  induction dsts generalizing labels with
  | nil => cases labels with
    | nil => rfl
    | cons _ _ => simp at hl
  | cons d ds ih =>
    cases labels with
    | nil => simp at hl
    | cons l ls =>
      simp only [List.zip_cons_cons, List.map_cons, List.cons.injEq, true_and]
      exact ih ls (by simpa using hl)

theorem mem_keptSrcs {cfg : Cfg} {st : State} {labels : List Nat} {s' : Source}
    (h : s' ∈ keptSrcs cfg st labels) :
    ∃ s ∈ st.srcs, s.track ∉ labels ∧ s.age < cfg.memory ∧
      s' = { s with age := s.age + 1 } := by
  simp only [keptSrcs, List.mem_filterMap] at h
  obtain ⟨s, hs, he⟩ := h
  split at he
  · cases he
  · rename_i hc
    split at he
    · rename_i ha
      refine ⟨s, hs, by simpa using hc, ha, ?_⟩
      cases he; rfl
    · cases he

theorem keptSrcs_tracks_sublist (cfg : Cfg) (st : State) (labels : List Nat) :
    ((keptSrcs cfg st labels).map (·.track)).Sublist (st.srcs.map (·.track)) := by
  unfold keptSrcs
  induction st.srcs with
  | nil => simp
  | cons s ss ih =>
    simp only [List.filterMap_cons, List.map_cons]
    split
    · exact List.Sublist.cons _ ih
    · rename_i s' he
      have : s'.track = s.track := by
        split at he
        · cases he
        · split at he
          · cases he; rfl
          · cases he
      simp only [List.map_cons, this]
      exact List.Sublist.cons₂ _ ih

theorem posOf_eq (t : Int) (dsts : List Pos) (labels : List Nat) (l : Nat) :
    posOf { t := t, dsts := dsts, labels := labels } l = (labels.zip dsts).lookup l := rfl

theorem mem_zip_swap {α β} {a : α} {b : β} {as : List α} {bs : List β}
    (h : (a, b) ∈ as.zip bs) : (b, a) ∈ bs.zip as := by
  induction as generalizing bs with
  | nil => simp at h
  | cons x xs ih =>
    cases bs with
    | nil => simp at h
    | cons y ys =>
      simp only [List.zip_cons_cons, List.mem_cons, Prod.mk.injEq] at h ⊢
      rcases h with ⟨rfl, rfl⟩ | h
      · exact Or.inl ⟨rfl, rfl⟩
      · exact Or.inr (ih h)

/-- One accepted step: the new level satisfies C01 relative to the history, and the invariant is
re-established for the successor state. -/
theorem step_preserves {cfg : Cfg} {st : State} {hist : List LLevel} {t : Int} {dsts : List Pos}
    {labels : List Nat} (hinv : Inv cfg st hist)
    (hv : validWhy cfg st t dsts labels = none) :
    LevelOK cfg hist { t := t, dsts := dsts, labels := labels } ∧
    Inv cfg (nextState cfg st t dsts labels) ({ t := t, dsts := dsts, labels := labels } :: hist) := by
  obtain ⟨hlen, hnd, hfresh, hlinks⟩ := validWhy_none hv
  constructor
  · -- LevelOK
    refine ⟨hlen, hnd, ?_⟩
    intro q l hql age p t0 hlast
    -- `l` must be the track of a source: otherwise it is fresh, hence unused, hence never observed
    have hsrc : l ∈ st.srcs.map (·.track) := by
      apply Classical.byContradiction
      intro hns
      have hl : l ∈ labels := (List.of_mem_zip hql).2
      have hf : l ∈ freshLabels st labels := by
        simp only [freshLabels, List.mem_filter, List.contains_eq_mem, Bool.not_eq_true',
          decide_eq_false_iff_not]
        exact ⟨hl, hns⟩
      obtain ⟨lv, hm, hlv⟩ := lastObs_some_mem hist l _ hlast
      exact hfresh l hf (hinv.used lv hm l hlv)
    simp only [List.mem_map] at hsrc
    obtain ⟨s0, hs0, hs0t⟩ := hsrc
    -- the source the monitor looked at
    simp only [linksOkB, List.all_eq_true] at hlinks
    have := hlinks (q, l) hql
    simp only at this
    cases hf : st.srcs.find? (fun s => s.track == l) with
    | none =>
      have := List.find?_eq_none.mp hf s0 hs0
      simp [hs0t] at this
    | some s =>
      rw [hf] at this
      have hsm : s ∈ st.srcs := List.mem_of_find?_eq_some hf
      have hst : s.track = l := by
        have := List.find?_some hf
        simpa using this
      obtain ⟨h1, h2⟩ := hinv.src_last s hsm
      rw [hst, hlast] at h1
      simp only [Option.some.injEq, Prod.mk.injEq] at h1
      obtain ⟨ha, hp, ht⟩ := h1
      subst ha; subst hp; subst ht
      refine ⟨h2, ?_⟩
      rw [← view_eq_viewAt]
      simpa using this
  · -- invariant
    constructor
    · -- src_last
      intro s hs
      rw [nextState_srcs] at hs
      rcases List.mem_append.mp hs with hs | hs
      · obtain ⟨hz, ht, ha⟩ := mem_lvlSrcs hs
        have hz' : (s.track, s.pos) ∈ labels.zip dsts := mem_zip_swap hz
        have := lookup_zip_of_mem_nodup labels dsts s.track s.pos hnd hz'
        simp only [lastObs, posOf_eq, this, ha, ht]
        exact ⟨trivial, Nat.zero_le _⟩
      · obtain ⟨s0, hs0, hnl, hage, rfl⟩ := mem_keptSrcs hs
        obtain ⟨h1, _⟩ := hinv.src_last s0 hs0
        have := lookup_zip_none_of_not_mem labels dsts s0.track hnl
        simp only [lastObs, posOf_eq, this, h1, Option.map_some]
        exact ⟨trivial, hage⟩
    · -- used
      intro lv hm l hl
      rw [nextState_used]
      rcases List.mem_cons.mp hm with rfl | hm
      · exact List.mem_append_left _ hl
      · exact List.mem_append_right _ (hinv.used lv hm l hl)
    · -- nodup
      rw [nextState_srcs, List.map_append, lvlSrcs_tracks t dsts labels hlen]
      rw [List.nodup_append]
      refine ⟨hnd, (keptSrcs_tracks_sublist cfg st labels).nodup hinv.nodup, ?_⟩
      intro a ha b hb hab
      subst hab
      simp only [List.mem_map] at hb
      obtain ⟨s', hs', rfl⟩ := hb
      obtain ⟨s0, _, hnl, _, rfl⟩ := mem_keptSrcs hs'
      exact hnl ha
    · -- complete
      intro l a p t0 hlast ha
      rw [nextState_srcs]
      simp only [lastObs, posOf_eq] at hlast
      cases hp : (labels.zip dsts).lookup l with
      | some p' =>
        have hl : l ∈ labels := mem_of_lookup_zip_some _ _ _ _ hp
        have : l ∈ (lvlSrcs t dsts labels).map (·.track) := by
          rw [lvlSrcs_tracks t dsts labels hlen]; exact hl
        simp only [List.mem_map] at this
        obtain ⟨s, hs, hst⟩ := this
        exact ⟨s, List.mem_append_left _ hs, hst⟩
      | none =>
        rw [hp] at hlast
        cases hl : lastObs hist l with
        | none => rw [hl] at hlast; simp at hlast
        | some y =>
          rw [hl] at hlast
          simp only [Option.map_some, Option.some.injEq, Prod.mk.injEq] at hlast
          obtain ⟨ha', hp', ht'⟩ := hlast
          obtain ⟨a0, p0, t00⟩ := y
          simp only at ha' hp' ht'
          obtain ⟨s, hs, hst⟩ := hinv.complete l a0 p0 t00 hl (by omega)
          obtain ⟨h1, _⟩ := hinv.src_last s hs
          rw [hst, hl] at h1
          simp only [Option.some.injEq, Prod.mk.injEq] at h1
          have hnl : l ∉ labels := by
            intro hmem
            have : ∃ p, (l, p) ∈ labels.zip dsts := by
              have hlen' : labels.length ≤ dsts.length := by omega
              obtain ⟨i, hi, rfl⟩ := List.mem_iff_getElem.mp hmem
              exact ⟨dsts[i]'(by omega), by
                rw [List.mem_iff_getElem]
                exact ⟨i, by simp; omega, by simp⟩⟩
            obtain ⟨p1, hp1⟩ := this
            have := lookup_zip_of_mem_nodup labels dsts l p1 hnd hp1
            rw [hp] at this; cases this
          refine ⟨{ s with age := s.age + 1 }, List.mem_append_right _ ?_, hst⟩
          simp only [keptSrcs, List.mem_filterMap]
          refine ⟨s, hs, ?_⟩
          have hc : labels.contains s.track = false := by
            rw [hst]; simpa using hnl
          have hlt : s.age < cfg.memory := by
            have := h1.1; omega
          have hnl' : s.track ∉ labels := by rw [hst]; exact hnl
          simp [hnl', hlt]

end TrackpyV.Linker
