import TrackpyV.Proofs.FindLink
import Mathlib.Tactic.Linarith
/-!
Lemma (a) of the optimality-mode acceptance of the FindLinker step model, in the form in which it
is TRUE of `merge_lost_subnets` (subnet.py:440-477):

* `dist2_triangle`  the weighted squared distance satisfies `d(p,r) ≤ 2·d(p,q) + 2·d(q,r)`, hence
  two sources that both see a feature within `search_range` are within `2·search_range`
  (`4·B` on the squared scale) of each other;
* `mergeLost_joins` after `mergeLost`, a LOST source (a source of a sub-net that had a shortage
  before merging — `lostSources`) and every source within `2·search_range` of it are in the same
  sub-net;
* `lost_feature_local`  hence a feature within `search_range` of a lost source is out of range of
  the sources of every other sub-net.

NB the merge rule only looks around LOST sources.  A relocated feature that is within range of a
NON-lost member of a merged sub-net only can be within range of another sub-net's source
(`Props/C14Opt.flAlgo_cross_witness`).
-/
namespace TrackpyV.FindLink
open TrackpyV.Linker TrackpyV.Assign

/-! ## triangle inequality on the squared scale -/

theorem sqI_cast (z : Int) : ((sqI z : Nat) : Int) = z * z := by
  unfold sqI
  exact Int.toNat_of_nonneg (mul_self_nonneg z)

theorem sqI_triangle (p q r : Int) : sqI (p - r) ≤ 2 * sqI (p - q) + 2 * sqI (q - r) := by
  have h : ((sqI (p - r) : Nat) : Int) ≤ ((2 * sqI (p - q) + 2 * sqI (q - r) : Nat) : Int) := by
    push_cast
    rw [sqI_cast, sqI_cast, sqI_cast]
    nlinarith [mul_self_nonneg ((p - q) - (q - r))]
  exact_mod_cast h

/-- `d(p,r) ≤ 2·d(p,q) + 2·d(q,r)` when the middle point has a coordinate on every weighted axis -/
theorem dist2_triangle : ∀ (w : List Nat) (p q r : Pos), w.length ≤ q.length →
    dist2 w p r ≤ 2 * dist2 w p q + 2 * dist2 w q r
  | [], _, _, _, _ => by simp [dist2]
  | _ :: _, [], _, _, _ => by simp [dist2]
  | _ :: _, _ :: _, _, [], _ => by simp [dist2]
  | _ :: _, _ :: _, [], _ :: _, h => by simp at h
  | w :: ws, p :: ps, q :: qs, r :: rs, h => by
    have ih := dist2_triangle ws ps qs rs (by simpa using h)
    have h1 := Nat.mul_le_mul_left w (sqI_triangle p q r)
    simp only [dist2]
    rw [Nat.mul_add, Nat.mul_left_comm w 2, Nat.mul_left_comm w 2] at h1
    omega

/-- two sources that both see `q` within range are within twice the range of each other -/
theorem near_of_common (w : List Nat) (B : Nat) (p q r : Pos) (hq : w.length ≤ q.length)
    (h1 : dist2 w p q ≤ B) (h2 : dist2 w r q ≤ B) : dist2 w p r ≤ 4 * B := by
  have := dist2_triangle w p q r hq
  rw [dist2_comm w q r] at this
  omega

/-! ## what `mergeInto` does to the partition -/

/-- sources `a` and `b` are in one sub-net -/
def SameG (gs : List Group) (a b : Nat) : Prop := ∃ g ∈ gs, a ∈ g.1 ∧ b ∈ g.1

/-- every sub-net of `gs` lies (sources) inside a sub-net of `gs'` -/
def Coarser (gs gs' : List Group) : Prop := ∀ g ∈ gs, ∃ g' ∈ gs', ∀ i ∈ g.1, i ∈ g'.1

theorem Coarser.refl (gs : List Group) : Coarser gs gs := fun g hg => ⟨g, hg, fun _ h => h⟩

theorem Coarser.trans {a b c : List Group} (h1 : Coarser a b) (h2 : Coarser b c) : Coarser a c := by
  intro g hg
  obtain ⟨g', hg', h'⟩ := h1 g hg
  obtain ⟨g'', hg'', h''⟩ := h2 g' hg'
  exact ⟨g'', hg'', fun i hi => h'' i (h' i hi)⟩

theorem SameG.mono {gs gs' : List Group} (h : Coarser gs gs') {a b : Nat} (hs : SameG gs a b) :
    SameG gs' a b := by
  obtain ⟨g, hg, ha, hb⟩ := hs
  obtain ⟨g', hg', h'⟩ := h g hg
  exact ⟨g', hg', h' a ha, h' b hb⟩

/-- all sub-nets satisfying `p` end up in ONE sub-net -/
theorem mergeInto_joins (p : Group → Bool) : ∀ gs : List Group, (∃ h ∈ gs, p h = true) →
    ∃ g' ∈ mergeInto p gs, ∀ h ∈ gs, p h = true → ∀ i ∈ h.1, i ∈ g'.1
  | [], hex => by obtain ⟨h, hh, _⟩ := hex; cases hh
  | g :: gs, hex => by
    unfold mergeInto
    by_cases hp : p g = true
    · simp only [hp, if_true]
      refine ⟨_, List.mem_cons_self .., ?_⟩
      intro h hh hph i hi
      simp only [List.mem_append, List.mem_flatMap]
      rcases List.mem_cons.mp hh with rfl | hh
      · exact Or.inl hi
      · exact Or.inr ⟨h, List.mem_filter.mpr ⟨hh, hph⟩, hi⟩
    · simp only [hp, Bool.false_eq_true, if_false]
      have hex' : ∃ h ∈ gs, p h = true := by
        obtain ⟨h, hh, hph⟩ := hex
        rcases List.mem_cons.mp hh with rfl | hh
        · exact absurd hph hp
        · exact ⟨h, hh, hph⟩
      obtain ⟨g', hg', hall⟩ := mergeInto_joins p gs hex'
      refine ⟨g', List.mem_cons_of_mem _ hg', ?_⟩
      intro h hh hph
      rcases List.mem_cons.mp hh with rfl | hh
      · exact absurd hph hp
      · exact hall h hh hph

/-- merging only coarsens the partition -/
theorem mergeInto_coarser (p : Group → Bool) : ∀ gs : List Group, Coarser gs (mergeInto p gs)
  | [] => by intro g hg; cases hg
  | g0 :: gs => by
    intro g hg
    by_cases hpg : p g = true
    · obtain ⟨g', hg', hall⟩ := mergeInto_joins p (g0 :: gs) ⟨g, hg, hpg⟩
      exact ⟨g', hg', hall g hg hpg⟩
    · unfold mergeInto
      by_cases hp : p g0 = true
      · simp only [hp, if_true]
        rcases List.mem_cons.mp hg with rfl | hg
        · exact absurd hp hpg
        · refine ⟨g, List.mem_cons_of_mem _ (List.mem_filter.mpr ⟨hg, ?_⟩), fun _ h => h⟩
          simpa using hpg
      · simp only [hp, Bool.false_eq_true, if_false]
        rcases List.mem_cons.mp hg with rfl | hg
        · exact ⟨g, List.mem_cons_self .., fun _ h => h⟩
        · obtain ⟨g', hg', h'⟩ := mergeInto_coarser p gs g hg
          exact ⟨g', List.mem_cons_of_mem _ hg', h'⟩

/-- subnet.py:467-477: after merging the sub-nets of `a` and `b`, they are in one sub-net -/
theorem mergeInto_touches (a b : Nat) (gs : List Group) (ha : SameG gs a a) (hb : SameG gs b b) :
    SameG (mergeInto (touches a b) gs) a b := by
  obtain ⟨ga, hga, haa, _⟩ := ha
  obtain ⟨gb, hgb, hbb, _⟩ := hb
  have hta : touches a b ga = true := by simp [touches, haa]
  have htb : touches a b gb = true := by simp [touches, hbb]
  obtain ⟨g', hg', hall⟩ := mergeInto_joins (touches a b) gs ⟨ga, hga, hta⟩
  exact ⟨g', hg', hall ga hga hta a haa, hall gb hgb htb b hbb⟩

/-! ## the two folds of `mergeLost` -/

theorem foldl_coarser {β} (f : List Group → β → List Group) (hf : ∀ gs x, Coarser gs (f gs x)) :
    ∀ (l : List β) (gs : List Group), Coarser gs (l.foldl f gs)
  | [], gs => Coarser.refl gs
  | x :: l, gs => (hf gs x).trans (foldl_coarser f hf l (f gs x))

/-- a fold of coarsening steps: what step `x` establishes from a property `Q` that coarsening
keeps survives to the end as a property `R` that coarsening keeps -/
theorem foldl_establishes {β} (f : List Group → β → List Group)
    (hf : ∀ gs x, Coarser gs (f gs x)) (Q R : List Group → Prop)
    (hQ : ∀ gs gs', Coarser gs gs' → Q gs → Q gs') (hR : ∀ gs gs', Coarser gs gs' → R gs → R gs')
    (x : β) (hstep : ∀ gs, Q gs → R (f gs x)) (l : List β) (hx : x ∈ l) (gs : List Group)
    (h0 : Q gs) : R (l.foldl f gs) := by
  obtain ⟨l1, l2, rfl⟩ := List.append_of_mem hx
  rw [List.foldl_append, List.foldl_cons]
  apply hR _ _ (foldl_coarser f hf l2 _)
  apply hstep
  exact hQ _ _ (foldl_coarser f hf l1 gs) h0

/-- subnet.py:454-477: everything within `2·search_range` of the lost source `a` joins its sub-net -/
theorem mergeLost_joins (cfg : Cfg) (st : State) (t : Int) (gs : List Group) (a b : Nat)
    (ha : a ∈ lostSources gs) (hb : b ∈ near2 cfg st t a) (hcb : SameG gs b b) :
    SameG (mergeLost cfg st t gs) a b := by
  have hca : SameG gs a a := by
    simp only [lostSources, List.mem_flatMap, List.mem_filter] at ha
    obtain ⟨g, ⟨hg, _⟩, hag⟩ := ha
    exact ⟨g, hg, hag, hag⟩
  unfold mergeLost
  have hinner : ∀ (a' : Nat) (gs : List Group),
      Coarser gs ((near2 cfg st t a').foldl (fun gs b => mergeInto (touches a' b) gs) gs) :=
    fun a' gs => foldl_coarser _ (fun gs b => mergeInto_coarser _ gs) _ gs
  refine foldl_establishes
    (fun gs a => (near2 cfg st t a).foldl (fun gs b => mergeInto (touches a b) gs) gs)
    (fun gs a' => hinner a' gs) (fun gs => SameG gs a a ∧ SameG gs b b) (fun gs => SameG gs a b)
    (fun gs gs' hc h => ⟨h.1.mono hc, h.2.mono hc⟩) (fun gs gs' hc h => h.mono hc) a ?_
    (lostSources gs) ha gs ⟨hca, hcb⟩
  intro gs' hq
  exact foldl_establishes (fun gs b => mergeInto (touches a b) gs)
    (fun gs b => mergeInto_coarser _ gs) (fun gs => SameG gs a a ∧ SameG gs b b)
    (fun gs => SameG gs a b) (fun gs gs' hc h => ⟨h.1.mono hc, h.2.mono hc⟩)
    (fun gs gs' hc h => h.mono hc) b (fun gs h => mergeInto_touches a b gs h.1 h.2)
    (near2 cfg st t a) hb gs' hq

theorem mergeLost_coarser (cfg : Cfg) (st : State) (t : Int) (gs : List Group) :
    Coarser gs (mergeLost cfg st t gs) := by
  unfold mergeLost
  exact foldl_coarser _ (fun gs a => foldl_coarser _ (fun gs b => mergeInto_coarser _ gs) _ gs) _ gs

end TrackpyV.FindLink
