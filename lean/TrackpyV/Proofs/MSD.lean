import TrackpyV.Model.MSD
import Mathlib.Tactic.Ring
import Mathlib.Tactic.Linarith
import Mathlib.Tactic.FieldSimp
/-!
Helper lemmas for the MSD model (C17): sums over lists of rationals, the re-indexing identity that
ties the all-pairs specification to the index-shifted arrays the code works on, and the algebra of
the FFT path (`Σ (r_{i+m} - r_i)² = S1[m] - 2·S2[m]`).
-/
namespace TrackpyV.MSD

/-! ## sums over lists of rationals -/

theorem sum_app (a b : List Rat) : (a ++ b).sum = a.sum + b.sum := by
  induction a with
  | nil => simp
  | cons x xs ih => simp [ih, add_assoc]

theorem sum_perm {l l' : List Rat} (h : l.Perm l') : l.sum = l'.sum := by
  induction h with
  | nil => rfl
  | cons x _ ih => simp [ih]
  | swap x y l => simp only [List.sum_cons]; ring
  | trans _ _ ih1 ih2 => exact ih1.trans ih2

theorem sum_rev (l : List Rat) : l.reverse.sum = l.sum := sum_perm (List.reverse_perm l)

theorem sum_map_one {α} (l : List α) : (l.map fun _ => (1 : Rat)).sum = (l.length : Rat) := by
  induction l with
  | nil => simp
  | cons x xs ih => simp only [List.map_cons, List.sum_cons, ih, List.length_cons]; push_cast; ring

theorem sum_map_zero {α} (l : List α) (T : α → Rat) (h : ∀ x ∈ l, T x = 0) : (l.map T).sum = 0 := by
  induction l with
  | nil => simp
  | cons x xs ih =>
    simp only [List.map_cons, List.sum_cons]
    rw [h x (List.mem_cons_self ..), ih (fun y hy => h y (List.mem_cons_of_mem _ hy))]; simp

theorem sum_flatMap {α} (l : List α) (f : α → List Rat) :
    (l.flatMap f).sum = (l.map fun a => (f a).sum).sum := by
  induction l with
  | nil => simp
  | cons x xs ih => simp [List.flatMap_cons, ih]

theorem meanOpt_congr {l l' : List Rat} (hl : l.length = l'.length) (hs : l.sum = l'.sum) :
    meanOpt l = meanOpt l' := by
  simp [meanOpt, hl, hs]

/-- `0` for NaN, `f x` otherwise -/
def oz (o : Option Rat) (f : Rat → Rat) : Rat :=
  match o with
  | some x => f x
  | none => 0

@[simp] theorem oz_none (f : Rat → Rat) : oz none f = 0 := rfl
@[simp] theorem oz_some (x : Rat) (f : Rat → Rat) : oz (some x) f = f x := rfl

/-! ## look-ups in a trajectory with one row per frame -/

theorem look_nil (f : Int) : look [] f = none := rfl

theorem look_cons (a : Row) (l : List Row) (f : Int) :
    look (a :: l) f = if a.1 = f then some a.2 else look l f := by
  unfold look
  by_cases h : a.1 = f
  · simp [h]
  · simp [h]

theorem look_none_of_not_mem (l : List Row) (f : Int) (h : f ∉ l.map (·.1)) : look l f = none := by
  induction l with
  | nil => rfl
  | cons a l ih =>
    simp only [List.map_cons, List.mem_cons, not_or] at h
    rw [look_cons, if_neg (fun e => h.1 e.symm)]
    exact ih h.2

/-- with one row per frame, summing over the rows at frame `f` is a look-up -/
theorem sum_filter_frame (l : List Row) (f : Int) (G : Rat → Rat) (hnd : (l.map (·.1)).Nodup) :
    ((l.filter fun b => b.1 == f).map fun b => G b.2).sum = oz (look l f) G := by
  induction l with
  | nil => simp [look_nil]
  | cons a l ih =>
    simp only [List.map_cons, List.nodup_cons] at hnd
    rw [look_cons]
    by_cases h : a.1 = f
    · have hn : look l f = none := look_none_of_not_mem l f (h ▸ hnd.1)
      have := ih hnd.2
      rw [hn] at this
      simp [h, this]
    · simp [h, ih hnd.2]

/-! ## sums over `range n` -/

theorem sum_range_indicator (n k0 : Nat) (c : Rat) (T : Nat → Rat) (hk : k0 < n) (hT : T k0 = 0) :
    ((List.range n).map fun k => if k = k0 then c else T k).sum = c + ((List.range n).map T).sum := by
  induction n with
  | zero => omega
  | succ n ih =>
    rw [List.range_succ, List.map_append, List.map_append, sum_app, sum_app]
    by_cases h : k0 = n
    · subst h
      have : (List.range k0).map (fun k => if k = k0 then c else T k) = (List.range k0).map T := by
        apply List.map_congr_left
        intro k hk'
        have : k ≠ k0 := by have := List.mem_range.mp hk'; omega
        simp [this]
      rw [this]; simp only [List.map_cons, List.map_nil, List.sum_cons, List.sum_nil, if_true, hT]; ring
    · have hk' : k0 < n := by omega
      rw [ih hk']
      have : n ≠ k0 := fun e => h e.symm
      simp [this]; ring

theorem sum_range_tail_zero (m n : Nat) (H : Nat → Rat) (hmn : m ≤ n)
    (hz : ∀ k, m ≤ k → k < n → H k = 0) :
    ((List.range n).map H).sum = ((List.range m).map H).sum := by
  induction n with
  | zero => have : m = 0 := by omega
            subst this; rfl
  | succ n ih =>
    by_cases h : m = n + 1
    · subst h; rfl
    · have hmn' : m ≤ n := by omega
      rw [List.range_succ, List.map_append, sum_app, ih hmn' (fun k h1 h2 => hz k h1 (by omega))]
      simp [hz n hmn' (by omega)]

/-- re-indexing: a sum over the rows equals the sum over the frame range of the looked-up rows -/
theorem sum_reindex (l : List Row) (f0 : Int) (n : Nat) (φ : Int → Rat → Rat)
    (hnd : (l.map (·.1)).Nodup) (hr : ∀ a ∈ l, f0 ≤ a.1 ∧ a.1 < f0 + (n : Int)) :
    (l.map fun a => φ a.1 a.2).sum
      = ((List.range n).map fun (k : Nat) => oz (look l (f0 + (k : Int))) (φ (f0 + (k : Int)))).sum := by
  induction l with
  | nil => simp [look_nil]
  | cons a l ih =>
    simp only [List.map_cons, List.nodup_cons] at hnd
    have hra := hr a (List.mem_cons_self ..)
    have ih' := ih hnd.2 (fun x hx => hr x (List.mem_cons_of_mem _ hx))
    simp only [List.map_cons, List.sum_cons, ih']
    let k0 := (a.1 - f0).toNat
    have hk0 : f0 + (k0 : Int) = a.1 := by simp only [k0]; omega
    have hlt : k0 < n := by omega
    have hT : oz (look l (f0 + (k0 : Int))) (φ (f0 + (k0 : Int))) = 0 := by
      rw [hk0, look_none_of_not_mem l a.1 hnd.1]; rfl
    rw [← sum_range_indicator n k0 (φ a.1 a.2) _ hlt hT]
    apply congrArg
    apply List.map_congr_left
    intro k _
    rw [look_cons]
    by_cases h : k = k0
    · subst h; simp [hk0]
    · have : a.1 ≠ f0 + (k : Int) := by omega
      simp [this, h]

/-! ## the gaps path: index-shifted arrays versus all pairs -/

/-- term of the index-shifted sum at frame `f`: `G (x_{f+lt} - x_f)` when both frames are observed -/
def termAt (rows : List Row) (G : Rat → Rat) (lt : Nat) (f : Int) : Rat :=
  oz (look rows f) fun x => oz (look rows (f + (lt : Int))) fun y => G (y - x)

theorem zipWith_shift (g : Nat → Option Rat) (n lt : Nat) :
    List.zipWith optSub (((List.range n).map g).drop lt) ((List.range n).map g)
      = (List.range (n - lt)).map fun k => optSub (g (k + lt)) (g k) := by
  apply List.ext_getElem
  · simp
  · intro i h1 h2
    simp [Nat.add_comm]

theorem sum_filterMap_id (l : List (Option Rat)) (G : Rat → Rat) :
    ((l.filterMap id).map G).sum = (l.map fun o => oz o G).sum := by
  induction l with
  | nil => rfl
  | cons o l ih =>
    have ih' : (List.map G (List.filterMap (fun x => x) l)).sum = (List.map (fun o => oz o G) l).sum := ih
    cases o <;> simp [ih']

theorem oz_optSub (a b : Option Rat) (G : Rat → Rat) :
    oz (optSub b a) G = oz a fun x => oz b fun y => G (y - x) := by
  cases a <;> cases b <;> rfl

theorem gapVals_sum (rows : List Row) (f0 : Int) (n lt : Nat) (G : Rat → Rat) :
    ((gapVals (reindex rows f0 n) lt).map G).sum
      = ((List.range (n - lt)).map fun (k : Nat) => termAt rows G lt (f0 + (k : Int))).sum := by
  unfold gapVals reindex
  rw [zipWith_shift, sum_filterMap_id, List.map_map]
  apply congrArg
  apply List.map_congr_left
  intro k _
  simp only [Function.comp, oz_optSub, termAt]
  have : f0 + ((k + lt : Nat) : Int) = f0 + (k : Int) + (lt : Int) := by push_cast; ring
  rw [this]

theorem diffs_sum (rows : List Row) (lt : Nat) (G : Rat → Rat) (f0 : Int) (n : Nat)
    (hnd : (rows.map (·.1)).Nodup) (hr : ∀ a ∈ rows, f0 ≤ a.1 ∧ a.1 < f0 + (n : Int)) :
    ((diffs rows lt).map G).sum
      = ((List.range n).map fun (k : Nat) => termAt rows G lt (f0 + (k : Int))).sum := by
  unfold diffs
  rw [List.map_flatMap, sum_flatMap]
  have key : ∀ a ∈ rows,
      (((rows.filter fun b => b.1 - a.1 == (lt : Int)).map fun b => b.2 - a.2).map G).sum
        = oz (look rows (a.1 + (lt : Int))) fun y => G (y - a.2) := by
    intro a _
    rw [List.map_map]
    have hf : (rows.filter fun b => b.1 - a.1 == (lt : Int))
        = rows.filter fun b => b.1 == a.1 + (lt : Int) := by
      apply List.filter_congr
      intro b _
      by_cases h : b.1 = a.1 + (lt : Int)
      · simp [h]
      · have : ¬ (b.1 - a.1 = (lt : Int)) := by omega
        simp [h, this]
    rw [hf]
    exact sum_filter_frame rows (a.1 + (lt : Int)) (fun y => G (y - a.2)) hnd
  rw [List.map_congr_left key]
  exact sum_reindex rows f0 n (fun f x => oz (look rows (f + (lt : Int))) fun y => G (y - x)) hnd hr

/-- KEY IDENTITY.  For a trajectory with one row per frame whose frames lie in `[f0, f0+n)`, any
statistic `Σ G(·)` of the non-NaN entries of `pos[lt:] - pos[:-lt]` (pos = the re-indexed column)
equals the same statistic over the displacements of ALL pairs of observations `lt` frames apart. -/
theorem gaps_sum_eq (rows : List Row) (lt : Nat) (G : Rat → Rat) (f0 : Int) (n : Nat)
    (hnd : (rows.map (·.1)).Nodup) (hr : ∀ a ∈ rows, f0 ≤ a.1 ∧ a.1 < f0 + (n : Int)) :
    ((gapVals (reindex rows f0 n) lt).map G).sum = ((diffs rows lt).map G).sum := by
  rw [gapVals_sum, diffs_sum rows lt G f0 n hnd hr]
  symm
  apply sum_range_tail_zero (n - lt) n _ (by omega)
  intro k h1 h2
  have hnone : look rows (f0 + (k : Int) + (lt : Int)) = none := by
    apply look_none_of_not_mem
    intro hm
    obtain ⟨a, ha, he⟩ := List.mem_map.mp hm
    have := (hr a ha).2
    omega
  unfold termAt
  rw [hnone]
  cases look rows (f0 + (k : Int)) <;> rfl

theorem length_eq_of_sums {l l' : List Rat}
    (h : (l.map fun _ => (1 : Rat)).sum = (l'.map fun _ => (1 : Rat)).sum) : l.length = l'.length := by
  rw [sum_map_one, sum_map_one] at h
  exact_mod_cast h

/-- the gaps path computes the all-pairs definition, NaN exactly where no pair exists -/
theorem gapsRow_eq_def (rows : List Row) (lt : Nat) (f0 : Int) (n : Nat)
    (hnd : (rows.map (·.1)).Nodup) (hr : ∀ a ∈ rows, f0 ≤ a.1 ∧ a.1 < f0 + (n : Int)) :
    gapsRow (reindex rows f0 n) lt = (dispDef rows lt, sqDef rows lt) := by
  have hlen := length_eq_of_sums (gaps_sum_eq rows lt (fun _ => 1) f0 n hnd hr)
  have h1 := gaps_sum_eq rows lt id f0 n hnd hr
  have h2 := gaps_sum_eq rows lt sq f0 n hnd hr
  simp only [List.map_id] at h1
  unfold gapsRow dispDef sqDef
  rw [meanOpt_congr hlen h1, meanOpt_congr (by simpa using hlen) h2]

/-! ## the FFT path -/

theorem zipWith_sub_sum : ∀ (A B : List Rat), A.length = B.length →
    (List.zipWith (· - ·) A B).sum = A.sum - B.sum
  | [], [], _ => by simp
  | [], _ :: _, h => by simp at h
  | _ :: _, [], h => by simp at h
  | a :: A, b :: B, h => by
    have := zipWith_sub_sum A B (by simpa using h)
    simp only [List.zipWith_cons_cons, List.sum_cons, this]; ring

theorem zipWith_add_sum : ∀ (A B : List Rat), A.length = B.length →
    (List.zipWith (· + ·) A B).sum = A.sum + B.sum
  | [], [], _ => by simp
  | [], _ :: _, h => by simp at h
  | _ :: _, [], h => by simp at h
  | a :: A, b :: B, h => by
    have := zipWith_add_sum A B (by simpa using h)
    simp only [List.zipWith_cons_cons, List.sum_cons, this]; ring

theorem zipWith_trunc_right {α β γ} (f : α → β → γ) : ∀ (A : List α) (B : List β),
    List.zipWith f A B = List.zipWith f A (B.take A.length)
  | [], _ => by simp
  | _ :: _, [] => by simp
  | a :: A, b :: B => by simp [zipWith_trunc_right f A B]

theorem zipWith_trunc_left {α β γ} (f : α → β → γ) : ∀ (A : List α) (B : List β),
    List.zipWith f A B = List.zipWith f (A.take B.length) B
  | [], _ => by simp
  | _ :: _, [] => by simp
  | a :: A, b :: B => by simp [zipWith_trunc_left f A B]

theorem sum_take_drop (l : List Rat) (k : Nat) : (l.take k).sum + (l.drop k).sum = l.sum := by
  rw [← sum_app, List.take_append_drop]

theorem sum_reverse_take (l : List Rat) (k : Nat) :
    (l.reverse.take k).sum = (l.drop (l.length - k)).sum := by
  rw [List.take_reverse, sum_rev]

theorem sq_expand : ∀ (A B : List Rat), A.length = B.length →
    ((List.zipWith (· - ·) A B).map sq).sum
      = (A.map sq).sum + (B.map sq).sum - 2 * (List.zipWith (· * ·) B A).sum
  | [], [], _ => by simp
  | [], _ :: _, h => by simp at h
  | _ :: _, [], h => by simp at h
  | a :: A, b :: B, h => by
    have := sq_expand A B (by simpa using h)
    simp only [List.zipWith_cons_cons, List.map_cons, List.sum_cons, this, sq]; ring

/-- the displacements the contiguous path averages at lag `m`: `r[m:] - r[:-m]` -/
def shiftDiffs (r : List Rat) (m : Nat) : List Rat := List.zipWith (· - ·) (r.drop m) r

theorem shiftDiffs_length (r : List Rat) (m : Nat) : (shiftDiffs r m).length = r.length - m := by
  simp [shiftDiffs]

/-- ALGEBRAIC HEART of the FFT path: with `S2[m]` the autocorrelation the FFT is trusted to compute,
`cumsum(r_diff)[m-1]` is `Σ_i (r_{i+m} - r_i)` and `S1[m] - 2·S2[m]` is `Σ_i (r_{i+m} - r_i)²`. -/
theorem fft_sums (r : List Rat) (L m : Nat) (hmL : m ≤ L) (hL : L ≤ r.length) :
    prefixSum (List.zipWith (· - ·) (r.reverse.take L) (r.take L)) m = (shiftDiffs r m).sum ∧
    2 * (r.map sq).sum
        - prefixSum (List.zipWith (· + ·) ((r.map sq).take L) ((r.map sq).reverse.take L)) m
        - 2 * autocorr r m
      = ((shiftDiffs r m).map sq).sum := by
  have hm : m ≤ r.length := Nat.le_trans hmL hL
  have hmin : min m L = m := Nat.min_eq_left hmL
  -- the two sides of `shiftDiffs` have equal length after truncation
  have hsd : shiftDiffs r m = List.zipWith (· - ·) (r.drop m) (r.take (r.length - m)) := by
    unfold shiftDiffs
    rw [zipWith_trunc_right]; simp
  have hlen : (r.drop m).length = (r.take (r.length - m)).length := by simp
  constructor
  · unfold prefixSum
    rw [List.take_zipWith, List.take_take, List.take_take, hmin,
      zipWith_sub_sum _ _ (by simp [hm]), sum_reverse_take, hsd, zipWith_sub_sum _ _ hlen]
    have h1 := sum_take_drop r m
    have h2 := sum_take_drop r (r.length - m)
    linarith
  · unfold prefixSum autocorr
    rw [List.take_zipWith, List.take_take, List.take_take, hmin,
      zipWith_add_sum _ _ (by simp [hm]), sum_reverse_take, hsd, sq_expand _ _ hlen,
      List.map_drop, List.map_take]
    have h1 := sum_take_drop (r.map sq) m
    have h2 := sum_take_drop (r.map sq) ((r.map sq).length - m)
    have h3 : List.zipWith (· * ·) r (r.drop m)
        = List.zipWith (· * ·) (r.take (r.length - m)) (r.drop m) := by
      rw [zipWith_trunc_left]; simp
    rw [h3]
    simp only [List.length_map] at h2 ⊢
    linarith

/-- `_msd_fft` row `m` is the mean / mean square of `r[m:] - r[:-m]` -/
theorem fftRow_eq (r : List Rat) (L m : Nat) (hmL : m ≤ L) (hL : L < r.length) :
    (some (fftRow r L m).1, some (fftRow r L m).2)
      = (meanOpt (shiftDiffs r m), meanOpt ((shiftDiffs r m).map sq)) := by
  obtain ⟨h1, h2⟩ := fft_sums r L m hmL (Nat.le_of_lt hL)
  have hlen : (shiftDiffs r m).length = r.length - m := shiftDiffs_length r m
  have hpos : r.length - m ≠ 0 := by omega
  have hcast : ((r.length - m : Nat) : Rat) = (r.length : Rat) - (m : Rat) := by
    rw [Nat.cast_sub (by omega)]
  unfold fftRow meanOpt
  simp only [List.length_map, hlen, hpos, if_false, h1, ← h2, hcast]

/-! ## contiguous trajectories: the FFT path sees the re-indexed column -/

theorem zipWith_optSub_some : ∀ (A B : List Rat),
    List.zipWith optSub (A.map some) (B.map some) = (List.zipWith (· - ·) A B).map some
  | [], _ => by simp
  | _ :: _, [] => by simp
  | a :: A, b :: B => by
    have ih := zipWith_optSub_some A B
    simp only [List.map_cons, List.zipWith_cons_cons, ih, optSub]

theorem filterMap_id_map_some (l : List Rat) : (l.map some).filterMap id = l := by
  induction l with
  | nil => rfl
  | cons x xs ih =>
    simp only [List.map_cons, List.filterMap_cons, id]
    exact congrArg _ ih

theorem gapVals_map_some_aux (A B : List Rat) :
    (List.zipWith optSub (A.map some) (B.map some)).filterMap id = List.zipWith (· - ·) A B := by
  rw [zipWith_optSub_some, filterMap_id_map_some]

theorem gapVals_map_some (r : List Rat) (m : Nat) : gapVals (r.map some) m = shiftDiffs r m := by
  unfold gapVals shiftDiffs
  rw [← List.map_drop, gapVals_map_some_aux]

/-- frames `f, f+1, f+2, …` -/
def contigFrom : Int → List Int → Prop
  | _, [] => True
  | f, a :: l => a = f ∧ contigFrom (f + 1) l

def lastD : Int → List Int → Int
  | a, [] => a
  | _, b :: l => lastD b l

theorem getLast?_eq_lastD : ∀ (l : List Int) (a : Int), (a :: l).getLast? = some (lastD a l)
  | [], a => by simp [lastD]
  | b :: l, a => by rw [List.getLast?_cons_cons, getLast?_eq_lastD l b]; rfl

theorem span_ge : ∀ (l : List Int) (a : Int), (a :: l).Pairwise (· < ·) →
    lastD a l - a ≥ (l.length : Int)
  | [], a, _ => by simp [lastD]
  | b :: l, a, h => by
    rw [List.pairwise_cons] at h
    have hab : a < b := h.1 b (List.mem_cons_self ..)
    have := span_ge l b h.2
    simp only [lastD, List.length_cons]
    push_cast
    omega

/-- strictly increasing integer frames whose span is `length - 1` are consecutive -/
theorem contig_of_span : ∀ (l : List Int) (a : Int), (a :: l).Pairwise (· < ·) →
    lastD a l - a = (l.length : Int) → contigFrom a (a :: l)
  | [], a, _, _ => ⟨rfl, trivial⟩
  | b :: l, a, h, hs => by
    rw [List.pairwise_cons] at h
    have hab : a < b := h.1 b (List.mem_cons_self ..)
    have hge := span_ge l b h.2
    simp only [lastD, List.length_cons] at hs
    push_cast at hs
    have hb : b = a + 1 := by omega
    have := contig_of_span l b h.2 (by omega)
    exact ⟨rfl, hb ▸ this⟩

theorem reindex_contig : ∀ (rows : List Row) (f0 : Int), contigFrom f0 (rows.map (·.1)) →
    reindex rows f0 rows.length = rows.map fun r => some r.2
  | [], _, _ => by simp [reindex]
  | a :: l, f0, h => by
    simp only [List.map_cons, contigFrom] at h
    have ih := reindex_contig l (f0 + 1) h.2
    unfold reindex at ih ⊢
    rw [List.length_cons, List.range_succ_eq_map, List.map_cons, List.map_map, List.map_cons]
    congr 1
    · rw [look_cons]; simp [h.1]
    · rw [← ih]
      apply List.map_congr_left
      intro k _
      simp only [Function.comp]
      rw [look_cons]
      have : a.1 ≠ f0 + ((k + 1 : Nat) : Int) := by rw [h.1]; push_cast; omega
      rw [if_neg this]
      congr 1
      push_cast; ring

/-! ## permutation invariance of the specification -/

theorem flatMap_perm_left {α β} (l : List α) {f g : α → List β} (h : ∀ a ∈ l, (f a).Perm (g a)) :
    (l.flatMap f).Perm (l.flatMap g) := by
  induction l with
  | nil => simp
  | cons a l ih =>
    simp only [List.flatMap_cons]
    exact (h a (List.mem_cons_self ..)).append (ih fun x hx => h x (List.mem_cons_of_mem _ hx))

theorem diffs_perm {rows rows' : List Row} (h : rows.Perm rows') (lag : Nat) :
    (diffs rows lag).Perm (diffs rows' lag) := by
  unfold diffs
  refine (List.Perm.flatMap_right _ h).trans (flatMap_perm_left _ ?_)
  intro a _
  exact (h.filter _).map _

theorem dispDef_perm {rows rows' : List Row} (h : rows.Perm rows') (lag : Nat) :
    dispDef rows lag = dispDef rows' lag :=
  meanOpt_congr (diffs_perm h lag).length_eq (sum_perm (diffs_perm h lag))

theorem sqDef_perm {rows rows' : List Row} (h : rows.Perm rows') (lag : Nat) :
    sqDef rows lag = sqDef rows' lag :=
  meanOpt_congr ((diffs_perm h lag).map sq).length_eq (sum_perm ((diffs_perm h lag).map sq))

/-! ## the sort -/

theorem sortRows_perm (rows : List FullRow) : (sortRows rows).Perm rows :=
  List.mergeSort_perm _ _

theorem sortRows_sorted (rows : List FullRow) :
    (sortRows rows).Pairwise fun a b => a.1 ≤ b.1 := by
  have := List.pairwise_mergeSort (le := fun a b : FullRow => decide (a.1 ≤ b.1))
    (by intro a b c; simp only [decide_eq_true_eq]; omega)
    (by intro a b; simp only [Bool.or_eq_true, decide_eq_true_eq]; omega) rows
  exact this.imp (by intro a b h; simpa using h)

theorem sumOpt_map_some (l : List Rat) : sumOpt (l.map some) = some l.sum := by
  induction l with
  | nil => rfl
  | cons x xs ih => simp [sumOpt, ih]

end TrackpyV.MSD
