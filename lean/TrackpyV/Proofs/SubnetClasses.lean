import TrackpyV.Proofs.Algo
/-!
Two more facts about the sub-nets computed by `Linker.subnets` (the connected components of the
candidate graph):

* `stepGroups_cover`  every source that has a real candidate lies in a sub-net;
* `stepGroups_classes`  the sub-nets REFINE every equivalence-like relation `E` on sources that
  contains "share a candidate destination": any two sources having a candidate in one sub-net are
  `E`-related.  (Used with `E` = "in the same MERGED sub-net of the FindLinker step".)
-/
namespace TrackpyV.Linker
open TrackpyV.Assign

theorem eq_of_mem_flatMap_nodup' {α β} (l : List α) (g : α → List β) (h : (l.flatMap g).Nodup)
    (x y : α) (hx : x ∈ l) (hy : y ∈ l) (b : β) (hbx : b ∈ g x) (hby : b ∈ g y) : x = y := by
  induction l with
  | nil => cases hx
  | cons z zs ih =>
    simp only [List.flatMap_cons, List.nodup_append] at h
    rcases List.mem_cons.mp hx with rfl | hx' <;> rcases List.mem_cons.mp hy with rfl | hy'
    · rfl
    · exact absurd rfl (h.2.2 b hbx b (List.mem_flatMap.mpr ⟨y, hy', hby⟩))
    · exact absurd rfl (h.2.2 b hby b (List.mem_flatMap.mpr ⟨x, hx', hbx⟩))
    · exact ih h.2.1 hx' hy'

/-! ### every source with a candidate is in a sub-net -/

def SrcCover (dsOf : Nat → List Nat) (k : Nat) (gs : List Group) : Prop :=
  ∀ i < k, dsOf i ≠ [] → i ∈ gs.flatMap (·.1)

theorem addSource_cover (dsOf : Nat → List Nat) (k : Nat) (gs : List Group)
    (h : SrcCover dsOf k gs) : SrcCover dsOf (k + 1) (addSource k (dsOf k) gs) := by
  unfold addSource
  by_cases he : (dsOf k).isEmpty = true
  · simp only [he, if_true]
    intro i hi hne
    rcases Nat.lt_succ_iff_lt_or_eq.mp hi with hi | rfl
    · exact h i hi hne
    · exact absurd (List.isEmpty_iff.mp he) hne
  · simp only [he, Bool.false_eq_true, if_false]
    have hperm := filter_flatMap_fst_perm gs (hasDest (dsOf k))
    intro i hi hne
    simp only [List.flatMap_cons, List.cons_append, List.mem_cons]
    rcases Nat.lt_succ_iff_lt_or_eq.mp hi with hi | rfl
    · right
      exact (hperm.mem_iff).mpr (h i hi hne)
    · exact Or.inl rfl

theorem foldl_srcCover (dsOf : Nat → List Nat) (l : List (List Cand)) (k : Nat) (gs : List Group)
    (h : SrcCover dsOf k gs) (hl : ∀ x ∈ l.zipIdx k, realDests x.1 = dsOf x.2) :
    SrcCover dsOf (k + l.length)
      ((l.zipIdx k).foldl (fun gs x => addSource x.2 (realDests x.1) gs) gs) := by
  induction l generalizing k gs with
  | nil => simpa using h
  | cons c cs ih =>
    simp only [List.zipIdx_cons, List.foldl_cons, List.length_cons]
    have h0 := hl (c, k) (by simp [List.zipIdx_cons])
    simp only at h0
    rw [h0]
    have := ih (k + 1) _ (addSource_cover dsOf k gs h)
      (fun x hx => hl x (by simp only [List.zipIdx_cons]; exact List.mem_cons_of_mem _ hx))
    have e : k + 1 + cs.length = k + (cs.length + 1) := by omega
    rw [e] at this
    exact this

theorem zipIdx_realDests (cands : List (List Cand)) :
    ∀ x ∈ cands.zipIdx 0, realDests x.1 = dsOfCands cands x.2 := by
  intro x hx
  obtain ⟨cs, i⟩ := x
  have hm := List.mem_zipIdx hx
  simp only [Nat.zero_add, Nat.sub_zero] at hm
  obtain ⟨_, hi, hcs⟩ := hm
  simp only [dsOfCands, getD']
  rw [List.getElem?_eq_getElem hi]
  simp [hcs]

theorem subnets_fold_eq (n : Nat) (cands : List (List Cand)) :
    subnets n cands = (cands.zipIdx).foldl
      (fun gs (x : List Cand × Nat) => addSource x.2 (realDests x.1) gs)
      ((List.range n).map (fun j => (([], [j]) : Group))) := rfl

theorem subnets_cover (n : Nat) (cands : List (List Cand)) :
    SrcCover (dsOfCands cands) cands.length (subnets n cands) := by
  rw [subnets_fold_eq]
  have h0 : SrcCover (dsOfCands cands) 0 ((List.range n).map (fun j => (([], [j]) : Group))) := by
    intro i hi; omega
  have := foldl_srcCover (dsOfCands cands) cands 0 _ h0 (zipIdx_realDests cands)
  simpa using this

/-- every source with a real candidate lies in a sub-net of the step -/
theorem stepGroups_cover (cfg : Cfg) (st : State) (t : Int) (dsts : List Pos) (i : Nat)
    (hi : i < st.srcs.length) (hne : dsOfCands (stepCands cfg st t dsts) i ≠ []) :
    i ∈ (stepGroups cfg st t dsts).flatMap (·.1) := by
  have := subnets_cover dsts.length (stepCands cfg st t dsts)
  rw [stepCands_length] at this
  exact this i hi hne

/-! ### the sub-nets refine every relation that contains "share a candidate" -/

/-- any two sources having a candidate in the same group are related -/
def Classes (E : Nat → Nat → Prop) (dsOf : Nat → List Nat) (gs : List Group) : Prop :=
  ∀ g ∈ gs, ∀ d ∈ g.2, ∀ d' ∈ g.2, ∀ i i', d ∈ dsOf i → d' ∈ dsOf i' → E i i'

theorem addSource_classes (E : Nat → Nat → Prop) (htrans : ∀ a b c, E a b → E b c → E a c)
    (dsOf : Nat → List Nat) (k : Nat) (gs : List Group) (h : Classes E dsOf gs) :
    Classes E dsOf (addSource k (dsOf k) gs) := by
  unfold addSource
  by_cases he : (dsOf k).isEmpty = true
  · simp only [he, if_true]; exact h
  · simp only [he, Bool.false_eq_true, if_false]
    intro g hg d hd d' hd' i i' hi hi'
    rcases List.mem_cons.mp hg with rfl | hg
    · simp only [List.mem_flatMap, List.mem_filter] at hd hd'
      obtain ⟨h1, ⟨hh1, hhit1⟩, hd1⟩ := hd
      obtain ⟨h2, ⟨hh2, hhit2⟩, hd2⟩ := hd'
      simp only [hasDest, List.any_eq_true, List.contains_eq_mem, decide_eq_true_eq] at hhit1 hhit2
      obtain ⟨e1, he1, hek1⟩ := hhit1
      obtain ⟨e2, he2, hek2⟩ := hhit2
      exact htrans i k i' (h h1 hh1 d hd1 e1 he1 i k hi hek1) (h h2 hh2 e2 he2 d' hd2 k i' hek2 hi')
    · exact h g (List.mem_filter.mp hg).1 d hd d' hd' i i' hi hi'

theorem foldl_classes (E : Nat → Nat → Prop) (htrans : ∀ a b c, E a b → E b c → E a c)
    (dsOf : Nat → List Nat) (l : List (List Cand × Nat))
    (hl : ∀ x ∈ l, realDests x.1 = dsOf x.2) (gs : List Group) (h : Classes E dsOf gs) :
    Classes E dsOf (l.foldl (fun gs x => addSource x.2 (realDests x.1) gs) gs) := by
  induction l generalizing gs with
  | nil => exact h
  | cons x xs ih =>
    simp only [List.foldl_cons]
    apply ih (fun y hy => hl y (List.mem_cons_of_mem _ hy))
    rw [hl x (List.mem_cons_self ..)]
    exact addSource_classes E htrans dsOf x.2 gs h

theorem subnets_classes (E : Nat → Nat → Prop) (htrans : ∀ a b c, E a b → E b c → E a c)
    (n : Nat) (cands : List (List Cand))
    (hedge : ∀ i i' d, d ∈ dsOfCands cands i → d ∈ dsOfCands cands i' → E i i') :
    Classes E (dsOfCands cands) (subnets n cands) := by
  rw [subnets_fold_eq]
  apply foldl_classes E htrans (dsOfCands cands) _ (zipIdx_realDests cands)
  intro g hg d hd d' hd' i i' hi hi'
  simp only [List.mem_map] at hg
  obtain ⟨j, _, rfl⟩ := hg
  simp only [List.mem_singleton] at hd hd'
  subst hd; subst hd'
  exact hedge i i' _ hi hi'

/-- all sources of one sub-net of the step are `E`-related -/
theorem stepGroups_classes (E : Nat → Nat → Prop) (htrans : ∀ a b c, E a b → E b c → E a c)
    (cfg : Cfg) (st : State) (t : Int) (dsts : List Pos)
    (hedge : ∀ i i' d, d ∈ dsOfCands (stepCands cfg st t dsts) i →
      d ∈ dsOfCands (stepCands cfg st t dsts) i' → E i i')
    (g : Group) (hg : g ∈ stepGroups cfg st t dsts) (i i' : Nat) (hi : i ∈ g.1) (hi' : i' ∈ g.1) :
    E i i' := by
  have hcl := subnets_classes E htrans dsts.length (stepCands cfg st t dsts) hedge
  have hinv := stepGroups_inv cfg st t dsts
  have hsrc := stepGroups_srcInv cfg st t dsts
  have hne : ∀ j ∈ g.1, ∃ d, d ∈ dsOfCands (stepCands cfg st t dsts) j := by
    intro j hj
    have := hsrc.nonempty j (List.mem_flatMap.mpr ⟨g, hg, hj⟩)
    exact List.exists_mem_of_ne_nil _ this
  obtain ⟨d, hd⟩ := hne i hi
  obtain ⟨d', hd'⟩ := hne i' hi'
  exact hcl g hg d (hinv.closed g hg i hi d hd) d' (hinv.closed g hg i' hi' d' hd') i i' hd hd'

end TrackpyV.Linker
