import TrackpyV.Model.Linker
import TrackpyV.Proofs.Subnets
/-!
The grouping fold shared by `Linker.subnets` (mirror of `Subnets.compute` + `assign_subnet`) and
`Adaptive.split` (mirror of `split_subnet`): starting from one singleton group per destination,
sources are added one at a time, each merging every group that contains one of its candidate
destinations.  Invariant, for an arbitrary destination list `D` and an arbitrary list `L` of
(source id, candidate destinations) with distinct ids:

* the groups' destination lists partition `D` (a permutation of it when concatenated);
* the groups' source lists partition the ids of the sources that have a candidate;
* every group is closed under candidate edges.
-/
namespace TrackpyV.Linker
open TrackpyV.Assign

def foldGroups (L : List (Nat × List Nat)) (init : List Group) : List Group :=
  L.foldl (fun gs x => addSource x.1 x.2 gs) init

def liveIds (L : List (Nat × List Nat)) : List Nat :=
  (L.filter (fun x => !x.2.isEmpty)).map (·.1)

structure FInv (D : List Nat) (L : List (Nat × List Nat)) (gs : List Group) : Prop where
  dests_perm : (gs.flatMap (·.2)).Perm D
  srcs_perm : (gs.flatMap (·.1)).Perm (liveIds L)
  closed : ∀ g ∈ gs, ∀ i ∈ g.1, ∀ x ∈ L, x.1 = i → ∀ d ∈ x.2, d ∈ g.2

theorem filter_flatMap_perm1 (gs : List Group) (p : Group → Bool) :
    ((gs.filter p).flatMap (·.1) ++ (gs.filter (fun g => !(p g))).flatMap (·.1)).Perm
      (gs.flatMap (·.1)) := by
  induction gs with
  | nil => simp
  | cons g gs ih =>
    by_cases hp : p g = true
    · simp only [List.filter_cons, hp, if_true, Bool.not_true, Bool.false_eq_true, if_false,
        List.flatMap_cons, List.append_assoc]
      exact List.Perm.append_left _ ih
    · have hp' : p g = false := by simpa using hp
      simp only [List.filter_cons, hp', Bool.false_eq_true, if_false, Bool.not_false, if_true,
        List.flatMap_cons]
      refine List.Perm.trans ?_ (List.Perm.append_left _ ih)
      rw [← List.append_assoc, ← List.append_assoc]
      exact List.Perm.append_right _ List.perm_append_comm

theorem liveIds_append (L : List (Nat × List Nat)) (x : Nat × List Nat) :
    liveIds (L ++ [x]) = liveIds L ++ (if x.2.isEmpty then [] else [x.1]) := by
  unfold liveIds
  rw [List.filter_append, List.map_append]
  congr 1
  by_cases h : x.2.isEmpty = true <;> simp [h]

theorem liveIds_sub (L : List (Nat × List Nat)) (i : Nat) (h : i ∈ liveIds L) :
    i ∈ L.map (·.1) := by
  simp only [liveIds, List.mem_map, List.mem_filter] at h ⊢
  obtain ⟨x, ⟨hx, _⟩, rfl⟩ := h
  exact ⟨x, hx, rfl⟩

theorem addSource_finv (D : List Nat) (L : List (Nat × List Nat)) (gs : List Group)
    (x : Nat × List Nat) (h : FInv D L gs) (hnew : x.1 ∉ L.map (·.1))
    (hD : ∀ d ∈ x.2, d ∈ D) : FInv D (L ++ [x]) (addSource x.1 x.2 gs) := by
  unfold addSource
  by_cases he : x.2.isEmpty = true
  · simp only [he, if_true]
    refine ⟨h.dests_perm, ?_, ?_⟩
    · rw [liveIds_append]; simpa [he] using h.srcs_perm
    · intro g hg i hi y hy hyi d hd
      rcases List.mem_append.mp hy with hy | hy
      · exact h.closed g hg i hi y hy hyi d hd
      · simp only [List.mem_singleton] at hy; subst hy
        have : y.2 = [] := by simpa using he
        rw [this] at hd; cases hd
  · simp only [he, Bool.false_eq_true, if_false]
    have hin : ∀ d ∈ x.2, d ∈ ((gs.filter (hasDest x.2)).flatMap (·.2)) := by
      intro d hd
      have : d ∈ gs.flatMap (·.2) := (h.dests_perm.mem_iff).mpr (hD d hd)
      simp only [List.mem_flatMap] at this ⊢
      obtain ⟨g0, hg0, hdg0⟩ := this
      refine ⟨g0, ?_, hdg0⟩
      simp only [List.mem_filter, hasDest, List.any_eq_true, List.contains_eq_mem,
        decide_eq_true_eq]
      exact ⟨hg0, d, hdg0, hd⟩
    refine ⟨?_, ?_, ?_⟩
    · simp only [List.flatMap_cons]
      exact (filter_flatMap_perm gs (hasDest x.2)).trans h.dests_perm
    · rw [liveIds_append]
      simp only [he, Bool.false_eq_true, if_false, List.flatMap_cons, List.cons_append]
      refine List.Perm.trans ?_ (List.perm_append_comm)
      simp only [List.singleton_append]
      exact List.Perm.cons _ ((filter_flatMap_perm1 gs (hasDest x.2)).trans h.srcs_perm)
    · intro g hg j hj y hy hyj d hd
      rcases List.mem_cons.mp hg with rfl | hg
      · simp only at hj ⊢
        rcases List.mem_append.mp hy with hy | hy
        · -- an earlier source: it sits in an old group, which must be a hit group
          rcases List.mem_cons.mp hj with rfl | hj
          · exact absurd (List.mem_map.mpr ⟨y, hy, hyj⟩) hnew
          · simp only [List.mem_flatMap] at hj ⊢
            obtain ⟨g0, hg0, hjg0⟩ := hj
            exact ⟨g0, hg0, h.closed g0 (List.mem_filter.mp hg0).1 j hjg0 y hy hyj d hd⟩
        · simp only [List.mem_singleton] at hy; subst hy
          exact hin d hd
      · have hg' := (List.mem_filter.mp hg).1
        rcases List.mem_append.mp hy with hy | hy
        · exact h.closed g hg' j hj y hy hyj d hd
        · simp only [List.mem_singleton] at hy; subst hy
          -- the new id cannot already sit in an old group
          have : j ∈ gs.flatMap (·.1) := List.mem_flatMap.mpr ⟨g, hg', hj⟩
          have := liveIds_sub L j ((h.srcs_perm.mem_iff).mp this)
          rw [← hyj] at this
          exact absurd this hnew

theorem init_finv (D : List Nat) :
    FInv D [] (D.map (fun j => (([], [j]) : Group))) := by
  refine ⟨?_, ?_, ?_⟩
  · have : (D.map (fun j => (([], [j]) : Group))).flatMap (·.2) = D := by
      induction D with
      | nil => rfl
      | cons a l ih => simp [ih]
    rw [this]
  · have : (D.map (fun j => (([], [j]) : Group))).flatMap (·.1) = [] := by
      induction D with
      | nil => rfl
      | cons a l ih => simp [ih]
    rw [this]; simp [liveIds]
  · intro g hg i hi
    simp only [List.mem_map] at hg
    obtain ⟨j, _, rfl⟩ := hg
    cases hi

theorem foldGroups_finv_aux (D : List Nat) (rest done : List (Nat × List Nat)) (gs : List Group)
    (h : FInv D done gs) (hid : ((done ++ rest).map (·.1)).Nodup)
    (hD : ∀ x ∈ rest, ∀ d ∈ x.2, d ∈ D) :
    FInv D (done ++ rest) (foldGroups rest gs) := by
  induction rest generalizing done gs with
  | nil => simpa [foldGroups] using h
  | cons x xs ih =>
    have hstep : FInv D (done ++ [x]) (addSource x.1 x.2 gs) := by
      apply addSource_finv D done gs x h
      · intro hmem
        simp only [List.map_append, List.map_cons] at hid
        have := (List.nodup_append.mp hid).2.2 x.1 hmem x.1 (List.mem_cons_self ..)
        exact this rfl
      · exact hD x (List.mem_cons_self ..)
    have := ih (done ++ [x]) (addSource x.1 x.2 gs) hstep
      (by simpa [List.append_assoc] using hid)
      (fun y hy => hD y (List.mem_cons_of_mem _ hy))
    simpa [foldGroups, List.append_assoc] using this

/-- **The grouping fold partitions destinations and live sources and is closed under
candidate edges.** -/
theorem foldGroups_finv (D : List Nat) (L : List (Nat × List Nat))
    (hid : (L.map (·.1)).Nodup) (hD : ∀ x ∈ L, ∀ d ∈ x.2, d ∈ D) :
    FInv D L (foldGroups L (D.map (fun j => (([], [j]) : Group)))) := by
  have := foldGroups_finv_aux D L [] _ (init_finv D) (by simpa using hid) hD
  simpa using this

end TrackpyV.Linker
