import TrackpyV.Model.Relocate
import TrackpyV.Proofs.Find
import TrackpyV.Proofs.Linker

/-!
Helper lemmas about the relocation model (`Model/Relocate.lean`): pixels of an image built from a
function, non-negativity of the percentile threshold, the mass ordering, membership in
`relocateIn`, translation invariance of the separation distance.  Property theorems: `Props/C14.lean`.
-/
set_option linter.unusedVariables false

namespace TrackpyV.Relocate
open TrackpyV.Find

/-! ## an image built from a function: `pix` reads the function back -/

theorem getElem?_flatMap_const {α β} (g : α → List β) (m : Nat) :
    ∀ (l : List α), (∀ a ∈ l, (g a).length = m) → ∀ (i j : Nat), j < m →
      (l.flatMap g)[i * m + j]? = (l[i]?).bind (fun a => (g a)[j]?)
  | [], _, i, j, _ => by simp
  | a :: l, hg, 0, j, hj => by
    have ha : (g a).length = m := hg a List.mem_cons_self
    simp only [List.flatMap_cons, Nat.zero_mul, Nat.zero_add, List.getElem?_cons_zero,
      Option.bind_some]
    rw [List.getElem?_append_left (by omega)]
  | a :: l, hg, i + 1, j, hj => by
    have ha : (g a).length = m := hg a List.mem_cons_self
    have ih := getElem?_flatMap_const g m l (fun b hb => hg b (List.mem_cons_of_mem _ hb)) i j hj
    simp only [List.flatMap_cons, List.getElem?_cons_succ]
    rw [List.getElem?_append_right (by rw [ha, Nat.add_mul]; omega)]
    have : (i + 1) * m + j - (g a).length = i * m + j := by rw [ha, Nat.add_mul]; omega
    rw [this, ih]

theorem allIdx_cons (n : Nat) (ns : List Nat) :
    allIdx (n :: ns) = (List.range n).flatMap (fun i => (allIdx ns).map (fun t => i :: t)) := rfl

/-- Horner form of the flat index, with an accumulator -/
theorem flat_spec : ∀ (ns : List Nat) (t : Pos), InImage ns t → ∀ (acc : Nat),
    ((ns.zip t).foldl (fun acc x => acc * x.1 + x.2) acc
        = acc * (allIdx ns).length + flatIdx ns t)
      ∧ flatIdx ns t < (allIdx ns).length
      ∧ (allIdx ns)[flatIdx ns t]? = some t
  | [], [], _, acc => by simp [flatIdx, allIdx, cart]
  | [], _ :: _, h, _ => h.elim
  | _ :: _, [], h, _ => h.elim
  | n :: ns, i :: t, h, acc => by
    obtain ⟨hi, ht⟩ := h
    have ih := flat_spec ns t ht
    obtain ⟨_, hlt, hget⟩ := ih 0
    have hL : (allIdx (n :: ns)).length = n * (allIdx ns).length := by
      rw [allIdx_cons, List.length_flatMap]
      simp
    have hflat : flatIdx (n :: ns) (i :: t) = i * (allIdx ns).length + flatIdx ns t := by
      simp only [flatIdx, List.zip_cons_cons, List.foldl_cons, Nat.zero_mul, Nat.zero_add]
      have := (ih i).1
      simp only [flatIdx] at this
      exact this
    refine ⟨?_, ?_, ?_⟩
    · simp only [List.zip_cons_cons, List.foldl_cons]
      rw [(ih (acc * n + i)).1, hflat, hL]
      rw [Nat.add_mul, Nat.mul_assoc, Nat.add_assoc]
    · rw [hflat, hL]
      calc i * (allIdx ns).length + flatIdx ns t
          < i * (allIdx ns).length + (allIdx ns).length := by omega
        _ = (i + 1) * (allIdx ns).length := by rw [Nat.add_mul, Nat.one_mul]
        _ ≤ n * (allIdx ns).length := Nat.mul_le_mul_right _ hi
    · rw [hflat, allIdx_cons,
        getElem?_flatMap_const (fun i => (allIdx ns).map (fun t => i :: t)) (allIdx ns).length
          (List.range n) (by intro a _; simp) i (flatIdx ns t) hlt]
      simp [List.getElem?_range hi, hget]

/-- the pixel of an image whose data is `f` tabulated over `allIdx shape` -/
theorem pix_mk (shape : List Nat) (f : Pos → Nat) (q : Pos) (h : InImage shape q) :
    Image.pix ⟨shape, ((allIdx shape).map f).toArray⟩ q = f q := by
  obtain ⟨_, _, hget⟩ := flat_spec shape q h 0
  simp only [Image.pix, Array.getD_eq_getD_getElem?, List.getElem?_toArray, List.getElem?_map, hget,
    Option.map_some, Option.getD_some]

/-! ## the percentile threshold of a natural-valued image is not negative -/

theorem floor_toNat_le (x : Rat) (hx : 0 ≤ x) : ((x.floor.toNat : Nat) : Rat) ≤ x := by
  have h0 : (0 : Int) ≤ x.floor := Rat.le_floor_iff.mpr (by simpa using hx)
  have h1 : ((x.floor : Int) : Rat) ≤ x := Rat.le_floor_iff.mp (le_refl _)
  have h2 : ((x.floor.toNat : Nat) : Int) = x.floor := Int.toNat_of_nonneg h0
  have h3 : (((x.floor.toNat : Nat) : Int) : Rat) = ((x.floor : Int) : Rat) := by rw [h2]
  rw [Int.cast_natCast] at h3
  rw [h3]; exact h1

theorem lt_floor_toNat_add_one (x : Rat) : x < ((x.floor.toNat : Nat) : Rat) + 1 := by
  have h1 : ¬ ((x.floor + 1 : Int) : Rat) ≤ x := by
    intro h
    have := Rat.le_floor_iff.mpr h
    omega
  have h2 : x.floor ≤ ((x.floor.toNat : Nat) : Int) := Int.self_le_toNat _
  have h3 : ((x.floor : Int) : Rat) ≤ (((x.floor.toNat : Nat) : Int) : Rat) := Int.cast_le.mpr h2
  rw [Int.cast_natCast] at h3
  push_cast at h1
  linarith

theorem percentileOf_nonneg (xs : List Nat) (pct : Rat) (hp : 0 ≤ pct) (t : Rat)
    (h : percentileOf xs pct = some t) : 0 ≤ t := by
  unfold percentileOf at h
  simp only at h
  split at h
  · cases h
  · injection h with h
    subst h
    set pos : Rat := ((xs.length - 1 : Nat) : Rat) * pct / 100 with hpos
    have hpos0 : 0 ≤ pos := by
      have : (0 : Rat) ≤ ((xs.length - 1 : Nat) : Rat) := Nat.cast_nonneg _
      positivity
    have hg0 : 0 ≤ pos - ((pos.floor.toNat : Nat) : Rat) := by
      have := floor_toNat_le pos hpos0; linarith
    have hg1 : pos - ((pos.floor.toNat : Nat) : Rat) ≤ 1 := by
      have := lt_floor_toNat_add_one pos; linarith
    generalize pos - ((pos.floor.toNat : Nat) : Rat) = g at hg0 hg1
    generalize ((sortNat xs).toArray.getD pos.floor.toNat 0) = a
    generalize ((sortNat xs).toArray.getD (min (pos.floor.toNat + 1) (xs.length - 1)) 0) = b
    have ha : (0 : Rat) ≤ a := Nat.cast_nonneg _
    have hb : (0 : Rat) ≤ b := Nat.cast_nonneg _
    nlinarith [mul_nonneg ha (sub_nonneg.mpr hg1), mul_nonneg hb hg0]

theorem percentileThr_nonneg (img : Image) (pct : Rat) (hp : 0 ≤ pct) (t : Rat)
    (h : percentileThr img pct = some t) : 0 ≤ t :=
  percentileOf_nonneg _ pct hp t h

/-! ## ordering by mass -/

theorem mem_insMass (x y : Pos × Nat) : ∀ (l : List (Pos × Nat)), y ∈ insMass x l ↔ y = x ∨ y ∈ l
  | [] => by simp [insMass]
  | z :: zs => by
    simp only [insMass]
    split
    · simp
    · simp only [List.mem_cons, mem_insMass x y zs]
      constructor
      · rintro (h | h | h)
        · exact Or.inr (Or.inl h)
        · exact Or.inl h
        · exact Or.inr (Or.inr h)
      · rintro (h | h | h)
        · exact Or.inr (Or.inl h)
        · exact Or.inl h
        · exact Or.inr (Or.inr h)

theorem mem_sortMass (y : Pos × Nat) : ∀ (l : List (Pos × Nat)), y ∈ sortMass l ↔ y ∈ l
  | [] => by simp [sortMass]
  | x :: xs => by
    have ih := mem_sortMass y xs
    simp only [sortMass, List.foldr_cons] at ih ⊢
    rw [mem_insMass, ih]
    simp

theorem length_insMass (x : Pos × Nat) : ∀ (l : List (Pos × Nat)), (insMass x l).length = l.length + 1
  | [] => rfl
  | z :: zs => by
    simp only [insMass]
    split
    · simp
    · simp [length_insMass x zs]

theorem length_sortMass : ∀ (l : List (Pos × Nat)), (sortMass l).length = l.length
  | [] => rfl
  | x :: xs => by
    have ih := length_sortMass xs
    simp only [sortMass, List.foldr_cons] at ih ⊢
    rw [length_insMass, ih]
    simp

/-- the output of `insMass`/`sortMass` is ascending in mass -/
theorem insMass_sorted (x : Pos × Nat) : ∀ (l : List (Pos × Nat)),
    l.Pairwise (fun a b => a.2 ≤ b.2) → (insMass x l).Pairwise (fun a b => a.2 ≤ b.2)
  | [], _ => by simp [insMass]
  | z :: zs, h => by
    simp only [insMass]
    obtain ⟨hz, hzs⟩ := List.pairwise_cons.mp h
    split
    · rename_i hle
      refine List.pairwise_cons.mpr ⟨?_, h⟩
      intro b hb
      rcases List.mem_cons.mp hb with rfl | hb
      · exact hle
      · exact Nat.le_trans hle (hz b hb)
    · rename_i hle
      refine List.pairwise_cons.mpr ⟨?_, insMass_sorted x zs hzs⟩
      intro b hb
      rcases (mem_insMass x b zs).mp hb with rfl | hb
      · omega
      · exact hz b hb

theorem sortMass_sorted : ∀ (l : List (Pos × Nat)), (sortMass l).Pairwise (fun a b => a.2 ≤ b.2)
  | [] => by simp [sortMass]
  | x :: xs => by
    have ih := sortMass_sorted xs
    simp only [sortMass, List.foldr_cons] at ih ⊢
    exact insMass_sorted x _ ih

theorem mem_heaviestFirst (cfg : Cfg) (l : List (Pos × Option Nat)) (x : Pos × Nat) :
    x ∈ heaviestFirst cfg l ↔ (x.1, some x.2) ∈ l ∧ cfg.minmass ≤ (x.2 : Rat) := by
  unfold heaviestFirst
  rw [List.mem_reverse, mem_sortMass, List.mem_filterMap]
  constructor
  · rintro ⟨⟨q, mo⟩, hm, hx⟩
    cases mo with
    | none => simp at hx
    | some v =>
      simp only at hx
      split at hx
      · rename_i hle
        injection hx with hx
        subst hx
        exact ⟨hm, hle⟩
      · cases hx
  · rintro ⟨hm, hle⟩
    exact ⟨(x.1, some x.2), hm, by simp [hle]⟩

/-- heaviest first -/
theorem heaviestFirst_sorted (cfg : Cfg) (l : List (Pos × Option Nat)) :
    (heaviestFirst cfg l).Pairwise (fun a b => b.2 ≤ a.2) := by
  unfold heaviestFirst
  rw [List.pairwise_reverse]
  exact sortMass_sorted _

/-! ## slices -/

theorem getSlice_lengths {shape rad : List Nat} {pos : List IPos} {sl : Slice}
    (h : getSlice shape rad pos = some sl) :
    sl.origin.length = shape.length ∧ sl.shape.length = shape.length := by
  unfold getSlice at h
  simp only at h
  split at h
  · cases h
  · injection h with h
    subst h
    simp

theorem addOrigin_length (o : List Nat) (q : Pos) (h : q.length = o.length) :
    (addOrigin o q).length = o.length := by
  simp [addOrigin, h]

theorem toI_featOf (m : Image) (key : Pos → Rat) (q : Pos) : (featOf m key q).pos = toI q := rfl

/-- the separation distance does not change when both points are shifted by the slice origin -/
theorem dist2_addOrigin : ∀ (sep : List Rat) (o : List Nat) (a b : Pos), a.length = b.length →
    a.length ≤ o.length →
    dist2 sep (toI (addOrigin o a)) (toI (addOrigin o b)) = dist2 sep (toI a) (toI b)
  | [], _, _, _, _, _ => by simp [dist2]
  | _ :: _, _, [], [], _, _ => by simp [addOrigin, toI, dist2]
  | _ :: _, _, [], _ :: _, h, _ => by simp at h
  | _ :: _, _, _ :: _, [], h, _ => by simp at h
  | _ :: _, [], _ :: _, _ :: _, _, h => by simp at h
  | s :: ss, o :: os, x :: xs, y :: ys, h1, h2 => by
    have ih := dist2_addOrigin ss os xs ys (by simpa using h1) (by simpa using h2)
    simp only [addOrigin, toI, List.zipWith_cons_cons, List.map_cons, dist2] at ih ⊢
    rw [ih]
    congr 2
    · congr 1
      simp only [Int.ofNat_eq_natCast]
      push_cast
      ring
    · congr 1
      simp only [Int.ofNat_eq_natCast]
      push_cast
      ring

/-- shifting by the origin is injective on positions of the slice -/
theorem addOrigin_inj : ∀ (o : List Nat) (a b : Pos), a.length = b.length → a.length ≤ o.length →
    addOrigin o a = addOrigin o b → a = b
  | _, [], [], _, _, _ => rfl
  | _, [], _ :: _, h, _, _ => by simp at h
  | _, _ :: _, [], h, _, _ => by simp at h
  | [], _ :: _, _ :: _, _, h, _ => by simp at h
  | o :: os, x :: xs, y :: ys, h1, h2, h => by
    simp only [addOrigin, List.zipWith_cons_cons, List.cons.injEq] at h
    have := addOrigin_inj os xs ys (by simpa using h1) (by simpa using h2) h.2
    rw [this]
    congr 1
    omega

/-! ## membership in the result of `relocateIn` -/

theorem mem_rawCandidates {cfg : Cfg} {img : Image} {sl : Slice} {m : Image} {thr : Rat}
    {pos : List IPos} {q : Pos} (h : q ∈ rawCandidates cfg img sl m thr pos) :
    InImage m.shape q ∧ isMax m (dilationSize cfg) thr q = true
      ∧ outsideMargin img.shape cfg.radius (addOrigin sl.origin q) = true
      ∧ inRange cfg pos (addOrigin sl.origin q) = true := by
  unfold rawCandidates candidates at h
  simp only [List.mem_filter] at h
  obtain ⟨⟨⟨⟨hidx, hmax⟩, _⟩, hmar⟩, hrng⟩ := h
  exact ⟨(mem_allIdx _ _).mp hidx, hmax, hmar, hrng⟩

/-- what an entry `(c, v)` of `relocateIn` is: the image coordinate of a slice position `q` that
is a raw candidate, survived `drop_close`, and has the finite mass `v ≥ minmass` -/
theorem mem_relocateIn {cfg : Cfg} {img : Image} {bg pos : List IPos} {sl : Slice} {thr : Rat}
    {c : Pos} {v : Nat} (h : (c, v) ∈ relocateIn cfg img bg pos sl thr) :
    ∃ q, c = addOrigin sl.origin q
      ∧ q ∈ rawCandidates cfg img sl (maskedImage cfg img sl pos bg) thr pos
      ∧ featOf (maskedImage cfg img sl pos bg) (exactKeyPos cfg.sep) q ∈
          dropClose cfg.sep ((rawCandidates cfg img sl (maskedImage cfg img sl pos bg) thr pos).map
            (featOf (maskedImage cfg img sl pos bg) (exactKeyPos cfg.sep)))
      ∧ massAt (maskedImage cfg img sl pos bg) cfg.radius q = some v
      ∧ cfg.minmass ≤ (v : Rat) := by
  unfold relocateIn at h
  simp only [List.mem_map] at h
  obtain ⟨⟨q, v'⟩, hx, heq⟩ := h
  simp only [Prod.mk.injEq] at heq
  obtain ⟨rfl, rfl⟩ := heq
  rw [mem_heaviestFirst] at hx
  obtain ⟨hx, hmass⟩ := hx
  simp only [List.mem_map, Prod.mk.injEq] at hx
  obtain ⟨q', ⟨f, hf, rfl⟩, rfl, hm⟩ := hx
  have hfC := (dropClose_sublist _ _).subset hf
  obtain ⟨q0, hq0, rfl⟩ := List.mem_map.mp hfC
  rw [toPos_featOf] at hm ⊢
  exact ⟨q0, rfl, hq0, hf, hm, hmass⟩

theorem relocateWith_cases {cfg : Cfg} {img : Image} {bg pos : List IPos} {x : Pos × Nat}
    (h : x ∈ relocateWith cfg img bg pos) :
    ∃ sl thr, getSlice img.shape (sliceRadius cfg) pos = some sl ∧
      percentileThr img cfg.pct = some thr ∧ x ∈ relocateIn cfg img bg pos sl thr := by
  unfold relocateWith at h
  split at h
  · rename_i sl thr hs ht
    exact ⟨sl, thr, hs, ht, h⟩
  · simp at h

end TrackpyV.Relocate
