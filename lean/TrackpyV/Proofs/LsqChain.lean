import TrackpyV.Proofs.LsqGrad
import TrackpyV.Proofs.PackFeed
import TrackpyV.Model.LsqJac
/-!
The chain rule joining `residual_grad` / `residual_grad_bg` (per-feature partial derivatives) with the
packing: derivative of one cluster's residual when ONE number `t` is written into the same parameter
of SEVERAL features at once (what one coordinate of the optimisation vector does after
`vect_to_params`), and the glue (`mkFeat`, `transpose`, `scatter`) between rows and columns.

No multivariate calculus is needed: a coordinate of the vector feeds one column of `params`, hence at
most one parameter of every feature, and `diff[q]` is a sum over the features.
-/
namespace TrackpyV.Lsq
open TrackpyV.Pack
set_option linter.unusedSectionVars false
set_option linter.unusedVariables false

@[simp] theorem default_real : (default : ℝ) = 0 := rfl

/-! ### `Feat.getP` / `Feat.setP` -/

theorem Feat.getP_setP (f : Feat ℝ) (k : ℕ) (u : ℝ) (hk : k < 1 + f.θ.length + f.fp.length) :
    (f.setP k u).getP k = u := by
  by_cases h0 : k = 0
  · subst h0; simp [Feat.setP, Feat.getP]
  by_cases h1 : k ≤ f.θ.length
  · rw [Feat.setP_theta f k u h0 h1, Feat.getP_theta _ k h0 (by simpa using h1)]
    exact getD_set_self _ _ _ _ (by omega)
  · have h2 : f.θ.length < k := by omega
    rw [Feat.setP_fp f k u h2,
      Feat.getP_fp { f with fp := f.fp.set (k - 1 - f.θ.length) u } k h2]
    exact getD_set_self _ _ _ _ (by omega)

/-! ### reading a row: `mkFeat` -/

theorem mkFeat_theta_length (g : Geo) (j : ℕ) (row : List ℝ) (h : 2 + g.nShape ≤ row.length) :
    (mkFeat g j row).θ.length = g.nShape := by
  simp [mkFeat]; omega

theorem mkFeat_fp_length (g : Geo) (j : ℕ) (row : List ℝ) :
    (mkFeat g j row).fp.length = row.length - (2 + g.nShape) := by
  simp [mkFeat]

/-- writing `u` into column 0 of the row = replacing the background -/
theorem mkFeat_set_zero (g : Geo) (j : ℕ) (row : List ℝ) (u : ℝ) (h : 0 < row.length) :
    mkFeat g j (row.set 0 u) = { mkFeat g j row with bg := u } := by
  cases row with
  | nil => simp at h
  | cons a tl => simp [mkFeat, show 2 + g.nShape = g.nShape + 1 + 1 by omega]

/-- writing `u` into column `k + 1` of the row = `setP k` -/
theorem mkFeat_set_succ (g : Geo) (j : ℕ) (row : List ℝ) (k : ℕ) (u : ℝ)
    (hlen : 2 + g.nShape ≤ row.length) (hk : k + 1 < row.length) :
    mkFeat g j (row.set (k + 1) u) = (mkFeat g j row).setP k u := by
  have hθ := mkFeat_theta_length g j row hlen
  by_cases h0 : k = 0
  · subst h0
    simp only [Feat.setP, if_true, mkFeat, zero_add]
    rw [getD_set_ne _ _ _ _ _ (by omega), getD_set_self _ _ _ _ (by omega),
      List.drop_set_of_lt (by omega), List.drop_set_of_lt (by omega)]
  by_cases h1 : k ≤ g.nShape
  · rw [Feat.setP_theta _ k u h0 (by omega)]
    simp only [mkFeat]
    rw [getD_set_ne _ _ _ _ _ (by omega), getD_set_ne _ _ _ _ _ (by omega),
      List.drop_set_of_lt (i := k + 1) (j := 2 + g.nShape) (by omega), List.drop_set,
      if_neg (by omega), List.take_set]
    congr 2
  · rw [Feat.setP_fp _ k u (by omega)]
    simp only [mkFeat]
    rw [getD_set_ne _ _ _ _ _ (by omega), getD_set_ne _ _ _ _ _ (by omega), List.drop_set,
      if_neg (by omega), List.take_set_of_le (by omega), List.drop_set, if_neg (by omega)]
    have e : k + 1 - (2 + g.nShape) =
        k - 1 - (List.take g.nShape (List.drop 2 row)).length := by
      simp only [List.length_take, List.length_drop]; omega
    rw [e]

/-! ### rows and columns -/

theorem length_transpose {β : Type} [Inhabited β] (w : ℕ) (a : List (List β)) :
    (transpose w a).length = w := by simp [transpose]

theorem getD_transpose (w : ℕ) (a : List (List ℝ)) (r : ℕ) (hr : r < w) :
    (transpose w a).getD r [] = a.map (fun c => c.getD r 0) := by
  simp [transpose, List.getD_eq_getElem?_getD, hr]

theorem length_getD_transpose (w : ℕ) (a : List (List ℝ)) (r : ℕ) (hr : r < w) :
    ((transpose w a).getD r []).length = a.length := by
  rw [getD_transpose w a r hr]; simp

/-- row `r` of the array after column `i` was overwritten on the rows `S` -/
theorem getD_transpose_set (n : ℕ) (U : List (List ℝ)) (i : ℕ) (S : List ℕ) (t : ℝ) (r : ℕ)
    (hr : r < n) (hi : i < U.length) (hUi : (U.getD i []).length = n) :
    (transpose n (U.set i (setAll (U.getD i []) S t))).getD r [] =
      if r ∈ S then ((transpose n U).getD r []).set i t else (transpose n U).getD r [] := by
  rw [getD_transpose _ _ _ hr, getD_transpose _ _ _ hr, List.map_set]
  split_ifs with hm
  · have := getD_setAll_of_mem (U.getD i []) S t r hm (by omega)
    rw [default_real] at this
    rw [this]
  · have := getD_setAll_of_not_mem (U.getD i []) S t r hm
    rw [default_real] at this
    rw [this]
    have e : (U.getD i []).getD r 0 = (U.map (fun c => c.getD r 0)).getD i 0 := by
      simp [List.getD_eq_getElem?_getD, hi]
    rw [e, list_set_getD_self]

/-! ### `result[indices] = rows` -/

theorem length_scatter (rows : List (List ℝ)) (pairs : List (ℕ × List ℝ)) :
    (scatter rows pairs).length = rows.length := by
  unfold scatter
  induction pairs generalizing rows with
  | nil => rfl
  | cons p ps ih => simp [ih]

theorem getD_scatter_of_not_mem (rows : List (List ℝ)) (pairs : List (ℕ × List ℝ)) (r : ℕ)
    (h : r ∉ pairs.map Prod.fst) : (scatter rows pairs).getD r [] = rows.getD r [] := by
  unfold scatter
  induction pairs generalizing rows with
  | nil => rfl
  | cons p ps ih =>
    simp only [List.map_cons, List.mem_cons, not_or] at h
    simp only [List.foldl_cons]
    rw [ih _ h.2]
    simp [List.getD_eq_getElem?_getD, Ne.symm h.1]

/-- with pairwise different row indices every written row is read back -/
theorem getD_scatter_of_mem (rows : List (List ℝ)) (pairs : List (ℕ × List ℝ)) (r : ℕ)
    (row : List ℝ) (hnd : (pairs.map Prod.fst).Nodup) (hmem : (r, row) ∈ pairs)
    (hr : r < rows.length) : (scatter rows pairs).getD r [] = row := by
  induction pairs generalizing rows with
  | nil => cases hmem
  | cons p ps ih =>
    rw [List.map_cons, List.nodup_cons] at hnd
    have hstep : scatter rows (p :: ps) = scatter (rows.set p.1 p.2) ps := rfl
    rw [hstep]
    rcases List.mem_cons.1 hmem with h | h
    · subst h
      rw [getD_scatter_of_not_mem _ _ _ hnd.1]
      simp [List.getD_eq_getElem?_getD, hr]
    · exact ih _ hnd.2 h (by simpa using hr)

theorem zip_zipIdx_map {β : Type} (idx : List ℕ) (h : ℕ × ℕ → β) (s : ℕ) :
    idx.zip ((idx.zipIdx s).map h) = (idx.zipIdx s).map (fun x => (x.1, h x)) := by
  induction idx generalizing s with
  | nil => rfl
  | cons a t ih => simp [List.zipIdx_cons, ih]

theorem fst_mem_of_mem_zipIdx (idx : List ℕ) (s : ℕ) (x : ℕ × ℕ) (h : x ∈ idx.zipIdx s) :
    x.1 ∈ idx := by
  have := List.mem_map_of_mem (f := Prod.fst) h
  rwa [List.zipIdx_map_fst] at this

/-! ### sums -/

theorem sum_map_sum_comm {ι κ : Type} (l : List ι) (m : List κ) (f : ι → κ → ℝ) :
    (l.map (fun x => (m.map (fun q => f x q)).sum)).sum =
      (m.map (fun q => (l.map (fun x => f x q)).sum)).sum := by
  induction l with
  | nil => simp
  | cons a t ih => simp only [List.map_cons, List.sum_cons, ih, List.sum_map_add]

theorem sum_map_div_const {ι : Type} (l : List ι) (f : ι → ℝ) (c : ℝ) :
    (l.map (fun x => f x / c)).sum = (l.map f).sum / c := by
  induction l with
  | nil => simp
  | cons a t ih => simp [ih, add_div]

theorem sum_map_const_mul {ι : Type} (l : List ι) (f : ι → ℝ) (c : ℝ) :
    (l.map (fun x => c * f x)).sum = c * (l.map f).sum := by
  induction l with
  | nil => simp
  | cons a t ih => simp [ih, mul_add]

theorem sum_map_ite_mem (l S : List ℕ) (H : ℕ → ℝ) (hl : l.Nodup) (hS : S.Nodup)
    (hsub : ∀ r ∈ S, r ∈ l) :
    (l.map (fun r => if r ∈ S then H r else 0)).sum = (S.map H).sum := by
  have h1 := List.sum_map_ite (fun r => r ∈ S) H (fun _ => (0 : ℝ)) l
  rw [h1]
  have hz : (List.map (fun _ => (0 : ℝ)) (List.filter (fun a => decide ¬a ∈ S) l)).sum = 0 := by
    simp
  rw [hz, add_zero]
  apply List.Perm.sum_eq
  apply List.Perm.map
  rw [List.perm_ext_iff_of_nodup (hl.filter _) hS]
  intro a
  simp only [List.mem_filter, decide_eq_true_eq]
  exact ⟨fun h => h.2, fun h => ⟨hsub a h, h⟩⟩

/-! ### one cluster, one number written into the same parameter of several features -/

variable (g : Geo) (fn : Fn) (nd : ℝ)

theorem bgOf_map_ite_setP {ι : Type} (l : List ι) (F : ι → Feat ℝ) (P : ι → Bool) (k : ℕ) (t : ℝ) :
    bgOf (l.map (fun x => if P x then (F x).setP k t else F x)) = bgOf (l.map F) := by
  cases l with
  | nil => rfl
  | cons a tl =>
    simp only [bgOf, List.map_cons, List.head?_cons, Option.map_some, Option.getD_some]
    split_ifs <;> simp

/-- **chain rule, parameters other than the background**: `t` is written into parameter `k` of every
feature selected by `P`; the derivative of the cluster's residual is the SUM of the entries `k` of
the rows `jacobian` writes for these features (`np.sum` packing). -/
theorem clusterRes_hasDerivAt_multi {ι : Type} (act : ℕ → ℕ → Bool) (L : ℝ) (l : List ι)
    (F : ι → Feat ℝ) (P : ι → Bool) (pixels : List (Pix ℝ)) (k : ℕ) (t0 : ℝ)
    (hθ : ∀ x ∈ l, P x = true → (F x).θ.length = g.nShape)
    (hfp : ∀ x ∈ l, P x = true → (F x).fp.length = fn.nParams)
    (hk : k < 1 + g.nShape + fn.nParams)
    (hfix : ∀ x ∈ l, P x = true → (F x).setP k t0 = F x)
    (hadm : ∀ x ∈ l, P x = true → ∀ q ∈ pixels, act (F x).id q.id = true →
      Admissible g fn (F x) q) :
    HasDerivAt
      (fun t => clusterRes g fn nd act L
        (l.map (fun x => if P x then (F x).setP k t else F x)) pixels)
      ((l.map (fun x => if P x then
        (gradRow g fn nd act L (l.map F) pixels (F x)).getD k 0 else 0)).sum) t0 := by
  have hget : ∀ x ∈ l, P x = true → (F x).getP k = t0 := by
    intro x hx hp
    have := Feat.getP_setP (F x) k t0 (by rw [hθ x hx hp, hfp x hx hp]; exact hk)
    rwa [hfix x hx hp] at this
  have hupd : l.map (fun x => if P x then (F x).setP k t0 else F x) = l.map F := by
    apply List.map_congr_left
    intro x hx
    split_ifs with hp
    · exact hfix x hx hp
    · rfl
  -- one pixel
  have hdiff : ∀ q ∈ pixels, HasDerivAt
      (fun t => diffAt g fn nd act (l.map (fun x => if P x then (F x).setP k t else F x)) q)
      (-(l.map (fun x => if (P x && act (F x).id q.id) = true then
          (dterm g fn nd (F x) q).getD k 0 else 0)).sum) t0 := by
    intro q hq
    simp only [diffAt_eq, bgOf_map_ite_setP, List.map_map, Function.comp_def]
    refine (hasDerivAt_list_sum l
      (fun x t => contrib g fn nd act (if P x then (F x).setP k t else F x) q) _ t0 ?_).const_sub _
    intro x hx
    cases hp : P x with
    | false =>
      simp only [Bool.false_and, Bool.false_eq_true, if_false]
      exact hasDerivAt_const (𝕜 := ℝ) (F := ℝ) _ _
    | true =>
      simp only [Bool.true_and, if_true, contrib, Feat.setP_id]
      by_cases ha : act (F x).id q.id = true
      · simp only [ha, if_true]
        have := term_hasDerivAt g fn nd (F x) q (hadm x hx hp q hq ha) k hk
        rwa [hget x hx hp] at this
      · have hf : act (F x).id q.id = false := by simpa using ha
        simp only [hf, Bool.false_eq_true, if_false]
        exact hasDerivAt_const (𝕜 := ℝ) (F := ℝ) _ _
  simp only [clusterRes, lsum_real, sq]
  have hq : ∀ q ∈ pixels, HasDerivAt
      (fun t => diffAt g fn nd act (l.map (fun x => if P x then (F x).setP k t else F x)) q *
        diffAt g fn nd act (l.map (fun x => if P x then (F x).setP k t else F x)) q)
      (-2 * diffAt g fn nd act (l.map F) q *
        (l.map (fun x => if (P x && act (F x).id q.id) = true then
          (dterm g fn nd (F x) q).getD k 0 else 0)).sum) t0 := by
    intro q hq
    have hd := hdiff q hq
    have := hd.fun_mul hd
    rw [hupd] at this
    refine this.congr_deriv ?_
    ring
  refine ((hasDerivAt_list_sum pixels _ _ _ hq).div_const L).congr_deriv ?_
  have hrow : ∀ x ∈ l, (if P x then
      (gradRow g fn nd act L (l.map F) pixels (F x)).getD k 0 else 0) =
      (pixels.map (fun q => -2 * diffAt g fn nd act (l.map F) q *
        (if (P x && act (F x).id q.id) = true then (dterm g fn nd (F x) q).getD k 0 else 0))).sum
        / L := by
    intro x hx
    cases hp : P x with
    | false => simp
    | true =>
      simp only [if_true, Bool.true_and]
      rw [gradRow_getD g fn nd act L _ pixels (F x) k (by rw [hθ x hx hp, hfp x hx hp]; exact hk)]
      congr 2
      apply List.map_congr_left
      intro q _
      split_ifs <;> simp
  rw [List.map_congr_left hrow, sum_map_div_const, sum_map_sum_comm]
  congr 2
  apply List.map_congr_left
  intro q _
  rw [sum_map_const_mul]

/-- **chain rule, background**: `t` is written into the background of EVERY feature of the cluster;
the derivative is the sum over the rows of column 0 -/
theorem clusterRes_hasDerivAt_bgAll {ι : Type} (act : ℕ → ℕ → Bool) (L : ℝ) (l : List ι)
    (F : ι → Feat ℝ) (hne : l ≠ []) (pixels : List (Pix ℝ)) (t0 : ℝ)
    (hfix : ∀ x ∈ l, (F x).bg = t0) :
    HasDerivAt
      (fun t => clusterRes g fn nd act L (l.map (fun x => { F x with bg := t })) pixels)
      ((l.map (fun _ => gradBg g fn nd act L (l.map F) pixels)).sum) t0 := by
  have h := clusterRes_hasDerivAt_bg g fn nd act L (l.map F) (by simpa using hne) pixels t0
  have hs : ∀ t, setBg (l.map F) t = l.map (fun x => { F x with bg := t }) := by
    intro t; simp [setBg, List.map_map, Function.comp_def]
  have h0 : l.map (fun x => { F x with bg := t0 }) = l.map F := by
    apply List.map_congr_left
    intro x hx
    rw [← hfix x hx]
  simp only [hs, h0] at h
  refine h.congr_deriv ?_
  simp [List.map_const', List.sum_replicate]

end TrackpyV.Lsq
