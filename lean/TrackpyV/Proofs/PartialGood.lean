import TrackpyV.Proofs.Partial
/-!
The semantic reading of the two final dictionaries of the repaired `reconnect_traj_patch`
(`buildMaps Rule.fixed`): for every in-range track and every label after the range, *which* value the
dictionary holds, stated with rows of the table instead of loop states (`Good`), and the proof that the
literal loops produce it for every valid table (`buildMaps_good`).  Core Lean only.
-/
namespace TrackpyV.Partial

section sem
variable (start stop : Int) (rows : List Row)

/-- a row the first loop looks at -/
def StartRow (s : Row) : Prop := s ∈ rows ∧ s.frame = start ∧ 0 ≤ s.old
/-- a row the second loop looks at -/
def EndRow (e : Row) : Prop := e ∈ rows ∧ e.frame = stop - 1 ∧ 0 ≤ e.old
/-- the in-range track `t` is present at the first frame ("start-connected") -/
def SC (t : Int) : Prop := ∃ s, StartRow start rows s ∧ s.new = t
/-- `x` is a row of the in-range track `t` -/
def InTrack (t : Int) (x : Row) : Prop := x ∈ rows ∧ inRange start stop x ∧ x.new = t
/-- some row of track `t` is not later than some row of track `t0` -/
def Overlap (t0 t : Int) : Prop :=
  ∃ x y, InTrack start stop rows t x ∧ InTrack start stop rows t0 y ∧ x.frame ≤ y.frame
/-- old label `m` occurs before / after the range -/
def Before (m : Int) : Prop := ∃ p ∈ rows, p.frame < start ∧ p.old = m
def After (m : Int) : Prop := ∃ q ∈ rows, stop ≤ q.frame ∧ q.old = m
/-- the repaired `elif`: the old number of end row `e` is carried by a track present at the first
    frame and may not be shared -/
def Blocked (e : Row) : Prop :=
  ∃ s, StartRow start rows s ∧ s.old = e.old ∧
    (¬ Before start rows e.old ∨ ¬ After stop rows e.old ∨ Overlap start stop rows s.new e.new)
/-- track `t` ends up in `remaining` -/
def Rem (t : Int) : Prop :=
  ¬ SC start rows t ∧ ∀ e, EndRow stop rows e → e.new = t → Blocked start stop rows e

/-- what the property theorems need to know about the final dictionaries -/
structure Good (M : Maps) : Prop where
  A_total : ∀ s, StartRow start rows s → lk M.mpF s.new = some s.old
  B_total : ∀ e, EndRow stop rows e → ¬ SC start rows e.new → ¬ Blocked start stop rows e →
    lk M.mpF e.new = some e.old
  C_total : ∀ r ∈ rows, inRange start stop r → Rem start stop rows r.new →
    ∃ v, lk M.mpF r.new = some v
  fresh : ∀ t v, Rem start stop rows t → lk M.mpF t = some v →
    (∀ q ∈ rows, ¬ inRange start stop q → q.old ≠ v) ∧ (∀ t', lk M.mpF t' = some v → t' = t)
  maA : ∀ e s, EndRow stop rows e → StartRow start rows s → s.new = e.new →
    lk M.maF e.old = some s.old
  maC : ∀ e, EndRow stop rows e → ¬ SC start rows e.new → Blocked start stop rows e →
    lk M.maF e.old = lk M.mpF e.new
  maN : ∀ m, (¬ ∃ e, EndRow stop rows e ∧ e.old = m ∧
      (SC start rows e.new ∨ Blocked start stop rows e)) → lk M.maF m = none

end sem

/-! ### the Boolean test of the code against its semantic reading -/

theorem overlapB_of_overlap {start stop : Int} {rows : List Row} {t0 t : Int}
    (h : Overlap start stop rows t0 t) : overlapB start stop rows t0 t = true := by
  obtain ⟨x, y, ⟨hx, hxin, hxt⟩, ⟨hy, hyin, hyt⟩, hle⟩ := h
  unfold overlapB
  cases hl : lastFrame start stop t0 rows with
  | none => rfl
  | some a =>
    cases hf : firstFrame start stop t rows with
    | none => rfl
    | some b =>
      have h1 := lastFrame_some hl y hy hyin hyt
      have h2 := firstFrame_some hf x hx hxin hxt
      simp only [decide_eq_true_eq]
      omega

theorem overlap_of_overlapB {start stop : Int} {rows : List Row} {t0 t : Int}
    (h : overlapB start stop rows t0 t = true)
    (h0 : ∃ y, InTrack start stop rows t0 y) (h1 : ∃ x, InTrack start stop rows t x) :
    Overlap start stop rows t0 t := by
  obtain ⟨y, hy, hyin, hyt⟩ := h0
  obtain ⟨x, hx, hxin, hxt⟩ := h1
  unfold overlapB at h
  cases hl : lastFrame start stop t0 rows with
  | none => exact absurd ⟨hyin, hyt⟩ (lastFrame_none hl y hy)
  | some a =>
    cases hf : firstFrame start stop t rows with
    | none => exact absurd ⟨hxin, hxt⟩ (firstFrame_none hf x hx)
    | some b =>
      rw [hl, hf] at h
      simp only [decide_eq_true_eq] at h
      obtain ⟨y', hy', hyin', hyt', hya⟩ := lastFrame_attained hl
      obtain ⟨x', hx', hxin', hxt', hxb⟩ := firstFrame_attained hf
      exact ⟨x', y', ⟨hx', hxin', hxt'⟩, ⟨hy', hyin', hyt'⟩, by omega⟩

theorem idsBefore_contains {start : Int} {rows : List Row} {m : Int} :
    (idsBefore start rows).contains m = true ↔ Before start rows m := by
  unfold idsBefore Before
  simp only [List.contains_iff_mem, List.mem_map, List.mem_filter, decide_eq_true_eq]
  constructor
  · rintro ⟨p, ⟨hp, hf⟩, rfl⟩; exact ⟨p, hp, hf, rfl⟩
  · rintro ⟨p, hp, hf, rfl⟩; exact ⟨p, ⟨hp, hf⟩, rfl⟩

theorem idsAfter_contains {stop : Int} {rows : List Row} {m : Int} :
    (idsAfter stop rows).contains m = true ↔ After stop rows m := by
  unfold idsAfter After
  simp only [List.contains_iff_mem, List.mem_map, List.mem_filter, decide_eq_true_eq]
  constructor
  · rintro ⟨p, ⟨hp, hf⟩, rfl⟩; exact ⟨p, hp, hf, rfl⟩
  · rintro ⟨p, hp, hf, rfl⟩; exact ⟨p, ⟨hp, hf⟩, rfl⟩

/-! ### the loops on a valid table -/

section build
variable {start stop : Int} {rows : List Row}

theorem uniq_new (hnew : ValidNew start stop rows) :
    ∀ a ∈ rows, ∀ b ∈ rows, inRange start stop a → inRange start stop b →
      a.frame = b.frame → a.new = b.new → a = b := by
  intro a ha b hb hia hib hf hn
  exact uniqueBy_forall hnew a (List.mem_filter.2 ⟨ha, by simpa using hia⟩) b
    (List.mem_filter.2 ⟨hb, by simpa using hib⟩) hf hn

theorem startRow_inRange (hlt : start < stop) {s : Row} (h : StartRow start rows s) :
    inRange start stop s := by
  obtain ⟨_, hf, _⟩ := h
  unfold inRange; omega

theorem endRow_inRange (hlt : start < stop) {e : Row} (h : EndRow stop rows e) :
    inRange start stop e := by
  obtain ⟨_, hf, _⟩ := h
  unfold inRange; omega

theorem mem_mp1 {k v : Int} :
    (k, v) ∈ loop1 start rows [] ↔ ∃ s, StartRow start rows s ∧ k = s.new ∧ v = s.old := by
  rw [mem_loop1]
  unfold StartRow
  constructor
  · rintro (h | ⟨s, hs, h1, h2, h3, h4⟩)
    · simp at h
    · exact ⟨s, ⟨hs, h1, h2⟩, h3, h4⟩
  · rintro ⟨s, ⟨hs, h1, h2⟩, h3, h4⟩
    exact Or.inr ⟨s, hs, h1, h2, h3, h4⟩

theorem lk_mp1_some (hlt : start < stop) (hnew : ValidNew start stop rows) {s : Row}
    (hs : StartRow start rows s) : lk (loop1 start rows []) s.new = some s.old := by
  apply lk_of_mem_unique (mem_mp1.2 ⟨s, hs, rfl, rfl⟩)
  intro v' hv'
  obtain ⟨s', hs', h1, h2⟩ := mem_mp1.1 hv'
  have : s = s' := uniq_new hnew s hs.1 s' hs'.1 (startRow_inRange hlt hs)
    (startRow_inRange hlt hs') (by rw [hs.2.1, hs'.2.1]) h1
  rw [h2, this]

theorem lk_mp1_eq_some {t v : Int} (h : lk (loop1 start rows []) t = some v) :
    ∃ s, StartRow start rows s ∧ s.new = t ∧ s.old = v := by
  obtain ⟨s, hs, h1, h2⟩ := mem_mp1.1 (lk_some_mem h)
  exact ⟨s, hs, h1.symm, h2.symm⟩

theorem lk_mp1_none_iff {t : Int} : lk (loop1 start rows []) t = none ↔ ¬ SC start rows t := by
  rw [lk_none_iff]
  unfold SC
  constructor
  · rintro h ⟨s, hs, rfl⟩
    exact h s.old (mem_mp1.2 ⟨s, hs, rfl, rfl⟩)
  · rintro h v hv
    obtain ⟨s, hs, h1, _⟩ := mem_mp1.1 hv
    exact h ⟨s, hs, h1.symm⟩

theorem claimedBy_none {m : Int} (h : claimedBy (loop1 start rows []) m = none) :
    ¬ ∃ s, StartRow start rows s ∧ s.old = m := by
  rintro ⟨s, hs, rfl⟩
  unfold claimedBy at h
  simp only [Option.map_eq_none_iff, List.find?_eq_none] at h
  have := h (s.new, s.old) (mem_mp1.2 ⟨s, hs, rfl, rfl⟩)
  simp at this

theorem claimedBy_some {m t0 : Int} (h : claimedBy (loop1 start rows []) m = some t0) :
    ∃ s, StartRow start rows s ∧ s.old = m ∧ s.new = t0 := by
  unfold claimedBy at h
  simp only [Option.map_eq_some_iff] at h
  obtain ⟨⟨k, v⟩, hfind, rfl⟩ := h
  have hmem := List.mem_of_find?_eq_some hfind
  have hp := List.find?_some hfind
  simp only [decide_eq_true_eq] at hp
  obtain ⟨s, hs, h1, h2⟩ := mem_mp1.1 hmem
  exact ⟨s, hs, by rw [← h2]; exact hp, h1.symm⟩

theorem blocked_iff (hlt : start < stop) (hold : ValidOld rows) {e : Row}
    (he : EndRow stop rows e) :
    blocked Rule.fixed start stop rows (loop1 start rows []) e = true ↔
      Blocked start stop rows e := by
  unfold blocked
  simp only [Rule.fixed, Bool.true_and]
  cases hc : claimedBy (loop1 start rows []) e.old with
  | none =>
    simp only [Bool.false_eq_true, false_iff]
    rintro ⟨s, hs, hso, _⟩
    exact claimedBy_none hc ⟨s, hs, hso⟩
  | some t0 =>
    obtain ⟨s, hs, hso, hst⟩ := claimedBy_some hc
    simp only [Bool.or_eq_true, Bool.not_eq_true', ← Bool.not_eq_true, idsBefore_contains,
      idsAfter_contains]
    constructor
    · intro h
      refine ⟨s, hs, hso, ?_⟩
      rcases h with (h | h) | h
      · exact Or.inl h
      · exact Or.inr (Or.inl h)
      · refine Or.inr (Or.inr ?_)
        rw [hst]
        exact overlap_of_overlapB h ⟨s, hs.1, startRow_inRange hlt hs, hst⟩
          ⟨e, he.1, endRow_inRange hlt he, rfl⟩
    · rintro ⟨s', hs', hso', h⟩
      have : s' = s := uniqueBy_forall hold.uniq s' hs'.1 s hs.1 (by rw [hs'.2.1, hs.2.1])
        (by rw [hso', hso])
      subst this
      rcases h with h | h | h
      · exact Or.inl (Or.inl h)
      · exact Or.inl (Or.inr h)
      · exact Or.inr (by rw [← hst]; exact overlapB_of_overlap h)

theorem pairwise_end (hlt : start < stop) (hnew : ValidNew start stop rows) :
    rows.Pairwise (fun a b => a.frame = stop - 1 → b.frame = stop - 1 → a.new ≠ b.new) := by
  have := List.pairwise_filter.1 hnew
  refine this.imp ?_
  intro a b h ha hb
  apply h
  · simp only [decide_eq_true_eq]; unfold inRange; omega
  · simp only [decide_eq_true_eq]; unfold inRange; omega
  · rw [ha, hb]

end build

/-! ### names for the intermediate values of `buildMaps Rule.fixed` -/

section parts
variable (start stop : Int) (rows : List Row) (order : List Int)

def pMp1 : Map := loop1 start rows []
def pSt : St :=
  loop2 (blocked Rule.fixed start stop rows (pMp1 start rows)) stop rows ⟨pMp1 start rows, [], []⟩
def pRem : List Int := remCanon start stop rows (pSt start stop rows).mp
def pUsed : List Int := usedIds Rule.fixed start stop rows (pSt start stop rows).mp
def pFl : Map := freshList (pUsed start stop rows) (iterOrder order (pRem start stop rows)) 0
def pMpF : Map := (pFl start stop rows order).reverse ++ (pSt start stop rows).mp
def pMaF : Map :=
  applyPend (pMpF start stop rows order) (pSt start stop rows).pend.reverse (pSt start stop rows).ma

theorem buildMaps_eq :
    buildMaps Rule.fixed start stop order rows = ⟨pMpF start stop rows order, pMaF start stop rows order⟩ := by
  unfold buildMaps pMaF pMpF pFl pUsed pRem pSt pMp1
  simp only [assignFresh_eq]

end parts

section build2
variable {start stop : Int} {rows : List Row}

theorem st_char (hlt : start < stop) (hold : ValidOld rows) (hnew : ValidNew start stop rows) :
    (∀ k v, (k, v) ∈ (pSt start stop rows).mp ↔
        (k, v) ∈ pMp1 start rows ∨ ∃ e, EndRow stop rows e ∧ k = e.new ∧ v = e.old ∧
          ¬ SC start rows e.new ∧ ¬ Blocked start stop rows e) ∧
    (∀ m v, (m, v) ∈ (pSt start stop rows).ma ↔
        ∃ e s, EndRow stop rows e ∧ StartRow start rows s ∧ s.new = e.new ∧ m = e.old ∧ v = s.old) ∧
    (∀ k m, (k, m) ∈ (pSt start stop rows).pend ↔
        ∃ e, EndRow stop rows e ∧ k = e.new ∧ m = e.old ∧
          ¬ SC start rows e.new ∧ Blocked start stop rows e) := by
  have h := loop2_char stop (blocked Rule.fixed start stop rows (pMp1 start rows)) (pMp1 start rows)
    rows [] [] [] (pairwise_end hlt hnew) (by simp)
  simp only [List.nil_append] at h
  obtain ⟨h1, h2, h3⟩ := h
  have hbi : ∀ e, EndRow stop rows e →
      (blocked Rule.fixed start stop rows (pMp1 start rows) e = true ↔
        Blocked start stop rows e) := fun e hE => blocked_iff hlt hold hE
  refine ⟨?_, ?_, ?_⟩
  · intro k v
    unfold pSt
    rw [h1]
    constructor
    · rintro (h | ⟨e, he, hec, rfl, rfl, hl, hb⟩)
      · exact Or.inl h
      · have hE : EndRow stop rows e := ⟨he, hec.1, hec.2⟩
        refine Or.inr ⟨e, hE, rfl, rfl, lk_mp1_none_iff.1 hl, ?_⟩
        intro hB
        rw [(hbi e hE).2 hB] at hb
        exact Bool.noConfusion hb
    · rintro (h | ⟨e, hE, rfl, rfl, hsc, hB⟩)
      · exact Or.inl h
      · refine Or.inr ⟨e, hE.1, ⟨hE.2.1, hE.2.2⟩, rfl, rfl, lk_mp1_none_iff.2 hsc, ?_⟩
        cases hb : blocked Rule.fixed start stop rows (pMp1 start rows) e with
        | false => rfl
        | true => exact absurd ((hbi e hE).1 hb) hB
  · intro m v
    unfold pSt
    rw [h2]
    constructor
    · rintro (h | ⟨e, he, hec, rfl, hl⟩)
      · simp at h
      · obtain ⟨s, hs, hsn, hso⟩ := lk_mp1_eq_some hl
        exact ⟨e, s, ⟨he, hec.1, hec.2⟩, hs, hsn, rfl, hso.symm⟩
    · rintro ⟨e, s, hE, hs, hsn, rfl, rfl⟩
      refine Or.inr ⟨e, hE.1, ⟨hE.2.1, hE.2.2⟩, rfl, ?_⟩
      rw [← hsn]
      exact lk_mp1_some hlt hnew hs
  · intro k m
    unfold pSt
    rw [h3]
    constructor
    · rintro (h | ⟨e, he, hec, rfl, rfl, hl, hb⟩)
      · simp at h
      · have hE : EndRow stop rows e := ⟨he, hec.1, hec.2⟩
        exact ⟨e, hE, rfl, rfl, lk_mp1_none_iff.1 hl, (hbi e hE).1 hb⟩
    · rintro ⟨e, hE, rfl, rfl, hsc, hB⟩
      exact Or.inr ⟨e, hE.1, ⟨hE.2.1, hE.2.2⟩, rfl, rfl, lk_mp1_none_iff.2 hsc,
        (hbi e hE).2 hB⟩

theorem lk_st_none_iff (hlt : start < stop) (hold : ValidOld rows)
    (hnew : ValidNew start stop rows) {t : Int} :
    lk (pSt start stop rows).mp t = none ↔ Rem start stop rows t := by
  obtain ⟨h1, _, _⟩ := st_char hlt hold hnew
  rw [lk_none_iff]
  constructor
  · intro h
    refine ⟨?_, ?_⟩
    · rintro ⟨s, hs, rfl⟩
      exact h s.old ((h1 _ _).2 (Or.inl (mem_mp1.2 ⟨s, hs, rfl, rfl⟩)))
    · intro e hE het
      apply Classical.byContradiction
      intro hB
      have hsc : ¬ SC start rows e.new := by
        rintro ⟨s, hs, hsn⟩
        apply h s.old
        rw [← het, ← hsn]
        exact (h1 _ _).2 (Or.inl (mem_mp1.2 ⟨s, hs, rfl, rfl⟩))
      exact h e.old ((h1 _ _).2 (Or.inr ⟨e, hE, het.symm, rfl, hsc, hB⟩))
  · rintro ⟨hsc, hall⟩ v hv
    rcases (h1 _ _).1 hv with h | ⟨e, hE, rfl, _, _, hB⟩
    · obtain ⟨s, hs, h2, _⟩ := mem_mp1.1 h
      exact hsc ⟨s, hs, h2.symm⟩
    · exact hB (hall e hE rfl)

theorem mem_pRem (hlt : start < stop) (hold : ValidOld rows) (hnew : ValidNew start stop rows)
    {t : Int} :
    t ∈ pRem start stop rows ↔
      (∃ r ∈ rows, inRange start stop r ∧ r.new = t) ∧ Rem start stop rows t := by
  unfold pRem remCanon inNew
  rw [mem_dedup]
  simp only [List.mem_filter, List.mem_map, decide_eq_true_eq, Option.isNone_iff_eq_none]
  rw [lk_st_none_iff hlt hold hnew]
  constructor
  · rintro ⟨⟨r, ⟨hr, hin⟩, rfl⟩, hrem⟩; exact ⟨⟨r, hr, hin, rfl⟩, hrem⟩
  · rintro ⟨⟨r, hr, hin, rfl⟩, hrem⟩; exact ⟨⟨r, ⟨hr, hin⟩, rfl⟩, hrem⟩

theorem mem_iterOrder {order rem : List Int} {t : Int} : t ∈ iterOrder order rem ↔ t ∈ rem := by
  unfold iterOrder
  simp only [List.mem_append, List.mem_filter, List.contains_iff_mem, Bool.not_eq_true']
  constructor
  · rintro (⟨_, h⟩ | ⟨h, _⟩) <;> exact h
  · intro h
    by_cases ho : t ∈ order
    · exact Or.inl ⟨ho, h⟩
    · exact Or.inr ⟨h, by simpa using ho⟩

end build2

section build3
variable {start stop : Int} {rows : List Row} {order : List Int}

theorem mem_pMpF {k v : Int} :
    (k, v) ∈ pMpF start stop rows order ↔
      (k, v) ∈ pFl start stop rows order ∨ (k, v) ∈ (pSt start stop rows).mp := by
  unfold pMpF
  simp only [List.mem_append, List.mem_reverse]

theorem fl_spec (hlt : start < stop) (hold : ValidOld rows) (hnew : ValidNew start stop rows)
    {k v : Int} (h : (k, v) ∈ pFl start stop rows order) :
    Rem start stop rows k ∧ v ∉ pUsed start stop rows := by
  have := freshList_mem h
  exact ⟨((mem_pRem hlt hold hnew).1 (mem_iterOrder.1 this.1)).2, this.2.1⟩

theorem used_outside {q : Row} (hq : q ∈ rows) (hout : ¬ inRange start stop q) :
    q.old ∈ pUsed start stop rows := by
  unfold pUsed usedIds
  apply List.mem_append_left
  exact List.mem_map.2 ⟨q, List.mem_filter.2 ⟨hq, by simpa using hout⟩, rfl⟩

theorem used_mapped {k v : Int} (h : (k, v) ∈ (pSt start stop rows).mp) :
    v ∈ pUsed start stop rows := by
  unfold pUsed usedIds
  apply List.mem_append_right
  simp only [Rule.fixed, if_true]
  exact List.mem_map.2 ⟨(k, v), h, rfl⟩

theorem mem_pMaF {m v : Int} :
    (m, v) ∈ pMaF start stop rows order ↔
      (m, v) ∈ (pSt start stop rows).ma ∨
        ∃ t, (t, m) ∈ (pSt start stop rows).pend ∧ lk (pMpF start stop rows order) t = some v := by
  unfold pMaF
  rw [mem_applyPend]
  simp only [List.mem_reverse]

/-- the literal loops of the repaired code produce dictionaries with the semantic reading `Good` -/
theorem buildMaps_good (hlt : start < stop) (hold : ValidOld rows)
    (hnew : ValidNew start stop rows) (order : List Int) :
    Good start stop rows (buildMaps Rule.fixed start stop order rows) := by
  rw [buildMaps_eq]
  obtain ⟨hmp, hma, hpend⟩ := st_char hlt hold hnew
  have hUold := uniqueBy_forall hold.uniq
  have hUnew := uniq_new hnew
  -- a key of the fresh list is not a key of the mapping built by the two loops
  have hfl_not : ∀ k v w, (k, v) ∈ pFl start stop rows order → (k, w) ∉ (pSt start stop rows).mp := by
    intro k v w h hw
    have := (lk_st_none_iff hlt hold hnew).2 (fl_spec hlt hold hnew h).1
    exact (lk_none_iff.1 this) w hw
  -- A_total
  have hA : ∀ s, StartRow start rows s → lk (pMpF start stop rows order) s.new = some s.old := by
    intro s hs
    have hm1 : (s.new, s.old) ∈ (pSt start stop rows).mp :=
      (hmp _ _).2 (Or.inl (mem_mp1.2 ⟨s, hs, rfl, rfl⟩))
    apply lk_of_mem_unique (mem_pMpF.2 (Or.inr hm1))
    intro v' hv'
    rcases mem_pMpF.1 hv' with h | h
    · exact absurd hm1 (hfl_not _ _ _ h)
    · rcases (hmp _ _).1 h with h | ⟨e, hE, hk, _, hsc, _⟩
      · obtain ⟨s', hs', h1, h2⟩ := mem_mp1.1 h
        have : s = s' := hUnew s hs.1 s' hs'.1 (startRow_inRange hlt hs)
          (startRow_inRange hlt hs') (by rw [hs.2.1, hs'.2.1]) h1
        rw [h2, this]
      · exact absurd ⟨s, hs, hk⟩ hsc
  -- B_total
  have hB : ∀ e, EndRow stop rows e → ¬ SC start rows e.new → ¬ Blocked start stop rows e →
      lk (pMpF start stop rows order) e.new = some e.old := by
    intro e hE hsc hnb
    have hm1 : (e.new, e.old) ∈ (pSt start stop rows).mp :=
      (hmp _ _).2 (Or.inr ⟨e, hE, rfl, rfl, hsc, hnb⟩)
    apply lk_of_mem_unique (mem_pMpF.2 (Or.inr hm1))
    intro v' hv'
    rcases mem_pMpF.1 hv' with h | h
    · exact absurd hm1 (hfl_not _ _ _ h)
    · rcases (hmp _ _).1 h with h | ⟨e', hE', hk, hv, _, _⟩
      · obtain ⟨s', hs', h1, _⟩ := mem_mp1.1 h
        exact absurd ⟨s', hs', h1.symm⟩ hsc
      · have : e = e' := hUnew e hE.1 e' hE'.1 (endRow_inRange hlt hE)
          (endRow_inRange hlt hE') (by rw [hE.2.1, hE'.2.1]) hk
        rw [hv, this]
  -- C_total
  have hC : ∀ r ∈ rows, inRange start stop r → Rem start stop rows r.new →
      ∃ v, lk (pMpF start stop rows order) r.new = some v := by
    intro r hr hin hrem
    have h1 : r.new ∈ pRem start stop rows := (mem_pRem hlt hold hnew).2 ⟨⟨r, hr, hin, rfl⟩, hrem⟩
    obtain ⟨v, hv⟩ := freshList_key (used := pUsed start stop rows) (c := 0) (mem_iterOrder.2 h1)
    exact lk_isSome_of_key (mem_pMpF.2 (Or.inl hv))
  -- fresh
  have hF : ∀ t v, Rem start stop rows t → lk (pMpF start stop rows order) t = some v →
      (∀ q ∈ rows, ¬ inRange start stop q → q.old ≠ v) ∧
      (∀ t', lk (pMpF start stop rows order) t' = some v → t' = t) := by
    intro t v hrem hl
    have hfl : (t, v) ∈ pFl start stop rows order := by
      rcases mem_pMpF.1 (lk_some_mem hl) with h | h
      · exact h
      · exact absurd h (lk_none_iff.1 ((lk_st_none_iff hlt hold hnew).2 hrem) v)
    have hnu := (fl_spec hlt hold hnew hfl).2
    refine ⟨?_, ?_⟩
    · intro q hq hout heq
      exact hnu (heq ▸ used_outside hq hout)
    · intro t' hl'
      rcases mem_pMpF.1 (lk_some_mem hl') with h | h
      · exact freshList_inj h hfl
      · exact absurd (used_mapped h) hnu
  refine ⟨hA, hB, hC, hF, ?_, ?_, ?_⟩
  · -- maA
    intro e s hE hs hsn
    apply lk_of_mem_unique (mem_pMaF.2 (Or.inl ((hma _ _).2 ⟨e, s, hE, hs, hsn, rfl, rfl⟩)))
    intro v' hv'
    rcases mem_pMaF.1 hv' with h | ⟨t, h, _⟩
    · obtain ⟨e', s', hE', hs', hsn', ho, hv⟩ := (hma _ _).1 h
      have h1 : e = e' := hUold e hE.1 e' hE'.1 (by rw [hE.2.1, hE'.2.1]) ho
      subst h1
      have h2 : s = s' := hUnew s hs.1 s' hs'.1 (startRow_inRange hlt hs)
        (startRow_inRange hlt hs') (by rw [hs.2.1, hs'.2.1]) (by rw [hsn, hsn'])
      rw [hv, h2]
    · obtain ⟨e', hE', _, ho, hsc, _⟩ := (hpend _ _).1 h
      have h1 : e = e' := hUold e hE.1 e' hE'.1 (by rw [hE.2.1, hE'.2.1]) ho
      subst h1
      exact absurd ⟨s, hs, hsn⟩ hsc
  · -- maC
    intro e hE hsc hBl
    have hrem : Rem start stop rows e.new := by
      refine ⟨hsc, ?_⟩
      intro e' hE' hn
      have : e' = e := hUnew e' hE'.1 e hE.1 (endRow_inRange hlt hE')
        (endRow_inRange hlt hE) (by rw [hE.2.1, hE'.2.1]) hn
      rw [this]; exact hBl
    obtain ⟨v, hv⟩ := hC e hE.1 (endRow_inRange hlt hE) hrem
    rw [hv]
    apply lk_of_mem_unique (mem_pMaF.2 (Or.inr ⟨e.new, (hpend _ _).2 ⟨e, hE, rfl, rfl, hsc, hBl⟩, hv⟩))
    intro v' hv'
    rcases mem_pMaF.1 hv' with h | ⟨t, h, hl⟩
    · obtain ⟨e', s', hE', hs', hsn', ho, _⟩ := (hma _ _).1 h
      have h1 : e = e' := hUold e hE.1 e' hE'.1 (by rw [hE.2.1, hE'.2.1]) ho
      subst h1
      exact absurd ⟨s', hs', hsn'⟩ hsc
    · obtain ⟨e', hE', hk, ho, _, _⟩ := (hpend _ _).1 h
      have h1 : e = e' := hUold e hE.1 e' hE'.1 (by rw [hE.2.1, hE'.2.1]) ho
      subst h1
      rw [hk, hv] at hl
      exact (Option.some.inj hl).symm
  · -- maN
    intro m hno
    rw [lk_none_iff]
    intro v hv
    rcases mem_pMaF.1 hv with h | ⟨t, h, _⟩
    · obtain ⟨e, s, hE, hs, hsn, ho, _⟩ := (hma _ _).1 h
      exact hno ⟨e, hE, ho.symm, Or.inl ⟨s, hs, hsn⟩⟩
    · obtain ⟨e, hE, _, ho, _, hBl⟩ := (hpend _ _).1 h
      exact hno ⟨e, hE, ho.symm, Or.inr hBl⟩

end build3

end TrackpyV.Partial
