import TrackpyV.Model.LeastsqCtl
import Mathlib.Tactic.Linarith
import Mathlib.Data.List.Forall2
import Mathlib.Algebra.Order.Field.Basic
/-!
Helper lemmas for C16 (`Props/C16.lean`): option-valued bounds, `scatter`, the optimiser-free
control flow of `rounds` / `fitBlock`.
-/
namespace TrackpyV.Bounds
open List

/-- `x` respects the lower bound `l` (`none` = -inf) -/
def GeLow (x : Rat) (l : B) : Prop := ∀ v, l = some v → v ≤ x
/-- `x` respects the upper bound `h` (`none` = +inf) -/
def LeHigh (x : Rat) (h : B) : Prop := ∀ v, h = some v → x ≤ v

theorem geLow_omax (x : Rat) (a b : B) : GeLow x (omax a b) ↔ GeLow x a ∧ GeLow x b := by
  cases a <;> cases b <;> simp [omax, GeLow, max_le_iff]

theorem leHigh_omin (x : Rat) (a b : B) : LeHigh x (omin a b) ↔ LeHigh x a ∧ LeHigh x b := by
  cases a <;> cases b <;> simp [omin, LeHigh, le_min_iff]

theorem geLow_bmin (x : Rat) (a b : B) : GeLow x (bmin a b) ↔ GeLow x a ∨ GeLow x b := by
  cases a <;> cases b <;> simp [bmin, GeLow, min_le_iff]

theorem leHigh_bmax (x : Rat) (a b : B) : LeHigh x (bmax a b) ↔ LeHigh x a ∨ LeHigh x b := by
  cases a <;> cases b <;> simp [bmax, LeHigh, le_max_iff]

theorem inB_iff (x : Rat) (b : B × B) : inB x b = true ↔ GeLow x b.1 ∧ LeHigh x b.2 := by
  obtain ⟨l, h⟩ := b
  cases l <;> cases h <;> simp [inB, GeLow, LeHigh]

theorem geLow_minLow (x : Rat) : ∀ ls : List B, ls ≠ [] →
    (GeLow x (minLow ls) ↔ ∃ l ∈ ls, GeLow x l)
  | [], h => absurd rfl h
  | [a], _ => by simp [minLow]
  | a :: b :: rest, _ => by
    have ih := geLow_minLow x (b :: rest) (by simp)
    have : minLow (a :: b :: rest) = bmin a (minLow (b :: rest)) := by simp [minLow]
    rw [this, geLow_bmin, ih]
    simp

theorem leHigh_maxHigh (x : Rat) : ∀ hs : List B, hs ≠ [] →
    (LeHigh x (maxHigh hs) ↔ ∃ h ∈ hs, LeHigh x h)
  | [], h => absurd rfl h
  | [a], _ => by simp [maxHigh]
  | a :: b :: rest, _ => by
    have ih := leHigh_maxHigh x (b :: rest) (by simp)
    have : maxHigh (a :: b :: rest) = bmax a (maxHigh (b :: rest)) := by simp [maxHigh]
    rw [this, leHigh_bmax, ih]
    simp

/-! ## scatter -/

theorem scatter_length {α} : ∀ (c : List α) (idx : List Nat) (vs : List α),
    (scatter c idx vs).length = c.length
  | _, [], _ => by simp [scatter]
  | _, _ :: _, [] => by simp [scatter]
  | c, i :: is, v :: vs => by simp [scatter, scatter_length (c.set i v) is vs]

theorem scatter_getElem?_of_not_mem {α} : ∀ (c : List α) (idx : List Nat) (vs : List α) (i : Nat),
    i ∉ idx → (scatter c idx vs)[i]? = c[i]?
  | _, [], _, _, _ => by simp [scatter]
  | _, _ :: _, [], _, _ => by simp [scatter]
  | c, j :: is, v :: vs, i, h => by
    have hj : j ≠ i := fun e => h (by simp [e])
    have hi : i ∉ is := fun e => h (by simp [e])
    simp [scatter, scatter_getElem?_of_not_mem (c.set j v) is vs i hi, List.getElem?_set_ne hj]

theorem scatter_const_getElem?_of_mem {α} (v : α) : ∀ (c : List α) (idx : List Nat) (i : Nat),
    i ∈ idx → i < c.length → (scatter c idx (idx.map (fun _ => v)))[i]? = some v
  | _, [], _, h, _ => by simp at h
  | c, j :: is, i, h, hlt => by
    simp only [List.map_cons, scatter]
    by_cases hi : i ∈ is
    · exact scatter_const_getElem?_of_mem v (c.set j v) is i hi (by simpa using hlt)
    · have hij : i = j := by
        rcases List.mem_cons.mp h with h | h
        · exact h
        · exact absurd h hi
      subst hij
      rw [scatter_getElem?_of_not_mem _ _ _ _ hi]
      simp [hlt]

/-! ## the loop never raises by itself -/

theorem rounds_ok (cfg : Cfg) (opt : Problem → OptOut) (hopt : ∀ pb, opt pb ≠ .raise)
    (groups : Option (List (List Nat))) (pgroups : List (List Nat)) (pb : Problem) (n : Nat) :
    ∀ (fuel k : Nat) (coords block : List (List Rat)), 0 < fuel →
      ∃ o, rounds cfg opt groups pgroups pb n fuel k coords block = .ok o
  | 0, _, _, _, h => absurd h (by simp)
  | fuel + 1, k, coords, block, _ => by
    unfold rounds
    by_cases hp : prepOK cfg pgroups coords
    · simp only [hp, Bool.not_true, Bool.false_eq_true, if_false]
      cases ho : opt { pb with round := k, coords := coords } with
      | fail => exact ⟨_, rfl⟩
      | raise => exact absurd ho (hopt _)
      | nanx dev =>
        simp only
        split
        · exact ⟨_, rfl⟩
        · split <;> exact ⟨_, rfl⟩
      | ok x dev =>
        simp only
        split
        · exact ⟨_, rfl⟩
        · split
          · exact ⟨_, rfl⟩
          · rename_i hf
            exact rounds_ok cfg opt hopt groups pgroups pb n fuel (k + 1) _ _
              (Nat.pos_of_ne_zero hf)
    · simp [hp]

theorem fitBlock_ok (cfg : Cfg) (opt : Problem → OptOut) (hopt : ∀ pb, opt pb ≠ .raise)
    (hmax : 0 < cfg.maxIter) (groups : Option (List (List Nat))) (pgroups : List (List Nat))
    (tag n : Nat) (blockO : List (List (Option Rat))) :
    ∃ o, fitBlock cfg opt groups pgroups tag n blockO = .ok o := by
  unfold fitBlock
  cases allFinite blockO with
  | none => exact ⟨_, rfl⟩
  | some block =>
    simp only
    split
    · exact ⟨_, rfl⟩
    · exact rounds_ok cfg opt hopt groups pgroups _ n cfg.maxIter 0 _ _ hmax

/-! ## unpacking a vector that lies inside the packed bounds -/

def Within (x : Rat) (b : B × B) : Prop := inB x b = true

/-- What unpacking guarantees for ONE parameter column.  `c0` = the start values (the bounds are
computed from them), `c1` = the column being overwritten, `c'` = the new column. -/
def ColOK (groups : Option (List (List Nat))) (m : Nat) (s : Spec) (c0 c1 c' : List Rat) : Prop :=
  c'.length = c1.length ∧
  if m = 0 then c' = c1
  else if m = 1 then
    Forall₂ (fun x p => inB x (lowOf s p, highOf s p) = true) c' c0
  else match groupsFor groups m with
    | none => ∃ v, c' = c1.map (fun _ => v) ∧
        inB v (minLow (c0.map (lowOf s)), maxHigh (c0.map (highOf s))) = true
    | some gs => ∃ vs : List Rat,
        Forall₂ (fun v g =>
          inB v (minLow (g.map (fun i => (c0.map (lowOf s)).getD i default)),
                 maxHigh (g.map (fun i => (c0.map (highOf s)).getD i default))) = true) vs gs ∧
        c' = c1.zipIdx.map (fun (old, i) =>
          match lastGroup gs i with
          | none => old
          | some k => vs.getD k 0)

def ColsOK (groups : Option (List (List Nat))) :
    List Nat → List Spec → List (List Rat) → List (List Rat) → List (List Rat) → Prop
  | m :: ms, s :: ss, c0 :: cs0, c1 :: cs1, c' :: cs' =>
    ColOK groups m s c0 c1 c' ∧ ColsOK groups ms ss cs0 cs1 cs'
  | _, _, _, _, _ => True

/-- column-wise equal lengths, as far as both blocks go -/
def Shape : List (List Rat) → List (List Rat) → Prop
  | a :: as, b :: bs => a.length = b.length ∧ Shape as bs
  | _, _ => True

theorem seg_length {α} [Inhabited α] (op : List α → α) (groups : Option (List (List Nat)))
    (m : Nat) (c : List α) : (seg op groups m c).length = width groups m c.length := by
  unfold seg width
  split
  · rfl
  · split
    · rfl
    · cases groupsFor groups m <;> simp

theorem col_ok (groups : Option (List (List Nat))) (m : Nat) (s : Spec) (c0 c1 v : List Rat)
    (hlen : c0.length = c1.length)
    (h : Forall₂ Within v (List.zip (seg minLow groups m (c0.map (lowOf s)))
                                     (seg maxHigh groups m (c0.map (highOf s))))) :
    ColOK groups m s c0 c1 (newCol groups m v c1) := by
  unfold ColOK newCol
  unfold seg at h
  by_cases h0 : m = 0
  · simp [h0]
  · by_cases h1 : m = 1
    · simp only [h0, h1, if_false, if_true, one_ne_zero] at h ⊢
      rw [List.zip_map', List.forall₂_map_right_iff] at h
      exact ⟨by rw [h.length_eq, hlen], h⟩
    · simp only [h0, h1, if_false] at h ⊢
      cases hg : groupsFor groups m with
      | none =>
        simp only [hg, List.zip_cons_cons, List.zip_nil_right] at h ⊢
        cases h with
        | cons hx hrest =>
          cases hrest
          refine ⟨by simp, _, by simp, hx⟩
      | some gs =>
        simp only [hg] at h ⊢
        rw [List.zip_map', List.forall₂_map_right_iff] at h
        exact ⟨by simp, v, h, rfl⟩

theorem unpack_cols_ok (groups : Option (List (List Nat))) :
    ∀ (modes : List Nat) (specs : List Spec) (block0 block1 : List (List Rat)) (x : List Rat),
      Shape block0 block1 →
      Forall₂ Within x (computeBounds specs modes groups block0) →
      ColsOK groups modes specs block0 block1 (unpackCols groups modes x block1)
  | [], _, _, _, _, _, _ => by simp [ColsOK]
  | _ :: _, [], _, _, _, _, _ => by simp [ColsOK]
  | _ :: _, _ :: _, [], _, _, _, _ => by simp [ColsOK]
  | _ :: _, _ :: _, _ :: _, [], _, _, _ => by simp [ColsOK]
  | m :: ms, s :: ss, c0 :: cs0, c1 :: cs1, x, hs, hx => by
    obtain ⟨hl, hs'⟩ := hs
    simp only [unpackCols, ColsOK]
    have hw : width groups m c1.length = (List.zip (seg minLow groups m (c0.map (lowOf s)))
        (seg maxHigh groups m (c0.map (highOf s)))).length := by
      simp [seg_length, hl]
    have hx' : Forall₂ Within x
        (List.zip (seg minLow groups m (c0.map (lowOf s))) (seg maxHigh groups m (c0.map (highOf s)))
          ++ computeBounds ss ms groups cs0) := by
      have : computeBounds (s :: ss) (m :: ms) groups (c0 :: cs0) =
          List.zip (seg minLow groups m (c0.map (lowOf s))) (seg maxHigh groups m (c0.map (highOf s)))
            ++ computeBounds ss ms groups cs0 := by
        simp only [computeBounds, lowCols, highCols, List.zipWith_cons_cons, packCols]
        rw [List.zip_append (by simp [seg_length])]
      rw [this] at hx
      exact hx
    refine ⟨?_, ?_⟩
    · rw [hw]
      exact col_ok groups m s c0 c1 _ hl (List.forall₂_take_append _ _ _ hx')
    · rw [hw]
      exact unpack_cols_ok groups ms ss cs0 cs1 _ hs' (List.forall₂_drop_append _ _ _ hx')

theorem shape_nil_right : ∀ b : List (List Rat), Shape b [] := by
  intro b; cases b <;> simp [Shape]

theorem shape_nil_left : ∀ b : List (List Rat), Shape [] b := by
  intro b; simp [Shape]

/-- unpacking keeps the column lengths (so the next round works on a block of the same shape) -/
theorem unpack_shape (groups : Option (List (List Nat))) :
    ∀ (modes : List Nat) (specs : List Spec) (block0 block1 : List (List Rat)) (x : List Rat),
      specs.length = modes.length → Shape block0 block1 →
      Forall₂ Within x (computeBounds specs modes groups block0) →
      Shape block0 (unpackCols groups modes x block1)
  | [], _, b0, _, _, _, _, _ => by simpa [unpackCols] using shape_nil_right b0
  | _ :: _, [], _, _, _, h, _, _ => by simp at h
  | _ :: _, _ :: _, [], _, _, _, _, _ => shape_nil_left _
  | _ :: _, _ :: _, b0 :: bs0, [], _, _, _, _ => by
    simpa [unpackCols] using shape_nil_right (b0 :: bs0)
  | m :: ms, s :: ss, c0 :: cs0, c1 :: cs1, x, hsm, hs, hx => by
    have hcols := unpack_cols_ok groups (m :: ms) (s :: ss) (c0 :: cs0) (c1 :: cs1) x hs hx
    obtain ⟨hl, hs'⟩ := hs
    simp only [unpackCols, ColsOK] at hcols ⊢
    have hw : width groups m c1.length = (List.zip (seg minLow groups m (c0.map (lowOf s)))
        (seg maxHigh groups m (c0.map (highOf s)))).length := by
      simp [seg_length, hl]
    have hx' : Forall₂ Within x
        (List.zip (seg minLow groups m (c0.map (lowOf s))) (seg maxHigh groups m (c0.map (highOf s)))
          ++ computeBounds ss ms groups cs0) := by
      have : computeBounds (s :: ss) (m :: ms) groups (c0 :: cs0) =
          List.zip (seg minLow groups m (c0.map (lowOf s))) (seg maxHigh groups m (c0.map (highOf s)))
            ++ computeBounds ss ms groups cs0 := by
        simp only [computeBounds, lowCols, highCols, List.zipWith_cons_cons, packCols]
        rw [List.zip_append (by simp [seg_length])]
      rw [this] at hx
      exact hx
    refine ⟨by rw [hcols.1.1, hl], ?_⟩
    rw [hw]
    exact unpack_shape groups ms ss cs0 cs1 _ (by simpa using hsm) hs'
      (List.forall₂_drop_append _ _ _ hx')

end TrackpyV.Bounds
