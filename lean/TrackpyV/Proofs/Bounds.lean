import TrackpyV.Model.LeastsqCtl
import Mathlib.Tactic.Linarith
import Mathlib.Data.List.Forall2
import Mathlib.Algebra.Order.Field.Basic
/-!
Helper lemmas for C16 (`Props/C16.lean`): option-valued bounds, `scatter`, the optimiser-free
control flow of `rounds` / `fitBlock`.
-/
namespace TrackpyV.Bounds
open List

/-- `x` respects the lower bound `l` (`none` = -inf) -/
def GeLow (x : Rat) (l : B) : Prop := ∀ v, l = some v → v ≤ x
/-- `x` respects the upper bound `h` (`none` = +inf) -/
def LeHigh (x : Rat) (h : B) : Prop := ∀ v, h = some v → x ≤ v

theorem geLow_omax (x : Rat) (a b : B) : GeLow x (omax a b) ↔ GeLow x a ∧ GeLow x b := by
  cases a <;> cases b <;> simp [omax, GeLow, max_le_iff]

theorem leHigh_omin (x : Rat) (a b : B) : LeHigh x (omin a b) ↔ LeHigh x a ∧ LeHigh x b := by
  cases a <;> cases b <;> simp [omin, LeHigh, le_min_iff]

theorem geLow_bmin (x : Rat) (a b : B) : GeLow x (bmin a b) ↔ GeLow x a ∨ GeLow x b := by
  cases a <;> cases b <;> simp [bmin, GeLow, min_le_iff]

theorem leHigh_bmax (x : Rat) (a b : B) : LeHigh x (bmax a b) ↔ LeHigh x a ∨ LeHigh x b := by
  cases a <;> cases b <;> simp [bmax, LeHigh, le_max_iff]

theorem inB_iff (x : Rat) (b : B × B) : inB x b = true ↔ GeLow x b.1 ∧ LeHigh x b.2 := by
  obtain ⟨l, h⟩ := b
  cases l <;> cases h <;> simp [inB, GeLow, LeHigh]

theorem geLow_minLow (x : Rat) : ∀ ls : List B, ls ≠ [] →
    (GeLow x (minLow ls) ↔ ∃ l ∈ ls, GeLow x l)
  | [], h => absurd rfl h
  | [a], _ => by simp [minLow]
  | a :: b :: rest, _ => by
    have ih := geLow_minLow x (b :: rest) (by simp)
    have : minLow (a :: b :: rest) = bmin a (minLow (b :: rest)) := by simp [minLow]
    rw [this, geLow_bmin, ih]
    simp

theorem leHigh_maxHigh (x : Rat) : ∀ hs : List B, hs ≠ [] →
    (LeHigh x (maxHigh hs) ↔ ∃ h ∈ hs, LeHigh x h)
  | [], h => absurd rfl h
  | [a], _ => by simp [maxHigh]
  | a :: b :: rest, _ => by
    have ih := leHigh_maxHigh x (b :: rest) (by simp)
    have : maxHigh (a :: b :: rest) = bmax a (maxHigh (b :: rest)) := by simp [maxHigh]
    rw [this, leHigh_bmax, ih]
    simp

/-! ## scatter -/

theorem scatter_length {α} : ∀ (c : List α) (idx : List Nat) (vs : List α),
    (scatter c idx vs).length = c.length
  | _, [], _ => by simp [scatter]
  | _, _ :: _, [] => by simp [scatter]
  | c, i :: is, v :: vs => by simp [scatter, scatter_length (c.set i v) is vs]

theorem scatter_getElem?_of_not_mem {α} : ∀ (c : List α) (idx : List Nat) (vs : List α) (i : Nat),
    i ∉ idx → (scatter c idx vs)[i]? = c[i]?
  | _, [], _, _, _ => by simp [scatter]
  | _, _ :: _, [], _, _ => by simp [scatter]
  | c, j :: is, v :: vs, i, h => by
    have hj : j ≠ i := fun e => h (by simp [e])
    have hi : i ∉ is := fun e => h (by simp [e])
    simp [scatter, scatter_getElem?_of_not_mem (c.set j v) is vs i hi, List.getElem?_set_ne hj]

theorem scatter_const_getElem?_of_mem {α} (v : α) : ∀ (c : List α) (idx : List Nat) (i : Nat),
    i ∈ idx → i < c.length → (scatter c idx (idx.map (fun _ => v)))[i]? = some v
  | _, [], _, h, _ => by simp at h
  | c, j :: is, i, h, hlt => by
    simp only [List.map_cons, scatter]
    by_cases hi : i ∈ is
    · exact scatter_const_getElem?_of_mem v (c.set j v) is i hi (by simpa using hlt)
    · have hij : i = j := by
        rcases List.mem_cons.mp h with h | h
        · exact h
        · exact absurd h hi
      subst hij
      rw [scatter_getElem?_of_not_mem _ _ _ _ hi]
      simp [hlt]

/-! ## the loop never raises by itself -/

theorem rounds_ok (cfg : Cfg) (opt : Problem → OptOut) (hopt : ∀ pb, opt pb ≠ .raise)
    (groups : Option (List (List Nat))) (pgroups : List (List Nat)) (pb : Problem) (n : Nat) :
    ∀ (fuel k : Nat) (coords block : List (List Rat)), 0 < fuel →
      ∃ o, rounds cfg opt groups pgroups pb n fuel k coords block = .ok o
  | 0, _, _, _, h => absurd h (by simp)
  | fuel + 1, k, coords, block, _ => by
    unfold rounds
    by_cases hp : prepOK cfg pgroups coords
    · simp only [hp, Bool.not_true, Bool.false_eq_true, if_false]
      cases ho : opt { pb with round := k, coords := coords } with
      | fail => exact ⟨_, rfl⟩
      | raise => exact absurd ho (hopt _)
      | nanx dev =>
        simp only
        split
        · exact ⟨_, rfl⟩
        · split <;> exact ⟨_, rfl⟩
      | ok x dev =>
        simp only
        split
        · exact ⟨_, rfl⟩
        · split
          · exact ⟨_, rfl⟩
          · rename_i hf
            exact rounds_ok cfg opt hopt groups pgroups pb n fuel (k + 1) _ _
              (Nat.pos_of_ne_zero hf)
    · simp [hp]

theorem fitBlock_ok (cfg : Cfg) (opt : Problem → OptOut) (hopt : ∀ pb, opt pb ≠ .raise)
    (hmax : 0 < cfg.maxIter) (groups : Option (List (List Nat))) (pgroups : List (List Nat))
    (tag n : Nat) (blockO : List (List (Option Rat))) :
    ∃ o, fitBlock cfg opt groups pgroups tag n blockO = .ok o := by
  unfold fitBlock
  cases allFinite blockO with
  | none => exact ⟨_, rfl⟩
  | some block =>
    simp only
    split
    · exact ⟨_, rfl⟩
    · exact rounds_ok cfg opt hopt groups pgroups _ n cfg.maxIter 0 _ _ hmax

end TrackpyV.Bounds
