import TrackpyV.Proofs.Algo
/-!
`Assign.groups_compose_list` read backwards: an optimal assignment of a union of groups of sources
without a common destination is optimal on every group (`isOptimal_append_split`,
`groups_decompose_list`), plus the transport lemmas needed to apply it to sub-lists of a list of
source numbers: optimality depends on the candidate lists only through membership
(`isOptimal_map_congr`) and survives a permutation of the sources when the assignment is given as
a function of the source (`isOptimal_map_perm`).
-/
namespace TrackpyV.Assign

/-- **lemma (b).**  Two groups of sources without a common destination: an optimal assignment of
the union, cut at the boundary, is optimal on each part. -/
theorem isOptimal_append_split (A B : List Src) (hd : ∀ x ∈ groupDests A, x ∉ groupDests B)
    (a1 a2 : List Cand) (hl : a1.length = A.length) (h : IsOptimal (A ++ B) (a1 ++ a2)) :
    IsOptimal A a1 ∧ IsOptimal B a2 := by
  obtain ⟨hadm, hopt⟩ := h
  obtain ⟨b1, b2, he, hb1, hb2⟩ := (admissible_append A B hd _).mp hadm
  have hl1 : b1.length = A.length := TrackpyV.Linker.picks_length hb1.1
  have h1 : a1 = b1 := List.append_inj_left he (by omega)
  have h2 : a2 = b2 := List.append_inj_right he (by omega)
  subst h1; subst h2
  refine ⟨⟨hb1, ?_⟩, ⟨hb2, ?_⟩⟩
  · intro a' ha'
    have := hopt (a' ++ a2) ((admissible_append A B hd _).mpr ⟨a', a2, rfl, ha', hb2⟩)
    simp only [cost_append] at this
    omega
  · intro a' ha'
    have := hopt (a1 ++ a') ((admissible_append A B hd _).mpr ⟨a1, a', rfl, hb1, ha'⟩)
    simp only [cost_append] at this
    omega

/-- Any number of sub-nets: if no destination is shared between two groups, an optimal assignment
of all sources together, cut along the groups, is optimal on every group. -/
theorem groups_decompose_list (groups : List (List Src)) (asg : List (List Cand))
    (hd : groups.Pairwise (fun A B => ∀ x ∈ groupDests A, x ∉ groupDests B))
    (hlen : groups.length = asg.length)
    (hlens : ∀ p ∈ groups.zip asg, p.2.length = p.1.length)
    (hopt : IsOptimal groups.flatten asg.flatten) :
    ∀ p ∈ groups.zip asg, IsOptimal p.1 p.2 := by
  induction groups generalizing asg with
  | nil => intro p hp; simp at hp
  | cons g gs ih =>
    cases asg with
    | nil => simp at hlen
    | cons a as =>
      rw [List.pairwise_cons] at hd
      simp only [List.flatten_cons] at hopt
      have hdis : ∀ x ∈ groupDests g, x ∉ groupDests gs.flatten := by
        intro x hx hx'
        simp only [groupDests, List.mem_flatMap, List.mem_flatten] at hx'
        obtain ⟨s, ⟨B, hB, hsB⟩, hxs⟩ := hx'
        exact hd.1 B hB x hx (by simp only [groupDests, List.mem_flatMap]; exact ⟨s, hsB, hxs⟩)
      obtain ⟨h1, h2⟩ := isOptimal_append_split g gs.flatten hdis a as.flatten
        (hlens (g, a) (by simp)) hopt
      intro p hp
      simp only [List.zip_cons_cons, List.mem_cons] at hp
      rcases hp with rfl | hp
      · exact h1
      · exact ih as hd.2 (by simpa using hlen)
          (fun q hq => hlens q (by simp only [List.zip_cons_cons]; exact List.mem_cons_of_mem _ hq))
          h2 p hp

/-! ### assignments given as a function of the source number -/

theorem picks_map_iff {α} (l : List α) (F : α → Src) (h : α → Cand) :
    Picks (l.map F) (l.map h) ↔ ∀ i ∈ l, h i ∈ F i := by
  induction l with
  | nil => simp
  | cons x xs ih => simp [ih]

theorem picks_congr {α} (l : List α) (F F' : α → Src) (hF : ∀ i ∈ l, ∀ c, c ∈ F i ↔ c ∈ F' i)
    (a : List Cand) : Picks (l.map F) a ↔ Picks (l.map F') a := by
  induction l generalizing a with
  | nil => cases a <;> simp
  | cons x xs ih =>
    cases a with
    | nil => simp
    | cons c cs =>
      simp only [List.map_cons, picks_cons_cons]
      rw [hF x (List.mem_cons_self ..) c, ih (fun i hi => hF i (List.mem_cons_of_mem _ hi))]

theorem admissible_congr {α} (l : List α) (F F' : α → Src)
    (hF : ∀ i ∈ l, ∀ c, c ∈ F i ↔ c ∈ F' i) (a : List Cand) :
    Admissible (l.map F) a ↔ Admissible (l.map F') a := by
  unfold Admissible AdmTk
  rw [picks_congr l F F' hF a]

/-- optimality depends on the candidate lists only through membership -/
theorem isOptimal_map_congr {α} (l : List α) (F F' : α → Src)
    (hF : ∀ i ∈ l, ∀ c, c ∈ F i ↔ c ∈ F' i) (a : List Cand) :
    IsOptimal (l.map F) a ↔ IsOptimal (l.map F') a := by
  unfold IsOptimal
  rw [admissible_congr l F F' hF a]
  constructor
  · rintro ⟨h1, h2⟩
    exact ⟨h1, fun a' ha' => h2 a' ((admissible_congr l F F' hF a').mpr ha')⟩
  · rintro ⟨h1, h2⟩
    exact ⟨h1, fun a' ha' => h2 a' ((admissible_congr l F F' hF a').mp ha')⟩

/-- an assignment given as a function of the source stays optimal when the sources are permuted -/
theorem isOptimal_map_perm {α} {l l' : List α} (hp : l.Perm l') (F : α → Src) (h : α → Cand)
    (ho : IsOptimal (l.map F) (l.map h)) : IsOptimal (l'.map F) (l'.map h) := by
  obtain ⟨⟨h1, h2, _⟩, hopt⟩ := ho
  have hcost : cost (l'.map h) = cost (l.map h) :=
    (((hp.map h).map (fun c : Cand => c.2)).sum_nat).symm
  refine ⟨⟨?_, ?_, by simp⟩, ?_⟩
  · rw [picks_map_iff] at h1 ⊢
    intro i hi
    exact h1 i ((hp.mem_iff).mpr hi)
  · exact (((hp.map h).filterMap (fun c : Cand => c.1)).nodup_iff).mp h2
  · intro a' ha'
    obtain ⟨a'', ha'', hc''⟩ := admissible_perm (hp.map F).symm a' ha'
    have := hopt a'' ha''
    omega

end TrackpyV.Assign
