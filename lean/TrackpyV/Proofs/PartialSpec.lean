import TrackpyV.Proofs.PartialGood
/-!
The specification of C13 (`Joined`) and the property lemmas, derived from the semantic reading `Good`
of the final dictionaries.  Core Lean only.
-/
namespace TrackpyV.Partial
set_option linter.unusedSectionVars false
set_option linter.unusedVariables false

/-- the generating pairs of the specification:
    J1 equal old label, both rows outside the range;
    J2 equal in-range label, both rows inside the range;
    J3 an old label that crosses the first frame (row at `start` / row before the range) or the
       last frame (row at `stop-1` / row after the range). -/
inductive Gen (start stop : Int) (a b : Row) : Prop
  | j1 : ¬ inRange start stop a → ¬ inRange start stop b → a.old = b.old → Gen start stop a b
  | j2 : inRange start stop a → inRange start stop b → a.new = b.new → Gen start stop a b
  | j3s : a.frame = start → b.frame < start → a.old = b.old → Gen start stop a b
  | j3e : a.frame = stop - 1 → stop ≤ b.frame → a.old = b.old → Gen start stop a b

/-- `Joined` = the equivalence closure of the generating pairs on the rows of the table -/
inductive Joined (start stop : Int) (rows : List Row) : Row → Row → Prop
  | gen {a b : Row} : a ∈ rows → b ∈ rows → Gen start stop a b → Joined start stop rows a b
  | refl (a : Row) : Joined start stop rows a a
  | symm {a b : Row} : Joined start stop rows a b → Joined start stop rows b a
  | trans {a b c : Row} : Joined start stop rows a b → Joined start stop rows b c →
      Joined start stop rows a c

/-- the generating pairs that never force two rows of one frame together: J1 restricted to rows on
    the same side of the range, J2, J3 -/
inductive GenChain (start stop : Int) (a b : Row) : Prop
  | j1b : a.frame < start → b.frame < start → a.old = b.old → GenChain start stop a b
  | j1a : stop ≤ a.frame → stop ≤ b.frame → a.old = b.old → GenChain start stop a b
  | j2 : inRange start stop a → inRange start stop b → a.new = b.new → GenChain start stop a b
  | j3s : a.frame = start → b.frame < start → a.old = b.old → GenChain start stop a b
  | j3e : a.frame = stop - 1 → stop ≤ b.frame → a.old = b.old → GenChain start stop a b

/-- no `Joined`-class contains two rows of one frame -/
def NoConflict (start stop : Int) (rows : List Row) : Prop :=
  ∀ a ∈ rows, ∀ b ∈ rows, Joined start stop rows a b → a.frame = b.frame → a = b

section spec
variable {start stop : Int} {rows : List Row} {M : Maps}

theorem final_before (hlt : start < stop) {r : Row} (h : r.frame < start) :
    finalLabel start stop M r = r.old := by
  have h1 : ¬ inRange start stop r := by unfold inRange; omega
  unfold finalLabel
  rw [if_neg h1, if_neg (by omega)]

theorem final_in {r : Row} (h : inRange start stop r) :
    finalLabel start stop M r = repl M.mpF r.new := by
  unfold finalLabel
  rw [if_pos h]

theorem final_after {r : Row} (h : stop ≤ r.frame) :
    finalLabel start stop M r = repl M.maF r.old := by
  have h1 : ¬ inRange start stop r := by unfold inRange; omega
  unfold finalLabel
  rw [if_neg h1, if_pos h]

theorem repl_some {m : Map} {k v : Int} (h : lk m k = some v) : repl m k = v := by
  unfold repl; rw [h]; rfl

theorem repl_none {m : Map} {k : Int} (h : lk m k = none) : repl m k = k := by
  unfold repl; rw [h]; rfl

variable (hlt : start < stop) (hold : ValidOld rows) (hnew : ValidNew start stop rows)
  (hG : Good start stop rows M)
include hlt hold hnew hG

/-- classification of the label of an in-range row -/
theorem in_class {r : Row} (hr : r ∈ rows) (hin : inRange start stop r) :
    (∃ s, StartRow start rows s ∧ s.new = r.new ∧ finalLabel start stop M r = s.old) ∨
    (¬ SC start rows r.new ∧ ∃ e, EndRow stop rows e ∧ e.new = r.new ∧
        ¬ Blocked start stop rows e ∧ finalLabel start stop M r = e.old) ∨
    (Rem start stop rows r.new ∧ ∃ v, lk M.mpF r.new = some v ∧
        finalLabel start stop M r = v) := by
  rw [final_in hin]
  by_cases hsc : SC start rows r.new
  · obtain ⟨s, hs, hsn⟩ := hsc
    refine Or.inl ⟨s, hs, hsn, ?_⟩
    rw [← hsn]; exact repl_some (hG.A_total s hs)
  · by_cases hex : ∃ e, EndRow stop rows e ∧ e.new = r.new ∧ ¬ Blocked start stop rows e
    · obtain ⟨e, hE, hen, hnb⟩ := hex
      refine Or.inr (Or.inl ⟨hsc, e, hE, hen, hnb, ?_⟩)
      rw [← hen]; exact repl_some (hG.B_total e hE (by rw [hen]; exact hsc) hnb)
    · have hrem : Rem start stop rows r.new := by
        refine ⟨hsc, ?_⟩
        intro e hE hen
        apply Classical.byContradiction
        intro hnb
        exact hex ⟨e, hE, hen, hnb⟩
      obtain ⟨v, hv⟩ := hG.C_total r hr hin hrem
      exact Or.inr (Or.inr ⟨hrem, v, hv, repl_some hv⟩)

/-- every in-range track has an entry in the final `mapping_patch` -/
theorem in_lk {r : Row} (hr : r ∈ rows) (hin : inRange start stop r) :
    lk M.mpF r.new = some (finalLabel start stop M r) := by
  rcases in_class hlt hold hnew hG hr hin with ⟨s, hs, hsn, hf⟩ | ⟨hsc, e, hE, hen, hnb, hf⟩ |
      ⟨_, v, hv, hf⟩
  · rw [hf, ← hsn]; exact hG.A_total s hs
  · rw [hf, ← hen]; exact hG.B_total e hE (by rw [hen]; exact hsc) hnb
  · rw [hf]; exact hv

/-- classification of the label of a row after the range -/
theorem after_class {q : Row} (hq : q ∈ rows) (haf : stop ≤ q.frame) :
    (finalLabel start stop M q = q.old ∧ ¬ ∃ e, EndRow stop rows e ∧ e.old = q.old ∧
        (SC start rows e.new ∨ Blocked start stop rows e)) ∨
    (∃ e s, EndRow stop rows e ∧ e.old = q.old ∧ StartRow start rows s ∧ s.new = e.new ∧
        finalLabel start stop M q = s.old) ∨
    (∃ e v, EndRow stop rows e ∧ e.old = q.old ∧ Rem start stop rows e.new ∧
        lk M.mpF e.new = some v ∧ finalLabel start stop M q = v) := by
  rw [final_after haf]
  by_cases hex : ∃ e, EndRow stop rows e ∧ e.old = q.old ∧
      (SC start rows e.new ∨ Blocked start stop rows e)
  · obtain ⟨e, hE, heo, h⟩ := hex
    by_cases hsc : SC start rows e.new
    · obtain ⟨s, hs, hsn⟩ := hsc
      refine Or.inr (Or.inl ⟨e, s, hE, heo, hs, hsn, ?_⟩)
      rw [← heo]; exact repl_some (hG.maA e s hE hs hsn)
    · have hBl : Blocked start stop rows e := h.resolve_left hsc
      have hrem : Rem start stop rows e.new := by
        refine ⟨hsc, ?_⟩
        intro e' hE' hn
        have : e' = e := uniq_new hnew e' hE'.1 e hE.1 (endRow_inRange hlt hE')
          (endRow_inRange hlt hE) (by rw [hE.2.1, hE'.2.1]) hn
        rw [this]; exact hBl
      obtain ⟨v, hv⟩ := hG.C_total e hE.1 (endRow_inRange hlt hE) hrem
      refine Or.inr (Or.inr ⟨e, v, hE, heo, hrem, hv, ?_⟩)
      rw [← heo]; exact repl_some (by rw [hG.maC e hE hsc hBl]; exact hv)
  · exact Or.inl ⟨repl_none (hG.maN q.old hex), hex⟩

/-- an old label present at the first frame and after the range is present at the last frame -/
theorem end_of_start_after {s q : Row} (hs : StartRow start rows s) (hq : q ∈ rows)
    (haf : stop ≤ q.frame) (ho : s.old = q.old) : ∃ c, EndRow stop rows c ∧ c.old = s.old := by
  obtain ⟨c, hc, hco, hcf⟩ := contig_at hold.contig (key := (·.old)) hs.1 hq ho
    (f := stop - 1) (by rw [hs.2.1]; omega) (by omega)
  exact ⟨c, ⟨hc, hcf, hold.nonneg c hc⟩, hco⟩

/-- an old label present before the range and at the last frame is present at the first frame -/
theorem start_of_before_end {p e : Row} (hp : p ∈ rows) (hb : p.frame < start)
    (hE : EndRow stop rows e) (ho : p.old = e.old) : ∃ s, StartRow start rows s ∧ s.old = p.old := by
  obtain ⟨c, hc, hco, hcf⟩ := contig_at hold.contig (key := (·.old)) hp hE.1 ho
    (f := start) (by omega) (by rw [hE.2.1]; omega)
  exact ⟨c, ⟨hc, hcf, hold.nonneg c hc⟩, hco⟩

/-- two end rows always overlap in time -/
theorem overlap_ends {e e' : Row} (hE : EndRow stop rows e) (hE' : EndRow stop rows e')
    {t0 : Int} (h0 : e'.new = t0) : Overlap start stop rows t0 e.new :=
  ⟨e, e', ⟨hE.1, endRow_inRange hlt hE, rfl⟩, ⟨hE'.1, endRow_inRange hlt hE', h0⟩,
    by rw [hE.2.1, hE'.2.1]; exact Int.le_refl _⟩

theorem not_blocked_elim {e s : Row} (hnb : ¬ Blocked start stop rows e)
    (hs : StartRow start rows s) (ho : s.old = e.old) :
    Before start rows e.old ∧ After stop rows e.old ∧ ¬ Overlap start stop rows s.new e.new := by
  refine ⟨?_, ?_, ?_⟩
  · apply Classical.byContradiction; intro h; exact hnb ⟨s, hs, ho, Or.inl h⟩
  · apply Classical.byContradiction; intro h; exact hnb ⟨s, hs, ho, Or.inr (Or.inl h)⟩
  · intro h; exact hnb ⟨s, hs, ho, Or.inr (Or.inr h)⟩

/-- rows after the range: equal final label ⇒ equal old label -/
theorem after_inj {a b : Row} (ha : a ∈ rows) (hb : b ∈ rows) (haf : stop ≤ a.frame)
    (hbf : stop ≤ b.frame) (h : finalLabel start stop M a = finalLabel start stop M b) :
    a.old = b.old := by
  have hUold := uniqueBy_forall hold.uniq
  have hUnew := uniq_new hnew
  -- the three mixed cases, stated once
  have selfA : ∀ {x y : Row}, x ∈ rows → y ∈ rows → stop ≤ y.frame →
      (¬ ∃ e, EndRow stop rows e ∧ e.old = y.old ∧
        (SC start rows e.new ∨ Blocked start stop rows e)) →
      ∀ e s, EndRow stop rows e → e.old = x.old → StartRow start rows s → s.new = e.new →
        s.old = y.old → False := by
    intro x y _ hy hyf hno e s hE _ hs hsn hso
    obtain ⟨c, hC, hco⟩ := end_of_start_after hlt hold hnew hG hs hy hyf hso
    have hn := fun h => hno ⟨c, hC, by rw [hco, hso], h⟩
    have hnb : ¬ Blocked start stop rows c := fun h => hn (Or.inr h)
    have := (not_blocked_elim hlt hold hnew hG hnb hs hco.symm).2.2
    exact this (overlap_ends hlt hold hnew hG hC hE hsn.symm)
  have selfC : ∀ {y : Row}, y ∈ rows → stop ≤ y.frame → ∀ t v, Rem start stop rows t →
      lk M.mpF t = some v → v = y.old → False := by
    intro y hy hyf t v hrem hl hv
    have hout : ¬ inRange start stop y := by unfold inRange; omega
    exact (hG.fresh t v hrem hl).1 y hy hout hv.symm
  have AC : ∀ e s t v, EndRow stop rows e → StartRow start rows s → s.new = e.new →
      Rem start stop rows t → lk M.mpF t = some v → v = s.old → t = e.new := by
    intro e s t v hE hs hsn hrem hl hv
    have := (hG.fresh t v hrem hl).2 s.new (by rw [hv]; exact hG.A_total s hs)
    rw [← this, hsn]
  rcases after_class hlt hold hnew hG ha haf with ⟨hfa, hna⟩ | ⟨e1, s1, hE1, heo1, hs1, hsn1, hfa⟩ |
      ⟨e1, v1, hE1, heo1, hrem1, hl1, hfa⟩ <;>
    rcases after_class hlt hold hnew hG hb hbf with ⟨hfb, hnb⟩ | ⟨e2, s2, hE2, heo2, hs2, hsn2, hfb⟩ |
      ⟨e2, v2, hE2, heo2, hrem2, hl2, hfb⟩
  · rw [← hfa, ← hfb, h]
  · exact (selfA hb ha haf hna e2 s2 hE2 heo2 hs2 hsn2 (by rw [← hfb, ← h, hfa])).elim
  · exact (selfC ha haf _ _ hrem2 hl2 (by rw [← hfb, ← h, hfa])).elim
  · exact (selfA ha hb hbf hnb e1 s1 hE1 heo1 hs1 hsn1 (by rw [← hfa, h, hfb])).elim
  · have h1 : s1 = s2 := hUold s1 hs1.1 s2 hs2.1 (by rw [hs1.2.1, hs2.2.1])
      (by rw [← hfa, ← hfb, h])
    have h2 : e1 = e2 := hUnew e1 hE1.1 e2 hE2.1 (endRow_inRange hlt hE1) (endRow_inRange hlt hE2)
      (by rw [hE1.2.1, hE2.2.1]) (by rw [← hsn1, ← hsn2, h1])
    rw [← heo1, ← heo2, h2]
  · have := AC e1 s1 e2.new v2 hE1 hs1 hsn1 hrem2 hl2 (by rw [← hfb, ← h, hfa])
    exact (hrem2.1 ⟨s1, hs1, by rw [hsn1, this]⟩).elim
  · exact (selfC hb hbf _ _ hrem1 hl1 (by rw [← hfa, h, hfb])).elim
  · have := AC e2 s2 e1.new v1 hE2 hs2 hsn2 hrem1 hl1 (by rw [← hfa, h, hfb])
    exact (hrem1.1 ⟨s2, hs2, by rw [hsn2, this]⟩).elim
  · have h1 : e2.new = e1.new := (hG.fresh _ _ hrem1 hl1).2 e2.new
      (by rw [hl2, ← hfb, ← h, hfa])
    have h2 : e2 = e1 := hUnew e2 hE2.1 e1 hE1.1 (endRow_inRange hlt hE2) (endRow_inRange hlt hE1)
      (by rw [hE1.2.1, hE2.2.1]) h1
    rw [← heo1, ← heo2, h2]

/-- rows inside the range: equal final label ⇒ same in-range track, or the two tracks are the two
    pieces of an old track that exists on both sides of the range and do not overlap in time -/
theorem in_eq_cases {a b : Row} (ha : a ∈ rows) (hb : b ∈ rows) (hai : inRange start stop a)
    (hbi : inRange start stop b) (h : finalLabel start stop M a = finalLabel start stop M b) :
    a.new = b.new ∨
    (∃ s e, StartRow start rows s ∧ EndRow stop rows e ∧ s.new = a.new ∧ e.new = b.new ∧
        s.old = e.old ∧ ¬ Blocked start stop rows e) ∨
    (∃ s e, StartRow start rows s ∧ EndRow stop rows e ∧ s.new = b.new ∧ e.new = a.new ∧
        s.old = e.old ∧ ¬ Blocked start stop rows e) := by
  have hUold := uniqueBy_forall hold.uniq
  have hla := in_lk hlt hold hnew hG ha hai
  have hlb := in_lk hlt hold hnew hG hb hbi
  rcases in_class hlt hold hnew hG ha hai with ⟨s1, hs1, hsn1, hfa⟩ | ⟨hsc1, e1, hE1, hen1, hnb1, hfa⟩ |
      ⟨hrem1, v1, hv1, hfa⟩
  · rcases in_class hlt hold hnew hG hb hbi with ⟨s2, hs2, hsn2, hfb⟩ |
        ⟨hsc2, e2, hE2, hen2, hnb2, hfb⟩ | ⟨hrem2, v2, hv2, hfb⟩
    · have : s1 = s2 := hUold s1 hs1.1 s2 hs2.1 (by rw [hs1.2.1, hs2.2.1]) (by rw [← hfa, ← hfb, h])
      exact Or.inl (by rw [← hsn1, ← hsn2, this])
    · exact Or.inr (Or.inl ⟨s1, e2, hs1, hE2, hsn1, hen2, by rw [← hfa, ← hfb, h], hnb2⟩)
    · exact Or.inl ((hG.fresh _ _ hrem2 hv2).2 a.new (by rw [hla, h, hfb]))
  · rcases in_class hlt hold hnew hG hb hbi with ⟨s2, hs2, hsn2, hfb⟩ |
        ⟨hsc2, e2, hE2, hen2, hnb2, hfb⟩ | ⟨hrem2, v2, hv2, hfb⟩
    · exact Or.inr (Or.inr ⟨s2, e1, hs2, hE1, hsn2, hen1, by rw [← hfa, ← hfb, h], hnb1⟩)
    · have : e1 = e2 := hUold e1 hE1.1 e2 hE2.1 (by rw [hE1.2.1, hE2.2.1]) (by rw [← hfa, ← hfb, h])
      exact Or.inl (by rw [← hen1, ← hen2, this])
    · exact Or.inl ((hG.fresh _ _ hrem2 hv2).2 a.new (by rw [hla, h, hfb]))
  · exact Or.inl ((hG.fresh _ _ hrem1 hv1).2 b.new (by rw [hlb, ← h, hfa])).symm

end spec

section spec2
variable {start stop : Int} {rows : List Row} {M : Maps}
variable (hlt : start < stop) (hold : ValidOld rows) (hnew : ValidNew start stop rows)
  (hG : Good start stop rows M)
include hlt hold hnew hG

/-- (a) two rows of one frame never receive the same label -/
theorem final_inj_frame {a b : Row} (ha : a ∈ rows) (hb : b ∈ rows) (hf : a.frame = b.frame)
    (h : finalLabel start stop M a = finalLabel start stop M b) : a = b := by
  have hUold := uniqueBy_forall hold.uniq
  have hUnew := uniq_new hnew
  by_cases h1 : a.frame < start
  · rw [final_before hlt h1, final_before hlt (by omega)] at h
    exact hUold a ha b hb hf h
  · by_cases h2 : stop ≤ a.frame
    · exact hUold a ha b hb hf (after_inj hlt hold hnew hG ha hb h2 (by omega) h)
    · have hai : inRange start stop a := by unfold inRange; omega
      have hbi : inRange start stop b := by unfold inRange; omega
      rcases in_eq_cases hlt hold hnew hG ha hb hai hbi h with hn | ⟨s, e, hs, hE, hsn, hen, ho, hnb⟩ |
          ⟨s, e, hs, hE, hsn, hen, ho, hnb⟩
      · exact hUnew a ha b hb hai hbi hf hn
      · exact ((not_blocked_elim hlt hold hnew hG hnb hs ho).2.2
          ⟨b, a, ⟨hb, hbi, hen.symm⟩, ⟨ha, hai, hsn.symm⟩, by omega⟩).elim
      · exact ((not_blocked_elim hlt hold hnew hG hnb hs ho).2.2
          ⟨a, b, ⟨ha, hai, hen.symm⟩, ⟨hb, hbi, hsn.symm⟩, by omega⟩).elim

theorem sound_bi {a b : Row} (ha : a ∈ rows) (hb : b ∈ rows) (hab : a.frame < start)
    (hbi : inRange start stop b) (h : finalLabel start stop M a = finalLabel start stop M b) :
    Joined start stop rows a b := by
  rw [final_before hlt hab] at h
  have hao : ¬ inRange start stop a := by unfold inRange; omega
  rcases in_class hlt hold hnew hG hb hbi with ⟨s, hs, hsn, hfb⟩ | ⟨hsc, e, hE, hen, hnb, hfb⟩ |
      ⟨hrem, v, hv, hfb⟩
  · exact .trans (.symm (.gen hs.1 ha (.j3s hs.2.1 hab (by rw [← hfb, ← h]))))
      (.gen hs.1 hb (.j2 (startRow_inRange hlt hs) hbi hsn))
  · have ho : a.old = e.old := by rw [h, hfb]
    obtain ⟨s, hs, hso⟩ := start_of_before_end hlt hold hnew hG ha hab hE ho
    obtain ⟨q, hq, hqf, hqo⟩ := (not_blocked_elim hlt hold hnew hG hnb hs (by rw [hso, ho])).2.1
    have hqo' : ¬ inRange start stop q := by unfold inRange; omega
    exact .trans (.gen ha hq (.j1 hao hqo' (by rw [hqo, ho])))
      (.trans (.symm (.gen hE.1 hq (.j3e hE.2.1 hqf hqo.symm)))
        (.gen hE.1 hb (.j2 (endRow_inRange hlt hE) hbi hen)))
  · exact ((hG.fresh _ _ hrem hv).1 a ha hao (by rw [h, hfb])).elim

theorem sound_ba {a b : Row} (ha : a ∈ rows) (hb : b ∈ rows) (hab : a.frame < start)
    (hbf : stop ≤ b.frame) (h : finalLabel start stop M a = finalLabel start stop M b) :
    Joined start stop rows a b := by
  rw [final_before hlt hab] at h
  have hao : ¬ inRange start stop a := by unfold inRange; omega
  have hbo : ¬ inRange start stop b := by unfold inRange; omega
  rcases after_class hlt hold hnew hG hb hbf with ⟨hfb, _⟩ | ⟨e, s, hE, heo, hs, hsn, hfb⟩ |
      ⟨e, v, hE, heo, hrem, hl, hfb⟩
  · exact .gen ha hb (.j1 hao hbo (by rw [h, hfb]))
  · exact .trans (.symm (.gen hs.1 ha (.j3s hs.2.1 hab (by rw [← hfb, ← h]))))
      (.trans (.gen hs.1 hE.1 (.j2 (startRow_inRange hlt hs) (endRow_inRange hlt hE) hsn))
        (.gen hE.1 hb (.j3e hE.2.1 hbf heo)))
  · exact ((hG.fresh _ _ hrem hl).1 a ha hao (by rw [h, hfb])).elim

theorem sound_ia {a b : Row} (ha : a ∈ rows) (hb : b ∈ rows) (hai : inRange start stop a)
    (hbf : stop ≤ b.frame) (h : finalLabel start stop M a = finalLabel start stop M b) :
    Joined start stop rows a b := by
  have hUold := uniqueBy_forall hold.uniq
  have hUnew := uniq_new hnew
  have hbo : ¬ inRange start stop b := by unfold inRange; omega
  have viaEnd : ∀ e, EndRow stop rows e → e.new = a.new → e.old = b.old →
      Joined start stop rows a b := fun e hE hen heo =>
    .trans (.symm (.gen hE.1 ha (.j2 (endRow_inRange hlt hE) hai hen))) (.gen hE.1 hb (.j3e hE.2.1 hbf heo))
  rcases in_class hlt hold hnew hG ha hai with ⟨s, hs, hsn, hfa⟩ | ⟨hsc, e, hE, hen, hnb, hfa⟩ |
      ⟨hrem, v, hv, hfa⟩
  · rcases after_class hlt hold hnew hG hb hbf with ⟨hfb, hno⟩ | ⟨e', s', hE', heo', hs', hsn', hfb⟩ |
        ⟨e', v', hE', heo', hrem', hl', hfb⟩
    · have hso : s.old = b.old := by rw [← hfa, h, hfb]
      obtain ⟨c, hC, hco⟩ := end_of_start_after hlt hold hnew hG hs hb hbf hso
      have hnbc : ¬ Blocked start stop rows c :=
        fun hB => hno ⟨c, hC, by rw [hco, hso], Or.inr hB⟩
      obtain ⟨p, hp, hpf, hpo⟩ := (not_blocked_elim hlt hold hnew hG hnbc hs hco.symm).1
      have hpo' : ¬ inRange start stop p := by unfold inRange; omega
      exact .trans (.symm (.gen hs.1 ha (.j2 (startRow_inRange hlt hs) hai hsn)))
        (.trans (.gen hs.1 hp (.j3s hs.2.1 hpf (by rw [hpo, hco])))
          (.gen hp hb (.j1 hpo' hbo (by rw [hpo, hco, hso]))))
    · have : s = s' := hUold s hs.1 s' hs'.1 (by rw [hs.2.1, hs'.2.1]) (by rw [← hfa, h, hfb])
      exact viaEnd e' hE' (by rw [← hsn', ← this, hsn]) heo'
    · have := (hG.fresh _ _ hrem' hl').2 s.new (by rw [hG.A_total s hs, ← hfa, h, hfb])
      exact (hrem'.1 ⟨s, hs, this⟩).elim
  · rcases after_class hlt hold hnew hG hb hbf with ⟨hfb, hno⟩ | ⟨e', s', hE', heo', hs', hsn', hfb⟩ |
        ⟨e', v', hE', heo', hrem', hl', hfb⟩
    · exact viaEnd e hE hen (by rw [← hfa, h, hfb])
    · exact ((not_blocked_elim hlt hold hnew hG hnb hs' (by rw [← hfb, ← h, hfa])).2.2
        (overlap_ends hlt hold hnew hG hE hE' hsn'.symm)).elim
    · have h1 : e.new = e'.new := (hG.fresh _ _ hrem' hl').2 e.new
        (by rw [hG.B_total e hE (by rw [hen]; exact hsc) hnb, ← hfa, h, hfb])
      have h2 : e = e' := hUnew e hE.1 e' hE'.1 (endRow_inRange hlt hE) (endRow_inRange hlt hE')
        (by rw [hE.2.1, hE'.2.1]) h1
      exact viaEnd e hE hen (by rw [h2, heo'])
  · rcases after_class hlt hold hnew hG hb hbf with ⟨hfb, hno⟩ | ⟨e', s', hE', heo', hs', hsn', hfb⟩ |
        ⟨e', v', hE', heo', hrem', hl', hfb⟩
    · exact ((hG.fresh _ _ hrem hv).1 b hb hbo (by rw [← hfb, ← h, hfa])).elim
    · have := (hG.fresh _ _ hrem hv).2 s'.new (by rw [hG.A_total s' hs', ← hfb, ← h, hfa])
      exact (hrem.1 ⟨s', hs', this⟩).elim
    · have := (hG.fresh _ _ hrem hv).2 e'.new (by rw [hl', ← hfb, ← h, hfa])
      exact viaEnd e' hE' this heo'

theorem sound_ii {a b : Row} (ha : a ∈ rows) (hb : b ∈ rows) (hai : inRange start stop a)
    (hbi : inRange start stop b) (h : finalLabel start stop M a = finalLabel start stop M b) :
    Joined start stop rows a b := by
  have pieces : ∀ {a b : Row}, a ∈ rows → b ∈ rows → inRange start stop a → inRange start stop b →
      ∀ s e, StartRow start rows s → EndRow stop rows e → s.new = a.new → e.new = b.new →
        s.old = e.old → ¬ Blocked start stop rows e → Joined start stop rows a b := by
    intro a b ha hb hai hbi s e hs hE hsn hen ho hnb
    obtain ⟨⟨p, hp, hpf, hpo⟩, ⟨q, hq, hqf, hqo⟩, _⟩ := not_blocked_elim hlt hold hnew hG hnb hs ho
    have hpo' : ¬ inRange start stop p := by unfold inRange; omega
    have hqo' : ¬ inRange start stop q := by unfold inRange; omega
    exact .trans (.symm (.gen hs.1 ha (.j2 (startRow_inRange hlt hs) hai hsn)))
      (.trans (.gen hs.1 hp (.j3s hs.2.1 hpf (by rw [hpo, ho])))
        (.trans (.gen hp hq (.j1 hpo' hqo' (by rw [hpo, hqo])))
          (.trans (.symm (.gen hE.1 hq (.j3e hE.2.1 hqf hqo.symm)))
            (.gen hE.1 hb (.j2 (endRow_inRange hlt hE) hbi hen)))))
  rcases in_eq_cases hlt hold hnew hG ha hb hai hbi h with hn | ⟨s, e, hs, hE, hsn, hen, ho, hnb⟩ |
      ⟨s, e, hs, hE, hsn, hen, ho, hnb⟩
  · exact .gen ha hb (.j2 hai hbi hn)
  · exact pieces ha hb hai hbi s e hs hE hsn hen ho hnb
  · exact .symm (pieces hb ha hbi hai s e hs hE hsn hen ho hnb)

/-- (b) soundness: rows that share a final label are `Joined` -/
theorem final_eq_joined {a b : Row} (ha : a ∈ rows) (hb : b ∈ rows)
    (h : finalLabel start stop M a = finalLabel start stop M b) : Joined start stop rows a b := by
  by_cases ha1 : a.frame < start
  · by_cases hb1 : b.frame < start
    · rw [final_before hlt ha1, final_before hlt hb1] at h
      exact .gen ha hb (.j1 (by unfold inRange; omega) (by unfold inRange; omega) h)
    · by_cases hb2 : stop ≤ b.frame
      · exact sound_ba hlt hold hnew hG ha hb ha1 hb2 h
      · exact sound_bi hlt hold hnew hG ha hb ha1 (by unfold inRange; omega) h
  · by_cases ha2 : stop ≤ a.frame
    · by_cases hb1 : b.frame < start
      · exact .symm (sound_ba hlt hold hnew hG hb ha hb1 ha2 h.symm)
      · by_cases hb2 : stop ≤ b.frame
        · exact .gen ha hb (.j1 (by unfold inRange; omega) (by unfold inRange; omega)
            (after_inj hlt hold hnew hG ha hb ha2 hb2 h))
        · exact .symm (sound_ia hlt hold hnew hG hb ha (by unfold inRange; omega) ha2 h.symm)
    · have hai : inRange start stop a := by unfold inRange; omega
      by_cases hb1 : b.frame < start
      · exact .symm (sound_bi hlt hold hnew hG hb ha hb1 hai h.symm)
      · by_cases hb2 : stop ≤ b.frame
        · exact sound_ia hlt hold hnew hG ha hb hai hb2 h
        · exact sound_ii hlt hold hnew hG ha hb hai (by unfold inRange; omega) h

/-- (c, chain pairs) rows joined by J1 on one side of the range, J2 or J3 share their label -/
theorem genChain_final {a b : Row} (ha : a ∈ rows) (hb : b ∈ rows) (g : GenChain start stop a b) :
    finalLabel start stop M a = finalLabel start stop M b := by
  have hUold := uniqueBy_forall hold.uniq
  cases g with
  | j1b h1 h2 ho => rw [final_before hlt h1, final_before hlt h2, ho]
  | j1a h1 h2 ho => rw [final_after h1, final_after h2, ho]
  | j2 h1 h2 hn => rw [final_in h1, final_in h2, hn]
  | j3s h1 h2 ho =>
    have hs : StartRow start rows a := ⟨ha, h1, hold.nonneg a ha⟩
    rw [final_in (startRow_inRange hlt hs), final_before hlt h2, repl_some (hG.A_total a hs), ho]
  | j3e h1 h2 ho =>
    have hE : EndRow stop rows a := ⟨ha, h1, hold.nonneg a ha⟩
    rw [final_after h2, ← ho]
    by_cases hsc : SC start rows a.new
    · obtain ⟨s, hs, hsn⟩ := hsc
      rw [final_in (endRow_inRange hlt hE), repl_some (hG.maA a s hE hs hsn), ← hsn,
        repl_some (hG.A_total s hs)]
    · by_cases hBl : Blocked start stop rows a
      · rw [in_lk hlt hold hnew hG ha (endRow_inRange hlt hE) |> repl_some |>.symm]
        have := hG.maC a hE hsc hBl
        rw [in_lk hlt hold hnew hG ha (endRow_inRange hlt hE)] at this
        rw [repl_some this]
        exact (repl_some (in_lk hlt hold hnew hG ha (endRow_inRange hlt hE)))
      · rw [final_in (endRow_inRange hlt hE), repl_some (hG.B_total a hE hsc hBl)]
        have hno : ¬ ∃ e, EndRow stop rows e ∧ e.old = a.old ∧
            (SC start rows e.new ∨ Blocked start stop rows e) := by
          rintro ⟨e, hE', heo, h⟩
          have : e = a := hUold e hE'.1 a ha (by rw [hE'.2.1, h1]) heo
          subst this
          exact h.elim hsc hBl
        rw [repl_none (hG.maN a.old hno)]

/-- (c, J1 across the range) rows before and after the range with the same old label keep a common
    label when no `Joined`-class has two rows in one frame -/
theorem across_final (hcn : ContigNew start stop rows) (hnc : NoConflict start stop rows)
    {a b : Row} (ha : a ∈ rows) (hb : b ∈ rows) (hab : a.frame < start) (hbf : stop ≤ b.frame)
    (ho : a.old = b.old) : finalLabel start stop M a = finalLabel start stop M b := by
  have hao : ¬ inRange start stop a := by unfold inRange; omega
  have hbo : ¬ inRange start stop b := by unfold inRange; omega
  rw [final_before hlt hab]
  rcases after_class hlt hold hnew hG hb hbf with ⟨hfb, _⟩ | ⟨e, s, hE, heo, hs, hsn, hfb⟩ |
      ⟨e, v, hE, heo, hrem, hl, hfb⟩
  · rw [hfb, ho]
  · obtain ⟨s0, hs0, hso0⟩ := start_of_before_end hlt hold hnew hG ha hab hE (by rw [ho, heo])
    have hj : Joined start stop rows s0 s :=
      .trans (.gen hs0.1 ha (.j3s hs0.2.1 hab hso0))
        (.trans (.gen ha hb (.j1 hao hbo ho))
          (.trans (.symm (.gen hE.1 hb (.j3e hE.2.1 hbf heo)))
            (.symm (.gen hs.1 hE.1 (.j2 (startRow_inRange hlt hs) (endRow_inRange hlt hE) hsn)))))
    have : s0 = s := hnc s0 hs0.1 s hs.1 hj (by rw [hs0.2.1, hs.2.1])
    rw [hfb, ← this, hso0]
  · obtain ⟨s, hs, hso, hdis⟩ := hrem.2 e hE rfl
    have hB : Before start rows e.old := ⟨a, ha, hab, by rw [ho, heo]⟩
    have hA : After stop rows e.old := ⟨b, hb, hbf, heo.symm⟩
    have hov : Overlap start stop rows s.new e.new := by
      rcases hdis with h | h | h
      · exact (h hB).elim
      · exact (h hA).elim
      · exact h
    obtain ⟨x, y, ⟨hx, hxi, hxn⟩, ⟨hy, hyi, hyn⟩, hxy⟩ := hov
    have hmemf : ∀ r, r ∈ rows → inRange start stop r →
        r ∈ rows.filter (fun r => decide (inRange start stop r)) :=
      fun r hr hi => List.mem_filter.2 ⟨hr, by simpa using hi⟩
    obtain ⟨z, hz, hzn, hzf⟩ := contig_at hcn (key := (·.new)) (hmemf x hx hxi)
      (hmemf e hE.1 (endRow_inRange hlt hE)) hxn (f := y.frame) hxy
      (by rw [hE.2.1]; unfold inRange at hyi; omega)
    have hz' := List.mem_filter.1 hz
    have hzi : inRange start stop z := by simpa using hz'.2
    have hzn' : z.new = e.new := by rw [hzn, hxn]
    have hj : Joined start stop rows z y :=
      .trans (.gen hz'.1 hE.1 (.j2 hzi (endRow_inRange hlt hE) hzn'))
        (.trans (.gen hE.1 hb (.j3e hE.2.1 hbf heo))
          (.trans (.symm (.gen ha hb (.j1 hao hbo ho)))
            (.trans (.symm (.gen hs.1 ha (.j3s hs.2.1 hab (by rw [hso, heo, ho]))))
              (.gen hs.1 hy (.j2 (startRow_inRange hlt hs) hyi hyn.symm)))))
    have : z = y := hnc z hz'.1 y hy hj hzf
    exact (hrem.1 ⟨s, hs, by rw [← hzn', this, hyn]⟩).elim

/-- (c) completeness: `Joined` rows share their label when no `Joined`-class has two rows in one
    frame (and the in-range tracks have no gaps) -/
theorem joined_final (hcn : ContigNew start stop rows) (hnc : NoConflict start stop rows)
    {a b : Row} (h : Joined start stop rows a b) :
    finalLabel start stop M a = finalLabel start stop M b := by
  induction h with
  | refl a => rfl
  | symm _ ih => exact ih.symm
  | trans _ _ ih1 ih2 => exact ih1.trans ih2
  | @gen a b ha hb g =>
    cases g with
    | j2 h1 h2 hn => exact genChain_final hlt hold hnew hG ha hb (.j2 h1 h2 hn)
    | j3s h1 h2 ho => exact genChain_final hlt hold hnew hG ha hb (.j3s h1 h2 ho)
    | j3e h1 h2 ho => exact genChain_final hlt hold hnew hG ha hb (.j3e h1 h2 ho)
    | j1 h1 h2 ho =>
      by_cases ha1 : a.frame < start
      · by_cases hb1 : b.frame < start
        · exact genChain_final hlt hold hnew hG ha hb (.j1b ha1 hb1 ho)
        · exact across_final hlt hold hnew hG hcn hnc ha hb ha1
            (by unfold inRange at h2; omega) ho
      · have ha2 : stop ≤ a.frame := by unfold inRange at h1; omega
        by_cases hb1 : b.frame < start
        · exact (across_final hlt hold hnew hG hcn hnc hb ha hb1 ha2 ho.symm).symm
        · exact genChain_final hlt hold hnew hG ha hb
            (.j1a ha2 (by unfold inRange at h2; omega) ho)

end spec2

end TrackpyV.Partial
