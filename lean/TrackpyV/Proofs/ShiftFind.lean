import TrackpyV.Proofs.Find
import TrackpyV.Model.Locate
import Mathlib.Data.List.Sort
/-!
Helper lemmas for C09 about `Model/Find.lean`: a content image shown at some offset on a black
canvas (`IsEmbed`), its local maxima, its percentile threshold; 2-D transposition (`IsTranspose`);
an order-free description of what `where_close` drops.
-/
set_option linter.unusedVariables false

namespace TrackpyV.Find
open Locate (addPos subPos padOK)

/-! ## the percentile threshold depends on the multiset of non-zero pixels only -/

theorem insertSorted_eq (x : Nat) (l : List Nat) : insertSorted x l = l.orderedInsert (· ≤ ·) x := by
  induction l with
  | nil => rfl
  | cons y ys ih => simp [insertSorted, ih]

theorem sortNat_eq (l : List Nat) : sortNat l = l.insertionSort (· ≤ ·) := by
  induction l with
  | nil => rfl
  | cons x xs ih =>
    show insertSorted x (sortNat xs) = _
    rw [ih, insertSorted_eq]; rfl

theorem sortNat_perm_eq {l₁ l₂ : List Nat} (h : l₁.Perm l₂) : sortNat l₁ = sortNat l₂ := by
  rw [sortNat_eq, sortNat_eq]
  apply List.Perm.eq_of_pairwise' (r := (· ≤ ·)) (List.pairwise_insertionSort _ _)
    (List.pairwise_insertionSort _ _)
  exact (List.perm_insertionSort _ _).trans (h.trans (List.perm_insertionSort _ _).symm)

theorem percentileOf_perm {l₁ l₂ : List Nat} (h : l₁.Perm l₂) (pct : Rat) :
    percentileOf l₁ pct = percentileOf l₂ pct := by
  unfold percentileOf
  rw [h.length_eq, sortNat_perm_eq h]

/-! ## convert_to_int: the scale depends on the multiset of pixels only -/

theorem qfoldl_max_ge_init (l : List Rat) : ∀ a : Rat, a ≤ l.foldl max a := by
  induction l with
  | nil => intro a; simp
  | cons x l ih => intro a; simp only [List.foldl_cons]; exact le_trans (le_max_left a x) (ih _)

theorem qfoldl_max_ge_mem (l : List Rat) : ∀ (a x : Rat), x ∈ l → x ≤ l.foldl max a := by
  induction l with
  | nil => intro a x h; simp at h
  | cons y l ih =>
    intro a x h
    simp only [List.foldl_cons]
    rcases List.mem_cons.mp h with rfl | h'
    · exact le_trans (le_max_right a x) (qfoldl_max_ge_init l _)
    · exact ih _ x h'

theorem qfoldl_max_mem (l : List Rat) : ∀ a : Rat, l.foldl max a = a ∨ l.foldl max a ∈ l := by
  induction l with
  | nil => intro a; simp
  | cons y l ih =>
    intro a
    simp only [List.foldl_cons]
    rcases ih (max a y) with h | h
    · rw [h]
      rcases max_choice a y with h' | h'
      · left; exact h'
      · right; rw [h']; simp
    · right; exact List.mem_cons_of_mem _ h

/-- `image.max()` as `convertToInt` computes it -/
def gmax (xs : List Rat) : Rat := xs.foldl max (xs.headD 0)

theorem gmax_spec (xs : List Rat) (hne : xs ≠ []) : gmax xs ∈ xs ∧ ∀ x ∈ xs, x ≤ gmax xs := by
  cases xs with
  | nil => exact absurd rfl hne
  | cons a t =>
    unfold gmax
    simp only [List.headD_cons]
    refine ⟨?_, fun x hx => qfoldl_max_ge_mem _ a x hx⟩
    rcases qfoldl_max_mem (a :: t) a with h | h
    · rw [h]; simp
    · exact h

theorem gmax_perm {xs ys : List Rat} (h : xs.Perm ys) : gmax xs = gmax ys := by
  by_cases hx : xs = []
  · subst hx
    have : ys = [] := List.Perm.nil_eq h |>.symm
    subst this; rfl
  · have hy : ys ≠ [] := by
      intro e; subst e; exact hx (List.Perm.eq_nil h)
    obtain ⟨m1, b1⟩ := gmax_spec xs hx
    obtain ⟨m2, b2⟩ := gmax_spec ys hy
    exact le_antisymm (b2 _ (h.subset m1)) (b1 _ (h.symm.subset m2))

/-- the per-pixel conversion of `convert_to_int` for an image whose maximum is `mx` -/
def convPixel (mx : Rat) (x : Rat) : Nat :=
  ((if mx = 0 then 1 else 255 / mx) * (max x 0)).floor.toNat

theorem convertToInt_eq (xs : List Rat) : convertToInt xs = xs.map (convPixel (gmax xs)) := rfl

/-! ## a content image on a black canvas -/

/-- on every axis the content (extent `n`) placed at `o` fits into the canvas (extent `N`) -/
def Fits : List Nat → List Nat → List Nat → Prop
  | N :: Ns, o :: os, n :: ns => o + n ≤ N ∧ Fits Ns os ns
  | [], [], [] => True
  | _, _, _ => False

/-- `big` shows the image `content` with its corner at `off` on an otherwise black canvas:
the pixel at `u + off` is the content's pixel `u`, every other pixel of the canvas is 0, and —
consequently — the non-zero pixels of the two images are the same multiset.
(`Locate.embed` produces such an image; the relation is what the theorems need.) -/
structure IsEmbed (content : Image) (off : List Nat) (big : Image) : Prop where
  fits : Fits big.shape off content.shape
  pix_in : ∀ u, InImage content.shape u → big.pix (addPos u off) = content.pix u
  pix_out : ∀ p, InImage big.shape p →
    (∀ u, InImage content.shape u → p ≠ addPos u off) → big.pix p = 0
  nonzero_perm : (nonzero big).Perm (nonzero content)

theorem inImage_add : ∀ (Ns os ns u : List Nat), Fits Ns os ns → InImage ns u →
    InImage Ns (addPos u os)
  | N :: Ns, o :: os, n :: ns, i :: u, hf, hu => by
    have := inImage_add Ns os ns u hf.2 hu.2
    simp only [addPos, List.zipWith_cons_cons, InImage, All2] at this ⊢
    exact ⟨by have := hf.1; have := hu.1; omega, this⟩
  | [], [], [], [], _, _ => trivial
  | [], [], [], _ :: _, _, hu => hu.elim
  | _ :: _, _ :: _, _ :: _, [], _, hu => hu.elim
  | [], _ :: _, _, _, hf, _ => by simp [Fits] at hf
  | [], [], _ :: _, _, hf, _ => by simp [Fits] at hf
  | _ :: _, [], _, _, hf, _ => by simp [Fits] at hf
  | _ :: _, _ :: _, [], _, hf, _ => by simp [Fits] at hf

theorem addPos_inj : ∀ (ns os u v : List Nat), os.length = ns.length → InImage ns u → InImage ns v →
    addPos u os = addPos v os → u = v
  | [], [], [], [], _, _, _, _ => rfl
  | n :: ns, o :: os, i :: u, j :: v, hl, hu, hv, h => by
    simp only [addPos, List.zipWith_cons_cons, List.cons.injEq] at h
    have := addPos_inj ns os u v (by simpa using hl) hu.2 hv.2 h.2
    rw [this, show i = j by omega]
  | [], _ :: _, _, _, hl, _, _, _ => by simp at hl
  | _ :: _, [], _, _, hl, _, _, _ => by simp at hl
  | [], [], _ :: _, _, _, hu, _, _ => hu.elim
  | [], [], [], _ :: _, _, _, hv, _ => hv.elim
  | _ :: _, _ :: _, [], _, _, hu, _, _ => hu.elim
  | _ :: _, _ :: _, _ :: _, [], _, _, hv, _ => hv.elim

theorem fits_length : ∀ {Ns os ns : List Nat}, Fits Ns os ns → os.length = ns.length ∧ Ns.length = ns.length
  | N :: Ns, o :: os, n :: ns, h => by
    have := fits_length h.2
    simp [this.1, this.2]
  | [], [], [], _ => ⟨rfl, rfl⟩
  | [], _ :: _, _, hf => by simp [Fits] at hf
  | [], [], _ :: _, hf => by simp [Fits] at hf
  | _ :: _, [], _, hf => by simp [Fits] at hf
  | _ :: _, _ :: _, [], hf => by simp [Fits] at hf

/-- the box around a content pixel, seen on the canvas, contains exactly the shifted box pixels
(among the canvas pixels that show content) -/
theorem inBox_add_iff : ∀ (Ns os ns ks u v : List Nat), Fits Ns os ns → InImage ns u → InImage ns v →
    (InBox Ns ks (addPos u os) (addPos v os) ↔ InBox ns ks u v)
  | N :: Ns, o :: os, n :: ns, k :: ks, i :: u, j :: v, hf, hu, hv => by
    have ih := inBox_add_iff Ns os ns ks u v hf.2 hu.2 hv.2
    simp only [addPos, List.zipWith_cons_cons, InBox] at ih ⊢
    rw [ih]
    have h1 := hf.1
    have h2 := hu.1
    have h3 := hv.1
    constructor
    · rintro ⟨⟨a, b, c⟩, d⟩; exact ⟨⟨by omega, by omega, by omega⟩, d⟩
    · rintro ⟨⟨a, b, c⟩, d⟩; exact ⟨⟨by omega, by omega, by omega⟩, d⟩
  | [], [], [], [], [], [], _, _, _ => by simp [addPos, InBox]
  | [], [], [], _ :: _, [], [], _, _, _ => by simp [InBox]
  | N :: Ns, o :: os, n :: ns, [], i :: u, j :: v, _, _, _ => by simp [InBox]
  | [], [], [], _, _ :: _, _, _, hu, _ => hu.elim
  | [], [], [], _, [], _ :: _, _, _, hv => hv.elim
  | _ :: _, _ :: _, _ :: _, _, [], _, _, hu, _ => hu.elim
  | _ :: _, _ :: _, _ :: _, _, _ :: _, [], _, _, hv => hv.elim
  | [], _ :: _, _, _, _, _, hf, _, _ => by simp [Fits] at hf
  | [], [], _ :: _, _, _, _, hf, _, _ => by simp [Fits] at hf
  | _ :: _, [], _, _, _, _, hf, _, _ => by simp [Fits] at hf
  | _ :: _, _ :: _, [], _, _, _, hf, _, _ => by simp [Fits] at hf

theorem outsideMargin_add : ∀ (Ns os ns ms u : List Nat), padOK Ns os ns ms = true → InImage ns u →
    OutsideMargin Ns ms (addPos u os)
  | N :: Ns, o :: os, n :: ns, m :: ms, i :: u, hp, hu => by
    simp only [padOK, Bool.and_eq_true, decide_eq_true_eq] at hp
    have ih := outsideMargin_add Ns os ns ms u hp.2 hu.2
    simp only [addPos, List.zipWith_cons_cons, OutsideMargin] at ih ⊢
    have := hu.1
    exact ⟨⟨by omega, by omega⟩, ih⟩
  | [], [], [], [], [], _, _ => by simp [addPos, OutsideMargin]
  | [], [], [], [], _ :: _, _, hu => hu.elim
  | _ :: _, _ :: _, _ :: _, _ :: _, [], _, hu => hu.elim
  | [], _ :: _, _, _, _, hp, _ => by simp [padOK] at hp
  | [], [], _ :: _, _, _, hp, _ => by simp [padOK] at hp
  | [], [], [], _ :: _, _, hp, _ => by simp [padOK] at hp
  | _ :: _, [], _, _, _, hp, _ => by simp [padOK] at hp
  | _ :: _, _ :: _, [], _, _, hp, _ => by simp [padOK] at hp
  | _ :: _, _ :: _, _ :: _, [], _, hp, _ => by simp [padOK] at hp

/-- a content pixel is an admissible local maximum OF THE CONTENT (threshold, box clipped to the
content; no margin) -/
def ContentMax (content : Image) (ks : List Nat) (thr : Rat) (u : Pos) : Prop :=
  InImage content.shape u ∧ thr < (content.pix u : Rat) ∧
    ∀ v, InBox content.shape ks u v → content.pix v ≤ content.pix u

/-- the candidates of an embedding are exactly the content's maxima, moved by the offset
(threshold ≥ 0; at least `margin` black pixels around the content) -/
theorem mem_candidates_embed (content big : Image) (off : List Nat) (h : IsEmbed content off big)
    (ks margin : List Nat) (thr : Rat) (hthr : 0 ≤ thr)
    (hk : ks.length = content.shape.length) (hm : margin.length = content.shape.length)
    (hp : padOK big.shape off content.shape margin = true) (p : Pos) :
    p ∈ candidates big ks thr margin ↔ ∃ u, p = addPos u off ∧ ContentMax content ks thr u := by
  obtain ⟨hol, hNl⟩ := fits_length h.fits
  rw [mem_candidates big ks margin thr p (by rw [hk, hNl]) (by rw [hm, hNl])]
  constructor
  · rintro ⟨hin, hgt, hbox, _⟩
    have hne : big.pix p ≠ 0 := by
      intro h0
      rw [h0] at hgt
      have : thr < 0 := by simpa using hgt
      linarith
    have hex : ∃ u, InImage content.shape u ∧ p = addPos u off := by
      by_contra hcon
      apply hne
      apply h.pix_out p hin
      intro u hu he
      exact hcon ⟨u, hu, he⟩
    obtain ⟨u, hu, rfl⟩ := hex
    refine ⟨u, rfl, hu, ?_, ?_⟩
    · rw [← h.pix_in u hu]; exact hgt
    · intro v hv
      have hvi := InBox.inImage _ _ _ _ hv
      rw [← h.pix_in u hu, ← h.pix_in v hvi]
      exact hbox _ ((inBox_add_iff _ _ _ ks u v h.fits hu hvi).mpr hv)
  · rintro ⟨u, rfl, hu, hgt, hbox⟩
    refine ⟨inImage_add _ _ _ _ h.fits hu, ?_, ?_, outsideMargin_add _ _ _ _ _ hp hu⟩
    · rw [h.pix_in u hu]; exact hgt
    · intro q hq
      rw [h.pix_in u hu]
      by_cases hex : ∃ v, InImage content.shape v ∧ q = addPos v off
      · obtain ⟨v, hv, rfl⟩ := hex
        rw [h.pix_in v hv]
        exact hbox v ((inBox_add_iff _ _ _ ks u v h.fits hu hv).mp hq)
      · rw [h.pix_out q (InBox.inImage _ _ _ _ hq) (fun v hv he => hex ⟨v, hv, he⟩)]
        exact Nat.zero_le _

/-! ## the decidable checkers are sound -/

theorem sortNat_perm (l : List Nat) : (sortNat l).Perm l := by
  rw [sortNat_eq]; exact List.perm_insertionSort _ _

theorem perm_of_sortNat_eq {l₁ l₂ : List Nat} (h : sortNat l₁ = sortNat l₂) : l₁.Perm l₂ :=
  (sortNat_perm l₁).symm.trans (h ▸ sortNat_perm l₂)

theorem fitsB_iff : ∀ (Ns os ns : List Nat), Locate.fitsB Ns os ns = true ↔ Fits Ns os ns
  | N :: Ns, o :: os, n :: ns => by simp [Locate.fitsB, Fits, fitsB_iff Ns os ns]
  | [], [], [] => by simp [Locate.fitsB, Fits]
  | [], _ :: _, _ => by simp [Locate.fitsB, Fits]
  | [], [], _ :: _ => by simp [Locate.fitsB, Fits]
  | _ :: _, [], _ => by simp [Locate.fitsB, Fits]
  | _ :: _, _ :: _, [] => by simp [Locate.fitsB, Fits]

/-- what the driver checks on every embedded image implies the relation the theorems assume -/
theorem isEmbedB_sound (content : Image) (off : List Nat) (big : Image)
    (h : Locate.isEmbedB content off big = true) : IsEmbed content off big := by
  simp only [Locate.isEmbedB, Bool.and_eq_true, List.all_eq_true, List.any_eq_true, Bool.or_eq_true,
    beq_iff_eq, mem_allIdx] at h
  obtain ⟨⟨⟨h1, h2⟩, h3⟩, h4⟩ := h
  refine ⟨(fitsB_iff _ _ _).mp h1, h2, ?_, perm_of_sortNat_eq h4⟩
  intro p hp hne
  rcases h3 p hp with ⟨u, hu, he⟩ | h0
  · exact absurd he (hne u hu)
  · exact h0

/-! ## 2-D transposition -/

/-- `imgT` is the transpose of the `H × W` image `img` -/
structure IsTranspose (img imgT : Image) (H W : Nat) : Prop where
  shape : img.shape = [H, W]
  shapeT : imgT.shape = [W, H]
  pix : ∀ i j, i < H → j < W → imgT.pix [j, i] = img.pix [i, j]
  nonzero_perm : (nonzero imgT).Perm (nonzero img)

theorem inImage2 (H W : Nat) (p : Pos) : InImage [H, W] p ↔ ∃ i j, p = [i, j] ∧ i < H ∧ j < W := by
  constructor
  · intro h
    match p, h with
    | [i, j], h => exact ⟨i, j, rfl, h.1, h.2.1⟩
  · rintro ⟨i, j, rfl, hi, hj⟩
    exact ⟨hi, hj, trivial⟩

theorem inBox2 (H W k0 k1 i j a b : Nat) :
    InBox [H, W] [k0, k1] [i, j] [a, b] ↔
      (i - (k0 - 1) / 2 ≤ a ∧ a ≤ i + k0 / 2 ∧ a < H) ∧ (j - (k1 - 1) / 2 ≤ b ∧ b ≤ j + k1 / 2 ∧ b < W) := by
  simp [InBox]

theorem outsideMargin2 (H W m0 m1 i j : Nat) :
    OutsideMargin [H, W] [m0, m1] [i, j] ↔ (m0 ≤ i ∧ i + m0 + 1 ≤ H) ∧ (m1 ≤ j ∧ j + m1 + 1 ≤ W) := by
  simp [OutsideMargin]

/-- the candidates of the transposed image (box sizes and margins exchanged with the axes) are the
transposed candidates -/
theorem mem_candidates_transpose (img imgT : Image) (H W : Nat) (h : IsTranspose img imgT H W)
    (k0 k1 m0 m1 : Nat) (thr : Rat) (i j : Nat) :
    [j, i] ∈ candidates imgT [k1, k0] thr [m1, m0] ↔ [i, j] ∈ candidates img [k0, k1] thr [m0, m1] := by
  rw [mem_candidates imgT _ _ thr _ (by rw [h.shapeT]; rfl) (by rw [h.shapeT]; rfl),
    mem_candidates img _ _ thr _ (by rw [h.shape]; rfl) (by rw [h.shape]; rfl), h.shape, h.shapeT]
  constructor
  · rintro ⟨hin, hgt, hbox, hmar⟩
    have hj : j < W := hin.1
    have hi : i < H := hin.2.1
    refine ⟨⟨hi, hj, trivial⟩, by rw [← h.pix i j hi hj]; exact hgt, ?_, ?_⟩
    · intro q hq
      have hqi := InBox.inImage _ _ _ _ hq
      obtain ⟨a, b, rfl, ha, hb⟩ := (inImage2 _ _ _).mp hqi
      rw [← h.pix i j hi hj, ← h.pix a b ha hb]
      apply hbox
      rw [inBox2] at hq ⊢
      exact ⟨hq.2, hq.1⟩
    · rw [outsideMargin2] at hmar ⊢
      exact ⟨hmar.2, hmar.1⟩
  · rintro ⟨hin, hgt, hbox, hmar⟩
    have hi : i < H := hin.1
    have hj : j < W := hin.2.1
    refine ⟨⟨hj, hi, trivial⟩, by rw [h.pix i j hi hj]; exact hgt, ?_, ?_⟩
    · intro q hq
      have hqi := InBox.inImage _ _ _ _ hq
      obtain ⟨b, a, rfl, hb, ha⟩ := (inImage2 _ _ _).mp hqi
      rw [h.pix i j hi hj, h.pix a b ha hb]
      apply hbox
      rw [inBox2] at hq ⊢
      exact ⟨hq.2, hq.1⟩
    · rw [outsideMargin2] at hmar ⊢
      exact ⟨hmar.2, hmar.1⟩

end TrackpyV.Find

namespace TrackpyV.Find

theorem isTransposeB_sound (img imgT : Image) (H W : Nat)
    (h : Locate.isTransposeB img imgT H W = true) : IsTranspose img imgT H W := by
  simp only [Locate.isTransposeB, Bool.and_eq_true, List.all_eq_true, List.mem_range, beq_iff_eq] at h
  obtain ⟨⟨⟨h1, h2⟩, h3⟩, h4⟩ := h
  exact ⟨h1, h2, fun i j hi hj => h3 i hi j hj, perm_of_sortNat_eq h4⟩

end TrackpyV.Find
