import TrackpyV.Proofs.Algo
/-!
The label lemmas of `Proofs/Algo.lean` (parts 4-6) for an ARBITRARY list of choices
`ch : List (source number × chosen candidate)` instead of the plain step's `choices`: whatever
produced the choices, if no source and no real destination occurs twice, every source exists and
every link is within range (`ChoiceOK`), then naming the destinations by `labelOf` gives labels
that are valid in the sense of C01 (`valid_of_choiceOK`), and reading the labels back returns the
choices (`idxOf_chosen`, `track_not_mem_of_unlinked`).  Used by the adaptive algorithm
(`Proofs/AdaptiveAlgo.lean`).
-/
namespace TrackpyV.Linker
open TrackpyV.Assign

/-- what the labelling needs to know about a list of choices -/
structure ChoiceOK (cfg : Cfg) (st : State) (t : Int) (dsts : List Pos)
    (ch : List (Nat × Cand)) : Prop where
  fst_nodup : (ch.map Prod.fst).Nodup
  fst_lt : ∀ x ∈ ch, x.1 < st.srcs.length
  dests_nodup : (ch.filterMap (fun x => x.2.1)).Nodup
  in_range : ∀ x ∈ ch, ∀ j, x.2.1 = some j → ∃ (hi : x.1 < st.srcs.length) (hj : j < dsts.length),
    dist2 cfg.w (view cfg t st.srcs[x.1]) dsts[j] ≤ cfg.B

/-- the labels assigned from a list of choices -/
def labelsOf (st : State) (ch : List (Nat × Cand)) (n : Nat) : List Nat :=
  (List.range n).map (labelOf st ch)

section
variable {cfg : Cfg} {st : State} {t : Int} {dsts : List Pos} {ch : List (Nat × Cand)}

theorem ch_dest_inj (h : ChoiceOK cfg st t dsts ch) (x y : Nat × Cand) (hx : x ∈ ch) (hy : y ∈ ch)
    (j : Nat) (hxj : x.2.1 = some j) (hyj : y.2.1 = some j) : x = y :=
  eq_of_nodup_filterMap _ (fun z => z.2.1) h.dests_nodup x y hx hy j hxj hyj

theorem ch_src_inj (h : ChoiceOK cfg st t dsts ch) (x y : Nat × Cand) (hx : x ∈ ch) (hy : y ∈ ch)
    (hxy : x.1 = y.1) : x = y := by
  have : (ch.filterMap (fun z => some z.1)).Nodup := by
    have e : ch.filterMap (fun z => some z.1) = ch.map Prod.fst := by
      induction ch with
      | nil => rfl
      | cons a l ih => simp
    rw [e]; exact h.fst_nodup
  exact eq_of_nodup_filterMap _ (fun z => some z.1) this x y hx hy x.1 rfl (by rw [hxy])

theorem labelOf_chosen' (h : ChoiceOK cfg st t dsts ch) (x : Nat × Cand) (hx : x ∈ ch) (j : Nat)
    (hj : x.2.1 = some j) : labelOf st ch j = trackOf st x.1 := by
  unfold labelOf
  cases hf : ch.find? (fun y => y.2.1 == some j) with
  | none =>
    have := List.find?_eq_none.mp hf x hx
    simp [hj] at this
  | some y =>
    have hy := List.mem_of_find?_eq_some hf
    have hyj : y.2.1 = some j := by simpa using List.find?_some hf
    rw [ch_dest_inj h x y hx hy j hj hyj]

theorem labelOf_cases' (st : State) (ch : List (Nat × Cand)) (j : Nat) :
    (∃ x ∈ ch, x.2.1 = some j ∧ labelOf st ch j = trackOf st x.1) ∨
    ((∀ x ∈ ch, x.2.1 ≠ some j) ∧ labelOf st ch j = freshBase st + j) := by
  unfold labelOf
  cases hf : ch.find? (fun y => y.2.1 == some j) with
  | none =>
    right
    refine ⟨?_, rfl⟩
    intro x hx hxj
    have := List.find?_eq_none.mp hf x hx
    simp [hxj] at this
  | some y =>
    left
    exact ⟨y, List.mem_of_find?_eq_some hf, by simpa using List.find?_some hf, rfl⟩

theorem labelOf_inj' (h : ChoiceOK cfg st t dsts ch) (hg : Good st) (j j' : Nat)
    (he : labelOf st ch j = labelOf st ch j') : j = j' := by
  rcases labelOf_cases' st ch j with ⟨x, hx, hxj, hl⟩ | ⟨_, hl⟩ <;>
    rcases labelOf_cases' st ch j' with ⟨x', hx', hxj', hl'⟩ | ⟨_, hl'⟩
  · rw [hl, hl'] at he
    have := trackOf_inj st hg x.1 x'.1 (h.fst_lt x hx) (h.fst_lt x' hx') he
    have hxx := ch_src_inj h x x' hx hx' this
    rw [hxx, hxj'] at hxj
    exact (Option.some.inj hxj).symm
  · rw [hl, hl'] at he
    have := lt_freshBase st _ (trackOf_used st hg x.1 (h.fst_lt x hx))
    omega
  · rw [hl, hl'] at he
    have := lt_freshBase st _ (trackOf_used st hg x'.1 (h.fst_lt x' hx'))
    omega
  · rw [hl, hl'] at he; omega

theorem labelsOf_length (st : State) (ch : List (Nat × Cand)) (n : Nat) :
    (labelsOf st ch n).length = n := by simp [labelsOf]

theorem labelsOf_getElem (st : State) (ch : List (Nat × Cand)) (n j : Nat)
    (hj : j < (labelsOf st ch n).length) : (labelsOf st ch n)[j] = labelOf st ch j := by
  simp [labelsOf]

theorem labelsOf_nodup (h : ChoiceOK cfg st t dsts ch) (hg : Good st) (n : Nat) :
    (labelsOf st ch n).Nodup := by
  unfold labelsOf List.Nodup
  rw [List.pairwise_map]
  refine List.Pairwise.imp ?_ (List.pairwise_lt_range)
  intro a b hab he
  have := labelOf_inj' h hg a b he
  omega

theorem mem_labelsOf (st : State) (ch : List (Nat × Cand)) (n l : Nat) :
    l ∈ labelsOf st ch n ↔ ∃ j < n, labelOf st ch j = l := by
  simp [labelsOf, List.mem_map, List.mem_range]

theorem mem_zip_labelsOf (st : State) (ch : List (Nat × Cand)) (dsts : List Pos) (q : Pos) (l : Nat)
    (h : (q, l) ∈ dsts.zip (labelsOf st ch dsts.length)) :
    ∃ j, ∃ hj : j < dsts.length, q = dsts[j] ∧ l = labelOf st ch j := by
  obtain ⟨j, hj, he⟩ := List.mem_iff_getElem.mp h
  simp only [List.length_zip, labelsOf_length, Nat.min_self] at hj
  refine ⟨j, hj, ?_, ?_⟩
  · have := congrArg Prod.fst he; simpa using this.symm
  · have := congrArg Prod.snd he
    simp only [List.getElem_zip] at this
    rw [labelsOf_getElem] at this
    exact this.symm

/-- **the labels made from well-formed choices are valid (C01 part of the relation)** -/
theorem valid_of_choiceOK (h : ChoiceOK cfg st t dsts ch) (hg : Good st) :
    validWhy cfg st t dsts (labelsOf st ch dsts.length) = none := by
  unfold validWhy
  have h1 : ¬ ((labelsOf st ch dsts.length).length ≠ dsts.length) := by
    simp [labelsOf_length]
  have h2 : (!(decide (labelsOf st ch dsts.length).Nodup)) = false := by
    simp [labelsOf_nodup h hg]
  have h3 : (freshLabels st (labelsOf st ch dsts.length)).any (fun l => st.used.contains l) = false := by
    rw [List.any_eq_false]
    intro l hl
    simp only [freshLabels, List.mem_filter, List.contains_eq_mem, Bool.not_eq_true',
      decide_eq_false_iff_not] at hl
    obtain ⟨hmem, hnt⟩ := hl
    obtain ⟨j, _, hlj⟩ := (mem_labelsOf st ch _ l).mp hmem
    simp only [List.contains_eq_mem, decide_eq_true_eq]
    rcases labelOf_cases' st ch j with ⟨x, hx, _, hlab⟩ | ⟨_, hlab⟩
    · exfalso
      apply hnt
      rw [← hlj, hlab, trackOf_eq st x.1 (h.fst_lt x hx)]
      exact List.mem_map.mpr ⟨_, List.getElem_mem _, rfl⟩
    · intro hu
      have := lt_freshBase st l hu
      rw [← hlj, hlab] at this
      omega
  have h4 : (!(linksOkB cfg st t dsts (labelsOf st ch dsts.length))) = false := by
    simp only [Bool.not_eq_false', linksOkB, List.all_eq_true]
    intro ql hql
    obtain ⟨q, l⟩ := ql
    obtain ⟨j, hj, rfl, rfl⟩ := mem_zip_labelsOf st ch dsts q l hql
    simp only
    cases hf : st.srcs.find? (fun s => s.track == labelOf st ch j) with
    | none => rfl
    | some s =>
      simp only [decide_eq_true_eq]
      have hsm : s ∈ st.srcs := List.mem_of_find?_eq_some hf
      have hst : s.track = labelOf st ch j := by
        simpa using List.find?_some hf
      rcases labelOf_cases' st ch j with ⟨x, hx, hxj, hlab⟩ | ⟨_, hlab⟩
      · obtain ⟨hi, _, hle⟩ := h.in_range x hx j hxj
        have hs : s = st.srcs[x.1] := by
          apply src_eq_of_track_eq st hg s _ hsm (List.getElem_mem _)
          rw [hst, hlab, trackOf_eq st x.1 hi]
        rw [hs]
        exact hle
      · exfalso
        have := lt_freshBase st _ (hg.tracksUsed s hsm)
        rw [hst, hlab] at this
        omega
  simp only [h1, h2, h3, h4, if_false, Bool.false_eq_true]

/-- a source that is linked to nothing by the choices (absent, or present with the null link)
does not have its track among the labels -/
theorem track_not_mem_of_unlinked (h : ChoiceOK cfg st t dsts ch) (hg : Good st) (i : Nat)
    (hi : i < st.srcs.length) (hun : ∀ x ∈ ch, x.1 = i → x.2.1 = none) (n : Nat) :
    st.srcs[i].track ∉ labelsOf st ch n := by
  intro hmem
  have htr : st.srcs[i].track = trackOf st i := (trackOf_eq st i hi).symm
  obtain ⟨j', _, hlj⟩ := (mem_labelsOf st ch n _).mp hmem
  rcases labelOf_cases' st ch j' with ⟨x', hx', hxj', hlab⟩ | ⟨_, hlab⟩
  · rw [hlab, htr] at hlj
    have := trackOf_inj st hg x'.1 i (h.fst_lt x' hx') hi hlj
    have := hun x' hx' this
    rw [this] at hxj'; cases hxj'
  · rw [hlab, htr] at hlj
    have := lt_freshBase st _ (trackOf_used st hg i hi)
    omega

/-- the label of the destination a source chose is found at exactly that destination -/
theorem idxOf_chosen (h : ChoiceOK cfg st t dsts ch) (hg : Good st) (x : Nat × Cand) (hx : x ∈ ch)
    (j : Nat) (hxj : x.2.1 = some j) (n : Nat) (hj : j < n) :
    (labelsOf st ch n).idxOf? (st.srcs[x.1]'(h.fst_lt x hx)).track = some j := by
  have hi := h.fst_lt x hx
  have htr : st.srcs[x.1].track = trackOf st x.1 := (trackOf_eq st x.1 hi).symm
  have hlab : labelOf st ch j = trackOf st x.1 := labelOf_chosen' h x hx j hxj
  rw [List.idxOf?_eq_some_iff]
  refine ⟨by rw [labelsOf_length]; exact hj, ?_, ?_⟩
  · rw [labelsOf_getElem, hlab, htr]
  · intro j' hj' heq
    rw [labelsOf_getElem, htr, ← hlab] at heq
    have := labelOf_inj' h hg j' j heq
    omega

end

end TrackpyV.Linker
