import TrackpyV.Model.AdaptiveAlgo
import TrackpyV.Props.C12Split
import TrackpyV.Proofs.AlgoGen
/-!
Towards `Props/C12Algo.algoA_accepted`: the adaptive monitor `stepCheckA` accepts the
deterministic adaptive step `algoLabelsA` (`Model/AdaptiveAlgo.lean`).

Part 1: list helpers.  Part 2: what `plan` preserves (source numbers stay distinct, per-source
facts stable under pruning).  Part 3: the sub-nets of a step.  Part 4: the solver on a final group.
Part 5: the list of all choices is well-formed (`ChoiceOK`), hence the labels are valid.
-/
namespace TrackpyV.Adaptive
open TrackpyV.Assign TrackpyV.Linker

/-! ### Part 1: list helpers -/

theorem nodup_flatMap_of_subset {α β} (l : List α) (f g : α → List β)
    (hg : (l.flatMap g).Nodup) (hf : ∀ x ∈ l, (f x).Nodup ∧ ∀ b ∈ f x, b ∈ g x) :
    (l.flatMap f).Nodup := by
  induction l with
  | nil => simp
  | cons x xs ih =>
    simp only [List.flatMap_cons, List.nodup_append] at hg ⊢
    obtain ⟨hf1, hf2⟩ := hf x (List.mem_cons_self ..)
    refine ⟨hf1, ih hg.2.1 (fun y hy => hf y (List.mem_cons_of_mem _ hy)), ?_⟩
    intro b hb b' hb' hbb
    subst hbb
    obtain ⟨y, hy, hby⟩ := List.mem_flatMap.mp hb'
    exact hg.2.2 b (hf2 b hb) b
      (List.mem_flatMap.mpr ⟨y, hy, (hf y (List.mem_cons_of_mem _ hy)).2 b hby⟩) rfl

theorem allSome_map_getD {α β} (l : List α) (f : α → Option β) (d : β)
    (h : ∀ x ∈ l, ∃ y, f x = some y) :
    allSome (l.map f) = some (l.map (fun x => (f x).getD d)) := by
  induction l with
  | nil => rfl
  | cons x xs ih =>
    obtain ⟨y, hy⟩ := h x (List.mem_cons_self ..)
    simp [allSome, hy, ih (fun z hz => h z (List.mem_cons_of_mem _ hz))]

theorem flatten_eq_flatMap_getD {α β} (P : α → Option (List β)) (subs : List α)
    (rs : List (List β)) (h : subs.map P = rs.map some) :
    rs.flatten = subs.flatMap (fun s => (P s).getD []) := by
  induction subs generalizing rs with
  | nil =>
    cases rs with
    | nil => rfl
    | cons r rs => simp at h
  | cons s subs ih =>
    cases rs with
    | nil => simp at h
    | cons r rs =>
      simp only [List.map_cons, List.cons.injEq] at h
      simp only [List.flatten_cons, List.flatMap_cons, h.1, Option.getD_some, ih rs h.2]

theorem all_some_of_map_eq {α β} (P : α → Option β) (subs : List α) (rs : List β)
    (h : subs.map P = rs.map some) : ∀ s ∈ subs, ∃ r, P s = some r := by
  intro s hs
  have : P s ∈ rs.map some := by rw [← h]; exact List.mem_map.mpr ⟨s, hs, rfl⟩
  obtain ⟨r, _, hr⟩ := List.mem_map.mp this
  exact ⟨r, hr.symm⟩

/-! ### Part 2: what `plan` preserves -/

/-- the final groups of a net (empty when the plan raises) -/
def pf (a : ACfg) (B fuel k : Nat) (n : Net) : List Final := (plan a B fuel k n).getD []

def finalIds (f : Final) : List Nat := netIds f.net

theorem mem_pf {a : ACfg} {B fuel k : Nat} {n : Net} {f : Final} (h : f ∈ pf a B fuel k n) :
    ∃ fs, plan a B fuel k n = some fs ∧ f ∈ fs := by
  unfold pf at h
  cases hp : plan a B fuel k n with
  | none => rw [hp] at h; simp at h
  | some fs => rw [hp] at h; exact ⟨fs, rfl, by simpa using h⟩

/-- a per-source fact that survives pruning holds for every source of every final group -/
theorem plan_srcs_forall (a : ACfg) (B : Nat) (P : Nat × List Cand → Prop)
    (hP : ∀ i cs k, P (i, cs) → P (i, prune a B k cs))
    (fuel k : Nat) (n : Net) (fs : List Final) (h : plan a B fuel k n = some fs)
    (hn : ∀ s ∈ n.srcs, P s) : ∀ f ∈ fs, ∀ s ∈ f.net.srcs, P s := by
  induction fuel generalizing k n fs with
  | zero => simp [plan] at h
  | succ fuel ih =>
    simp only [plan] at h
    split at h
    · cases h
      intro f hf
      simp only [List.mem_singleton] at hf
      subst hf; exact hn
    · split at h
      · cases h
      · simp only [Option.map_eq_some_iff] at h
        obtain ⟨rs, hrs, rfl⟩ := h
        have hmap := allSome_eq_some _ _ hrs
        intro f hf
        simp only [List.mem_flatten] at hf
        obtain ⟨gs, hgs, hfg⟩ := hf
        have : some gs ∈ (split a B (k + 1) n).map (plan a B fuel (k + 1)) := by
          rw [hmap]; exact List.mem_map.mpr ⟨gs, hgs, rfl⟩
        simp only [List.mem_map] at this
        obtain ⟨sub, hsub, hplan⟩ := this
        refine ih (k + 1) sub gs hplan ?_ f hfg
        intro s hs
        obtain ⟨cs, hcs, he⟩ := split_srcs_pruned a B (k + 1) n sub hsub s hs
        have := hP s.1 cs (k + 1) (hn _ hcs)
        rw [← he] at this
        exact this

/-- the source numbers of the final groups are distinct and come from the net -/
theorem plan_ids (a : ACfg) (B : Nat) (fuel k : Nat) (n : Net) (fs : List Final)
    (hwf : NetWF n) (h : plan a B fuel k n = some fs) :
    (fs.flatMap finalIds).Nodup ∧ ∀ i ∈ fs.flatMap finalIds, i ∈ netIds n := by
  induction fuel generalizing k n fs with
  | zero => simp [plan] at h
  | succ fuel ih =>
    simp only [plan] at h
    split at h
    · cases h
      simp only [List.flatMap_cons, List.flatMap_nil, List.append_nil, finalIds]
      exact ⟨hwf.ids_nodup, fun i hi => hi⟩
    · split at h
      · cases h
      · simp only [Option.map_eq_some_iff] at h
        obtain ⟨rs, hrs, rfl⟩ := h
        have hmap := allSome_eq_some _ _ hrs
        have hsubwf := split_wf a B (k + 1) n hwf
        rw [flatten_eq_flatMap_getD _ _ _ hmap, List.flatMap_assoc]
        have hperm := split_srcs_perm a B (k + 1) n hwf
        have hidL : ((splitL a B (k + 1) n).map (·.1)).Nodup := by
          rw [splitL_ids]; exact hwf.ids_nodup
        have hsub : ∀ sub ∈ split a B (k + 1) n,
            (((plan a B fuel (k + 1) sub).getD []).flatMap finalIds).Nodup ∧
            ∀ i ∈ ((plan a B fuel (k + 1) sub).getD []).flatMap finalIds, i ∈ netIds sub := by
          intro sub hs
          obtain ⟨gs, hgs⟩ := all_some_of_map_eq _ _ _ hmap sub hs
          rw [hgs]
          exact ih (k + 1) sub gs (hsubwf sub hs) hgs
        refine ⟨?_, ?_⟩
        · exact nodup_flatMap_of_subset _ _ netIds
            ((hperm.nodup_iff).mpr (liveIds_nodup _ hidL)) hsub
        · intro i hi
          obtain ⟨sub, hs, hisub⟩ := List.mem_flatMap.mp hi
          have h1 : i ∈ (split a B (k + 1) n).flatMap (fun m => m.srcs.map (·.1)) :=
            List.mem_flatMap.mpr ⟨sub, hs, (hsub sub hs).2 i hisub⟩
          have h2 := liveIds_sub _ i ((hperm.mem_iff).mp h1)
          rw [splitL_ids] at h2
          exact h2

/-! ### Part 3: the sub-nets of a step -/

/-- the net made from a group of the step -/
def netOfG (cfg : Cfg) (st : State) (t : Int) (dsts : List Pos) (g : Group) : Net :=
  { srcs := g.1.reverse.map (fun i =>
      (i, realOfRow cfg.B (getD' (st.srcs.map (distRow cfg t dsts)) i []))),
    dsts := g.2 }

theorem stepNets_eq (cfg : Cfg) (st : State) (t : Int) (dsts : List Pos) :
    stepNets cfg st t dsts = (stepGroups cfg st t dsts).map (netOfG cfg st t dsts) := rfl

theorem netIds_netOfG (cfg : Cfg) (st : State) (t : Int) (dsts : List Pos) (g : Group) :
    netIds (netOfG cfg st t dsts g) = g.1.reverse := by
  simp [netIds, netOfG, List.map_map, Function.comp_def]

theorem stepNets_ids (cfg : Cfg) (st : State) (t : Int) (dsts : List Pos) :
    ((stepNets cfg st t dsts).flatMap netIds).Nodup ∧
    ∀ i ∈ (stepNets cfg st t dsts).flatMap netIds, i < st.srcs.length := by
  have e : (stepNets cfg st t dsts).flatMap netIds =
      (stepGroups cfg st t dsts).flatMap (fun g => g.1.reverse) := by
    rw [stepNets_eq, List.flatMap_map]
    exact Linker.flatMap_congr_mem (fun g _ => netIds_netOfG cfg st t dsts g)
  have hperm := flatMap_reverse_perm (stepGroups cfg st t dsts)
  have inv := stepGroups_srcInv cfg st t dsts
  rw [e]
  exact ⟨(hperm.nodup_iff).mpr inv.nodup, fun i hi => inv.lt i ((hperm.mem_iff).mp hi)⟩

theorem stepNets_dsts_nodup (cfg : Cfg) (st : State) (t : Int) (dsts : List Pos) :
    ((stepNets cfg st t dsts).flatMap (·.dsts)).Nodup := by
  have e : (stepNets cfg st t dsts).flatMap (·.dsts) =
      (stepGroups cfg st t dsts).flatMap (·.2) := by
    rw [stepNets_eq, List.flatMap_map]; rfl
  rw [e]
  exact ((stepGroups_inv cfg st t dsts).dests_perm.nodup_iff).mpr List.nodup_range

theorem mem_realOfRow (B : Nat) (row : List Nat) (c : Cand) (h : c ∈ realOfRow B row) :
    ∃ j, ∃ hj : j < row.length, c = (some j, row[j]) ∧ row[j] ≤ B := by
  simp only [realOfRow, mem_foldr_insCand, List.mem_filterMap] at h
  obtain ⟨⟨d, j⟩, hm, hc⟩ := h
  have := List.mem_zipIdx hm
  simp only [Nat.zero_add, Nat.sub_zero] at this
  obtain ⟨_, hj, hd⟩ := this
  simp only at hc
  split at hc
  · rename_i hle
    cases hc
    exact ⟨j, hj, by rw [hd], by rw [← hd]; exact hle⟩
  · cases hc

/-- what is known about one source entry `(i, cs)` of a (sub-)net of the step: the source exists,
its list is sorted by cost, and every entry is a real candidate within range that carries the
distance as its cost -/
def SrcOK (cfg : Cfg) (st : State) (t : Int) (dsts : List Pos) (s : Nat × List Cand) : Prop :=
  ∃ hi : s.1 < st.srcs.length, SortedC s.2 ∧
    ∀ c ∈ s.2, ∃ j, ∃ hj : j < dsts.length,
      c = (some j, dist2 cfg.w (view cfg t st.srcs[s.1]) dsts[j]) ∧
      dist2 cfg.w (view cfg t st.srcs[s.1]) dsts[j] ≤ cfg.B

theorem sortedC_prune (a : ACfg) (B k : Nat) (cs : List Cand) (h : SortedC cs) :
    SortedC (prune a B k cs) := by
  induction cs with
  | nil => simp [prune, SortedC]
  | cons x xs ih =>
    obtain ⟨d, w⟩ := x
    simp only [prune]
    split
    · rw [sortedC_cons_iff]
      refine ⟨?_, ih (SortedC.tail h)⟩
      intro y hy
      exact SortedC.head_le h y (prune_sub a B k xs y hy)
    · trivial

theorem srcOK_prune (a : ACfg) (cfg : Cfg) (st : State) (t : Int) (dsts : List Pos)
    (i : Nat) (cs : List Cand) (k : Nat) (h : SrcOK cfg st t dsts (i, cs)) :
    SrcOK cfg st t dsts (i, prune a cfg.B k cs) := by
  obtain ⟨hi, hs, hc⟩ := h
  exact ⟨hi, sortedC_prune a cfg.B k cs hs, fun c hcm => hc c (prune_sub a cfg.B k cs c hcm)⟩

theorem stepNets_srcOK (cfg : Cfg) (st : State) (t : Int) (dsts : List Pos) :
    ∀ n ∈ stepNets cfg st t dsts, ∀ s ∈ n.srcs, SrcOK cfg st t dsts s := by
  intro n hn s hs
  rw [stepNets_eq, List.mem_map] at hn
  obtain ⟨g, hg, rfl⟩ := hn
  simp only [netOfG, List.mem_map, List.mem_reverse] at hs
  obtain ⟨i, hi, rfl⟩ := hs
  have hlt : i < st.srcs.length := group_src_lt cfg st t dsts g hg i hi
  have hrow : getD' (st.srcs.map (distRow cfg t dsts)) i [] = distRow cfg t dsts st.srcs[i] := by
    simp [getD', hlt]
  refine ⟨hlt, ?_, ?_⟩
  · exact foldr_insCand_sorted _
  · intro c hc
    simp only [hrow] at hc
    obtain ⟨j, hj, hcj, hle⟩ := mem_realOfRow _ _ c hc
    have hj' : j < dsts.length := by simpa [distRow] using hj
    have hv : (distRow cfg t dsts st.srcs[i])[j] = dist2 cfg.w (view cfg t st.srcs[i]) dsts[j] := by
      simp [distRow]
    rw [hv] at hcj hle
    exact ⟨j, hj', hcj, hle⟩

theorem stepNets_inForce0 (a : ACfg) (cfg : Cfg) (st : State) (t : Int) (dsts : List Pos) :
    ∀ n ∈ stepNets cfg st t dsts, NetInForce a cfg.B 0 n := by
  intro n hn s hs c hc
  obtain ⟨_, _, hall⟩ := stepNets_srcOK cfg st t dsts n hn s hs
  obtain ⟨j, _, rfl, hle⟩ := hall c hc
  simpa [inForce] using hle

/-- everything the proof needs to know about a final group -/
structure FinalOK (a : ACfg) (cfg : Cfg) (st : State) (t : Int) (dsts : List Pos) (f : Final) :
    Prop where
  wf : NetWF f.net
  srcs : ∀ s ∈ f.net.srcs, SrcOK cfg st t dsts s
  inForce : NetInForce a cfg.B f.k f.net

theorem step_final_ok (a : ACfg) (cfg : Cfg) (st : State) (t : Int) (dsts : List Pos)
    (fuel : Nat) (n : Net) (hn : n ∈ stepNets cfg st t dsts) (fs : List Final)
    (h : plan a cfg.B fuel 0 n = some fs) : ∀ f ∈ fs, FinalOK a cfg st t dsts f := by
  intro f hf
  refine ⟨(step_finals_partition a cfg st t dsts fuel n hn fs h).2 f hf, ?_, ?_⟩
  · exact plan_srcs_forall a cfg.B (SrcOK cfg st t dsts)
      (fun i cs k hP => srcOK_prune a cfg st t dsts i cs k hP) fuel 0 n fs h
      (stepNets_srcOK cfg st t dsts n hn) f hf
  · rcases plan_in_force a cfg.B fuel 0 n fs h f hf with ⟨hk, hnet⟩ | ⟨_, hin⟩
    · rw [hk, hnet]; exact stepNets_inForce0 a cfg st t dsts n hn
    · exact hin

/-- all final groups of the step -/
def stepFinals (a : ACfg) (cfg : Cfg) (st : State) (t : Int) (dsts : List Pos) : List Final :=
  (stepNets cfg st t dsts).flatMap (pf a cfg.B 64 0)

theorem stepFinals_ok (a : ACfg) (cfg : Cfg) (st : State) (t : Int) (dsts : List Pos) :
    ∀ f ∈ stepFinals a cfg st t dsts, FinalOK a cfg st t dsts f := by
  intro f hf
  obtain ⟨n, hn, hfn⟩ := List.mem_flatMap.mp hf
  obtain ⟨fs, hfs, hffs⟩ := mem_pf hfn
  exact step_final_ok a cfg st t dsts 64 n hn fs hfs f hffs

theorem pf_ids (a : ACfg) (B fuel k : Nat) (n : Net) (hwf : NetWF n) :
    ((pf a B fuel k n).flatMap finalIds).Nodup ∧
    ∀ i ∈ (pf a B fuel k n).flatMap finalIds, i ∈ netIds n := by
  unfold pf
  cases hp : plan a B fuel k n with
  | none => simp
  | some fs => exact plan_ids a B fuel k n fs hwf hp

theorem pf_dsts (a : ACfg) (B fuel k : Nat) (n : Net) (hwf : NetWF n) :
    ((pf a B fuel k n).flatMap (·.net.dsts)).Nodup ∧
    ∀ d ∈ (pf a B fuel k n).flatMap (·.net.dsts), d ∈ n.dsts := by
  unfold pf
  cases hp : plan a B fuel k n with
  | none => simp
  | some fs =>
    have hperm := (plan_partition a B fuel k n fs hwf hp).1
    exact ⟨(hperm.nodup_iff).mpr hwf.dsts_nodup, fun d hd => (hperm.mem_iff).mp hd⟩

theorem stepFinals_ids (a : ACfg) (cfg : Cfg) (st : State) (t : Int) (dsts : List Pos) :
    ((stepFinals a cfg st t dsts).flatMap finalIds).Nodup ∧
    ∀ i ∈ (stepFinals a cfg st t dsts).flatMap finalIds, i < st.srcs.length := by
  unfold stepFinals
  rw [List.flatMap_assoc]
  have hn := stepNets_ids cfg st t dsts
  have hwf := stepNets_wf cfg st t dsts
  refine ⟨nodup_flatMap_of_subset _ _ netIds hn.1
    (fun n hnm => pf_ids a cfg.B 64 0 n (hwf n hnm)), ?_⟩
  intro i hi
  obtain ⟨n, hnm, hin⟩ := List.mem_flatMap.mp hi
  exact hn.2 i (List.mem_flatMap.mpr ⟨n, hnm, (pf_ids a cfg.B 64 0 n (hwf n hnm)).2 i hin⟩)

theorem stepFinals_dsts_nodup (a : ACfg) (cfg : Cfg) (st : State) (t : Int) (dsts : List Pos) :
    ((stepFinals a cfg st t dsts).flatMap (·.net.dsts)).Nodup := by
  unfold stepFinals
  rw [List.flatMap_assoc]
  have hwf := stepNets_wf cfg st t dsts
  exact nodup_flatMap_of_subset _ _ (·.dsts) (stepNets_dsts_nodup cfg st t dsts)
    (fun n hnm => pf_dsts a cfg.B 64 0 n (hwf n hnm))

/-! ### Part 4: the solver on a final group -/

/-- scaling of a candidate's cost -/
def scaleC (m : Nat) (c : Cand) : Cand := (c.1, c.2 * m)

theorem finalSrcs_eq (a : ACfg) (B : Nat) (f : Final) :
    finalSrcs a B f = f.net.srcs.map (fun s =>
      s.2.map (scaleC (a.q ^ (2 * f.k))) ++ [(none, B * a.p ^ (2 * f.k))]) := rfl

theorem sortedC_map_scale (m : Nat) (cs : List Cand) (h : SortedC cs) :
    SortedC (cs.map (scaleC m)) := by
  induction cs with
  | nil => trivial
  | cons x xs ih =>
    rw [List.map_cons, sortedC_cons_iff]
    refine ⟨?_, ih (SortedC.tail h)⟩
    intro y hy
    obtain ⟨z, hz, rfl⟩ := List.mem_map.mp hy
    exact Nat.mul_le_mul_right m (SortedC.head_le h z hz)

section
variable {a : ACfg} {cfg : Cfg} {st : State} {t : Int} {dsts : List Pos} {f : Final}

theorem finalSrcs_sorted (hf : FinalOK a cfg st t dsts f) : AllSorted (finalSrcs a cfg.B f) := by
  intro s hs
  rw [finalSrcs_eq, List.mem_map] at hs
  obtain ⟨x, hx, rfl⟩ := hs
  obtain ⟨_, hsort, _⟩ := hf.srcs x hx
  apply sortedC_append_last _ _ (sortedC_map_scale _ _ hsort)
  intro y hy
  obtain ⟨z, hz, rfl⟩ := List.mem_map.mp hy
  have := hf.inForce x hx z hz
  simpa [inForce, scaleC] using this

/-- what `finalChoice` returns for a final group of the step -/
theorem finalChoice_spec (hf : FinalOK a cfg st t dsts f) :
    ∃ asg, finalChoice a cfg.B f = some ((finalIds f).zip asg) ∧
      asg.length = f.net.srcs.length ∧
      (f.net.srcs ≠ [] → Admissible (finalSrcs a cfg.B f) asg ∧
        solveOrdered (finalSrcs a cfg.B f) = some (cost asg, asg)) := by
  unfold finalChoice
  by_cases he : f.net.srcs = []
  · exact ⟨[], by simp [he], by simp [he], fun h => absurd he h⟩
  · have hise : f.net.srcs.isEmpty = false := by simpa using he
    simp only [hise, Bool.false_eq_true, if_false]
    have hne : finalSrcs a cfg.B f ≠ [] := by simpa [finalSrcs] using he
    obtain ⟨c, asg, hsol⟩ := solveOrdered_total _ hne (finalSrcs_sorted hf)
      (fun s hs => ⟨_, finalSrcs_null a cfg.B f s hs⟩)
    obtain ⟨hadm, hcost⟩ := solveOrdered_admissible _ c asg hsol
    rw [hsol]
    refine ⟨asg, rfl, ?_, fun _ => ⟨hadm, by rw [hcost]⟩⟩
    have := picks_length hadm.1
    simpa [finalSrcs] using this

end

/-- the choices of one final group (empty if the solver failed — it never does) -/
def fch (a : ACfg) (B : Nat) (f : Final) : List (Nat × Cand) := (finalChoice a B f).getD []

section
variable {a : ACfg} {cfg : Cfg} {st : State} {t : Int} {dsts : List Pos} {f : Final}

theorem fch_spec (hf : FinalOK a cfg st t dsts f) :
    ∃ asg, fch a cfg.B f = (finalIds f).zip asg ∧ asg.length = f.net.srcs.length ∧
      (f.net.srcs ≠ [] → Admissible (finalSrcs a cfg.B f) asg ∧
        solveOrdered (finalSrcs a cfg.B f) = some (cost asg, asg)) := by
  obtain ⟨asg, ha, hl, hs⟩ := finalChoice_spec hf
  exact ⟨asg, by simp [fch, ha], hl, hs⟩

theorem finalIds_length (f : Final) : (finalIds f).length = f.net.srcs.length := by
  simp [finalIds, netIds]

theorem groupDests_finalSrcs_sub (a : ACfg) (B : Nat) (f : Final) (hwf : NetWF f.net) :
    ∀ d ∈ groupDests (finalSrcs a B f), d ∈ f.net.dsts := by
  intro d hd
  simp only [groupDests, finalSrcs_eq, List.mem_flatMap, List.mem_map] at hd
  obtain ⟨s, ⟨x, hx, rfl⟩, hds⟩ := hd
  apply hwf.closed x hx d
  simp only [dests, List.mem_filterMap, List.mem_append, List.mem_map, List.mem_singleton] at hds
  obtain ⟨c, hc, hcd⟩ := hds
  rcases hc with ⟨z, hz, rfl⟩ | rfl
  · simp only [realDests, List.mem_filterMap]; exact ⟨z, hz, hcd⟩
  · cases hcd

/-- the real destinations chosen within one final group -/
theorem fch_dests (hf : FinalOK a cfg st t dsts f) :
    ((fch a cfg.B f).filterMap (fun x => x.2.1)).Nodup ∧
    ∀ d ∈ (fch a cfg.B f).filterMap (fun x => x.2.1), d ∈ f.net.dsts := by
  obtain ⟨asg, ha, hl, hs⟩ := fch_spec hf
  rw [ha, filterMap_zip_snd (finalIds f) asg (by rw [finalIds_length]; omega)]
  by_cases hne : f.net.srcs = []
  · have : asg = [] := by rw [hne] at hl; simpa using hl
    subst this
    simp [dests]
  · obtain ⟨hadm, _⟩ := hs hne
    refine ⟨hadm.2.1, ?_⟩
    intro x hx
    exact groupDests_finalSrcs_sub a cfg.B f hf.wf x (picks_dests_subset _ asg hadm.1 x hx)

theorem picks_zip_mem' {α} (l : List α) (id : α → Nat) (F : α → Src) (asg : List Cand)
    (h : Picks (l.map F) asg) (i : Nat) (c : Cand) (hm : (i, c) ∈ (l.map id).zip asg) :
    ∃ s ∈ l, id s = i ∧ c ∈ F s := by
  induction l generalizing asg with
  | nil => simp at hm
  | cons x xs ih =>
    cases asg with
    | nil => simp at hm
    | cons y ys =>
      simp only [List.map_cons, picks_cons_cons] at h
      simp only [List.map_cons, List.zip_cons_cons, List.mem_cons, Prod.mk.injEq] at hm
      rcases hm with ⟨rfl, rfl⟩ | hm
      · exact ⟨x, List.mem_cons_self .., rfl, h.1⟩
      · obtain ⟨s, hs, h1, h2⟩ := ih ys h.2 hm
        exact ⟨s, List.mem_cons_of_mem _ hs, h1, h2⟩

/-- every choice of a final group: the source is one of the group's and the candidate is the null
link at the range in force or one of the source's own (scaled) candidates -/
theorem fch_mem (hf : FinalOK a cfg st t dsts f) (x : Nat × Cand) (hx : x ∈ fch a cfg.B f) :
    ∃ s ∈ f.net.srcs, s.1 = x.1 ∧
      (x.2 = (none, cfg.B * a.p ^ (2 * f.k)) ∨ ∃ z ∈ s.2, x.2 = scaleC (a.q ^ (2 * f.k)) z) := by
  obtain ⟨asg, ha, hl, hs⟩ := fch_spec hf
  rw [ha] at hx
  have hne : f.net.srcs ≠ [] := by
    intro h0
    have : asg = [] := by rw [h0] at hl; simpa using hl
    subst this
    simp at hx
  obtain ⟨hadm, _⟩ := hs hne
  have hp := hadm.1
  rw [finalSrcs_eq] at hp
  obtain ⟨s, hsm, h1, h2⟩ := picks_zip_mem' f.net.srcs (·.1) _ asg hp x.1 x.2 hx
  refine ⟨s, hsm, h1, ?_⟩
  simp only [List.mem_append, List.mem_map, List.mem_singleton] at h2
  rcases h2 with ⟨z, hz, he⟩ | he
  · exact Or.inr ⟨z, hz, he.symm⟩
  · exact Or.inl he

end

/-! ### Part 5: all choices of the step; the labels are valid -/

/-- all choices of the step -/
def choicesA (a : ACfg) (cfg : Cfg) (st : State) (t : Int) (dsts : List Pos) : List (Nat × Cand) :=
  (stepFinals a cfg st t dsts).flatMap (fch a cfg.B)

/-- the labels the deterministic adaptive step assigns -/
def algoLabA (a : ACfg) (cfg : Cfg) (st : State) (t : Int) (dsts : List Pos) : List Nat :=
  labelsOf st (choicesA a cfg st t dsts) dsts.length

theorem choicesA_fst (a : ACfg) (cfg : Cfg) (st : State) (t : Int) (dsts : List Pos) :
    (choicesA a cfg st t dsts).map Prod.fst = (stepFinals a cfg st t dsts).flatMap finalIds := by
  unfold choicesA
  rw [List.map_flatMap]
  apply Linker.flatMap_congr_mem
  intro f hf
  obtain ⟨asg, ha, hl, _⟩ := fch_spec (stepFinals_ok a cfg st t dsts f hf)
  rw [ha]
  exact List.map_fst_zip (by rw [finalIds_length]; omega)

theorem choicesA_ok (a : ACfg) (cfg : Cfg) (st : State) (t : Int) (dsts : List Pos) :
    ChoiceOK cfg st t dsts (choicesA a cfg st t dsts) := by
  have hids := stepFinals_ids a cfg st t dsts
  refine ⟨?_, ?_, ?_, ?_⟩
  · rw [choicesA_fst]; exact hids.1
  · intro x hx
    apply hids.2
    rw [← choicesA_fst]
    exact List.mem_map.mpr ⟨x, hx, rfl⟩
  · unfold choicesA
    rw [List.filterMap_flatMap]
    exact nodup_flatMap_of_subset _ _ (·.net.dsts) (stepFinals_dsts_nodup a cfg st t dsts)
      (fun f hf => fch_dests (stepFinals_ok a cfg st t dsts f hf))
  · intro x hx j hxj
    obtain ⟨f, hf, hxf⟩ := List.mem_flatMap.mp hx
    have hok := stepFinals_ok a cfg st t dsts f hf
    obtain ⟨s, hs, hsx, hcase⟩ := fch_mem hok x hxf
    obtain ⟨hi, _, hall⟩ := hok.srcs s hs
    rcases hcase with he | ⟨z, hz, he⟩
    · rw [he] at hxj; cases hxj
    · obtain ⟨j', hj', rfl, hle⟩ := hall z hz
      rw [he] at hxj
      simp only [scaleC, Option.some.injEq] at hxj
      subst hxj
      obtain ⟨i, c⟩ := x
      simp only at hsx
      subst hsx
      exact ⟨hi, hj', hle⟩

theorem algoA_valid (a : ACfg) (cfg : Cfg) (st : State) (t : Int) (dsts : List Pos) (hg : Good st) :
    validWhy cfg st t dsts (algoLabA a cfg st t dsts) = none :=
  valid_of_choiceOK (choicesA_ok a cfg st t dsts) hg

end TrackpyV.Adaptive
