import TrackpyV.Model.Refine
import Mathlib.Tactic.Ring
import Mathlib.Tactic.Linarith
import Mathlib.Tactic.FieldSimp
/-!
Helper lemmas for C07 (`Props/C07.lean`) about `Model/Refine.lean`: vectors written as
`(List.range n).map f`, the box / mask geometry, linearity and bounds of `wsum`, the clip
invariant of the loop, and the fuel recurrence.
-/
namespace TrackpyV.Refine
open List

/-! ## vectors `(List.range n).map f` -/

theorem getD_rangeMap {α} (n : Nat) (f : Nat → α) (i : Nat) (h : i < n) (d : α) :
    ((List.range n).map f).getD i d = f i := by
  simp [List.getD_eq_getElem?_getD, h]

theorem getD_mem {α} (l : List α) (i : Nat) (d : α) (h : i < l.length) : l.getD i d ∈ l := by
  rw [List.getD_eq_getElem?_getD, List.getElem?_eq_getElem h]
  simp

theorem origin_length (radius : List Nat) (c : List Int) :
    (origin radius c).length = radius.length := by simp [origin]

theorem origin_getD (radius : List Nat) (c : List Int) (i : Nat) (h : i < radius.length) :
    (origin radius c).getD i 0 = c.getD i 0 - (radius.getD i 0 : Nat) :=
  getD_rangeMap _ _ i h 0

theorem addOff_length (org : List Int) (off : List Nat) : (addOff org off).length = org.length := by
  simp [addOff]

theorem addOff_getD (org : List Int) (off : List Nat) (i : Nat) (h : i < org.length) :
    (addOff org off).getD i 0 = org.getD i 0 + (off.getD i 0 : Nat) :=
  getD_rangeMap _ _ i h 0

theorem next_length (thr : Rat) (radius shape : List Nat) (oc : List Rat) (c : List Int) :
    (next thr radius shape oc c).length = radius.length := by simp [next]

theorem next_getD (thr : Rat) (radius shape : List Nat) (oc : List Rat) (c : List Int) (i : Nat)
    (h : i < radius.length) :
    (next thr radius shape oc c).getD i 0 =
      clipAxis (radius.getD i 0) (shape.getD i 0) (moveAxis thr (oc.getD i 0) (c.getD i 0)) :=
  getD_rangeMap _ _ i h 0

theorem posAt_getD (img : Image) (mask : List (List Nat)) (radius : List Nat) (c : List Int)
    (i : Nat) (h : i < radius.length) :
    (posAt img mask radius c).getD i 0 =
      cmN img mask radius (origin radius c) i - ((radius.getD i 0 : Nat) : Rat)
        + ((c.getD i 0 : Int) : Rat) :=
  getD_rangeMap _ _ i h 0

theorem offCentre_getD (img : Image) (mask : List (List Nat)) (radius : List Nat) (c : List Int)
    (i : Nat) (h : i < radius.length) :
    (offCentre img mask radius c).getD i 0 =
      cmN img mask radius (origin radius c) i - ((radius.getD i 0 : Nat) : Rat) :=
  getD_rangeMap _ _ i h 0

/-! ## box and mask geometry -/

theorem mem_boxOffsets {radius : List Nat} {off : List Nat} (h : off ∈ boxOffsets radius) :
    off.length = radius.length ∧ ∀ i, i < radius.length → off.getD i 0 ≤ 2 * radius.getD i 0 := by
  induction radius generalizing off with
  | nil =>
    simp [boxOffsets] at h
    subst h
    simp
  | cons r rs ih =>
    simp only [boxOffsets, mem_flatMap, mem_range, mem_map] at h
    obtain ⟨o, ho, t, ht, rfl⟩ := h
    obtain ⟨hl, hb⟩ := ih ht
    refine ⟨by simp [hl], ?_⟩
    intro i hi
    cases i with
    | zero => simp; omega
    | succ j =>
      simp only [length_cons, Nat.add_lt_add_iff_right] at hi
      simpa using hb j hi

theorem maskOffsets_subset {radius : List Nat} {off : List Nat} (h : off ∈ maskOffsets radius) :
    off ∈ boxOffsets radius := (mem_filter.mp h).1

theorem self_mem_boxOffsets (radius : List Nat) : radius ∈ boxOffsets radius := by
  induction radius with
  | nil => simp [boxOffsets]
  | cons r rs ih =>
    simp only [boxOffsets, mem_flatMap, mem_range, mem_map]
    exact ⟨r, by omega, rs, ih, rfl⟩

theorem ellipseSum_self (radius : List Nat) : ellipseSum radius radius = 0 := by
  induction radius with
  | nil => simp [ellipseSum]
  | cons r rs ih => simp [ellipseSum, rel, ih]

/-- the centre pixel (array index = radius) always belongs to the mask: masks are never empty -/
theorem centre_mem_maskOffsets (radius : List Nat) : radius ∈ maskOffsets radius := by
  refine mem_filter.mpr ⟨self_mem_boxOffsets radius, ?_⟩
  simp [inEllipse, ellipseSum_self]

/-! ## weighted sums -/

theorem wsum_nil (img : Image) (org : List Int) (w : List Nat → Rat) : wsum img [] org w = 0 := rfl

theorem wsum_cons (img : Image) (off : List Nat) (mask : List (List Nat)) (org : List Int)
    (w : List Nat → Rat) :
    wsum img (off :: mask) org w = w off * ((img (addOff org off) : Nat) : Rat) + wsum img mask org w := by
  simp [wsum]

theorem wsum_add (img : Image) (mask : List (List Nat)) (org : List Int) (w1 w2 : List Nat → Rat) :
    wsum img mask org (fun o => w1 o + w2 o) = wsum img mask org w1 + wsum img mask org w2 := by
  induction mask with
  | nil => simp [wsum_nil]
  | cons off mask ih => rw [wsum_cons, wsum_cons, wsum_cons, ih]; ring

theorem wsum_const_mul (img : Image) (mask : List (List Nat)) (org : List Int) (a : Rat)
    (w : List Nat → Rat) :
    wsum img mask org (fun o => a * w o) = a * wsum img mask org w := by
  induction mask with
  | nil => simp [wsum_nil]
  | cons off mask ih => rw [wsum_cons, wsum_cons, ih]; ring

theorem wsum_congr (img : Image) (mask : List (List Nat)) (org : List Int) (w1 w2 : List Nat → Rat)
    (h : ∀ off ∈ mask, w1 off = w2 off) : wsum img mask org w1 = wsum img mask org w2 := by
  induction mask with
  | nil => rfl
  | cons off mask ih =>
    rw [wsum_cons, wsum_cons, h off (mem_cons_self), ih (fun o ho => h o (mem_cons_of_mem _ ho))]

theorem wsum_nonneg (img : Image) (mask : List (List Nat)) (org : List Int) (w : List Nat → Rat)
    (h : ∀ off ∈ mask, 0 ≤ w off) : 0 ≤ wsum img mask org w := by
  induction mask with
  | nil => simp [wsum_nil]
  | cons off mask ih =>
    rw [wsum_cons]
    have h1 : 0 ≤ w off := h off mem_cons_self
    have h2 : (0 : Rat) ≤ ((img (addOff org off) : Nat) : Rat) := Nat.cast_nonneg _
    have h3 := ih (fun o ho => h o (mem_cons_of_mem _ ho))
    have := mul_nonneg h1 h2
    linarith

theorem massAt_nonneg (img : Image) (mask : List (List Nat)) (org : List Int) :
    0 ≤ massAt img mask org := wsum_nonneg _ _ _ _ (fun _ _ => by norm_num)

/-- a weight bounded by `K` on the mask gives a sum bounded by `K · mass` (pixels are ≥ 0) -/
theorem wsum_le_mul_mass (img : Image) (mask : List (List Nat)) (org : List Int)
    (w : List Nat → Rat) (K : Rat) (h : ∀ off ∈ mask, w off ≤ K) :
    wsum img mask org w ≤ K * massAt img mask org := by
  unfold massAt
  induction mask with
  | nil => simp [wsum_nil]
  | cons off mask ih =>
    rw [wsum_cons, wsum_cons]
    have h1 : w off ≤ K := h off mem_cons_self
    have h2 : (0 : Rat) ≤ ((img (addOff org off) : Nat) : Rat) := Nat.cast_nonneg _
    have h3 := ih (fun o ho => h o (mem_cons_of_mem _ ho))
    have := mul_le_mul_of_nonneg_right h1 h2
    linarith

/-! ## the largest masked pixel -/

theorem foldl_max_ge_init (l : List Nat) (a : Nat) : a ≤ l.foldl max a := by
  induction l generalizing a with
  | nil => simp
  | cons x l ih => simp only [foldl_cons]; exact le_trans (le_max_left a x) (ih _)

theorem foldl_max_ge_mem (l : List Nat) (a : Nat) (x : Nat) (h : x ∈ l) : x ≤ l.foldl max a := by
  induction l generalizing a with
  | nil => simp at h
  | cons y l ih =>
    simp only [foldl_cons]
    rcases mem_cons.mp h with rfl | h'
    · exact le_trans (le_max_right a x) (foldl_max_ge_init l _)
    · exact ih _ h'

theorem foldl_max_mem (l : List Nat) (a : Nat) : l.foldl max a = a ∨ l.foldl max a ∈ l := by
  induction l generalizing a with
  | nil => simp
  | cons y l ih =>
    simp only [foldl_cons]
    rcases ih (max a y) with h | h
    · rcases max_choice a y with h' | h'
      · left; rw [h, h']
      · right; rw [h, h']; exact mem_cons_self
    · right; exact mem_cons_of_mem _ h

/-! ## the clip invariant -/

/-- hypothesis of the property on a mask centre: the mask box lies inside the image -/
def Inside (radius shape : List Nat) (c : List Int) : Prop :=
  c.length = radius.length ∧ shape.length = radius.length ∧
  ∀ i, i < radius.length →
    ((radius.getD i 0 : Nat) : Int) ≤ c.getD i 0 ∧
    c.getD i 0 ≤ ((shape.getD i 0 : Nat) : Int) - 1 - ((radius.getD i 0 : Nat) : Int)

theorem insideB_iff (radius shape : List Nat) (c : List Int) :
    insideB radius shape c = true ↔ Inside radius shape c := by
  simp [insideB, Inside, and_assoc]

theorem clipAxis_bounds (r sh : Nat) (x : Int) (h : (r : Int) ≤ (sh : Int) - 1 - (r : Int)) :
    (r : Int) ≤ clipAxis r sh x ∧ clipAxis r sh x ≤ (sh : Int) - 1 - (r : Int) := by
  unfold clipAxis
  constructor
  · exact le_min (le_max_right _ _) h
  · exact min_le_right _ _

theorem next_inside (thr : Rat) (radius shape : List Nat) (oc : List Rat) (c : List Int)
    (h : Inside radius shape c) : Inside radius shape (next thr radius shape oc c) := by
  obtain ⟨_, hs, hb⟩ := h
  refine ⟨next_length _ _ _ _ _, hs, ?_⟩
  intro i hi
  rw [next_getD _ _ _ _ _ _ hi]
  exact clipAxis_bounds _ _ _ (le_trans (hb i hi).1 (hb i hi).2)

theorem trace_inside (thr : Rat) (img : Image) (mask : List (List Nat)) (radius shape : List Nat)
    (k : Nat) (c : List Int) (h : Inside radius shape c) :
    ∀ c' ∈ trace thr img mask radius shape k c, Inside radius shape c' := by
  induction k generalizing c with
  | zero => intro c' hc'; simp [trace] at hc'; subst hc'; exact h
  | succ k ih =>
    intro c' hc'
    simp only [trace] at hc'
    split at hc'
    · simp at hc'; subst hc'; exact h
    · rcases mem_cons.mp hc' with rfl | h'
      · exact h
      · exact ih _ (next_inside _ _ _ _ _ h) c' h'

theorem lastCentre_mem_trace (thr : Rat) (img : Image) (mask : List (List Nat))
    (radius shape : List Nat) (k : Nat) (c : List Int) :
    lastCentre thr img mask radius shape k c ∈ trace thr img mask radius shape k c := by
  induction k generalizing c with
  | zero => simp [lastCentre, trace]
  | succ k ih =>
    simp only [lastCentre, trace]
    split
    · simp
    · exact mem_cons_of_mem _ (ih _)

theorem start_mem_trace (thr : Rat) (img : Image) (mask : List (List Nat))
    (radius shape : List Nat) (k : Nat) (c : List Int) :
    c ∈ trace thr img mask radius shape k c := by
  cases k with
  | zero => simp [trace]
  | succ k => simp only [trace]; split <;> simp

/-! ## the fuel recurrence -/

theorem lastCentre_succ (thr : Rat) (img : Image) (mask : List (List Nat)) (radius shape : List Nat)
    (k : Nat) (c : List Int) :
    lastCentre thr img mask radius shape (k + 1) c =
      if converged thr (offCentre img mask radius (lastCentre thr img mask radius shape k c)) then
        lastCentre thr img mask radius shape k c
      else next thr radius shape
            (offCentre img mask radius (lastCentre thr img mask radius shape k c))
            (lastCentre thr img mask radius shape k c) := by
  induction k generalizing c with
  | zero => simp only [lastCentre]; split <;> simp_all
  | succ k ih =>
    rw [lastCentre]
    by_cases hc : converged thr (offCentre img mask radius c) = true
    · have h1 : lastCentre thr img mask radius shape (k + 1) c = c := by
        rw [lastCentre]; simp [hc]
      simp [hc, h1]
    · have h1 : lastCentre thr img mask radius shape (k + 1) c =
          lastCentre thr img mask radius shape k
            (next thr radius shape (offCentre img mask radius c) c) := by
        rw [lastCentre]; simp [hc]
      rw [if_neg hc, ih, h1]

theorem lastCentre_stable (thr : Rat) (img : Image) (mask : List (List Nat)) (radius shape : List Nat)
    (k : Nat) (c : List Int)
    (h : converged thr (offCentre img mask radius (lastCentre thr img mask radius shape k c)) = true)
    (j : Nat) :
    lastCentre thr img mask radius shape (k + j) c = lastCentre thr img mask radius shape k c := by
  induction j with
  | zero => rfl
  | succ j ih =>
    rw [← Nat.add_assoc, lastCentre_succ, ih, if_pos h]


/-! ## each iteration moves the mask by at most one pixel per axis -/

theorem moveAxis_near (thr o : Rat) (c : Int) :
    c - 1 ≤ moveAxis thr o c ∧ moveAxis thr o c ≤ c + 1 := by
  unfold moveAxis
  split_ifs <;> omega

theorem clipAxis_near (r sh : Nat) (x c : Int)
    (hc : (r : Int) ≤ c ∧ c ≤ (sh : Int) - 1 - (r : Int)) (hx : c - 1 ≤ x ∧ x ≤ c + 1) :
    c - 1 ≤ clipAxis r sh x ∧ clipAxis r sh x ≤ c + 1 := by
  unfold clipAxis
  rw [min_def, max_def]
  split_ifs <;> omega

theorem next_near (thr : Rat) (radius shape : List Nat) (oc : List Rat) (c : List Int)
    (h : Inside radius shape c) (i : Nat) (hi : i < radius.length) :
    c.getD i 0 - 1 ≤ (next thr radius shape oc c).getD i 0 ∧
    (next thr radius shape oc c).getD i 0 ≤ c.getD i 0 + 1 := by
  rw [next_getD _ _ _ _ _ _ hi]
  exact clipAxis_near _ _ _ _ (h.2.2 i hi) (moveAxis_near _ _ _)

theorem lastCentre_near (thr : Rat) (img : Image) (mask : List (List Nat)) (radius shape : List Nat)
    (k : Nat) (c : List Int) (h : Inside radius shape c) (i : Nat) (hi : i < radius.length) :
    c.getD i 0 - k ≤ (lastCentre thr img mask radius shape k c).getD i 0 ∧
    (lastCentre thr img mask radius shape k c).getD i 0 ≤ c.getD i 0 + k := by
  induction k generalizing c with
  | zero => simp [lastCentre]
  | succ k ih =>
    rw [lastCentre]
    split
    · constructor <;> push_cast <;> omega
    · have h1 := next_near thr radius shape (offCentre img mask radius c) c h i hi
      have h2 := ih _ (next_inside thr radius shape (offCentre img mask radius c) c h)
      constructor <;> push_cast <;> omega

/-! ## the ellipse test in cross-multiplied integer form (2-D) -/

theorem ellipse_cross (x y a b : Rat) (ha : 0 < a) (hb : 0 < b) :
    x / a * (x / a) + (y / b * (y / b) + 0) ≤ 1 ↔ x * x * (b * b) + y * y * (a * a) ≤ a * a * (b * b) := by
  have ha2 : 0 < a * a := mul_pos ha ha
  have hb2 : 0 < b * b := mul_pos hb hb
  rw [add_zero, div_mul_div_comm, div_mul_div_comm, div_add_div _ _ (ne_of_gt ha2) (ne_of_gt hb2),
    div_le_iff₀ (mul_pos ha2 hb2), one_mul]
  constructor <;> intro h <;> linarith

end TrackpyV.Refine
