import TrackpyV.Proofs.AdaptiveAlgo
/-!
Towards `Props/C12Algo.algoA_accepted`, continued.

Part 6: reading the algorithm's labels back (`chosenA`) returns the solver's choices.
Part 7: every final group passes `finalOkB`.  Part 8: every sub-net passes `orphansOkB`.
Part 9: `algoLabelsA` in closed form (`some algoLabA` exactly when no plan raises).
-/
namespace TrackpyV.Adaptive
open TrackpyV.Assign TrackpyV.Linker

/-! ### Part 6: reading the labels back -/

theorem picks_getElem {srcs : List Src} {asg : List Cand} (h : Picks srcs asg) (k : Nat)
    (h1 : k < srcs.length) (h2 : k < asg.length) : asg[k] ∈ srcs[k] := by
  induction srcs generalizing asg k with
  | nil => simp at h1
  | cons s ss ih =>
    cases asg with
    | nil => simp at h2
    | cons c cs =>
      simp only [picks_cons_cons] at h
      cases k with
      | zero => exact h.1
      | succ k => simpa using ih h.2 k (by simpa using h1) (by simpa using h2)

/-- K: for a choice `x` of source `s`, what `chosenA` reads back from the algorithm's labels is
the chosen candidate -/
theorem chosenA_choice (a : ACfg) (cfg : Cfg) (st : State) (t : Int) (dsts : List Pos)
    (hg : Good st) (x : Nat × Cand) (hx : x ∈ choicesA a cfg st t dsts)
    (s : Nat × List Cand) (hs1 : s.1 = x.1) (hsok : SrcOK cfg st t dsts s) (k : Nat)
    (hcase : x.2 = (none, cfg.B * a.p ^ (2 * k)) ∨ ∃ z ∈ s.2, x.2 = scaleC (a.q ^ (2 * k)) z) :
    chosenA a cfg st (algoLabA a cfg st t dsts) k s.1 s.2 = x.2 := by
  have hch := choicesA_ok a cfg st t dsts
  obtain ⟨hi, _, hall⟩ := hsok
  obtain ⟨i, cs⟩ := s
  obtain ⟨i', c⟩ := x
  simp only at hs1 hi hall hcase ⊢
  subst hs1
  have hsrc : st.srcs[i]? = some st.srcs[i] := List.getElem?_eq_getElem hi
  simp only [chosenA, hsrc]
  cases hd : c.1 with
  | none =>
    have hc : c = (none, cfg.B * a.p ^ (2 * k)) := by
      rcases hcase with h | ⟨z, hz, h⟩
      · exact h
      · obtain ⟨j, _, rfl, _⟩ := hall z hz
        rw [h] at hd; simp [scaleC] at hd
    have hnot : st.srcs[i].track ∉ algoLabA a cfg st t dsts := by
      apply track_not_mem_of_unlinked hch hg i hi
      intro y hy hyi
      have := ch_src_inj hch y (i, c) hy hx hyi
      rw [this]; exact hd
    have : (algoLabA a cfg st t dsts).idxOf? st.srcs[i].track = none :=
      List.idxOf?_eq_none_iff.mpr hnot
    rw [this]
    exact hc.symm
  | some j =>
    have hz : ∃ z ∈ cs, c = scaleC (a.q ^ (2 * k)) z := by
      rcases hcase with h | h
      · rw [h] at hd; cases hd
      · exact h
    obtain ⟨z, hzm, hcz⟩ := hz
    obtain ⟨jz, hjz, hzeq, _⟩ := hall z hzm
    have hjj : jz = j := by
      rw [hcz, hzeq] at hd
      simpa [scaleC] using hd
    subst hjj
    have hidx := idxOf_chosen hch hg (i, c) hx jz hd dsts.length hjz
    simp only at hidx
    unfold algoLabA
    rw [hidx]
    simp only
    cases hf : cs.find? (fun c' => c'.1 == some jz) with
    | none =>
      have := List.find?_eq_none.mp hf z hzm
      rw [hzeq] at this
      simp at this
    | some c' =>
      simp only
      have hc'm := List.mem_of_find?_eq_some hf
      have hc'j : c'.1 = some jz := by simpa using List.find?_some hf
      obtain ⟨j', hj', hc'eq, _⟩ := hall c' hc'm
      have : j' = jz := by
        rw [hc'eq] at hc'j
        simpa using hc'j
      subst this
      rw [hcz, hzeq, hc'eq]
      rfl

theorem finalAsg_eq (a : ACfg) (cfg : Cfg) (st : State) (labels : List Nat) (f : Final) :
    finalAsg a cfg st labels f =
      f.net.srcs.map (fun s => chosenA a cfg st labels f.k s.1 s.2) := rfl

/-- reading the labels back gives exactly the solver's assignment of a final group -/
theorem finalAsg_algo (a : ACfg) (cfg : Cfg) (st : State) (t : Int) (dsts : List Pos)
    (hg : Good st) (f : Final) (hf : f ∈ stepFinals a cfg st t dsts) (asg : List Cand)
    (ha : fch a cfg.B f = (finalIds f).zip asg) (hl : asg.length = f.net.srcs.length)
    (hadm : f.net.srcs ≠ [] → Admissible (finalSrcs a cfg.B f) asg) :
    finalAsg a cfg st (algoLabA a cfg st t dsts) f = asg := by
  have hok := stepFinals_ok a cfg st t dsts f hf
  rw [finalAsg_eq]
  apply List.ext_getElem
  · simp [hl]
  · intro k hk1 hk2
    have hk : k < f.net.srcs.length := by simpa using hk1
    have hne : f.net.srcs ≠ [] := by
      intro h0; rw [h0] at hk; simp at hk
    simp only [List.getElem_map]
    have hmem : (f.net.srcs[k].1, asg[k]) ∈ choicesA a cfg st t dsts := by
      simp only [choicesA, List.mem_flatMap]
      refine ⟨f, hf, ?_⟩
      rw [ha, List.mem_iff_getElem]
      refine ⟨k, by simp [finalIds_length, hl]; exact hk, ?_⟩
      simp [finalIds, netIds]
    have hp := (hadm hne).1
    have hin := picks_getElem hp k (by simpa [finalSrcs] using hk) hk2
    have hrow : (finalSrcs a cfg.B f)[k]'(by simpa [finalSrcs] using hk) =
        f.net.srcs[k].2.map (scaleC (a.q ^ (2 * f.k))) ++ [(none, cfg.B * a.p ^ (2 * f.k))] := by
      simp [finalSrcs_eq]
    rw [hrow] at hin
    apply chosenA_choice a cfg st t dsts hg (f.net.srcs[k].1, asg[k]) hmem f.net.srcs[k] rfl
      (hok.srcs _ (List.getElem_mem _)) f.k
    simp only [List.mem_append, List.mem_map, List.mem_singleton] at hin
    rcases hin with ⟨z, hz, he⟩ | he
    · exact Or.inr ⟨z, hz, he.symm⟩
    · exact Or.inl he

/-! ### Part 7: every final group is solved optimally -/

theorem finalOk_algo (a : ACfg) (cfg : Cfg) (st : State) (t : Int) (dsts : List Pos)
    (hg : Good st) (f : Final) (hf : f ∈ stepFinals a cfg st t dsts) :
    finalOkB a cfg st (algoLabA a cfg st t dsts) f = true := by
  have hok := stepFinals_ok a cfg st t dsts f hf
  obtain ⟨asg, ha, hl, hs⟩ := fch_spec hok
  have hasg := finalAsg_algo a cfg st t dsts hg f hf asg ha hl (fun h => (hs h).1)
  unfold finalOkB
  simp only [hasg]
  by_cases hne : f.net.srcs = []
  · simp [finalSrcs, hne]
  · have hise : (finalSrcs a cfg.B f).isEmpty = false := by simpa [finalSrcs] using hne
    obtain ⟨hadm, hsol⟩ := hs hne
    simp only [hise, Bool.false_eq_true, if_false, hsol, beq_self_eq_true, Bool.and_true,
      Bool.and_eq_true, List.all_eq_true]
    exact ⟨fun s hsm => (sortedB_iff _).mpr (finalSrcs_sorted hok s hsm),
      (admissibleB_iff _ _ _).mpr hadm⟩

/-! ### Part 8: sources in no final group stay unlinked -/

theorem eq_of_mem_flatMap_nodup {α β} (l : List α) (g : α → List β) (h : (l.flatMap g).Nodup)
    (x y : α) (hx : x ∈ l) (hy : y ∈ l) (b : β) (hbx : b ∈ g x) (hby : b ∈ g y) : x = y := by
  induction l with
  | nil => cases hx
  | cons z zs ih =>
    simp only [List.flatMap_cons, List.nodup_append] at h
    rcases List.mem_cons.mp hx with rfl | hx' <;> rcases List.mem_cons.mp hy with rfl | hy'
    · rfl
    · exact absurd rfl (h.2.2 b hbx b (List.mem_flatMap.mpr ⟨y, hy', hby⟩))
    · exact absurd rfl (h.2.2 b hby b (List.mem_flatMap.mpr ⟨x, hx', hbx⟩))
    · exact ih h.2.1 hx' hy'

theorem fch_fst_mem {a : ACfg} {cfg : Cfg} {st : State} {t : Int} {dsts : List Pos} {f : Final}
    (hf : FinalOK a cfg st t dsts f) (y : Nat × Cand) (hy : y ∈ fch a cfg.B f) :
    y.1 ∈ finalIds f := by
  obtain ⟨asg, ha, _, _⟩ := fch_spec hf
  rw [ha] at hy
  exact (List.of_mem_zip hy).1

theorem orphansOk_algo (a : ACfg) (cfg : Cfg) (st : State) (t : Int) (dsts : List Pos)
    (hg : Good st) (n : Net) (hn : n ∈ stepNets cfg st t dsts) (fs : List Final)
    (hp : plan a cfg.B 64 0 n = some fs) :
    orphansOkB st (algoLabA a cfg st t dsts) n fs = true := by
  unfold orphansOkB
  rw [List.all_eq_true]
  intro s hs
  obtain ⟨i, cs⟩ := s
  simp only
  by_cases hin : ∃ f ∈ fs, i ∈ finalIds f
  · obtain ⟨f, hf, hif⟩ := hin
    simp only [finalIds, netIds, List.mem_map] at hif
    obtain ⟨x, hx, hxi⟩ := hif
    simp only [Bool.or_eq_true, List.any_eq_true, beq_iff_eq]
    exact Or.inl ⟨f, hf, x, hx, hxi⟩
  · have hnids := stepNets_ids cfg st t dsts
    have hwf := stepNets_wf cfg st t dsts
    have hin_n : i ∈ netIds n := List.mem_map.mpr ⟨(i, cs), hs, rfl⟩
    have hi : i < st.srcs.length := hnids.2 i (List.mem_flatMap.mpr ⟨n, hn, hin_n⟩)
    have hsrc : st.srcs[i]? = some st.srcs[i] := List.getElem?_eq_getElem hi
    have hnot : st.srcs[i].track ∉ algoLabA a cfg st t dsts := by
      apply track_not_mem_of_unlinked (choicesA_ok a cfg st t dsts) hg i hi
      intro y hy hyi
      exfalso
      apply hin
      simp only [choicesA, List.mem_flatMap] at hy
      obtain ⟨f', hf', hyf'⟩ := hy
      have hok' := stepFinals_ok a cfg st t dsts f' hf'
      have hyid := fch_fst_mem hok' y hyf'
      rw [hyi] at hyid
      simp only [stepFinals, List.mem_flatMap] at hf'
      obtain ⟨n', hn', hf'n'⟩ := hf'
      have hin_n' : i ∈ netIds n' :=
        (pf_ids a cfg.B 64 0 n' (hwf n' hn')).2 i (List.mem_flatMap.mpr ⟨f', hf'n', hyid⟩)
      have hnn : n' = n := eq_of_mem_flatMap_nodup _ netIds hnids.1 n' n hn' hn i hin_n' hin_n
      subst hnn
      simp only [pf, hp, Option.getD_some] at hf'n'
      exact ⟨f', hf'n', hyid⟩
    simp only [hsrc, Bool.or_eq_true, Bool.not_eq_true', List.contains_eq_mem,
      decide_eq_false_iff_not]
    exact Or.inr hnot

/-! ### Part 9: `algoLabelsA` in closed form -/

/-- no sub-net of the step raises -/
def PlansOK (a : ACfg) (cfg : Cfg) (st : State) (t : Int) (dsts : List Pos) : Prop :=
  ∀ n ∈ stepNets cfg st t dsts, ∃ fs, plan a cfg.B 64 0 n = some fs

theorem netChoice_eq (a : ACfg) (cfg : Cfg) (st : State) (t : Int) (dsts : List Pos) (n : Net)
    (hn : n ∈ stepNets cfg st t dsts) (fs : List Final) (hp : plan a cfg.B 64 0 n = some fs) :
    netChoice a cfg.B n = some ((pf a cfg.B 64 0 n).flatMap (fch a cfg.B)) := by
  unfold netChoice
  simp only [hp]
  rw [allSome_map_getD _ _ []]
  · simp only [Option.map_some, pf, hp, Option.getD_some, List.flatMap_def]
    rfl
  · intro f hf
    obtain ⟨asg, ha, _⟩ := finalChoice_spec (step_final_ok a cfg st t dsts 64 n hn fs hp f hf)
    exact ⟨_, ha⟩

theorem algoChoicesA_eq (a : ACfg) (cfg : Cfg) (st : State) (t : Int) (dsts : List Pos)
    (hp : PlansOK a cfg st t dsts) :
    algoChoicesA a cfg st t dsts = some (choicesA a cfg st t dsts) := by
  unfold algoChoicesA
  rw [allSome_map_getD _ _ []]
  · simp only [Option.map_some, choicesA, stepFinals]
    rw [List.flatMap_assoc, ← List.flatMap_def]
    congr 1
    apply Linker.flatMap_congr_mem
    intro n hn
    obtain ⟨fs, hfs⟩ := hp n hn
    rw [netChoice_eq a cfg st t dsts n hn fs hfs]
    rfl
  · intro n hn
    obtain ⟨fs, hfs⟩ := hp n hn
    exact ⟨_, netChoice_eq a cfg st t dsts n hn fs hfs⟩

theorem algoLabelsA_eq (a : ACfg) (cfg : Cfg) (st : State) (t : Int) (dsts : List Pos)
    (hp : PlansOK a cfg st t dsts) :
    algoLabelsA a cfg st t dsts = some (algoLabA a cfg st t dsts) := by
  simp [algoLabelsA, algoChoicesA_eq a cfg st t dsts hp, algoLabA, labelsOf]

theorem algoLabelsA_none (a : ACfg) (cfg : Cfg) (st : State) (t : Int) (dsts : List Pos)
    (n : Net) (hn : n ∈ stepNets cfg st t dsts) (hp : plan a cfg.B 64 0 n = none) :
    algoLabelsA a cfg st t dsts = none := by
  have h1 : netChoice a cfg.B n = none := by simp [netChoice, hp]
  have h2 : allSome ((stepNets cfg st t dsts).map (netChoice a cfg.B)) = none := by
    rw [allSome_eq_none]
    exact List.mem_map.mpr ⟨n, hn, h1⟩
  simp [algoLabelsA, algoChoicesA, h2]

/-- the algorithm raises exactly when some sub-net's plan raises -/
theorem algoLabelsA_cases (a : ACfg) (cfg : Cfg) (st : State) (t : Int) (dsts : List Pos) :
    (PlansOK a cfg st t dsts ∧ algoLabelsA a cfg st t dsts = some (algoLabA a cfg st t dsts)) ∨
    ((∃ n ∈ stepNets cfg st t dsts, plan a cfg.B 64 0 n = none) ∧
      algoLabelsA a cfg st t dsts = none) := by
  by_cases h : ∃ n ∈ stepNets cfg st t dsts, plan a cfg.B 64 0 n = none
  · obtain ⟨n, hn, hp⟩ := h
    exact Or.inr ⟨⟨n, hn, hp⟩, algoLabelsA_none a cfg st t dsts n hn hp⟩
  · have hp : PlansOK a cfg st t dsts := by
      intro n hn
      cases hpl : plan a cfg.B 64 0 n with
      | none => exact absurd ⟨n, hn, hpl⟩ h
      | some fs => exact ⟨fs, rfl⟩
    exact Or.inl ⟨hp, algoLabelsA_eq a cfg st t dsts hp⟩

end TrackpyV.Adaptive
