import TrackpyV.Props.C14Bg
import TrackpyV.Proofs.FindLink
import Mathlib.Tactic.FieldSimp
import Mathlib.Tactic.Ring
import Mathlib.Tactic.Linarith
/-!
Towards instantiating the oracle of `Model/FindLinkAlgo.lean` with the executable model
`Relocate.relocateCandidates` of `get_relocate_candidates`:

* `relocateWith_pairwise`  any two DIFFERENT LIST POSITIONS of one result are at least `separation`
  apart (stronger than `reloc_mutually_separated`, which needs different coordinates: it also
  excludes that a coordinate is returned twice);
* `insideMargin_of_outside` the margin box of the two models agree.
-/
namespace TrackpyV.Relocate
open TrackpyV.Find

theorem insMass_perm (x : Pos × Nat) : ∀ l : List (Pos × Nat), (insMass x l).Perm (x :: l)
  | [] => List.Perm.refl _
  | y :: ys => by
    unfold insMass
    split
    · exact List.Perm.refl _
    · exact ((insMass_perm x ys).cons y).trans (List.Perm.swap x y ys)

theorem sortMass_perm : ∀ l : List (Pos × Nat), (sortMass l).Perm l
  | [] => List.Perm.refl _
  | x :: xs => by
    show (insMass x (sortMass xs)).Perm (x :: xs)
    exact (insMass_perm x _).trans ((sortMass_perm xs).cons x)

theorem dropClose_pairwise (sep : List Rat) (fs : List Feat) (hs : ∀ s ∈ sep, s ≠ 0) :
    (dropClose sep fs).Pairwise (fun f g => close sep f g = false) := by
  rw [List.pairwise_iff_forall_sublist]
  intro a b h
  exact dropClose_separated sep fs hs a b h

/-- two different list positions of one `get_relocate_candidates` result are at least
`separation` apart -/
theorem relocateWith_pairwise (cfg : Cfg) (img : Image) (bg pos : List IPos)
    (hsep : ∀ s ∈ cfg.sep, s ≠ 0) :
    (relocateWith cfg img bg pos).Pairwise
      (fun x y => 1 ≤ dist2 cfg.sep (toI x.1) (toI y.1)) := by
  unfold relocateWith
  split
  · rename_i sl thr hs _
    obtain ⟨ho, hsh⟩ := getSlice_lengths hs
    unfold relocateIn
    simp only
    set m := maskedImage cfg img sl pos bg with hm
    set cands := rawCandidates cfg img sl m thr pos with hcands
    set dc := dropClose cfg.sep (cands.map (featOf m (exactKeyPos cfg.sep))) with hdc
    have hmem : ∀ f ∈ dc, ∃ q ∈ cands, f = featOf m (exactKeyPos cfg.sep) q := by
      intro f hf
      have := (dropClose_sublist cfg.sep _).subset hf
      obtain ⟨q, hq, rfl⟩ := List.mem_map.mp this
      exact ⟨q, hq, rfl⟩
    have hlen : ∀ q ∈ cands, q.length = sl.shape.length := fun q hq =>
      (mem_rawCandidates hq).1.length_eq
    -- the kept slice coordinates: pairwise apart, each of them a candidate
    have hkept : (dc.map Find.toPos).Pairwise
        (fun p q => 1 ≤ dist2 cfg.sep (toI p) (toI q)) := by
      rw [List.pairwise_map]
      refine List.Pairwise.imp_of_mem ?_ (dropClose_pairwise cfg.sep _ hsep)
      intro f g hf hg hfg
      obtain ⟨p, _, rfl⟩ := hmem f hf
      obtain ⟨q, _, rfl⟩ := hmem g hg
      rw [toPos_featOf, toPos_featOf]
      simp only [close, toI_featOf] at hfg
      exact not_lt.mp (of_decide_eq_false hfg)
    have hkmem : ∀ p ∈ dc.map Find.toPos, p ∈ cands := by
      intro p hp
      obtain ⟨f, hf, rfl⟩ := List.mem_map.mp hp
      obtain ⟨q, hq, rfl⟩ := hmem f hf
      rw [toPos_featOf]
      exact hq
    set kept := dc.map Find.toPos with hk
    -- through the mass filter, the sort and the reversal
    have hhf : (heaviestFirst cfg (kept.map (fun q => (q, massAt m cfg.radius q)))).Pairwise
        (fun x y => 1 ≤ dist2 cfg.sep (toI x.1) (toI y.1)) := by
      unfold heaviestFirst
      rw [List.pairwise_reverse]
      have hsymm : ∀ {x y : Pos × Nat}, 1 ≤ dist2 cfg.sep (toI y.1) (toI x.1) →
          1 ≤ dist2 cfg.sep (toI x.1) (toI y.1) := by
        intro x y h
        rw [dist2_comm]
        exact h
      rw [List.Perm.pairwise_iff (fun {x y} h => hsymm h) (sortMass_perm _)]
      apply List.Pairwise.filterMap (R := fun (a b : Pos × Option Nat) =>
        1 ≤ dist2 cfg.sep (toI b.1) (toI a.1))
      · intro a a' haa b hb b' hb'
        have e1 : b.1 = a.1 := by
          cases h : a.2 with
          | none => simp [h] at hb
          | some v =>
            simp only [h] at hb
            split at hb
            · cases hb; rfl
            · cases hb
        have e2 : b'.1 = a'.1 := by
          cases h : a'.2 with
          | none => simp [h] at hb'
          | some v =>
            simp only [h] at hb'
            split at hb'
            · cases hb'; rfl
            · cases hb'
        rw [e1, e2]
        exact haa
      · rw [List.pairwise_map]
        refine List.Pairwise.imp ?_ hkept
        intro p q h
        rw [dist2_comm]
        exact h
    rw [List.pairwise_map]
    refine List.Pairwise.imp_of_mem ?_ hhf
    intro x y hx hy hxy
    have hx' : x.1 ∈ cands := by
      have := ((mem_heaviestFirst cfg _ x).mp hx).1
      obtain ⟨q, hq, he⟩ := List.mem_map.mp this
      have : q = x.1 := by injection he
      exact this ▸ hkmem q hq
    have hy' : y.1 ∈ cands := by
      have := ((mem_heaviestFirst cfg _ y).mp hy).1
      obtain ⟨q, hq, he⟩ := List.mem_map.mp this
      have : q = y.1 := by injection he
      exact this ▸ hkmem q hq
    rw [dist2_addOrigin cfg.sep sl.origin x.1 y.1 (by rw [hlen _ hx', hlen _ hy'])
      (by rw [hlen _ hx', hsh, ho])]
    exact hxy
  · exact List.Pairwise.nil

/-- the margin test of `Model/Find.lean` (naturals) implies the one of `Model/FindLinkAlgo.lean`
(integers) -/
theorem insideMargin_of_outside : ∀ (shape margin : List Nat) (c : Pos),
    OutsideMargin shape margin c → FindLink.insideMargin shape margin (toI c) = true
  | n :: ns, m :: ms, i :: p, h => by
    obtain ⟨⟨h1, h2⟩, h3⟩ := h
    simp only [toI, List.map_cons, FindLink.insideMargin, Bool.and_eq_true, decide_eq_true_eq,
      Int.ofNat_eq_natCast]
    refine ⟨⟨by omega, by omega⟩, ?_⟩
    exact insideMargin_of_outside ns ms p h3
  | [], [], [], _ => by simp [FindLink.insideMargin]
  | [], _ :: _, _, h => by simp [OutsideMargin] at h
  | [], [], _ :: _, h => by simp [OutsideMargin] at h
  | _ :: _, [], _, h => by simp [OutsideMargin] at h
  | _ :: _, _ :: _, [], h => by simp [OutsideMargin] at h

/-! ### the integer geometry of the linker model vs the rational geometry of the relocation model -/

/-- the integer weights describe the ellipsoid with semi-axes `r`: `wᵢ · rᵢ² = B` on every axis
(what `harness/linkcommon.weights` computes: `w = 16`, `B = (4·sr)²` for isotropic ranges,
`wᵢ = 16·Π/aᵢ²`, `B = Π` otherwise) -/
def WeightsAgree (B : Nat) : List Nat → List Rat → Prop
  | w :: ws, r :: rs => ((w : Rat) * (r * r) = (B : Rat) ∧ r ≠ 0) ∧ WeightsAgree B ws rs
  | [], [] => True
  | _, _ => False

theorem sqI_cast (z : Int) : ((Linker.sqI z : Nat) : Rat) = (z : Rat) * (z : Rat) := by
  unfold Linker.sqI
  have h : (0 : Int) ≤ z * z := mul_self_nonneg z
  have : (((z * z).toNat : Nat) : Int) = z * z := Int.toNat_of_nonneg h
  have h2 : (((z * z).toNat : Nat) : Rat) = ((z * z : Int) : Rat) := by
    rw [← Int.cast_natCast, this]
  rw [h2]; push_cast; ring

/-- with agreeing weights the linker's weighted squared distance is `B` times the relocation
model's squared distance in units of the semi-axes -/
theorem dist2_scale (B : Nat) : ∀ (ws : List Nat) (rs : List Rat) (p q : List Int),
    WeightsAgree B ws rs → ((Linker.dist2 ws p q : Nat) : Rat) = (B : Rat) * dist2 rs q p
  | [], [], _, _, _ => by simp [Linker.dist2, dist2]
  | [], _ :: _, _, _, h => by simp [WeightsAgree] at h
  | _ :: _, [], _, _, h => by simp [WeightsAgree] at h
  | _ :: _, _ :: _, [], _, _ => by
    cases ‹List Int› <;> simp [Linker.dist2, dist2]
  | _ :: _, _ :: _, _ :: _, [], _ => by simp [Linker.dist2, dist2]
  | w :: ws, r :: rs, p :: ps, q :: qs, h => by
    obtain ⟨⟨hw, hr⟩, hrest⟩ := h
    have ih := dist2_scale B ws rs ps qs hrest
    simp only [Linker.dist2, dist2]
    push_cast
    rw [ih, sqI_cast, ← hw]
    push_cast
    field_simp
    ring

end TrackpyV.Relocate
