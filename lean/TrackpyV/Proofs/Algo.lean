import TrackpyV.Model.LinkerAlgo
import TrackpyV.Props.C02
/-!
Towards `algo_accepted`: the deterministic step (`Model/LinkerAlgo.lean`) is accepted by the
monitor.  Part 1: which source numbers occur in the sub-nets.
-/
namespace TrackpyV.Linker
open TrackpyV.Assign

/-- source numbers in the groups: no repetition, all below `k`, all with a real candidate -/
structure SrcInv (dsOf : Nat → List Nat) (k : Nat) (gs : List Group) : Prop where
  nodup : (gs.flatMap (·.1)).Nodup
  lt : ∀ i ∈ gs.flatMap (·.1), i < k
  nonempty : ∀ i ∈ gs.flatMap (·.1), dsOf i ≠ []

theorem filter_flatMap_fst_perm (gs : List Group) (p : Group → Bool) :
    ((gs.filter p).flatMap (·.1) ++ (gs.filter (fun g => !(p g))).flatMap (·.1)).Perm
      (gs.flatMap (·.1)) := by
  induction gs with
  | nil => simp
  | cons g gs ih =>
    by_cases hp : p g = true
    · simp only [List.filter_cons, hp, if_true, Bool.not_true, Bool.false_eq_true, if_false,
        List.flatMap_cons, List.append_assoc]
      exact List.Perm.append_left _ ih
    · have hp' : p g = false := by simpa using hp
      simp only [List.filter_cons, hp', Bool.false_eq_true, if_false, Bool.not_false, if_true,
        List.flatMap_cons]
      refine List.Perm.trans ?_ (List.Perm.append_left _ ih)
      rw [← List.append_assoc, ← List.append_assoc]
      exact List.Perm.append_right _ List.perm_append_comm

theorem addSource_srcInv (dsOf : Nat → List Nat) (k : Nat) (gs : List Group)
    (h : SrcInv dsOf k gs) : SrcInv dsOf (k + 1) (addSource k (dsOf k) gs) := by
  unfold addSource
  by_cases he : (dsOf k).isEmpty = true
  · simp only [he, if_true]
    exact ⟨h.nodup, fun i hi => Nat.lt_succ_of_lt (h.lt i hi), h.nonempty⟩
  · simp only [he, Bool.false_eq_true, if_false]
    have hperm := filter_flatMap_fst_perm gs (hasDest (dsOf k))
    have hmem : ∀ i, i ∈ (k :: (gs.filter (hasDest (dsOf k))).flatMap (·.1)) ++
        (gs.filter (fun g => !(hasDest (dsOf k) g))).flatMap (·.1) ↔ i = k ∨ i ∈ gs.flatMap (·.1) := by
      intro i
      simp only [List.cons_append, List.mem_cons]
      rw [hperm.mem_iff]
    have hflat : ((k :: (gs.filter (hasDest (dsOf k))).flatMap (·.1),
          (gs.filter (hasDest (dsOf k))).flatMap (·.2)) ::
          gs.filter (fun g => !(hasDest (dsOf k) g))).flatMap (·.1) =
        (k :: (gs.filter (hasDest (dsOf k))).flatMap (·.1)) ++
          (gs.filter (fun g => !(hasDest (dsOf k) g))).flatMap (·.1) := by
      simp
    refine ⟨?_, ?_, ?_⟩
    · rw [hflat, List.cons_append, List.nodup_cons]
      constructor
      · intro hk
        rw [hperm.mem_iff] at hk
        exact Nat.lt_irrefl k (h.lt k hk)
      · exact (hperm.nodup_iff).mpr h.nodup
    · intro i hi
      rw [hflat, hmem] at hi
      rcases hi with rfl | hi
      · exact Nat.lt_succ_self _
      · exact Nat.lt_succ_of_lt (h.lt i hi)
    · intro i hi
      rw [hflat, hmem] at hi
      rcases hi with rfl | hi
      · intro h0; rw [h0] at he; simp at he
      · exact h.nonempty i hi

theorem foldl_srcInv (dsOf : Nat → List Nat) (l : List (List Cand)) (k : Nat) (gs : List Group)
    (h : SrcInv dsOf k gs) (hl : ∀ x ∈ l.zipIdx k, realDests x.1 = dsOf x.2) :
    SrcInv dsOf (k + l.length)
      ((l.zipIdx k).foldl (fun gs x => addSource x.2 (realDests x.1) gs) gs) := by
  induction l generalizing k gs with
  | nil => simpa using h
  | cons c cs ih =>
    simp only [List.zipIdx_cons, List.foldl_cons, List.length_cons]
    have h0 := hl (c, k) (by simp [List.zipIdx_cons])
    simp only at h0
    rw [h0]
    have := ih (k + 1) _ (addSource_srcInv dsOf k gs h)
      (fun x hx => hl x (by simp only [List.zipIdx_cons]; exact List.mem_cons_of_mem _ hx))
    have e : k + 1 + cs.length = k + (cs.length + 1) := by omega
    rw [e] at this
    exact this

theorem subnets_srcInv (n : Nat) (cands : List (List Cand)) :
    SrcInv (dsOfCands cands) cands.length (subnets n cands) := by
  unfold subnets
  have hfold : ∀ (gs : List Group),
      (cands.zipIdx).foldl (fun gs (x : List Cand × Nat) => addSource x.2 (realDests x.1) gs) gs =
      (cands.zipIdx).foldl (fun gs x => match x with | (cs, i) => addSource i (realDests cs) gs) gs := by
    intro gs; rfl
  simp only
  rw [← hfold]
  have h0 : SrcInv (dsOfCands cands) 0 ((List.range n).map (fun j => (([], [j]) : Group))) := by
    have : ((List.range n).map (fun j => (([], [j]) : Group))).flatMap (·.1) = [] := by
      induction (List.range n) with
      | nil => rfl
      | cons a l ih => simp [ih]
    constructor
    · rw [this]; exact List.nodup_nil
    · rw [this]; intro i hi; cases hi
    · rw [this]; intro i hi; cases hi
  have := foldl_srcInv (dsOfCands cands) cands 0 _ h0 (by
    intro x hx
    obtain ⟨cs, i⟩ := x
    have hm := List.mem_zipIdx hx
    simp only [Nat.zero_add, Nat.sub_zero] at hm
    obtain ⟨_, hi, hcs⟩ := hm
    simp only [dsOfCands, getD']
    rw [List.getElem?_eq_getElem hi]
    simp [hcs])
  simpa using this

/-! ### Part 2: every sub-net gets a solution -/

theorem allSomeL_eq_some {α} (l : List (Option α)) (r : List α) (h : allSomeL l = some r) :
    l = r.map some := by
  induction l generalizing r with
  | nil => simp [allSomeL] at h; subst h; rfl
  | cons x xs ih =>
    cases x with
    | none => simp [allSomeL] at h
    | some y =>
      simp only [allSomeL, Option.map_eq_some_iff] at h
      obtain ⟨r', hr', rfl⟩ := h
      simp [ih r' hr']

theorem allSomeL_of_all_some {α} (l : List (Option α)) (h : ∀ x ∈ l, ∃ y, x = some y) :
    ∃ r, allSomeL l = some r := by
  induction l with
  | nil => exact ⟨[], rfl⟩
  | cons x xs ih =>
    obtain ⟨y, rfl⟩ := h x (List.mem_cons_self ..)
    obtain ⟨r, hr⟩ := ih (fun z hz => h z (List.mem_cons_of_mem _ hz))
    exact ⟨y :: r, by simp [allSomeL, hr]⟩

theorem picks_length {srcs : List Src} {a : List Cand} (h : Picks srcs a) :
    a.length = srcs.length := by
  induction srcs generalizing a with
  | nil => cases a with
    | nil => rfl
    | cons _ _ => simp at h
  | cons s ss ih =>
    cases a with
    | nil => simp at h
    | cons c cs =>
      simp only [picks_cons_cons] at h
      simp [ih h.2]

theorem stepCands_length (cfg : Cfg) (st : State) (t : Int) (dsts : List Pos) :
    (stepCands cfg st t dsts).length = st.srcs.length := by simp [stepCands]

theorem srcOf_stepCands (cfg : Cfg) (st : State) (t : Int) (dsts : List Pos) (i : Nat)
    (hi : i < st.srcs.length) :
    srcOf (stepCands cfg st t dsts) i = candsOf cfg t dsts st.srcs[i] := by
  simp [srcOf, getD', stepCands, hi]

theorem stepGroups_srcInv (cfg : Cfg) (st : State) (t : Int) (dsts : List Pos) :
    SrcInv (dsOfCands (stepCands cfg st t dsts)) st.srcs.length (stepGroups cfg st t dsts) := by
  have := subnets_srcInv dsts.length (stepCands cfg st t dsts)
  rw [stepCands_length] at this
  exact this

theorem group_src_lt (cfg : Cfg) (st : State) (t : Int) (dsts : List Pos) (g : Group)
    (hg : g ∈ stepGroups cfg st t dsts) (i : Nat) (hi : i ∈ g.1) : i < st.srcs.length :=
  (stepGroups_srcInv cfg st t dsts).lt i (List.mem_flatMap.mpr ⟨g, hg, hi⟩)

/-- what `groupChoice` returns for a sub-net of the step -/
theorem groupChoice_spec (cfg : Cfg) (st : State) (t : Int) (dsts : List Pos) (g : Group)
    (hg : g ∈ stepGroups cfg st t dsts) :
    ∃ a, groupChoice (stepCands cfg st t dsts) g = some (g.1.zip a) ∧ a.length = g.1.length ∧
      (g.1 ≠ [] → Admissible (g.1.map (srcOf (stepCands cfg st t dsts))) a ∧
        solveOrdered (g.1.map (srcOf (stepCands cfg st t dsts))) = some (cost a, a)) := by
  unfold groupChoice
  by_cases he : g.1 = []
  · refine ⟨[], by simp [he], by simp [he], fun h => absurd he h⟩
  · have hise : g.1.isEmpty = false := by simpa using he
    simp only [hise, Bool.false_eq_true, if_false]
    have hne : g.1.map (srcOf (stepCands cfg st t dsts)) ≠ [] := by simpa using he
    have hsorted : AllSorted (g.1.map (srcOf (stepCands cfg st t dsts))) := by
      intro s hs
      simp only [List.mem_map] at hs
      obtain ⟨i, hi, rfl⟩ := hs
      rw [srcOf_stepCands cfg st t dsts i (group_src_lt cfg st t dsts g hg i hi)]
      exact candsOf_sorted cfg t dsts _
    have hnull : ∀ s ∈ g.1.map (srcOf (stepCands cfg st t dsts)), HasNull s := by
      intro s hs
      simp only [List.mem_map] at hs
      obtain ⟨i, hi, rfl⟩ := hs
      rw [srcOf_stepCands cfg st t dsts i (group_src_lt cfg st t dsts g hg i hi)]
      exact ⟨cfg.B, candsOf_hasNull cfg t dsts _⟩
    obtain ⟨c, a, hsol⟩ := solveOrdered_total _ hne hsorted hnull
    obtain ⟨hadm, hcost⟩ := solveOrdered_admissible _ c a hsol
    rw [hsol]
    refine ⟨a, rfl, ?_, fun _ => ⟨hadm, by rw [hcost]⟩⟩
    have := picks_length hadm.1
    simpa using this

/-! ### Part 3: the list of choices -/

/-- the choices of one group (empty if the solver failed — it never does, `groupChoice_spec`) -/
def gch (cfg : Cfg) (st : State) (t : Int) (dsts : List Pos) (g : Group) : List (Nat × Cand) :=
  (groupChoice (stepCands cfg st t dsts) g).getD []

theorem flatMap_congr_mem {α β} {l : List α} {f g : α → List β} (h : ∀ a ∈ l, f a = g a) :
    l.flatMap f = l.flatMap g := by
  induction l with
  | nil => rfl
  | cons a l ih =>
    simp only [List.flatMap_cons, h a (List.mem_cons_self ..)]
    rw [ih (fun b hb => h b (List.mem_cons_of_mem _ hb))]

theorem allSomeL_map_getD {α β} (l : List α) (f : α → Option β) (d : β)
    (h : ∀ x ∈ l, ∃ y, f x = some y) :
    allSomeL (l.map f) = some (l.map (fun x => (f x).getD d)) := by
  induction l with
  | nil => rfl
  | cons x xs ih =>
    obtain ⟨y, hy⟩ := h x (List.mem_cons_self ..)
    simp [allSomeL, hy, ih (fun z hz => h z (List.mem_cons_of_mem _ hz))]

theorem algoChoices_eq (cfg : Cfg) (st : State) (t : Int) (dsts : List Pos) :
    algoChoices cfg st t dsts =
      some ((stepGroups cfg st t dsts).flatMap (gch cfg st t dsts)) := by
  unfold algoChoices
  rw [allSomeL_map_getD _ _ []]
  · simp only [Option.map_some, List.flatMap]
    rfl
  · intro g hg
    obtain ⟨a, ha, _⟩ := groupChoice_spec cfg st t dsts g hg
    exact ⟨_, ha⟩

/-- all choices of the step -/
def choices (cfg : Cfg) (st : State) (t : Int) (dsts : List Pos) : List (Nat × Cand) :=
  (stepGroups cfg st t dsts).flatMap (gch cfg st t dsts)

theorem gch_spec (cfg : Cfg) (st : State) (t : Int) (dsts : List Pos) (g : Group)
    (hg : g ∈ stepGroups cfg st t dsts) :
    ∃ a, gch cfg st t dsts g = g.1.zip a ∧ a.length = g.1.length ∧
      (g.1 ≠ [] → Admissible (g.1.map (srcOf (stepCands cfg st t dsts))) a ∧
        solveOrdered (g.1.map (srcOf (stepCands cfg st t dsts))) = some (cost a, a)) := by
  obtain ⟨a, ha, hl, hs⟩ := groupChoice_spec cfg st t dsts g hg
  exact ⟨a, by simp [gch, ha], hl, hs⟩

theorem choices_fst (cfg : Cfg) (st : State) (t : Int) (dsts : List Pos) :
    (choices cfg st t dsts).map Prod.fst = (stepGroups cfg st t dsts).flatMap (·.1) := by
  unfold choices
  rw [List.map_flatMap]
  apply flatMap_congr_mem
  intro g hg
  obtain ⟨a, ha, hl, _⟩ := gch_spec cfg st t dsts g hg
  rw [ha]
  exact List.map_fst_zip (by omega)

/-- F1: a source occurs at most once among the choices -/
theorem choices_fst_nodup (cfg : Cfg) (st : State) (t : Int) (dsts : List Pos) :
    ((choices cfg st t dsts).map Prod.fst).Nodup := by
  rw [choices_fst]; exact (stepGroups_srcInv cfg st t dsts).nodup

theorem choices_fst_lt (cfg : Cfg) (st : State) (t : Int) (dsts : List Pos) (x : Nat × Cand)
    (hx : x ∈ choices cfg st t dsts) : x.1 < st.srcs.length := by
  have : x.1 ∈ (choices cfg st t dsts).map Prod.fst := List.mem_map.mpr ⟨x, hx, rfl⟩
  rw [choices_fst] at this
  exact (stepGroups_srcInv cfg st t dsts).lt x.1 this

theorem picks_zip_mem {α} (l : List α) (f : α → Src) (a : List Cand) (h : Picks (l.map f) a)
    (i : α) (c : Cand) (hm : (i, c) ∈ l.zip a) : c ∈ f i := by
  induction l generalizing a with
  | nil => simp at hm
  | cons x xs ih =>
    cases a with
    | nil => simp at hm
    | cons y ys =>
      simp only [List.map_cons, picks_cons_cons] at h
      simp only [List.zip_cons_cons, List.mem_cons, Prod.mk.injEq] at hm
      rcases hm with ⟨rfl, rfl⟩ | hm
      · exact h.1
      · exact ih ys h.2 hm

/-- F2: every chosen candidate is one of the source's own candidates -/
theorem choices_mem_cands (cfg : Cfg) (st : State) (t : Int) (dsts : List Pos) (x : Nat × Cand)
    (hx : x ∈ choices cfg st t dsts) :
    ∃ hi : x.1 < st.srcs.length, x.2 ∈ candsOf cfg t dsts st.srcs[x.1] := by
  have hlt := choices_fst_lt cfg st t dsts x hx
  refine ⟨hlt, ?_⟩
  simp only [choices, List.mem_flatMap] at hx
  obtain ⟨g, hg, hxg⟩ := hx
  obtain ⟨a, ha, hl, hs⟩ := gch_spec cfg st t dsts g hg
  rw [ha] at hxg
  have hne : g.1 ≠ [] := by
    intro h0; rw [h0] at hxg; simp at hxg
  obtain ⟨hadm, _⟩ := hs hne
  have := picks_zip_mem g.1 (srcOf (stepCands cfg st t dsts)) a hadm.1 x.1 x.2 hxg
  rw [srcOf_stepCands cfg st t dsts x.1 hlt] at this
  exact this

/-! ### Part 4: a destination is chosen by at most one source -/

theorem filterMap_zip_snd {α} (l : List α) (a : List Cand) (h : a.length ≤ l.length) :
    (l.zip a).filterMap (fun x => x.2.1) = dests a := by
  have : (l.zip a).filterMap (fun x => x.2.1) = ((l.zip a).map Prod.snd).filterMap (·.1) := by
    rw [List.filterMap_map]; rfl
  rw [this, List.map_snd_zip h]
  rfl

/-- the real destinations chosen within one group -/
theorem gch_dests (cfg : Cfg) (st : State) (t : Int) (dsts : List Pos) (g : Group)
    (hg : g ∈ stepGroups cfg st t dsts) :
    ((gch cfg st t dsts g).filterMap (fun x => x.2.1)).Nodup ∧
    ∀ x ∈ (gch cfg st t dsts g).filterMap (fun x => x.2.1), x ∈ g.2 := by
  obtain ⟨a, ha, hl, hs⟩ := gch_spec cfg st t dsts g hg
  rw [ha, filterMap_zip_snd g.1 a (by omega)]
  by_cases hne : g.1 = []
  · have : a = [] := by
      rw [hne] at hl; simpa using hl
    subst this
    simp [dests]
  · obtain ⟨hadm, _⟩ := hs hne
    refine ⟨hadm.2.1, ?_⟩
    intro x hx
    have h1 := picks_dests_subset _ a hadm.1 x hx
    exact groupDests_gSrcs_subset _ g _ _ (stepGroups_inv cfg st t dsts) hg x h1

theorem choices_dests_nodup (cfg : Cfg) (st : State) (t : Int) (dsts : List Pos) :
    ((choices cfg st t dsts).filterMap (fun x => x.2.1)).Nodup := by
  unfold choices
  rw [List.filterMap_flatMap]
  unfold List.Nodup
  rw [List.pairwise_flatMap]
  constructor
  · intro g hg
    exact (gch_dests cfg st t dsts g hg).1
  · have hd := groups_dests_disjoint _ _ _ (stepGroups_inv cfg st t dsts)
    refine List.Pairwise.imp_of_mem ?_ hd
    intro A B hA hB hAB x hx y hy hxy
    subst hxy
    exact hAB x ((gch_dests cfg st t dsts A hA).2 x hx) ((gch_dests cfg st t dsts B hB).2 x hy)

theorem eq_of_nodup_filterMap {α β} (l : List α) (f : α → Option β) (hnd : (l.filterMap f).Nodup)
    (x y : α) (hx : x ∈ l) (hy : y ∈ l) (b : β) (hfx : f x = some b) (hfy : f y = some b) :
    x = y := by
  induction l with
  | nil => cases hx
  | cons z zs ih =>
    simp only [List.filterMap_cons] at hnd
    rcases List.mem_cons.mp hx with rfl | hx' <;> rcases List.mem_cons.mp hy with rfl | hy'
    · rfl
    · rw [hfx] at hnd
      rw [List.nodup_cons] at hnd
      exact absurd (List.mem_filterMap.mpr ⟨y, hy', hfy⟩) hnd.1
    · rw [hfy] at hnd
      rw [List.nodup_cons] at hnd
      exact absurd (List.mem_filterMap.mpr ⟨x, hx', hfx⟩) hnd.1
    · apply ih _ hx' hy'
      cases hz : f z with
      | none => rw [hz] at hnd; exact hnd
      | some w => rw [hz] at hnd; exact (List.nodup_cons.mp hnd).2

/-- F3: two choices with the same real destination are the same choice -/
theorem choices_dest_inj (cfg : Cfg) (st : State) (t : Int) (dsts : List Pos)
    (x y : Nat × Cand) (hx : x ∈ choices cfg st t dsts) (hy : y ∈ choices cfg st t dsts)
    (j : Nat) (hxj : x.2.1 = some j) (hyj : y.2.1 = some j) : x = y :=
  eq_of_nodup_filterMap _ (fun z => z.2.1) (choices_dests_nodup cfg st t dsts) x y hx hy j hxj hyj

/-- two choices of the same source are the same choice -/
theorem choices_src_inj (cfg : Cfg) (st : State) (t : Int) (dsts : List Pos)
    (x y : Nat × Cand) (hx : x ∈ choices cfg st t dsts) (hy : y ∈ choices cfg st t dsts)
    (h : x.1 = y.1) : x = y := by
  have hnd := choices_fst_nodup cfg st t dsts
  have : ((choices cfg st t dsts).filterMap (fun z => some z.1)).Nodup := by
    have e : (choices cfg st t dsts).filterMap (fun z => some z.1) =
        (choices cfg st t dsts).map Prod.fst := by
      induction (choices cfg st t dsts) with
      | nil => rfl
      | cons a l ih => simp [ih]
    rw [e]; exact hnd
  exact eq_of_nodup_filterMap _ (fun z => some z.1) this x y hx hy x.1 rfl (by rw [h])

/-! ### Part 5: the labels -/

/-- what the algorithm needs to know about the state (both follow from the invariant `Inv`) -/
structure Good (st : State) : Prop where
  tracksNodup : (st.srcs.map (·.track)).Nodup
  tracksUsed : ∀ s ∈ st.srcs, s.track ∈ st.used

theorem good_of_inv {cfg : Cfg} {st : State} {hist : List LLevel} (h : Inv cfg st hist) : Good st := by
  refine ⟨h.nodup, ?_⟩
  intro s hs
  obtain ⟨hl, _⟩ := h.src_last s hs
  obtain ⟨lv, hlv, hm⟩ := lastObs_some_mem hist s.track _ hl
  exact h.used lv hlv _ hm

theorem le_foldl_max (l : List Nat) (b x : Nat) (h : x ∈ l ∨ x ≤ b) : x ≤ l.foldl max b := by
  induction l generalizing b with
  | nil =>
    rcases h with h | h
    · cases h
    · simpa using h
  | cons y ys ih =>
    simp only [List.foldl_cons]
    apply ih
    rcases h with h | h
    · rcases List.mem_cons.mp h with rfl | h
      · right; exact Nat.le_max_right _ _
      · left; exact h
    · right; exact Nat.le_trans h (Nat.le_max_left _ _)

theorem lt_freshBase (st : State) (x : Nat) (h : x ∈ st.used) : x < freshBase st := by
  unfold freshBase
  exact Nat.lt_succ_of_le (le_foldl_max _ _ _ (Or.inl h))

theorem trackOf_eq (st : State) (i : Nat) (hi : i < st.srcs.length) :
    trackOf st i = st.srcs[i].track := by
  simp [trackOf, hi]

theorem trackOf_inj (st : State) (hg : Good st) (i i' : Nat) (hi : i < st.srcs.length)
    (hi' : i' < st.srcs.length) (h : trackOf st i = trackOf st i') : i = i' := by
  rw [trackOf_eq st i hi, trackOf_eq st i' hi'] at h
  have hnd := hg.tracksNodup
  have h1 : (st.srcs.map (·.track))[i]'(by simpa using hi) =
      (st.srcs.map (·.track))[i']'(by simpa using hi') := by simpa using h
  exact (List.getElem_inj hnd).mp h1

theorem trackOf_used (st : State) (hg : Good st) (i : Nat) (hi : i < st.srcs.length) :
    trackOf st i ∈ st.used := by
  rw [trackOf_eq st i hi]
  exact hg.tracksUsed _ (List.getElem_mem hi)

/-- the labels the deterministic step assigns -/
def algoLab (cfg : Cfg) (st : State) (t : Int) (dsts : List Pos) : List Nat :=
  (List.range dsts.length).map (labelOf st (choices cfg st t dsts))

theorem algoLabels_eq (cfg : Cfg) (st : State) (t : Int) (dsts : List Pos) :
    algoLabels cfg st t dsts = some (algoLab cfg st t dsts) := by
  simp [algoLabels, algoChoices_eq, algoLab, choices]

/-- LF1: a destination chosen by source `x.1` carries that source's track -/
theorem labelOf_chosen (cfg : Cfg) (st : State) (t : Int) (dsts : List Pos) (x : Nat × Cand)
    (hx : x ∈ choices cfg st t dsts) (j : Nat) (hj : x.2.1 = some j) :
    labelOf st (choices cfg st t dsts) j = trackOf st x.1 := by
  unfold labelOf
  cases hf : (choices cfg st t dsts).find? (fun y => y.2.1 == some j) with
  | none =>
    have := List.find?_eq_none.mp hf x hx
    simp [hj] at this
  | some y =>
    have hy := List.mem_of_find?_eq_some hf
    have hyj : y.2.1 = some j := by simpa using List.find?_some hf
    rw [choices_dest_inj cfg st t dsts x y hx hy j hj hyj]

theorem labelOf_cases (cfg : Cfg) (st : State) (t : Int) (dsts : List Pos) (j : Nat) :
    (∃ x ∈ choices cfg st t dsts, x.2.1 = some j ∧
        labelOf st (choices cfg st t dsts) j = trackOf st x.1) ∨
    ((∀ x ∈ choices cfg st t dsts, x.2.1 ≠ some j) ∧
        labelOf st (choices cfg st t dsts) j = freshBase st + j) := by
  unfold labelOf
  cases hf : (choices cfg st t dsts).find? (fun y => y.2.1 == some j) with
  | none =>
    right
    refine ⟨?_, rfl⟩
    intro x hx hxj
    have := List.find?_eq_none.mp hf x hx
    simp [hxj] at this
  | some y =>
    left
    exact ⟨y, List.mem_of_find?_eq_some hf, by simpa using List.find?_some hf, rfl⟩

theorem labelOf_inj (cfg : Cfg) (st : State) (t : Int) (dsts : List Pos) (hg : Good st)
    (j j' : Nat) (h : labelOf st (choices cfg st t dsts) j = labelOf st (choices cfg st t dsts) j') :
    j = j' := by
  rcases labelOf_cases cfg st t dsts j with ⟨x, hx, hxj, hl⟩ | ⟨_, hl⟩ <;>
    rcases labelOf_cases cfg st t dsts j' with ⟨x', hx', hxj', hl'⟩ | ⟨_, hl'⟩
  · rw [hl, hl'] at h
    have := trackOf_inj st hg x.1 x'.1 (choices_fst_lt cfg st t dsts x hx)
      (choices_fst_lt cfg st t dsts x' hx') h
    have hxx := choices_src_inj cfg st t dsts x x' hx hx' this
    rw [hxx, hxj'] at hxj
    exact (Option.some.inj hxj).symm
  · rw [hl, hl'] at h
    have := lt_freshBase st _ (trackOf_used st hg x.1 (choices_fst_lt cfg st t dsts x hx))
    omega
  · rw [hl, hl'] at h
    have := lt_freshBase st _ (trackOf_used st hg x'.1 (choices_fst_lt cfg st t dsts x' hx'))
    omega
  · rw [hl, hl'] at h; omega

theorem algoLab_length (cfg : Cfg) (st : State) (t : Int) (dsts : List Pos) :
    (algoLab cfg st t dsts).length = dsts.length := by simp [algoLab]

theorem algoLab_getElem (cfg : Cfg) (st : State) (t : Int) (dsts : List Pos) (j : Nat)
    (hj : j < (algoLab cfg st t dsts).length) :
    (algoLab cfg st t dsts)[j] = labelOf st (choices cfg st t dsts) j := by
  simp [algoLab]

theorem algoLab_nodup (cfg : Cfg) (st : State) (t : Int) (dsts : List Pos) (hg : Good st) :
    (algoLab cfg st t dsts).Nodup := by
  unfold algoLab List.Nodup
  rw [List.pairwise_map]
  refine List.Pairwise.imp ?_ (List.pairwise_lt_range)
  intro a b hab h
  have := labelOf_inj cfg st t dsts hg a b h
  omega

theorem mem_algoLab (cfg : Cfg) (st : State) (t : Int) (dsts : List Pos) (l : Nat) :
    l ∈ algoLab cfg st t dsts ↔ ∃ j < dsts.length, labelOf st (choices cfg st t dsts) j = l := by
  simp [algoLab, List.mem_map, List.mem_range]

/-! ### Part 6: the labels are valid (C01 part of the relation) -/

theorem src_eq_of_track_eq (st : State) (hg : Good st) (s s' : Source) (hs : s ∈ st.srcs)
    (hs' : s' ∈ st.srcs) (h : s.track = s'.track) : s = s' := by
  obtain ⟨i, hi, rfl⟩ := List.mem_iff_getElem.mp hs
  obtain ⟨i', hi', rfl⟩ := List.mem_iff_getElem.mp hs'
  have : i = i' := trackOf_inj st hg i i' hi hi' (by rw [trackOf_eq st i hi, trackOf_eq st i' hi']; exact h)
  subst this; rfl

theorem mem_zip_algoLab (cfg : Cfg) (st : State) (t : Int) (dsts : List Pos) (q : Pos) (l : Nat)
    (h : (q, l) ∈ dsts.zip (algoLab cfg st t dsts)) :
    ∃ j, ∃ hj : j < dsts.length, q = dsts[j] ∧ l = labelOf st (choices cfg st t dsts) j := by
  obtain ⟨j, hj, he⟩ := List.mem_iff_getElem.mp h
  simp only [List.length_zip, algoLab_length, Nat.min_self] at hj
  refine ⟨j, hj, ?_, ?_⟩
  · have := congrArg Prod.fst he; simpa using this.symm
  · have := congrArg Prod.snd he
    simp only [List.getElem_zip] at this
    rw [algoLab_getElem] at this
    exact this.symm

theorem algo_valid (cfg : Cfg) (st : State) (t : Int) (dsts : List Pos) (hg : Good st) :
    validWhy cfg st t dsts (algoLab cfg st t dsts) = none := by
  unfold validWhy
  have h1 : ¬ ((algoLab cfg st t dsts).length ≠ dsts.length) := by
    simp [algoLab_length]
  have h2 : (!(decide (algoLab cfg st t dsts).Nodup)) = false := by
    simp [algoLab_nodup cfg st t dsts hg]
  have h3 : (freshLabels st (algoLab cfg st t dsts)).any (fun l => st.used.contains l) = false := by
    rw [List.any_eq_false]
    intro l hl
    simp only [freshLabels, List.mem_filter, List.contains_eq_mem, Bool.not_eq_true',
      decide_eq_false_iff_not] at hl
    obtain ⟨hmem, hnt⟩ := hl
    obtain ⟨j, _, hlj⟩ := (mem_algoLab cfg st t dsts l).mp hmem
    simp only [List.contains_eq_mem, decide_eq_true_eq]
    rcases labelOf_cases cfg st t dsts j with ⟨x, hx, _, hlab⟩ | ⟨_, hlab⟩
    · exfalso
      apply hnt
      rw [← hlj, hlab, trackOf_eq st x.1 (choices_fst_lt cfg st t dsts x hx)]
      exact List.mem_map.mpr ⟨_, List.getElem_mem _, rfl⟩
    · intro hu
      have := lt_freshBase st l hu
      rw [← hlj, hlab] at this
      omega
  have h4 : (!(linksOkB cfg st t dsts (algoLab cfg st t dsts))) = false := by
    simp only [Bool.not_eq_false', linksOkB, List.all_eq_true]
    intro ql hql
    obtain ⟨q, l⟩ := ql
    obtain ⟨j, hj, rfl, rfl⟩ := mem_zip_algoLab cfg st t dsts q l hql
    simp only
    cases hf : st.srcs.find? (fun s => s.track == labelOf st (choices cfg st t dsts) j) with
    | none => rfl
    | some s =>
      simp only [decide_eq_true_eq]
      have hsm : s ∈ st.srcs := List.mem_of_find?_eq_some hf
      have hst : s.track = labelOf st (choices cfg st t dsts) j := by
        simpa using List.find?_some hf
      rcases labelOf_cases cfg st t dsts j with ⟨x, hx, hxj, hlab⟩ | ⟨_, hlab⟩
      · obtain ⟨hi, hc⟩ := choices_mem_cands cfg st t dsts x hx
        have hs : s = st.srcs[x.1] := by
          apply src_eq_of_track_eq st hg s _ hsm (List.getElem_mem _)
          rw [hst, hlab, trackOf_eq st x.1 hi]
        obtain ⟨i, d, c⟩ := x
        simp only at hxj hc hi hs
        subst hxj
        obtain ⟨_, hcd, hle⟩ := (candidate_iff_in_range cfg t dsts _ j c).mp hc
        rw [hs, ← hcd]
        exact hle
      · exfalso
        have := lt_freshBase st _ (hg.tracksUsed s hsm)
        rw [hst, hlab] at this
        omega
  simp only [h1, h2, h3, h4, if_false, Bool.false_eq_true]

/-! ### Part 7: reading the labels back gives the solver's choices (C02 part of the relation) -/

theorem none_mem_candsOf (cfg : Cfg) (t : Int) (dsts : List Pos) (s : Source) (c : Cand)
    (hc : c ∈ candsOf cfg t dsts s) (hn : c.1 = none) : c = (none, cfg.B) := by
  rcases mem_candsOfRow _ _ c hc with h | ⟨j, _, h, _⟩
  · exact h
  · rw [h] at hn; cases hn

/-- K: for every choice `(i, c)`, what `asgOf` reads back from the algorithm's labels is `c` -/
theorem asgOf_choice (cfg : Cfg) (st : State) (t : Int) (dsts : List Pos) (hg : Good st)
    (x : Nat × Cand) (hx : x ∈ choices cfg st t dsts) :
    asgOf cfg st (algoLab cfg st t dsts) (stepCands cfg st t dsts) x.1 = x.2 := by
  obtain ⟨hi, hc⟩ := choices_mem_cands cfg st t dsts x hx
  obtain ⟨i, c⟩ := x
  simp only at hi hc ⊢
  have hsrc : st.srcs[i]? = some st.srcs[i] := List.getElem?_eq_getElem hi
  have hcs : getD' (stepCands cfg st t dsts) i [] = candsOf cfg t dsts st.srcs[i] :=
    srcOf_stepCands cfg st t dsts i hi
  simp only [asgOf, hsrc, hcs, chosenOf]
  have htr : st.srcs[i].track = trackOf st i := (trackOf_eq st i hi).symm
  cases hd : c.1 with
  | none =>
    have hcB := none_mem_candsOf cfg t dsts _ c hc hd
    have hnot : st.srcs[i].track ∉ algoLab cfg st t dsts := by
      intro hmem
      obtain ⟨j', _, hlj⟩ := (mem_algoLab cfg st t dsts _).mp hmem
      rcases labelOf_cases cfg st t dsts j' with ⟨x', hx', hxj', hlab⟩ | ⟨_, hlab⟩
      · rw [hlab, htr] at hlj
        have := trackOf_inj st hg x'.1 i (choices_fst_lt cfg st t dsts x' hx') hi hlj
        have hxx := choices_src_inj cfg st t dsts x' (i, c) hx' hx this
        rw [hxx] at hxj'
        simp only at hxj'
        rw [hd] at hxj'; cases hxj'
      · rw [hlab, htr] at hlj
        have := lt_freshBase st _ (trackOf_used st hg i hi)
        omega
    have : (algoLab cfg st t dsts).idxOf? st.srcs[i].track = none :=
      List.idxOf?_eq_none_iff.mpr hnot
    rw [this]
    exact hcB.symm
  | some j =>
    obtain ⟨d, c2⟩ := c
    simp only at hd
    subst hd
    obtain ⟨hj, hc2, _⟩ := (candidate_iff_in_range cfg t dsts _ j c2).mp hc
    have hlab : labelOf st (choices cfg st t dsts) j = trackOf st i :=
      labelOf_chosen cfg st t dsts (i, (some j, c2)) hx j rfl
    have hidx : (algoLab cfg st t dsts).idxOf? st.srcs[i].track = some j := by
      rw [List.idxOf?_eq_some_iff]
      refine ⟨by rw [algoLab_length]; exact hj, ?_, ?_⟩
      · rw [algoLab_getElem, hlab, htr]
      · intro j' hj' heq
        rw [algoLab_getElem, htr, ← hlab] at heq
        have := labelOf_inj cfg st t dsts hg j' j heq
        omega
    rw [hidx]
    simp only
    cases hf : (candsOf cfg t dsts st.srcs[i]).find? (fun c' => c'.1 == some j) with
    | none =>
      have := List.find?_eq_none.mp hf (some j, c2) hc
      simp at this
    | some c' =>
      simp only
      have hc'm := List.mem_of_find?_eq_some hf
      have hc'j : c'.1 = some j := by simpa using List.find?_some hf
      obtain ⟨d', c2'⟩ := c'
      simp only at hc'j
      subst hc'j
      obtain ⟨_, hc2', _⟩ := (candidate_iff_in_range cfg t dsts _ j c2').mp hc'm
      rw [hc2, hc2']

theorem zip3_map_same {α β γ} (f : α → β) (h : α → γ) (l : List α) :
    (l.map f).zip ((l.map h).zip l) = l.map (fun g => (f g, h g, g)) := by
  induction l with
  | nil => rfl
  | cons a as ih => simp [ih]

theorem algo_optimal (cfg : Cfg) (hdrop : cfg.drop = false) (st : State) (t : Int)
    (dsts : List Pos) (hg : Good st) :
    optWhy cfg st t dsts (algoLab cfg st t dsts) = none := by
  unfold optWhy
  simp only
  have h1 : (!(pairwiseDisjointB ((gSrcs (stepCands cfg st t dsts) (stepGroups cfg st t dsts)).map
      groupDests))) = false := by
    simp [step_groups_disjoint cfg st t dsts]
  have h2 : (!((gSrcs (stepCands cfg st t dsts) (stepGroups cfg st t dsts)).zip
      ((gAsg cfg st (algoLab cfg st t dsts) (stepCands cfg st t dsts) (stepGroups cfg st t dsts)).zip
        (stepGroups cfg st t dsts))).all (fun x => groupOkB cfg x.1 x.2.1 x.2.2)) = false := by
    simp only [Bool.not_eq_false', gSrcs, gAsg, zip3_map_same, List.all_eq_true, List.mem_map]
    rintro _ ⟨g, hgm, rfl⟩
    simp only
    obtain ⟨a, ha, hl, hs⟩ := gch_spec cfg st t dsts g hgm
    -- reading the labels back gives exactly the solver's assignment of this group
    have hasg : g.1.map (asgOf cfg st (algoLab cfg st t dsts) (stepCands cfg st t dsts)) = a := by
      apply List.ext_getElem
      · simp [hl]
      · intro k hk1 hk2
        simp only [List.getElem_map]
        have hk : k < g.1.length := by simpa using hk1
        have hmem : (g.1[k], a[k]) ∈ choices cfg st t dsts := by
          simp only [choices, List.mem_flatMap]
          refine ⟨g, hgm, ?_⟩
          rw [ha, List.mem_iff_getElem]
          exact ⟨k, by simp [hl]; exact hk, by simp⟩
        exact asgOf_choice cfg st t dsts hg (g.1[k], a[k]) hmem
    rw [hasg]
    unfold groupOkB
    by_cases hne : g.1 = []
    · simp [hne]
    · have hise : (g.1.map (srcOf (stepCands cfg st t dsts))).isEmpty = false := by simpa using hne
      obtain ⟨hadm, hsol⟩ := hs hne
      simp only [hise, Bool.false_eq_true, if_false, hdrop, Bool.false_and, hsol, beq_self_eq_true,
        Bool.and_true, Bool.and_eq_true, List.all_eq_true]
      constructor
      · intro s hsm
        simp only [List.mem_map] at hsm
        obtain ⟨i, hi, rfl⟩ := hsm
        rw [srcOf_stepCands cfg st t dsts i (group_src_lt cfg st t dsts g hgm i hi)]
        exact (sortedB_iff _).mpr (candsOf_sorted cfg t dsts _)
      · exact (admissibleB_iff _ _ _).mpr hadm
  simp only [h1, h2, Bool.false_eq_true, if_false]

end TrackpyV.Linker
