import TrackpyV.Proofs.Lsq
import Mathlib.Data.List.GetD
/-!
Chain rule through one pixel term, one pixel residual, one cluster and the whole objective:
every entry of the per-feature gradient array that `jacobian` builds is the partial derivative of
`residual` in the corresponding per-feature parameter.
-/
namespace TrackpyV.Lsq
set_option linter.unusedSectionVars false

/-- per-feature parameter `k` of a row without its background (`params[i, 1 + k]`):
0 = signal, 1..|θ| = centres and sizes, then the function parameters -/
def Feat.getP (f : Feat ℝ) (k : ℕ) : ℝ :=
  if k = 0 then f.signal
  else if k ≤ f.θ.length then f.θ.getD (k - 1) 0
  else f.fp.getD (k - 1 - f.θ.length) 0

/-- the row with parameter `k` replaced -/
def Feat.setP (f : Feat ℝ) (k : ℕ) (u : ℝ) : Feat ℝ :=
  if k = 0 then { f with signal := u }
  else if k ≤ f.θ.length then { f with θ := f.θ.set (k - 1) u }
  else { f with fp := f.fp.set (k - 1 - f.θ.length) u }

@[simp] theorem Feat.setP_id (f : Feat ℝ) (k : ℕ) (u : ℝ) : (f.setP k u).id = f.id := by
  unfold Feat.setP; split_ifs <;> rfl
@[simp] theorem Feat.setP_bg (f : Feat ℝ) (k : ℕ) (u : ℝ) : (f.setP k u).bg = f.bg := by
  unfold Feat.setP; split_ifs <;> rfl

theorem list_set_getD_self (l : List ℝ) (i : ℕ) : l.set i (l.getD i 0) = l := by
  by_cases h : i < l.length
  · rw [List.getD_eq_getElem?_getD, List.getElem?_eq_getElem h]
    exact List.set_getElem_self h
  · exact List.set_eq_of_length_le (Nat.le_of_not_lt h)

theorem Feat.setP_theta (f : Feat ℝ) (k : ℕ) (u : ℝ) (h0 : k ≠ 0) (h1 : k ≤ f.θ.length) :
    f.setP k u = { f with θ := f.θ.set (k - 1) u } := by
  simp [Feat.setP, h0, h1]
theorem Feat.getP_theta (f : Feat ℝ) (k : ℕ) (h0 : k ≠ 0) (h1 : k ≤ f.θ.length) :
    f.getP k = f.θ.getD (k - 1) 0 := by
  simp [Feat.getP, h0, h1]
theorem Feat.setP_fp (f : Feat ℝ) (k : ℕ) (u : ℝ) (h1 : f.θ.length < k) :
    f.setP k u = { f with fp := f.fp.set (k - 1 - f.θ.length) u } := by
  have h0 : k ≠ 0 := by omega
  have h2 : ¬ k ≤ f.θ.length := by omega
  simp [Feat.setP, h0, h2]
theorem Feat.getP_fp (f : Feat ℝ) (k : ℕ) (h1 : f.θ.length < k) :
    f.getP k = f.fp.getD (k - 1 - f.θ.length) 0 := by
  have h0 : k ≠ 0 := by omega
  have h2 : ¬ k ≤ f.θ.length := by omega
  simp [Feat.getP, h0, h2]

theorem Feat.setP_getP (f : Feat ℝ) (k : ℕ) : f.setP k (f.getP k) = f := by
  by_cases h0 : k = 0
  · subst h0; simp [Feat.setP, Feat.getP]
  by_cases h1 : k ≤ f.θ.length
  · rw [Feat.getP_theta f k h0 h1, Feat.setP_theta f k _ h0 h1, list_set_getD_self]
  · rw [Feat.getP_fp f k (by omega), Feat.setP_fp f k _ (by omega), list_set_getD_self]

/-- what "admissible" means for feature `f` at pixel `q`: array shapes as the code builds them,
sizes ≠ 0, and for `ring`: thickness ≠ 0 and the pixel is not at the centre (`r2 > 0`; the code
NaN-masks every pixel within 1 px of the centre) -/
structure Admissible (g : Geo) (fn : Fn) (f : Feat ℝ) (q : Pix ℝ) : Prop where
  geo : GeoOK g q.xs f.θ
  nfp : f.fp.length = fn.nParams
  ring : fn = .ring → f.fp.getD 0 0 ≠ 0 ∧ 0 < r2 g q.xs f.θ

variable (g : Geo) (fn : Fn) (nd : ℝ)

/-- derivative of the model function in `r2` (both functions) -/
theorem fn_hasDerivAt_r2 (fp : List ℝ) (r0 : ℝ) (hn : fp.length = fn.nParams)
    (hring : fn = .ring → fp.getD 0 0 ≠ 0 ∧ 0 < r0) :
    HasDerivAt (fun r => fnVal fn nd r fp) ((fnDeriv fn nd r0 fp).headD 0) r0 := by
  cases fn with
  | gauss => exact gauss_hasDerivAt nd r0 fp
  | ring =>
    obtain ⟨t, rfl⟩ := List.length_eq_one_iff.1 (by simpa [Fn.nParams] using hn)
    have := hring rfl
    exact ring_hasDerivAt_r2 nd t r0 this.2 (by simpa using this.1)

theorem length_fnDeriv (fp : List ℝ) (r : ℝ) (hn : fp.length = fn.nParams) :
    (fnDeriv fn nd r fp).length = 1 + fn.nParams := by
  cases fn with
  | gauss => simp [fnDeriv, Fn.nParams]
  | ring =>
    obtain ⟨t, rfl⟩ := List.length_eq_one_iff.1 (by simpa [Fn.nParams] using hn)
    simp [fnDeriv, Fn.nParams]

/-- **model_chain**: every entry of `derivs[j, :, q]` is the derivative of `signal * model` at pixel
`q` in the corresponding parameter of the feature (signal: the model itself; centres and sizes:
`signal * f'(r2) * ∂r2/∂θ`; thickness: `signal * ∂f/∂t`) -/
theorem term_hasDerivAt (f : Feat ℝ) (q : Pix ℝ) (h : Admissible g fn f q) (k : ℕ)
    (hk : k < 1 + g.nShape + fn.nParams) :
    HasDerivAt (fun u => term g fn nd (f.setP k u) q) ((dterm g fn nd f q).getD k 0)
      (f.getP k) := by
  obtain ⟨hgeo, hnfp, hring⟩ := h
  have hθ := hgeo.hθ
  have hdl := length_dr2 g q.xs f.θ hgeo
  by_cases h0 : k = 0
  · subst h0
    simp only [Feat.setP, Feat.getP, if_true, term, dterm, List.cons_append, List.nil_append,
      List.getD_cons_zero]
    simpa using (hasDerivAt_id f.signal).mul_const (fnVal fn nd (r2 g q.xs f.θ) f.fp)
  by_cases h1 : k ≤ f.θ.length
  · -- a centre coordinate or a size: chain rule through r2
    have hk' : k - 1 < g.nShape := by omega
    rw [Feat.getP_theta f k h0 h1]
    simp only [Feat.setP_theta f k _ h0 h1, term]
    have hr := r2_hasDerivAt g q.xs f.θ hgeo (k - 1) hk'
    have hf := fn_hasDerivAt_r2 fn nd f.fp (r2 g q.xs f.θ) hnfp hring
    have hcomp : HasDerivAt (fun u => fnVal fn nd (r2 g q.xs (f.θ.set (k - 1) u)) f.fp)
        ((fnDeriv fn nd (r2 g q.xs f.θ) f.fp).headD 0 * (dr2 g q.xs f.θ).getD (k - 1) 0)
        (f.θ.getD (k - 1) 0) := by
      have := HasDerivAt.comp (h₂ := fun r => fnVal fn nd r f.fp)
        (h := fun u => r2 g q.xs (f.θ.set (k - 1) u)) (f.θ.getD (k - 1) 0)
        (by rw [list_set_getD_self]; exact hf) hr
      exact this
    have := hcomp.const_mul f.signal
    refine this.congr_deriv ?_
    obtain ⟨k', rfl⟩ : ∃ k', k = k' + 1 := ⟨k - 1, by omega⟩
    simp only [dterm, List.cons_append, List.nil_append, List.getD_cons_succ, Nat.add_sub_cancel,
      zero_real]
    rw [List.getD_append _ _ _ _ (by simp [hdl]; omega)]
    rw [List.getD_eq_getElem?_getD, List.getD_eq_getElem?_getD, List.getElem?_map]
    have hlt : k' < (dr2 g q.xs f.θ).length := by omega
    simp [List.getElem?_eq_getElem hlt]
  · -- a function parameter (ring thickness)
    have hkk : k = f.θ.length + 1 := by
      have : fn.nParams ≤ 1 := by cases fn <;> simp [Fn.nParams]
      omega
    have hfn : fn = .ring := by
      cases fn with
      | gauss => simp [Fn.nParams] at hk; omega
      | ring => rfl
    subst hfn
    obtain ⟨t, ht⟩ := List.length_eq_one_iff.1 (by simpa [Fn.nParams] using hnfp)
    have htn : t ≠ 0 := by simpa [ht] using (hring rfl).1
    rw [Feat.getP_fp f k (by omega)]
    have hset : ∀ u, f.setP k u = { f with fp := f.fp.set (k - 1 - f.θ.length) u } :=
      fun u => Feat.setP_fp f k u (by omega)
    simp only [hset, term, ht]
    simp only [hkk, Nat.add_sub_cancel, Nat.sub_self, List.set_cons_zero, List.getD_cons_zero]
    have := (ring_hasDerivAt_t nd t (r2 g q.xs f.θ) htn).const_mul f.signal
    refine this.congr_deriv ?_
    simp only [dterm, ht, List.cons_append, List.nil_append, List.getD_cons_succ]
    rw [List.getD_append_right _ _ _ _ (by simp [hdl, hθ])]
    simp [hdl, hθ, fnDeriv]


/-! ### one pixel of the residual -/

/-- what feature `f` subtracts from `diff[q]` -/
noncomputable def contrib (act : ℕ → ℕ → Bool) (f : Feat ℝ) (q : Pix ℝ) : ℝ :=
  if act f.id q.id then term g fn nd f q else 0

theorem diffAt_eq (act : ℕ → ℕ → Bool) (feats : List (Feat ℝ)) (q : Pix ℝ) :
    diffAt g fn nd act feats q =
      q.val - bgOf feats - (feats.map (fun f => contrib g fn nd act f q)).sum := by
  have h : ∀ (init : ℝ) (l : List (Feat ℝ)),
      l.foldl (fun d f => if act f.id q.id then d - term g fn nd f q else d) init =
        init - (l.map (fun f => contrib g fn nd act f q)).sum := by
    intro init l
    induction l generalizing init with
    | nil => simp
    | cons a t ih =>
      simp only [List.foldl_cons, List.map_cons, List.sum_cons, ih, contrib]
      split_ifs <;> ring
  exact h _ _

theorem bgOf_setP (pre post : List (Feat ℝ)) (f : Feat ℝ) (k : ℕ) (u : ℝ) :
    bgOf (pre ++ f.setP k u :: post) = bgOf (pre ++ f :: post) := by
  cases pre <;> simp [bgOf]

theorem hasDerivAt_list_sum {ι : Type} (l : List ι) (F : ι → ℝ → ℝ) (F' : ι → ℝ) (x : ℝ)
    (h : ∀ i ∈ l, HasDerivAt (F i) (F' i) x) :
    HasDerivAt (fun u => (l.map (fun i => F i u)).sum) ((l.map F').sum) x := by
  induction l with
  | nil => simpa using hasDerivAt_const x (0 : ℝ)
  | cons a t ih =>
    simp only [List.map_cons, List.sum_cons]
    exact (h a (by simp)).fun_add (ih (fun i hi => h i (by simp [hi])))

/-- derivative of `diff[q]` in parameter `k` of feature `f` of the cluster -/
theorem diffAt_hasDerivAt (act : ℕ → ℕ → Bool) (pre post : List (Feat ℝ)) (f : Feat ℝ)
    (q : Pix ℝ) (k : ℕ) (hk : k < 1 + g.nShape + fn.nParams)
    (hadm : act f.id q.id = true → Admissible g fn f q) :
    HasDerivAt (fun u => diffAt g fn nd act (pre ++ f.setP k u :: post) q)
      (if act f.id q.id then -((dterm g fn nd f q).getD k 0) else 0) (f.getP k) := by
  simp only [diffAt_eq, bgOf_setP, List.map_append, List.sum_append, List.map_cons, List.sum_cons,
    contrib, Feat.setP_id]
  by_cases ha : act f.id q.id = true
  · simp only [ha, if_true]
    have hT := term_hasDerivAt g fn nd f q (hadm ha) k hk
    exact ((hT.add_const _).const_add _).const_sub _
  · have hf : act f.id q.id = false := by simpa using ha
    simp only [hf, Bool.false_eq_true, if_false]
    exact hasDerivAt_const (𝕜 := ℝ) (F := ℝ) _ _

/-! ### one cluster -/

theorem gradRow_getD (act : ℕ → ℕ → Bool) (L : ℝ) (feats : List (Feat ℝ)) (pixels : List (Pix ℝ))
    (f : Feat ℝ) (k : ℕ) (hk : k < 1 + f.θ.length + f.fp.length) :
    (gradRow g fn nd act L feats pixels f).getD k 0 =
      (pixels.map (fun q =>
        if act f.id q.id then -2 * diffAt g fn nd act feats q * (dterm g fn nd f q).getD k 0
        else 0)).sum / L := by
  simp only [gradRow, List.getD_eq_getElem?_getD, List.getElem?_map, lsum_real, two_real, zero_real]
  rw [List.getElem?_range hk]
  simp

/-- **residual_grad (cluster)**: entry `k` of the row the code writes into `result[i, 1:]` is the
partial derivative of the cluster's residual in parameter `k` of feature `i` -/
theorem clusterRes_hasDerivAt (act : ℕ → ℕ → Bool) (L : ℝ) (pre post : List (Feat ℝ)) (f : Feat ℝ)
    (pixels : List (Pix ℝ)) (k : ℕ) (hθ : f.θ.length = g.nShape) (hfp : f.fp.length = fn.nParams)
    (hk : k < 1 + g.nShape + fn.nParams)
    (hadm : ∀ q ∈ pixels, act f.id q.id = true → Admissible g fn f q) :
    HasDerivAt (fun u => clusterRes g fn nd act L (pre ++ f.setP k u :: post) pixels)
      ((gradRow g fn nd act L (pre ++ f :: post) pixels f).getD k 0) (f.getP k) := by
  rw [gradRow_getD g fn nd act L _ pixels f k (by omega)]
  simp only [clusterRes, lsum_real, sq]
  have hq : ∀ q ∈ pixels, HasDerivAt
      (fun u => diffAt g fn nd act (pre ++ f.setP k u :: post) q *
        diffAt g fn nd act (pre ++ f.setP k u :: post) q)
      (if act f.id q.id then
        -2 * diffAt g fn nd act (pre ++ f :: post) q * (dterm g fn nd f q).getD k 0 else 0)
      (f.getP k) := by
    intro q hq
    have hd := diffAt_hasDerivAt g fn nd act pre post f q k hk (hadm q hq)
    have := hd.fun_mul hd
    simp only [Feat.setP_getP] at this
    refine this.congr_deriv ?_
    split_ifs <;> ring
  exact (hasDerivAt_list_sum pixels _ _ _ hq).div_const L

/-- all rows of the cluster share one background value `b` -/
def setBg (feats : List (Feat ℝ)) (b : ℝ) : List (Feat ℝ) := feats.map (fun f => { f with bg := b })

theorem diffAt_setBg (act : ℕ → ℕ → Bool) (feats : List (Feat ℝ)) (hne : feats ≠ []) (q : Pix ℝ)
    (b : ℝ) : diffAt g fn nd act (setBg feats b) q =
      q.val - b - (feats.map (fun f => contrib g fn nd act f q)).sum := by
  rw [diffAt_eq]
  congr 1
  · cases feats with
    | nil => exact absurd rfl hne
    | cons a t => simp [setBg, bgOf]
  · simp [setBg, List.map_map, Function.comp_def, contrib, term]

/-- **residual_grad (background)**: the sum over the rows of the cluster of `result[indices, 0]`
(what `operation=np.sum` packs for a background shared by the cluster) is the derivative of the
cluster's residual in the shared background -/
theorem clusterRes_hasDerivAt_bg (act : ℕ → ℕ → Bool) (L : ℝ) (feats : List (Feat ℝ))
    (hne : feats ≠ []) (pixels : List (Pix ℝ)) (b0 : ℝ) :
    HasDerivAt (fun b => clusterRes g fn nd act L (setBg feats b) pixels)
      ((feats.length : ℝ) * gradBg g fn nd act L (setBg feats b0) pixels) b0 := by
  have hn : ((feats.length : ℕ) : ℝ) ≠ 0 := by
    simpa using hne
  simp only [clusterRes, gradBg, lsum_real, sq, two_real, diffAt_setBg g fn nd act feats hne]
  have hlen : (setBg feats b0).length = feats.length := by simp [setBg]
  rw [hlen, ← mul_div_assoc, mul_div_mul_left _ _ hn]
  have hq : ∀ q ∈ pixels, HasDerivAt
      (fun b => (q.val - b - (feats.map (fun f => contrib g fn nd act f q)).sum) *
        (q.val - b - (feats.map (fun f => contrib g fn nd act f q)).sum))
      (-2 * (q.val - b0 - (feats.map (fun f => contrib g fn nd act f q)).sum)) b0 := by
    intro q _
    have h1 : HasDerivAt (fun b : ℝ => q.val - b -
        (feats.map (fun f => contrib g fn nd act f q)).sum) (-1) b0 := by
      simpa using ((hasDerivAt_id b0).const_sub q.val).sub_const
        ((feats.map (fun f => contrib g fn nd act f q)).sum)
    refine (h1.fun_mul h1).congr_deriv ?_
    ring
  exact (hasDerivAt_list_sum pixels _ _ _ hq).div_const L

/-! ### the whole objective -/

theorem gradRows_getD (c : Cluster ℝ) (pre post : List (Feat ℝ)) (f : Feat ℝ)
    (hc : c.feats = pre ++ f :: post) :
    (gradRows g fn nd c).getD pre.length [] =
      gradBg g fn nd c.act c.L c.feats c.pixels :: gradRow g fn nd c.act c.L c.feats c.pixels f := by
  simp [gradRows, hc, List.getD_eq_getElem?_getD]

theorem gradRows_bg_sum (c : Cluster ℝ) :
    ((gradRows g fn nd c).map (fun row => row.headD 0)).sum =
      (c.feats.length : ℝ) * gradBg g fn nd c.act c.L c.feats c.pixels := by
  simp [gradRows, List.map_map, Function.comp_def]

end TrackpyV.Lsq
