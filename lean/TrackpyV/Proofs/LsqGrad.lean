import TrackpyV.Proofs.Lsq
import Mathlib.Data.List.GetD
/-!
Chain rule through one pixel term, one pixel residual, one cluster and the whole objective:
every entry of the per-feature gradient array that `jacobian` builds is the partial derivative of
`residual` in the corresponding per-feature parameter.
-/
namespace TrackpyV.Lsq
set_option linter.unusedSectionVars false

/-- per-feature parameter `k` of a row without its background (`params[i, 1 + k]`):
0 = signal, 1..|θ| = centres and sizes, then the function parameters -/
def Feat.getP (f : Feat ℝ) (k : ℕ) : ℝ :=
  if k = 0 then f.signal
  else if k ≤ f.θ.length then f.θ.getD (k - 1) 0
  else f.fp.getD (k - 1 - f.θ.length) 0

/-- the row with parameter `k` replaced -/
def Feat.setP (f : Feat ℝ) (k : ℕ) (u : ℝ) : Feat ℝ :=
  if k = 0 then { f with signal := u }
  else if k ≤ f.θ.length then { f with θ := f.θ.set (k - 1) u }
  else { f with fp := f.fp.set (k - 1 - f.θ.length) u }

@[simp] theorem Feat.setP_id (f : Feat ℝ) (k : ℕ) (u : ℝ) : (f.setP k u).id = f.id := by
  unfold Feat.setP; split_ifs <;> rfl
@[simp] theorem Feat.setP_bg (f : Feat ℝ) (k : ℕ) (u : ℝ) : (f.setP k u).bg = f.bg := by
  unfold Feat.setP; split_ifs <;> rfl

theorem list_set_getD_self (l : List ℝ) (i : ℕ) : l.set i (l.getD i 0) = l := by
  by_cases h : i < l.length
  · rw [List.getD_eq_getElem?_getD, List.getElem?_eq_getElem h]
    exact List.set_getElem_self h
  · exact List.set_eq_of_length_le (Nat.le_of_not_lt h)

theorem Feat.setP_theta (f : Feat ℝ) (k : ℕ) (u : ℝ) (h0 : k ≠ 0) (h1 : k ≤ f.θ.length) :
    f.setP k u = { f with θ := f.θ.set (k - 1) u } := by
  simp [Feat.setP, h0, h1]
theorem Feat.getP_theta (f : Feat ℝ) (k : ℕ) (h0 : k ≠ 0) (h1 : k ≤ f.θ.length) :
    f.getP k = f.θ.getD (k - 1) 0 := by
  simp [Feat.getP, h0, h1]
theorem Feat.setP_fp (f : Feat ℝ) (k : ℕ) (u : ℝ) (h1 : f.θ.length < k) :
    f.setP k u = { f with fp := f.fp.set (k - 1 - f.θ.length) u } := by
  have h0 : k ≠ 0 := by omega
  have h2 : ¬ k ≤ f.θ.length := by omega
  simp [Feat.setP, h0, h2]
theorem Feat.getP_fp (f : Feat ℝ) (k : ℕ) (h1 : f.θ.length < k) :
    f.getP k = f.fp.getD (k - 1 - f.θ.length) 0 := by
  have h0 : k ≠ 0 := by omega
  have h2 : ¬ k ≤ f.θ.length := by omega
  simp [Feat.getP, h0, h2]

theorem Feat.setP_getP (f : Feat ℝ) (k : ℕ) : f.setP k (f.getP k) = f := by
  by_cases h0 : k = 0
  · subst h0; simp [Feat.setP, Feat.getP]
  by_cases h1 : k ≤ f.θ.length
  · rw [Feat.getP_theta f k h0 h1, Feat.setP_theta f k _ h0 h1, list_set_getD_self]
  · rw [Feat.getP_fp f k (by omega), Feat.setP_fp f k _ (by omega), list_set_getD_self]

/-- what "admissible" means for feature `f` at pixel `q`: array shapes as the code builds them,
sizes ≠ 0, and for `ring`: thickness ≠ 0 and the pixel is not at the centre (`r2 > 0`; the code
NaN-masks every pixel within 1 px of the centre) -/
structure Admissible (g : Geo) (fn : Fn) (f : Feat ℝ) (q : Pix ℝ) : Prop where
  geo : GeoOK g q.xs f.θ
  nfp : f.fp.length = fn.nParams
  ring : fn = .ring → f.fp.getD 0 0 ≠ 0 ∧ 0 < r2 g q.xs f.θ

variable (g : Geo) (fn : Fn) (nd : ℝ)

/-- derivative of the model function in `r2` (both functions) -/
theorem fn_hasDerivAt_r2 (fp : List ℝ) (r0 : ℝ) (hn : fp.length = fn.nParams)
    (hring : fn = .ring → fp.getD 0 0 ≠ 0 ∧ 0 < r0) :
    HasDerivAt (fun r => fnVal fn nd r fp) ((fnDeriv fn nd r0 fp).headD 0) r0 := by
  cases fn with
  | gauss => exact gauss_hasDerivAt nd r0 fp
  | ring =>
    obtain ⟨t, rfl⟩ := List.length_eq_one_iff.1 (by simpa [Fn.nParams] using hn)
    have := hring rfl
    exact ring_hasDerivAt_r2 nd t r0 this.2 (by simpa using this.1)

theorem length_fnDeriv (fp : List ℝ) (r : ℝ) (hn : fp.length = fn.nParams) :
    (fnDeriv fn nd r fp).length = 1 + fn.nParams := by
  cases fn with
  | gauss => simp [fnDeriv, Fn.nParams]
  | ring =>
    obtain ⟨t, rfl⟩ := List.length_eq_one_iff.1 (by simpa [Fn.nParams] using hn)
    simp [fnDeriv, Fn.nParams]

/-- **model_chain**: every entry of `derivs[j, :, q]` is the derivative of `signal * model` at pixel
`q` in the corresponding parameter of the feature (signal: the model itself; centres and sizes:
`signal * f'(r2) * ∂r2/∂θ`; thickness: `signal * ∂f/∂t`) -/
theorem term_hasDerivAt (f : Feat ℝ) (q : Pix ℝ) (h : Admissible g fn f q) (k : ℕ)
    (hk : k < 1 + g.nShape + fn.nParams) :
    HasDerivAt (fun u => term g fn nd (f.setP k u) q) ((dterm g fn nd f q).getD k 0)
      (f.getP k) := by
  obtain ⟨hgeo, hnfp, hring⟩ := h
  have hθ := hgeo.hθ
  have hdl := length_dr2 g q.xs f.θ hgeo
  by_cases h0 : k = 0
  · subst h0
    simp only [Feat.setP, Feat.getP, if_true, term, dterm, List.cons_append, List.nil_append,
      List.getD_cons_zero]
    simpa using (hasDerivAt_id f.signal).mul_const (fnVal fn nd (r2 g q.xs f.θ) f.fp)
  by_cases h1 : k ≤ f.θ.length
  · -- a centre coordinate or a size: chain rule through r2
    have hk' : k - 1 < g.nShape := by omega
    rw [Feat.getP_theta f k h0 h1]
    simp only [Feat.setP_theta f k _ h0 h1, term]
    have hr := r2_hasDerivAt g q.xs f.θ hgeo (k - 1) hk'
    have hf := fn_hasDerivAt_r2 fn nd f.fp (r2 g q.xs f.θ) hnfp hring
    have hcomp : HasDerivAt (fun u => fnVal fn nd (r2 g q.xs (f.θ.set (k - 1) u)) f.fp)
        ((fnDeriv fn nd (r2 g q.xs f.θ) f.fp).headD 0 * (dr2 g q.xs f.θ).getD (k - 1) 0)
        (f.θ.getD (k - 1) 0) := by
      have := HasDerivAt.comp (h₂ := fun r => fnVal fn nd r f.fp)
        (h := fun u => r2 g q.xs (f.θ.set (k - 1) u)) (f.θ.getD (k - 1) 0)
        (by rw [list_set_getD_self]; exact hf) hr
      exact this
    have := hcomp.const_mul f.signal
    refine this.congr_deriv ?_
    obtain ⟨k', rfl⟩ : ∃ k', k = k' + 1 := ⟨k - 1, by omega⟩
    simp only [dterm, List.cons_append, List.nil_append, List.getD_cons_succ, Nat.add_sub_cancel,
      zero_real]
    rw [List.getD_append _ _ _ _ (by simp [hdl]; omega)]
    rw [List.getD_eq_getElem?_getD, List.getD_eq_getElem?_getD, List.getElem?_map]
    have hlt : k' < (dr2 g q.xs f.θ).length := by omega
    simp [List.getElem?_eq_getElem hlt]
  · -- a function parameter (ring thickness)
    have hkk : k = f.θ.length + 1 := by
      have : fn.nParams ≤ 1 := by cases fn <;> simp [Fn.nParams]
      omega
    have hfn : fn = .ring := by
      cases fn with
      | gauss => simp [Fn.nParams] at hk; omega
      | ring => rfl
    subst hfn
    obtain ⟨t, ht⟩ := List.length_eq_one_iff.1 (by simpa [Fn.nParams] using hnfp)
    have htn : t ≠ 0 := by simpa [ht] using (hring rfl).1
    rw [Feat.getP_fp f k (by omega)]
    have hset : ∀ u, f.setP k u = { f with fp := f.fp.set (k - 1 - f.θ.length) u } :=
      fun u => Feat.setP_fp f k u (by omega)
    simp only [hset, term, ht]
    simp only [hkk, Nat.add_sub_cancel, Nat.sub_self, List.set_cons_zero, List.getD_cons_zero]
    have := (ring_hasDerivAt_t nd t (r2 g q.xs f.θ) htn).const_mul f.signal
    refine this.congr_deriv ?_
    simp only [dterm, ht, List.cons_append, List.nil_append, List.getD_cons_succ]
    rw [List.getD_append_right _ _ _ _ (by simp [hdl, hθ])]
    simp [hdl, hθ, fnDeriv]

end TrackpyV.Lsq
