import TrackpyV.Model.Partial
/-!
Helper lemmas for the model of `reconnect_traj_patch` (Model/Partial.lean):
association lists, the fresh-id generator, membership characterisations of the three loops, and the
summary `Good` of everything the property theorems need to know about the two final dictionaries.
Core Lean only.
-/
namespace TrackpyV.Partial

/-! ### association lists -/

theorem lk_some_mem {m : Map} {k v : Int} (h : lk m k = some v) : (k, v) ∈ m := by
  induction m with
  | nil => simp [lk] at h
  | cons p m ih =>
    obtain ⟨a, b⟩ := p
    simp only [lk] at h
    split at h
    · simp_all
    · exact List.mem_cons_of_mem _ (ih h)

theorem lk_isSome_of_key {m : Map} {k v : Int} (h : (k, v) ∈ m) : ∃ v', lk m k = some v' := by
  induction m with
  | nil => simp at h
  | cons p m ih =>
    obtain ⟨a, b⟩ := p
    simp only [lk]
    by_cases hk : k = a
    · exact ⟨b, by simp [hk]⟩
    · simp only [hk, if_false]
      rcases List.mem_cons.1 h with h | h
      · exact absurd (by simpa using (congrArg Prod.fst h)) hk
      · exact ih h

theorem lk_none_iff {m : Map} {k : Int} : lk m k = none ↔ ∀ v, (k, v) ∉ m := by
  constructor
  · intro h v hv
    obtain ⟨v', hv'⟩ := lk_isSome_of_key hv
    simp [h] at hv'
  · intro h
    cases hl : lk m k with
    | none => rfl
    | some v => exact absurd (lk_some_mem hl) (h v)

/-- a key that is bound to a single value is looked up to that value -/
theorem lk_of_mem_unique {m : Map} {k v : Int} (h : (k, v) ∈ m)
    (hu : ∀ v', (k, v') ∈ m → v' = v) : lk m k = some v := by
  obtain ⟨v', hv'⟩ := lk_isSome_of_key h
  rw [hv', hu v' (lk_some_mem hv')]

theorem lk_append (a b : Map) (k : Int) :
    lk (a ++ b) k = match lk a k with | some v => some v | none => lk b k := by
  induction a with
  | nil => simp [lk]
  | cons p a ih =>
    obtain ⟨x, y⟩ := p
    simp only [List.cons_append, lk]
    split <;> simp_all

theorem lk_append_of_not_key {a b : Map} {k : Int} (h : ∀ v, (k, v) ∉ a) :
    lk (a ++ b) k = lk b k := by
  rw [lk_append, lk_none_iff.2 h]

/-! ### `dedup` -/

theorem mem_dedup {l : List Int} {x : Int} : x ∈ dedup l ↔ x ∈ l := by
  induction l with
  | nil => simp [dedup]
  | cons a l ih =>
    simp only [dedup]
    split
    · rename_i h
      rw [ih]
      constructor
      · exact List.mem_cons_of_mem _
      · intro hx
        rcases List.mem_cons.1 hx with rfl | hx
        · exact h
        · exact hx
    · simp [ih]

/-! ### the fresh-id generator -/

/-- number of elements of `used` that are `≥ c` -/
def cntGeI (used : List Int) (c : Int) : Nat := used.countP (fun x => decide (c ≤ x))

theorem cntGeI_succ_le (used : List Int) (c : Int) : cntGeI used (c + 1) ≤ cntGeI used c := by
  unfold cntGeI
  apply List.countP_mono_left
  intro x _ hx
  simp only [decide_eq_true_eq] at hx ⊢
  omega

theorem cntGeI_succ_lt {used : List Int} {c : Int} (h : c ∈ used) :
    cntGeI used (c + 1) < cntGeI used c := by
  induction used with
  | nil => simp at h
  | cons a l ih =>
    have hle := cntGeI_succ_le l c
    unfold cntGeI at *
    rw [List.countP_cons, List.countP_cons]
    rcases List.mem_cons.1 h with h | h
    · subst h
      have h1 : decide (c + 1 ≤ c) = false := by
        rw [decide_eq_false_iff_not]; omega
      have h2 : decide (c ≤ c) = true := by simp
      rw [h1, h2]; simp; omega
    · have := ih h
      by_cases h1 : c + 1 ≤ a
      · have h2 : c ≤ a := by omega
        simp [h1, h2]; exact this
      · by_cases h2 : c ≤ a
        · simp [h1, h2]; omega
        · simp [h1, h2]; exact this

def cntGe (used : List Int) (c : Nat) : Nat := cntGeI used (c : Int)

theorem cntGe_succ_lt {used : List Int} {c : Nat} (h : (c : Int) ∈ used) :
    cntGe used (c + 1) < cntGe used c := by
  unfold cntGe
  have := cntGeI_succ_lt h
  simpa using this

theorem nextFreeAux_spec (used : List Int) :
    ∀ (fuel c : Nat), cntGe used c ≤ fuel →
      c ≤ nextFreeAux used fuel c ∧ ((nextFreeAux used fuel c : Nat) : Int) ∉ used := by
  intro fuel
  induction fuel with
  | zero =>
    intro c h
    simp only [nextFreeAux]
    refine ⟨Nat.le_refl _, ?_⟩
    intro hc
    have := cntGe_succ_lt hc
    omega
  | succ n ih =>
    intro c h
    simp only [nextFreeAux]
    split
    · rename_i hc
      have h1 := cntGe_succ_lt hc
      have := ih (c + 1) (by omega)
      exact ⟨by omega, this.2⟩
    · rename_i hc
      exact ⟨Nat.le_refl _, hc⟩

theorem nextFree_spec (used : List Int) (c : Nat) :
    c ≤ nextFree used c ∧ ((nextFree used c : Nat) : Int) ∉ used := by
  apply nextFreeAux_spec
  unfold cntGe cntGeI
  exact List.countP_le_length

/-- the pairs `assignFresh` adds, oldest first -/
def freshList (used : List Int) : List Int → Nat → Map
  | [], _ => []
  | t :: ts, c => (t, ((nextFree used c : Nat) : Int)) :: freshList used ts (nextFree used c + 1)

theorem assignFresh_eq (used : List Int) :
    ∀ (ts : List Int) (c : Nat) (mp : Map),
      assignFresh used ts c mp = (freshList used ts c).reverse ++ mp := by
  intro ts
  induction ts with
  | nil => intro c mp; simp [assignFresh, freshList]
  | cons t ts ih =>
    intro c mp
    simp only [assignFresh, freshList, ih, List.reverse_cons, List.append_assoc]
    rfl

theorem freshList_mem {used : List Int} :
    ∀ {ts : List Int} {c : Nat} {k v : Int}, (k, v) ∈ freshList used ts c →
      k ∈ ts ∧ v ∉ used ∧ (c : Int) ≤ v := by
  intro ts
  induction ts with
  | nil => intro c k v h; simp [freshList] at h
  | cons t ts ih =>
    intro c k v h
    simp only [freshList, List.mem_cons] at h
    rcases h with h | h
    · have hs := nextFree_spec used c
      obtain ⟨rfl, rfl⟩ := Prod.mk.inj h
      exact ⟨List.mem_cons_self, hs.2, by exact_mod_cast hs.1⟩
    · have := ih h
      have hs := nextFree_spec used c
      exact ⟨List.mem_cons_of_mem _ this.1, this.2.1, by omega⟩

theorem freshList_key {used : List Int} :
    ∀ {ts : List Int} {c : Nat} {t : Int}, t ∈ ts → ∃ v, (t, v) ∈ freshList used ts c := by
  intro ts
  induction ts with
  | nil => intro c t h; simp at h
  | cons a ts ih =>
    intro c t h
    rcases List.mem_cons.1 h with rfl | h
    · exact ⟨_, List.mem_cons_self⟩
    · obtain ⟨v, hv⟩ := ih (c := nextFree used c + 1) h
      exact ⟨v, by simp only [freshList]; exact List.mem_cons_of_mem _ hv⟩

/-- a fresh id is given to one track only -/
theorem freshList_inj {used : List Int} :
    ∀ {ts : List Int} {c : Nat} {k k' v : Int},
      (k, v) ∈ freshList used ts c → (k', v) ∈ freshList used ts c → k = k' := by
  intro ts
  induction ts with
  | nil => intro c k k' v h; simp [freshList] at h
  | cons t ts ih =>
    intro c k k' v h h'
    simp only [freshList, List.mem_cons] at h h'
    rcases h with h | h <;> rcases h' with h' | h'
    · obtain ⟨rfl, _⟩ := Prod.mk.inj h
      obtain ⟨rfl, _⟩ := Prod.mk.inj h'
      rfl
    · obtain ⟨_, rfl⟩ := Prod.mk.inj h
      have := (freshList_mem h').2.2
      omega
    · obtain ⟨_, rfl⟩ := Prod.mk.inj h'
      have := (freshList_mem h).2.2
      omega
    · exact ih h h'

/-! ### membership characterisations of the loops -/

theorem mem_loop1 (start : Int) : ∀ (rows : List Row) (mp0 : Map) (k v : Int),
    (k, v) ∈ loop1 start rows mp0 ↔
      (k, v) ∈ mp0 ∨ ∃ s ∈ rows, s.frame = start ∧ 0 ≤ s.old ∧ k = s.new ∧ v = s.old := by
  intro rows
  induction rows with
  | nil => intro mp0 k v; simp [loop1]
  | cons r rs ih =>
    intro mp0 k v
    simp only [loop1]
    split
    · rw [ih]; grind
    · rw [ih]; grind

/-- the condition under which the second loop looks at a row -/
def EC (stop : Int) (r : Row) : Prop := r.frame = stop - 1 ∧ 0 ≤ r.old

theorem loop2_char (stop : Int) (blk : Row → Bool) (mp1 : Map) :
    ∀ (rows : List Row) (adds ma pend : Map),
      rows.Pairwise (fun a b => a.frame = stop - 1 → b.frame = stop - 1 → a.new ≠ b.new) →
      (∀ k v, (k, v) ∈ adds → ∀ x ∈ rows, x.frame = stop - 1 → x.new ≠ k) →
      (∀ k v, (k, v) ∈ (loop2 blk stop rows ⟨adds ++ mp1, ma, pend⟩).mp ↔
          (k, v) ∈ adds ++ mp1 ∨ ∃ e ∈ rows, EC stop e ∧ k = e.new ∧ v = e.old ∧
            lk mp1 e.new = none ∧ blk e = false) ∧
      (∀ m v, (m, v) ∈ (loop2 blk stop rows ⟨adds ++ mp1, ma, pend⟩).ma ↔
          (m, v) ∈ ma ∨ ∃ e ∈ rows, EC stop e ∧ m = e.old ∧ lk mp1 e.new = some v) ∧
      (∀ k m, (k, m) ∈ (loop2 blk stop rows ⟨adds ++ mp1, ma, pend⟩).pend ↔
          (k, m) ∈ pend ∨ ∃ e ∈ rows, EC stop e ∧ k = e.new ∧ m = e.old ∧
            lk mp1 e.new = none ∧ blk e = true) := by
  intro rows
  induction rows with
  | nil => intro adds ma pend _ _; simp [loop2]
  | cons r rs ih =>
    intro adds ma pend hp hadds
    have hp' := (List.pairwise_cons.1 hp)
    have hadds' : ∀ k v, (k, v) ∈ adds → ∀ x ∈ rs, x.frame = stop - 1 → x.new ≠ k :=
      fun k v h x hx => hadds k v h x (List.mem_cons_of_mem _ hx)
    simp only [loop2]
    split
    · rename_i hc
      have hlk : lk (adds ++ mp1) r.new = lk mp1 r.new := by
        apply lk_append_of_not_key
        intro v hv
        exact hadds _ _ hv r List.mem_cons_self hc.1 rfl
      rw [hlk]
      split
      · rename_i v hv
        have := ih adds ((r.old, v) :: ma) pend hp'.2 hadds'
        refine ⟨?_, ?_, ?_⟩
        · intro k w; rw [this.1]; unfold EC; grind
        · intro m w; rw [this.2.1]; unfold EC; grind
        · intro k m; rw [this.2.2]; unfold EC; grind
      · rename_i hv
        split
        · rename_i hb
          have := ih adds ma ((r.new, r.old) :: pend) hp'.2 hadds'
          refine ⟨?_, ?_, ?_⟩
          · intro k w; rw [this.1]; unfold EC; grind
          · intro m w; rw [this.2.1]; unfold EC; grind
          · intro k m; rw [this.2.2]; unfold EC; grind
        · rename_i hb
          have hadds2 : ∀ k v, (k, v) ∈ (r.new, r.old) :: adds →
              ∀ x ∈ rs, x.frame = stop - 1 → x.new ≠ k := by
            intro k v h x hx hxf
            rcases List.mem_cons.1 h with h | h
            · obtain ⟨rfl, _⟩ := Prod.mk.inj h
              exact fun heq => hp'.1 x hx hc.1 hxf heq.symm
            · exact hadds' k v h x hx hxf
          have := ih ((r.new, r.old) :: adds) ma pend hp'.2 hadds2
          simp only [List.cons_append] at this
          refine ⟨?_, ?_, ?_⟩
          · intro k w; rw [this.1]; unfold EC; grind
          · intro m w; rw [this.2.1]; unfold EC; grind
          · intro k m; rw [this.2.2]; unfold EC; grind
    · rename_i hc
      have := ih adds ma pend hp'.2 hadds'
      refine ⟨?_, ?_, ?_⟩
      · intro k w; rw [this.1]; unfold EC; grind
      · intro m w; rw [this.2.1]; unfold EC; grind
      · intro k m; rw [this.2.2]; unfold EC; grind

theorem mem_applyPend (mpF : Map) : ∀ (ps ma : Map) (m v : Int),
    (m, v) ∈ applyPend mpF ps ma ↔ (m, v) ∈ ma ∨ ∃ t, (t, m) ∈ ps ∧ lk mpF t = some v := by
  intro ps
  induction ps with
  | nil => intro ma m v; simp [applyPend]
  | cons p ps ih =>
    intro ma m v
    obtain ⟨t, m'⟩ := p
    simp only [applyPend]
    split
    · rw [ih]; grind
    · rw [ih]; grind

/-! ### first / last frame of an in-range track -/

theorem firstFrame_none {start stop t : Int} : ∀ {rows : List Row},
    firstFrame start stop t rows = none → ∀ x ∈ rows, ¬ (inRange start stop x ∧ x.new = t) := by
  intro rows
  induction rows with
  | nil => intro _ x hx; simp at hx
  | cons r rs ih =>
    intro h x hx
    simp only [firstFrame] at h
    split at h
    · simp at h
    · rcases List.mem_cons.1 hx with rfl | hx
      · assumption
      · exact ih h x hx

theorem firstFrame_some {start stop t : Int} : ∀ {rows : List Row} {b : Int},
    firstFrame start stop t rows = some b →
      ∀ x ∈ rows, inRange start stop x → x.new = t → b ≤ x.frame := by
  intro rows
  induction rows with
  | nil => intro b h; simp [firstFrame] at h
  | cons r rs ih =>
    intro b h x hx hin hnew
    simp only [firstFrame] at h
    split at h
    · rename_i hc
      cases hrec : firstFrame start stop t rs with
      | none =>
        rw [hrec] at h
        simp at h
        rcases List.mem_cons.1 hx with rfl | hx
        · omega
        · exact absurd ⟨hin, hnew⟩ (firstFrame_none hrec x hx)
      | some m =>
        rw [hrec] at h
        simp at h
        have hm := ih hrec
        rcases List.mem_cons.1 hx with rfl | hx
        · split at h <;> omega
        · have := hm x hx hin hnew
          split at h <;> omega
    · rcases List.mem_cons.1 hx with rfl | hx
      · exact absurd (And.intro hin hnew) (by assumption)
      · exact ih h x hx hin hnew

theorem lastFrame_none {start stop t : Int} : ∀ {rows : List Row},
    lastFrame start stop t rows = none → ∀ x ∈ rows, ¬ (inRange start stop x ∧ x.new = t) := by
  intro rows
  induction rows with
  | nil => intro _ x hx; simp at hx
  | cons r rs ih =>
    intro h x hx
    simp only [lastFrame] at h
    split at h
    · simp at h
    · rcases List.mem_cons.1 hx with rfl | hx
      · assumption
      · exact ih h x hx

theorem lastFrame_some {start stop t : Int} : ∀ {rows : List Row} {b : Int},
    lastFrame start stop t rows = some b →
      ∀ x ∈ rows, inRange start stop x → x.new = t → x.frame ≤ b := by
  intro rows
  induction rows with
  | nil => intro b h; simp [lastFrame] at h
  | cons r rs ih =>
    intro b h x hx hin hnew
    simp only [lastFrame] at h
    split at h
    · rename_i hc
      cases hrec : lastFrame start stop t rs with
      | none =>
        rw [hrec] at h
        simp at h
        rcases List.mem_cons.1 hx with rfl | hx
        · omega
        · exact absurd ⟨hin, hnew⟩ (lastFrame_none hrec x hx)
      | some m =>
        rw [hrec] at h
        simp at h
        have hm := ih hrec
        rcases List.mem_cons.1 hx with rfl | hx
        · split at h <;> omega
        · have := hm x hx hin hnew
          split at h <;> omega
    · rcases List.mem_cons.1 hx with rfl | hx
      · exact absurd (And.intro hin hnew) (by assumption)
      · exact ih h x hx hin hnew

theorem firstFrame_attained {start stop t : Int} : ∀ {rows : List Row} {b : Int},
    firstFrame start stop t rows = some b →
      ∃ x ∈ rows, inRange start stop x ∧ x.new = t ∧ x.frame = b := by
  intro rows
  induction rows with
  | nil => intro b h; simp [firstFrame] at h
  | cons r rs ih =>
    intro b h
    simp only [firstFrame] at h
    split at h
    · rename_i hc
      cases hrec : firstFrame start stop t rs with
      | none =>
        rw [hrec] at h; simp at h
        exact ⟨r, List.mem_cons_self, hc.1, hc.2, h⟩
      | some m =>
        rw [hrec] at h; simp at h
        obtain ⟨x, hx, h1, h2, h3⟩ := ih hrec
        split at h
        · exact ⟨r, List.mem_cons_self, hc.1, hc.2, h⟩
        · exact ⟨x, List.mem_cons_of_mem _ hx, h1, h2, by omega⟩
    · obtain ⟨x, hx, h1⟩ := ih h
      exact ⟨x, List.mem_cons_of_mem _ hx, h1⟩

theorem lastFrame_attained {start stop t : Int} : ∀ {rows : List Row} {b : Int},
    lastFrame start stop t rows = some b →
      ∃ x ∈ rows, inRange start stop x ∧ x.new = t ∧ x.frame = b := by
  intro rows
  induction rows with
  | nil => intro b h; simp [lastFrame] at h
  | cons r rs ih =>
    intro b h
    simp only [lastFrame] at h
    split at h
    · rename_i hc
      cases hrec : lastFrame start stop t rs with
      | none =>
        rw [hrec] at h; simp at h
        exact ⟨r, List.mem_cons_self, hc.1, hc.2, h⟩
      | some m =>
        rw [hrec] at h; simp at h
        obtain ⟨x, hx, h1, h2, h3⟩ := ih hrec
        split at h
        · exact ⟨r, List.mem_cons_self, hc.1, hc.2, h⟩
        · exact ⟨x, List.mem_cons_of_mem _ hx, h1, h2, by omega⟩
    · obtain ⟨x, hx, h1⟩ := ih h
      exact ⟨x, List.mem_cons_of_mem _ hx, h1⟩

/-! ### validity in ∀-form -/

theorem pairwise_forall {α} {R : α → α → Prop} (hs : ∀ a b, R a b → R b a) :
    ∀ {l : List α}, l.Pairwise R → ∀ a ∈ l, ∀ b ∈ l, a = b ∨ R a b := by
  intro l
  induction l with
  | nil => intro _ a ha; simp at ha
  | cons x l ih =>
    intro hp a ha b hb
    have hp' := List.pairwise_cons.1 hp
    rcases List.mem_cons.1 ha with ha1 | ha1
    · rcases List.mem_cons.1 hb with hb1 | hb1
      · exact Or.inl (ha1.trans hb1.symm)
      · exact Or.inr (ha1 ▸ hp'.1 b hb1)
    · rcases List.mem_cons.1 hb with hb1 | hb1
      · exact Or.inr (hs _ _ (hb1 ▸ hp'.1 a ha1))
      · exact ih hp'.2 a ha1 b hb1

theorem uniqueBy_forall {key : Row → Int} {rows : List Row} (h : UniqueBy key rows) :
    ∀ a ∈ rows, ∀ b ∈ rows, a.frame = b.frame → key a = key b → a = b := by
  intro a ha b hb hf hk
  rcases pairwise_forall (R := fun a b : Row => a.frame = b.frame → key a ≠ key b)
      (fun a b h hf hk => h hf.symm hk.symm) h a ha b hb with h | h
  · exact h
  · exact absurd hk (h hf)

/-- a label present at two frames is present at every frame in between -/
theorem contig_fill {key : Row → Int} {rows : List Row} (h : Contig key rows) :
    ∀ (n : Nat) (a : Row), a ∈ rows → ∀ b ∈ rows, key a = key b → a.frame + n ≤ b.frame →
      ∃ c ∈ rows, key c = key a ∧ c.frame = a.frame + n := by
  intro n
  induction n with
  | zero => intro a ha b _ _ _; exact ⟨a, ha, rfl, by simp⟩
  | succ n ih =>
    intro a ha b hb hk hf
    obtain ⟨c, hc, hck, hcf⟩ := ih a ha b hb hk (by omega)
    obtain ⟨d, hd, hdk, hdf⟩ := h c hc b hb (by rw [hck, hk]) (by omega)
    exact ⟨d, hd, by rw [hdk, hck], by omega⟩

theorem contig_at {key : Row → Int} {rows : List Row} (h : Contig key rows)
    {a b : Row} (ha : a ∈ rows) (hb : b ∈ rows) (hk : key a = key b) {f : Int}
    (h1 : a.frame ≤ f) (h2 : f ≤ b.frame) : ∃ c ∈ rows, key c = key a ∧ c.frame = f := by
  obtain ⟨c, hc, hck, hcf⟩ := contig_fill h (f - a.frame).toNat a ha b hb hk (by omega)
  exact ⟨c, hc, hck, by omega⟩

end TrackpyV.Partial
