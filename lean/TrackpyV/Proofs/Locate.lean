import TrackpyV.Model.LocateFull
import TrackpyV.Proofs.Find
import TrackpyV.Proofs.Refine
import TrackpyV.Proofs.LocatePost
/-!
Helper lemmas for C05 (`Props/C05.lean`):

* sums over the mask box are invariant under the point reflection `off ↦ 2r − off`
  (`box_sum_reflect`, `mask_sum_reflect`), the ellipse test is too (`inEllipse_reflect`);
  hence on a point-symmetric neighbourhood the first moment is `r_i · mass` (`momAt_symmetric`);
* `drop_close` / `dedupe` drop nothing when no pair is close (`dropClose_eq_self`,
  `dedupe_eq_self`);
* one lattice step towards a pixel stays inside the dilation box (`stepToward_inBox`).
-/
namespace TrackpyV.LocateFull
open TrackpyV List

/-! ## list sums -/

theorem sum_map_flatMap {α β} (l : List α) (g : α → List β) (f : β → Rat) :
    ((l.flatMap g).map f).sum = (l.map (fun a => ((g a).map f).sum)).sum := by
  induction l with
  | nil => simp
  | cons a l ih => simp [List.flatMap_cons, ih]

theorem sum_map_add' {α} (l : List α) (f g : α → Rat) :
    (l.map (fun a => f a + g a)).sum = (l.map f).sum + (l.map g).sum := by
  induction l with
  | nil => simp
  | cons a l ih => simp only [map_cons, sum_cons, ih]; ring

theorem sum_map_filter' {α} (l : List α) (p : α → Bool) (f : α → Rat) :
    ((l.filter p).map f).sum = (l.map (fun a => if p a then f a else 0)).sum := by
  induction l with
  | nil => simp
  | cons a l ih =>
    by_cases h : p a = true
    · simp [h, ih]
    · simp [h, ih]

theorem sum_map_congr' {α} (l : List α) (f g : α → Rat) (h : ∀ a ∈ l, f a = g a) :
    (l.map f).sum = (l.map g).sum := by
  rw [List.map_congr_left h]

/-- `Σ_{o=0}^{n} G (n − o) = Σ_{o=0}^{n} G o` -/
theorem range_sum_reflect (G : Nat → Rat) : ∀ n : Nat,
    ((List.range (n + 1)).map (fun o => G (n - o))).sum = ((List.range (n + 1)).map G).sum
  | 0 => by simp
  | n + 1 => by
    have ih := range_sum_reflect G n
    have e : ((fun o => G (n + 1 - o)) ∘ Nat.succ) = (fun o => G (n - o)) := by
      funext o; simp [Function.comp]
    have hL : ((List.range (n + 1 + 1)).map (fun o => G (n + 1 - o))).sum
        = G (n + 1) + ((List.range (n + 1)).map (fun o => G (n - o))).sum := by
      rw [List.range_succ_eq_map]
      simp only [map_cons, sum_cons, map_map, Nat.sub_zero]
      rw [e]
    have hR : ((List.range (n + 1 + 1)).map G).sum
        = ((List.range (n + 1)).map G).sum + G (n + 1) := by
      rw [List.range_succ]; simp
    rw [hL, hR, ih]; ring

/-! ## the point reflection of the mask box -/

open Refine in
/-- sums over the `(2r+1)` box are invariant under `off ↦ 2r − off` -/
theorem box_sum_reflect : ∀ (radius : List Nat) (f : List Nat → Rat),
    ((boxOffsets radius).map f).sum = ((boxOffsets radius).map (fun o => f (reflect radius o))).sum
  | [], f => by simp [boxOffsets, reflect]
  | r :: rs, f => by
    simp only [boxOffsets]
    rw [sum_map_flatMap, sum_map_flatMap]
    simp only [map_map]
    -- inner sums: apply the induction hypothesis with the head fixed
    have inner : ∀ o : Nat, o ∈ List.range (2 * r + 1) →
        ((boxOffsets rs).map ((fun off => f (reflect (r :: rs) off)) ∘ (fun t => o :: t))).sum
          = ((boxOffsets rs).map (f ∘ (fun t => (2 * r - o) :: t))).sum := by
      intro o _
      have := box_sum_reflect rs (fun t => f ((2 * r - o) :: t))
      rw [show (f ∘ fun t => (2 * r - o) :: t) = (fun t => f ((2 * r - o) :: t)) from rfl, this]
      rfl
    rw [sum_map_congr' _ _ _ inner]
    exact (range_sum_reflect (fun o => ((boxOffsets rs).map (f ∘ (fun t => o :: t))).sum) (2 * r)).symm

open Refine in
theorem ellipseSum_reflect : ∀ (radius off : List Nat), off ∈ boxOffsets radius →
    ellipseSum radius (reflect radius off) = ellipseSum radius off
  | [], off, h => by
    simp [boxOffsets] at h; subst h; rfl
  | r :: rs, off, h => by
    simp only [boxOffsets, mem_flatMap, mem_range, mem_map] at h
    obtain ⟨o, ho, t, ht, rfl⟩ := h
    simp only [reflect, ellipseSum, ellipseSum_reflect rs t ht]
    have e : ((rel r (2 * r - o) : Int) : Rat) = - ((rel r o : Int) : Rat) := by
      unfold rel
      have : ((2 * r - o : Nat) : Int) = 2 * (r : Int) - (o : Int) := by omega
      rw [this]; push_cast; ring
    rw [e]; ring

open Refine in
theorem inEllipse_reflect (radius off : List Nat) (h : off ∈ boxOffsets radius) :
    inEllipse radius (reflect radius off) = inEllipse radius off := by
  unfold inEllipse
  rw [ellipseSum_reflect radius off h]

open Refine in
/-- coordinates of the reflected offset -/
theorem reflect_getD : ∀ (radius off : List Nat), off ∈ boxOffsets radius → ∀ i, i < radius.length →
    (reflect radius off).getD i 0 = 2 * radius.getD i 0 - off.getD i 0 ∧ off.getD i 0 ≤ 2 * radius.getD i 0
  | [], _, _, i, hi => by simp at hi
  | r :: rs, off, h, i, hi => by
    simp only [boxOffsets, mem_flatMap, mem_range, mem_map] at h
    obtain ⟨o, ho, t, ht, rfl⟩ := h
    cases i with
    | zero => simp [reflect]; omega
    | succ j =>
      have := reflect_getD rs t ht j (by simpa using hi)
      simpa [reflect] using this

open Refine in
/-- sums over the elliptical mask are invariant under the point reflection -/
theorem mask_sum_reflect (radius : List Nat) (f : List Nat → Rat) :
    ((maskOffsets radius).map f).sum = ((maskOffsets radius).map (fun o => f (reflect radius o))).sum := by
  unfold maskOffsets
  rw [sum_map_filter', sum_map_filter', box_sum_reflect]
  apply sum_map_congr'
  intro off hoff
  simp only [inEllipse_reflect radius off hoff]

/-- the neighbourhood of `c` is point-symmetric on the mask -/
def SymmetricAt (img : Refine.Image) (radius : List Nat) (c : List Int) : Prop :=
  ∀ off ∈ Refine.maskOffsets radius,
    img (Refine.addOff (Refine.origin radius c) (reflect radius off))
      = img (Refine.addOff (Refine.origin radius c) off)

theorem symmetricB_iff (img : Refine.Image) (radius : List Nat) (c : List Int) :
    symmetricB img radius c = true ↔ SymmetricAt img radius c := by
  simp [symmetricB, SymmetricAt, List.all_eq_true]

open Refine in
/-- on a point-symmetric neighbourhood the first moment along every axis is `r_i · mass` -/
theorem momAt_symmetric (img : Image) (radius : List Nat) (c : List Int)
    (hs : SymmetricAt img radius c) (i : Nat) (hi : i < radius.length) :
    momAt img (maskOffsets radius) (origin radius c) i
      = ((radius.getD i 0 : Nat) : Rat) * massAt img (maskOffsets radius) (origin radius c) := by
  have h1 : momAt img (maskOffsets radius) (origin radius c) i
      = wsum img (maskOffsets radius) (origin radius c)
          (fun off => 2 * ((radius.getD i 0 : Nat) : Rat) + (-1) * ((off.getD i 0 : Nat) : Rat)) := by
    unfold momAt wsum
    rw [mask_sum_reflect]
    apply sum_map_congr'
    intro off hoff
    have hb := reflect_getD radius off (maskOffsets_subset hoff) i hi
    beta_reduce
    rw [hs off hoff, hb.1, Nat.cast_sub hb.2]
    push_cast; ring
  have h2 := wsum_add img (maskOffsets radius) (origin radius c)
    (fun _ => 2 * ((radius.getD i 0 : Nat) : Rat)) (fun off => (-1) * ((off.getD i 0 : Nat) : Rat))
  have h3 := wsum_const_mul img (maskOffsets radius) (origin radius c) (2 * ((radius.getD i 0 : Nat) : Rat))
    (fun _ => 1)
  have h4 := wsum_const_mul img (maskOffsets radius) (origin radius c) (-1)
    (fun off => ((off.getD i 0 : Nat) : Rat))
  simp only [mul_one] at h3
  rw [h2, h3, h4] at h1
  unfold momAt massAt at *
  linarith

/-! ## nothing is dropped when no pair is close -/

open Find in
theorem dropClose_eq_self (sep : List Rat) (fs : List Feat) (hs : ∀ s ∈ sep, s ≠ 0)
    (h : ∀ a b, [a, b].Sublist (indexFrom 0 fs) → close sep a.2 b.2 = false) :
    dropClose sep fs = fs := by
  have hw : whereClose sep fs = [] := by
    rw [List.eq_nil_iff_forall_not_mem]
    intro d hd
    obtain ⟨a, b, hsub, hc, _⟩ := (mem_whereClose sep fs hs d).mp hd
    rw [h a b hsub] at hc
    exact Bool.noConfusion hc
  unfold dropClose
  simp only [hw]
  have : (indexFrom 0 fs).filter (fun x => !([] : List Nat).contains x.1) = indexFrom 0 fs := by
    apply List.filter_eq_self.mpr
    intro x _; simp
  rw [this, indexFrom_map_snd]

open LocatePost in
theorem dedupe_eq_self (sep : List Rat) (l : List Feat)
    (h : ∀ x ∈ l, ∀ y ∈ l, x.tag < y.tag → close sep x y = false) :
    dedupe sep l = l := by
  unfold dedupe
  split
  · apply List.filter_eq_self.mpr
    intro x hx
    have : isDropped sep l x = false := by
      unfold isDropped
      rw [List.any_eq_false]
      intro y hy
      by_cases h1 : x.tag < y.tag
      · have := h x hx y hy h1
        have h2 : ¬ y.tag < x.tag := by omega
        simp [h1, h2, this]
      · by_cases h2 : y.tag < x.tag
        · have := h y hy x hx h2
          simp [h1, h2, this]
        · simp [h1, h2]
    simp [this]
  · rfl

/-! ## a lattice step towards `c` stays in the dilation box -/

open Find in
theorem stepToward_inBox : ∀ (shape ks : List Nat) (c q : Pos),
    InImage shape c → InImage shape q → ks.length = shape.length → (∀ k ∈ ks, 3 ≤ k) →
    InBox shape ks q (stepToward c q)
  | [], [], [], [], _, _, _, _ => trivial
  | n :: ns, k :: ks, ci :: c, qi :: q, hc, hq, hl, hk => by
    have h3 : 3 ≤ k := hk k (by simp)
    have hk2 : 1 ≤ k / 2 := by omega
    have hk1 : 1 ≤ (k - 1) / 2 := by omega
    have hci : ci < n := hc.1
    have hqi : qi < n := hq.1
    show InBox (n :: ns) (k :: ks) (qi :: q)
      ((if qi < ci then qi + 1 else if ci < qi then qi - 1 else qi) :: stepToward c q)
    refine ⟨?_, stepToward_inBox ns ks c q hc.2 hq.2 (by simpa using hl)
      (fun k' hk' => hk k' (by simp [hk']))⟩
    split
    · refine ⟨by omega, by omega, by omega⟩
    · split
      · refine ⟨by omega, by omega, by omega⟩
      · refine ⟨by omega, by omega, hqi⟩
  | [], _ :: _, _, _, _, _, hl, _ => by simp at hl
  | _ :: _, [], _, _, _, _, hl, _ => by simp at hl
  | [], [], _ :: _, _, hc, _, _, _ => hc.elim
  | [], [], [], _ :: _, _, hq, _, _ => hq.elim
  | _ :: _, _ :: _, [], _, hc, _, _, _ => hc.elim
  | _ :: _, _ :: _, _ :: _, [], _, hq, _, _ => hq.elim

open Find in
theorem stepToward_ne : ∀ (c q : Pos), c.length = q.length → q ≠ c → stepToward c q ≠ q
  | [], [], _, h => absurd rfl h
  | ci :: c, qi :: q, hl, h => by
    simp only [stepToward]
    intro e
    injection e with e1 e2
    by_cases hq : q = c
    · subst hq
      have : qi ≠ ci := fun e' => h (by rw [e'])
      split at e1
      · omega
      · split at e1
        · omega
        · omega
    · exact stepToward_ne c q (by simpa using hl) hq e2
  | [], _ :: _, hl, _ => by simp at hl
  | _ :: _, [], hl, _ => by simp at hl

end TrackpyV.LocateFull
