import TrackpyV.Props.C09
import TrackpyV.Proofs.LocateGlue
/-!
Glue for the `preprocess = True` branch of `locateModel` under a shift (2-D): the raw canvas as an
`IsEmbedQ` image, the filtered canvas as a function of the position relative to the content
(`bpZ`), blank beyond the halo (`bpZ_far`), the converted work image as an embedding of ONE
halo-extended content image (`extImg`, `isEmbed_ext`), and the equality of `convert_to_int`'s
scale for two canvases (`out_values`, `gmax_eq_of_mem`).
-/
set_option linter.unusedVariables false

namespace TrackpyV.Bandpass
open TrackpyV

/-- how far the filtered content extends beyond the content along one axis: the larger of the
kernel and box reaches -/
def halo (s : Rat) (k : Array Rat) (l : Int) : Nat :=
  max ((effKernel s k).size - (effKernel s k).size / 2) (effSize l - effSize l / 2)

/-- the value of `bandpass` at the position `(y, x)` relative to the content -/
def bpZ (h w : Nat) (content : Array Rat) (s0 s1 : Rat) (k0 k1 : Array Rat) (l0 l1 : Int)
    (thr : Option Rat) (y x : Int) : Rat :=
  clip (thrOf thr) (lowZ h w content s0 s1 k0 k1 y x - boxZ h w content l0 l1 y x)

theorem pxZ_out (h w : Nat) (content : Array Rat) (y x : Int)
    (hout : y < 0 ∨ (h : Int) ≤ y ∨ x < 0 ∨ (w : Int) ≤ x) : pxZ h w content y x = 0 := by
  rw [pxZ_eq, if_neg (by omega)]

theorem effSize_pos (l : Int) : 1 ≤ effSize l := by
  unfold effSize; split <;> omega

theorem halo_pos (s : Rat) (k : Array Rat) (l : Int) : 1 ≤ halo s k l := by
  have := effSize_pos l
  have : effSize l - effSize l / 2 ≤ halo s k l := le_max_right _ _
  omega

/-- **the filtered canvas is blank beyond the halo, along both axes** -/
theorem bpZ_far (h w : Nat) (content : Array Rat) (s0 s1 : Rat) (k0 k1 : Array Rat) (l0 l1 : Int)
    (thr : Option Rat) (y x : Int)
    (hfar : y ≤ -(halo s0 k0 l0 : Int) ∨ (h : Int) + halo s0 k0 l0 ≤ y ∨
            x ≤ -(halo s1 k1 l1 : Int) ∨ (w : Int) + halo s1 k1 l1 ≤ x) :
    bpZ h w content s0 s1 k0 k1 l0 l1 thr y x = 0 := by
  have a1 : (effKernel s0 k0).size - (effKernel s0 k0).size / 2 ≤ halo s0 k0 l0 := le_max_left _ _
  have a2 : effSize l0 - effSize l0 / 2 ≤ halo s0 k0 l0 := le_max_right _ _
  have b1 : (effKernel s1 k1).size - (effKernel s1 k1).size / 2 ≤ halo s1 k1 l1 := le_max_left _ _
  have b2 : effSize l1 - effSize l1 / 2 ≤ halo s1 k1 l1 := le_max_right _ _
  generalize halo s0 k0 l0 = A at *
  generalize halo s1 k1 l1 = B at *
  unfold bpZ
  have hl : lowZ h w content s0 s1 k0 k1 y x = 0 := by
    unfold lowZ
    rw [← sumTo_zero (effKernel s0 k0).size]
    apply sumTo_congr; intro a ha
    rw [← sumTo_zero (effKernel s1 k1).size]
    apply sumTo_congr; intro b hb
    rw [pxZ_out _ _ _ _ _ (by omega), mul_zero]
  have hbx : boxZ h w content l0 l1 y x = 0 := by
    unfold boxZ
    have : sumTo (effSize l0) (fun a => sumTo (effSize l1) (fun b =>
        pxZ h w content (y + (a : Int) - ((effSize l0 / 2 : Nat) : Int))
          (x + (b : Int) - ((effSize l1 / 2 : Nat) : Int)))) = 0 := by
      rw [← sumTo_zero (effSize l0)]
      apply sumTo_congr; intro a ha
      rw [← sumTo_zero (effSize l1)]
      apply sumTo_congr; intro b hb
      exact pxZ_out _ _ _ _ _ (by omega)
    rw [this, zero_div]
  rw [hl, hbx, sub_zero, clip_zero]

/-! ## the raw canvas as an `IsEmbedQ` image -/

theorem get_map_cast (a : Array Nat) (q : Nat) :
    get (a.map (fun (v : Nat) => (v : Rat))) q = ((a.getD q 0 : Nat) : Rat) := by
  unfold get
  by_cases h : q < a.size <;> simp [Array.getD_eq_getD_getElem?, h]

theorem pix2 (H W : Nat) (data : Array Nat) (r c : Nat) :
    (⟨[H, W], data⟩ : Find.Image).pix [r, c] = data.getD (r * W + c) 0 := by
  simp [Find.Image.pix, Find.flatIdx]

theorem isEmbedQ_of_isEmbed {content : Find.Image} {h w oy ox H W : Nat} {raw : Array Nat}
    (hsh : content.shape = [h, w]) (e : Find.IsEmbed content [oy, ox] ⟨[H, W], raw⟩)
    (hs : raw.size = H * W) :
    IsEmbedQ h w (content.data.map (fun (v : Nat) => (v : Rat))) oy ox H W
      (raw.map (fun (v : Nat) => (v : Rat))) := by
  have hf := e.fits
  rw [hsh] at hf
  simp only [Find.Fits] at hf
  refine ⟨by simpa using hs, hf.1, hf.2.1, ?_⟩
  intro r c hr hc
  unfold px
  rw [get_map_cast, pxZ_eq, ← pix2 H W raw r c]
  by_cases hreg : (0 ≤ (r : Int) - oy ∧ (r : Int) - oy < h) ∧ (0 ≤ (c : Int) - ox ∧ (c : Int) - ox < w)
  · rw [if_pos hreg]
    unfold px
    rw [get_map_cast]
    have := e.pix_in [r - oy, c - ox] (by rw [hsh]; exact ⟨by omega, by omega, trivial⟩)
    simp only [Locate.addPos, List.zipWith_cons_cons, List.zipWith_nil_left] at this
    rw [show r - oy + oy = r by omega, show c - ox + ox = c by omega] at this
    rw [this, show ((r : Int) - (oy : Int)).toNat = r - oy by omega,
      show ((c : Int) - (ox : Int)).toNat = c - ox by omega]
    have : content = ⟨[h, w], content.data⟩ := by rw [← hsh]
    rw [this, pix2]
  · rw [if_neg hreg]
    have := e.pix_out [r, c] ⟨hr, hc, trivial⟩ (by
      intro u hu e'
      rw [hsh] at hu
      obtain ⟨a, b, rfl, ha, hb⟩ := (Find.inImage2 _ _ _).mp hu
      simp only [Locate.addPos, List.zipWith_cons_cons, List.zipWith_nil_left, List.cons.injEq,
        and_true] at e'
      omega)
    rw [this]
    simp

/-! ## the work image as an embedding of one halo-extended content -/

/-- the `(h + 2·hy) × (w + 2·hx)` image whose pixel `(a, b)` is `f (a − hy) (b − hx)` -/
def extImg (h w hy hx : Nat) (f : Int → Int → Nat) : Find.Image :=
  ⟨[h + 2 * hy, w + 2 * hx],
    ((Find.allIdx [h + 2 * hy, w + 2 * hx]).map
      (fun u => f (((u.getD 0 0 : Nat) : Int) - (hy : Int)) (((u.getD 1 0 : Nat) : Int) - (hx : Int)))).toArray⟩

theorem isEmbed_ext {h w hy hx oy ox H W : Nat} {work : Array Nat} (f : Int → Int → Nat)
    (hsz : work.size = H * W) (py : hy ≤ oy ∧ oy + h + hy ≤ H) (pxx : hx ≤ ox ∧ ox + w + hx ≤ W)
    (hpix : ∀ r c, r < H → c < W →
      (⟨[H, W], work⟩ : Find.Image).pix [r, c] = f ((r : Int) - oy) ((c : Int) - ox))
    (hfar : ∀ y x : Int, (y < -(hy : Int) ∨ (h : Int) + hy ≤ y ∨ x < -(hx : Int) ∨ (w : Int) + hx ≤ x) →
      f y x = 0) :
    Find.IsEmbed (extImg h w hy hx f) [oy - hy, ox - hx] ⟨[H, W], work⟩ := by
  apply Find.isEmbed_of_pix
  · simp [extImg, Find.allIdx_length]
  · simpa using hsz
  · show Find.Fits [H, W] [oy - hy, ox - hx] [h + 2 * hy, w + 2 * hx]
    exact ⟨by omega, by omega, trivial⟩
  · intro u hu
    change Find.InImage [h + 2 * hy, w + 2 * hx] u at hu
    obtain ⟨a, b, rfl, ha, hb⟩ := (Find.inImage2 _ _ _).mp hu
    rw [show (extImg h w hy hx f).pix [a, b] = _ from Find.pix_mk _ _ hu]
    simp only [Locate.addPos, List.zipWith_cons_cons, List.zipWith_nil_left]
    rw [hpix _ _ (by omega) (by omega)]
    simp only [List.getD_cons_zero, List.getD_cons_succ]
    congr 1 <;> omega
  · intro p hp hne
    change Find.InImage [H, W] p at hp
    obtain ⟨r, c, rfl, hr, hc⟩ := (Find.inImage2 _ _ _).mp hp
    rw [hpix r c hr hc]
    apply hfar
    by_contra hcon
    apply hne [r - (oy - hy), c - (ox - hx)]
    · show Find.InImage [h + 2 * hy, w + 2 * hx] _
      exact ⟨by omega, by omega, trivial⟩
    · simp only [Locate.addPos, List.zipWith_cons_cons, List.zipWith_nil_left]
      rw [show r - (oy - hy) + (oy - hy) = r by omega, show c - (ox - hx) + (ox - hx) = c by omega]

/-! ## `convert_to_int`'s scale for two canvases -/

theorem mem_toList_iff_get (out : Array Rat) (v : Rat) :
    v ∈ out.toList ↔ ∃ k, k < out.size ∧ get out k = v := by
  rw [Array.mem_toList_iff, Array.mem_iff_getElem]
  constructor
  · rintro ⟨k, hk, rfl⟩
    exact ⟨k, hk, by simp [get, Array.getD_eq_getD_getElem?, hk]⟩
  · rintro ⟨k, hk, rfl⟩
    exact ⟨k, hk, by simp [get, Array.getD_eq_getD_getElem?, hk]⟩

/-- the set of values of a canvas that shows `F` around the content and is black beyond the halo
does not depend on canvas or offset -/
theorem out_values {h w hy hx oy ox H W : Nat} {out : Array Rat} (F : Int → Int → Rat)
    (hsz : out.size = H * W) (h1y : 1 ≤ hy) (h1x : 1 ≤ hx)
    (py : hy ≤ oy ∧ oy + h + hy ≤ H) (pxx : hx ≤ ox ∧ ox + w + hx ≤ W)
    (hout : ∀ r c, r < H → c < W → px W out r c = F ((r : Int) - oy) ((c : Int) - ox))
    (hfar : ∀ y x : Int, (y ≤ -(hy : Int) ∨ (h : Int) + hy ≤ y ∨ x ≤ -(hx : Int) ∨ (w : Int) + hx ≤ x) →
      F y x = 0) (v : Rat) :
    v ∈ out.toList ↔
      v = 0 ∨ ∃ y x : Int, (-(hy : Int) < y ∧ y < (h : Int) + hy) ∧ (-(hx : Int) < x ∧ x < (w : Int) + hx) ∧
        v = F y x := by
  rw [mem_toList_iff_get]
  constructor
  · rintro ⟨k, hk, rfl⟩
    have hW : 0 < W := by omega
    have hc : k % W < W := Nat.mod_lt _ hW
    have hr : k / W < H := by
      rw [Nat.div_lt_iff_lt_mul hW]; rw [hsz] at hk; exact hk
    have hk' : k = (k / W) * W + k % W := by
      rw [Nat.mul_comm]; exact (Nat.div_add_mod k W).symm
    have e := hout (k / W) (k % W) hr hc
    unfold px at e
    rw [← hk'] at e
    rw [e]
    by_cases hf : ((k / W : Nat) : Int) - oy ≤ -(hy : Int) ∨ (h : Int) + hy ≤ ((k / W : Nat) : Int) - oy ∨
        ((k % W : Nat) : Int) - ox ≤ -(hx : Int) ∨ (w : Int) + hx ≤ ((k % W : Nat) : Int) - ox
    · left; exact hfar _ _ hf
    · right; exact ⟨_, _, by omega, by omega, rfl⟩
  · rintro (rfl | ⟨y, x, hy', hx', rfl⟩)
    · refine ⟨0, by rw [hsz]; exact Nat.mul_pos (by omega) (by omega), ?_⟩
      have e := hout 0 0 (by omega) (by omega)
      unfold px at e
      simp only [Nat.zero_mul, Nat.add_zero] at e
      rw [e]
      exact hfar _ _ (by left; omega)
    · refine ⟨(y + oy).toNat * W + (x + ox).toNat, by rw [hsz]; exact idx_lt (by omega) (by omega), ?_⟩
      have e := hout (y + oy).toNat (x + ox).toNat (by omega) (by omega)
      unfold px at e
      rw [e]
      congr 1 <;> omega

theorem gmax_eq_of_mem {xs ys : List Rat} (h : ∀ v, v ∈ xs ↔ v ∈ ys) : Find.gmax xs = Find.gmax ys := by
  by_cases hx : xs = []
  · subst hx
    have : ys = [] := by
      cases ys with
      | nil => rfl
      | cons a t => exact absurd ((h a).mpr (by simp)) (by simp)
    subst this; rfl
  · have hy : ys ≠ [] := by
      intro e; subst e
      cases xs with
      | nil => exact hx rfl
      | cons a t => exact absurd ((h a).mp (by simp)) (by simp)
    obtain ⟨m1, b1⟩ := Find.gmax_spec xs hx
    obtain ⟨m2, b2⟩ := Find.gmax_spec ys hy
    exact le_antisymm (b2 _ ((h _).mp m1)) (b1 _ ((h _).mpr m2))

theorem convPixel_zero (mx : Rat) : Find.convPixel mx 0 = 0 := by
  simp [Find.convPixel]
  decide

/-- pixel `(r, c)` of the converted work image -/
theorem work_pix (H W : Nat) (out : Array Rat) (hsz : out.size = H * W) (r c : Nat) (hr : r < H)
    (hc : c < W) :
    (⟨[H, W], (Find.convertToInt out.toList).toArray⟩ : Find.Image).pix [r, c] =
      Find.convPixel (Find.gmax out.toList) (px W out r c) := by
  have hk : r * W + c < out.size := by rw [hsz]; exact idx_lt hr hc
  rw [pix2, Find.convertToInt_eq]
  unfold px get
  simp [Array.getD_eq_getD_getElem?, hk]

end TrackpyV.Bandpass
