import TrackpyV.Props.C10
/-!
Helper lemmas for C09 about `Model/Bandpass.lean` (2-D): a content image on a black canvas with at
least one black pixel on every side.  The zero extension (`lowpass`) and the edge replication
(`boxcar`) of the canvas then both coincide with the zero extension of the CONTENT, so every pixel
of the filtered canvas is a function of its position relative to the content.
-/
namespace TrackpyV.Bandpass

/-- `big` (`H × W`) shows `content` (`h × w`) with its corner at `(oy, ox)`, black elsewhere -/
structure IsEmbedQ (h w : Nat) (content : Array Rat) (oy ox H W : Nat) (big : Array Rat) : Prop where
  size : big.size = H * W
  fity : oy + h ≤ H
  fitx : ox + w ≤ W
  pix : ∀ r c, r < H → c < W →
    px W big r c = pxZ h w content ((r : Int) - (oy : Int)) ((c : Int) - (ox : Int))

theorem pxZ_eq (H W : Nat) (img : Array Rat) (y x : Int) :
    pxZ H W img y x =
      if (0 ≤ y ∧ y < H) ∧ (0 ≤ x ∧ x < W) then px W img y.toNat x.toNat else 0 := by
  simp only [pxZ, extZ]
  by_cases hy : 0 ≤ y ∧ y < H <;> by_cases hx : 0 ≤ x ∧ x < W <;> simp [hy, hx]

/-- zero extension of the canvas = zero extension of the content, everywhere -/
theorem pxZ_embed {h w oy ox H W : Nat} {content big : Array Rat}
    (e : IsEmbedQ h w content oy ox H W big) (y x : Int) :
    pxZ H W big y x = pxZ h w content (y - oy) (x - ox) := by
  have fy := e.fity
  have fx := e.fitx
  by_cases hin : (0 ≤ y ∧ y < H) ∧ (0 ≤ x ∧ x < W)
  · rw [pxZ_eq H W, if_pos hin, e.pix y.toNat x.toNat (by omega) (by omega)]
    rw [show ((y.toNat : Nat) : Int) = y by omega, show ((x.toNat : Nat) : Int) = x by omega]
  · rw [pxZ_eq H W, if_neg hin, pxZ_eq h w, if_neg (by omega)]

/-- clamping into a canvas whose border pixels are black: same as zero extension of the content -/
theorem extZ_clamp (n N o : Nat) (g : Nat → Rat) (h1 : 1 ≤ o) (h2 : o + n + 1 ≤ N) (z : Int) :
    extZ n g (((clampI N z : Nat) : Int) - (o : Int)) = extZ n g (z - (o : Int)) := by
  unfold extZ clampI
  by_cases hz : 0 ≤ z ∧ z < N
  · rw [show ((min (N - 1) z.toNat : Nat) : Int) = z by omega]
  · rw [if_neg (by omega), if_neg (by omega)]

/-- edge replication of the canvas = zero extension of the content (≥ 1 black pixel all round) -/
theorem pxC_embed {h w oy ox H W : Nat} {content big : Array Rat}
    (e : IsEmbedQ h w content oy ox H W big)
    (py : 1 ≤ oy ∧ oy + h + 1 ≤ H) (pxx : 1 ≤ ox ∧ ox + w + 1 ≤ W) (y x : Int) :
    pxC H W big y x = pxZ h w content (y - oy) (x - ox) := by
  unfold pxC
  rw [e.pix _ _ (by unfold clampI; omega) (by unfold clampI; omega)]
  unfold pxZ
  rw [extZ_clamp h H oy _ py.1 py.2 y]
  congr 1
  funext t
  exact extZ_clamp w W ox _ pxx.1 pxx.2 x

/-! ## the filters in content coordinates -/

/-- `lowpass` at the (integer, possibly negative) position `(y, x)` relative to the content -/
def lowZ (h w : Nat) (content : Array Rat) (s0 s1 : Rat) (k0 k1 : Array Rat) (y x : Int) : Rat :=
  sumTo (effKernel s0 k0).size (fun a => sumTo (effKernel s1 k1).size (fun b =>
    get (effKernel s0 k0) a * get (effKernel s1 k1) b *
      pxZ h w content (y + (a : Int) - (((effKernel s0 k0).size / 2 : Nat) : Int))
                      (x + (b : Int) - (((effKernel s1 k1).size / 2 : Nat) : Int))))

/-- `boxcar` at the position `(y, x)` relative to the content -/
def boxZ (h w : Nat) (content : Array Rat) (l0 l1 : Int) (y x : Int) : Rat :=
  sumTo (effSize l0) (fun a => sumTo (effSize l1) (fun b =>
    pxZ h w content (y + (a : Int) - ((effSize l0 / 2 : Nat) : Int))
                    (x + (b : Int) - ((effSize l1 / 2 : Nat) : Int))))
    / ((effSize l0 : Rat) * (effSize l1 : Rat))

theorem lowpass_embed {h w oy ox H W : Nat} {content big : Array Rat}
    (e : IsEmbedQ h w content oy ox H W big) (s0 s1 : Rat) (k0 k1 : Array Rat) {r c : Nat}
    (hr : r < H) (hc : c < W) :
    px W (lowpass [H, W] big [s0, s1] [k0, k1]) r c =
      lowZ h w content s0 s1 k0 k1 ((r : Int) - oy) ((c : Int) - ox) := by
  rw [lowpass_is_convolution_gen H W big e.size s0 s1 k0 k1 r c hr hc]
  unfold lowZ
  apply sumTo_congr; intro a _
  apply sumTo_congr; intro b _
  rw [pxZ_embed e]
  congr 2 <;> ring

theorem boxcar_embed {h w oy ox H W : Nat} {content big : Array Rat}
    (e : IsEmbedQ h w content oy ox H W big)
    (py : 1 ≤ oy ∧ oy + h + 1 ≤ H) (pxx : 1 ≤ ox ∧ ox + w + 1 ≤ W) (l0 l1 : Int) {r c : Nat}
    (hr : r < H) (hc : c < W) :
    px W (boxcarRaw [H, W] big [l0, l1]) r c =
      boxZ h w content l0 l1 ((r : Int) - oy) ((c : Int) - ox) := by
  rw [boxcar_is_box_mean_gen H W big e.size l0 l1 r c hr hc]
  unfold boxZ
  congr 1
  apply sumTo_congr; intro a _
  apply sumTo_congr; intro b _
  rw [pxC_embed e py pxx]
  congr 1 <;> ring

end TrackpyV.Bandpass
