import TrackpyV.Props.C15
import TrackpyV.Proofs.LsqJacobian
/-!
# C15, continued — `jacobian` IS the gradient of `residual ∘ vect_to_params` (one statement)

`Model/LsqJac.lean` writes the two closures of `FitFunctions.get_residual` as functions of the
optimisation vector (the driver's op `LSQ` runs these very definitions at `Float`):
`objective v = residual (rows of unpack v)` and
`jacobian v = pack_sum (result) / norm`, `result = params.copy(); result[indices] = gradRows`.

`jacobian_is_gradient`: for EVERY coordinate `j` of the vector, entry `j` of `jacobian v` is the
derivative (Mathlib's `HasDerivAt`, the notion of `residual_grad` / `residual_grad_bg` in
`Props/C15`) of `u ↦ objective (v with coordinate j replaced by u)` at `u = v[j]` - for every
geometry, both functions, every assignment of modes (const, var, global, cluster, custom `≥ 4`) to
the parameters and every grouping accepted by `modesOK` (groups non-empty, in range, pairwise
disjoint).  `jacobian_is_gradient_dir` is the same in the form `t ↦ objective (v + t·e_j)` at `t = 0`.

Hypotheses, all explicit:
* shapes: `len(modes) = 2 + nShape + n_fun_params` columns, `params_const` rectangular, the vector
  has the packed length;
* the clusters (`cl_groups`) partition the features `0..n-1` (`hpart`);
* `BgCompat`: the grouping of the BACKGROUND column is a union of clusters (the code reads a
  cluster's background from its first feature only).  `bgCompat_of_code` proves it for the
  background modes of the property (const / global / cluster with `cl_groups = groups[0]`, or
  `groups=None`); for mode 1 (var) it holds only with single-feature clusters and the code
  replaces that mode by 3;
* admissibility AT `v` only: for every active (feature, pixel) pair sizes `≠ 0`, and for `ring`
  thickness `≠ 0` and `r2 > 0` (`Lsq.Admissible`); the contributing pixel sets (`Frame.act`,
  `Frame.pixels`) are held fixed while the coordinate moves (piecewise smoothness of the code's
  objective stays a hypothesis, see `Props/C15`).

No multivariate calculus is involved: `vect_to_params` is affine with a 0/1 linear part
(`Pack.unpackCols_set`: coordinate `j` is copied to the entries `(r, i)`, `r ∈ S`, of ONE column `i`),
so along `e_j` every feature sees at most one of its parameters move, and the derivative is the sum
over `r ∈ S` of the per-feature partials - which is what `operation=np.sum` packing returns
(`Pack.packCols_sum_getD`).

Also here: `unpack_const_only`, the model-level counterpart of the repaired truncation defect
(`vect_to_params` used to inherit the dtype of `params`): the unpacked array depends on `params`
only through its constant columns.
-/
namespace TrackpyV.C15
open TrackpyV.Pack TrackpyV.Lsq

/-- **jacobian = ∇ (residual ∘ unpack)**.  `jacobian v` is defined, has the length of `v`, and for
every coordinate `j` the function `u ↦ residual (unpack (v[j := u]))` (total: `φ`) has derivative
`(jacobian v)[j]` at `u = v[j]`. -/
theorem jacobian_is_gradient (g : Geo) (fn : Fn) (nd norm : ℝ) (n : ℕ) (groups : Option Groups)
    (modes : List ℕ) (pconst : List (List ℝ)) (frames : List (Frame ℝ)) (v : List ℝ)
    (hw : modes.length = 2 + g.nShape + fn.nParams)
    (hl : pconst.length = modes.length) (hs : shapeOK n pconst = true)
    (hok : modesOK n groups modes = true) (hv : v.length = packedLen n groups modes)
    (hpart : ((frames.map (·.indices)).flatten).Perm (List.range n))
    (hbg : BgCompat (kind groups (modes.headD 0)) (frames.map (·.indices)))
    (hadm : ∀ U, unpack n groups modes v pconst = some U → ∀ fr ∈ frames,
      ∀ f ∈ featsOf g (transpose n U) fr.indices, ∀ q ∈ fr.pixels,
        fr.act f.id q.id = true → Admissible g fn f q) :
    ∃ J, jacobian g fn nd norm n groups modes pconst frames v = some J ∧ J.length = v.length ∧
      ∀ j, j < v.length → ∃ φ : ℝ → ℝ,
        (∀ u, objective g fn nd norm n groups modes pconst frames (v.set j u) = some (φ u)) ∧
        HasDerivAt φ (J.getD j 0) (v.getD j 0) :=
  jacobian_hasDerivAt g fn nd norm n groups modes pconst frames v hw hl hs hok hv hpart hbg hadm

/-- the same along the coordinate direction: `t ↦ residual (unpack (v + t·e_j))` has derivative
`(jacobian v)[j]` at `t = 0` -/
theorem jacobian_is_gradient_dir (g : Geo) (fn : Fn) (nd norm : ℝ) (n : ℕ)
    (groups : Option Groups) (modes : List ℕ) (pconst : List (List ℝ)) (frames : List (Frame ℝ))
    (v : List ℝ) (hw : modes.length = 2 + g.nShape + fn.nParams)
    (hl : pconst.length = modes.length) (hs : shapeOK n pconst = true)
    (hok : modesOK n groups modes = true) (hv : v.length = packedLen n groups modes)
    (hpart : ((frames.map (·.indices)).flatten).Perm (List.range n))
    (hbg : BgCompat (kind groups (modes.headD 0)) (frames.map (·.indices)))
    (hadm : ∀ U, unpack n groups modes v pconst = some U → ∀ fr ∈ frames,
      ∀ f ∈ featsOf g (transpose n U) fr.indices, ∀ q ∈ fr.pixels,
        fr.act f.id q.id = true → Admissible g fn f q) :
    ∃ J, jacobian g fn nd norm n groups modes pconst frames v = some J ∧ J.length = v.length ∧
      ∀ j, j < v.length → ∃ ψ : ℝ → ℝ,
        (∀ t, objective g fn nd norm n groups modes pconst frames
          (v.set j (v.getD j 0 + t)) = some (ψ t)) ∧
        HasDerivAt ψ (J.getD j 0) 0 := by
  obtain ⟨J, h1, h2, h3⟩ :=
    jacobian_hasDerivAt g fn nd norm n groups modes pconst frames v hw hl hs hok hv hpart hbg hadm
  refine ⟨J, h1, h2, fun j hj => ?_⟩
  obtain ⟨φ, hφ, hd⟩ := h3 j hj
  refine ⟨fun t => φ (v.getD j 0 + t), fun t => hφ _, ?_⟩
  have hshift : HasDerivAt (fun t : ℝ => v.getD j 0 + t) 1 0 := by
    simpa using (hasDerivAt_id (0 : ℝ)).const_add (v.getD j 0)
  have := HasDerivAt.comp (h₂ := φ) (h := fun t : ℝ => v.getD j 0 + t) (0 : ℝ)
    (by simpa using hd) hshift
  rw [mul_one] at this
  exact this

/-- `BgCompat` holds in the configurations the code produces: background mode const (0), global (2)
or cluster (3), the clusters being `cl_groups` (`Lsq.clGroups`: `groups[0]`, or `[arange(n)]` when
`groups is None`, L278-281). -/
theorem bgCompat_of_code (n : ℕ) (groups : Option Groups) (m : ℕ) (hm : m = 0 ∨ m = 2 ∨ m = 3)
    (hok : kindOK n (kind groups m) = true) :
    BgCompat (kind groups m) (clGroups n groups) := by
  rcases hm with rfl | rfl | rfl
  · simp [kind, BgCompat]
  · cases groups <;> simp [kind, BgCompat]
  · cases groups with
    | none => simp [kind, BgCompat]
    | some G =>
      cases G with
      | nil => simp [kind, kindOK] at hok
      | cons gs rest =>
        simp only [kind, show (3 : ℕ) ≠ 0 by decide, show (3 : ℕ) ≠ 1 by decide,
          show (3 : ℕ) ≠ 2 by decide, if_false, Nat.sub_self, List.getElem?_cons_zero,
          List.headD_cons, BgCompat, clGroups] at hok ⊢
        simp only [kindOK, groupListOK_iff] at hok
        intro s hs c hc
        by_cases hcs : c = s
        · left; subst hcs; exact fun r hr => hr
        · right
          rcases pairwise_mem_cases hok.disjoint hc hs with h | h | h
          · exact absurd h hcs
          · exact h
          · exact fun r hrc hrs => h r hrs hrc

/-- **why `BgCompat` is a hypothesis** (witness, outside the property's quantifier: a CUSTOM
background mode).  Background mode 4 with groups `[[0], [1]]` cutting the cluster `{0, 1}`: the
residual reads the background of feature 0 only, so it does not depend on coordinate 1 of the vector
(derivative 0), while `jacobian` returns the equal shares `(-1, -1)`.  (No feature is active here, the
objective is `(1 - b₀)²`.)  Replayed on the real code (`design-notes/C15_bg_custom_witness.py`:
gauss 2-D, two features in one cluster, `param_mode background = 4`, `groups = [[[0, 1]], [[0], [1]]]`):
`jacobian = [-0.1276, -0.1276]`, central differences of `residual` = `[-0.2553, 0.0]`. -/
theorem jacobian_bg_custom_witness :
    let frames : List (Frame ℝ) :=
      [{ indices := [0, 1], act := fun _ _ => false, L := 1, pixels := [⟨0, [0, 0], 1⟩] }]
    jacobian .iso2 .gauss 2 1 2 (some [[[0, 1]], [[0], [1]]]) [4, 0, 0, 0, 0]
        [[0, 0], [1, 1], [0, 0], [0, 0], [1, 1]] frames [0, 0] = some [-1, -1] ∧
    (∀ u : ℝ, objective .iso2 .gauss 2 1 2 (some [[[0, 1]], [[0], [1]]]) [4, 0, 0, 0, 0]
        [[0, 0], [1, 1], [0, 0], [0, 0], [1, 1]] frames [0, u] = some 1) ∧
    ¬ BgCompat (kind (some [[[0, 1]], [[0], [1]]]) 4) [[0, 1]] := by
  intro frames
  refine ⟨?_, ?_, ?_⟩
  · simp [frames, jacobian, unpack, unpackCols, unpackCol, kind, setGroups, setAll, transpose,
      List.range, List.range.loop, scatter, clusterOf, featsOf, mkFeat, gradRows, gradBg, gradRow,
      diffAt, bgOf, lsum_real, pack, packCols, packCol, sumOp, gather, Geo.nShape, List.zipIdx]
  · intro u
    simp [frames, objective, unpack, unpackCols, unpackCol, kind, setGroups, setAll, transpose,
      List.range, List.range.loop, clusterOf, featsOf, mkFeat, Lsq.residual, clusterRes,
      diffAt, bgOf, lsum_real, Lsq.sq, Geo.nShape, List.zipIdx]
  · simp [kind, BgCompat]

/-- **unpack looks at `params` only through its constant columns** (model-level counterpart of the
repaired truncation defect: the start values of the parameters being optimised - and their dtype -
cannot influence `vect_to_params`).  For every vector, every assignment of modes and every grouping
accepted by `modesOK`, two parameter arrays of the same shape that agree on the columns of mode 0
unpack to the same array - provided the groups of every grouped column cover all features (true for
the clusters `groups[0]`; a custom mode whose groups leave a feature out keeps the old entry there,
see the example below). -/
theorem unpack_const_only {α : Type} [Inhabited α] (n : ℕ) (groups : Option Groups)
    (modes : List ℕ) (v : List α) (cols cols' : List (List α))
    (hl : cols.length = modes.length) (hl' : cols'.length = modes.length)
    (hs : shapeOK n cols = true) (hs' : shapeOK n cols' = true)
    (hok : modesOK n groups modes = true) (hv : v.length = packedLen n groups modes)
    (hcov : ∀ m ∈ modes, ∀ gs, kind groups m = .grouped gs → ∀ r, r < n → ∃ g ∈ gs, r ∈ g)
    (hagree : ∀ i, i < modes.length → kind groups (modes.getD i 0) = .const →
      cols.getD i [] = cols'.getD i []) :
    unpack n groups modes v cols = unpack n groups modes v cols' := by
  unfold unpack
  split
  · rfl
  · exact unpackCols_const_only n groups modes v cols cols' hl hl' hs hs' hok (by omega) hcov hagree

/-! ## non-vacuity: 2 features in one cluster, 2-D isotropic gauss -/

-- columns (background, signal, cy, cx, size); signal varies per feature (mode 1), the size is
-- shared by the cluster (mode 3), the rest is constant: the vector is (signal₀, signal₁, size)
example : packedLen 2 (some [[[0, 1]]]) [0, 1, 0, 0, 3] = 3 := by decide
-- coordinate 2 (the size) feeds column 4 of BOTH rows: that entry of `jacobian` is the sum of two
-- per-feature partial derivatives
example : feed 2 (some [[[0, 1]]]) [0, 1, 0, 0, 3] 2 = (4, [0, 1]) := by decide
-- coordinate 1 (signal of feature 1) feeds column 1 of row 1 only
example : feed 2 (some [[[0, 1]]]) [0, 1, 0, 0, 3] 1 = (1, [1]) := by decide
example : (unpack 2 (some [[[0, 1]]]) [0, 1, 0, 0, 3] [5, 6, 7]
    [[0, 0], [1, 1], [0, 2], [0, 0], [1, 1]] : Option (List (List Int))) =
    some [[0, 0], [5, 6], [0, 2], [0, 0], [7, 7]] := by decide

-- unpack_const_only: the start values of the varying columns are irrelevant …
example : (unpack 2 (some [[[0, 1]]]) [0, 1, 3] [5, 6, 7] [[0, 0], [1, 1], [2, 2]] :
    Option (List (List Int))) =
    unpack 2 (some [[[0, 1]]]) [0, 1, 3] [5, 6, 7] [[0, 0], [8, 9], [4, 3]] := by
  decide
-- … but the covering hypothesis is needed: custom mode 4 with groups `[[0]]` leaves feature 1 alone
example :
    (unpack 2 (some [[[0, 1]], [[0]]]) [4] [5] [[1, 2]] : Option (List (List Int))) =
      some [[5, 2]] ∧
    (unpack 2 (some [[[0, 1]], [[0]]]) [4] [5] [[1, 3]] : Option (List (List Int))) =
      some [[5, 3]] := by
  decide

/-- all hypotheses of `jacobian_is_gradient` hold on a concrete layout (two overlapping features,
two pixels), so its conclusion does -/
example :
    let frames : List (Frame ℝ) :=
      [{ indices := [0, 1], act := fun _ _ => true, L := 2,
         pixels := [⟨0, [0, 1], 1⟩, ⟨1, [2, 1], 2⟩] }]
    ∃ J, jacobian .iso2 .gauss 2 1 2 (some [[[0, 1]]]) [0, 1, 0, 0, 3]
        [[0, 0], [1, 1], [0, 2], [0, 0], [1, 1]] frames [5, 6, 7] = some J ∧ J.length = 3 ∧
      ∀ j, j < 3 → ∃ φ : ℝ → ℝ,
        (∀ u, objective .iso2 .gauss 2 1 2 (some [[[0, 1]]]) [0, 1, 0, 0, 3]
          [[0, 0], [1, 1], [0, 2], [0, 0], [1, 1]] frames (([5, 6, 7] : List ℝ).set j u) =
            some (φ u)) ∧
        HasDerivAt φ (J.getD j 0) (([5, 6, 7] : List ℝ).getD j 0) := by
  intro frames
  refine jacobian_is_gradient .iso2 .gauss 2 1 2 (some [[[0, 1]]]) [0, 1, 0, 0, 3]
    [[0, 0], [1, 1], [0, 2], [0, 0], [1, 1]] frames [5, 6, 7] rfl rfl (by simp [shapeOK])
    (by decide) (by decide) (by simp [frames]; decide) (by simp [kind, BgCompat]) ?_
  intro U hU fr hfr f hf q hq _
  have hU' : U = [[0, 0], [5, 6], [0, 2], [0, 0], [7, 7]] := by
    simp [unpack, unpackCols, unpackCol, kind, setGroups, setAll] at hU
    exact hU.symm
  subst hU'
  simp only [frames, List.mem_singleton] at hfr
  subst hfr
  simp [featsOf, transpose, mkFeat, List.zipIdx, Geo.nShape] at hf
  refine ⟨⟨?_, ?_, ?_⟩, ?_, by simp⟩
  · simp at hq; rcases hq with rfl | rfl <;> rfl
  · rcases hf with rfl | rfl <;> simp [Geo.nShape]
  · intro i h1 h2
    simp only [Geo.ndim, Geo.nShape] at h1 h2
    interval_cases i
    rcases hf with rfl | rfl <;> simp
  · rcases hf with rfl | rfl <;> simp [Fn.nParams]

end TrackpyV.C15
