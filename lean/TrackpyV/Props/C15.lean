import TrackpyV.Proofs.Pack
