import TrackpyV.Proofs.PackAdjoint
import TrackpyV.Proofs.LsqGrad
/-!
# C15 — the least-squares objective's gradient and parameter packing are exact

Part (a), packing (`Model/Pack.lean`, mirror of `vect_from_params` / `vect_to_params`):
`packedLen_eq`, `unpack_pack`, `pack_unpack`, `packSum_adjoint`.
Part (b), gradient (`Model/Lsq.lean` at `α := ℝ`, the same text the driver runs at `Float`):
`r2_*_hasDerivAt`, `gauss_hasDerivAt`, `ring_hasDerivAt_r2/_t`, `model_chain`, `residual_grad`,
`residual_grad_bg`.

Hypotheses the word "admissible" of the statement hides, made explicit here: sizes ≠ 0, thickness
≠ 0 and `r2 > 0` for `ring` (the code NaN-masks pixels within 1 px of a centre), and the sets of
contributing pixels (`act`, the pixel list) are held fixed: the objective of the code is only
piecewise smooth because the masks of the `_safe` variants and `safe_exp`'s underflow cut depend on
the parameters.  `disc` / `inv_series` have `has_jacobian = False` and are out of scope.

The single statement "for every vector `v` and component `m`,
`HasDerivAt (fun u => residual (unpack (v.set m u))) ((pack sumOp gradRows / norm)[m]) v[m]`" - the
chain rule joining `residual_grad` / `residual_grad_bg` with `packSum_adjoint`, including the
row/column transposition - is proved in `Props/C15Chain.lean` (`jacobian_is_gradient`).
-/
namespace TrackpyV.C15
open TrackpyV.Pack TrackpyV.Lsq

/-! ## (a) packing -/
section Packing
variable {α : Type} [Inhabited α]

/-- the vector has the documented length (for every operation) -/
theorem packedLen_eq (op : List α → α) (n : Nat) (groups : Option Groups) (modes : List Nat)
    (cols : List (List α)) (v : List α) (hs : shapeOK n cols = true)
    (h : pack op groups modes cols = some v) : v.length = packedLen n groups modes := by
  unfold pack at h
  split at h
  · cases h
  · exact length_packCols op n groups modes cols v hs h

/-- `unpack(pack(p)) = p` for parameters consistent with their modes, for every mode vector and
grouping and for every operation that returns the common value of a constant list
(`operation=None`, `np.mean`, `np.min`, `np.max`).  No condition on the groups is needed: entries
not covered by a group keep the value of `params`. -/
theorem unpack_pack (op : List α → α) (hop : OpConst op) (n : Nat) (groups : Option Groups)
    (modes : List Nat) (cols : List (List α)) (v : List α) (hs : shapeOK n cols = true)
    (hc : Consistent groups modes cols) (h : pack op groups modes cols = some v) :
    unpack n groups modes v cols = some cols := by
  unfold pack at h
  unfold unpack
  split at h
  · cases h
  · rename_i hm
    rw [if_neg hm]
    simpa using unpackCols_packCols op hop n groups modes cols v [] hs hc h

/-- `pack(unpack(v)) = v` for EVERY vector of the right length, every mode vector and every
grouping whose groups are non-empty, in range and pairwise disjoint (`modesOK`, checked by the
driver on every case); `n ≥ 1` features. -/
theorem pack_unpack (n : Nat) (hn : 1 ≤ n) (groups : Option Groups) (modes : List Nat)
    (hm : modes ≠ []) (cols : List (List α)) (v : List α) (hl : cols.length = modes.length)
    (hs : shapeOK n cols = true) (hok : modesOK n groups modes = true)
    (hv : v.length = packedLen n groups modes) :
    ∃ cols', unpack n groups modes v cols = some cols' ∧ shapeOK n cols' = true ∧
      pack first groups modes cols' = some v := by
  obtain ⟨cols', h1, h2, h3⟩ := packCols_unpackCols n hn groups modes v cols hl hs hok (by omega)
  refine ⟨cols', ?_, h2, ?_⟩
  · simp [unpack, hm, h1]
  · rw [← hv, List.take_length] at h3
    simp [pack, hm, h3]

/-- `vect_to_params` never fails on well-formed input and its result is an array of the same shape -/
theorem unpack_total (n : Nat) (hn : 1 ≤ n) (groups : Option Groups) (modes : List Nat)
    (hm : modes ≠ []) (cols : List (List α)) (v : List α) (hl : cols.length = modes.length)
    (hs : shapeOK n cols = true) (hok : modesOK n groups modes = true)
    (hv : v.length = packedLen n groups modes) :
    ∃ cols', unpack n groups modes v cols = some cols' ∧ shapeOK n cols' = true := by
  obtain ⟨c, h1, h2, _⟩ := pack_unpack n hn groups modes hm cols v hl hs hok hv
  exact ⟨c, h1, h2⟩

end Packing

/-- **packSum_adjoint**: packing the per-feature gradient array `G` with `operation=np.sum`
(what `jacobian` returns) is the transpose of the linear part of `vect_to_params`:
`⟨pack_sum G, v⟩ = ⟨G, unpack v 0⟩` for every array `G` and vector `v` - the chain rule for
parameters shared between features (global / per cluster / custom groups). -/
theorem packSum_adjoint {R : Type} [CommRing R] [Inhabited R] (n : Nat) (groups : Option Groups)
    (modes : List Nat) (hm : modes ≠ []) (G : List (List R)) (v : List R)
    (hl : G.length = modes.length) (hs : shapeOK n G = true)
    (hok : modesOK n groups modes = true) (hv : v.length = packedLen n groups modes) :
    ∃ pv U, pack (sumOp 0) groups modes G = some pv ∧
      unpack n groups modes v (G.map (fun _ => List.replicate n 0)) = some U ∧
      dot pv v = dot2 G U := by
  obtain ⟨pv, U, h1, h2, _, h4⟩ := dot_packCols n groups modes G v hl hs hok (by omega)
  refine ⟨pv, U, by simp [pack, hm, h1], by rw [unpack, if_neg hm]; exact h2, ?_⟩
  rw [← hv, List.take_length] at h4
  exact h4

/-! ## (b) gradient -/

/-- `dr2_isotropic_2d` = partial derivatives of `r2_isotropic_2d` in `cy, cx, size` -/
theorem r2_iso2d_hasDerivAt (y x cy cx s : ℝ) (hs : s ≠ 0) :
    HasDerivAt (fun u => r2 .iso2 [y, x] [u, cx, s]) ((dr2 .iso2 [y, x] [cy, cx, s]).getD 0 0) cy ∧
    HasDerivAt (fun u => r2 .iso2 [y, x] [cy, u, s]) ((dr2 .iso2 [y, x] [cy, cx, s]).getD 1 0) cx ∧
    HasDerivAt (fun u => r2 .iso2 [y, x] [cy, cx, u]) ((dr2 .iso2 [y, x] [cy, cx, s]).getD 2 0) s := by
  have ok : GeoOK .iso2 [y, x] [cy, cx, s] := ⟨rfl, rfl, by
    intro i h1 h2; simp only [Geo.ndim, Geo.nShape] at h1 h2; interval_cases i; simpa using hs⟩
  exact ⟨by simpa using r2_hasDerivAt .iso2 _ _ ok 0 (by simp [Geo.nShape]),
    by simpa using r2_hasDerivAt .iso2 _ _ ok 1 (by simp [Geo.nShape]),
    by simpa using r2_hasDerivAt .iso2 _ _ ok 2 (by simp [Geo.nShape])⟩

/-- `dr2_anisotropic_2d` = partial derivatives of `r2_anisotropic_2d` in `cy, cx, size_y, size_x` -/
theorem r2_aniso2d_hasDerivAt (y x cy cx sy sx : ℝ) (hy : sy ≠ 0) (hx : sx ≠ 0) :
    HasDerivAt (fun u => r2 .aniso2 [y, x] [u, cx, sy, sx])
      ((dr2 .aniso2 [y, x] [cy, cx, sy, sx]).getD 0 0) cy ∧
    HasDerivAt (fun u => r2 .aniso2 [y, x] [cy, u, sy, sx])
      ((dr2 .aniso2 [y, x] [cy, cx, sy, sx]).getD 1 0) cx ∧
    HasDerivAt (fun u => r2 .aniso2 [y, x] [cy, cx, u, sx])
      ((dr2 .aniso2 [y, x] [cy, cx, sy, sx]).getD 2 0) sy ∧
    HasDerivAt (fun u => r2 .aniso2 [y, x] [cy, cx, sy, u])
      ((dr2 .aniso2 [y, x] [cy, cx, sy, sx]).getD 3 0) sx := by
  have ok : GeoOK .aniso2 [y, x] [cy, cx, sy, sx] := ⟨rfl, rfl, by
    intro i h1 h2; simp only [Geo.ndim, Geo.nShape] at h1 h2
    interval_cases i <;> simpa⟩
  exact ⟨by simpa using r2_hasDerivAt .aniso2 _ _ ok 0 (by simp [Geo.nShape]),
    by simpa using r2_hasDerivAt .aniso2 _ _ ok 1 (by simp [Geo.nShape]),
    by simpa using r2_hasDerivAt .aniso2 _ _ ok 2 (by simp [Geo.nShape]),
    by simpa using r2_hasDerivAt .aniso2 _ _ ok 3 (by simp [Geo.nShape])⟩

/-- `dr2_isotropic_3d` = partial derivatives of `r2_isotropic_3d` in `cz, cy, cx, size` -/
theorem r2_iso3d_hasDerivAt (z y x cz cy cx s : ℝ) (hs : s ≠ 0) :
    HasDerivAt (fun u => r2 .iso3 [z, y, x] [u, cy, cx, s])
      ((dr2 .iso3 [z, y, x] [cz, cy, cx, s]).getD 0 0) cz ∧
    HasDerivAt (fun u => r2 .iso3 [z, y, x] [cz, u, cx, s])
      ((dr2 .iso3 [z, y, x] [cz, cy, cx, s]).getD 1 0) cy ∧
    HasDerivAt (fun u => r2 .iso3 [z, y, x] [cz, cy, u, s])
      ((dr2 .iso3 [z, y, x] [cz, cy, cx, s]).getD 2 0) cx ∧
    HasDerivAt (fun u => r2 .iso3 [z, y, x] [cz, cy, cx, u])
      ((dr2 .iso3 [z, y, x] [cz, cy, cx, s]).getD 3 0) s := by
  have ok : GeoOK .iso3 [z, y, x] [cz, cy, cx, s] := ⟨rfl, rfl, by
    intro i h1 h2; simp only [Geo.ndim, Geo.nShape] at h1 h2; interval_cases i; simpa using hs⟩
  exact ⟨by simpa using r2_hasDerivAt .iso3 _ _ ok 0 (by simp [Geo.nShape]),
    by simpa using r2_hasDerivAt .iso3 _ _ ok 1 (by simp [Geo.nShape]),
    by simpa using r2_hasDerivAt .iso3 _ _ ok 2 (by simp [Geo.nShape]),
    by simpa using r2_hasDerivAt .iso3 _ _ ok 3 (by simp [Geo.nShape])⟩

/-- `dr2_anisotropic_3d` = partial derivatives of `r2_anisotropic_3d` in the three centre
coordinates and the three sizes -/
theorem r2_aniso3d_hasDerivAt (z y x cz cy cx sz sy sx : ℝ) (hz : sz ≠ 0) (hy : sy ≠ 0)
    (hx : sx ≠ 0) (k : ℕ) (hk : k < 6) :
    HasDerivAt (fun u => r2 .aniso3 [z, y, x] ([cz, cy, cx, sz, sy, sx].set k u))
      ((dr2 .aniso3 [z, y, x] [cz, cy, cx, sz, sy, sx]).getD k 0)
      ([cz, cy, cx, sz, sy, sx].getD k 0) := by
  have ok : GeoOK .aniso3 [z, y, x] [cz, cy, cx, sz, sy, sx] := ⟨rfl, rfl, by
    intro i h1 h2; simp only [Geo.ndim, Geo.nShape] at h1 h2
    interval_cases i <;> simpa⟩
  exact r2_hasDerivAt .aniso3 _ _ ok k (by simpa [Geo.nShape] using hk)

/-- `gauss_dfun` returns the derivative of `gauss_fun` in `r2` -/
theorem gauss_hasDerivAt (nd r0 : ℝ) (fp : List ℝ) :
    HasDerivAt (fun r => fnVal .gauss nd r fp) ((fnDeriv .gauss nd r0 fp).headD 0) r0 :=
  Lsq.gauss_hasDerivAt nd r0 fp

/-- `ring_dfun[0]` is the derivative of `ring_fun` in `r2`, for `r2 > 0` and thickness ≠ 0 -/
theorem ring_hasDerivAt_r2 (nd t r0 : ℝ) (hr : 0 < r0) (ht : t ≠ 0) :
    HasDerivAt (fun r => fnVal .ring nd r [t]) ((fnDeriv .ring nd r0 [t]).headD 0) r0 :=
  Lsq.ring_hasDerivAt_r2 nd t r0 hr ht

/-- `ring_dfun[1]` is the derivative of `ring_fun` in the thickness, for thickness ≠ 0 -/
theorem ring_hasDerivAt_t (nd t0 r : ℝ) (ht : t0 ≠ 0) :
    HasDerivAt (fun t => fnVal .ring nd r [t]) ((fnDeriv .ring nd r [t0]).getD 1 0) t0 :=
  Lsq.ring_hasDerivAt_t nd t0 r ht

/-- **model_chain**: every entry of `derivs[j, :, q]` (signal, centres, sizes, function
parameters) is the derivative of `signal * model_fun(r2_fun(mesh[:, q], p), …)` in that parameter,
for every geometry and both functions -/
theorem model_chain (g : Geo) (fn : Fn) (nd : ℝ) (f : Feat ℝ) (q : Pix ℝ)
    (h : Admissible g fn f q) (k : ℕ) (hk : k < 1 + g.nShape + fn.nParams) :
    HasDerivAt (fun u => term g fn nd (f.setP k u) q) ((dterm g fn nd f q).getD k 0) (f.getP k) :=
  term_hasDerivAt g fn nd f q h k hk

/-- **residual_grad**: entry `1 + k` of the row that `jacobian` writes for feature `f` (position
`pre.length` in its cluster `c`) divided by `norm` is the partial derivative of `residual` in
parameter `k` of that feature - for every geometry, both functions, any number of clusters,
features and pixels, arbitrary overlap of the masks. -/
theorem residual_grad (g : Geo) (fn : Fn) (nd norm : ℝ) (cpre cpost : List (Cluster ℝ))
    (c : Cluster ℝ) (pre post : List (Feat ℝ)) (f : Feat ℝ) (hc : c.feats = pre ++ f :: post)
    (k : ℕ) (hθ : f.θ.length = g.nShape) (hfp : f.fp.length = fn.nParams)
    (hk : k < 1 + g.nShape + fn.nParams)
    (hadm : ∀ q ∈ c.pixels, c.act f.id q.id = true → Admissible g fn f q) :
    HasDerivAt
      (fun u => residual g fn nd norm
        (cpre ++ { c with feats := pre ++ f.setP k u :: post } :: cpost))
      (((gradRows g fn nd c).getD pre.length []).getD (k + 1) 0 / norm) (f.getP k) := by
  rw [gradRows_getD g fn nd c pre post f hc, List.getD_cons_succ, hc]
  simp only [Lsq.residual, lsum_real, List.map_append, List.sum_append, List.map_cons, List.sum_cons]
  have h := clusterRes_hasDerivAt g fn nd c.act c.L pre post f c.pixels k hθ hfp hk hadm
  exact ((h.add_const _).const_add _).div_const norm

/-- **residual_grad (background)**: the sum over the rows of cluster `c` of column 0 of the
gradient array (what `operation=np.sum` packing produces for a background shared by the cluster,
`n_cluster` equal shares of `Σ -2·diff / len(image)`) divided by `norm` is the derivative of
`residual` in that shared background. -/
theorem residual_grad_bg (g : Geo) (fn : Fn) (nd norm : ℝ) (cpre cpost : List (Cluster ℝ))
    (c : Cluster ℝ) (hne : c.feats ≠ []) (b0 : ℝ) :
    HasDerivAt
      (fun b => residual g fn nd norm (cpre ++ { c with feats := setBg c.feats b } :: cpost))
      (((gradRows g fn nd { c with feats := setBg c.feats b0 }).map (fun row => row.headD 0)).sum
        / norm) b0 := by
  rw [gradRows_bg_sum]
  simp only [Lsq.residual, lsum_real, List.map_append, List.sum_append, List.map_cons, List.sum_cons]
  have h := clusterRes_hasDerivAt_bg g fn nd c.act c.L c.feats hne c.pixels b0
  have hlen : (setBg c.feats b0).length = c.feats.length := by simp [setBg]
  rw [hlen]
  exact ((h.add_const _).const_add _).div_const norm

/-! ## non-vacuity -/

-- packing: 3 features, modes (cluster, var, const, global), clusters {0,2},{1}
example : pack (first : List Int → Int) (some [[[0, 2], [1]]]) [3, 1, 0, 2]
    [[7, 8, 7], [1, 2, 3], [4, 5, 6], [9, 9, 9]] = some [7, 8, 1, 2, 3, 9] := by decide
example : unpack 3 (some [[[0, 2], [1]]]) [3, 1, 0, 2] ([7, 8, 1, 2, 3, 9] : List Int)
    [[7, 8, 7], [1, 2, 3], [4, 5, 6], [9, 9, 9]] =
    some [[7, 8, 7], [1, 2, 3], [4, 5, 6], [9, 9, 9]] := by decide
example : modesOK 3 (some [[[0, 2], [1]]]) [3, 1, 0, 2] = true := by decide
example : Consistent (some [[[0, 2], [1]]]) [3, 1, 0, 2]
    ([[7, 8, 7], [1, 2, 3], [4, 5, 6], [9, 9, 9]] : List (List Int)) := by
  simp [Consistent, ConsistentCol, kind, gather, first]
-- packSum: the two members of cluster {0,2} are added
example : pack (sumOp (0 : Int)) (some [[[0, 2], [1]]]) [3, 1] [[10, 20, 30], [1, 2, 3]] =
    some [40, 20, 1, 2, 3] := by decide
example : packedLen 3 (some [[[0, 2], [1]]]) [3, 1, 0, 2] = 6 := by decide

-- gradient: an admissible ring feature at an off-centre pixel (2-D isotropic)
example : Admissible .iso2 .ring ⟨0, 1, 2, [0, 0, 1], [1 / 5]⟩ ⟨0, [1, 1], 3⟩ := by
  refine ⟨⟨rfl, rfl, ?_⟩, rfl, ?_⟩
  · intro i h1 h2; simp only [Geo.ndim, Geo.nShape] at h1 h2; interval_cases i; simp
  · intro _; simp [r2, Lsq.sq]
-- gradient: an admissible anisotropic 3-D gauss feature
example : Admissible .aniso3 .gauss ⟨0, 1, 2, [0, 0, 0, 1, 2, 3], []⟩ ⟨0, [1, 1, 1], 3⟩ := by
  refine ⟨⟨rfl, rfl, ?_⟩, rfl, by simp⟩
  intro i h1 h2; simp only [Geo.ndim, Geo.nShape] at h1 h2; interval_cases i <;> simp

end TrackpyV.C15
