import TrackpyV.Proofs.ShiftRefine
-- import TrackpyV.Proofs.ShiftFind
import TrackpyV.Proofs.TransposeRefine
-- import TrackpyV.Proofs.ShiftBandpass
/-!
# C09 — feature finding does not depend on where or how the image is processed

Stage by stage on the models of C06 (`Model/Find.lean`), C07 (`Model/Refine.lean`) and C10
(`Model/Bandpass.lean`), which `Model/Locate.lean` composes into `locateModel` / `batchModel`.

**Shift** ("moving the image content by whole pixels inside a larger blank canvas moves every located
feature by exactly that offset and changes no other reported quantity"):
* `thr_shift`, `scale_shift`   the percentile threshold (non-zero pixels only) and `convert_to_int`'s
                       global maximum do not depend on where the content sits;
* `maxima_shift`, `greyDilation_shift`   the local maxima of two embeddings of one content image are
                       the same content pixels (any dimension; padding ≥ margin);
* `refine_shift`       every number `refine_com` reports is unchanged, centre and position move by the
                       offset (any dimension; padding ≥ radius + max_iterations − 1 so that the clip is
                       never active);
* `bandpass_embed_pixel`, `bandpass_shift`, `bandpass_blank_far`   (2-D) with ≥ 1 black pixel around
                       the content every pixel of the filtered canvas is a function of its position
                       relative to the content only, and is 0 farther than the kernel / box
                       half-width from it.

**Transposition** (2-D; "swaps the coordinate columns and changes no other reported quantity"):
* `maxima_transpose`, `whereClose_dominated`, `exactKey_swap`;
* `refine_transpose`   centroid components swap; mass, size², signal, raw mass equal; the ecc sums:
                       `Σ cos2θ·px ↦ −Σ cos2θ·px`, `Σ sin2θ·px` equal, centre pixel equal, hence ecc
                       equal — NEEDS the centre weight `centreCos = 0`;
* `ecc_transpose_witness`   with any non-zero centre weight (the unrepaired `cosmask` has 1) the ecc
                       numerator of a 3×3 neighbourhood changes under transposition;
* `bandpass_transpose`/`bandpass_permute_axes` are C10's.

**batch**: `batch_is_concat`, `batch_rows_in_frame_order`, `batch_any_order_preserving_map`.

NOT proved (see `lean/obligations/C09.json`, "partial"): the compositions `locateModel_shift`,
`locateNoPre_transpose`; `maxima/refine_transpose` beyond 2-D; the row ORDER of the maxima under
shift (membership and multiplicity are proved); the schedule clause of `batch`.
-/
namespace TrackpyV.C09
open TrackpyV List

/-! ## refine_com under a shift (any dimension) -/

open Refine in
/-- **refine_shift.**  Clause "moves every located feature by exactly that offset and changes no
other reported quantity", stage `refine_com`.  `img'`, `raw'` are the images moved by the integer
vector `d` (content at a different offset; the canvases `shape`, `shape'` may even differ).  If the
start pixel is at least `radius + max_iterations − 1` away from every border in both images
(`Locate.clipFree`, decidable, re-checked by the driver — implied by a black padding of
`radius + max_iterations` around the content), then the reported mask centre and position move by
exactly `d` and mass, size², the eccentricity sums and centre pixel, signal and raw mass are
unchanged. -/
theorem refine_shift (thr : Rat) (img raw : Image) (radius shape shape' : List Nat) (maxIter : Nat)
    (start d : List Int)
    (h : Locate.clipFree radius shape (fuelOf maxIter) start = true)
    (h' : Locate.clipFree radius shape' (fuelOf maxIter) (addVec radius.length start d) = true) :
    let R := refineOne thr img raw radius shape maxIter start
    let R' := refineOne thr (shiftImg radius.length d img) (shiftImg radius.length d raw) radius shape'
                maxIter (addVec radius.length start d)
    R'.centre = addVec radius.length R.centre d ∧
    (∀ i, i < radius.length → R'.pos.getD i 0 = R.pos.getD i 0 + ((d.getD i 0 : Int) : Rat)) ∧
    R'.mass = R.mass ∧ R'.rg2 = R.rg2 ∧ R'.ecc = R.ecc ∧ R'.signal = R.signal ∧
    R'.rawMass = R.rawMass := by
  intro R R'
  have hc : R'.centre = addVec radius.length R.centre d :=
    lastCentre_shift thr img _ radius shape shape' d _ start
      ((clipFree_iff _ _ _ _).mp h) ((clipFree_iff _ _ _ _).mp h')
  have e : R' = measure (shiftImg radius.length d img) (shiftImg radius.length d raw)
      (maskOffsets radius) radius (addVec radius.length R.centre d) := by
    show measure _ _ _ _ _ = _
    rw [show lastCentre thr (shiftImg radius.length d img) (maskOffsets radius) radius shape'
          (fuelOf maxIter) (addVec radius.length start d) = R'.centre from rfl, hc]
  refine ⟨hc, ?_, ?_, ?_, ?_, ?_, ?_⟩
  · intro i hi
    rw [e]
    exact posAt_shift img _ radius R.centre d i hi
  · rw [e]; exact massAt_shift img _ radius R.centre d
  · rw [e]; exact rg2At_shift img _ radius R.centre d
  · rw [e]; exact eccAt_shift img _ radius R.centre d
  · rw [e]; exact maskMax_shift img _ radius R.centre d
  · rw [e]; exact massAt_shift raw _ radius R.centre d

/-- the moved image really is "the same content at another place": its pixel at `p + d` is the
pixel of the original at `p` (for index vectors of the image's dimension) -/
theorem shiftImg_pixel (n : Nat) (d : List Int) (img : Refine.Image) (p : List Int)
    (hp : p.length = n) : Refine.shiftImg n d img (Refine.addVec n p d) = img p := by
  unfold Refine.shiftImg
  congr 1
  apply List.ext_getElem
  · simp [hp]
  · intro i h1 h2
    have hi : i < n := by simpa using h1
    simp only [List.getElem_map, List.getElem_range]
    rw [Refine.addVec_getD _ _ _ _ hi, List.getD_eq_getElem?_getD, List.getElem?_eq_getElem h2]
    simp

/-! ## refine_com under transposition (2-D) -/

section transpose
open Refine

theorem rg2At_transpose (img : Image) (ry rx : Nat) (c : List Int) :
    rg2At (transImg img) (maskOffsets [rx, ry]) [rx, ry] (origin [rx, ry] (swapI c)) =
      if isotropic [ry, rx] then rg2At img (maskOffsets [ry, rx]) [ry, rx] (origin [ry, rx] c)
      else swapQ (rg2At img (maskOffsets [ry, rx]) [ry, rx] (origin [ry, rx] c)) := by
  unfold rg2At
  rw [isotropic_swap, massAt_transpose]
  split
  · rw [wsum_transpose img ry rx c (wR2 [ry, rx]) (wR2 [rx, ry]) (fun i j => wR2_swap ry rx i j)]
  · rw [show (List.range [rx, ry].length) = [0, 1] from rfl,
      show (List.range [ry, rx].length) = [0, 1] from rfl]
    simp only [List.map_cons, List.map_nil, swapQ, List.getD_cons_zero, List.getD_cons_succ]
    rw [wsum_transpose img ry rx c (wX2 [ry, rx] 1) (wX2 [rx, ry] 0) (fun i j => wX2_swap0 ry rx i j),
      wsum_transpose img ry rx c (wX2 [ry, rx] 0) (wX2 [rx, ry] 1) (fun i j => wX2_swap1 ry rx i j)]

theorem eccAt_transpose (img : Image) (ry rx : Nat) (c : List Int) :
    eccAt (transImg img) (maskOffsets [rx, ry]) [rx, ry] (origin [rx, ry] (swapI c)) =
      some (- wsum img (maskOffsets [ry, rx]) (origin [ry, rx] c) (wCos [ry, rx]),
            wsum img (maskOffsets [ry, rx]) (origin [ry, rx] c) (wSin [ry, rx]),
            img (addOff (origin [ry, rx] c) [ry, rx])) := by
  unfold eccAt
  rw [if_pos (by rfl : [rx, ry].length = 2)]
  rw [wsum_transpose img ry rx c (fun off => (-1) * wCos [ry, rx] off) (wCos [rx, ry])
        (fun i j => by rw [wCos_swap]; ring),
      wsum_const_mul,
      wsum_transpose img ry rx c (wSin [ry, rx]) (wSin [rx, ry]) (fun i j => wSin_swap ry rx i j),
      pix_transpose]
  simp

/-- **refine_transpose.**  Clause "transposing an integer image … swaps the coordinate columns and
changes no other reported quantity", stage `refine_com`, 2-D.  `transImg img` is the transposed
image; radius, shape and start pixel are exchanged with the axes.  Then: the mask centre and the
position have their components exchanged; mass, signal and raw mass are equal; size² is equal
(isotropic) or has its two per-axis entries exchanged; the eccentricity sums satisfy
`Σ cos2θ·px ↦ −Σ cos2θ·px`, `Σ sin2θ·px` equal, centre pixel equal — so `ecc`, which depends on
`(Σcos)² + (Σsin)²`, mass and centre pixel only, is equal (`ecc_sq_eq`).  This uses
`centreCos = 0` (the repaired `cosmask`); with the unrepaired weight 1 it is false
(`ecc_transpose_witness`). -/
theorem refine_transpose (thr : Rat) (img raw : Image) (ry rx sy sx : Nat) (maxIter : Nat)
    (start : List Int) :
    let R := refineOne thr img raw [ry, rx] [sy, sx] maxIter start
    let R' := refineOne thr (transImg img) (transImg raw) [rx, ry] [sx, sy] maxIter (swapI start)
    R'.centre = swapI R.centre ∧ R'.pos = swapQ R.pos ∧ R'.mass = R.mass ∧
    R'.signal = R.signal ∧ R'.rawMass = R.rawMass ∧
    R'.rg2 = (if isotropic [ry, rx] then R.rg2 else swapQ R.rg2) ∧
    ∃ a b cp, R.ecc = some (a, b, cp) ∧ R'.ecc = some (-a, b, cp) := by
  intro R R'
  have hc : R'.centre = swapI R.centre := lastCentre_transpose thr img ry rx sy sx _ start
  have e : R' = measure (transImg img) (transImg raw) (maskOffsets [rx, ry]) [rx, ry]
      (swapI R.centre) := by
    show measure _ _ _ _ _ = _
    rw [show lastCentre thr (transImg img) (maskOffsets [rx, ry]) [rx, ry] [sx, sy]
          (fuelOf maxIter) (swapI start) = R'.centre from rfl, hc]
  refine ⟨hc, ?_, ?_, ?_, ?_, ?_, ?_⟩
  · rw [e]; exact posAt_transpose img ry rx R.centre
  · rw [e]; exact massAt_transpose img ry rx R.centre
  · rw [e]; exact maskMax_transpose img ry rx R.centre
  · rw [e]; exact massAt_transpose raw ry rx R.centre
  · rw [e]; exact rg2At_transpose img ry rx R.centre
  · refine ⟨wsum img (maskOffsets [ry, rx]) (origin [ry, rx] R.centre) (wCos [ry, rx]),
      wsum img (maskOffsets [ry, rx]) (origin [ry, rx] R.centre) (wSin [ry, rx]),
      img (addOff (origin [ry, rx] R.centre) [ry, rx]), ?_, ?_⟩
    · show eccAt img (maskOffsets [ry, rx]) [ry, rx] (origin [ry, rx] R.centre) = _
      unfold eccAt
      rw [if_pos (by rfl : [ry, rx].length = 2)]
    · rw [e]; exact eccAt_transpose img ry rx R.centre

/-- the quantity `ecc` is computed from — `((Σcos)² + (Σsin)²)`, with mass and centre pixel — is
the same for `(a, b)` and `(−a, b)` -/
theorem ecc_sq_eq (a b : Rat) : (-a) * (-a) + b * b = a * a + b * b := by ring

/-- transposing twice gives the image back (on 2-D index vectors), so `refine_transpose` can be
read in both directions -/
theorem transImg_transImg (img : Image) (a b : Int) : transImg (transImg img) [a, b] = img [a, b] := by
  simp [transImg]

/-! ### the unrepaired centre weight breaks it -/

/-- `cosmask` with an arbitrary weight `w` for the centre pixel (`wCos` is the case `w = centreCos`) -/
def wCosW (w : Rat) (radius : List Nat) (off : List Nat) : Rat :=
  let y : Int := rel (radius.getD 0 0) (off.getD 0 0)
  let x : Int := rel (radius.getD 1 0) (off.getD 1 0)
  if x = 0 ∧ y = 0 then w else ((x * x - y * y : Int) : Rat) / ((x * x + y * y : Int) : Rat)

theorem wCosW_centreCos : wCosW centreCos = wCos := rfl

/-- a 3×3 neighbourhood: centre pixel 2, its right neighbour 1 (mask radius 1 = the 5-pixel plus) -/
def witImg : Image := fun p => if p = [1, 1] then 2 else if p = [1, 2] then 1 else 0

theorem maskOffsets11 : maskOffsets [1, 1] = [[0, 1], [1, 0], [1, 1], [1, 2], [2, 1]] := by
  decide +kernel

/-- the ecc numerator `(Σ cos2θ·px)² + (Σ sin2θ·px)²` of the mask at `[1,1]`, centre weight `w` -/
def eccNum (w : Rat) (img : Image) : Rat :=
  wsum img (maskOffsets [1, 1]) [0, 0] (wCosW w [1, 1]) * wsum img (maskOffsets [1, 1]) [0, 0] (wCosW w [1, 1])
    + wsum img (maskOffsets [1, 1]) [0, 0] (wSin [1, 1]) * wsum img (maskOffsets [1, 1]) [0, 0] (wSin [1, 1])

theorem eccNum_wit (w : Rat) : eccNum w witImg = (1 + 2 * w) * (1 + 2 * w) := by
  simp [eccNum, maskOffsets11, wsum, wCosW, wSin, rel, addOff, witImg, centreSin, List.range_succ]
  ring

theorem eccNum_witT (w : Rat) : eccNum w (transImg witImg) = (-1 + 2 * w) * (-1 + 2 * w) := by
  simp [eccNum, maskOffsets11, wsum, wCosW, wSin, rel, addOff, witImg, transImg, centreSin,
    List.range_succ]
  ring

/-- **ecc_transpose_witness.**  With ANY non-zero weight for the centre pixel of `cosmask` — the
unrepaired `masks.cosmask` has `cos(2·atan2(0,0)) = 1` — the eccentricity numerator of this 3×3
neighbourhood differs from that of its transpose (9 vs 1 for `w = 1`), while mass (3) and centre
pixel (2), hence the denominator, are the same: `ecc` changes under transposition.  Replayed on
the real code by `corpus/C09/ecc-transpose-witness.json`. -/
theorem ecc_transpose_witness (w : Rat) (hw : w ≠ 0) :
    eccNum w witImg ≠ eccNum w (transImg witImg) := by
  rw [eccNum_wit, eccNum_witT]
  intro h
  apply hw
  linarith

theorem ecc_witness_old_weight : eccNum 1 witImg = 9 ∧ eccNum 1 (transImg witImg) = 1 := by
  rw [eccNum_wit, eccNum_witT]; norm_num

/-- … and with the repaired weight the witness is invariant, as `refine_transpose` says -/
theorem ecc_witness_repaired : eccNum centreCos witImg = eccNum centreCos (transImg witImg) := by
  rw [eccNum_wit, eccNum_witT]; simp [centreCos]

/-- non-vacuity of `refine_transpose`: a bright pixel at (2,3), a dim one at (2,2); the mask moves
once; in the transposed image it moves along the other axis -/
def exImg : Image := fun p => if p = [2, 3] then 9 else if p = [2, 2] then 1 else 0
example : (refineOne (3/5) exImg exImg [1, 1] [5, 5] 10 [2, 2]).centre = [2, 3] := by
  decide +kernel
example : (refineOne (3/5) (transImg exImg) (transImg exImg) [1, 1] [5, 5] 10
    (swapI [2, 2])).centre = [3, 2] := by decide +kernel

end transpose

/-! ## batch -/

section batch
open Locate
variable {ι α : Type}

theorem flatten_filter_nonempty (l : List (List (Int × α))) :
    (l.filter (fun t => !t.isEmpty)).flatten = l.flatten := by
  induction l with
  | nil => rfl
  | cons t l ih =>
    cases t with
    | nil => simpa using ih
    | cons a t => simp [ih]

theorem enumFrom_zip_map (g : Frame ι → List α) : ∀ (k : Nat) (frames : List (Frame ι)),
    (enumFrom k (frames.zip (frames.map g))).map (fun x => tag (frameNoOf x.1 x.2.1) x.2.2) =
      (enumFrom k frames).map (fun x => tag (frameNoOf x.1 x.2) (g x.2))
  | _, [] => rfl
  | k, f :: fs => by
    simp only [List.map_cons, List.zip_cons_cons, enumFrom, List.cons.injEq, true_and]
    exact enumFrom_zip_map g (k + 1) fs

/-- **batch_is_concat.**  Clause "batch returns the concatenation of locate on each frame tagged
with its frame number": the model of `batch` (frames processed in order, empty tables skipped) is
the concatenation over the frames, in the order given, of `locate frame` with every row tagged by
the frame's number (`frame_no` attribute if present, else its position). -/
theorem batch_is_concat (locate : ι → List α) (frames : List (Frame ι)) :
    batchModel locate frames =
      (enumFrom 0 frames).flatMap (fun x => tag (frameNoOf x.1 x.2) (locate x.2.image)) := by
  unfold batchModel assemble
  rw [flatten_filter_nonempty, enumFrom_zip_map (fun f => locate f.image), List.flatMap_def]

/-- the frame column: each frame contributes exactly `(locate frame).length` rows carrying its
number, in frame order (so empty frames contribute nothing and no row is lost or duplicated) -/
theorem batch_rows_in_frame_order (locate : ι → List α) (frames : List (Frame ι)) :
    (batchModel locate frames).map Prod.fst =
      (enumFrom 0 frames).flatMap
        (fun x => List.replicate (locate x.2.image).length (frameNoOf x.1 x.2)) := by
  rw [batch_is_concat, List.map_flatMap]
  congr 1
  funext x
  simp [tag]

/-- **the result is a function of the per-frame results only**: whatever evaluates `locate` on the
frames — the builtin `map` or `Pool.imap` with any number of workers — if it returns the per-frame
tables in frame order (the documented contract of both, part of the trusted base) the table
`batch` assembles is the same. -/
theorem batch_any_order_preserving_map (locate : ι → List α) (frames : List (Frame ι))
    (mapFunc : (Frame ι → List α) → List (Frame ι) → List (List α))
    (hmap : ∀ f xs, mapFunc f xs = xs.map f) :
    assemble frames (mapFunc (fun f => locate f.image) frames) = batchModel locate frames := by
  rw [hmap]; rfl

/-- non-vacuity: three frames (numbers: none, 7, none), the middle one empty -/
example : batchModel (fun n : Nat => List.range n) [⟨none, 2⟩, ⟨some 7, 0⟩, ⟨none, 3⟩] =
    [(0, 0), (0, 1), (2, 0), (2, 1), (2, 2)] := by decide
example : batchModel (fun n : Nat => List.range n) [⟨some 5, 1⟩, ⟨some 3, 2⟩] =
    [(5, 0), (3, 0), (3, 1)] := by decide

end batch

end TrackpyV.C09
