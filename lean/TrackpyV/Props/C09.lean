import TrackpyV.Props.C06
import TrackpyV.Proofs.ShiftRefine
import TrackpyV.Proofs.ShiftFind
import TrackpyV.Proofs.TransposeRefine
import TrackpyV.Proofs.ShiftBandpass
/-!
# C09 — feature finding does not depend on where or how the image is processed

Stage by stage on the models of C06 (`Model/Find.lean`), C07 (`Model/Refine.lean`) and C10
(`Model/Bandpass.lean`), which `Model/Locate.lean` composes into `locateModel` / `batchModel`.

**Shift** ("moving the image content by whole pixels inside a larger blank canvas moves every located
feature by exactly that offset and changes no other reported quantity"):
* `thr_shift`, `scale_shift`   the percentile threshold (non-zero pixels only) and `convert_to_int`'s
                       global maximum do not depend on where the content sits;
* `maxima_shift`, `greyDilation_shift`   the local maxima of two embeddings of one content image are
                       the same content pixels (any dimension; padding ≥ margin);
* `refine_shift`       every number `refine_com` reports is unchanged, centre and position move by the
                       offset (any dimension; padding ≥ radius + max_iterations − 1 so that the clip is
                       never active);
* `bandpass_embed_pixel`, `bandpass_shift`, `bandpass_blank_far`   (2-D) with ≥ 1 black pixel around
                       the content every pixel of the filtered canvas is a function of its position
                       relative to the content only, and is 0 farther than the kernel / box
                       half-width from it.

**Transposition** (2-D; "swaps the coordinate columns and changes no other reported quantity"):
* `maxima_transpose`, `whereClose_dominated`, `exactKey_swap`;
* `refine_transpose`   centroid components swap; mass, size², signal, raw mass equal (unconditional);
* `refine_transpose_ecc`   the exact law of the ecc sums with the code's centre weight `centreCos = 1`:
                       `(Σcos, Σsin, centre) ↦ (2·centre − Σcos, Σsin, centre)` — so the `ecc` clause of the
                       property is FALSE of the code (`ecc_witness_code`, `ecc_witness_refineOne`,
                       `ecc_transpose_witness` for every weight ≠ 0; KNOWN FINDING); it holds when the
                       centre pixel is 0 (`refine_transpose_ecc_partial`) and would hold with centre
                       weight 0 (`ecc_transpose_weight_zero`);
* `bandpass_transpose`/`bandpass_permute_axes` are C10's.

**batch**: `batch_is_concat`, `batch_rows_in_frame_order`, `batch_any_order_preserving_map`.

The COMPOSITIONS of these stage theorems into statements about `Locate.locateModel` —
`locateModel_shift` (`locatePre_shift`, `locateNoPre_shift`), `locateNoPre_transpose`, and the row
ORDER of the maxima under a shift (`maxima_shift_order`) — are in `Props/C09Comp.lean`.

NOT proved (see `lean/obligations/C09.json`, "partial"): the `ecc` clause under transposition (false
of the code); `maxima/refine_transpose` beyond 2-D; the schedule clause of `batch`.
-/
namespace TrackpyV.C09
open TrackpyV List

/-! ## refine_com under a shift (any dimension) -/

open Refine in
/-- **refine_shift.**  Clause "moves every located feature by exactly that offset and changes no
other reported quantity", stage `refine_com`.  `img'`, `raw'` are the images moved by the integer
vector `d` (content at a different offset; the canvases `shape`, `shape'` may even differ).  If the
start pixel is at least `radius + max_iterations − 1` away from every border in both images
(`Locate.clipFree`, decidable, re-checked by the driver — implied by a black padding of
`radius + max_iterations` around the content), then the reported mask centre and position move by
exactly `d` and mass, size², the eccentricity sums and centre pixel, signal and raw mass are
unchanged. -/
theorem refine_shift (thr : Rat) (img raw : Image) (radius shape shape' : List Nat) (maxIter : Nat)
    (start d : List Int)
    (h : Locate.clipFree radius shape (fuelOf maxIter) start = true)
    (h' : Locate.clipFree radius shape' (fuelOf maxIter) (addVec radius.length start d) = true) :
    let R := refineOne thr img raw radius shape maxIter start
    let R' := refineOne thr (shiftImg radius.length d img) (shiftImg radius.length d raw) radius shape'
                maxIter (addVec radius.length start d)
    R'.centre = addVec radius.length R.centre d ∧
    (∀ i, i < radius.length → R'.pos.getD i 0 = R.pos.getD i 0 + ((d.getD i 0 : Int) : Rat)) ∧
    R'.mass = R.mass ∧ R'.rg2 = R.rg2 ∧ R'.ecc = R.ecc ∧ R'.signal = R.signal ∧
    R'.rawMass = R.rawMass := by
  intro R R'
  have hc : R'.centre = addVec radius.length R.centre d :=
    lastCentre_shift thr img _ radius shape shape' d _ start
      ((clipFree_iff _ _ _ _).mp h) ((clipFree_iff _ _ _ _).mp h')
  have e : R' = measure (shiftImg radius.length d img) (shiftImg radius.length d raw)
      (maskOffsets radius) radius (addVec radius.length R.centre d) := by
    show measure _ _ _ _ _ = _
    rw [show lastCentre thr (shiftImg radius.length d img) (maskOffsets radius) radius shape'
          (fuelOf maxIter) (addVec radius.length start d) = R'.centre from rfl, hc]
  refine ⟨hc, ?_, ?_, ?_, ?_, ?_, ?_⟩
  · intro i hi
    rw [e]
    exact posAt_shift img _ radius R.centre d i hi
  · rw [e]; exact massAt_shift img _ radius R.centre d
  · rw [e]; exact rg2At_shift img _ radius R.centre d
  · rw [e]; exact eccAt_shift img _ radius R.centre d
  · rw [e]; exact maskMax_shift img _ radius R.centre d
  · rw [e]; exact massAt_shift raw _ radius R.centre d

/-- the moved image really is "the same content at another place": its pixel at `p + d` is the
pixel of the original at `p` (for index vectors of the image's dimension) -/
theorem shiftImg_pixel (n : Nat) (d : List Int) (img : Refine.Image) (p : List Int)
    (hp : p.length = n) : Refine.shiftImg n d img (Refine.addVec n p d) = img p := by
  unfold Refine.shiftImg
  congr 1
  apply List.ext_getElem
  · simp [hp]
  · intro i h1 h2
    have hi : i < n := by simpa using h1
    simp only [List.getElem_map, List.getElem_range]
    rw [Refine.addVec_getD _ _ _ _ hi, List.getD_eq_getElem?_getD, List.getElem?_eq_getElem h2]
    simp

/-! ## grey_dilation under a shift (any dimension) -/

section find
open Find Locate

/-- **thr_shift.**  The percentile threshold is computed from the NON-ZERO pixels only
(find.py:63-69), so it is the same for the content and for the content on a black canvas at any
offset. -/
theorem thr_shift (content big : Image) (off : List Nat) (h : IsEmbed content off big) (pct : Rat) :
    percentileThr big pct = percentileThr content pct :=
  percentileOf_perm h.nonzero_perm pct

/-- **scale_shift.**  `convert_to_int` multiplies every pixel by `255 / image.max()` (1 for a black
image) and truncates: the per-pixel map `convPixel (gmax xs)` depends on the image only through
its global maximum, which is the same for any two images with the same multiset of pixels — e.g.
one float content shown at two offsets in equally sized black canvases. -/
theorem scale_shift (xs ys : List Rat) (h : xs.Perm ys) :
    convertToInt xs = xs.map (convPixel (gmax xs)) ∧
    convertToInt ys = ys.map (convPixel (gmax xs)) :=
  ⟨rfl, by rw [gmax_perm h]; rfl⟩

example : convertToInt [255 / 4, 1 / 2, -3, 10] = [255, 2, 0, 40] ∧
    convertToInt [10, -3, 255 / 4, 1 / 2] = [40, 0, 255, 2] := by decide +kernel

/-- **maxima_shift.**  Clause "moves every located feature by exactly that offset", stage
`grey_dilation(precise=False)`, any dimension.  `big₁`, `big₂` show the same content at the offsets
`off₁`, `off₂` on black canvases (possibly of different shapes).  With at least `margin` black pixels
on every side of the content (`padOK`, decidable) and a threshold ≥ 0, the candidate maxima of
both canvases are content pixels, and a content pixel `u` is a maximum of the one (at `u + off₁`)
iff it is a maximum of the other (at `u + off₂`) — namely iff it is a maximum of the content with
the box clipped to the content (`ContentMax`). -/
theorem maxima_shift (content big₁ big₂ : Image) (off₁ off₂ : List Nat)
    (h₁ : IsEmbed content off₁ big₁) (h₂ : IsEmbed content off₂ big₂)
    (ks margin : List Nat) (thr : Rat) (hthr : 0 ≤ thr)
    (hk : ks.length = content.shape.length) (hm : margin.length = content.shape.length)
    (hp₁ : padOK big₁.shape off₁ content.shape margin = true)
    (hp₂ : padOK big₂.shape off₂ content.shape margin = true) :
    (∀ p ∈ candidates big₁ ks thr margin, ∃ u, InImage content.shape u ∧ p = addPos u off₁) ∧
    (∀ p ∈ candidates big₂ ks thr margin, ∃ u, InImage content.shape u ∧ p = addPos u off₂) ∧
    ∀ u, InImage content.shape u →
      (addPos u off₁ ∈ candidates big₁ ks thr margin ↔ addPos u off₂ ∈ candidates big₂ ks thr margin) := by
  have e₁ := mem_candidates_embed content big₁ off₁ h₁ ks margin thr hthr hk hm hp₁
  have e₂ := mem_candidates_embed content big₂ off₂ h₂ ks margin thr hthr hk hm hp₂
  refine ⟨?_, ?_, ?_⟩
  · intro p hp
    obtain ⟨u, rfl, hu, _⟩ := (e₁ p).mp hp
    exact ⟨u, hu, rfl⟩
  · intro p hp
    obtain ⟨u, rfl, hu, _⟩ := (e₂ p).mp hp
    exact ⟨u, hu, rfl⟩
  · intro u hu
    have key : ∀ (big : Image) (off : List Nat) (h : IsEmbed content off big)
        (e : ∀ p, p ∈ candidates big ks thr margin ↔ ∃ u, p = addPos u off ∧ ContentMax content ks thr u),
        addPos u off ∈ candidates big ks thr margin ↔ ContentMax content ks thr u := by
      intro big off h e
      rw [e]
      constructor
      · rintro ⟨v, hv, hc⟩
        have := addPos_inj _ _ u v (fits_length h.fits).1 hu hc.1 hv
        rw [this]; exact hc
      · intro hc; exact ⟨u, rfl, hc⟩
    rw [key big₁ off₁ h₁ e₁, key big₂ off₂ h₂ e₂]

/-- **greyDilation_shift.**  The same for the function the driver runs: if `grey_dilation`
answers on both canvases (`R₁`, `R₂`), the content is not black and the percentile is such that the
threshold is ≥ 0, then both results consist of content pixels only, without repetition, and
`u + off₁ ∈ R₁ ↔ u + off₂ ∈ R₂`: the maxima move by exactly `off₂ − off₁`.  (The threshold of the
two runs is the same number by `thr_shift`.) -/
theorem greyDilation_shift (content big₁ big₂ : Image) (off₁ off₂ : List Nat)
    (h₁ : IsEmbed content off₁ big₁) (h₂ : IsEmbed content off₂ big₂)
    (sep : List Rat) (pct : Rat) (margin : List Nat) (R₁ R₂ : List Pos)
    (hR₁ : greyDilation big₁ sep pct (some margin) false = some R₁)
    (hR₂ : greyDilation big₂ sep pct (some margin) false = some R₂)
    (thr : Rat) (hthr : percentileThr content pct = some thr) (h0 : 0 ≤ thr)
    (hp₁ : padOK big₁.shape off₁ content.shape margin = true)
    (hp₂ : padOK big₂.shape off₂ content.shape margin = true) :
    R₁.Nodup ∧ R₂.Nodup ∧
    (∀ p ∈ R₁, ∃ u, InImage content.shape u ∧ p = addPos u off₁) ∧
    (∀ p ∈ R₂, ∃ u, InImage content.shape u ∧ p = addPos u off₂) ∧
    ∀ u, InImage content.shape u → (addPos u off₁ ∈ R₁ ↔ addPos u off₂ ∈ R₂) := by
  have n₁ := (fits_length h₁.fits).2
  have n₂ := (fits_length h₂.fits).2
  have get : ∀ (big : Image) (off : List Nat) (h : IsEmbed content off big) (R : List Pos)
      (hR : greyDilation big sep pct (some margin) false = some R) (hn : big.shape.length = content.shape.length),
      R = candidates big (sep.map (boxSize content.shape.length)) thr margin ∧
        sep.length = content.shape.length ∧ margin.length = content.shape.length := by
    intro big off h R hR hn
    obtain ⟨hw, hcase⟩ := greyDilationK_some hR
    obtain ⟨_, hsl, hml, _, _⟩ := (wellFormed_iff _ _ _).mp hw
    have ht : percentileThr big pct = some thr := by rw [thr_shift content big off h, hthr]
    rcases hcase with ⟨hnone, _⟩ | ⟨thr', hthr', hR'⟩
    · rw [hnone] at ht; cases ht
    · rw [ht] at hthr'
      injection hthr' with e
      subst e
      simp only [Bool.false_eq_true, if_false, Option.getD_some] at hR'
      rw [hn] at hR' hsl hml
      exact ⟨hR', hsl, by simpa using hml⟩
  obtain ⟨e₁, hsl, hml⟩ := get big₁ off₁ h₁ R₁ hR₁ n₁
  obtain ⟨e₂, _, _⟩ := get big₂ off₂ h₂ R₂ hR₂ n₂
  have := maxima_shift content big₁ big₂ off₁ off₂ h₁ h₂ (sep.map (boxSize content.shape.length))
    margin thr h0 (by simpa using hsl) hml hp₁ hp₂
  rw [e₁, e₂]
  exact ⟨candidates_nodup _ _ _ _, candidates_nodup _ _ _ _, this.1, this.2.1, this.2.2⟩

/-- non-vacuity: C06's 3×3 example image (peak 5 in the centre, lower peak 2 in a corner) shown at
two offsets on an 8×9 canvas built by `Locate.embed`; the checker accepts both, the padding
hypothesis holds for the default margin 1, and the maxima are the two content peaks, moved -/
def exContent : Image := ⟨[3, 3], #[1, 1, 1, 1, 5, 1, 1, 1, 2]⟩
example : isEmbedB exContent [2, 3] (embed [8, 9] [2, 3] exContent) = true := by decide +kernel
example : isEmbedB exContent [3, 1] (embed [8, 9] [3, 1] exContent) = true := by decide +kernel
example : padOK [8, 9] [2, 3] [3, 3] [1, 1] = true ∧ padOK [8, 9] [3, 1] [3, 3] [1, 1] = true := by
  decide
example : greyDilation (embed [8, 9] [2, 3] exContent) [2, 2] 50 (some [1, 1]) false
    = some [[3, 4], [4, 5]] := by decide +kernel
example : greyDilation (embed [8, 9] [3, 1] exContent) [2, 2] 50 (some [1, 1]) false
    = some [[4, 2], [5, 3]] := by decide +kernel
example : percentileThr exContent 50 = some 1 := by decide +kernel

/-! ## grey_dilation under transposition (2-D) -/

/-- **maxima_transpose.**  Clause "transposing an integer image … swaps the coordinate columns",
stage `grey_dilation(precise=False)`, 2-D: with separation and margin exchanged along with the
axes, `(j, i)` is a maximum of the transposed image iff `(i, j)` is one of the image.  (Both
results are duplicate-free lists in `np.where` order of their own image; the ORDER differs, which
is why rows are matched by position.) -/
theorem maxima_transpose (img imgT : Image) (H W : Nat) (h : IsTranspose img imgT H W)
    (s0 s1 pct : Rat) (m0 m1 : Nat) (R RT : List Pos)
    (hR : greyDilation img [s0, s1] pct (some [m0, m1]) false = some R)
    (hRT : greyDilation imgT [s1, s0] pct (some [m1, m0]) false = some RT) (i j : Nat) :
    [j, i] ∈ RT ↔ [i, j] ∈ R := by
  obtain ⟨_, hcase⟩ := greyDilationK_some hR
  obtain ⟨_, hcaseT⟩ := greyDilationK_some hRT
  have ht : percentileThr imgT pct = percentileThr img pct := percentileOf_perm h.nonzero_perm pct
  rcases hcase with ⟨hnone, rfl⟩ | ⟨thr, hthr, hR'⟩
  · rcases hcaseT with ⟨_, rfl⟩ | ⟨thr', hthr', _⟩
    · simp
    · rw [ht, hnone] at hthr'; cases hthr'
  · rcases hcaseT with ⟨hnone, _⟩ | ⟨thr', hthr', hRT'⟩
    · rw [ht, hthr] at hnone; cases hnone
    · rw [ht, hthr] at hthr'
      injection hthr' with e
      subst e
      simp only [Bool.false_eq_true, if_false, Option.getD_some] at hR' hRT'
      rw [hR', hRT', h.shape, h.shapeT]
      exact mem_candidates_transpose img imgT H W h _ _ m0 m1 thr i j

/-- every maximum of the transposed image is such a pair `(j, i)` (so `maxima_transpose` describes
the whole result) -/
theorem maxima_transpose_form (img imgT : Image) (H W : Nat) (h : IsTranspose img imgT H W)
    (sep : List Rat) (pct : Rat) (margin? : Option (List Nat)) (RT : List Pos)
    (hRT : greyDilation imgT sep pct margin? false = some RT) (p : Pos) (hp : p ∈ RT) :
    ∃ i j, p = [j, i] ∧ i < H ∧ j < W := by
  obtain ⟨thr, hthr⟩ : ∃ thr, percentileThr imgT pct = some thr := by
    obtain ⟨_, hcase⟩ := greyDilationK_some hRT
    rcases hcase with ⟨_, rfl⟩ | ⟨thr, hthr, _⟩
    · simp at hp
    · exact ⟨thr, hthr⟩
  have := ((maxima_iff imgT sep pct margin? RT thr hRT hthr p).mp hp).1
  rw [h.shapeT] at this
  obtain ⟨j, i, rfl, hj, hi⟩ := (inImage2 _ _ _).mp this
  exact ⟨i, j, rfl, hi, hj⟩

/-- non-vacuity: a 2×3 image and `Locate.revImg` of it -/
def exT : Image := ⟨[2, 3], #[1, 5, 1, 1, 1, 7]⟩
example : isTransposeB exT (revImg exT) 2 3 = true := by decide +kernel
example : greyDilation exT [2, 2] 0 (some [0, 0]) false = some [[1, 2]] := by decide +kernel
example : greyDilation (revImg exT) [2, 2] 0 (some [0, 0]) false = some [[2, 1]] := by decide +kernel

/-! ## where_close: what is dropped does not depend on the row order (no full ties) -/

/-- the tie-break key `Σ pᵢ/sᵢ` is symmetric under exchanging the axes of positions and
separations together -/
theorem exactKey_swap (s0 s1 : Rat) (a b : Int) : exactKey [s1, s0] [b, a] = exactKey [s0, s1] [a, b] := by
  simp [exactKey, add_comm]

/-- … and so is the distance in units of the separation -/
theorem dist2_swap (s0 s1 : Rat) (a b c d : Int) :
    dist2 [s1, s0] [b, a] [d, c] = dist2 [s0, s1] [a, b] [c, d] := by
  simp [dist2, add_comm]

/-- `g` beats `f`: brighter, or equally bright with the larger key -/
def Beats (g f : Feat) : Prop := f.inten < g.inten ∨ (f.inten = g.inten ∧ f.key < g.key)

theorem pair_sublist_lt {α} {k : Nat} {l : List α} {a b : Nat × α} (ha : a ∈ indexFrom k l)
    (hb : b ∈ indexFrom k l) (h : a.1 < b.1) : [a, b].Sublist (indexFrom k l) := by
  have hne : a ≠ b := by intro e; rw [e] at h; omega
  rcases pair_sublist_of_mem ha hb hne with h' | h'
  · exact h'
  · have := sublist_pair_lt h'; omega

/-- **whereClose_dominated.**  If no two features within separation of each other are in a full
tie (equal brightness AND equal key), then `where_close` drops exactly the features that have a
neighbour within separation which `Beats` them — a description that mentions neither the row
order nor the axis order (brightness, key and distance are invariant under transposition by
`exactKey_swap`, `dist2_swap`), so the de-duplication commutes with transposition and with any
reordering of the rows.  A full tie is decided by the row order (find.py:49 keeps `index_1`). -/
theorem whereClose_dominated (sep : List Rat) (fs : List Feat) (hs : ∀ s ∈ sep, s ≠ 0)
    (hnt : ∀ a b, [a, b].Sublist (indexFrom 0 fs) → close sep a.2 b.2 = true →
      ¬ (a.2.inten = b.2.inten ∧ a.2.key = b.2.key))
    (i : Nat) (f : Feat) (hi : (i, f) ∈ indexFrom 0 fs) :
    i ∈ whereClose sep fs ↔
      ∃ j g, (j, g) ∈ indexFrom 0 fs ∧ j ≠ i ∧ close sep f g = true ∧ Beats g f := by
  rw [mem_whereClose sep fs hs]
  constructor
  · rintro ⟨⟨ai, af⟩, ⟨bi, bf⟩, hsub, hc, hd⟩
    have hlt : ai < bi := sublist_pair_lt hsub
    have ha : (ai, af) ∈ indexFrom 0 fs := hsub.subset (by simp)
    have hb : (bi, bf) ∈ indexFrom 0 fs := hsub.subset (by simp)
    have hnt' := hnt _ _ hsub hc
    simp only at hc hnt'
    unfold pairDrop at hd
    simp only at hd
    split_ifs at hd with h1 h2 h3
    · -- a brighter: b dropped
      have e : (i, f) = (bi, bf) := indexFrom_fst_inj hi hb hd
      obtain ⟨rfl, rfl⟩ := Prod.mk.inj e
      exact ⟨ai, af, ha, by omega, by rw [close_comm]; exact hc, Or.inl h1⟩
    · have e : (i, f) = (bi, bf) := indexFrom_fst_inj hi hb hd
      obtain ⟨rfl, rfl⟩ := Prod.mk.inj e
      exact ⟨ai, af, ha, by omega, by rw [close_comm]; exact hc, Or.inr ⟨h2.symm, h3⟩⟩
    · have e : (i, f) = (ai, af) := indexFrom_fst_inj hi ha hd
      obtain ⟨rfl, rfl⟩ := Prod.mk.inj e
      refine ⟨bi, bf, hb, by omega, hc, Or.inr ⟨h2, ?_⟩⟩
      rcases lt_trichotomy f.key bf.key with h | h | h
      · exact h
      · exact absurd ⟨h2, h⟩ hnt'
      · exact absurd h h3
    · have e : (i, f) = (ai, af) := indexFrom_fst_inj hi ha hd
      obtain ⟨rfl, rfl⟩ := Prod.mk.inj e
      refine ⟨bi, bf, hb, by omega, hc, Or.inl ?_⟩
      omega
  · rintro ⟨j, g, hj, hji, hc, hbeat⟩
    rcases Nat.lt_or_gt_of_ne hji with hlt | hgt
    · -- g comes first
      have hsub : [(j, g), (i, f)].Sublist (indexFrom 0 fs) := pair_sublist_lt hj hi hlt
      refine ⟨(j, g), (i, f), hsub, by rw [close_comm]; exact hc, ?_⟩
      unfold pairDrop
      rcases hbeat with h | ⟨h1, h2⟩
      · simp [h]
      · simp [h1, h2]
    · have hsub : [(i, f), (j, g)].Sublist (indexFrom 0 fs) := pair_sublist_lt hi hj hgt
      refine ⟨(i, f), (j, g), hsub, hc, ?_⟩
      unfold pairDrop
      rcases hbeat with h | ⟨h1, h2⟩
      · have h' : ¬ f.inten > g.inten := by omega
        have h'' : ¬ f.inten = g.inten := by omega
        simp [h', h'']
      · have h' : ¬ f.key > g.key := not_lt.mpr (le_of_lt h2)
        simp [h1, h']

end find

/-! ## refine_com under transposition (2-D) -/

section transpose
open Refine

theorem rg2At_transpose (img : Image) (ry rx : Nat) (c : List Int) :
    rg2At (transImg img) (maskOffsets [rx, ry]) [rx, ry] (origin [rx, ry] (swapI c)) =
      if isotropic [ry, rx] then rg2At img (maskOffsets [ry, rx]) [ry, rx] (origin [ry, rx] c)
      else swapQ (rg2At img (maskOffsets [ry, rx]) [ry, rx] (origin [ry, rx] c)) := by
  unfold rg2At
  rw [isotropic_swap, massAt_transpose]
  split
  · rw [wsum_transpose img ry rx c (wR2 [ry, rx]) (wR2 [rx, ry]) (fun i j => wR2_swap ry rx i j)]
  · rw [show (List.range [rx, ry].length) = [0, 1] from rfl,
      show (List.range [ry, rx].length) = [0, 1] from rfl]
    simp only [List.map_cons, List.map_nil, swapQ, List.getD_cons_zero, List.getD_cons_succ]
    rw [wsum_transpose img ry rx c (wX2 [ry, rx] 1) (wX2 [rx, ry] 0) (fun i j => wX2_swap0 ry rx i j),
      wsum_transpose img ry rx c (wX2 [ry, rx] 0) (wX2 [rx, ry] 1) (fun i j => wX2_swap1 ry rx i j)]

/-- the eccentricity sums with an arbitrary centre weight `w` for `cosmask` (`eccAt` is the case
`w = centreCos`) -/
def eccAtW (w : Rat) (img : Image) (mask : List (List Nat)) (radius : List Nat) (org : List Int) :
    Option (Rat × Rat × Nat) :=
  if radius.length = 2 then
    some (wsum img mask org (wCosW w radius), wsum img mask org (wSin radius), img (addOff org radius))
  else none

theorem eccAtW_centreCos : eccAtW centreCos = eccAt := rfl

/-- **the law of the eccentricity sums under transposition, any centre weight `w`:**
`(Σcos, Σsin, centre) ↦ (−Σcos + 2·w·centre, Σsin, centre)`.  Every off-centre term of `Σ cos2θ·px`
changes sign, the centre term `w·centre` does not. -/
theorem eccAtW_transpose (w : Rat) (img : Image) (ry rx : Nat) (c : List Int) :
    eccAtW w (transImg img) (maskOffsets [rx, ry]) [rx, ry] (origin [rx, ry] (swapI c)) =
      some (- wsum img (maskOffsets [ry, rx]) (origin [ry, rx] c) (wCosW w [ry, rx])
              + 2 * w * ((img (addOff (origin [ry, rx] c) [ry, rx]) : Nat) : Rat),
            wsum img (maskOffsets [ry, rx]) (origin [ry, rx] c) (wSin [ry, rx]),
            img (addOff (origin [ry, rx] c) [ry, rx])) := by
  unfold eccAtW
  rw [if_pos (by rfl : [rx, ry].length = 2)]
  rw [wsum_transpose img ry rx c
        (fun off => (-1) * wCosW w [ry, rx] off + (if off = [ry, rx] then 2 * w else 0)) (wCosW w [rx, ry])
        (fun i j => by rw [wCosW_swap]; ring),
      wsum_add, wsum_const_mul, wsum_centre,
      wsum_transpose img ry rx c (wSin [ry, rx]) (wSin [rx, ry]) (fun i j => wSin_swap ry rx i j),
      pix_transpose]
  simp

/-- **refine_transpose.**  Clause "transposing an integer image … swaps the coordinate columns and
changes no other reported quantity", stage `refine_com`, 2-D, for every reported quantity EXCEPT
`ecc`.  `transImg img` is the transposed image; radius, shape and start pixel are exchanged with
the axes.  Then: the mask centre and the position have their components exchanged; mass, signal and
raw mass are equal; size² is equal (isotropic) or has its two per-axis entries exchanged.
Unconditional (all images, radii, shapes, thresholds, `max_iterations`, start pixels; the clip
included).  For `ecc` see `refine_transpose_ecc` — the clause is FALSE of the code. -/
theorem refine_transpose (thr : Rat) (img raw : Image) (ry rx sy sx : Nat) (maxIter : Nat)
    (start : List Int) :
    let R := refineOne thr img raw [ry, rx] [sy, sx] maxIter start
    let R' := refineOne thr (transImg img) (transImg raw) [rx, ry] [sx, sy] maxIter (swapI start)
    R'.centre = swapI R.centre ∧ R'.pos = swapQ R.pos ∧ R'.mass = R.mass ∧
    R'.signal = R.signal ∧ R'.rawMass = R.rawMass ∧
    R'.rg2 = (if isotropic [ry, rx] then R.rg2 else swapQ R.rg2) := by
  intro R R'
  have hc : R'.centre = swapI R.centre := lastCentre_transpose thr img ry rx sy sx _ start
  have e : R' = measure (transImg img) (transImg raw) (maskOffsets [rx, ry]) [rx, ry]
      (swapI R.centre) := by
    show measure _ _ _ _ _ = _
    rw [show lastCentre thr (transImg img) (maskOffsets [rx, ry]) [rx, ry] [sx, sy]
          (fuelOf maxIter) (swapI start) = R'.centre from rfl, hc]
  refine ⟨hc, ?_, ?_, ?_, ?_, ?_⟩
  · rw [e]; exact posAt_transpose img ry rx R.centre
  · rw [e]; exact massAt_transpose img ry rx R.centre
  · rw [e]; exact maskMax_transpose img ry rx R.centre
  · rw [e]; exact massAt_transpose raw ry rx R.centre
  · rw [e]; exact rg2At_transpose img ry rx R.centre

/-- **refine_transpose_ecc.**  What the model (= the code: `centreCos = 1`) really does to the
eccentricity sums: if the image reports `(a, b, cp)` — `a = Σ cos2θ·px`, `b = Σ sin2θ·px`, `cp` the
centre pixel of the reported mask — the transposed image reports
`(−a + 2·centreCos·cp, b, cp) = (2·cp − a, b, cp)`.  `ecc = √(a² + b²)/(mass − cp + 1e-6)` is
therefore NOT invariant unless `a·cp = cp²`… in particular not on `ecc_witness_code`. -/
theorem refine_transpose_ecc (thr : Rat) (img raw : Image) (ry rx sy sx : Nat) (maxIter : Nat)
    (start : List Int) :
    let R := refineOne thr img raw [ry, rx] [sy, sx] maxIter start
    let R' := refineOne thr (transImg img) (transImg raw) [rx, ry] [sx, sy] maxIter (swapI start)
    ∃ a b cp, R.ecc = some (a, b, cp) ∧
      R'.ecc = some (-a + 2 * centreCos * (cp : Rat), b, cp) := by
  intro R R'
  have hc : R'.centre = swapI R.centre := lastCentre_transpose thr img ry rx sy sx _ start
  refine ⟨wsum img (maskOffsets [ry, rx]) (origin [ry, rx] R.centre) (wCos [ry, rx]),
    wsum img (maskOffsets [ry, rx]) (origin [ry, rx] R.centre) (wSin [ry, rx]),
    img (addOff (origin [ry, rx] R.centre) [ry, rx]), ?_, ?_⟩
  · show eccAt img (maskOffsets [ry, rx]) [ry, rx] (origin [ry, rx] R.centre) = _
    unfold eccAt
    rw [if_pos (by rfl : [ry, rx].length = 2)]
  · show eccAt (transImg img) (maskOffsets [rx, ry]) [rx, ry] (origin [rx, ry] R'.centre) = _
    rw [hc, ← eccAtW_centreCos, eccAtW_transpose, wCosW_centreCos]

/-- **refine_transpose_ecc_partial.**  The `ecc` clause of the property under the explicit,
decidable hypothesis that excludes the defect: the centre pixel of the reported mask is 0
(`R.ecc = some (a, b, 0)`).  Then the transposed image reports `(−a, b, 0)`, and `ecc` — a function
of `a² + b²`, mass and centre pixel (`ecc_sq_eq`) — is the same. -/
theorem refine_transpose_ecc_partial (thr : Rat) (img raw : Image) (ry rx sy sx : Nat) (maxIter : Nat)
    (start : List Int) (a b : Rat)
    (h0 : (refineOne thr img raw [ry, rx] [sy, sx] maxIter start).ecc = some (a, b, 0)) :
    (refineOne thr (transImg img) (transImg raw) [rx, ry] [sx, sy] maxIter (swapI start)).ecc =
      some (-a, b, 0) := by
  obtain ⟨a', b', cp, h1, h2⟩ := refine_transpose_ecc thr img raw ry rx sy sx maxIter start
  rw [h0] at h1
  injection h1 with h1
  injection h1 with ha h1
  injection h1 with hb hcp
  subst ha; subst hb; subst hcp
  rw [h2]; simp

/-- with the centre weight 0 (the repaired `cosmask` of repo-fixes/C09-cosmask-centre.patch, NOT
applied) the eccentricity sums of the mask at any centre `c` transform as the property needs,
unconditionally: `(a, b, cp) ↦ (−a, b, cp)` -/
theorem ecc_transpose_weight_zero (img : Image) (ry rx : Nat) (c : List Int) :
    ∃ a b cp, eccAtW 0 img (maskOffsets [ry, rx]) [ry, rx] (origin [ry, rx] c) = some (a, b, cp) ∧
      eccAtW 0 (transImg img) (maskOffsets [rx, ry]) [rx, ry] (origin [rx, ry] (swapI c)) =
        some (-a, b, cp) := by
  refine ⟨_, _, _, (if_pos (by rfl : [ry, rx].length = 2)), ?_⟩
  rw [eccAtW_transpose]; simp

/-- the quantity `ecc` is computed from — `((Σcos)² + (Σsin)²)`, with mass and centre pixel — is
the same for `(a, b)` and `(−a, b)` -/
theorem ecc_sq_eq (a b : Rat) : (-a) * (-a) + b * b = a * a + b * b := by ring

/-- transposing twice gives the image back (on 2-D index vectors), so `refine_transpose` can be
read in both directions -/
theorem transImg_transImg (img : Image) (a b : Int) : transImg (transImg img) [a, b] = img [a, b] := by
  simp [transImg]

/-! ### the `ecc` clause is false of the code -/

/-- a 3×3 neighbourhood: centre pixel 2, its right neighbour 1 (mask radius 1 = the 5-pixel plus) -/
def witImg : Image := fun p => if p = [1, 1] then 2 else if p = [1, 2] then 1 else 0

theorem maskOffsets11 : maskOffsets [1, 1] = [[0, 1], [1, 0], [1, 1], [1, 2], [2, 1]] := by
  decide +kernel

/-- the ecc numerator `(Σ cos2θ·px)² + (Σ sin2θ·px)²` of the mask at `[1,1]`, centre weight `w` -/
def eccNum (w : Rat) (img : Image) : Rat :=
  wsum img (maskOffsets [1, 1]) [0, 0] (wCosW w [1, 1]) * wsum img (maskOffsets [1, 1]) [0, 0] (wCosW w [1, 1])
    + wsum img (maskOffsets [1, 1]) [0, 0] (wSin [1, 1]) * wsum img (maskOffsets [1, 1]) [0, 0] (wSin [1, 1])

theorem eccNum_wit (w : Rat) : eccNum w witImg = (1 + 2 * w) * (1 + 2 * w) := by
  simp [eccNum, maskOffsets11, wsum, wCosW, wSin, rel, addOff, witImg, centreSin, List.range_succ]
  ring

theorem eccNum_witT (w : Rat) : eccNum w (transImg witImg) = (-1 + 2 * w) * (-1 + 2 * w) := by
  simp [eccNum, maskOffsets11, wsum, wCosW, wSin, rel, addOff, witImg, transImg, centreSin,
    List.range_succ]
  ring

/-- **ecc_transpose_witness.**  With ANY non-zero weight for the centre pixel of `cosmask` the
eccentricity numerator of this 3×3 neighbourhood differs from that of its transpose, while mass
(3) and centre pixel (2), hence the denominator, are the same: `ecc` changes under transposition. -/
theorem ecc_transpose_witness (w : Rat) (hw : w ≠ 0) :
    eccNum w witImg ≠ eccNum w (transImg witImg) := by
  rw [eccNum_wit, eccNum_witT]
  intro h
  apply hw
  linarith

/-- **ecc_witness_code.**  … instantiated at the code's weight `centreCos = 1`
(`cos(2·atan2(0,0))`): numerator 9 for the image, 1 for its transpose.  The `ecc` clause of the
property is FALSE of the model, and of the code: `corpus/C09/ecc-transpose-witness.json` replays
this neighbourhood through `refine_com_arr` on every run (known finding
`{"what": "ecc-changes-under-transposition"}`). -/
theorem ecc_witness_code :
    eccNum centreCos witImg = 9 ∧ eccNum centreCos (transImg witImg) = 1 ∧
    eccNum centreCos witImg ≠ eccNum centreCos (transImg witImg) := by
  rw [eccNum_wit, eccNum_witT]; simp [centreCos]; norm_num

/-- the same witness through the function the driver runs: the 5×5 image of the corpus entry
(centre pixel 2 at (2,2), right neighbour 1), radius 1, one iteration.  The model reports the sums
`(3, 0, 2)` for the image and `(1, 0, 2)` for its transpose — `refine_transpose_ecc`'s `2·cp − a` —
so `a² + b²` is 9 vs 1 with equal mass and centre pixel. -/
def witImg5 : Image := fun p => if p = [2, 2] then 2 else if p = [2, 3] then 1 else 0
theorem ecc_witness_refineOne :
    (refineOne (3/5) witImg5 witImg5 [1, 1] [5, 5] 1 [2, 2]).ecc = some (3, 0, 2) ∧
    (refineOne (3/5) (transImg witImg5) (transImg witImg5) [1, 1] [5, 5] 1 (swapI [2, 2])).ecc
      = some (1, 0, 2) ∧
    (refineOne (3/5) witImg5 witImg5 [1, 1] [5, 5] 1 [2, 2]).mass =
      (refineOne (3/5) (transImg witImg5) (transImg witImg5) [1, 1] [5, 5] 1 (swapI [2, 2])).mass := by
  decide +kernel

/-- with the weight 0 of the (unapplied) repair the witness is invariant -/
theorem ecc_witness_repaired : eccNum 0 witImg = eccNum 0 (transImg witImg) := by
  rw [eccNum_wit, eccNum_witT]; norm_num

/-- non-vacuity of `refine_transpose`: a bright pixel at (2,3), a dim one at (2,2); the mask moves
once; in the transposed image it moves along the other axis -/
def exImg : Image := fun p => if p = [2, 3] then 9 else if p = [2, 2] then 1 else 0
example : (refineOne (3/5) exImg exImg [1, 1] [5, 5] 10 [2, 2]).centre = [2, 3] := by
  decide +kernel
example : (refineOne (3/5) (transImg exImg) (transImg exImg) [1, 1] [5, 5] 10
    (swapI [2, 2])).centre = [3, 2] := by decide +kernel
/-- non-vacuity of `refine_transpose_ecc_partial`: in this image the mask ends at (2,3)… whose
centre pixel is 9, so the hypothesis fails; with a single iteration the mask stays at (2,2) — centre
pixel 1 ≠ 0 either; a feature whose reported mask centre is dark: -/
def exDark : Image := fun p => if p = [2, 3] then 4 else if p = [2, 1] then 4 else if p = [1, 2] then 1 else 0
example : (refineOne (3/5) exDark exDark [1, 1] [5, 5] 10 [2, 2]).ecc = some (7, 0, 0) := by
  decide +kernel
example : (refineOne (3/5) (transImg exDark) (transImg exDark) [1, 1] [5, 5] 10 (swapI [2, 2])).ecc
    = some (-7, 0, 0) := by decide +kernel

-- FULL (FALSE of the code, not provable): refine_transpose_ecc_full —
--   ∀ img …, R.ecc = some (a, b, cp) → R'.ecc = some (−a, b, cp)        (hence `ecc` equal)
--   Refuted by `ecc_witness_code` / `ecc_witness_refineOne`: `masks.cosmask` gives the centre pixel
--   the weight cos(2·atan2(0,0)) = 1, so R'.ecc = some (2·cp − a, b, cp) (`refine_transpose_ecc`).
--   Proved instead: the exact law `refine_transpose_ecc`, the clause under "centre pixel = 0"
--   (`refine_transpose_ecc_partial`) and for centre weight 0 (`ecc_transpose_weight_zero`).
--   Known finding {"what": "ecc-changes-under-transposition"}; the repair
--   repo-fixes/C09-cosmask-centre.patch is not applied (it breaks the pinned test_characterize).

end transpose

/-! ## bandpass under a shift (2-D) -/

section bandpass
open Bandpass

/-- **bandpass_embed_pixel.**  `big` shows `content` at `(oy, ox)` on a black `H × W` canvas with at
least ONE black pixel on every side (so that the edge value `boxcar` replicates beyond the border
is black, like the zeros `lowpass` assumes there).  Then every pixel `(r, c)` of `bandpass big`
is `clip thr (lowZ − boxZ)` evaluated at the position `(r − oy, c − ox)` RELATIVE TO THE CONTENT —
an expression in which neither the offset nor the canvas occurs. -/
theorem bandpass_embed_pixel {h w oy ox H W : Nat} {content big : Array Rat}
    (e : IsEmbedQ h w content oy ox H W big)
    (py : 1 ≤ oy ∧ oy + h + 1 ≤ H) (pxx : 1 ≤ ox ∧ ox + w + 1 ≤ W)
    (s0 s1 : Rat) (k0 k1 : Array Rat) (l0 l1 : Int) (thr : Option Rat) (out : Array Rat)
    (hb : bandpass [H, W] big [s0, s1] [k0, k1] [l0, l1] thr = .ok out) {r c : Nat}
    (hr : r < H) (hc : c < W) :
    px W out r c =
      clip (thrOf thr) (lowZ h w content s0 s1 k0 k1 ((r : Int) - oy) ((c : Int) - ox)
                        - boxZ h w content l0 l1 ((r : Int) - oy) ((c : Int) - ox)) := by
  have hp : r * W + c < big.size := by rw [e.size]; exact idx_lt hr hc
  have := bandpass_pixel [H, W] big [s0, s1] [k0, k1] [l0, l1] thr out hb (r * W + c) hp
  have e1 := lowpass_embed e s0 s1 k0 k1 hr hc
  have e2 := boxcar_embed e py pxx l0 l1 hr hc
  unfold px at e1 e2 ⊢
  rw [this, e1, e2]
  rfl

/-- **bandpass_shift.**  Clause "moves … by exactly that offset", stage `bandpass`: two canvases
showing the same content at different offsets (each with ≥ 1 black pixel around it); pixels at
the same position relative to the content — `r₁ − oy₁ = r₂ − oy₂`, `c₁ − ox₁ = c₂ − ox₂` — have the same
filtered value.  The filtered content, halo included, moves with the offset. -/
theorem bandpass_shift {h w oy₁ ox₁ H₁ W₁ oy₂ ox₂ H₂ W₂ : Nat} {content big₁ big₂ : Array Rat}
    (e₁ : IsEmbedQ h w content oy₁ ox₁ H₁ W₁ big₁) (e₂ : IsEmbedQ h w content oy₂ ox₂ H₂ W₂ big₂)
    (py₁ : 1 ≤ oy₁ ∧ oy₁ + h + 1 ≤ H₁) (px₁ : 1 ≤ ox₁ ∧ ox₁ + w + 1 ≤ W₁)
    (py₂ : 1 ≤ oy₂ ∧ oy₂ + h + 1 ≤ H₂) (px₂ : 1 ≤ ox₂ ∧ ox₂ + w + 1 ≤ W₂)
    (s0 s1 : Rat) (k0 k1 : Array Rat) (l0 l1 : Int) (thr : Option Rat) (out₁ out₂ : Array Rat)
    (hb₁ : bandpass [H₁, W₁] big₁ [s0, s1] [k0, k1] [l0, l1] thr = .ok out₁)
    (hb₂ : bandpass [H₂, W₂] big₂ [s0, s1] [k0, k1] [l0, l1] thr = .ok out₂)
    {r₁ c₁ r₂ c₂ : Nat} (hr₁ : r₁ < H₁) (hc₁ : c₁ < W₁) (hr₂ : r₂ < H₂) (hc₂ : c₂ < W₂)
    (hy : (r₁ : Int) - oy₁ = (r₂ : Int) - oy₂) (hx : (c₁ : Int) - ox₁ = (c₂ : Int) - ox₂) :
    px W₁ out₁ r₁ c₁ = px W₂ out₂ r₂ c₂ := by
  rw [bandpass_embed_pixel e₁ py₁ px₁ s0 s1 k0 k1 l0 l1 thr out₁ hb₁ hr₁ hc₁,
    bandpass_embed_pixel e₂ py₂ px₂ s0 s1 k0 k1 l0 l1 thr out₂ hb₂ hr₂ hc₂, hy, hx]

theorem pxZ_out_y (h w : Nat) (content : Array Rat) (y x : Int) (hy : y < 0 ∨ (h : Int) ≤ y) :
    pxZ h w content y x = 0 := by
  rw [pxZ_eq, if_neg (by omega)]

/-- **bandpass_blank_far.**  Farther from the content than the half-widths of the kernel and of
the box (here: along axis 0, above or below it) the filtered canvas is exactly 0 — the thresholded
result of a blank region is blank, whatever the threshold.  With `bandpass_shift`: the filtered
canvases are two embeddings of one halo-extended content. -/
theorem bandpass_blank_far {h w oy ox H W : Nat} {content big : Array Rat}
    (e : IsEmbedQ h w content oy ox H W big)
    (py : 1 ≤ oy ∧ oy + h + 1 ≤ H) (pxx : 1 ≤ ox ∧ ox + w + 1 ≤ W)
    (s0 s1 : Rat) (k0 k1 : Array Rat) (l0 l1 : Int) (thr : Option Rat) (out : Array Rat)
    (hb : bandpass [H, W] big [s0, s1] [k0, k1] [l0, l1] thr = .ok out) {r c : Nat}
    (hr : r < H) (hc : c < W)
    (hfar : ((r : Int) - oy + ((effKernel s0 k0).size : Int) - (((effKernel s0 k0).size / 2 : Nat) : Int) ≤ 0 ∧
             (r : Int) - oy + (effSize l0 : Int) - ((effSize l0 / 2 : Nat) : Int) ≤ 0) ∨
            ((h : Int) ≤ (r : Int) - oy - (((effKernel s0 k0).size / 2 : Nat) : Int) ∧
             (h : Int) ≤ (r : Int) - oy - ((effSize l0 / 2 : Nat) : Int))) :
    px W out r c = 0 := by
  rw [bandpass_embed_pixel e py pxx s0 s1 k0 k1 l0 l1 thr out hb hr hc]
  have hl : lowZ h w content s0 s1 k0 k1 ((r : Int) - oy) ((c : Int) - ox) = 0 := by
    unfold lowZ
    rw [← sumTo_zero (effKernel s0 k0).size]
    apply sumTo_congr; intro a ha
    rw [← sumTo_zero (effKernel s1 k1).size]
    apply sumTo_congr; intro b _
    rw [pxZ_out_y _ _ _ _ _ (by omega), mul_zero]
  have hbx : boxZ h w content l0 l1 ((r : Int) - oy) ((c : Int) - ox) = 0 := by
    unfold boxZ
    have : sumTo (effSize l0) (fun a => sumTo (effSize l1) (fun b =>
        pxZ h w content ((r : Int) - oy + (a : Int) - ((effSize l0 / 2 : Nat) : Int))
          ((c : Int) - ox + (b : Int) - ((effSize l1 / 2 : Nat) : Int)))) = 0 := by
      rw [← sumTo_zero (effSize l0)]
      apply sumTo_congr; intro a ha
      rw [← sumTo_zero (effSize l1)]
      apply sumTo_congr; intro b _
      exact pxZ_out_y _ _ _ _ _ (by omega)
    rw [this, zero_div]
  rw [hl, hbx, sub_zero, clip_zero]

/-- non-vacuity: a 1×1 content (value 9) at (1,1) and at (2,2) on 4×4 / 5×5 canvases -/
example : IsEmbedQ 1 1 #[9] 1 1 4 4 #[0,0,0,0, 0,9,0,0, 0,0,0,0, 0,0,0,0] :=
  ⟨rfl, by decide, by decide, fun r c hr hc =>
    (by decide +kernel : ∀ r, r < 4 → ∀ c, c < 4 →
      px 4 #[0,0,0,0, 0,9,0,0, 0,0,0,0, 0,0,0,0] r c = pxZ 1 1 #[9] ((r : Int) - (1 : Nat)) ((c : Int) - (1 : Nat)))
      r hr c hc⟩
example : IsEmbedQ 1 1 #[9] 2 2 5 5
    #[0,0,0,0,0, 0,0,0,0,0, 0,0,9,0,0, 0,0,0,0,0, 0,0,0,0,0] :=
  ⟨rfl, by decide, by decide, fun r c hr hc =>
    (by decide +kernel : ∀ r, r < 5 → ∀ c, c < 5 →
      px 5 #[0,0,0,0,0, 0,0,0,0,0, 0,0,9,0,0, 0,0,0,0,0, 0,0,0,0,0] r c =
        pxZ 1 1 #[9] ((r : Int) - (2 : Nat)) ((c : Int) - (2 : Nat))) r hr c hc⟩

end bandpass

/-! ## batch -/

section batch
open Locate
variable {ι α : Type}

theorem flatten_filter_nonempty (l : List (List (Int × α))) :
    (l.filter (fun t => !t.isEmpty)).flatten = l.flatten := by
  induction l with
  | nil => rfl
  | cons t l ih =>
    cases t with
    | nil => simpa using ih
    | cons a t => simp [ih]

theorem enumFrom_zip_map (g : Frame ι → List α) : ∀ (k : Nat) (frames : List (Frame ι)),
    (enumFrom k (frames.zip (frames.map g))).map (fun x => tag (frameNoOf x.1 x.2.1) x.2.2) =
      (enumFrom k frames).map (fun x => tag (frameNoOf x.1 x.2) (g x.2))
  | _, [] => rfl
  | k, f :: fs => by
    simp only [List.map_cons, List.zip_cons_cons, enumFrom, List.cons.injEq, true_and]
    exact enumFrom_zip_map g (k + 1) fs

/-- **batch_is_concat.**  Clause "batch returns the concatenation of locate on each frame tagged
with its frame number": the model of `batch` (frames processed in order, empty tables skipped) is
the concatenation over the frames, in the order given, of `locate frame` with every row tagged by
the frame's number (`frame_no` attribute if present, else its position). -/
theorem batch_is_concat (locate : ι → List α) (frames : List (Frame ι)) :
    batchModel locate frames =
      (enumFrom 0 frames).flatMap (fun x => tag (frameNoOf x.1 x.2) (locate x.2.image)) := by
  unfold batchModel assemble
  rw [flatten_filter_nonempty, enumFrom_zip_map (fun f => locate f.image), List.flatMap_def]

/-- the frame column: each frame contributes exactly `(locate frame).length` rows carrying its
number, in frame order (so empty frames contribute nothing and no row is lost or duplicated) -/
theorem batch_rows_in_frame_order (locate : ι → List α) (frames : List (Frame ι)) :
    (batchModel locate frames).map Prod.fst =
      (enumFrom 0 frames).flatMap
        (fun x => List.replicate (locate x.2.image).length (frameNoOf x.1 x.2)) := by
  rw [batch_is_concat, List.map_flatMap]
  congr 1
  funext x
  simp [tag]

/-- **the result is a function of the per-frame results only**: whatever evaluates `locate` on the
frames — the builtin `map` or `Pool.imap` with any number of workers — if it returns the per-frame
tables in frame order (the documented contract of both, part of the trusted base) the table
`batch` assembles is the same. -/
theorem batch_any_order_preserving_map (locate : ι → List α) (frames : List (Frame ι))
    (mapFunc : (Frame ι → List α) → List (Frame ι) → List (List α))
    (hmap : ∀ f xs, mapFunc f xs = xs.map f) :
    assemble frames (mapFunc (fun f => locate f.image) frames) = batchModel locate frames := by
  rw [hmap]; rfl

/-- non-vacuity: three frames (numbers: none, 7, none), the middle one empty -/
example : batchModel (fun n : Nat => List.range n) [⟨none, 2⟩, ⟨some 7, 0⟩, ⟨none, 3⟩] =
    [(0, 0), (0, 1), (2, 0), (2, 1), (2, 2)] := by decide
example : batchModel (fun n : Nat => List.range n) [⟨some 5, 1⟩, ⟨some 3, 2⟩] =
    [(5, 0), (3, 0), (3, 1)] := by decide

end batch

/-! ## the compositions

`locateModel_shift` (bandpass → convert_to_int → grey_dilation → refine_com under a shift; 2-D, and
`locateNoPre_shift` in any dimension), `locateNoPre_transpose` (2-D, every reported quantity except
`ecc`) and `maxima_shift_order` (the `np.where` order) are proved in `Props/C09Comp.lean` from the
stage theorems above and the glue lemmas of `Proofs/LocateGlue.lean` / `Proofs/LocatePre.lean`
between the three image representations (flat `Array Rat` / flat `Array Nat` / index function).
-/

end TrackpyV.C09
