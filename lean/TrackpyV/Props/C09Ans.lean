import TrackpyV.Props.C09Comp
/-!
# C09 — when does the composed model ANSWER?  (the answer-hypotheses of the compositions discharged)

`locateNoPre_transpose` (Props/C09Comp.lean) takes "the model answers on the image" AND "the model
answers on the transposed image" as hypotheses.  This file removes the second one.

* `locateNoPre_answers_iff`        without preprocessing the model answers exactly when the argument
                                   check `Find.wellFormed` of `grey_dilation` passes (bandpass is not
                                   run, an all-black image gives the empty table, `refine_com` is total);
* `wellFormed_transpose`           that check is symmetric under exchanging the two axes, GIVEN that the
                                   two pixel arrays have the same number of entries;
* `locateNoPre_answers_transpose`  the model answers on the transposed image with the per-axis
                                   arguments reversed IF AND ONLY IF it answers on the image;
* `answers_transpose_size_witness` the one guard `IsTranspose` does not make symmetric: the relation
                                   `IsTranspose` speaks about pixels read with a default, not about the
                                   LENGTH of the pixel array, and `wellFormed` checks `size = Π shape`;
                                   hence the hypothesis `rawT.size = raw.size` (true of every numpy
                                   array and its transpose);
* `locateNoPre_transpose'`         `locateNoPre_transpose` with only "answers on the original image";
* `locateNoPre_transpose_total`    … with no answer-hypothesis at all;
* `locateNoPre_transpose_coords`   the "up to the order of the rows" as a `List.Perm` between lists of
                                   VALUES: the (centre, position, mass, signal, raw mass) columns of the
                                   transposed result are a permutation of those of the result with the
                                   two coordinates exchanged;
* `locateNoPre_shift_answers`, `locateModel_shift_answers`   the shift theorems are equations between
                                   `Option`s and carry no answer-hypothesis; stated for completeness:
                                   the model answers on the second canvas iff on the first;
* `exOrd…`                         a 3×4 image with two maxima for which the two `np.where` orders
                                   really differ.
-/
namespace TrackpyV.C09
open TrackpyV Find Locate Refine

section answers

/-- **locateNoPre_answers_iff.**  With `preprocess = False` the ONLY way `locateModel` refuses is the
argument check of `grey_dilation` (`wellFormed`: ≥ 1 axis, one separation and one margin entry per
axis, `Π shape` pixels, every separation positive with a box of size ≥ 1): no percentile threshold
(all-black image) gives the empty table, the margin filter and `refine_com` never refuse. -/
theorem locateNoPre_answers_iff (P : Params) (hP : P.preprocess = false) (shape : List Nat)
    (raw : Array Nat) :
    (∃ L, locateModel P shape raw = some L) ↔ wellFormed ⟨shape, raw⟩ P.sep P.margin = true := by
  rw [← Option.isSome_iff_exists, ← greyDilation_isSome ⟨shape, raw⟩ P.sep P.pct P.margin]
  unfold locateModel workImage
  simp only [hP, Bool.false_eq_true, if_false]
  cases greyDilation ⟨shape, raw⟩ P.sep P.pct (some P.margin) false <;> simp

/-- the argument check of `grey_dilation` is symmetric under exchanging the two axes (shape and
per-axis arguments reversed) for two pixel arrays with the same number of entries -/
theorem wellFormed_transpose (H W : Nat) (raw rawT : Array Nat) (hsz : rawT.size = raw.size)
    (sep : List Rat) (margin : List Nat) :
    wellFormed ⟨[W, H], rawT⟩ sep.reverse margin.reverse = wellFormed ⟨[H, W], raw⟩ sep margin := by
  unfold wellFormed
  simp only [List.length_reverse, List.all_reverse, List.length_cons, List.length_nil,
    List.foldl_cons, List.foldl_nil, hsz, Nat.one_mul, Nat.mul_comm W H]

/-- **locateNoPre_answers_transpose.**  `locateModel` with `preprocess = False` answers on the
`W × H` image with the per-axis arguments reversed (`transParams`) if and only if it answers on the
`H × W` image: every guard is symmetric in the two axes.  No hypothesis on separation, margin or
radius (a wrong number of entries makes both sides refuse); the two pixel arrays must have the same
number of entries (`answers_transpose_size_witness`: `IsTranspose` alone does not give that). -/
theorem locateNoPre_answers_transpose (P : Params) (hP : P.preprocess = false) (H W : Nat)
    (raw rawT : Array Nat) (hsz : rawT.size = raw.size) :
    (∃ LT, locateModel (transParams P) [W, H] rawT = some LT) ↔
      (∃ L, locateModel P [H, W] raw = some L) := by
  have hPT : (transParams P).preprocess = false := hP
  rw [locateNoPre_answers_iff _ hPT, locateNoPre_answers_iff _ hP]
  show wellFormed ⟨[W, H], rawT⟩ P.sep.reverse P.margin.reverse = true ↔ _
  rw [wellFormed_transpose H W raw rawT hsz]

/-- **answers_transpose_size_witness.**  The hypothesis `rawT.size = raw.size` cannot be dropped in
favour of `IsTranspose`: the 1×1 "image" with an EMPTY pixel array and the 1×1 black image are in the
relation `IsTranspose` (pixels are read with default 0), the model refuses the first (`0 ≠ 1·1`
pixels) and answers on the second (black image: empty table).  Not reachable from numpy (an array
has `Π shape` entries); it is the only asymmetric guard. -/
theorem answers_transpose_size_witness :
    IsTranspose ⟨[1, 1], #[]⟩ ⟨[1, 1], #[0]⟩ 1 1 ∧
    (locateModel exPT [1, 1] #[]).map List.length = none ∧
    (locateModel (transParams exPT) [1, 1] #[0]).map List.length = some 0 := by
  refine ⟨isTransposeB_sound ⟨[1, 1], #[]⟩ ⟨[1, 1], #[0]⟩ 1 1 (by decide +kernel), ?_, ?_⟩ <;>
    decide +kernel

/-- **locateNoPre_transpose'.**  `locateNoPre_transpose` with the hypothesis "the model answers on
the transposed image" DISCHARGED (and separation / margin no longer named: they have two entries
because the model answers): if the model answers `L` on the image, then it answers on the transposed
image with the per-axis arguments reversed, and that answer `LT` is, up to the order of its rows, row
by row the transposed rows of `L` (`TransRow`: every reported quantity except `ecc`). -/
theorem locateNoPre_transpose' (P : Params) (hP : P.preprocess = false) (H W : Nat)
    (raw rawT : Array Nat) (hT : IsTranspose ⟨[H, W], raw⟩ ⟨[W, H], rawT⟩ H W)
    (hsz : rawT.size = raw.size) (ry rx : Nat) (hrad : P.radius = [ry, rx])
    (L : List Measure) (hL : locateModel P [H, W] raw = some L) :
    ∃ LT, locateModel (transParams P) [W, H] rawT = some LT ∧
      ∃ L', L'.Perm LT ∧ List.Forall₂ (TransRow ry rx) L L' := by
  obtain ⟨LT, hLT⟩ := (locateNoPre_answers_transpose P hP H W raw rawT hsz).mpr ⟨L, hL⟩
  have hwf := (locateNoPre_answers_iff P hP [H, W] raw).mp ⟨L, hL⟩
  unfold wellFormed at hwf
  simp only [Bool.and_eq_true, decide_eq_true_eq, List.length_cons, List.length_nil] at hwf
  obtain ⟨s0, s1, hsep⟩ := List.length_eq_two.mp hwf.1.1.1.2
  obtain ⟨m0, m1, hmar⟩ := List.length_eq_two.mp hwf.1.1.2
  exact ⟨LT, hLT, locateNoPre_transpose P hP H W raw rawT hT s0 s1 m0 m1 ry rx hsep hmar hrad L LT hL hLT⟩

/-- **locateNoPre_transpose_total.**  The transposition clause with NO answer-hypothesis: either the
model refuses both images, or it answers on both and the answers are related as in
`locateNoPre_transpose`. -/
theorem locateNoPre_transpose_total (P : Params) (hP : P.preprocess = false) (H W : Nat)
    (raw rawT : Array Nat) (hT : IsTranspose ⟨[H, W], raw⟩ ⟨[W, H], rawT⟩ H W)
    (hsz : rawT.size = raw.size) (ry rx : Nat) (hrad : P.radius = [ry, rx]) :
    (locateModel P [H, W] raw = none ∧ locateModel (transParams P) [W, H] rawT = none) ∨
    ∃ L LT, locateModel P [H, W] raw = some L ∧ locateModel (transParams P) [W, H] rawT = some LT ∧
      ∃ L', L'.Perm LT ∧ List.Forall₂ (TransRow ry rx) L L' := by
  cases hL : locateModel P [H, W] raw with
  | none =>
    left
    refine ⟨rfl, ?_⟩
    cases hLT : locateModel (transParams P) [W, H] rawT with
    | none => rfl
    | some LT =>
      obtain ⟨L, hL'⟩ := (locateNoPre_answers_transpose P hP H W raw rawT hsz).mp ⟨LT, hLT⟩
      rw [hL] at hL'
      cases hL'
  | some L =>
    right
    obtain ⟨LT, hLT, h⟩ := locateNoPre_transpose' P hP H W raw rawT hT hsz ry rx hrad L hL
    exact ⟨L, LT, rfl, hLT, h⟩

/-! ## "up to the order of the rows" as a permutation of values -/

/-- the columns of a row that transposition determines as a FUNCTION of the original row (all of
`TransRow` but size², whose form depends on the radius, and `ecc`, the known finding) -/
def coordCols (m : Measure) : List Int × List Rat × Rat × Nat × Rat :=
  (m.centre, m.pos, m.mass, m.signal, m.rawMass)

/-- … and the same columns of the row-wise transposed row: the two coordinates exchanged -/
def coordColsT (m : Measure) : List Int × List Rat × Rat × Nat × Rat :=
  (swapI m.centre, swapQ m.pos, m.mass, m.signal, m.rawMass)

/-- **locateNoPre_transpose_coords.**  The order statement made explicit: the (mask centre,
position, mass, signal, raw mass) columns of the result on the transposed image are a PERMUTATION
(`List.Perm`) of those columns of the original result with the two coordinates exchanged row by row.
(Not an equality of lists: `exOrd_orders_differ`.) -/
theorem locateNoPre_transpose_coords (P : Params) (hP : P.preprocess = false) (H W : Nat)
    (raw rawT : Array Nat) (hT : IsTranspose ⟨[H, W], raw⟩ ⟨[W, H], rawT⟩ H W)
    (hsz : rawT.size = raw.size) (ry rx : Nat) (hrad : P.radius = [ry, rx])
    (L : List Measure) (hL : locateModel P [H, W] raw = some L) :
    ∃ LT, locateModel (transParams P) [W, H] rawT = some LT ∧
      (LT.map coordCols).Perm (L.map coordColsT) := by
  obtain ⟨LT, hLT, L', hperm, hrows⟩ := locateNoPre_transpose' P hP H W raw rawT hT hsz ry rx hrad L hL
  refine ⟨LT, hLT, (hperm.map coordCols).symm.trans (List.Perm.of_eq ?_)⟩
  clear hperm hLT hL
  induction hrows with
  | nil => rfl
  | cons h _ ih =>
    obtain ⟨hc, hp, hm, hs, hr, _⟩ := h
    simp only [List.map_cons, ih, coordCols, coordColsT, hc, hp, hm, hs, hr]

/-! ### the two `np.where` orders really differ -/

/-- `locate(…, preprocess=False)`: separation 2, percentile 0, radius 1, NO margin (so that a 3×4
image has room for two maxima in different rows and columns) -/
def exOrdP : Params := { exPT with margin := [0, 0] }

/-- a 3×4 image with two maxima: 9 at `(0,3)` (first in row-major order) and 8 at `(2,0)` -/
def exOrd : Find.Image := ⟨[3, 4], #[0,0,0,9, 0,1,0,0, 8,0,0,0]⟩

/-- the same with the margin `locate` really uses (= radius): 4×5, maxima 9 at `(1,3)`, 8 at `(2,1)` -/
def exOrd' : Find.Image := ⟨[4, 5], #[0,0,0,0,0, 0,0,0,9,0, 0,8,0,0,0, 0,0,1,0,0]⟩

theorem exOrd_isTranspose : IsTranspose ⟨[3, 4], exOrd.data⟩ ⟨[4, 3], (revImg exOrd).data⟩ 3 4 :=
  isTransposeB_sound exOrd (revImg exOrd) 3 4 (by decide +kernel)

/-- **exOrd_orders_differ.**  On the 3×4 image the rows come in the order (0,3), (2,0) (masses 9, 8);
on its transpose in the order (0,2), (3,0) (masses 8, 9): the row-wise transposed original result
`[(3,0), (0,2)]` is the transposed result REVERSED — a permutation of it, not equal to it.  So the
`List.Perm` of `locateNoPre_transpose` / `locateNoPre_transpose_coords` cannot be sharpened to an
equality of lists. -/
theorem exOrd_orders_differ :
    (locateModel exOrdP [3, 4] exOrd.data).map (List.map fun m => (m.centre, m.mass))
      = some [([0, 3], 9), ([2, 0], 8)] ∧
    (locateModel (transParams exOrdP) [4, 3] (revImg exOrd).data).map
        (List.map fun m => (m.centre, m.mass))
      = some [([0, 2], 8), ([3, 0], 9)] ∧
    (locateModel exOrdP [3, 4] exOrd.data).map (List.map fun m => (swapI m.centre, m.mass))
      = some [([3, 0], 9), ([0, 2], 8)] ∧
    [(([0, 2] : List Int), (8 : Rat)), ([3, 0], 9)] ≠ [([3, 0], 9), ([0, 2], 8)] ∧
    [(([0, 2] : List Int), (8 : Rat)), ([3, 0], 9)].Perm [([3, 0], 9), ([0, 2], 8)] := by
  refine ⟨by decide +kernel, by decide +kernel, by decide +kernel, by decide, ?_⟩
  exact List.Perm.swap _ _ _

/-- the same with margin 1 on the 4×5 image: (1,3), (2,1) against (1,2), (3,1) -/
example :
    (locateModel exPT [4, 5] exOrd'.data).map (List.map fun m => (swapI m.centre, m.mass))
      = some [([3, 1], 9), ([1, 2], 8)] ∧
    (locateModel (transParams exPT) [5, 4] (revImg exOrd').data).map
        (List.map fun m => (m.centre, m.mass))
      = some [([1, 2], 8), ([3, 1], 9)] := by
  constructor <;> decide +kernel

/-- non-vacuity of `locateNoPre_transpose'` / `locateNoPre_transpose_coords` /
`locateNoPre_answers_transpose` on that pair: every hypothesis holds (the model answers on the
original by the evaluation above; nothing is assumed about the transposed image) -/
example : ∃ LT, locateModel (transParams exOrdP) [4, 3] (revImg exOrd).data = some LT ∧
    (LT.map coordCols).Perm
      (((locateModel exOrdP [3, 4] exOrd.data).getD []).map coordColsT) := by
  cases hL : locateModel exOrdP [3, 4] exOrd.data with
  | none =>
    have h := (locateNoPre_answers_iff exOrdP rfl [3, 4] exOrd.data).mpr (by decide +kernel)
    rw [hL] at h
    obtain ⟨_, h⟩ := h
    cases h
  | some L =>
    exact locateNoPre_transpose_coords exOrdP rfl 3 4 _ _ exOrd_isTranspose
      (by simp [revImg, exOrd, allIdx_length]) 1 1 rfl L hL

end answers

/-! ## the shift theorems carry no answer-hypothesis -/

section shiftAnswers
open Bandpass

/-- **locateNoPre_shift_answers.**  Under the hypotheses of `locateNoPre_shift` (which is an equation
between `Option`s: refusal included) the model answers on the second canvas iff on the first. -/
theorem locateNoPre_shift_answers (P : Params) (hP : P.preprocess = false) (content : Find.Image)
    (cv₁ cv₂ off₁ off₂ : List Nat) (raw₁ raw₂ : Array Nat)
    (h₁ : IsEmbed content off₁ ⟨cv₁, raw₁⟩) (h₂ : IsEmbed content off₂ ⟨cv₂, raw₂⟩)
    (hs₁ : raw₁.size = cv₁.prod) (hs₂ : raw₂.size = cv₂.prod) (hpct : 0 ≤ P.pct)
    (hm₁ : padOK cv₁ off₁ content.shape P.margin = true)
    (hm₂ : padOK cv₂ off₂ content.shape P.margin = true)
    (hc₁ : padOK cv₁ off₁ content.shape (P.radius.map (· + fuelOf P.maxIter)) = true)
    (hc₂ : padOK cv₂ off₂ content.shape (P.radius.map (· + fuelOf P.maxIter)) = true) :
    (∃ L₂, locateModel P cv₂ raw₂ = some L₂) ↔ (∃ L₁, locateModel P cv₁ raw₁ = some L₁) := by
  rw [locateNoPre_shift P hP content cv₁ cv₂ off₁ off₂ raw₁ raw₂ h₁ h₂ hs₁ hs₂ hpct hm₁ hm₂ hc₁ hc₂]
  cases locateModel P cv₁ raw₁ <;> simp

/-- **locateModel_shift_answers.**  The same for the whole pipeline, 2-D, `preprocess` on or off
(hypotheses of `locateModel_shift`). -/
theorem locateModel_shift_answers (P : Params) (content : Find.Image) (h w : Nat)
    (hsh : content.shape = [h, w]) (H₁ W₁ H₂ W₂ oy₁ ox₁ oy₂ ox₂ : Nat) (raw₁ raw₂ : Array Nat)
    (h₁ : IsEmbed content [oy₁, ox₁] ⟨[H₁, W₁], raw₁⟩) (h₂ : IsEmbed content [oy₂, ox₂] ⟨[H₂, W₂], raw₂⟩)
    (hs₁ : raw₁.size = H₁ * W₁) (hs₂ : raw₂.size = H₂ * W₂)
    (s0 s1 : Rat) (k0 k1 : Array Rat) (l0 l1 : Int)
    (hpar : P.preprocess = true → P.lshort = [s0, s1] ∧ P.kernels = [k0, k1] ∧ P.llong = [l0, l1])
    (hpct : 0 ≤ P.pct) (hy hx : Nat)
    (hhy : hy = if P.preprocess then halo s0 k0 l0 else 0)
    (hhx : hx = if P.preprocess then halo s1 k1 l1 else 0)
    (hh₁ : padOK [H₁, W₁] [oy₁, ox₁] [h, w] [hy, hx] = true)
    (hh₂ : padOK [H₂, W₂] [oy₂, ox₂] [h, w] [hy, hx] = true)
    (hm₁ : padOK [H₁, W₁] [oy₁ - hy, ox₁ - hx] [h + 2 * hy, w + 2 * hx] P.margin = true)
    (hm₂ : padOK [H₂, W₂] [oy₂ - hy, ox₂ - hx] [h + 2 * hy, w + 2 * hx] P.margin = true)
    (hc₁ : padOK [H₁, W₁] [oy₁ - hy, ox₁ - hx] [h + 2 * hy, w + 2 * hx]
      (P.radius.map (· + fuelOf P.maxIter)) = true)
    (hc₂ : padOK [H₂, W₂] [oy₂ - hy, ox₂ - hx] [h + 2 * hy, w + 2 * hx]
      (P.radius.map (· + fuelOf P.maxIter)) = true) :
    (∃ L₂, locateModel P [H₂, W₂] raw₂ = some L₂) ↔ (∃ L₁, locateModel P [H₁, W₁] raw₁ = some L₁) := by
  rw [locateModel_shift P content h w hsh H₁ W₁ H₂ W₂ oy₁ ox₁ oy₂ ox₂ raw₁ raw₂ h₁ h₂ hs₁ hs₂
    s0 s1 k0 k1 l0 l1 hpar hpct hy hx hhy hhx hh₁ hh₂ hm₁ hm₂ hc₁ hc₂]
  cases locateModel P [H₁, W₁] raw₁ <;> simp

end shiftAnswers

end TrackpyV.C09
