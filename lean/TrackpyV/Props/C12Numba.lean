import TrackpyV.Model.AdaptiveNumba
import TrackpyV.Props.C12Plain
/-!
# C12 — the numba linker's candidate cap inside the adaptive recursion

`Model/AdaptiveNumba.planN a B mode` is `Adaptive.plan` with the "solve it as it is" test
strengthened by the cap of `numba_link` (a source with ≥ 9 real candidates raises
SubnetOversizeException, which `adaptive_link_wrap` treats like an oversize group);
`mode = 0` recursive / nonrecursive, `1` numba, `2` hybrid.

* `planN_zero`, `stepCheckAN_zero` : mode 0 is exactly `plan` / `stepCheckA` (without the numba
  flag) — every C12 theorem about `plan` is the `mode = 0` instance of its analogue here.
* `planN_small`       : a group that fits (size and candidate cap) is solved as it is.
* `planN_in_force`, `planN_in_force'` (**no link longer than the range in force**),
  `planN_k_ge` (ranges only shrink),
* `planN_groups_fit`  : every finally solved group passes the size test AND the candidate cap of
  the linker in use (or is a shortcut case) — so the sub-linker never raises on it,
* `planN_partition`   : the finally solved groups partition the destinations of the sub-net and
  are well-formed,
* `planN_none_iff`    (**raises exactly when a group that still does not fit has reached
  adaptive_stop**), with `StuckN`,
* `stepCheckAN_ok`    : what an accepted step guarantees (as `stepCheckA_ok`),
* `numbaOver_hybrid_imp`, `numbaOver_of_few_dsts` : hybrid applies the cap to fewer groups than
  numba; the cap never applies to a well-formed group with at most 8 destinations.
-/
namespace TrackpyV.Adaptive
open TrackpyV.Assign TrackpyV.Linker

/-! ### mode 0 is the cap-free model -/

theorem fitsN_zero (a : ACfg) (n : Net) :
    fitsN a 0 n = (shortcut n || decide (n.srcs.length ≤ a.maxSizeA)) := by
  simp [fitsN, numbaOver]

/-- **`planN 0 = plan`** -/
theorem planN_zero (a : ACfg) (B fuel k : Nat) (n : Net) :
    planN a B 0 fuel k n = plan a B fuel k n := by
  induction fuel generalizing k n with
  | zero => simp [planN, plan]
  | succ fuel ih =>
    simp only [planN, plan, fitsN_zero]
    have : (split a B (k + 1) n).map (planN a B 0 fuel (k + 1)) =
        (split a B (k + 1) n).map (plan a B fuel (k + 1)) :=
      List.map_congr_left (fun m _ => ih (k + 1) m)
    rw [this]

/-- the monitor of mode 0 is `stepCheckA` (for configurations without the blanket numba flag) -/
theorem stepCheckAN_zero (a : ACfg) (cfg : Cfg) (hnc : cfg.numbaCap = false) (st : State) (t : Int)
    (dsts : List Pos) (labels? : Option (List Nat)) :
    stepCheckAN a cfg 0 st t dsts labels? = stepCheckA a cfg st t dsts labels? := by
  unfold stepCheckAN stepCheckA
  simp only [hnc, Bool.false_and, Bool.or_false, planN_zero]
  rfl

/-! ### the cap -/

/-- hybrid applies the candidate cap to fewer groups than numba -/
theorem numbaOver_hybrid_imp (n : Net) (h : numbaOver 2 n = true) : numbaOver 1 n = true := by
  simp only [numbaOver, Bool.and_eq_true] at h ⊢
  exact h.2

theorem realDests_length (cs : List Cand) (h : ∀ c ∈ cs, c.1.isSome) :
    (realDests cs).length = cs.length := by
  induction cs with
  | nil => rfl
  | cons c cs ih =>
    obtain ⟨d, w⟩ := c
    cases d with
    | none => have := h (none, w) (List.mem_cons_self ..); simp at this
    | some j =>
      simp only [realDests, List.filterMap_cons, List.length_cons] at ih ⊢
      rw [ih (fun c hc => h c (List.mem_cons_of_mem _ hc))]

theorem nodup_subset_length_le (l m : List Nat) (hn : l.Nodup) (hs : ∀ x ∈ l, x ∈ m) :
    l.length ≤ m.length := by
  induction l generalizing m with
  | nil => simp
  | cons x xs ih =>
    rw [List.nodup_cons] at hn
    have hx : x ∈ m := hs x (List.mem_cons_self ..)
    have := ih (m.erase x) hn.2 (fun y hy => by
      have hne : y ≠ x := fun h => hn.1 (h ▸ hy)
      exact (List.mem_erase_of_ne hne).mpr (hs y (List.mem_cons_of_mem _ hy)))
    rw [List.length_erase_of_mem hx] at this
    have hpos : 0 < m.length := List.length_pos_of_mem hx
    simp only [List.length_cons]
    omega

/-- a group whose sources list distinct real candidates inside the group and that has at most 8
destinations is never beyond the candidate cap -/
theorem numbaOver_of_few_dsts (mode : Nat) (n : Net)
    (hreal : ∀ s ∈ n.srcs, (∀ c ∈ s.2, c.1.isSome) ∧ (realDests s.2).Nodup)
    (hclosed : ∀ s ∈ n.srcs, ∀ d ∈ realDests s.2, d ∈ n.dsts) (hd : n.dsts.length ≤ 8) :
    numbaOver mode n = false := by
  have hm : manyCands n = false := by
    simp only [manyCands, List.any_eq_false, decide_eq_true_eq, Nat.not_le, ge_iff_le]
    intro s hs
    obtain ⟨h1, h2⟩ := hreal s hs
    have := nodup_subset_length_le _ n.dsts h2 (fun d hd' => hclosed s hs d hd')
    rw [realDests_length s.2 h1] at this
    omega
  unfold numbaOver
  split <;> simp [hm]

/-! ### the groups finally solved -/

/-- a group that fits is solved as it is -/
theorem planN_small (a : ACfg) (B mode fuel k : Nat) (n : Net) (h : fitsN a mode n = true) :
    planN a B mode (fuel + 1) k n = some [{ net := n, k := k }] := by
  simp [planN, h]

/-- every final group either is the net itself (no reduction) or went through more reductions and
has all its candidates within the range then in force -/
theorem planN_in_force (a : ACfg) (B mode fuel k : Nat) (n : Net) (fs : List Final)
    (h : planN a B mode fuel k n = some fs) :
    ∀ f ∈ fs, (f.k = k ∧ f.net = n) ∨ (k < f.k ∧ NetInForce a B f.k f.net) := by
  induction fuel generalizing k n fs with
  | zero => simp [planN] at h
  | succ fuel ih =>
    simp only [planN] at h
    split at h
    · cases h
      intro f hf
      simp only [List.mem_singleton] at hf
      subst hf
      exact Or.inl ⟨rfl, rfl⟩
    · split at h
      · cases h
      · simp only [Option.map_eq_some_iff] at h
        obtain ⟨rs, hrs, rfl⟩ := h
        have hmap := allSome_eq_some _ _ hrs
        intro f hf
        simp only [List.mem_flatten] at hf
        obtain ⟨gs, hgs, hfg⟩ := hf
        have : some gs ∈ (split a B (k + 1) n).map (planN a B mode fuel (k + 1)) := by
          rw [hmap]; exact List.mem_map.mpr ⟨gs, hgs, rfl⟩
        simp only [List.mem_map] at this
        obtain ⟨sub, hsub, hplan⟩ := this
        rcases ih (k + 1) sub gs hplan f hfg with ⟨hk, hn⟩ | ⟨hk, hin⟩
        · right
          refine ⟨by omega, ?_⟩
          rw [hk, hn]
          exact split_inForce a B (k + 1) n sub hsub
        · right
          exact ⟨by omega, hin⟩

theorem planN_k_ge (a : ACfg) (B mode fuel k : Nat) (n : Net) (fs : List Final)
    (h : planN a B mode fuel k n = some fs) : ∀ f ∈ fs, k ≤ f.k := by
  intro f hf
  rcases planN_in_force a B mode fuel k n fs h f hf with ⟨hk, _⟩ | ⟨hk, _⟩ <;> omega

/-- **No link longer than the range in force**, whatever made the group shrink (size limit or
candidate cap) -/
theorem planN_in_force' (a : ACfg) (B mode fuel : Nat) (n : Net) (fs : List Final)
    (h : planN a B mode fuel 0 n = some fs) (f : Final) (hf : f ∈ fs) (hk : 0 < f.k) :
    NetInForce a B f.k f.net := by
  rcases planN_in_force a B mode fuel 0 n fs h f hf with ⟨h0, _⟩ | ⟨_, hin⟩
  · omega
  · exact hin

/-- every finally solved group fits: shortcut case, or within the size limit and not beyond the
candidate cap of the linker in use — the sub-linker does not raise on it -/
theorem planN_groups_fit (a : ACfg) (B mode fuel k : Nat) (n : Net) (fs : List Final)
    (h : planN a B mode fuel k n = some fs) :
    ∀ f ∈ fs, shortcut f.net = true ∨
      (f.net.srcs.length ≤ a.maxSizeA ∧ numbaOver mode f.net = false) := by
  induction fuel generalizing k n fs with
  | zero => simp [planN] at h
  | succ fuel ih =>
    simp only [planN] at h
    split at h
    · rename_i hc
      cases h
      intro f hf
      simp only [List.mem_singleton] at hf
      subst hf
      simpa [fitsN] using hc
    · split at h
      · cases h
      · simp only [Option.map_eq_some_iff] at h
        obtain ⟨rs, hrs, rfl⟩ := h
        have hmap := allSome_eq_some _ _ hrs
        intro f hf
        simp only [List.mem_flatten] at hf
        obtain ⟨gs, hgs, hfg⟩ := hf
        have : some gs ∈ (split a B (k + 1) n).map (planN a B mode fuel (k + 1)) := by
          rw [hmap]; exact List.mem_map.mpr ⟨gs, hgs, rfl⟩
        simp only [List.mem_map] at this
        obtain ⟨sub, _, hplan⟩ := this
        exact ih (k + 1) sub gs hplan f hfg

/-- **The groups finally handed to the sub-linker partition the destinations of the sub-net they
came from, and each of them is well-formed.** -/
theorem planN_partition (a : ACfg) (B mode : Nat) (fuel k : Nat) (n : Net) (fs : List Final)
    (hwf : NetWF n) (h : planN a B mode fuel k n = some fs) :
    (fs.flatMap (·.net.dsts)).Perm n.dsts ∧ ∀ f ∈ fs, NetWF f.net := by
  induction fuel generalizing k n fs with
  | zero => simp [planN] at h
  | succ fuel ih =>
    simp only [planN] at h
    split at h
    · cases h
      refine ⟨by simp, ?_⟩
      intro f hf
      simp only [List.mem_singleton] at hf
      subst hf; exact hwf
    · split at h
      · cases h
      · simp only [Option.map_eq_some_iff] at h
        obtain ⟨rs, hrs, rfl⟩ := h
        have hmap := allSome_eq_some _ _ hrs
        have hsubwf := split_wf a B (k + 1) n hwf
        refine ⟨?_, ?_⟩
        · refine List.Perm.trans ?_ (split_dsts_perm a B (k + 1) n hwf)
          apply flatten_dsts_perm (planN a B mode fuel (k + 1)) _ _ hmap
          intro sub hsub fs' hfs'
          exact (ih (k + 1) sub fs' (hsubwf sub hsub) hfs').1
        · intro f hf
          simp only [List.mem_flatten] at hf
          obtain ⟨gs, hgs, hfg⟩ := hf
          have : some gs ∈ (split a B (k + 1) n).map (planN a B mode fuel (k + 1)) := by
            rw [hmap]; exact List.mem_map.mpr ⟨gs, hgs, rfl⟩
          simp only [List.mem_map] at this
          obtain ⟨sub, hsub, hplan⟩ := this
          exact (ih (k + 1) sub gs (hsubwf sub hsub) hplan).2 f hfg

/-! ### the raise condition -/

/-- with `f` further reductions available: the group does not fit and either has reached
`adaptive_stop`, or one of its sub-groups after the next reduction is stuck in the same way -/
def StuckN (a : ACfg) (B mode : Nat) : Nat → Nat → Net → Prop
  | 0, k, n => fitsN a mode n = false ∧ atStop a k = true
  | f + 1, k, n => fitsN a mode n = false ∧
      (atStop a k = true ∨ ∃ sub ∈ split a B (k + 1) n, StuckN a B mode f (k + 1) sub)

/-- **The raise condition** with the candidate cap: provided the fuel covers the reductions that
are possible before `adaptive_stop`, the call raises exactly when a group that still does not fit
(too many sources, or — numba / hybrid — a source with too many candidates) has reached a range at
or below `adaptive_stop` somewhere in the recursion. -/
theorem planN_none_iff (a : ACfg) (B mode f k : Nat) (n : Net)
    (hfuel : atStop a (k + f) = true) :
    planN a B mode (f + 1) k n = none ↔ StuckN a B mode f k n := by
  induction f generalizing k n with
  | zero =>
    simp only [planN, StuckN]
    have hs : atStop a k = true := by simpa using hfuel
    by_cases hc : fitsN a mode n = true
    · simp [hc]
    · have hc' : fitsN a mode n = false := by simpa using hc
      simp [hc', hs]
  | succ f ih =>
    rw [planN]
    simp only [StuckN]
    by_cases hc : fitsN a mode n = true
    · simp [hc]
    · have hc' : fitsN a mode n = false := by simpa using hc
      simp only [hc', Bool.false_eq_true, if_false, true_and]
      by_cases hs : atStop a k = true
      · simp [hs]
      · simp only [hs, Bool.false_eq_true, if_false, false_or]
        have hfuel' : atStop a (k + 1 + f) = true := by
          have : k + (f + 1) = k + 1 + f := by omega
          rw [← this]; exact hfuel
        constructor
        · intro h
          have : allSome ((split a B (k + 1) n).map (planN a B mode (f + 1) (k + 1))) = none := by
            cases hh : allSome ((split a B (k + 1) n).map (planN a B mode (f + 1) (k + 1))) with
            | none => rfl
            | some r => rw [hh] at h; simp at h
          rw [allSome_eq_none] at this
          simp only [List.mem_map] at this
          obtain ⟨sub, hsub, hplan⟩ := this
          exact ⟨sub, hsub, (ih (k + 1) sub hfuel').mp hplan⟩
        · rintro ⟨sub, hsub, hst⟩
          have hplan := (ih (k + 1) sub hfuel').mpr hst
          have : allSome ((split a B (k + 1) n).map (planN a B mode (f + 1) (k + 1))) = none := by
            rw [allSome_eq_none]
            exact List.mem_map.mpr ⟨sub, hsub, hplan⟩
          rw [this]; rfl

/-! ### what an accepted step guarantees -/

/-- An accepted step of the `mode` monitor: the labels are valid in the sense of C01, no group is
stuck at `adaptive_stop`, every finally solved group passes the optimality test and every source
that ended up in no group stays unlinked. -/
theorem stepCheckAN_ok {a : ACfg} {cfg : Cfg} {mode : Nat} {st : State} {t : Int} {dsts : List Pos}
    {labels : List Nat} {st' : State} {r f : Nat}
    (h : stepCheckAN a cfg mode st t dsts (some labels) = .ok st' r f false) :
    validWhy cfg st t dsts labels = none ∧ st' = nextState cfg st t dsts labels ∧
    ∀ n ∈ stepNets cfg st t dsts, ∃ fs, planN a cfg.B mode 64 0 n = some fs ∧
      (∀ g ∈ fs, finalOkB a cfg st labels g = true) ∧ orphansOkB st labels n fs = true := by
  unfold stepCheckAN at h
  simp only at h
  split at h
  · split at h
    · cases h
    · cases h
  · split at h
    · cases h
    · split at h
      · cases h
      · rename_i hv
        split at h
        · cases h
        · rename_i hok
          cases h
          refine ⟨hv, rfl, ?_⟩
          intro n hn
          simp only [Bool.not_eq_eq_eq_not, Bool.not_true] at hok
          have hall : ((stepNets cfg st t dsts).map (fun n => (n, planN a cfg.B mode 64 0 n))).all
              (fun x => match x.2 with
                | none => false
                | some fs => fs.all (finalOkB a cfg st labels) && orphansOkB st labels x.1 fs) = true := by
            revert hok; cases List.all _ _ <;> simp
          simp only [List.all_eq_true, List.mem_map] at hall
          have := hall (n, planN a cfg.B mode 64 0 n) ⟨n, hn, rfl⟩
          simp only at this
          cases hp : planN a cfg.B mode 64 0 n with
          | none => rw [hp] at this; cases this
          | some fs =>
            rw [hp] at this
            simp only [Bool.and_eq_true, List.all_eq_true] at this
            exact ⟨fs, rfl, this.1, this.2⟩

/-- every group the accepted step solved is within the size limit and the candidate cap, its links
are within the range in force, and the groups partition the destinations of their sub-net -/
theorem stepCheckAN_groups {a : ACfg} {cfg : Cfg} {mode : Nat} {st : State} {t : Int}
    {dsts : List Pos} {labels : List Nat} {st' : State} {r f : Nat}
    (h : stepCheckAN a cfg mode st t dsts (some labels) = .ok st' r f false) :
    ∀ n ∈ stepNets cfg st t dsts, ∃ fs, planN a cfg.B mode 64 0 n = some fs ∧
      (fs.flatMap (·.net.dsts)).Perm n.dsts ∧
      ∀ g ∈ fs, (shortcut g.net = true ∨
          (g.net.srcs.length ≤ a.maxSizeA ∧ numbaOver mode g.net = false)) ∧
        (0 < g.k → NetInForce a cfg.B g.k g.net) := by
  intro n hn
  obtain ⟨_, _, hall⟩ := stepCheckAN_ok h
  obtain ⟨fs, hfs, _, _⟩ := hall n hn
  refine ⟨fs, hfs, (planN_partition a cfg.B mode 64 0 n fs (stepNets_wf cfg st t dsts n hn) hfs).1, ?_⟩
  intro g hg
  exact ⟨planN_groups_fit a cfg.B mode 64 0 n fs hfs g hg,
    planN_in_force' a cfg.B mode 64 n fs hfs g hg⟩

/-! ### non-vacuity (tests, labelled as such) -/

/-- one source with 9 candidates at costs 1..9 (range² = 16), 9 destinations; size limit 4 -/
def exNet9 : Net :=
  { srcs := [(0, (List.range 9).map (fun j => ((some j, j + 1) : Cand)))], dsts := List.range 9 }

def exA4 : ACfg := { p := 1, q := 2, stopNum := 1, stopDen := 64, maxSizeA := 4 }

/-- the candidate cap applies under numba, not under hybrid (a single source: recursive shortcut),
not under recursive -/
example : numbaOver 1 exNet9 = true ∧ numbaOver 2 exNet9 = false ∧ numbaOver 0 exNet9 = false := by
  decide

/-- recursive and hybrid solve the group as it is; numba reduces the range once (16 → 4: the
candidates of cost ≤ 4 survive) although the group has a single source -/
example : (planN exA4 16 0 8 0 exNet9).map (fun fs => fs.map (fun f => (f.k, f.net.srcs.map (fun s => s.2.length)))) =
      some [(0, [9])] ∧
    (planN exA4 16 2 8 0 exNet9).map (fun fs => fs.map (fun f => (f.k, f.net.srcs.map (fun s => s.2.length)))) =
      some [(0, [9])] := by
  constructor <;> simp [planN, fitsN, numbaOver, manyCands, shortcut, exNet9, exA4]

example : ((planN exA4 16 1 8 0 exNet9).map
    (fun fs => (fs.filter (fun f => !f.net.srcs.isEmpty)).map (fun f => (f.k, f.net.srcs.map (fun s => s.2.length))))) =
    some [(1, [4])] := by
  simp [planN, fitsN, numbaOver, manyCands, shortcut, exNet9, exA4, atStop, split, prune, inForce,
    addSource, hasDest, realDests, allSome, List.range, List.range.loop]

/-- `StuckN` is satisfiable: with `adaptive_stop` = the full range numba raises at once -/
example : planN { exA4 with stopNum := 1, stopDen := 1 } 16 1 1 0 exNet9 = none := by
  simp [planN, fitsN, numbaOver, manyCands, shortcut, exNet9, exA4, atStop]

end TrackpyV.Adaptive
