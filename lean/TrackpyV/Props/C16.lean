import TrackpyV.Model.LeastsqCtl
namespace TrackpyV.Bounds
end TrackpyV.Bounds
