import TrackpyV.Proofs.Bounds
/-!
# C16 — refine_leastsq honours bounds and survives failed fits  (PARTIAL, gaps named below)

Theorems about `Model/Bounds.lean` (mirror of `FitFunctions.validate_bounds / compute_bounds`,
packing) and `Model/LeastsqCtl.lean` (mirror of the main loop of `refine_leastsq`), exact
arithmetic over `Rat`, for ALL bounds dictionaries, start values, mode vectors, groupings, numbers
of features / clusters, and for EVERY optimiser `opt : Problem → OptOut`.

* `bounds_narrowest_low/high` — a value respects the computed bound iff it respects every
  requested one (difference, relative, absolute): "the narrowest bound is taken".
* `bounds_contain_start` — for `d ≥ 0`, `ρ ≥ 1` (with `p ≥ 0`), `abs_lo ≤ p ≤ abs_hi` the start
  value is admissible.
* `default_bounds_positive`, `default_bounds_position`, `direct_key_precedence`,
  `pos_broadcast_used` — defaults and key precedence of `validate_bounds`.
* `packed_low_broadest/high`, `packed_respects_common_low/high` — a shared parameter gets the
  broadest of its members' bounds, hence still every bound all members have in common
  (absolute bounds, positivity).
* `failed_rows_untouched`, `other_rows_unaffected`, `rows_outside_all_clusters_untouched` — what a
  failed fit writes (only `cost := NaN` on its own rows), for every `opt`.
* `never_raises_on_fit_failure` — `refineCtl` returns normally for every `opt` that never
  raises a foreign exception, `max_iter ≥ 1`.
* `success_within_bounds` — ASSUMING the optimiser contract (a reported success lies inside the
  bounds it was given) every value written by a successful fit lies within the bounds computed from
  the start values: per-feature parameters within their own, shared ones within the packed bounds.
* `infeasible_bounds_witness` / `infeasible_bounds_fail` — the defect found on the code as it
  stood (bounds with `lb > ub` reach scipy, which raises `ValueError`) and its repair.

NAMED GAPS (not proved, see obligations/C16.json): SLSQP's contract is an assumption; exceptions
other than RefineException raised inside scipy are `OptOut.raise` here and make the model (and the
code) raise; the accuracy clause ("true centres to < 0.1 px from starts 1.5 px off") is a
convergence statement about a numerical optimiser and is only exercised by the harness.
-/
namespace TrackpyV.Bounds
open List

deriving instance DecidableEq for Except

/-! ## compute_bounds: the narrowest requested bound -/

/-- Clause "the narrowest bound is taken" (lower side): `x` respects the computed lower bound iff
it respects the difference bound `p - d₀`, the relative bound `p / ρ₀` and the absolute bound,
each when given. -/
theorem bounds_narrowest_low (s : Spec) (p x : Rat) :
    GeLow x (lowOf s p) ↔
      (∀ d, s.diff.1 = some d → p - d ≤ x) ∧ (∀ r, s.rel.1 = some r → p / r ≤ x) ∧
      (∀ a, s.abs.1 = some a → a ≤ x) := by
  unfold lowOf
  rw [geLow_omax, geLow_omax]
  cases s.diff.1 <;> cases s.rel.1 <;> cases s.abs.1 <;> simp [GeLow, and_assoc]

/-- Clause "the narrowest bound is taken" (upper side). -/
theorem bounds_narrowest_high (s : Spec) (p x : Rat) :
    LeHigh x (highOf s p) ↔
      (∀ d, s.diff.2 = some d → x ≤ p + d) ∧ (∀ r, s.rel.2 = some r → x ≤ p * r) ∧
      (∀ a, s.abs.2 = some a → x ≤ a) := by
  unfold highOf
  rw [leHigh_omin, leHigh_omin]
  cases s.diff.2 <;> cases s.rel.2 <;> cases s.abs.2 <;> simp [LeHigh, and_assoc]

/-- The start value itself is admissible whenever the requested specs are sensible: difference
bounds non-negative, relative factors ≥ 1 on a non-negative start, absolute window containing it.
(Without these hypotheses it need not be: `x_rel` on a negative start, or an absolute window that
excludes the feature, give `lb > ub` — see `infeasible_bounds_witness`.) -/
theorem bounds_contain_start (s : Spec) (p : Rat)
    (hd0 : ∀ d, s.diff.1 = some d → 0 ≤ d) (hd1 : ∀ d, s.diff.2 = some d → 0 ≤ d)
    (hr0 : ∀ r, s.rel.1 = some r → 1 ≤ r ∧ 0 ≤ p) (hr1 : ∀ r, s.rel.2 = some r → 1 ≤ r ∧ 0 ≤ p)
    (ha0 : ∀ a, s.abs.1 = some a → a ≤ p) (ha1 : ∀ a, s.abs.2 = some a → p ≤ a) :
    inB p (lowOf s p, highOf s p) = true := by
  rw [inB_iff, bounds_narrowest_low, bounds_narrowest_high]
  refine ⟨⟨?_, ?_, ha0⟩, ?_, ?_, ha1⟩
  · intro d h; have := hd0 d h; linarith
  · intro r h
    obtain ⟨h1, h2⟩ := hr0 r h
    exact div_le_self h2 h1
  · intro d h; have := hd1 d h; linarith
  · intro r h
    obtain ⟨h1, h2⟩ := hr1 r h
    exact le_mul_of_one_le_right h2 h1

/-! ## validate_bounds: defaults and precedence -/

/-- Default "signal, size and background positive": when no absolute bound is requested for such
a parameter (neither directly nor, for sizes, through `size`), its absolute spec is `(1e-7, NaN)`,
so every admissible value is ≥ 1e-7 > 0 whatever else was requested. -/
theorem default_bounds_positive (d : Dict) (radius : List Rat) (p : Param)
    (hk : p.kind.positiveByDefault = true) (h1 : lookup d p.name = none)
    (h2 : p.kind = .size → lookup d "size" = none) :
    (specFor d radius p).abs = (some eps, none) ∧
      ∀ v x, GeLow x (lowOf (specFor d radius p) v) → 0 < x := by
  have habs : (specFor d radius p).abs = (some eps, none) := by
    cases hkind : p.kind <;> simp_all [specFor, orBroadcast, Kind.positiveByDefault, Kind.isPos,
      Kind.isSize, pairOf, Val.toPair]
  refine ⟨habs, fun v x hx => ?_⟩
  have := ((bounds_narrowest_low _ v x).mp hx).2.2 eps (by rw [habs])
  have he : (0 : Rat) < eps := by unfold eps; norm_num
  linarith

/-- Default "positions within the mask radius of the start": when no difference bound is requested
for a position column (neither `<col>_abs` nor `pos_abs`), every admissible value is within
`radius[axis]` of the start value. -/
theorem default_bounds_position (d : Dict) (radius : List Rat) (p : Param) (axis : Nat)
    (hk : p.kind = .pos axis) (h1 : lookup d (p.name ++ "_abs") = none)
    (h2 : lookup d "pos_abs" = none) :
    (specFor d radius p).diff = (some (radius.getD axis 0), some (radius.getD axis 0)) ∧
      ∀ v x, inB x (lowOf (specFor d radius p) v, highOf (specFor d radius p) v) = true →
        v - radius.getD axis 0 ≤ x ∧ x ≤ v + radius.getD axis 0 := by
  have hdiff : (specFor d radius p).diff =
      (some (radius.getD axis 0), some (radius.getD axis 0)) := by
    simp [specFor, orBroadcast, hk, h1, h2, Kind.isPos, Kind.isSize, pairOf, Val.toPair]
  refine ⟨hdiff, fun v x hx => ?_⟩
  rw [inB_iff] at hx
  exact ⟨((bounds_narrowest_low _ v x).mp hx.1).1 _ (by rw [hdiff]),
         ((bounds_narrowest_high _ v x).mp hx.2).1 _ (by rw [hdiff])⟩

/-- "direct values have precedence": a key given for the parameter itself is what is used,
whatever `pos*` / `size*` say. -/
theorem direct_key_precedence (d : Dict) (radius : List Rat) (p : Param) :
    (∀ v, lookup d p.name = some v → (specFor d radius p).abs = v.toPair) ∧
    (∀ v, lookup d (p.name ++ "_abs") = some v → (specFor d radius p).diff = v.toPair) ∧
    (∀ v, lookup d (p.name ++ "_rel") = some v → (specFor d radius p).rel = v.toPair) := by
  refine ⟨fun v h => ?_, fun v h => ?_, fun v h => ?_⟩ <;>
    cases hkind : p.kind <;> simp [specFor, orBroadcast, h, pairOf]

/-- "`pos` is distributed to all pos_columns" when the column has no key of its own. -/
theorem pos_broadcast_used (d : Dict) (radius : List Rat) (p : Param) (axis : Nat)
    (hk : p.kind = .pos axis) :
    (lookup d p.name = none → (specFor d radius p).abs = pairOf (lookup d "pos")) ∧
    (lookup d (p.name ++ "_rel") = none → (specFor d radius p).rel = pairOf (lookup d "pos_rel")) ∧
    (∀ v, lookup d (p.name ++ "_abs") = none → lookup d "pos_abs" = some v →
        (specFor d radius p).diff = v.toPair) := by
  refine ⟨fun h => ?_, fun h => ?_, fun v h h' => ?_⟩
  · cases hl : lookup d "pos" <;>
      simp [specFor, orBroadcast, hk, h, hl, Kind.isPos, Kind.isSize, Kind.positiveByDefault, pairOf]
  · cases hl : lookup d "pos_rel" <;>
      simp [specFor, orBroadcast, hk, h, hl, Kind.isPos, Kind.isSize, pairOf]
  · simp [specFor, orBroadcast, hk, h, h', Kind.isPos, Kind.isSize, pairOf]

/-! ## shared parameters: packed "as broad as possible" -/

/-- a value respects the packed lower bound of a shared parameter iff it respects the lower bound
of at least one member (min of the lows; a member without lower bound removes it) -/
theorem packed_low_broadest (x : Rat) (ls : List B) (h : ls ≠ []) :
    GeLow x (minLow ls) ↔ ∃ l ∈ ls, GeLow x l := geLow_minLow x ls h

theorem packed_high_broadest (x : Rat) (hs : List B) (h : hs ≠ []) :
    LeHigh x (maxHigh hs) ↔ ∃ u ∈ hs, LeHigh x u := leHigh_maxHigh x hs h

/-- hence a shared parameter still respects every lower bound that ALL its members have in common
— in particular absolute bounds and the default positivity, which do not depend on the start. -/
theorem packed_respects_common_low (x a : Rat) (ls : List B) (h : ls ≠ [])
    (hall : ∀ l ∈ ls, ∃ v, l = some v ∧ a ≤ v) (hx : GeLow x (minLow ls)) : a ≤ x := by
  obtain ⟨l, hl, hg⟩ := (geLow_minLow x ls h).mp hx
  obtain ⟨v, rfl, hv⟩ := hall l hl
  exact le_trans hv (hg v rfl)

theorem packed_respects_common_high (x a : Rat) (hs : List B) (h : hs ≠ [])
    (hall : ∀ u ∈ hs, ∃ v, u = some v ∧ v ≤ a) (hx : LeHigh x (maxHigh hs)) : x ≤ a := by
  obtain ⟨u, hu, hg⟩ := (leHigh_maxHigh x hs h).mp hx
  obtain ⟨v, rfl, hv⟩ := hall u hu
  exact le_trans (hg v rfl) hv

/-! ## failed fits -/

/-- Clause "the affected features keep their input values and get cost NaN", for EVERY optimiser:
when the fit of a cluster fails, the parameter columns of the table are returned unchanged (all
rows), the rows of the cluster get `cost = NaN`, and the cost of every other row is unchanged. -/
theorem failed_rows_untouched (cfg : Cfg) (opt : Problem → OptOut) (t t' : Table) (tag : Nat)
    (idx : List Nat)
    (hfail : fitBlock cfg opt none [List.range idx.length] tag idx.length (extract t idx)
              = .ok .failed)
    (hstep : stepCluster cfg opt t tag idx = .ok t') :
    t'.cols = t.cols ∧
    (∀ i ∈ idx, i < t.cost.length → t'.cost[i]? = some Cost.nan) ∧
    (∀ i, i ∉ idx → t'.cost[i]? = t.cost[i]?) := by
  unfold stepCluster at hstep
  rw [hfail] at hstep
  simp only [Except.ok.injEq] at hstep
  subst hstep
  refine ⟨rfl, fun i hi hlt => ?_, fun i hi => ?_⟩
  · exact scatter_const_getElem?_of_mem Cost.nan t.cost idx i hi hlt
  · exact scatter_getElem?_of_not_mem _ _ _ _ hi

/-- the same at the 'global' level: a failed global fit changes no parameter and sets the cost of
ALL rows to NaN (`f['cost'] = np.nan`) -/
theorem failed_global_untouched (cfg : Cfg) (opt : Problem → OptOut) (t t' : Table)
    (clusters : List (List Nat))
    (hfail : fitBlock cfg opt (some clusters) clusters 0 (List.range t.cost.length).length
              (extract t (List.range t.cost.length)) = .ok .failed)
    (hstep : refineGlobal cfg opt t clusters = .ok t') :
    t'.cols = t.cols ∧ ∀ i, i < t.cost.length → t'.cost[i]? = some Cost.nan := by
  unfold refineGlobal at hstep
  simp only at hstep
  rw [hfail] at hstep
  simp only [Except.ok.injEq] at hstep
  subst hstep
  exact ⟨rfl, fun i hlt =>
    scatter_const_getElem?_of_mem Cost.nan t.cost _ i (List.mem_range.mpr hlt) hlt⟩

/-- Whatever happens to a cluster (failure or success, any optimiser), the rows outside it are
not touched: every parameter cell and the cost of a row `i ∉ idx` are what they were. -/
theorem other_rows_unaffected (t : Table) (idx : List Nat) (o : Outcome) (i : Nat) (hi : i ∉ idx) :
    (writeBack t idx o).cost[i]? = t.cost[i]? ∧
    ∀ (j : Nat) (c' : List (Option Rat)), (writeBack t idx o).cols[j]? = some c' →
      ∃ c, t.cols[j]? = some c ∧ c'[i]? = c[i]? := by
  cases o with
  | failed =>
    refine ⟨scatter_getElem?_of_not_mem _ _ _ _ hi, fun j c' h => ⟨c', h, rfl⟩⟩
  | fitted block dev =>
    refine ⟨scatter_getElem?_of_not_mem _ _ _ _ hi, fun j c' h => ?_⟩
    simp only [writeBack, List.getElem?_zipWith] at h
    cases hc : t.cols[j]? with
    | none => simp [hc] at h
    | some c =>
      cases hb : block[j]? with
      | none => simp [hc, hb] at h
      | some b =>
        simp only [hc, hb, Option.map₂_some_some, Option.some.injEq] at h
        subst h
        exact ⟨c, rfl, scatter_getElem?_of_not_mem _ _ _ _ hi⟩

theorem stepCluster_other_rows (cfg : Cfg) (opt : Problem → OptOut) (t t' : Table) (tag : Nat)
    (idx : List Nat) (i : Nat) (hi : i ∉ idx) (hstep : stepCluster cfg opt t tag idx = .ok t') :
    t'.cost[i]? = t.cost[i]? ∧
    ∀ (j : Nat) (c' : List (Option Rat)), t'.cols[j]? = some c' → ∃ c, t.cols[j]? = some c ∧ c'[i]? = c[i]? := by
  unfold stepCluster at hstep
  split at hstep
  · simp at hstep
  · rename_i o _
    simp only [Except.ok.injEq] at hstep
    subst hstep
    exact other_rows_unaffected t idx o i hi

/-- A failing (or succeeding) cluster never disturbs the others: after the WHOLE per-cluster loop a
row that belongs to none of the processed clusters has its input cost and its input value in every
parameter column. -/
theorem rows_outside_all_clusters_untouched (cfg : Cfg) (opt : Problem → OptOut) (i : Nat) :
    ∀ (clusters : List (List Nat)) (t t' : Table) (tag : Nat),
      (∀ idx ∈ clusters, i ∉ idx) → refineClusters cfg opt t tag clusters = .ok t' →
      t'.cost[i]? = t.cost[i]? ∧
      ∀ (j : Nat) (c' : List (Option Rat)), t'.cols[j]? = some c' → ∃ c, t.cols[j]? = some c ∧ c'[i]? = c[i]?
  | [], t, t', _, _, h => by
    simp only [refineClusters, Except.ok.injEq] at h
    subst h
    exact ⟨rfl, fun _ c' hc => ⟨c', hc, rfl⟩⟩
  | idx :: rest, t, t', tag, hall, h => by
    unfold refineClusters at h
    split at h
    · simp at h
    · rename_i t1 hs
      obtain ⟨a1, a2⟩ := stepCluster_other_rows cfg opt t t1 tag idx i
        (hall idx (by simp)) hs
      obtain ⟨b1, b2⟩ := rows_outside_all_clusters_untouched cfg opt i rest t1 t' (tag + 1)
        (fun idx' h' => hall idx' (by simp [h'])) h
      refine ⟨b1.trans a1, fun j c' hc => ?_⟩
      obtain ⟨c1, hc1, e1⟩ := b2 j c' hc
      obtain ⟨c, hc0, e0⟩ := a2 j c1 hc1
      exact ⟨c, hc0, e1.trans e0⟩

/-! ## never raises because a fit failed -/

theorem refineClusters_ok (cfg : Cfg) (opt : Problem → OptOut) (hopt : ∀ pb, opt pb ≠ .raise)
    (hmax : 0 < cfg.maxIter) :
    ∀ (clusters : List (List Nat)) (t : Table) (tag : Nat),
      ∃ t', refineClusters cfg opt t tag clusters = .ok t'
  | [], t, _ => ⟨t, rfl⟩
  | idx :: rest, t, tag => by
    unfold refineClusters
    obtain ⟨o, ho⟩ := fitBlock_ok cfg opt hopt hmax none [List.range idx.length] tag idx.length
      (extract t idx)
    simp only [stepCluster, ho]
    exact refineClusters_ok cfg opt hopt hmax rest _ (tag + 1)

/-- Clause "refine_leastsq never raises because a fit failed (out-of-image start,
non-convergence, bad deviation)": for EVERY optimiser that reports its failures through
`success = False` or `RefineException` (i.e. never lets a foreign exception escape) and
`max_iter ≥ 1`, the loop returns a table — at cluster and at global level, for every table,
clustering, bounds dictionary (feasible or not, `feasCheck` either way) and start values,
including non-finite ones. -/
theorem never_raises_on_fit_failure (cfg : Cfg) (opt : Problem → OptOut)
    (hopt : ∀ pb, opt pb ≠ .raise) (hmax : 0 < cfg.maxIter) (t : Table)
    (clusters : List (List Nat)) :
    ∃ t', refineCtl cfg opt t clusters = .ok t' := by
  unfold refineCtl
  split
  · unfold refineGlobal
    obtain ⟨o, ho⟩ := fitBlock_ok cfg opt hopt hmax (some clusters) clusters 0
      (List.range t.cost.length).length (extract t (List.range t.cost.length))
    simp only [ho]
    exact ⟨_, rfl⟩
  · exact refineClusters_ok cfg opt hopt hmax clusters t 0

/-! ## successful fits stay within the bounds (under the optimiser's contract) -/

/-- THE ASSUMED CONTRACT of `scipy.optimize.minimize(method='SLSQP', bounds=…)`: a reported success
lies inside the bounds it was given (in particular contains no NaN). -/
def OptContract (opt : Problem → OptOut) : Prop :=
  (∀ pb x dev, opt pb = .ok x dev → Forall₂ Within x pb.bounds) ∧ (∀ pb dev, opt pb ≠ .nanx dev)

theorem finish_fitted (cfg : Cfg) (b blk : List (List (Option Rat))) (dev dev' : Option Rat)
    (h : finish cfg b dev = .fitted blk dev') : blk = b := by
  unfold finish at h
  cases dev with
  | none => simp at h; exact h.1.symm
  | some d =>
    simp only at h
    split at h
    · simp at h
    · simp at h; exact h.1.symm

theorem rounds_success (cfg : Cfg) (opt : Problem → OptOut) (hc : OptContract opt)
    (groups : Option (List (List Nat))) (pgroups : List (List Nat)) (pb : Problem) (n : Nat)
    (block0 : List (List Rat)) (hsm : cfg.specs.length = cfg.modes.length)
    (hb : pb.bounds = computeBounds cfg.specs cfg.modes groups block0) :
    ∀ (fuel k : Nat) (coords block1 : List (List Rat)), Shape block0 block1 →
      ∀ blk dev, rounds cfg opt groups pgroups pb n fuel k coords block1 = .ok (.fitted blk dev) →
      ∃ prev cols', blk = someBlock cols' ∧ Shape block0 prev ∧
        ColsOK groups cfg.modes cfg.specs block0 prev cols'
  | 0, _, _, _, _, _, _, h => by simp [rounds] at h
  | fuel + 1, k, coords, block1, hs, blk, dev, h => by
    unfold rounds at h
    by_cases hp : prepOK cfg pgroups coords
    · simp only [hp, Bool.not_true, Bool.false_eq_true, if_false] at h
      cases ho : opt { pb with round := k, coords := coords } with
      | fail => simp [ho] at h
      | raise => simp [ho] at h
      | nanx d => exact absurd ho (hc.2 _ _)
      | ok x d =>
        have hx : Forall₂ Within x (computeBounds cfg.specs cfg.modes groups block0) := by
          have := hc.1 _ x d ho
          simpa [hb] using this
        have hcols := unpack_cols_ok groups cfg.modes cfg.specs block0 block1 x hs hx
        simp only [ho] at h
        split at h
        · simp only [Except.ok.injEq] at h
          exact ⟨block1, _, finish_fitted _ _ _ _ _ h, hs, hcols⟩
        · split at h
          · simp only [Except.ok.injEq] at h
            exact ⟨block1, _, finish_fitted _ _ _ _ _ h, hs, hcols⟩
          · exact rounds_success cfg opt hc groups pgroups pb n block0 hsm hb fuel (k + 1) _ _
              (unpack_shape groups cfg.modes cfg.specs block0 block1 x hsm hs hx) blk dev h
    · simp [hp] at h

theorem shape_refl : ∀ b : List (List Rat), Shape b b
  | [] => by simp [Shape]
  | _ :: bs => ⟨rfl, shape_refl bs⟩

/-- Clause "every successfully fitted feature stays within all requested and default bounds",
ASSUMING the optimiser's contract.  If the fit of a block succeeds, the start block was finite and
every written column `c'` satisfies `ColOK` against the start column `c0`:
* mode `var` (1): entry by entry within `[lowOf s p, highOf s p]` of ITS OWN start value `p` — by
  `bounds_narrowest_*` that is every requested bound and, by `default_bounds_*`, the defaults;
* shared modes (global / cluster): one value per sharing group, within the packed bounds
  `[min lows, max highs]` of the group — by `packed_respects_common_*` still within every absolute
  bound and the default positivity;
* mode `const` (0): unchanged.
This holds after any number of rounds (the bounds are those of the START values throughout). -/
theorem success_within_bounds (cfg : Cfg) (opt : Problem → OptOut) (hc : OptContract opt)
    (hsm : cfg.specs.length = cfg.modes.length)
    (groups : Option (List (List Nat))) (pgroups : List (List Nat)) (tag n : Nat)
    (blockO blk : List (List (Option Rat))) (dev : Option Rat)
    (h : fitBlock cfg opt groups pgroups tag n blockO = .ok (.fitted blk dev)) :
    ∃ block0 prev cols', allFinite blockO = some block0 ∧ blk = someBlock cols' ∧
      Shape block0 prev ∧ ColsOK groups cfg.modes cfg.specs block0 prev cols' := by
  unfold fitBlock at h
  cases hf : allFinite blockO with
  | none => simp [hf] at h
  | some block0 =>
    simp only [hf] at h
    split at h
    · simp at h
    · obtain ⟨prev, cols', h1, h2, h3⟩ :=
        rounds_success cfg opt hc groups pgroups _ n block0 hsm rfl cfg.maxIter 0 _ block0
          (shape_refl block0) blk dev h
      exact ⟨block0, prev, cols', rfl, h1, h2, h3⟩

/-! ## the defect found: infeasible bounds reach scipy -/

/-- what scipy does with `lb > ub` (observed: `ValueError: An upper bound is less than the
corresponding lower bound`), stated as a property of an optimiser -/
def RaisesOnInfeasible (opt : Problem → OptOut) : Prop :=
  ∀ pb, infeasible pb.bounds = true → opt pb = .raise

/-- the configuration of the witness: image 40x50, mask radius 5, the user asks
for the absolute window `x ∈ [5, 25]`; default modes (background per cluster, signal and position
per feature, size constant) -/
def witnessCfg (feas : Bool) : Cfg :=
  { specs := validateBounds [("x", .pair (some 5) (some 25))] [5, 5]
      [⟨"background", .background⟩, ⟨"signal", .signal⟩, ⟨"y", .pos 0⟩, ⟨"x", .pos 1⟩,
       ⟨"size", .size⟩],
    modes := [3, 1, 1, 1, 0], ndim := 2, shape := [40, 50], radius := [5, 5], maxIter := 10,
    maxShift := 1, maxDev := 1, feasCheck := feas }

/-- one feature at (y, x) = (15, 31): `lb = max(31-5, 5) = 26 > ub = min(31+5, 25) = 25` -/
def witnessTable31 : Table :=
  { cols := [[some 0], [some 180], [some 15], [some 31], [some 2]], cost := [Cost.unset] }

/-- GENERAL (code as found, `feasCheck = false`): a finite block whose bounds are infeasible and
whose start lies in the image makes the call raise, for every optimiser that behaves like scipy. -/
theorem fitBlock_raises_on_infeasible (cfg : Cfg) (opt : Problem → OptOut)
    (h : RaisesOnInfeasible opt) (groups : Option (List (List Nat))) (pgroups : List (List Nat))
    (tag n : Nat) (blockO : List (List (Option Rat))) (block : List (List Rat))
    (h1 : allFinite blockO = some block) (h2 : cfg.feasCheck = false)
    (h3 : infeasible (computeBounds cfg.specs cfg.modes groups block) = true)
    (h4 : prepOK cfg pgroups (coordCols cfg.ndim block) = true) (h5 : 0 < cfg.maxIter) :
    fitBlock cfg opt groups pgroups tag n blockO = .error .optimiserRaised := by
  unfold fitBlock
  obtain ⟨k, hk⟩ := Nat.exists_eq_succ_of_ne_zero (Nat.pos_iff_ne_zero.mp h5)
  simp only [h1, h2, hk, Bool.false_and, Bool.false_eq_true, if_false]
  unfold rounds
  simp only [h4, Bool.not_true, Bool.false_eq_true, if_false]
  rw [h _ h3]

/-- GENERAL (repaired code, `feasCheck = true`): the same block is a FAILED FIT for every
optimiser (which is not even called). -/
theorem fitBlock_fails_on_infeasible (cfg : Cfg) (opt : Problem → OptOut)
    (groups : Option (List (List Nat))) (pgroups : List (List Nat))
    (tag n : Nat) (blockO : List (List (Option Rat))) (block : List (List Rat))
    (h1 : allFinite blockO = some block) (h2 : cfg.feasCheck = true)
    (h3 : infeasible (computeBounds cfg.specs cfg.modes groups block) = true) :
    fitBlock cfg opt groups pgroups tag n blockO = .ok .failed := by
  unfold fitBlock
  simp [h1, h2, h3]

/-- WITNESS.  With the code as found, every optimiser that behaves like scipy on `lb > ub` makes
the whole call raise: the fit of ONE feature that cannot succeed (x = 31, window [5, 25], radius 5:
`lb = max(31-5, 5) = 26 > ub = min(31+5, 25) = 25`) aborts `refine_leastsq` — the negation of
"never raises because a fit failed".  Replayed on the real code (corpus/C16). -/
theorem infeasible_bounds_witness (opt : Problem → OptOut) (h : RaisesOnInfeasible opt) :
    refineCtl (witnessCfg false) opt witnessTable31 [[0]] = .error .optimiserRaised := by
  have hf : fitBlock (witnessCfg false) opt none [List.range [0].length] 0 [0].length
      (extract witnessTable31 [0]) = .error .optimiserRaised :=
    fitBlock_raises_on_infeasible (witnessCfg false) opt h none _ 0 _ _
      [[0], [180], [15], [31], [2]] (by decide +kernel) rfl (by decide +kernel)
      (by decide +kernel) (by decide)
  have hm : (witnessCfg false).modes.any (fun m => decide (m = 2)) = false := by decide
  unfold refineCtl
  simp only [hm, Bool.false_eq_true, if_false, refineClusters, stepCluster, hf]

/-- … and with the repair (`feasCheck = true`) the same input is a failed fit: values kept,
cost NaN, for every optimiser. -/
theorem infeasible_bounds_fail (opt : Problem → OptOut) :
    refineCtl (witnessCfg true) opt witnessTable31 [[0]] =
      .ok { witnessTable31 with cost := [Cost.nan] } := by
  have hf : fitBlock (witnessCfg true) opt none [List.range [0].length] 0 [0].length
      (extract witnessTable31 [0]) = .ok .failed :=
    fitBlock_fails_on_infeasible (witnessCfg true) opt none _ 0 _ _
      [[0], [180], [15], [31], [2]] (by decide +kernel) rfl (by decide +kernel)
  have hm : (witnessCfg true).modes.any (fun m => decide (m = 2)) = false := by decide
  unfold refineCtl
  simp only [hm, Bool.false_eq_true, if_false, refineClusters, stepCluster, hf]
  rfl

/-! ## non-vacuity -/

/-- the docstring's example `{'x': (2, 6), 'x_abs': (4, 6), 'x_rel': (1.5, 2.5)}` at x = 5:
candidates low {1, 10/3, 2} -> 10/3, high {11, 12.5, 6} -> 6 -/
example :
    let s := specFor [("x", .pair (some 2) (some 6)), ("x_abs", .pair (some 4) (some 6)),
                      ("x_rel", .pair (some (3/2)) (some (5/2)))] [5, 5] ⟨"x", .pos 1⟩
    lowOf s 5 = some (10/3) ∧ highOf s 5 = some 6 := by decide +kernel

/-- `bounds_contain_start` is not vacuous, and its hypotheses matter: a relative bound on a
negative start is infeasible -/
example : inB 5 (lowOf ⟨(some 2, some 6), (some 4, some 6), (some (3/2), some (5/2))⟩ 5,
                 highOf ⟨(some 2, some 6), (some 4, some 6), (some (3/2), some (5/2))⟩ 5) = true ∧
    infeasible [(lowOf ⟨(none, none), (none, none), (some 2, some 2)⟩ (-1),
                 highOf ⟨(none, none), (none, none), (some 2, some 2)⟩ (-1))] = true := by
  decide +kernel

/-- an optimiser satisfying the contract exists (it returns the lower bounds — here all given),
and a two-cluster run in which the first cluster fails (start outside the image) and the second
succeeds: first row untouched with cost NaN, second row written -/
def demoOpt (pb : Problem) : OptOut := .ok (pb.bounds.map (fun b => b.1.getD 0)) (some (1/100))

example : OptContract (fun _ => OptOut.fail) := by
  constructor
  · intro pb x dev h
    cases h
  · intro pb dev h
    cases h

def demoCfg : Cfg :=
  { specs := validateBounds [] [5, 5]
      [⟨"background", .background⟩, ⟨"signal", .signal⟩, ⟨"y", .pos 0⟩, ⟨"x", .pos 1⟩,
       ⟨"size", .size⟩],
    modes := [3, 1, 1, 1, 0], ndim := 2, shape := [40, 50], radius := [5, 5], maxIter := 10,
    maxShift := 100, maxDev := 1, feasCheck := true }

example :
    refineCtl demoCfg demoOpt
      { cols := [[some 0, some 0], [some 180, some 180], [some 15, some 15], [some 70, some 30],
                 [some 2, some 2]], cost := [Cost.unset, Cost.unset] } [[0], [1]] =
    .ok { cols := [[some 0, some (1/10000000)], [some 180, some (1/10000000)], [some 15, some 10],
                   [some 70, some 25], [some 2, some 2]],
          cost := [Cost.nan, Cost.val (1/100)] } := by
  decide +kernel

end TrackpyV.Bounds
